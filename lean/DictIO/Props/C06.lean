/-
  C06 -- Include merging: `DictReader._merge_includes` / `_merge_includes_recursive` (repaired, fix D14).
  Model: `mergeIncludesRec`, `mergeIncludes`, `readFile`, `removeIncludeKeys`, `spellJoin`, `resolveSpelled` (Model/Reader.lean).

    (step)  `inclStep`, `mergeIncludesRec_succ`   the body of the `for` loop as a definition of its own (the recursive call a
                                    parameter); `mergeIncludesRec (fuel+1)` is the `foldlM` of it (by `rfl`)
    a  `C06_cut_edge` (`_cycle`, `_missing`, `_fold`, `C06_all_cut`)
                                    an include whose resolved target is on the chain of ancestors, or not in the file system,
                                    leaves the accumulator (merged includes, counter) unchanged; the loop goes on
    b  `inclStep_live`, `readFile_anchor`, `C06_anchor`, `C06_anchor_norm`, `C06_anchor_abs`, `spellJoin_abs`,
       `C06_anchor_nested`          the path looked up is `resolve(joinpath(dir, name))`, `dir` the directory of the file that
                                    contains the directive (for nested files: `joinpath(dir, name).parent`); for relative
                                    names this is `joinNorm (resolve dir) (components of name)`; absolute names ignore `dir`
    c  `Chain`, `C06_chain_bound` (pigeonhole), `Chain.extend`, `C06_fuel_pos`, `C06_call_invariant`,
       `fuel_step`, `C06_fuel_mono`, `C06_fuel_suffices`, `mergeIncludes_fuel`
                                    the chain consists of distinct existing paths, so it is never longer than `fs.length`; with
                                    the initial fuel `fs.length + 1` at least one unit is left at every call, and the result is
                                    the result for every larger fuel: the bound never ends the recursion (finite graphs,
                                    cycles included, terminate with the full answer)
    d  `readFile_off`, `C06_off`, `removeIncludeKeys_spec`, `removeIncludeKeys_no_placeholder`, `removeIncludeKeys_keeps`
                                    `includes := false`: nothing merged, no include entry in the data
    e  `C06_flat`, `C06_flat_data`, `C06_parent_wins`, `C06_earlier_include_wins`
                                    one level of includes: result = `parent.merge(temp)`, `temp` the left fold of `merge` over
                                    the included dicts; the including file wins, an earlier include wins over a later one.
                                    Helper of independent use: `clean_spec` (`_clean` keeps unique keys unique and every
                                    top-level non-dict entry whose key is not a comment/include placeholder — no `NoPh`
                                    hypothesis, which a file with includes never satisfies)
       `C06_eq_fold_statement : Prop`   general case (nested): stated, not proved — correspondence check

  Hypotheses added in (e): the value is not a dict (dicts are merged key by key: `C07.merge_lookup`), the key is not a
  placeholder key (`_clean` may delete duplicate placeholder entries), the value is not a reference to its own key
  (`a $a` is a placeholder the merge overwrites, fix D15), keys of the parsed dicts are unique (true of every Python dict;
  the association-list model admits duplicates).
  Non-vacuity: `exFs` (nested include, cycle, missing file, `..`), evaluated in the kernel.
-/
import DictIO.Model.Reader
import DictIO.Props.C07
import DictIO.Props.C04

namespace DictIO.C06
open DictIO

/-! ## the step of the include loop -/

/-- the body of the `for` loop of `_merge_includes_recursive` for one include entry `e` of a file whose directory (as
    spelled) is `dir`; `ancestors` is the chain of resolved paths of the files being merged; `recur` is the recursive call -/
def inclStep (fs : FS) (comments : Bool)
    (recur : List Comps → SD → Comps → Counter → Except ParseErr (SD × Counter))
    (ancestors : List Comps) (dir : Comps) (acc : SD × Counter) (e : Nat × InclEntry) : Except ParseErr (SD × Counter) := do
  let (temp, c) := acc
  let spelled := spellJoin dir e.2.file
  let target := resolveSpelled spelled
  if ancestors.contains target then pure (temp, c)
  else match fs.get target with
    | none => pure (temp, c)
    | some _ => do
      let (included, c) ← parseFile fs comments c spelled
      if included.incl.isEmpty then pure (temp.merge (.sd included), c)
      else do
        let (nested, c) ← recur (ancestors ++ [target]) included spelled.dropLast c
        pure ((temp.merge (.sd nested)).merge (.sd nested), c)

theorem mergeIncludesRec_zero (fs : FS) (comments : Bool) (ancestors : List Comps) (parent : SD) (dir : Comps) (c : Counter) :
    mergeIncludesRec fs comments 0 ancestors parent dir c = .ok (parent, c) := rfl

theorem mergeIncludesRec_succ (fs : FS) (comments : Bool) (fuel : Nat) (ancestors : List Comps) (parent : SD) (dir : Comps)
    (c : Counter) :
    mergeIncludesRec fs comments (fuel + 1) ancestors parent dir c =
      (parent.incl.foldlM (inclStep fs comments (mergeIncludesRec fs comments fuel) ancestors dir) (({} : SD), c)).map
        (fun r => (parent.merge (.sd r.1), r.2)) := by
  rfl

/-! ## a. a cut edge contributes nothing and does not stop the loop -/

/-- an include whose resolved target is on the chain of ancestors (a cycle) is skipped: the accumulator — the merged
    includes so far and the counter — goes on unchanged to the next include -/
theorem C06_cut_edge_cycle (fs : FS) (comments : Bool) (recur) (ancestors : List Comps) (dir : Comps) (acc : SD × Counter)
    (e : Nat × InclEntry) (h : ancestors.contains (resolveSpelled (spellJoin dir e.2.file)) = true) :
    inclStep fs comments recur ancestors dir acc e = pure acc := by
  simp only [inclStep, h, if_true]

/-- an include whose target is not in the file system is skipped in the same way -/
theorem C06_cut_edge_missing (fs : FS) (comments : Bool) (recur) (ancestors : List Comps) (dir : Comps) (acc : SD × Counter)
    (e : Nat × InclEntry) (h : fs.get (resolveSpelled (spellJoin dir e.2.file)) = none) :
    inclStep fs comments recur ancestors dir acc e = pure acc := by
  simp only [inclStep, h]
  split <;> rfl

/-- **C06 (cut edge).** both cases -/
theorem C06_cut_edge (fs : FS) (comments : Bool) (recur) (ancestors : List Comps) (dir : Comps) (acc : SD × Counter)
    (e : Nat × InclEntry)
    (h : ancestors.contains (resolveSpelled (spellJoin dir e.2.file)) = true ∨
         fs.get (resolveSpelled (spellJoin dir e.2.file)) = none) :
    inclStep fs comments recur ancestors dir acc e = pure acc :=
  h.elim (C06_cut_edge_cycle fs comments recur ancestors dir acc e) (C06_cut_edge_missing fs comments recur ancestors dir acc e)

/-- the loop over a list of includes with a cut edge in it is the loop over the list without it -/
theorem C06_cut_edge_fold (fs : FS) (comments : Bool) (recur) (ancestors : List Comps) (dir : Comps) (acc : SD × Counter)
    (pre post : List (Nat × InclEntry)) (e : Nat × InclEntry)
    (h : ancestors.contains (resolveSpelled (spellJoin dir e.2.file)) = true ∨
         fs.get (resolveSpelled (spellJoin dir e.2.file)) = none) :
    (pre ++ e :: post).foldlM (inclStep fs comments recur ancestors dir) acc =
      (pre ++ post).foldlM (inclStep fs comments recur ancestors dir) acc := by
  simp only [List.foldlM_append, List.foldlM_cons]
  congr 1
  funext acc'
  rw [C06_cut_edge fs comments recur ancestors dir acc' e h]
  rfl

/-- a file all of whose includes are cut edges comes back merged with the empty dict -/
theorem C06_all_cut (fs : FS) (comments : Bool) (fuel : Nat) (ancestors : List Comps) (parent : SD) (dir : Comps) (c : Counter)
    (h : ∀ e ∈ parent.incl, ancestors.contains (resolveSpelled (spellJoin dir e.2.file)) = true ∨
         fs.get (resolveSpelled (spellJoin dir e.2.file)) = none) :
    mergeIncludesRec fs comments (fuel + 1) ancestors parent dir c = .ok (parent.merge (.sd {}), c) := by
  rw [mergeIncludesRec_succ]
  have : ∀ (l : List (Nat × InclEntry)) (acc : SD × Counter), (∀ e ∈ l, ancestors.contains (resolveSpelled (spellJoin dir e.2.file)) = true ∨
         fs.get (resolveSpelled (spellJoin dir e.2.file)) = none) →
      l.foldlM (inclStep fs comments (mergeIncludesRec fs comments fuel) ancestors dir) acc = .ok acc := by
    intro l
    induction l with
    | nil => intro acc _; rfl
    | cons e l ih =>
      intro acc hl
      rw [List.foldlM_cons, C06_cut_edge _ _ _ _ _ _ _ (hl e List.mem_cons_self)]
      exact ih acc fun e' he' => hl e' (List.mem_cons_of_mem _ he')
  rw [this _ _ h]; rfl

/-! ## b. the target is anchored at the directory of the including file -/

/-- a live edge: the file parsed is `joinpath(dir, name)` with `dir` the directory of the file that contains the directive,
    found in the file system under its resolved path; what it includes itself is resolved against *its* directory
    `joinpath(dir, name).parent` -/
theorem inclStep_live (fs : FS) (comments : Bool) (recur) (ancestors : List Comps) (dir : Comps) (acc : SD × Counter)
    (e : Nat × InclEntry) {b : FileBody}
    (h1 : ancestors.contains (resolveSpelled (spellJoin dir e.2.file)) = false)
    (h2 : fs.get (resolveSpelled (spellJoin dir e.2.file)) = some b) :
    inclStep fs comments recur ancestors dir acc e =
      (parseFile fs comments acc.2 (spellJoin dir e.2.file)).bind fun r =>
        if r.1.incl.isEmpty then pure (acc.1.merge (.sd r.1), r.2)
        else (recur (ancestors ++ [resolveSpelled (spellJoin dir e.2.file)]) r.1 (spellJoin dir e.2.file).dropLast r.2).bind
          fun n => pure ((acc.1.merge (.sd n.1)).merge (.sd n.1), n.2) := by
  simp only [inclStep, h1, h2]
  rfl

/-- the top-level call: the includes of the file read are resolved against the directory of that file -/
theorem readFile_anchor (ev : Str → EvalResult) (fs : FS) (o : ReadOpts) (c : Counter) (p : Comps) (h : o.includes = true) :
    readFile ev fs o c p =
      (parseFile fs o.comments c p).bind fun r =>
        (mergeIncludes fs o.comments r.1 p.dropLast r.2).bind fun r' =>
          (evalExpressions ev r'.1).bind fun sd =>
            if !o.scope.isEmpty && !pathExists sd.data o.scope then pure .exit1
            else pure (.ok (let sd := if o.scope.isEmpty then sd else sd.reduceScope o.scope
                            if o.order then sd.order else sd) r'.2) := by
  simp only [readFile, h, if_true]
  rfl

theorem spellJoin_abs_eq (dir : Comps) (name : Str) (h : name.head? = some '/') :
    spellJoin dir name = (splitSlash name).filter fun c => c != ['.'] := by
  simp [spellJoin, h]

/-- an absolute name ignores the directory -/
theorem spellJoin_abs (dir dir' : Comps) (name : Str) (h : name.head? = some '/') :
    spellJoin dir name = spellJoin dir' name := by
  rw [spellJoin_abs_eq dir name h, spellJoin_abs_eq dir' name h]

theorem spellJoin_rel (dir : Comps) (name : Str) (h : name.head? ≠ some '/') :
    spellJoin dir name = dir ++ (splitSlash name).filter fun c => c != ['.'] := by
  simp [spellJoin, h]

theorem joinNorm_append (a x y : Comps) : joinNorm a (x ++ y) = joinNorm (joinNorm a x) y := by
  simp [joinNorm, List.foldl_append]

theorem joinNorm_nil (a : Comps) : joinNorm a [] = a := rfl

theorem joinNorm_cons (a : Comps) (c : Str) (l : Comps) :
    joinNorm a (c :: l) = joinNorm (if c == ['.', '.'] then a.dropLast else if c == ['.'] then a else a ++ [c]) l := rfl

/-- `.` components do not matter -/
theorem joinNorm_filter_dot : ∀ (l a : Comps), joinNorm a (l.filter fun c => c != ['.']) = joinNorm a l
  | [], _ => rfl
  | c :: l, a => by
    by_cases h : c = ['.']
    · subst h
      simp only [List.filter_cons, bne_self_eq_false, Bool.false_eq_true, if_false, joinNorm_cons]
      rw [joinNorm_filter_dot l a]
      simp
    · have : (c != ['.']) = true := by simpa using h
      simp only [List.filter_cons, this, if_true, joinNorm_cons]
      exact joinNorm_filter_dot l _

/-- a path without `.`/`..` components is its own resolution -/
theorem joinNorm_noDots : ∀ (l a : Comps), (∀ c ∈ l, isDots c = false) → joinNorm a l = a ++ l
  | [], a, _ => by simp [joinNorm_nil]
  | c :: l, a, h => by
    have hc := h c List.mem_cons_self
    simp only [isDots, Bool.or_eq_false_iff, beq_eq_false_iff_ne] at hc
    have h1 : (c == ['.', '.']) = false := by simpa using hc.2
    have h2 : (c == ['.']) = false := by simpa using hc.1
    rw [joinNorm_cons, h1, h2]
    simp only [Bool.false_eq_true, if_false]
    rw [joinNorm_noDots l _ fun c' hc' => h c' (List.mem_cons_of_mem _ hc')]
    simp

theorem resolveSpelled_norm {p : Comps} (h : NormComps p) : resolveSpelled p = p := by
  simpa [resolveSpelled] using joinNorm_noDots p [] fun c hc => (h c hc).2.1

/-- **C06 (anchor).** for a relative name the path looked up is the directory of the including file (resolved) followed by
    the components of the name, `.` dropped and `..` popping a component -/
theorem C06_anchor (dir : Comps) (name : Str) (h : name.head? ≠ some '/') :
    resolveSpelled (spellJoin dir name) = joinNorm (resolveSpelled dir) (splitSlash name) := by
  rw [spellJoin_rel dir name h, resolveSpelled, joinNorm_append, joinNorm_filter_dot]
  rfl

/-- … and when the directory is a normalised path (as the resolved path of a file is), it is `normpath(dir / name)` -/
theorem C06_anchor_norm {dir : Comps} (hd : NormComps dir) (name : Str) (h : name.head? ≠ some '/') :
    resolveSpelled (spellJoin dir name) = joinNorm dir (splitSlash name) := by
  rw [C06_anchor dir name h, resolveSpelled_norm hd]

/-- an absolute name: the directory plays no role -/
theorem C06_anchor_abs (dir : Comps) (name : Str) (h : name.head? = some '/') :
    resolveSpelled (spellJoin dir name) = joinNorm [] (splitSlash name) := by
  rw [spellJoin_abs_eq dir name h, resolveSpelled, joinNorm_filter_dot]

/-- the directory handed to the nested call is the directory part of `joinpath(dir, name)`: a file included from
    `sub/inc.dict` resolves its own includes against `dir/sub`, not against `dir` -/
theorem C06_anchor_nested (dir : Comps) (name : Str) (h : name.head? ≠ some '/')
    (hne : ((splitSlash name).filter fun c => c != ['.']) ≠ []) :
    (spellJoin dir name).dropLast = dir ++ ((splitSlash name).filter fun c => c != ['.']).dropLast := by
  rw [spellJoin_rel dir name h, List.dropLast_append_of_ne_nil hne]

example : (spellJoin ["top".toList] "sub/inc.dict".toList).dropLast = ["top".toList, "sub".toList] := by decide
example : resolveSpelled (spellJoin ["top".toList, "sub".toList] "../other/x.dict".toList)
    = ["top".toList, "other".toList, "x.dict".toList] := by decide

/-! ## d. `includes=False` -/

/-- with `includes := false` nothing is merged: the file is parsed, its expressions are evaluated, and the include
    placeholder entries are removed from the (top level of the) data -/
theorem readFile_off (ev : Str → EvalResult) (fs : FS) (o : ReadOpts) (c : Counter) (p : Comps) (h : o.includes = false) :
    readFile ev fs o c p =
      (parseFile fs o.comments c p).bind fun r =>
        (evalExpressions ev r.1).bind fun sd =>
          if !o.scope.isEmpty && !pathExists sd.data o.scope then pure .exit1
          else
            let sd := if o.scope.isEmpty then sd else sd.reduceScope o.scope
            let sd := if o.order then sd.order else sd
            pure (.ok { sd with data := removeIncludeKeys sd.data } r.2) := by
  simp only [readFile, h]
  rfl

theorem mem_tails_append {α} (x : List α) : ∀ pre : List α, x ∈ tails (pre ++ x)
  | [] => by cases x <;> simp [tails]
  | a :: pre => by
    simp only [List.cons_append, tails, List.mem_cons]
    exact Or.inr (mem_tails_append x pre)

theorem isPrefixOf_append_self (a b : Str) : a.isPrefixOf (a ++ b) = true := by
  induction a with
  | nil => simp
  | cons x a ih => simp [ih]

/-- the test `re.search("INCLUDE[0-9;]+", key)` finds every occurrence of `INCLUDE` followed by a digit -/
theorem containsPhDigits_of_occurrence (pre post : Str) (d : Char) (hd : '0' ≤ d ∧ d ≤ '9') :
    removeIncludeKeys.containsPhDigits kwIncl (pre ++ kwIncl ++ d :: post) = true := by
  simp only [removeIncludeKeys.containsPhDigits, List.any_eq_true]
  refine ⟨kwIncl ++ d :: post, ?_, ?_⟩
  · rw [List.append_assoc]; exact mem_tails_append _ pre
  · rw [isPrefixOf_append_self]
    simp [hd]

/-- **C06 (off), keys.** what `_remove_include_keys` leaves has no string key in which `INCLUDE` is followed by a digit -/
theorem removeIncludeKeys_spec (es : Entries) :
    ∀ e ∈ removeIncludeKeys es, ∀ k, e.1 = .str k → ∀ pre post d, ('0' ≤ d ∧ d ≤ '9') → k ≠ pre ++ kwIncl ++ d :: post := by
  intro e he k hk pre post d hd heq
  simp only [removeIncludeKeys, List.mem_filter] at he
  rw [hk] at he
  have := he.2
  simp only [Bool.not_eq_true'] at this
  rw [heq, containsPhDigits_of_occurrence pre post d hd] at this
  cases this

theorem padSix_shape (i : Nat) : ∃ d r, padSix i = d :: r ∧ ('0' ≤ d ∧ d ≤ '9') := by
  have hall : ∀ d ∈ padSix i, '0' ≤ d ∧ d ≤ '9' := by
    intro d hd
    simp only [padSix, List.mem_append, List.mem_replicate] at hd
    rcases hd with ⟨_, rfl⟩ | hd
    · decide
    · have := C04.natDigits_ascii i d hd
      simp only [C04.IsAsciiDigit, List.mem_cons, List.not_mem_nil, or_false] at this
      rcases this with rfl | rfl | rfl | rfl | rfl | rfl | rfl | rfl | rfl | rfl <;> decide
  cases h : padSix i with
  | nil =>
    have : natDigits i = [] := by
      simp only [padSix, List.append_eq_nil_iff] at h
      exact h.2
    exact absurd this (C04.natDigits_ne_nil i)
  | cons d r => exact ⟨d, r, rfl, hall d (by rw [h]; exact List.mem_cons_self)⟩

/-- … in particular no include placeholder `INCLUDE%06d` -/
theorem removeIncludeKeys_no_placeholder (es : Entries) (i : Nat) (v : Val) :
    (Key.str (kwIncl ++ padSix i), v) ∉ removeIncludeKeys es := by
  intro he
  obtain ⟨d, r, hp, hd⟩ := padSix_shape i
  exact removeIncludeKeys_spec es _ he _ rfl [] r d hd (by rw [hp]; rfl)

/-- the entries it keeps are entries of the input, in order -/
theorem removeIncludeKeys_sublist (es : Entries) : (removeIncludeKeys es).Sublist es := List.filter_sublist

/-- it removes nothing else: an entry whose key does not contain `INCLUDE` stays -/
theorem removeIncludeKeys_keeps {es : Entries} {e : Key × Val} (he : e ∈ es)
    (h : ∀ k, e.1 = .str k → isInfix kwIncl k = false) : e ∈ removeIncludeKeys es := by
  simp only [removeIncludeKeys, List.mem_filter]
  refine ⟨he, ?_⟩
  cases hk : e.1 with
  | int z => rfl
  | str k =>
    have := h k hk
    simp only [isInfix, List.any_eq_false] at this
    simp only [Bool.not_eq_true', removeIncludeKeys.containsPhDigits, List.any_eq_false, Bool.and_eq_true, not_and]
    intro t ht hp
    exact absurd hp (this t ht)

/-- **C06 (off).** the data returned with `includes := false`: no include entry, and nothing merged — it is the evaluated
    data of the file itself (reduced / ordered as asked) minus the include keys -/
theorem C06_off (ev : Str → EvalResult) (fs : FS) (o : ReadOpts) (c : Counter) (p : Comps) (h : o.includes = false)
    {sd : SD} {c' : Counter} (hr : readFile ev fs o c p = .ok (.ok sd c')) :
    ∃ parsed evald, parseFile fs o.comments c p = .ok (parsed, c') ∧ evalExpressions ev parsed = .ok evald ∧
      sd.data = removeIncludeKeys
        (let s := if o.scope.isEmpty then evald else evald.reduceScope o.scope
         if o.order then s.order else s).data ∧
      ∀ e ∈ sd.data, ∀ k, e.1 = .str k → ∀ pre post d, ('0' ≤ d ∧ d ≤ '9') → k ≠ pre ++ kwIncl ++ d :: post := by
  rw [readFile_off ev fs o c p h] at hr
  cases hp : parseFile fs o.comments c p with
  | error x => rw [hp] at hr; cases hr
  | ok r =>
    rw [hp] at hr
    cases hev : evalExpressions ev r.1 with
    | error x => simp only [Except.bind, hev] at hr; cases hr
    | ok evald =>
      simp only [Except.bind, hev] at hr
      split at hr
      · cases hr
      · simp only [pure, Except.pure, Except.ok.injEq, ReadOut.ok.injEq] at hr
        obtain ⟨h1, h2⟩ := hr
        subst h1 h2
        exact ⟨r.1, evald, rfl, hev, rfl, removeIncludeKeys_spec _⟩

/-! ## c. the fuel `fs.length + 1` suffices: termination on every finite include graph -/

/-- the invariant of the chain of ancestors: pairwise distinct resolved paths of files that exist -/
structure Chain (fs : FS) (ancestors : List Comps) : Prop where
  nodup : ancestors.Nodup
  inFs : ∀ a ∈ ancestors, (fs.get a).isSome = true

theorem Chain.nil (fs : FS) : Chain fs [] := ⟨List.nodup_nil, fun _ h => by cases h⟩

theorem mem_keys_of_get {fs : FS} {a : Comps} (h : (fs.get a).isSome = true) : a ∈ fs.map (·.1) := by
  simp only [FS.get, Option.isSome_map, List.find?_isSome] at h
  obtain ⟨x, hx, hxa⟩ := h
  have : x.1 = a := by simpa using hxa
  exact this ▸ List.mem_map_of_mem hx

theorem eraseDups_length_le {α} [BEq α] : ∀ (n : Nat) (l : List α), l.length ≤ n → l.eraseDups.length ≤ l.length
  | _, [], _ => by simp
  | 0, _ :: _, h => by simp at h
  | n + 1, a :: l, h => by
    rw [List.eraseDups_cons]
    have h1 : (l.filter fun b => !b == a).length ≤ l.length := List.length_filter_le _ _
    have h2 := eraseDups_length_le n (l.filter fun b => !b == a) (by simp at h; omega)
    simp only [List.length_cons]
    omega

/-- **pigeonhole.** the chain is never longer than the number of distinct paths of the file system -/
theorem C06_chain_bound {fs : FS} {ancestors : List Comps} (h : Chain fs ancestors) :
    ancestors.length ≤ (fs.map (·.1)).eraseDups.length ∧ (fs.map (·.1)).eraseDups.length ≤ fs.length := by
  constructor
  · apply List.Nodup.length_le_of_subset h.nodup
    intro a ha
    exact List.mem_eraseDups.mpr (mem_keys_of_get (h.inFs a ha))
  · have := eraseDups_length_le _ (fs.map (·.1)) (Nat.le_refl _)
    simpa using this

theorem C06_chain_le {fs : FS} {ancestors : List Comps} (h : Chain fs ancestors) : ancestors.length ≤ fs.length :=
  Nat.le_trans (C06_chain_bound h).1 (C06_chain_bound h).2

/-- a live edge extends the chain by a path that is not on it and is in the file system -/
theorem Chain.extend {fs : FS} {ancestors : List Comps} (h : Chain fs ancestors) {t : Comps} {b : FileBody}
    (h1 : ancestors.contains t = false) (h2 : fs.get t = some b) : Chain fs (ancestors ++ [t]) := by
  have hnot : t ∉ ancestors := by simpa using h1
  constructor
  · rw [List.nodup_append]
    refine ⟨h.nodup, by simp, ?_⟩
    intro a ha b' hb' e
    rw [List.mem_singleton] at hb'
    exact hnot (hb' ▸ e ▸ ha)
  · intro a ha
    rcases List.mem_append.mp ha with ha | ha
    · exact h.inFs a ha
    · rw [List.mem_singleton] at ha; rw [ha, h2]; rfl

/-- **the invariant lemma.** wherever the recursion stands with a chain of distinct existing files and the fuel that
    is left of the initial `fs.length + 1`, at least one unit of fuel is left: the `0` branch is not taken -/
theorem C06_fuel_pos {fs : FS} {ancestors : List Comps} (h : Chain fs ancestors) {k : Nat}
    (hk : ancestors.length + k = fs.length + 1) : k ≥ 1 := by
  have := C06_chain_le h
  omega

/-- … and the invariant is handed on: the recursive call for a live edge is made with the chain extended by one and the
    fuel decreased by one (see `inclStep_live` for the call itself) -/
theorem C06_call_invariant {fs : FS} {ancestors : List Comps} (h : Chain fs ancestors) {fuel : Nat}
    (hk : ancestors.length + (fuel + 1) = fs.length + 1) {t : Comps} {b : FileBody}
    (h1 : ancestors.contains t = false) (h2 : fs.get t = some b) :
    Chain fs (ancestors ++ [t]) ∧ (ancestors ++ [t]).length + fuel = fs.length + 1 ∧ fuel ≥ 1 := by
  have hc := h.extend h1 h2
  have hl : (ancestors ++ [t]).length + fuel = fs.length + 1 := by simp; omega
  exact ⟨hc, hl, C06_fuel_pos hc hl⟩

/-- the step depends on the recursive call only at live edges -/
theorem inclStep_congr (fs : FS) (comments : Bool) (r1 r2) (ancestors : List Comps) (dir : Comps)
    (h : ∀ t b, ancestors.contains t = false → fs.get t = some b → ∀ sd d c, r1 (ancestors ++ [t]) sd d c = r2 (ancestors ++ [t]) sd d c)
    (acc : SD × Counter) (e : Nat × InclEntry) :
    inclStep fs comments r1 ancestors dir acc e = inclStep fs comments r2 ancestors dir acc e := by
  cases h1 : ancestors.contains (resolveSpelled (spellJoin dir e.2.file)) with
  | true => rw [C06_cut_edge_cycle _ _ _ _ _ _ _ h1, C06_cut_edge_cycle _ _ _ _ _ _ _ h1]
  | false =>
    cases h2 : fs.get (resolveSpelled (spellJoin dir e.2.file)) with
    | none => rw [C06_cut_edge_missing _ _ _ _ _ _ _ h2, C06_cut_edge_missing _ _ _ _ _ _ _ h2]
    | some b =>
      rw [inclStep_live _ _ _ _ _ _ _ h1 h2, inclStep_live _ _ _ _ _ _ _ h1 h2]
      congr 1
      funext r
      rw [h _ b h1 h2]

/-- one more unit of fuel changes nothing once the fuel covers the files not yet on the chain -/
theorem fuel_step (fs : FS) (comments : Bool) : ∀ (n : Nat) (ancestors : List Comps), Chain fs ancestors →
    fs.length + 1 ≤ ancestors.length + n → ∀ parent dir c,
    mergeIncludesRec fs comments (n + 1) ancestors parent dir c = mergeIncludesRec fs comments n ancestors parent dir c
  | 0, ancestors, hch, hn, _, _, _ => by
    have := C06_chain_le hch
    omega
  | n + 1, ancestors, hch, hn, parent, dir, c => by
    rw [mergeIncludesRec_succ, mergeIncludesRec_succ]
    have : inclStep fs comments (mergeIncludesRec fs comments (n + 1)) ancestors dir =
        inclStep fs comments (mergeIncludesRec fs comments n) ancestors dir := by
      funext acc e
      apply inclStep_congr
      intro t b h1 h2 sd d c'
      exact fuel_step fs comments n (ancestors ++ [t]) (hch.extend h1 h2) (by simp; omega) sd d c'
    rw [this]

/-- **C06 (fuel suffices).** with the initial fuel `fs.length + 1` (in general: with fuel that covers the files not on the
    chain) the result is the result for *every* larger fuel: the bound is never what ends the recursion -/
theorem C06_fuel_mono (fs : FS) (comments : Bool) {ancestors : List Comps} (hch : Chain fs ancestors) {n : Nat}
    (hn : fs.length + 1 ≤ ancestors.length + n) (parent : SD) (dir : Comps) (c : Counter) :
    ∀ m, n ≤ m → mergeIncludesRec fs comments m ancestors parent dir c = mergeIncludesRec fs comments n ancestors parent dir c := by
  intro m hm
  induction m with
  | zero => have : n = 0 := by omega
            subst this; rfl
  | succ m ih =>
    by_cases h : n = m + 1
    · subst h; rfl
    · rw [fuel_step fs comments m ancestors hch (by omega)]
      exact ih (by omega)

theorem C06_fuel_suffices (fs : FS) (comments : Bool) (parent : SD) (dir : Comps) (c : Counter) (m : Nat)
    (hm : fs.length + 1 ≤ m) :
    mergeIncludesRec fs comments m [] parent dir c = mergeIncludesRec fs comments (fs.length + 1) [] parent dir c :=
  C06_fuel_mono fs comments (Chain.nil fs) (by simp) parent dir c m hm

/-- `_merge_includes` with any fuel from `fs.length + 1` on -/
def mergeIncludesWith (fuel : Nat) (fs : FS) (comments : Bool) (parent : SD) (dir : Comps) (c : Counter) :
    Except ParseErr (SD × Counter) := do
  let (p, c) ← mergeIncludesRec fs comments fuel [] parent dir c
  pure (p.merge (.sd p), c)

theorem mergeIncludes_fuel (fs : FS) (comments : Bool) (parent : SD) (dir : Comps) (c : Counter) (m : Nat)
    (hm : fs.length + 1 ≤ m) :
    mergeIncludesWith m fs comments parent dir c = mergeIncludes fs comments parent dir c := by
  simp only [mergeIncludesWith, mergeIncludes, C06_fuel_suffices fs comments parent dir c m hm]

/-! ## e. one level of includes (flat graph): precedence on the data -/

/-! #### `_clean` keeps every entry that is not a comment/include placeholder -/

/-- the loop of `_clean_data` for one class of placeholder keys (the local `step` of `cleanLevel`) -/
def cleanStep {α} [BEq α] (sel : Key → Bool) (lvl : Entries) (tbl : Tbl α) : Entries × Tbl α :=
  let cand := (keys lvl).filter sel
  let r := cand.foldl (fun (acc : Entries × Tbl α × List α) k =>
    let (d, t, seen) := acc
    match k with
    | .str x =>
      (match firstSixDigits x with
      | none => acc
      | some i => match t.get? i with
        | none => acc
        | some txt =>
          if seen.contains txt then (delKey k d, t.del i, seen) else (d, t, seen ++ [txt]))
    | _ => acc) (lvl, tbl, [])
  (r.1, r.2.1)

def selB (k : Key) : Bool := match k with | .str x => containsPh kwBlock x | _ => false
def selI (k : Key) : Bool := match k with | .str x => !containsPh kwBlock x && containsPh kwIncl x | _ => false
def selL (k : Key) : Bool := match k with
  | .str x => !containsPh kwBlock x && !containsPh kwIncl x && containsPh kwLine x | _ => false

theorem cleanLevel_snd (s : SD) (lvl : Entries) :
    (cleanLevel s lvl).2 =
      (cleanStep selL (cleanStep selI (cleanStep selB lvl s.blockC).1 s.incl).1 s.lineC).1 := rfl

theorem selB_ph {k : Key} (h : selB k = true) : C07.isPhKey k = true := by
  cases k <;> simp_all [selB, C07.isPhKey]
theorem selI_ph {k : Key} (h : selI k = true) : C07.isPhKey k = true := by
  cases k <;> simp_all [selI, C07.isPhKey]
theorem selL_ph {k : Key} (h : selL k = true) : C07.isPhKey k = true := by
  cases k <;> simp_all [selL, C07.isPhKey]

/-- a property of the level that deleting a placeholder key preserves is preserved by the loop -/
theorem cleanStep_inv {α} [BEq α] (P : Entries → Prop)
    (hdel : ∀ k d, C07.isPhKey k = true → P d → P (delKey k d))
    (sel : Key → Bool) (hsel : ∀ k, sel k = true → C07.isPhKey k = true) (lvl : Entries) (tbl : Tbl α) (h : P lvl) :
    P (cleanStep sel lvl tbl).1 := by
  unfold cleanStep
  have hc : ∀ k ∈ (keys lvl).filter sel, C07.isPhKey k = true := fun k hk => hsel k (List.mem_filter.mp hk).2
  generalize (keys lvl).filter sel = cand at hc
  suffices H : ∀ (acc : Entries × Tbl α × List α), P acc.1 →
      P (cand.foldl (fun (acc : Entries × Tbl α × List α) k =>
        let (d, t, seen) := acc
        match k with
        | .str x =>
          (match firstSixDigits x with
          | none => acc
          | some i => match t.get? i with
            | none => acc
            | some txt =>
              if seen.contains txt then (delKey k d, t.del i, seen) else (d, t, seen ++ [txt]))
        | _ => acc) acc).1 from H (lvl, tbl, []) h
  induction cand with
  | nil => intro acc h; exact h
  | cons k cand ih =>
    intro acc hacc
    rw [List.foldl_cons]
    apply ih (fun k' hk' => hc k' (List.mem_cons_of_mem _ hk'))
    obtain ⟨d, t, seen⟩ := acc
    have hk := hc k List.mem_cons_self
    cases k with
    | int z => exact hacc
    | str x =>
      dsimp only
      split
      · exact hacc
      · split
        · exact hacc
        · split
          · exact hdel _ _ hk hacc
          · exact hacc

theorem cleanLevel_inv (P : Entries → Prop) (hdel : ∀ k d, C07.isPhKey k = true → P d → P (delKey k d))
    (s : SD) (lvl : Entries) (h : P lvl) : P (cleanLevel s lvl).2 := by
  rw [cleanLevel_snd]
  exact cleanStep_inv P hdel _ (fun _ => selL_ph) _ _
    (cleanStep_inv P hdel _ (fun _ => selI_ph) _ _ (cleanStep_inv P hdel _ (fun _ => selB_ph) _ _ h))

theorem lookup_delKey_ne {k k' : Key} (h : k' ≠ k) : ∀ es : Entries, lookup k' (delKey k es) = lookup k' es
  | [] => rfl
  | (k0, v0) :: es => by
    by_cases h0 : k0 = k
    · subst h0
      have : ¬ k0 = k' := fun e => h e.symm
      simp [delKey, lookup, this]
    · by_cases h1 : k0 = k'
      · subst h1; simp [delKey, lookup, h0]
      · simp [delKey, lookup, h0, h1, lookup_delKey_ne h es]

/-- `_clean_data` on one level: what is left is a sub-list of the level, and every key that is not a placeholder key
    keeps its value -/
theorem cleanLevel_spec (s : SD) (lvl : Entries) :
    (cleanLevel s lvl).2.Sublist lvl ∧ ∀ k, C07.isPhKey k = false → lookup k (cleanLevel s lvl).2 = lookup k lvl := by
  refine cleanLevel_inv (fun d => d.Sublist lvl ∧ ∀ k, C07.isPhKey k = false → lookup k d = lookup k lvl) ?_ s lvl
    ⟨List.Sublist.refl _, fun _ _ => rfl⟩
  intro k d hk ⟨h1, h2⟩
  refine ⟨(C07.delKey_sublist k d).trans h1, fun k' hk' => ?_⟩
  rw [lookup_delKey_ne (fun e => by rw [e, hk] at hk'; cases hk'), h2 k' hk']

/-- the loop of `_clean` over the dict-valued entries of a level writes cleaned sub-dicts back under keys of the level:
    the key list stays, and so does every value that is not a dict (keys unique) -/
theorem cleanRec_fold_spec (fuel : Nat) (lvl1 : Entries) (hn : (keys lvl1).Nodup) :
    ∀ (l : Entries) (acc : SD × Entries), (∀ e ∈ l, e ∈ lvl1) → keys acc.2 = keys lvl1 →
      (∀ k v, v.isDict = false → lookup k lvl1 = some v → lookup k acc.2 = some v) →
      let r := l.foldl (fun (acc : SD × Entries) e =>
          match e.2 with
          | .dict sub => ((cleanRec fuel acc.1 sub).1, setKey e.1 (.dict (cleanRec fuel acc.1 sub).2) acc.2)
          | _ => acc) acc
      keys r.2 = keys lvl1 ∧ ∀ k v, v.isDict = false → lookup k lvl1 = some v → lookup k r.2 = some v := by
  intro l
  induction l with
  | nil => intro acc _ h1 h2; exact ⟨h1, h2⟩
  | cons e l ih =>
    intro acc hsub h1 h2
    rw [List.foldl_cons]
    apply ih _ (fun e' he' => hsub e' (List.mem_cons_of_mem _ he'))
    · obtain ⟨k0, v0⟩ := e
      cases v0 with
      | leaf x => exact h1
      | list xs => exact h1
      | dict sub =>
        have hmem : (k0, Val.dict sub) ∈ lvl1 := hsub _ List.mem_cons_self
        have : k0 ∈ keys acc.2 := by rw [h1]; exact List.mem_map_of_mem (f := (·.1)) hmem
        dsimp only
        rw [C07.keys_setKey_of_mem _ _ _ this, h1]
    · obtain ⟨k0, v0⟩ := e
      cases v0 with
      | leaf x => exact h2
      | list xs => exact h2
      | dict sub =>
        have hmem : (k0, Val.dict sub) ∈ lvl1 := hsub _ List.mem_cons_self
        intro k v hv hl
        dsimp only
        rw [C07.lookup_setKey]
        by_cases hk : k0 = k
        · subst hk
          have := lookup_of_mem_nodup hn hmem
          rw [hl] at this
          cases this
          simp [Val.isDict] at hv
        · simp only [hk, if_false]; exact h2 k v hv hl

theorem cleanRec_spec (fuel : Nat) (s : SD) (lvl : Entries) (hn : (keys lvl).Nodup) :
    (keys (cleanRec fuel s lvl).2).Nodup ∧
      ∀ k v, C07.isPhKey k = false → v.isDict = false → lookup k lvl = some v → lookup k (cleanRec fuel s lvl).2 = some v := by
  cases fuel with
  | zero => exact ⟨hn, fun _ _ _ _ h => h⟩
  | succ fuel =>
    have hl := cleanLevel_spec s lvl
    have hn1 : (keys (cleanLevel s lvl).2).Nodup := (hl.1.map (·.1)).nodup hn
    have := cleanRec_fold_spec fuel (cleanLevel s lvl).2 hn1 (cleanLevel s lvl).2 ((cleanLevel s lvl).1, (cleanLevel s lvl).2)
      (fun _ h => h) rfl (fun _ _ _ h => h)
    simp only [cleanRec]
    refine ⟨this.1 ▸ hn1, fun k v hk hv h => this.2 k v hv ?_⟩
    rw [hl.2 k hk]; exact h

/-- **`_clean` and the data.** unique keys stay unique, and a top-level entry that is neither a comment/include placeholder
    nor a dict keeps its value -/
theorem clean_spec (s : SD) (hn : (keys s.data).Nodup) :
    (keys s.clean.data).Nodup ∧
      ∀ k v, C07.isPhKey k = false → v.isDict = false → lookup k s.data = some v → lookup k s.clean.data = some v := by
  have h : s.clean.data = (cleanRec (depthV (.dict s.data) + 1) s s.data).2 := rfl
  rw [h]
  exact cleanRec_spec _ s s.data hn

/-! #### `SDict.merge` on the data, through `_clean` -/

theorem nodup_keys_mergeD (top : Bool) (exprs : Tbl ExprEntry) : ∀ (b a : Entries), (keys a).Nodup →
    (keys (mergeD top exprs a b)).Nodup
  | [], a, h => by rw [C07.mergeD_nil]; exact h
  | (k, v) :: b, a, h => by
    rw [C07.mergeD_cons]
    apply nodup_keys_mergeD top exprs b
    rw [C07.keys_mstep]
    cases hk : hasKey k a with
    | true => simpa using h
    | false =>
      have hk' : k ∉ keys a := C07.hasKey_false_iff.mp hk
      simp only [Bool.false_eq_true, if_false]
      exact List.nodup_append.mpr ⟨h, by simp, by intro x hx y hy; simp at hy; subst hy; exact fun e => hk' (e ▸ hx)⟩

/-- the data of `s.merge(a)` before `_clean` -/
theorem merge_data (s : SD) (a : Arg) :
    (s.merge a).data = (({ s with data := mergeD true s.exprs s.data a.data }).postMerge a).clean.data := rfl

theorem merge_nodup (s : SD) (a : Arg) (hn : (keys s.data).Nodup) : (keys (s.merge a).data).Nodup := by
  rw [merge_data]
  apply (clean_spec _ _).1
  rw [C07.postMerge_data]
  exact nodup_keys_mergeD true s.exprs a.data s.data hn

/-- the receiver of `merge` wins: a top-level entry of it that is not a dict, not a placeholder entry and not a
    self-reference placeholder (`a $a`) is still there afterwards -/
theorem merge_receiver_wins (s : SD) (a : Arg) (hn : (keys s.data).Nodup) {k : Key} {v : Val}
    (hk : C07.isPhKey k = false) (hv : v.isDict = false) (hs : selfRef s.exprs k v = false)
    (h : lookup k s.data = some v) : lookup k (s.merge a).data = some v := by
  rw [merge_data]
  apply (clean_spec _ _).2 k v hk hv
  · rw [C07.postMerge_data]
    exact C07.merge_keeps true s.exprs k v a.data s.data h hv (by simp [hs])
  · rw [C07.postMerge_data]
    exact nodup_keys_mergeD true s.exprs a.data s.data hn

/-- a key the receiver does not have is taken from the argument -/
theorem merge_adds (s : SD) (a : Arg) (hn : (keys s.data).Nodup) (ha : (keys a.data).Nodup) {k : Key} {v : Val}
    (hk : C07.isPhKey k = false) (hv : v.isDict = false)
    (h : lookup k s.data = none) (h' : lookup k a.data = some v) : lookup k (s.merge a).data = some v := by
  rw [merge_data]
  apply (clean_spec _ _).2 k v hk hv
  · rw [C07.postMerge_data]
    show lookup k (mergeD true s.exprs s.data a.data) = some v
    rw [C07.merge_lookup true s.exprs s.data a.data ha k, h, h']
  · rw [C07.postMerge_data]
    exact nodup_keys_mergeD true s.exprs a.data s.data hn

/-! #### the flat case -/

/-- the included files parsed in the order of the directives, the counter threaded through -/
def parseIncls (fs : FS) (comments : Bool) (dir : Comps) : List (Nat × InclEntry) → Counter → Except ParseErr (List SD × Counter)
  | [], c => .ok ([], c)
  | e :: es, c => match parseFile fs comments c (spellJoin dir e.2.file) with
    | .error x => .error x
    | .ok r => match parseIncls fs comments dir es r.2 with
      | .error x => .error x
      | .ok rs => .ok (r.1 :: rs.1, rs.2)

/-- `temp`: the included dicts merged into an empty dict, in order -/
def mergeAll (incs : List SD) (t : SD) : SD := incs.foldl (fun t i => t.merge (.sd i)) t

/-- every include is a live edge -/
def Live (fs : FS) (ancestors : List Comps) (dir : Comps) (l : List (Nat × InclEntry)) : Prop :=
  ∀ e ∈ l, ancestors.contains (resolveSpelled (spellJoin dir e.2.file)) = false ∧
    (fs.get (resolveSpelled (spellJoin dir e.2.file))).isSome = true

theorem flat_fold (fs : FS) (comments : Bool) (recur) (ancestors : List Comps) (dir : Comps) :
    ∀ (l : List (Nat × InclEntry)) (acc : SD × Counter) (incs : List SD) (c' : Counter),
      Live fs ancestors dir l → parseIncls fs comments dir l acc.2 = .ok (incs, c') → (∀ i ∈ incs, i.incl.isEmpty = true) →
      l.foldlM (inclStep fs comments recur ancestors dir) acc = .ok (mergeAll incs acc.1, c')
  | [], acc, incs, c', _, hp, _ => by
    simp only [parseIncls, Except.ok.injEq, Prod.mk.injEq] at hp
    obtain ⟨rfl, rfl⟩ := hp
    rfl
  | e :: l, acc, incs, c', hl, hp, hi => by
    obtain ⟨h1, h2⟩ := hl e List.mem_cons_self
    obtain ⟨b, h2⟩ := Option.isSome_iff_exists.mp h2
    rw [List.foldlM_cons, inclStep_live _ _ _ _ _ _ _ h1 h2]
    simp only [parseIncls] at hp
    cases hpf : parseFile fs comments acc.2 (spellJoin dir e.2.file) with
    | error x => rw [hpf] at hp; cases hp
    | ok r =>
      rw [hpf] at hp
      dsimp only at hp
      cases hrest : parseIncls fs comments dir l r.2 with
      | error x => rw [hrest] at hp; cases hp
      | ok rs =>
        rw [hrest] at hp
        dsimp only at hp
        simp only [Except.ok.injEq, Prod.mk.injEq] at hp
        obtain ⟨rfl, rfl⟩ := hp
        have hr : r.1.incl.isEmpty = true := hi _ List.mem_cons_self
        simp only [Except.bind, hr, if_true, bind, pure, Except.pure]
        exact flat_fold fs comments recur ancestors dir l (acc.1.merge (.sd r.1), r.2) rs.1 rs.2
          (fun e' he' => hl e' (List.mem_cons_of_mem _ he')) hrest (fun i hi' => hi i (List.mem_cons_of_mem _ hi'))

/-- **C06 (flat case).** a file whose includes all exist, are off the chain and include nothing themselves: the result is
    the file merged (`SDict.merge`, first wins) with `temp`, the left fold of `merge` over the included dicts in the order
    of the directives -/
theorem C06_flat (fs : FS) (comments : Bool) (fuel : Nat) (ancestors : List Comps) (parent : SD) (dir : Comps) (c : Counter)
    {incs : List SD} {c' : Counter}
    (hl : Live fs ancestors dir parent.incl) (hp : parseIncls fs comments dir parent.incl c = .ok (incs, c'))
    (hi : ∀ i ∈ incs, i.incl.isEmpty = true) :
    mergeIncludesRec fs comments (fuel + 1) ancestors parent dir c = .ok (parent.merge (.sd (mergeAll incs {})), c') := by
  rw [mergeIncludesRec_succ, flat_fold fs comments _ ancestors dir parent.incl (({} : SD), c) incs c' hl hp hi]
  rfl

/-- … and its data is `_recursive_merge(parent, temp)` cleaned -/
theorem C06_flat_data (parent : SD) (incs : List SD) :
    (parent.merge (.sd (mergeAll incs {}))).data =
      (({ parent with data := mergeD true parent.exprs parent.data (mergeAll incs {}).data }).postMerge
        (.sd (mergeAll incs {}))).clean.data := rfl

theorem mergeAll_nodup : ∀ (incs : List SD) (t : SD), (keys t.data).Nodup → (keys (mergeAll incs t).data).Nodup
  | [], _, h => h
  | i :: incs, t, h => mergeAll_nodup incs (t.merge (.sd i)) (merge_nodup t (.sd i) h)

/-- an entry that is in `temp` at some point stays: later includes do not overwrite it -/
theorem mergeAll_keeps {k : Key} {v : Val} (hk : C07.isPhKey k = false) (hv : v.isDict = false)
    (hs : ∀ exprs, selfRef exprs k v = false) :
    ∀ (incs : List SD) (t : SD), (keys t.data).Nodup → lookup k t.data = some v → lookup k (mergeAll incs t).data = some v
  | [], _, _, h => h
  | i :: incs, t, hn, h =>
    mergeAll_keeps hk hv hs incs (t.merge (.sd i)) (merge_nodup t (.sd i) hn)
      (merge_receiver_wins t (.sd i) hn hk hv (hs _) h)

/-- **C06 (the including file wins).** a top-level entry of the including file (not a dict — dicts are merged key by key,
    `C07.merge_lookup` —, not a comment/include placeholder entry, not a self-reference placeholder) has the same
    value in the result, whatever the includes define for that key -/
theorem C06_parent_wins (parent : SD) (incs : List SD) (hn : (keys parent.data).Nodup) {k : Key} {v : Val}
    (hk : C07.isPhKey k = false) (hv : v.isDict = false) (hs : selfRef parent.exprs k v = false)
    (h : lookup k parent.data = some v) :
    lookup k (parent.merge (.sd (mergeAll incs {}))).data = some v :=
  merge_receiver_wins parent _ hn hk hv hs h

/-- **C06 (an earlier include wins over a later one).** a top-level entry of the `n`-th included file whose key none of
    the earlier includes and not the including file defines has the same value in the result, whatever the later
    includes define.  (`hs`: the value is not a reference to its own key; automatically true for non-strings.) -/
theorem C06_earlier_include_wins (parent : SD) (pre post : List SD) (inc : SD) (hn : (keys parent.data).Nodup)
    (hni : (keys inc.data).Nodup) {k : Key} {v : Val}
    (hk : C07.isPhKey k = false) (hv : v.isDict = false) (hs : ∀ exprs, selfRef exprs k v = false)
    (hparent : lookup k parent.data = none) (hpre : lookup k (mergeAll pre {}).data = none)
    (h : lookup k inc.data = some v) :
    lookup k (parent.merge (.sd (mergeAll (pre ++ inc :: post) {}))).data = some v := by
  have hnpre : (keys (mergeAll pre {}).data).Nodup := mergeAll_nodup pre {} List.nodup_nil
  have hall : mergeAll (pre ++ inc :: post) {} = mergeAll post ((mergeAll pre {}).merge (.sd inc)) := by
    simp [mergeAll, List.foldl_append]
  have h1 : lookup k ((mergeAll pre {}).merge (.sd inc)).data = some v :=
    merge_adds _ (.sd inc) hnpre hni hk hv hpre h
  have h2 : lookup k (mergeAll (pre ++ inc :: post) {}).data = some v := by
    rw [hall]
    exact mergeAll_keeps hk hv hs post _ (merge_nodup _ _ hnpre) h1
  exact merge_adds parent (.sd (mergeAll (pre ++ inc :: post) {})) hn (mergeAll_nodup _ {} List.nodup_nil) hk hv hparent h2

/-- a non-string value refers to nothing -/
theorem selfRef_nonstring (exprs : Tbl ExprEntry) (k : Key) {v : Val} (h : ∀ s, v ≠ .leaf (.str s)) : selfRef exprs k v = false := by
  unfold selfRef
  split
  · rename_i ks vs; exact absurd rfl (h vs)
  · rfl

/-! ## the general statement -/

/-- the depth-first preorder of the include closure, as parsed dicts: for every live include of `parent`, the included
    file followed by its own closure (fuel-bounded like the model) -/
def closure (fs : FS) (comments : Bool) : Nat → List Comps → SD → Comps → Counter → Except ParseErr (List SD × Counter)
  | 0, _, _, _, c => .ok ([], c)
  | fuel + 1, ancestors, parent, dir, c =>
    parent.incl.foldlM (fun (acc : List SD × Counter) e =>
      let spelled := spellJoin dir e.2.file
      let target := resolveSpelled spelled
      if ancestors.contains target then pure acc
      else match fs.get target with
        | none => pure acc
        | some _ => do
          let (included, c) ← parseFile fs comments acc.2 spelled
          let (sub, c) ← closure fs comments fuel (ancestors ++ [target]) included spelled.dropLast c
          pure (acc.1 ++ included :: sub, c)) ([], c)

/-- **C06 (general statement, not proved here).** the data of the result is the data of the first-wins fold of
    `_recursive_merge` over the including file followed by the depth-first preorder of its whole include closure.
    Proved above for the flat graph (`C06_flat`, with the consequences `C06_parent_wins`, `C06_earlier_include_wins`);
    for nested includes the model merges the nested result twice (`temp.merge(nested); temp.merge(included)` on the same
    object) and `_clean` runs at every level, so the equation needs merge associativity modulo `_clean`, which the model
    does not carry in general (dict-valued keys are merged recursively).  The general case is decided by the
    correspondence check (model vs. `DictReader.read` on generated include graphs). -/
def C06_eq_fold_statement : Prop :=
  ∀ (fs : FS) (comments : Bool) (parent : SD) (dir : Comps) (c : Counter) (r : SD) (c' : Counter),
    mergeIncludesRec fs comments (fs.length + 1) [] parent dir c = .ok (r, c') →
    ∃ incs, closure fs comments (fs.length + 1) [] parent dir c = .ok (incs, c') ∧
      ∀ k, C07.isPhKey k = false →
        lookup k r.data = lookup k (incs.foldl (fun d i => mergeD true parent.exprs d i.data) parent.data)

/-! ## non-vacuity: an include graph with a nested include, a cycle, a missing file and a `..` spelling (JSON bodies) -/

section Examples

/-- `/d/main.json` includes `a.json` and `sub/b.json`; `a.json` includes `main.json` back (cycle);
    `sub/b.json` includes `../a.json` (anchored at `/d/sub`) and a file that does not exist -/
def exFs : FS :=
  [ (["d".toList, "main.json".toList], .json
      [(.str "#include".toList, .leaf (.str "a.json".toList)), (.str "#include 2".toList, .leaf (.str "sub/b.json".toList)),
       (.str "x".toList, .leaf (.int 1))]),
    (["d".toList, "a.json".toList], .json
      [(.str "x".toList, .leaf (.int 2)), (.str "y".toList, .leaf (.int 3)),
       (.str "#include".toList, .leaf (.str "main.json".toList))]),
    (["d".toList, "sub".toList, "b.json".toList], .json
      [(.str "y".toList, .leaf (.int 4)), (.str "z".toList, .leaf (.int 5)),
       (.str "#include".toList, .leaf (.str "../a.json".toList)),
       (.str "#include 2".toList, .leaf (.str "nothere.json".toList))]) ]

def dataOf : Except ParseErr ReadOut → Option Entries
  | .ok (.ok sd _) => some sd.data
  | _ => none

/-- the including file wins (`x = 1`), the earlier include wins over the later one (`y = 3`), a key only a nested
    file has arrives (`z = 5`); the cycle and the missing file stop nothing -/
example :
    (dataOf (readFile evalInt exFs {} none ["d".toList, "main.json".toList])).map
        (fun d => (lookup (.str "x".toList) d, lookup (.str "y".toList) d, lookup (.str "z".toList) d)) =
      some (some (.leaf (.int 1)), some (.leaf (.int 3)), some (.leaf (.int 5))) := by decide +kernel

/-- `includes := false`: only the file's own entries, no include entry -/
example :
    dataOf (readFile evalInt exFs { includes := false } none ["d".toList, "main.json".toList]) =
      some [(.str "x".toList, .leaf (.int 1))] := by decide +kernel

/-- more fuel gives the same result -/
example : (mergeIncludesWith 10 exFs true {} [] none).isOk = (mergeIncludes exFs true {} [] none).isOk := by
  rw [mergeIncludes_fuel _ _ _ _ _ 10 (by decide)]

end Examples

end DictIO.C06
