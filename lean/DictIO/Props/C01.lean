/-
  C01 -- Native dict files: what is written is what is read back.  The three public routes.

    route 1   formatter + parser on strings        `C01_roundtrip_route1`  (= `C01_roundtrip_string`, Props/C02main)
    route 2   DictWriter + DictReader on files      `C01_roundtrip_file`
    route 3   SDict.dump + SDict.load               `C01_roundtrip_dump_statement` (kept as a statement),
                                                    `C01_roundtrip_dump_partial` (what the text written is)

  Model: `writeStep` (Model/Writer.lean), `readFile`, `parseFile`, `mergeIncludes`, `evalExpressions`
  (Model/Reader.lean), `fmtPlain`, `fmtSD` (Model/NativeFormat.lean), `normEs`, `DomC01` (Model/Written.lean).

  Layout: helper lemmas; (a) the reader stages above the parser are identities on a parsed dict without includes
  and expressions; (b) route 1; (c) route 2; (d) route 3; non-vacuity.
-/
import DictIO.Props.C02main
import DictIO.Model.Writer

namespace DictIO.C01
open DictIO

/-! ## helper lemmas -/

/-- merging a table into itself adds nothing: every id of the table is present -/
theorem tbl_merge_sub {α} : ∀ (o t : Tbl α), (∀ e ∈ o, (Tbl.get? e.1 t).isSome = true) → Tbl.merge t o = t
  | [], _, _ => rfl
  | e :: o, t, h => by
    rw [C07.tbl_merge_cons, if_pos (h e List.mem_cons_self)]
    exact tbl_merge_sub o t fun e he => h e (List.mem_cons_of_mem _ he)

theorem tbl_get_of_mem {α} : ∀ (t : Tbl α) (e : Nat × α), e ∈ t → (Tbl.get? e.1 t).isSome = true
  | (j, a) :: t, e, h => by
    by_cases hj : j = e.1
    · simp [Tbl.get?, hj]
    · rcases List.mem_cons.mp h with rfl | h
      · exact absurd rfl hj
      · simpa [Tbl.get?, hj] using tbl_get_of_mem t e h

theorem tbl_merge_self {α} (t : Tbl α) : Tbl.merge t t = t := tbl_merge_sub t t (tbl_get_of_mem t)

theorem tbl_merge_nil {α} (t : Tbl α) : Tbl.merge t [] = t := rfl

/-- `_recursive_merge(d, d)` at the top level of an `SDict` changes nothing: a dict entry is merged with itself
    (`C07.merge_selfEs`), a self-referring entry is overwritten with the value it already has, every other entry
    stays.  No hypothesis on `$` is needed. -/
theorem mergeD_self_top (exprs : Tbl ExprEntry) (a : Entries) (hn : NodupKeysV (.dict a)) :
    mergeD true exprs a a = a := by
  apply C07.mergeD_absorb
  intro e he
  refine ⟨e.2, lookup_of_mem_nodup hn.1 he, ?_, fun _ _ => rfl⟩
  intro td od h1 h2
  have := C07.merge_selfEs exprs a hn.2 e he od h2
  rw [h1] at h2; cases h2; exact this

/-! ## (a) the reader stages above the parser -/

/-- `sd.merge(SDict())` : merging the empty temporary dict of `_merge_includes` -/
theorem merge_empty (sd : SD) (hn : NodupKeysV (.dict sd.data)) (hp : C07.NoPhEs sd.data) :
    sd.merge (.sd {}) = sd := by
  have h : ({ sd with data := mergeD true sd.exprs sd.data (Arg.sd {}).data } : SD).postMerge (.sd {}) = sd := by
    cases sd; simp [SD.postMerge, Arg.data, C07.mergeD_nil, tbl_merge_nil]
  unfold SD.merge
  rw [h]
  exact C07.clean_id sd hn hp

/-- `sd.merge(sd)` : the closing self-merge of `_merge_includes` -/
theorem merge_self (sd : SD) (hn : NodupKeysV (.dict sd.data)) (hp : C07.NoPhEs sd.data) :
    sd.merge (.sd sd) = sd := by
  have h : ({ sd with data := mergeD true sd.exprs sd.data (Arg.sd sd).data } : SD).postMerge (.sd sd) = sd := by
    cases sd
    simp only [SD.postMerge, Arg.data, tbl_merge_self]
    rw [mergeD_self_top _ _ hn]
  unfold SD.merge
  rw [h]
  exact C07.clean_id sd hn hp

/-- **(a1)** `_merge_includes` on a dict without include entries returns it unchanged (data and all four tables) and
    leaves the counter alone.  The two `merge` calls it still makes (with the empty temporary dict, and with the
    dict itself) are identities: `_clean` by `C07.clean_id`, the self-merge by `mergeD_self_top`.
    No `NoDollar` hypothesis is needed: a self-referring entry is overwritten by its own value. -/
theorem mergeIncludes_noincl (fs : FS) (comments : Bool) (sd : SD) (dir : Comps) (c : Counter) :
    sd.incl = [] → C07.NoPhEs sd.data → NodupKeysV (.dict sd.data) →
    mergeIncludes fs comments sd dir c = .ok (sd, c) := by
  intro hi hp hn
  have hrec : mergeIncludesRec fs comments (fs.length + 1) [] sd dir c = .ok (sd, c) := by
    simp only [mergeIncludesRec, hi, List.foldlM_nil, bind, Except.bind, pure, Except.pure]
    rw [merge_empty sd hn hp]
  simp only [mergeIncludes, hrec, bind, Except.bind, pure, Except.pure]
  rw [merge_self sd hn hp]

/-- **(a2)** `_eval_expressions` on a dict without expressions returns it unchanged -/
theorem evalExpressions_noexpr (ev : Str → EvalResult) (sd : SD) : sd.exprs = [] → evalExpressions ev sd = .ok sd := by
  intro he
  cases sd with
  | mk data exprs lineC blockC incl =>
    cases he
    simp [evalExpressions, evalExpressions.loop, resolveAll, evalPass, bind, Except.bind, pure, Except.pure,
      List.eraseDups]

/-- the three stages of `DictReader.read` above `parse_file`, on a parsed dict with empty tables: nothing changes -/
theorem read_stages_plain (ev : Str → EvalResult) (fs : FS) (comments : Bool) (es : Entries) (dir : Comps) (c : Counter)
    (hp : C07.NoPhEs es) (hn : NodupKeysV (.dict es)) :
    mergeIncludes fs comments { data := es } dir c = .ok ({ data := es }, c) ∧
    evalExpressions ev { data := es } = .ok { data := es } :=
  ⟨mergeIncludes_noincl fs comments { data := es } dir c rfl hp hn, evalExpressions_noexpr ev _ rfl⟩

/-! ## the element-type normalisation is idempotent -/

/-- a typed value stays; a string that stays a string stays (e.g. `"'1'"`: `parseValue` gives the string `"1"`, so
    `normScalar` keeps `"'1'"`, and keeps it again) -/
theorem normScalar_idem (x : Scalar) : normScalar (normScalar x) = normScalar x := by
  cases x with
  | str s =>
    cases h : parseValue s <;> simp [normScalar, h]
  | _ => rfl

mutual
  theorem normV_idem : ∀ v : Val, normV (normV v) = normV v
    | .leaf x => by simp [normV, normScalar_idem]
    | .dict es => by simp [normV, normEs_idem es]
    | .list xs => by simp [normV, normXs_idem xs]
  /-- `_retype_values` applied twice is `_retype_values` -/
  theorem normEs_idem : ∀ es : Entries, normEs (normEs es) = normEs es
    | [] => by simp [normEs]
    | (k, v) :: es => by simp [normEs, normV_idem v, normEs_idem es]
  theorem normXs_idem : ∀ xs : List Val, normXs (normXs xs) = normXs xs
    | [] => by simp [normXs]
    | v :: xs => by simp [normXs, normV_idem v, normXs_idem xs]
end

/-! ## (b) route 1 : `NativeParser.parse_string(NativeFormatter.to_string(d))` -/

/-- **C01, route 1** (formatter + parser on strings): the text the native writer produces for a dict of the value
    domain is read back, with `comments` on or off, as the dict with the documented element-type normalisation and
    empty side tables.  This is `C01_roundtrip_string` (Props/C02main.lean) under its route name. -/
theorem C01_roundtrip_route1 {es : Entries} {c : Counter} (comments : Bool) (dir : Str) :
    DomC01 .native es = true → DocKeysAbsent' es →
    C02.countQuotedEs (srcOfEs .native es) ≤ Gen.counterLimit + 1 → C13.ValidCounter Gen.counterLimit c →
    ∃ c', parseNative comments dir c (fmtPlain .native es) = .ok ({ data := normEs es }, c') :=
  C01_roundtrip_string comments dir

/-! ## (c) route 2 : `DictWriter.write(d, f, mode)` then `DictReader.read(f)` -/

/-- a dict of the value domain, normalised, has no placeholder key and unique keys at every level -/
theorem norm_invariants {es : Entries} (h : DomC01 .native es = true) :
    C07.NoPhEs (normEs es) ∧ NodupKeysV (.dict (normEs es)) := by
  obtain ⟨hwf, hden, _⟩ := C01_writer h
  rw [← hden]
  exact ⟨C02.den_noPh hwf, C02.den_nodup _⟩

theorem fs_get_single (p : Comps) (b : FileBody) : FS.get [(p, b)] p = some b := by
  simp [FS.get, List.find?]

/-- `DictReader.read` of a file that holds the writer's text for a normalised dict `e` of the value domain -/
theorem read_written {e : Entries} {c : Counter} (ev : Str → EvalResult) (target : Comps)
    (hdom : DomC01 .native e = true) (hnorm : normEs e = e) (hd : DocKeysAbsent' e)
    (hn : C02.countQuotedEs (srcOfEs .native e) ≤ Gen.counterLimit + 1) (hc : C13.ValidCounter Gen.counterLimit c)
    (hj : isJsonPath target = false) (hx : isXmlPath target = false) (hr : resolveSpelled target = target) :
    ∃ c', readFile ev [(target, .native (fmtPlain .native e))] {} c target = .ok (.ok { data := e } c') := by
  obtain ⟨c', hparse⟩ := C01_roundtrip_string (c := c) true (pathStr target.dropLast) hdom hd hn hc
  rw [hnorm] at hparse
  have hinv := norm_invariants hdom
  rw [hnorm] at hinv
  obtain ⟨hmi, hev⟩ := read_stages_plain ev [(target, .native (fmtPlain .native e))] true e target.dropLast c'
    hinv.1 hinv.2
  refine ⟨c', ?_⟩
  have hpf : parseFile [(target, .native (fmtPlain .native e))] true c target = .ok ({ data := e }, c') := by
    simp only [parseFile, hx, hr, fs_get_single, hj, hparse]
    rfl
  simp only [readFile, hpf, bind, Except.bind, pure, Except.pure]
  simp only [if_true, hmi, hev]
  rfl

/-- **C01, route 2** (DictWriter + DictReader on files).  For a dict `d` whose normal form `normEs d` (the writer
    first re-types strings that spell numbers / booleans / none: `writeStep` starts with `normEs`) lies in the value
    domain, writing it with any `mode` to a target that does not exist yet writes the plain text of `normEs d`, and
    reading that file with the default options returns exactly `normEs d`, all side tables empty.

    Hypotheses as in route 1 (documentation keys absent; at most `counterLimit + 1` quoted strings; a counter state that
    can occur), plus on the path: it is not a `.json` / `.xml` / `.ssd` path (those go to other parsers) and it is
    already normalised (`resolveSpelled target = target`; the file system of the model is keyed by resolved paths). -/
theorem C01_roundtrip_file {d : Entries} {c : Counter} (ev : Str → EvalResult) (target : Comps) (mode : Str) :
    DomC01 .native (normEs d) = true → DocKeysAbsent' d →
    C02.countQuotedEs (srcOfEs .native (normEs d)) ≤ Gen.counterLimit + 1 → C13.ValidCounter Gen.counterLimit c →
    isJsonPath target = false → isXmlPath target = false → resolveSpelled target = target →
    writeStep ev .native target none mode false d c = .ok (fmtPlain .native (normEs d), c) ∧
    ∃ c', readFile ev [(target, .native (fmtPlain .native (normEs d)))] {} c target =
      .ok (.ok { data := normEs d } c') := by
  intro hdom hd hn hc hj hx hr
  refine ⟨rfl, ?_⟩
  have hd' : DocKeysAbsent' (normEs d) := by
    intro e he
    have hk : e.1 ∈ keys d := by rw [← keys_normEs]; exact List.mem_map_of_mem (f := (·.1)) he
    obtain ⟨e', he', hk'⟩ := List.mem_map.mp hk
    rw [← hk']; exact hd e' he'
  exact read_written ev target hdom (normEs_idem d) hd' hn hc hj hx hr

/-- route 2 never fails on the domain -/
theorem C01_roundtrip_file_never_fails {d : Entries} {c : Counter} (ev : Str → EvalResult) (target : Comps) (mode : Str)
    (hdom : DomC01 .native (normEs d) = true) (hd : DocKeysAbsent' d)
    (hn : C02.countQuotedEs (srcOfEs .native (normEs d)) ≤ Gen.counterLimit + 1)
    (hc : C13.ValidCounter Gen.counterLimit c)
    (hj : isJsonPath target = false) (hx : isXmlPath target = false) (hr : resolveSpelled target = target) :
    ∃ t c₁ r, writeStep ev .native target none mode false d c = .ok (t, c₁) ∧
      readFile ev [(target, .native t)] {} c₁ target = .ok r := by
  obtain ⟨hw, c', hrd⟩ := C01_roundtrip_file ev target mode hdom hd hn hc hj hx hr
  exact ⟨_, _, _, hw, hrd⟩

/-! ## (d) route 3 : `SDict(d).dump(f)` then `SDict().load(f)` -/

/-- what `to_string` writes for an `SDict` whose four side tables are empty (native flavour): the default header —
    a block comment — in front of the text the plain-dict route writes (before trailing-space removal) -/
theorem C01_roundtrip_dump_partial (e : Entries) :
    fmtSD .native { data := e } =
      some (removeTrailingSpaces (nativeHeader ++ fmtEntries .native 0 (hoistPlaceholders e))) := by
  simp [fmtSD, insertBlockComments, insertIncludes, insertLineComments, makeDefaultBlockComment, containsCpp]

/-- `dump` of `SDict(d)` in the model: `writeStep`'s serialisation of the `SDict` is `fmtSD`; with `d` normalised
    first, as `DictWriter.write` does -/
theorem C01_dump_text (d : Entries) :
    fmtSD .native { data := normEs d } =
      some (removeTrailingSpaces (nativeHeader ++ fmtEntries .native 0 (hoistPlaceholders (normEs d)))) :=
  C01_roundtrip_dump_partial (normEs d)

/-- the placeholder entries the reader adds for comments (C01 permits them): removed for the comparison -/
def dropPhEntries (es : Entries) : Entries := es.filter fun e => !C07.isPhKey e.1

/-- **C01, route 3, full statement** (kept visible; NOT proved here).  `SDict(d).dump(f)` writes the default header in
    front of the dict; `SDict().load(f)` reads the file with comments on, so the header comes back as a block-comment
    table entry and one placeholder entry in the data.  Apart from that placeholder entry the data read is `normEs d`.

    Re-reading a text with a block comment goes through the comment stage of `parseNative`
    (`lexBlockCommentsFuel`, `_clean`), which is outside the proved fragment (C02 covers comment-free text).  This
    route is decided by the correspondence check (harness C01, route `dump_load`) only. -/
def C01_roundtrip_dump_statement : Prop :=
  ∀ (ev : Str → EvalResult) (d : Entries) (c : Counter) (target : Comps),
    DomC01 .native (normEs d) = true → DocKeysAbsent' d →
    C02.countQuotedEs (srcOfEs .native (normEs d)) ≤ Gen.counterLimit + 1 → C13.ValidCounter Gen.counterLimit c →
    isJsonPath target = false → isXmlPath target = false → resolveSpelled target = target →
    ∃ text sd c', fmtSD .native { data := normEs d } = some text ∧
      readFile ev [(target, .native text)] {} c target = .ok (.ok sd c') ∧
      dropPhEntries sd.data = normEs d

/-! ## non-vacuity: the example dict of `C01fmt`, written to `/w/dict` and read back -/

theorem exDict_route2 (ev : Str → EvalResult) (mode : Str) :
    writeStep ev .native ["w".toList, "dict".toList] none mode false exDict none = .ok (fmtPlain .native exDict, none) ∧
    ∃ c', readFile ev [(["w".toList, "dict".toList], .native (fmtPlain .native exDict))] {} none
      ["w".toList, "dict".toList] = .ok (.ok { data := exDict } c') := by
  have h := C01_roundtrip_file (d := exDict) (c := none) ev ["w".toList, "dict".toList] mode
    (by rw [exDict_norm]; exact exDict_dom) exDict_docKeys (by rw [exDict_norm, exDict_count]; decide) (Or.inl rfl)
    (by decide) (by decide) (by decide)
  rwa [exDict_norm] at h

/-- a string leaf that spells a number is re-typed by the writer: `{a: "1"}` is written and read back as `{a: 1}` -/
theorem ex_retyped (ev : Str → EvalResult) (mode : Str) :
    ∃ c', readFile ev [(["f".toList], .native (fmtPlain .native [(.str ['a'], .leaf (.int 1))]))] {} none ["f".toList] =
      .ok (.ok { data := [(.str ['a'], .leaf (.int 1))] } c') := by
  have h := C01_roundtrip_file (d := [(.str ['a'], .leaf (.str ['1']))]) (c := none) ev ["f".toList] mode
    (by decide +kernel) (by decide) (by decide +kernel) (Or.inl rfl) (by decide) (by decide) (by decide)
  have e : normEs [(.str ['a'], .leaf (.str ['1']))] = [(.str ['a'], .leaf (.int 1))] := by decide +kernel
  rw [e] at h
  exact h.2

end DictIO.C01
