/-
  C01 -- Native dict files: what is written is what is read back.  The three public routes.

    route 1   formatter + parser on strings        `C01_roundtrip_route1`  (= `C01_roundtrip_string`, Props/C02main)
    route 2   DictWriter + DictReader on files      `C01_roundtrip_file`
    route 3   SDict.dump + SDict.load               `C01_roundtrip_dump_statement` (kept as a statement),
                                                    `C01_roundtrip_dump_partial` (what the text written is)

  Model: `writeStep` (Model/Writer.lean), `readFile`, `parseFile`, `mergeIncludes`, `evalExpressions`
  (Model/Reader.lean), `fmtPlain`, `fmtSD` (Model/NativeFormat.lean), `normEs`, `DomC01` (Model/Written.lean).

  Layout: helper lemmas; (a) the reader stages above the parser are identities on a parsed dict without includes
  and expressions; (b) route 1; (c) route 2; (d) route 3; non-vacuity.
-/
import DictIO.Props.C02main
import DictIO.Model.Writer

namespace DictIO.C01
open DictIO

/-! ## helper lemmas -/

/-- merging a table into itself adds nothing: every id of the table is present -/
theorem tbl_merge_sub {α} : ∀ (o t : Tbl α), (∀ e ∈ o, (Tbl.get? e.1 t).isSome = true) → Tbl.merge t o = t
  | [], _, _ => rfl
  | e :: o, t, h => by
    rw [C07.tbl_merge_cons, if_pos (h e List.mem_cons_self)]
    exact tbl_merge_sub o t fun e he => h e (List.mem_cons_of_mem _ he)

theorem tbl_get_of_mem {α} : ∀ (t : Tbl α) (e : Nat × α), e ∈ t → (Tbl.get? e.1 t).isSome = true
  | (j, a) :: t, e, h => by
    by_cases hj : j = e.1
    · simp [Tbl.get?, hj]
    · rcases List.mem_cons.mp h with rfl | h
      · exact absurd rfl hj
      · simpa [Tbl.get?, hj] using tbl_get_of_mem t e h

theorem tbl_merge_self {α} (t : Tbl α) : Tbl.merge t t = t := tbl_merge_sub t t (tbl_get_of_mem t)

theorem tbl_merge_nil {α} (t : Tbl α) : Tbl.merge t [] = t := rfl

/-- `_recursive_merge(d, d)` at the top level of an `SDict` changes nothing: a dict entry is merged with itself
    (`C07.merge_selfEs`), a self-referring entry is overwritten with the value it already has, every other entry
    stays.  No hypothesis on `$` is needed. -/
theorem mergeD_self_top (exprs : Tbl ExprEntry) (a : Entries) (hn : NodupKeysV (.dict a)) :
    mergeD true exprs a a = a := by
  apply C07.mergeD_absorb
  intro e he
  refine ⟨e.2, lookup_of_mem_nodup hn.1 he, ?_, fun _ _ => rfl⟩
  intro td od h1 h2
  have := C07.merge_selfEs exprs a hn.2 e he od h2
  rw [h1] at h2; cases h2; exact this

/-! ## (a) the reader stages above the parser -/

/-- `sd.merge(SDict())` : merging the empty temporary dict of `_merge_includes` -/
theorem merge_empty (sd : SD) (hn : NodupKeysV (.dict sd.data)) (hp : C07.NoPhEs sd.data) :
    sd.merge (.sd {}) = sd := by
  have h : ({ sd with data := mergeD true sd.exprs sd.data (Arg.sd {}).data } : SD).postMerge (.sd {}) = sd := by
    cases sd; simp [SD.postMerge, Arg.data, C07.mergeD_nil, tbl_merge_nil]
  unfold SD.merge
  rw [h]
  exact C07.clean_id sd hn hp

/-- `sd.merge(sd)` : the closing self-merge of `_merge_includes` -/
theorem merge_self (sd : SD) (hn : NodupKeysV (.dict sd.data)) (hp : C07.NoPhEs sd.data) :
    sd.merge (.sd sd) = sd := by
  have h : ({ sd with data := mergeD true sd.exprs sd.data (Arg.sd sd).data } : SD).postMerge (.sd sd) = sd := by
    cases sd
    simp only [SD.postMerge, Arg.data, tbl_merge_self]
    rw [mergeD_self_top _ _ hn]
  unfold SD.merge
  rw [h]
  exact C07.clean_id sd hn hp

/-- **(a1)** `_merge_includes` on a dict without include entries returns it unchanged (data and all four tables) and
    leaves the counter alone.  The two `merge` calls it still makes (with the empty temporary dict, and with the
    dict itself) are identities: `_clean` by `C07.clean_id`, the self-merge by `mergeD_self_top`.
    No `NoDollar` hypothesis is needed: a self-referring entry is overwritten by its own value. -/
theorem mergeIncludes_noincl (fs : FS) (comments : Bool) (sd : SD) (dir : Comps) (c : Counter) :
    sd.incl = [] → C07.NoPhEs sd.data → NodupKeysV (.dict sd.data) →
    mergeIncludes fs comments sd dir c = .ok (sd, c) := by
  intro hi hp hn
  have hrec : mergeIncludesRec fs comments (fs.length + 1) [] sd dir c = .ok (sd, c) := by
    simp only [mergeIncludesRec, hi, List.foldlM_nil, bind, Except.bind, pure, Except.pure]
    rw [merge_empty sd hn hp]
  simp only [mergeIncludes, hrec, bind, Except.bind, pure, Except.pure]
  rw [merge_self sd hn hp]

/-- **(a2)** `_eval_expressions` on a dict without expressions returns it unchanged -/
theorem evalExpressions_noexpr (ev : Str → EvalResult) (sd : SD) : sd.exprs = [] → evalExpressions ev sd = .ok sd := by
  intro he
  cases sd with
  | mk data exprs lineC blockC incl =>
    cases he
    simp [evalExpressions, evalExpressions.loop, resolveAll, evalPass, bind, Except.bind, pure, Except.pure,
      List.eraseDups]
