/-
  C02 (literal re-insertion): after the quoted strings of a source document have been replaced by placeholder
  words (`labelEs`) and the token tree has been given its meaning (`denEs`), `insertLiterals` over the literal
  table restores exactly what the document means (`denSrcEs`).
-/
import DictIO.Model.Grammar
import DictIO.Props.C04
import DictIO.Props.C13name

namespace DictIO.C02
open DictIO

/-! ## helper lemmas -/

/-! #### substring test -/

theorem mem_tails : ∀ {s t : Str}, t ∈ tails s ↔ ∃ a, s = a ++ t
  | [], t => by
    simp only [tails, List.mem_singleton]
    constructor
    · rintro rfl; exact ⟨[], rfl⟩
    · rintro ⟨a, h⟩
      have := congrArg List.length h
      simp at this
      exact List.eq_nil_of_length_eq_zero (by omega)
  | c :: cs, t => by
    simp only [tails, List.mem_cons, mem_tails (s := cs)]
    constructor
    · rintro (rfl | ⟨a, rfl⟩)
      · exact ⟨[], rfl⟩
      · exact ⟨c :: a, rfl⟩
    · rintro ⟨a, h⟩
      cases a with
      | nil => exact Or.inl h.symm
      | cons x a =>
        simp only [List.cons_append, List.cons.injEq] at h
        exact Or.inr ⟨a, h.2⟩

theorem isInfix_iff {p s : Str} : isInfix p s = true ↔ ∃ a b, s = a ++ p ++ b := by
  simp only [isInfix, List.any_eq_true, mem_tails, List.isPrefixOf_iff_prefix]
  constructor
  · rintro ⟨t, ⟨a, rfl⟩, ⟨b, rfl⟩⟩
    exact ⟨a, b, by simp⟩
  · rintro ⟨a, b, rfl⟩
    exact ⟨p ++ b, ⟨a, by simp⟩, ⟨b, rfl⟩⟩

theorem isInfix_self (p : Str) : isInfix p p = true := isInfix_iff.mpr ⟨[], [], by simp⟩

/-- a text that does not contain a word does not contain any extension of it -/
theorem isInfix_append_false {p s : Str} (q : Str) (h : isInfix p s = false) : isInfix (p ++ q) s = false := by
  cases h' : isInfix (p ++ q) s with
  | false => rfl
  | true =>
    obtain ⟨a, b, rfl⟩ := isInfix_iff.mp h'
    have : isInfix p (a ++ (p ++ q) ++ b) = true := isInfix_iff.mpr ⟨a, q ++ b, by simp⟩
    rw [this] at h; cases h

/-- between words of equal length, "contains" means "equals" -/
theorem isInfix_eq_of_length {p s : Str} (hl : p.length = s.length) (h : isInfix p s = true) : p = s := by
  obtain ⟨a, b, rfl⟩ := isInfix_iff.mp h
  simp only [List.length_append] at hl
  have ha : a = [] := List.eq_nil_of_length_eq_zero (by omega)
  have hb : b = [] := List.eq_nil_of_length_eq_zero (by omega)
  subst ha hb
  simp

/-! #### placeholder words -/

theorem natDigits_length : ∀ (k n : Nat), n < 10 ^ (k + 1) → (natDigits n).length ≤ k + 1
  | 0, n, h => by
    rw [natDigits, dif_pos (by simpa using h)]; simp
  | k + 1, n, h => by
    rw [natDigits]
    split
    · simp
    · have := natDigits_length k (n / 10) (by rw [Nat.pow_succ] at h; omega)
      simp only [List.length_append, List.length_singleton]; omega

/-- (a) every placeholder number within the counter's range is written with exactly six digits -/
theorem padSix_length {i : Nat} (h : i ≤ 999999) : (padSix i).length = 6 := by
  have := natDigits_length 5 i (by omega)
  simp only [padSix, List.length_append, List.length_replicate]
  omega

theorem digitsVal_padSix (i : Nat) : digitsVal (padSix i) = i := by
  have h0 : ∀ k : Nat, List.foldl (fun acc c => acc * 10 + (digitVal c).getD 0) 0 (List.replicate k '0') = 0 := by
    intro k
    induction k with
    | zero => rfl
    | succ k ih =>
      rw [List.replicate_succ, List.foldl_cons]
      have : (0 * 10 + (digitVal '0').getD 0) = 0 := by decide
      rw [this, ih]
  have := C04.digitsVal_natDigits i
  simp only [digitsVal] at this ⊢
  simp only [padSix, List.foldl_append, h0, this]

/-- (a) zero padding keeps the decimal spelling injective (no bound needed) -/
theorem padSix_inj {i j : Nat} (h : padSix i = padSix j) : i = j := by
  rw [← digitsVal_padSix i, ← digitsVal_padSix j, h]

theorem kwLit_length : kwLit.length = 13 := by decide

theorem litPh_length {i : Nat} (h : i ≤ 999999) : (litPh i).length = 19 := by
  simp [litPh, kwLit_length, padSix_length h]

theorem litPh_inj {i j : Nat} (h : litPh i = litPh j) : i = j :=
  padSix_inj (List.append_cancel_left h)

/-- (a) a placeholder word contains no other placeholder word -/
theorem litPh_infix {i j : Nat} (hi : i ≤ 999999) (hj : j ≤ 999999) (h : isInfix (litPh i) (litPh j) = true) : i = j :=
  litPh_inj (isInfix_eq_of_length (by rw [litPh_length hi, litPh_length hj]) h)

theorem litPh_infix_ne {i j : Nat} (hi : i ≤ 999999) (hj : j ≤ 999999) (h : i ≠ j) :
    isInfix (litPh i) (litPh j) = false := by
  cases h' : isInfix (litPh i) (litPh j) with
  | false => rfl
  | true => exact absurd (litPh_infix hi hj h') h

/-- a text without the reserved word contains no placeholder word -/
theorem litPh_not_infix {s : Str} (i : Nat) (h : isInfix kwLit s = false) : isInfix (litPh i) s = false :=
  isInfix_append_false _ h

/-! #### (b) a placeholder word is typed as itself -/

theorem kwLit_eq : kwLit = 'S' :: "TRINGLITERAL".toList := by decide

theorem litPh_cons (i : Nat) : litPh i = 'S' :: ("TRINGLITERAL".toList ++ padSix i) := by
  simp [litPh, kwLit_eq]

theorem litPh_qf (i : Nat) : C04.QF (litPh i) := by
  intro c hc
  simp only [litPh, padSix, List.mem_append, List.mem_replicate] at hc
  rcases hc with hc | ⟨_, rfl⟩ | hc
  · revert c; decide
  · decide
  · exact (C04.natDigits_ascii i).digits.qf c hc

theorem dropWhile_snoc {p : Char → Bool} {a : Char} (ha : p a = false) :
    ∀ l : Str, ∃ l', (l ++ [a]).dropWhile p = l' ++ [a]
  | [] => ⟨[], by simp [ha]⟩
  | c :: l => by
    by_cases hc : p c = true
    · obtain ⟨l', h⟩ := dropWhile_snoc ha l
      exact ⟨l', by simp [hc, h]⟩
    · exact ⟨c :: l, by simp [hc]⟩

theorem strip_cons {c : Char} (hc : isWs c = false) (r : Str) : ∃ r', strip (c :: r) = c :: r' := by
  obtain ⟨l', h⟩ := dropWhile_snoc hc r.reverse
  refine ⟨l'.reverse, ?_⟩
  simp only [strip, List.dropWhile_cons, hc, Bool.false_eq_true, if_false, List.reverse_cons, h,
    List.reverse_append]
  simp

theorem not_anyWord_S (r : Str) : ¬ C04.IsAnyWord ('S' :: r) := by
  obtain ⟨r', h⟩ := strip_cons (c := 'S') (by decide) r
  have hl : asciiLower 'S' = 's' := by decide
  simp only [C04.IsAnyWord, C04.IsWord, h, List.map_cons, hl]
  rintro (h | h | h | h | h | h) <;> simp at h

theorem parseValue_litPh (i : Nat) : parseValue (litPh i) = .str (litPh i) := by
  have hq := C04.removeQuotes_of_qf (litPh_qf i)
  have hne : litPh i ≠ [] := by rw [litPh_cons]; simp
  have hs : ¬ C04.IsSpecial (litPh i) := by
    rw [litPh_cons]; simp [C04.IsSpecial]
  have hint : ¬ C04.IsIntLit (litPh i) := by
    rw [← C04.isIntLit_iff, litPh_cons]
    have : isDigit 'S' = false := by decide
    simp [isIntLit, dropSign, spanDigits, this]
  have hfl : ¬ C04.IsFloatLit (litPh i) := by
    rw [← C04.isFloatExpLit_iff, litPh_cons]
    have : isDigit 'S' = false := by decide
    simp [isFloatExpLit, dropSign, dropMantissa, spanDigits, this]
  have hw : ¬ C04.IsAnyWord (litPh i) := by rw [litPh_cons]; exact not_anyWord_S _
  rw [C04.parseValue_word ⟨⟨by rw [hq]; exact hne, hs⟩, hint, hfl⟩, C04.boolNoneWord_other hw, hq]

/-! #### (c) scalars that no placeholder word can match -/

/-- a scalar that is not a string containing the reserved word `STRINGLITERAL` -/
def Clean : Scalar → Prop
  | .str s => isInfix kwLit s = false
  | _ => True

/-- the value a quoted string stands for (`Lit.den` of a quoted literal; also what `insertLiterals` inserts) -/
def litVal (b : Str) : Scalar :=
  match parseValue b with
  | .str _ => .str b
  | x => x

theorem litDen_quoted (q : Char) (b : Str) : Lit.den (.quoted q b) = litVal b := rfl

theorem clean_litVal {b : Str} (h : isInfix kwLit b = false) : Clean (litVal b) := by
  unfold litVal
  cases parseValue b with
  | str s => exact h
  | _ => trivial

theorem isSrcWord_facts {w : Str} (h : isSrcWord w = true) :
    isPhTok w = false ∧ isInfix kwLit w = false ∧ C04.QF w := by
  simp only [isSrcWord, Bool.and_eq_true, Bool.not_eq_true', List.all_eq_true] at h
  refine ⟨h.1.1.1.1.1.1.2, h.1.1.1.1.1.2, fun c hc => ?_⟩
  have := h.1.1.1.2 c hc
  exact this.1.1

/-- (c) the scalar a bare word is typed as never contains the reserved word -/
theorem clean_parseValue_word {w : Str} (h : isSrcWord w = true) : Clean (parseValue w) := by
  obtain ⟨_, hk, hq⟩ := isSrcWord_facts h
  cases hp : parseValue w with
  | str t => rw [C04.C04_idem hp hq]; exact hk
  | _ => trivial

theorem isSrcQuoted_clean {q : Char} {b : Str} (h : isSrcQuoted q b = true) : isInfix kwLit b = false := by
  simp only [isSrcQuoted, Bool.and_eq_true, Bool.not_eq_true'] at h
  exact h.1.1.1.2

/-! #### the relation between the labelled tree and the document's meaning

  `RV T d a b`: `b` is `a` with every leaf that is *exactly* the placeholder word of an entry `(i, body)` of the
  table `T` replaced by `litVal body` (such a leaf sits at key-path length `d ≤ 10`), all other leaves being equal
  and free of the reserved word; keys are equal. -/

mutual
  def RV (T : Tbl Str) (d : Nat) : Val → Val → Prop
    | .leaf x, b => (Clean x ∧ b = .leaf x) ∨
        (∃ i body, (i, body) ∈ T ∧ x = .str (litPh i) ∧ b = .leaf (litVal body) ∧ d ≤ 10)
    | .dict es, b => ∃ fs, b = .dict fs ∧ REs T (d + 1) es fs
    | .list xs, b => ∃ ys, b = .list ys ∧ RXs T (d + 1) xs ys
  def REs (T : Tbl Str) (d : Nat) : Entries → Entries → Prop
    | [], fs => fs = []
    | (k, v) :: es, fs => ∃ v' fs', fs = (k, v') :: fs' ∧ RV T d v v' ∧ REs T d es fs'
  def RXs (T : Tbl Str) (d : Nat) : List Val → List Val → Prop
    | [], ys => ys = []
    | v :: xs, ys => ∃ v' ys', ys = v' :: ys' ∧ RV T d v v' ∧ RXs T d xs ys'
end

/-! with an empty table the two trees are equal -/
mutual
theorem RV_nil : ∀ (a : Val) (d : Nat) (b : Val), RV [] d a b → b = a
  | .leaf x, d, b, h => by
    simp only [RV] at h
    rcases h with ⟨_, h⟩ | ⟨i, body, hm, _⟩
    · exact h
    · cases hm
  | .dict es, d, b, h => by
    simp only [RV] at h
    obtain ⟨fs, rfl, h⟩ := h
    rw [REs_nil es _ _ h]
  | .list xs, d, b, h => by
    simp only [RV] at h
    obtain ⟨ys, rfl, h⟩ := h
    rw [RXs_nil xs _ _ h]
theorem REs_nil : ∀ (es : Entries) (d : Nat) (fs : Entries), REs [] d es fs → fs = es
  | [], d, fs, h => by simpa only [REs] using h
  | (k, v) :: es, d, fs, h => by
    simp only [REs] at h
    obtain ⟨v', fs', rfl, hv, h⟩ := h
    rw [RV_nil v _ _ hv, REs_nil es _ _ h]
theorem RXs_nil : ∀ (xs : List Val) (d : Nat) (ys : List Val), RXs [] d xs ys → ys = xs
  | [], d, ys, h => by simpa only [RXs] using h
  | v :: xs, d, ys, h => by
    simp only [RXs] at h
    obtain ⟨v', ys', rfl, hv, h⟩ := h
    rw [RV_nil v _ _ hv, RXs_nil xs _ _ h]
end

/-- `d[k] = v` on both sides keeps the relation (the key, and hence the position, is the same) -/
theorem REs_setKey {T : Tbl Str} {d : Nat} (k : Key) {v v' : Val} (hv : RV T d v v') :
    ∀ (acc acc' : Entries), REs T d acc acc' → REs T d (setKey k v acc) (setKey k v' acc')
  | [], acc', h => by
    simp only [REs] at h
    subst h
    simp only [setKey, REs]
    exact ⟨v', [], rfl, hv, rfl⟩
  | (k0, v0) :: acc, acc', h => by
    simp only [REs] at h
    obtain ⟨v0', fs', rfl, h0, h⟩ := h
    simp only [setKey]
    by_cases hk : k0 = k
    · simp only [hk, if_true, REs]
      exact ⟨v', fs', rfl, hv, h⟩
    · simp only [hk, if_false, REs]
      exact ⟨v0', _, rfl, h0, REs_setKey k hv acc fs' h⟩

/-! #### one pass of `substLeaf*` handles the first table entry -/

section step
variable {i : Nat} {body : Str} {T : Tbl Str}
  (hi : i ≤ 999999) (hT : ∀ p ∈ T, p.1 ≤ 999999) (hnd : ∀ b', (i, b') ∉ T) (hb : isInfix kwLit body = false)
include hi hT hnd hb
set_option linter.unusedSectionVars false

mutual
theorem stepV : ∀ (a : Val) (d : Nat) (b : Val), RV ((i, body) :: T) d a b →
    ∃ a', substLeafV (litPh i) (litVal body) d a = .ok a' ∧ RV T d a' b
  | .leaf x, d, b, h => by
    simp only [RV] at h
    rcases h with ⟨hc, rfl⟩ | ⟨j, body', hm, rfl, rfl, hd⟩
    · refine ⟨.leaf x, ?_, by rw [RV]; exact Or.inl ⟨hc, rfl⟩⟩
      cases x with
      | str s => simp only [substLeafV, litPh_not_infix i hc, Bool.false_eq_true, if_false]
      | _ => simp only [substLeafV]
    · rcases List.mem_cons.mp hm with heq | hm'
      · simp only [Prod.mk.injEq] at heq
        obtain ⟨rfl, rfl⟩ := heq
        refine ⟨.leaf (litVal body'), ?_, by rw [RV]; exact Or.inl ⟨clean_litVal hb, rfl⟩⟩
        have : ¬ d > 10 := by omega
        simp only [substLeafV, isInfix_self, if_true, this, if_false]
      · have hj : j ≤ 999999 := hT _ hm'
        have hne : i ≠ j := fun e => hnd body' (e ▸ hm')
        refine ⟨.leaf (.str (litPh j)), ?_, by simp only [RV]; exact Or.inr ⟨j, body', hm', rfl, rfl, hd⟩⟩
        simp only [substLeafV, litPh_infix_ne hi hj hne, Bool.false_eq_true, if_false]
  | .dict es, d, b, h => by
    simp only [RV] at h
    obtain ⟨fs, rfl, h⟩ := h
    obtain ⟨es', h1, h2⟩ := stepEs es _ _ h
    exact ⟨.dict es', by simp only [substLeafV, h1, Except.map], by simp only [RV]; exact ⟨fs, rfl, h2⟩⟩
  | .list xs, d, b, h => by
    simp only [RV] at h
    obtain ⟨ys, rfl, h⟩ := h
    obtain ⟨xs', h1, h2⟩ := stepXs xs _ _ h
    exact ⟨.list xs', by simp only [substLeafV, h1, Except.map], by simp only [RV]; exact ⟨ys, rfl, h2⟩⟩
theorem stepEs : ∀ (es : Entries) (d : Nat) (fs : Entries), REs ((i, body) :: T) d es fs →
    ∃ es', substLeafEs (litPh i) (litVal body) d es = .ok es' ∧ REs T d es' fs
  | [], d, fs, h => ⟨[], by simp only [substLeafEs], by simpa only [REs] using h⟩
  | (k, v) :: es, d, fs, h => by
    simp only [REs] at h
    obtain ⟨v', fs', rfl, hv, h⟩ := h
    obtain ⟨a', h1, h2⟩ := stepV v _ _ hv
    obtain ⟨es', h3, h4⟩ := stepEs es _ _ h
    refine ⟨(k, a') :: es', ?_, by simp only [REs]; exact ⟨v', fs', rfl, h2, h4⟩⟩
    simp only [substLeafEs, h1, h3, bind, Except.bind, pure, Except.pure]
theorem stepXs : ∀ (xs : List Val) (d : Nat) (ys : List Val), RXs ((i, body) :: T) d xs ys →
    ∃ xs', substLeafXs (litPh i) (litVal body) d xs = .ok xs' ∧ RXs T d xs' ys
  | [], d, ys, h => ⟨[], by simp only [substLeafXs], by simpa only [RXs] using h⟩
  | v :: xs, d, ys, h => by
    simp only [RXs] at h
    obtain ⟨v', ys', rfl, hv, h⟩ := h
    obtain ⟨a', h1, h2⟩ := stepV v _ _ hv
    obtain ⟨xs', h3, h4⟩ := stepXs xs _ _ h
    refine ⟨a' :: xs', ?_, by simp only [RXs]; exact ⟨v', ys', rfl, h2, h4⟩⟩
    simp only [substLeafXs, h1, h3, bind, Except.bind, pure, Except.pure]
end

end step

/-! #### folding over the table -/

/-- one step of the fold in `insertLiterals` -/
def insStep (acc : Except ParseErr Entries) (e : Nat × Str) : Except ParseErr Entries :=
  match acc with
  | .error x => .error x
  | .ok es => substLeafEs (litPh e.1) (litVal e.2) 1 es

theorem insertLiterals_eq (T : Tbl Str) (es : Entries) : insertLiterals T es = T.foldl insStep (.ok es) := rfl

/-- a table with distinct ids within the counter's range and bodies free of the reserved word, applied to a tree
    related to `b` through that table, yields `b` -/
theorem insertLiterals_of_rel : ∀ (T : Tbl Str), (T.map (·.1)).Nodup → (∀ p ∈ T, p.1 ≤ 999999) →
    (∀ p ∈ T, isInfix kwLit p.2 = false) → ∀ (a b : Entries), REs T 1 a b → insertLiterals T a = .ok b
  | [], _, _, _, a, b, h => by rw [REs_nil a _ _ h]; rfl
  | (i, body) :: T, hnd, hle, hcl, a, b, h => by
    rw [List.map_cons, List.nodup_cons] at hnd
    have hnd' : ∀ b', (i, b') ∉ T := fun b' hm => hnd.1 (List.mem_map.mpr ⟨(i, b'), hm, rfl⟩)
    obtain ⟨a', h1, h2⟩ := stepEs (hle _ List.mem_cons_self) (fun p hp => hle p (List.mem_cons_of_mem _ hp)) hnd'
      (hcl _ List.mem_cons_self) a 1 b h
    have ih := insertLiterals_of_rel T hnd.2 (fun p hp => hle p (List.mem_cons_of_mem _ hp))
      (fun p hp => hcl p (List.mem_cons_of_mem _ hp)) a' b h2
    rw [insertLiterals_eq] at ih ⊢
    rw [List.foldl_cons]
    show List.foldl insStep (substLeafEs (litPh i) (litVal body) 1 a) T = _
    rw [h1, ih]

/-! #### the ids and table entries drawn by `label*` -/

mutual
  /-- number of quoted literals -/
  def countQuotedV : Src → Nat
    | .lit (.bare _) => 0
    | .lit (.quoted _ _) => 1
    | .dict es => countQuotedEs es
    | .list xs => countQuotedXs xs
  def countQuotedEs : SrcEntries → Nat
    | [] => 0
    | (_, v) :: es => countQuotedV v + countQuotedEs es
  def countQuotedXs : List Src → Nat
    | [] => 0
    | v :: xs => countQuotedV v + countQuotedXs xs
end

mutual
  /-- the `(id, body)` pairs recorded by `labelV`, in document order -/
  def drawnV (st : LabelSt) : Src → List (Nat × Str)
    | .lit (.bare _) => []
    | .lit (.quoted _ b) => [((st.fresh b).1, b)]
    | .dict es => drawnEs st es
    | .list xs => drawnXs st xs
  def drawnEs (st : LabelSt) : SrcEntries → List (Nat × Str)
    | [] => []
    | (_, v) :: es => drawnV st v ++ drawnEs (labelV st v).1 es
  def drawnXs (st : LabelSt) : List Src → List (Nat × Str)
    | [] => []
    | v :: xs => drawnV st v ++ drawnXs (labelV st v).1 xs
end

/-- the counter after `k` draws -/
def adv (limit : Nat) : Nat → Counter → Counter
  | 0, c => c
  | k + 1, c => adv limit k (Counter.next limit c).2

theorem adv_add (limit : Nat) : ∀ (m n : Nat) (c : Counter), adv limit (m + n) c = adv limit n (adv limit m c)
  | 0, n, c => by simp [adv]
  | m + 1, n, c => by
    rw [show m + 1 + n = (m + n) + 1 by omega]
    simp only [adv]
    exact adv_add limit m n _

theorem alloc_add (limit : Nat) : ∀ (m n : Nat) (c : Counter),
    alloc limit (m + n) c = alloc limit m c ++ alloc limit n (adv limit m c)
  | 0, n, c => by simp [alloc, adv]
  | m + 1, n, c => by
    rw [show m + 1 + n = (m + n) + 1 by omega, C13.alloc_succ, C13.alloc_succ, alloc_add limit m n]
    simp [adv]

theorem adv_valid {limit : Nat} : ∀ (k : Nat) {c : Counter}, C13.ValidCounter limit c → C13.ValidCounter limit (adv limit k c)
  | 0, _, h => h
  | k + 1, _, h => adv_valid k (C13.next_valid h)

/-- table update with a list of entries -/
def setAll (t : Tbl Str) (l : List (Nat × Str)) : Tbl Str := l.foldl (fun t p => t.set p.1 p.2) t

theorem setAll_nil (t : Tbl Str) : setAll t [] = t := rfl
theorem setAll_append (t : Tbl Str) (l l' : List (Nat × Str)) : setAll t (l ++ l') = setAll (setAll t l) l' := by
  simp [setAll, List.foldl_append]

theorem labelEs_cons (st : LabelSt) (k : Str) (v : Src) (es : SrcEntries) :
    labelEs st ((k, v) :: es) = ((labelEs (labelV st v).1 es).1, (.str k, (labelV st v).2) :: (labelEs (labelV st v).1 es).2) := by
  simp only [labelEs]
theorem labelXs_cons (st : LabelSt) (v : Src) (xs : List Src) :
    labelXs st (v :: xs) = ((labelXs (labelV st v).1 xs).1, (labelV st v).2 :: (labelXs (labelV st v).1 xs).2) := by
  simp only [labelXs]

/-! what `label*` does to the state: the table gets the drawn entries, the ids are the next values of the counter -/
mutual
theorem labelV_state : ∀ (v : Src) (st : LabelSt),
    (labelV st v).1.lits = setAll st.lits (drawnV st v) ∧
    (drawnV st v).map (·.1) = alloc Gen.counterLimit (countQuotedV v) st.counter ∧
    (labelV st v).1.counter = adv Gen.counterLimit (countQuotedV v) st.counter
  | .lit (.bare w), st => by simp [labelV, drawnV, countQuotedV, setAll, alloc, adv]
  | .lit (.quoted q b), st => by
    simp [labelV, drawnV, countQuotedV, setAll, alloc, adv, LabelSt.fresh]
  | .dict es, st => by
    have := labelEs_state es st
    simpa only [labelV, drawnV, countQuotedV] using this
  | .list xs, st => by
    have := labelXs_state xs st
    simpa only [labelV, drawnV, countQuotedV] using this
theorem labelEs_state : ∀ (es : SrcEntries) (st : LabelSt),
    (labelEs st es).1.lits = setAll st.lits (drawnEs st es) ∧
    (drawnEs st es).map (·.1) = alloc Gen.counterLimit (countQuotedEs es) st.counter ∧
    (labelEs st es).1.counter = adv Gen.counterLimit (countQuotedEs es) st.counter
  | [], st => by simp [labelEs, drawnEs, countQuotedEs, setAll, alloc, adv]
  | (k, v) :: es, st => by
    obtain ⟨h1, h2, h3⟩ := labelV_state v st
    obtain ⟨h4, h5, h6⟩ := labelEs_state es (labelV st v).1
    rw [labelEs_cons]
    simp only [drawnEs, countQuotedEs, setAll_append, List.map_append, alloc_add, adv_add]
    rw [h4, h1, h5, h2, h6, h3]
    exact ⟨rfl, rfl, rfl⟩
theorem labelXs_state : ∀ (xs : List Src) (st : LabelSt),
    (labelXs st xs).1.lits = setAll st.lits (drawnXs st xs) ∧
    (drawnXs st xs).map (·.1) = alloc Gen.counterLimit (countQuotedXs xs) st.counter ∧
    (labelXs st xs).1.counter = adv Gen.counterLimit (countQuotedXs xs) st.counter
  | [], st => by simp [labelXs, drawnXs, countQuotedXs, setAll, alloc, adv]
  | v :: xs, st => by
    obtain ⟨h1, h2, h3⟩ := labelV_state v st
    obtain ⟨h4, h5, h6⟩ := labelXs_state xs (labelV st v).1
    rw [labelXs_cons]
    simp only [drawnXs, countQuotedXs, setAll_append, List.map_append, alloc_add, adv_add]
    rw [h4, h1, h5, h2, h6, h3]
    exact ⟨rfl, rfl, rfl⟩
end

/-! the recorded bodies of a well-formed document do not contain the reserved word -/
mutual
theorem drawnV_clean : ∀ (v : Src) (st : LabelSt) (d : Nat), SrcWFV d v = true →
    ∀ p ∈ drawnV st v, isInfix kwLit p.2 = false
  | .lit (.bare w), st, d, _, p, hp => by simp [drawnV] at hp
  | .lit (.quoted q b), st, d, h, p, hp => by
    simp only [drawnV, List.mem_singleton] at hp
    subst hp
    simp only [SrcWFV, Lit.ok, Bool.and_eq_true] at h
    exact isSrcQuoted_clean h.1
  | .dict es, st, d, h, p, hp => by
    simp only [drawnV] at hp; simp only [SrcWFV] at h
    exact drawnEs_clean es st _ h p hp
  | .list xs, st, d, h, p, hp => by
    simp only [drawnV] at hp; simp only [SrcWFV] at h
    exact drawnXs_clean xs st _ h p hp
theorem drawnEs_clean : ∀ (es : SrcEntries) (st : LabelSt) (d : Nat), SrcWFEs d es = true →
    ∀ p ∈ drawnEs st es, isInfix kwLit p.2 = false
  | [], st, d, _, p, hp => by simp [drawnEs] at hp
  | (k, v) :: es, st, d, h, p, hp => by
    simp only [drawnEs, List.mem_append] at hp
    simp only [SrcWFEs, Bool.and_eq_true] at h
    rcases hp with hp | hp
    · exact drawnV_clean v st d h.1.2 p hp
    · exact drawnEs_clean es _ d h.2 p hp
theorem drawnXs_clean : ∀ (xs : List Src) (st : LabelSt) (d : Nat), SrcWFXs d xs = true →
    ∀ p ∈ drawnXs st xs, isInfix kwLit p.2 = false
  | [], st, d, _, p, hp => by simp [drawnXs] at hp
  | v :: xs, st, d, h, p, hp => by
    simp only [drawnXs, List.mem_append] at hp
    simp only [SrcWFXs, Bool.and_eq_true] at h
    rcases hp with hp | hp
    · exact drawnV_clean v st d h.1 p hp
    · exact drawnXs_clean xs _ d h.2 p hp
end

/-- a new id is appended to the table -/
theorem Tbl_set_fresh {i : Nat} {a : Str} : ∀ {t : Tbl Str}, i ∉ t.map (·.1) → Tbl.set i a t = t ++ [(i, a)]
  | [], _ => rfl
  | (j, b) :: t, h => by
    simp only [List.map_cons, List.mem_cons, not_or] at h
    have : ¬ j = i := fun e => h.1 e.symm
    simp only [Tbl.set, this, if_false, List.cons_append, Tbl_set_fresh h.2]

/-- entries with pairwise distinct new ids are appended in order -/
theorem setAll_nodup : ∀ (l : List (Nat × Str)) (t : Tbl Str), (t.map (·.1) ++ l.map (·.1)).Nodup → setAll t l = t ++ l
  | [], t, _ => by simp [setAll]
  | (i, a) :: l, t, h => by
    have hi : i ∉ t.map (·.1) := by
      intro hm
      have := (List.nodup_append.mp h).2.2 i hm i (by simp)
      exact this rfl
    have h' : ((t ++ [(i, a)]).map (·.1) ++ l.map (·.1)).Nodup := by
      simpa using h
    show setAll (Tbl.set i a t) l = _
    rw [Tbl_set_fresh hi, setAll_nodup l _ h']
    simp

/-! #### (d) the labelled tree and the document's meaning are related through the table -/

theorem denEs_cons {k : Str} {key : Key} (hph : isPhTok k = false) (hk : keyOfScalar (parseKey k) = some key)
    (v : Val) (es acc : Entries) : denEs ((.str k, v) :: es) acc = denEs es (setKey key (denV v) acc) := by
  cases v with
  | leaf x =>
    cases x with
    | str w => simp [denEs, denV, hph, hk]
    | _ => simp [denEs, denV, hk]
  | dict d => simp [denEs, hk]
  | list l => simp [denEs, hk]

theorem denSrcEs_cons {k : Str} {key : Key} (hk : keyOfScalar (parseKey k) = some key)
    (v : Src) (es : SrcEntries) (acc : Entries) :
    denSrcEs ((k, v) :: es) acc = denSrcEs es (setKey key (denSrcV v) acc) := by
  simp [denSrcEs, hk]

mutual
theorem relV (T : Tbl Str) : ∀ (v : Src) (st : LabelSt) (d : Nat), SrcWFV d v = true →
    (∀ p ∈ drawnV st v, p ∈ T) → RV T d (denV (labelV st v).2) (denSrcV v)
  | .lit (.bare w), st, d, h, _ => by
    simp only [SrcWFV, Lit.ok, Bool.and_eq_true] at h
    simp only [labelV, denV, denSrcV, Lit.den, RV]
    exact Or.inl ⟨clean_parseValue_word h.1, trivial⟩
  | .lit (.quoted q b), st, d, h, hT => by
    simp only [SrcWFV, Lit.ok, Bool.and_eq_true, decide_eq_true_eq] at h
    simp only [labelV, denV, denSrcV, parseValue_litPh, RV]
    exact Or.inr ⟨(st.fresh b).1, b, hT _ (by simp [drawnV]), rfl, rfl, h.2⟩
  | .dict es, st, d, h, hT => by
    simp only [SrcWFV] at h
    simp only [drawnV] at hT
    simp only [labelV, denV, denSrcV, RV]
    exact ⟨_, rfl, relEs T es st (d + 1) [] [] h hT (by simp only [REs])⟩
  | .list xs, st, d, h, hT => by
    simp only [SrcWFV] at h
    simp only [drawnV] at hT
    simp only [labelV, denV, denSrcV, RV]
    exact ⟨_, rfl, relXs T xs st (d + 1) h hT⟩
theorem relEs (T : Tbl Str) : ∀ (es : SrcEntries) (st : LabelSt) (d : Nat) (acc acc' : Entries), SrcWFEs d es = true →
    (∀ p ∈ drawnEs st es, p ∈ T) → REs T d acc acc' → REs T d (denEs (labelEs st es).2 acc) (denSrcEs es acc')
  | [], st, d, acc, acc', _, _, hacc => by simpa only [labelEs, denEs, denSrcEs] using hacc
  | (k, v) :: es, st, d, acc, acc', h, hT, hacc => by
    simp only [SrcWFEs, Bool.and_eq_true] at h
    obtain ⟨⟨⟨hk, hkey⟩, hv⟩, hes⟩ := h
    obtain ⟨key, hkey⟩ := Option.isSome_iff_exists.mp hkey
    simp only [drawnEs, List.mem_append] at hT
    rw [labelEs_cons, denEs_cons (isSrcWord_facts hk).1 hkey, denSrcEs_cons hkey]
    exact relEs T es _ d _ _ hes (fun p hp => hT p (Or.inr hp))
      (REs_setKey key (relV T v st d hv (fun p hp => hT p (Or.inl hp))) acc acc' hacc)
theorem relXs (T : Tbl Str) : ∀ (xs : List Src) (st : LabelSt) (d : Nat), SrcWFXs d xs = true →
    (∀ p ∈ drawnXs st xs, p ∈ T) → RXs T d (denXs (labelXs st xs).2) (denSrcXs xs)
  | [], st, d, _, _ => by simp only [labelXs, denXs, denSrcXs, RXs]
  | v :: xs, st, d, h, hT => by
    simp only [SrcWFXs, Bool.and_eq_true] at h
    simp only [drawnXs, List.mem_append] at hT
    rw [labelXs_cons]
    simp only [denXs, denSrcXs, RXs]
    exact ⟨_, _, rfl, relV T v st d h.1 (fun p hp => hT p (Or.inl hp)),
      relXs T xs _ d h.2 (fun p hp => hT p (Or.inr hp))⟩
end

/-! ## the property -/

/-- Literal re-insertion restores the document's meaning: for a well-formed source document whose quoted strings
    were replaced by placeholder words with ids drawn from a valid counter (at most `limit + 1` of them, so that
    the wrapping counter hands out no id twice), `insertLiterals` over the recorded table, applied to the meaning
    of the placeholder tree, succeeds and yields exactly the meaning of the source document. -/
theorem insert_literals {es : SrcEntries} {c : Counter} (hwf : SrcWFEs 1 es = true)
    (hc : C13.ValidCounter Gen.counterLimit c) (hn : countQuotedEs es ≤ Gen.counterLimit + 1) :
    let r := labelEs { counter := c } es
    insertLiterals r.1.lits (denEs r.2 []) = .ok (denSrcEs es []) := by
  intro r
  obtain ⟨h1, h2, _⟩ := labelEs_state es { counter := c }
  have hnd : ((drawnEs { counter := c } es).map (·.1)).Nodup := by
    rw [h2]; exact C13.alloc_nodup hn hc
  have hle : ∀ p ∈ drawnEs { counter := c } es, p.1 ≤ 999999 := by
    intro p hp
    have : p.1 ∈ alloc Gen.counterLimit (countQuotedEs es) c := by
      rw [← h2]; exact List.mem_map.mpr ⟨p, hp, rfl⟩
    exact C13.alloc_le hc _ _ this
  have hlits : r.1.lits = drawnEs { counter := c } es := by
    show (labelEs { counter := c } es).1.lits = _
    rw [h1, setAll_nodup _ _ (by simpa using hnd)]
    rfl
  rw [hlits]
  exact insertLiterals_of_rel _ hnd hle (drawnEs_clean es _ 1 hwf) _ _
    (relEs _ es _ 1 [] [] hwf (fun _ hp => hp) (by simp only [REs]))

/-- a document without quoted strings records nothing … -/
theorem insert_literals_none {es : SrcEntries} (st : LabelSt) (h : countQuotedEs es = 0) :
    (labelEs st es).1.lits = st.lits := by
  obtain ⟨h1, h2, _⟩ := labelEs_state es st
  rw [h, alloc] at h2
  rw [h1, List.map_eq_nil_iff.mp h2, setAll_nil]

/-- … and re-insertion over an empty table is the identity -/
theorem insertLiterals_nil (d : Entries) : insertLiterals [] d = .ok d := rfl

theorem insert_literals_none' {es : SrcEntries} {c : Counter} (h : countQuotedEs es = 0) (d : Entries) :
    insertLiterals (labelEs { counter := c } es).1.lits d = .ok d := by
  rw [insert_literals_none _ h]; rfl

/-! ## non-vacuity: a document with two quoted strings, one in a dict (its content spells a number), one in a list -/

/-- `d { s '1.5'; }   l ( "two words" 7 );` -/
def exDoc : SrcEntries :=
  [ ("d".toList, .dict [("s".toList, .lit (.quoted '\'' "1.5".toList))]),
    ("l".toList, .list [.lit (.quoted '"' "two words".toList), .lit (.bare "7".toList)]) ]

theorem exDoc_wf : SrcWFEs 1 exDoc = true := by decide

theorem exDoc_count : countQuotedEs exDoc = 2 := by decide

theorem padSix_zero : padSix 0 = "000000".toList := by
  simp [padSix, natDigits]
theorem padSix_one : padSix 1 = "000001".toList := by
  simp [padSix, natDigits]
theorem litPh_zero : litPh 0 = "STRINGLITERAL000000".toList := by rw [litPh, padSix_zero]; decide
theorem litPh_one : litPh 1 = "STRINGLITERAL000001".toList := by rw [litPh, padSix_one]; decide

/-- the labelled token tree and the table -/
theorem exDoc_label :
    (labelEs { counter := none } exDoc).1.lits = [(0, "1.5".toList), (1, "two words".toList)] ∧
    (labelEs { counter := none } exDoc).2 =
      [ (.str "d".toList, .dict [(.str "s".toList, .leaf (.str "STRINGLITERAL000000".toList))]),
        (.str "l".toList, .list [.leaf (.str "STRINGLITERAL000001".toList), .leaf (.str "7".toList)]) ] := by
  simp [exDoc, labelEs, labelV, labelXs, LabelSt.fresh, Counter.next, Tbl.set, Gen.counterLimit, litPh_zero, litPh_one]

/-- the document's meaning: the numeric content is typed (`'1.5'` is the float 1.5), the other literal keeps its text -/
theorem exDoc_den : denSrcEs exDoc [] =
    [ (.str "d".toList, .dict [(.str "s".toList, .leaf (.float "1.5".toList))]),
      (.str "l".toList, .list [.leaf (.str "two words".toList), .leaf (.int 7)]) ] := by decide

/-- the meaning of the placeholder tree: the placeholder words are string leaves -/
theorem exDoc_denLabelled : denEs (labelEs { counter := none } exDoc).2 [] =
    [ (.str "d".toList, .dict [(.str "s".toList, .leaf (.str "STRINGLITERAL000000".toList))]),
      (.str "l".toList, .list [.leaf (.str "STRINGLITERAL000001".toList), .leaf (.int 7)]) ] := by
  rw [exDoc_label.2]; decide

/-- equality of results is decidable (needed only to evaluate the examples) -/
local instance decEqResult : DecidableEq (Except ParseErr Entries)
  | .ok a, .ok b => if h : a = b then isTrue (h ▸ rfl) else isFalse (fun e => h (Except.ok.inj e))
  | .error a, .error b => if h : a = b then isTrue (h ▸ rfl) else isFalse (fun e => h (Except.error.inj e))
  | .ok _, .error _ => isFalse (fun e => nomatch e)
  | .error _, .ok _ => isFalse (fun e => nomatch e)

/-- left side of `insert_literals` for `c = none`, evaluated … -/
theorem exDoc_lhs :
    insertLiterals (labelEs { counter := none } exDoc).1.lits (denEs (labelEs { counter := none } exDoc).2 []) =
    .ok [ (.str "d".toList, .dict [(.str "s".toList, .leaf (.float "1.5".toList))]),
          (.str "l".toList, .list [.leaf (.str "two words".toList), .leaf (.int 7)]) ] := by
  rw [exDoc_label.1, exDoc_denLabelled, insertLiterals_eq]
  simp only [List.foldl, insStep, litPh_zero, litPh_one]
  decide

/-- … and the instance of the theorem -/
example : insertLiterals (labelEs { counter := none } exDoc).1.lits (denEs (labelEs { counter := none } exDoc).2 []) =
    .ok (denSrcEs exDoc []) :=
  insert_literals exDoc_wf (Or.inl rfl) (by rw [exDoc_count]; decide)

/-! #### the reserved-word hypothesis of `SrcWFEs` is needed

  `a 'STRINGLITERAL000001';  b 'x';` : the first literal's *content* looks like the placeholder of the second one.
  Re-insertion first restores `a`, then the second table entry matches the restored text (the test is "contains",
  and it runs over the whole tree again) and overwrites it: `a` comes back as `x`.  Such documents are excluded by
  `isSrcQuoted` (`!isInfix kwLit b`); `isSrcWord` excludes the same for bare words. -/

def exBad : SrcEntries :=
  [ ("a".toList, .lit (.quoted '\'' "STRINGLITERAL000001".toList)),
    ("b".toList, .lit (.quoted '\'' "x".toList)) ]

theorem exBad_label :
    (labelEs { counter := none } exBad).1.lits = [(0, "STRINGLITERAL000001".toList), (1, "x".toList)] ∧
    (labelEs { counter := none } exBad).2 =
      [ (.str "a".toList, .leaf (.str "STRINGLITERAL000000".toList)),
        (.str "b".toList, .leaf (.str "STRINGLITERAL000001".toList)) ] := by
  simp [exBad, labelEs, labelV, LabelSt.fresh, Counter.next, Tbl.set, Gen.counterLimit, litPh_zero, litPh_one]

theorem exBad_result :
    insertLiterals (labelEs { counter := none } exBad).1.lits (denEs (labelEs { counter := none } exBad).2 []) =
      .ok [ (.str "a".toList, .leaf (.str "x".toList)), (.str "b".toList, .leaf (.str "x".toList)) ] ∧
    denSrcEs exBad [] =
      [ (.str "a".toList, .leaf (.str "STRINGLITERAL000001".toList)), (.str "b".toList, .leaf (.str "x".toList)) ] := by
  refine ⟨?_, by decide⟩
  rw [exBad_label.1, exBad_label.2, insertLiterals_eq]
  simp only [List.foldl, insStep, litPh_zero, litPh_one]
  decide

end DictIO.C02
