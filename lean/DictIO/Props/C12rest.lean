/-
  C12 -- the reader after its comment stages, on a *labelled* document.

  After the comment stages a commented document has become a layout of the token stream `srcToksPEs es` of a labelled
  document `es` in which every comment is an entry `(ph, .lit (.bare ph))`, written as the single word `ph`.
  `parseRest` (newline removal, literal extraction, expression extraction, tokenizing, scanning, literal re-insertion,
  `_clean`, removal of the documentation keys) returns the meaning `denPEs es []` of that document.

    1  `TokOK'`, `lex_tok'`, `lex_spread'`, `labelled_no_dollar'`
           the literal stage for words that are merely free of quote, backslash, `$` and white space
    2  `pwf_cons`, `srcToksPEs_ok`, `label_toksPEs`, `labelled_wfPEs`
           the tokens of a `SrcPWFEs` document are admissible; `labelEs` commutes with the comment entries
    3  `tokOK'_ends`, `core_shape'`, `normalise_toks`
           newline removal and `strip`, for any admissible token list (a comment may come first or last)
    4  `parseRest_eq`, `parseBlockSt_labelled`
           `C12.parseBlockSt_plain` with comment entries anywhere, from any lexer state
    5  `drawnPEs_clean`, `relPEs`, `insert_literals_labelled`
           `C02.insert_literals` with comment entries at any dict level
    6  `parseRest_labelled` (the main theorem), `parseRest_labelled_counter` (counter spelled out),
       `parseRest_labelled_clean` (uses `DocKeysAbsentP`: no `dropDocKeys` left; `cleanLevel_keys`, `cleanRec_keys`,
       `clean_keys`: `_clean` only deletes keys; `denP_keys`, `denP_lookup_none`, `dropDocKeys_clean`)
    7  `read_commented_of_stages` (+ `_counter`), `denC_eq`, `restSD_denC`, `read_commented_denC`,
       `countQuoted_labelI`, `docKeys_label`, `counter_labelI`, `read_commented_denC'`
           the whole reader, given what the comment stages produce
    8  `exItems`, `exP`, … `ex_parseRest`, `ex_parseRest_eval`, `ex_restSD`, `ex_denC`     a concrete instance

  Hypotheses beyond the ones asked for: none.  (`DocKeysAbsentP` is not needed by `parseRest_labelled` as stated,
  with `dropDocKeys` in the result; it is what `parseRest_labelled_clean` uses to remove it.)
-/
import DictIO.Props.C12hdr
import DictIO.Model.GrammarC

namespace DictIO.C12
open DictIO

set_option linter.unusedSimpArgs false
set_option linter.unusedVariables false
set_option linter.unnecessarySimpa false

/-! ## 1. the literal stage on token streams with placeholder words -/

/-- admissible token of a labelled document: a non-empty word without quote, `$`, backslash and white space (source
    words, delimiters, comment placeholder words), or an admissible quoted string -/
def TokOK' : STok → Prop
  | .word w => w ≠ [] ∧ ∀ c ∈ w, isQuote c = false ∧ c ≠ '$' ∧ c ≠ '\\' ∧ isWs c = false
  | .quoted q b => isSrcQuoted q b = true

theorem tokOK'_of_ok {t : STok} (h : C02.TokOK t) : TokOK' t := by
  cases t with
  | word w =>
    refine ⟨?_, C02.okWord_chars h⟩
    rcases h with h | h
    · exact (C02.wordTok_chars (C02.srcWord_facts h).1).1
    · obtain ⟨c, rfl, _⟩ := C02.delimTok_inv h
      simp
  | quoted q b => exact h

theorem tokOK'_delim {c : Char} (h : Gen.delimiters.contains c = true) : TokOK' (.word [c]) :=
  tokOK'_of_ok (C02.tokOK_delim h)

/-- one token, whatever follows -/
theorem lex_tok' (t : STok) (ht : TokOK' t) (rest : Str) (st st' : LexSt) (out : Str)
    (hrest : ∀ fuel prev, rest.length ≤ fuel → prev ≠ some '\\' →
      lexLiteralsFuel fuel (C02.withLab st (C02.labelTok (C02.labOf st) t).1) prev rest = .ok (st', out)) :
    ∀ fuel prev, (t.text ++ rest).length ≤ fuel → prev ≠ some '\\' →
      lexLiteralsFuel fuel st prev (t.text ++ rest) = .ok (st', (C02.labelTok (C02.labOf st) t).2 ++ out) := by
  cases t with
  | word w =>
    exact C02.lex_copy w rest st st' out (fun c hc' => (ht.2 c hc').1) (fun c hc' => (ht.2 c hc').2.2.1) hrest
  | quoted q b => exact C02.lex_quoted q b rest st st' out ht hrest

/-- the literal stage on any admissible layout (`C02.lex_spread` for the wider class of tokens) -/
theorem lex_spread' : ∀ (ts : List STok) (gaps : List Str) (tail : Str), (∀ t ∈ ts, TokOK' t) →
    GapsOKS ts gaps = true → tail.all isWs = true →
    ∀ (st : LexSt) (fuel : Nat) (prev : Option Char), (spreadS ts gaps tail).length ≤ fuel → prev ≠ some '\\' →
      lexLiteralsFuel fuel st prev (spreadS ts gaps tail) =
        .ok (C02.withLab st (labelToks (C02.labOf st) ts).1, spread (labelToks (C02.labOf st) ts).2 gaps tail)
  | [], gaps, tail, _, _, htail, st, fuel, prev, hf, hp => by
    have htl := List.all_eq_true.mp htail
    have := C02.lex_copy tail [] st st [] (fun c hc => C02.ws_not_quote (htl c hc))
      (fun c hc => C02.ws_ne_backslash (htl c hc))
      (fun fuel prev _ _ => C02.lex_nil fuel st prev) fuel prev (by simpa [spreadS, spread] using hf) hp
    simpa [spreadS, spread, C02.labelToks_nil, C02.withLab_labOf] using this
  | t :: ts, [], tail, hts, hg, htail, st, fuel, prev, hf, hp => by
    have := C02.gapsOKS_nogaps hg; subst this
    have htl := List.all_eq_true.mp htail
    have e : spreadS [t] [] tail = t.text ++ (tail ++ []) := by simp [spreadS, spread]
    rw [e] at hf ⊢
    rw [lex_tok' t (hts t (by simp)) (tail ++ []) st _ (tail ++ []) (fun fuel prev hf hp =>
      C02.lex_copy tail [] _ _ [] (fun c hc => C02.ws_not_quote (htl c hc)) (fun c hc => C02.ws_ne_backslash (htl c hc))
        (fun fuel prev _ _ => C02.lex_nil fuel _ prev) fuel prev hf hp) fuel prev hf hp]
    simp [C02.labelToks_cons, C02.labelToks_nil, spread]
  | t :: ts, g :: gs, tail, hts, hg, htail, st, fuel, prev, hf, hp => by
    obtain ⟨hgws, hrest⟩ := C02.gapsOKS_cons hg
    have hgl := List.all_eq_true.mp hgws
    have e : spreadS (t :: ts) (g :: gs) tail = g ++ (t.text ++ spreadS ts gs tail) := by
      simp [spreadS, spread]
    rw [e] at hf ⊢
    rw [C02.lex_copy g _ st _ _ (fun c hc => C02.ws_not_quote (hgl c hc)) (fun c hc => C02.ws_ne_backslash (hgl c hc))
      (lex_tok' t (hts t (by simp)) _ st _ _ (fun fuel prev hf hp =>
        lex_spread' ts gs tail (fun u hu => hts u (by simp [hu])) hrest htail _ fuel prev hf hp)) fuel prev hf hp]
    simp [C02.labelToks_cons, spread, C02.labOf_withLab, C02.withLab_withLab]

theorem labelled_no_dollar' : ∀ (ts : List STok) (st : LabelSt), (∀ t ∈ ts, TokOK' t) →
    ∀ w ∈ (labelToks st ts).2, ∀ c ∈ w, c ≠ '$'
  | [], _, _, w, hw => by simp [C02.labelToks_nil] at hw
  | t :: ts, st, hts, w, hw => by
    rw [C02.labelToks_cons] at hw
    simp only [List.mem_cons] at hw
    rcases hw with rfl | hw
    · intro c hc
      cases t with
      | word x => exact ((hts (.word x) (by simp)).2 c hc).2.1
      | quoted q b => exact (C02.litPh_chars _ c hc).2.2
    · exact labelled_no_dollar' ts _ (fun u hu => hts u (by simp [hu])) w hw

/-! ## 2. labelled documents: their tokens, their token trees -/

/-- what `SrcPWFEs` says about the first entry -/
theorem pwf_cons {d : Nat} {k : Str} {v : Src} {es : SrcEntries} (h : SrcPWFEs d ((k, v) :: es) = true) :
    ((isPhTok k = true ∧ isWordTok k = true ∧ v = .lit (.bare k) ∧
        (∀ c ∈ k, isQuote c = false ∧ c ≠ '$' ∧ c ≠ '\\') ∧ isInfix kwLit k = false) ∨
     (isPhTok k = false ∧ isSrcWord k = true ∧ (keyOfScalar (parseKey k)).isSome = true ∧ SrcPWFV d v = true)) ∧
    SrcPWFEs d es = true := by
  simp only [SrcPWFEs, Bool.and_eq_true] at h
  refine ⟨?_, h.2⟩
  have h1 := h.1
  by_cases hp : isPhTok k = true
  · left
    simp only [hp, if_true, Bool.and_eq_true, Bool.not_eq_true', List.all_eq_true, bne_iff_ne, ne_eq] at h1
    obtain ⟨⟨⟨⟨hw, hv⟩, hc⟩, hl⟩, _⟩ := h1
    refine ⟨hp, hw, ?_, fun c hc' => ⟨(hc c hc').1.1, (hc c hc').1.2, (hc c hc').2⟩, hl⟩
    cases v with
    | lit l =>
      cases l with
      | bare w => simp only [beq_iff_eq] at hv; rw [hv]
      | quoted q b => simp at hv
    | dict dd => simp at hv
    | list l => simp at hv
  · right
    have hp' : isPhTok k = false := by simpa using hp
    simp only [hp', Bool.false_eq_true, if_false, Bool.and_eq_true] at h1
    exact ⟨hp', h1.1.1, h1.1.2, h1.2⟩

theorem tokOK'_ph {k : Str} (hw : isWordTok k = true)
    (hc : ∀ c ∈ k, isQuote c = false ∧ c ≠ '$' ∧ c ≠ '\\') : TokOK' (.word k) := by
  obtain ⟨hne, hws, _⟩ := C02.wordTok_chars hw
  exact ⟨hne, fun c h => ⟨(hc c h).1, (hc c h).2.1, (hc c h).2.2, hws c h⟩⟩

theorem tokOK'_lit {l : Lit} (h : l.ok = true) : TokOK' l.tok := by
  cases l with
  | bare w => exact tokOK'_of_ok (Or.inl h)
  | quoted q b => exact h

/-- every token of a well-formed labelled document is admissible -/
theorem srcToksPEs_ok : ∀ (es : SrcEntries) (d : Nat), SrcPWFEs d es = true → ∀ t ∈ srcToksPEs es, TokOK' t
  | [], _, _, t, ht => by simp [srcToksPEs] at ht
  | (k, .lit l) :: es, d, h, t, ht => by
    obtain ⟨h1, hes⟩ := pwf_cons h
    simp only [srcToksPEs, List.mem_append] at ht
    rcases ht with ht | ht
    · rcases h1 with ⟨hp, hw, _, hc, _⟩ | ⟨hp, hk, _, hv⟩
      · simp only [hp, if_true, List.mem_singleton] at ht
        subst ht
        exact tokOK'_ph hw hc
      · simp only [hp, Bool.false_eq_true, if_false, List.mem_cons, List.not_mem_nil, or_false] at ht
        simp only [SrcPWFV, Bool.and_eq_true] at hv
        rcases ht with rfl | rfl | rfl
        · exact tokOK'_of_ok (Or.inl hk)
        · exact tokOK'_lit hv.1
        · exact tokOK'_delim (by decide)
    · exact srcToksPEs_ok es d hes t ht
  | (k, .dict dd) :: es, d, h, t, ht => by
    obtain ⟨h1, hes⟩ := pwf_cons h
    rcases h1 with ⟨_, _, hv, _⟩ | ⟨hp, hk, _, hv⟩
    · cases hv
    · simp only [SrcPWFV] at hv
      simp only [srcToksPEs, List.mem_cons, List.mem_append, List.not_mem_nil, or_false, or_assoc] at ht
      rcases ht with rfl | rfl | ht | rfl | ht
      · exact tokOK'_of_ok (Or.inl hk)
      · exact tokOK'_delim (by decide)
      · exact srcToksPEs_ok dd (d + 1) hv t ht
      · exact tokOK'_delim (by decide)
      · exact srcToksPEs_ok es d hes t ht
  | (k, .list l) :: es, d, h, t, ht => by
    obtain ⟨h1, hes⟩ := pwf_cons h
    rcases h1 with ⟨_, _, hv, _⟩ | ⟨hp, hk, _, hv⟩
    · cases hv
    · simp only [SrcPWFV] at hv
      simp only [srcToksPEs, List.mem_cons, List.mem_append, List.not_mem_nil, or_false, or_assoc] at ht
      rcases ht with rfl | rfl | ht | rfl | rfl | ht
      · exact tokOK'_of_ok (Or.inl hk)
      · exact tokOK'_delim (by decide)
      · exact tokOK'_of_ok (C02.srcToksXs_ok l (d + 1) hv t ht)
      · exact tokOK'_delim (by decide)
      · exact tokOK'_delim (by decide)
      · exact srcToksPEs_ok es d hes t ht

/-- (3) the labelled token stream of a labelled document is the token stream of its token tree: `labelEs` maps a
    comment entry `(ph, bare ph)` to the token-tree entry `ph ↦ ph`, which `toksEs` writes as the single word -/
theorem label_toksPEs : ∀ (es : SrcEntries) (d : Nat) (st : LabelSt), SrcPWFEs d es = true →
    labelToks st (srcToksPEs es) = ((labelEs st es).1, toksEs (labelEs st es).2)
  | [], d, st, h => by simp only [srcToksPEs, labelEs, toksEs, labelToks]
  | (k, .lit l) :: es, d, st, h => by
    obtain ⟨h1, hes⟩ := pwf_cons h
    rcases h1 with ⟨hp, hw, hv, hc, _⟩ | ⟨hp, hk, _, hv⟩
    · cases hv
      simp only [srcToksPEs, hp, if_true, List.singleton_append, C02.labelToks_cons, C02.labelTok, labelEs, labelV,
        toksEs, label_toksPEs es d _ hes]
    · cases l with
      | bare w =>
        simp only [srcToksPEs, Lit.tok, C02.labelToks_cons, C02.labelTok, labelEs, labelV, toksEs, hp,
          Bool.false_eq_true, if_false, label_toksPEs es d _ hes, List.cons_append, List.nil_append]
      | quoted q b =>
        simp only [srcToksPEs, Lit.tok, C02.labelToks_cons, C02.labelTok, labelEs, labelV, toksEs, hp,
          Bool.false_eq_true, if_false, label_toksPEs es d _ hes, List.cons_append, List.nil_append]
  | (k, .dict dd) :: es, d, st, h => by
    obtain ⟨h1, hes⟩ := pwf_cons h
    rcases h1 with ⟨_, _, hv, _⟩ | ⟨hp, hk, _, hv⟩
    · cases hv
    · simp only [SrcPWFV] at hv
      simp only [srcToksPEs, C02.labelToks_cons, C02.labelTok, C02.labelToks_append, labelEs, labelV, toksEs,
        label_toksPEs dd (d + 1) _ hv, label_toksPEs es d _ hes, List.cons_append, List.nil_append,
        List.append_assoc, C02.labelToks_nil]
  | (k, .list l) :: es, d, st, h => by
    obtain ⟨h1, hes⟩ := pwf_cons h
    rcases h1 with ⟨_, _, hv, _⟩ | ⟨hp, hk, _, hv⟩
    · cases hv
    · simp only [SrcPWFV] at hv
      simp only [srcToksPEs, C02.labelToks_cons, C02.labelTok, C02.labelToks_append, labelEs, labelV, toksEs,
        C02.label_toksXs l (d + 1) _ hv, label_toksPEs es d _ hes, List.cons_append, List.nil_append,
        List.append_assoc, C02.labelToks_nil]

/-- (3) the token tree of a labelled document is well formed -/
theorem labelled_wfPEs : ∀ (es : SrcEntries) (d : Nat) (st : LabelSt), SrcPWFEs d es = true →
    TokWFEs (labelEs st es).2 = true
  | [], _, _, _ => rfl
  | (k, .lit l) :: es, d, st, h => by
    obtain ⟨h1, hes⟩ := pwf_cons h
    rcases h1 with ⟨hp, hw, hv, hc, _⟩ | ⟨hp, hk, hkey, hv⟩
    · cases hv
      simp only [labelEs, labelV, TokWFEs, hp, if_true, hw, beq_self_eq_true, Bool.and_self, Bool.true_and,
        labelled_wfPEs es d _ hes]
    · obtain ⟨hkw, _, _⟩ := C02.srcWord_facts hk
      have hv' := C02.labelled_wfV (.lit l) d st hv
      cases l with
      | bare w =>
        simp only [labelV, TokWFV, Bool.and_eq_true] at hv'
        simp only [labelEs, labelV, TokWFEs, hp, Bool.false_eq_true, if_false, hkw, hkey, hv'.1, hv'.2,
          labelled_wfPEs es d _ hes, Bool.and_self]
      | quoted q b =>
        simp only [labelV, TokWFV, Bool.and_eq_true] at hv'
        simp only [labelEs, labelV, TokWFEs, hp, Bool.false_eq_true, if_false, hkw, hkey, hv'.1, hv'.2,
          labelled_wfPEs es d _ hes, Bool.and_self]
  | (k, .dict dd) :: es, d, st, h => by
    obtain ⟨h1, hes⟩ := pwf_cons h
    rcases h1 with ⟨_, _, hv, _⟩ | ⟨hp, hk, hkey, hv⟩
    · cases hv
    · obtain ⟨hkw, _, _⟩ := C02.srcWord_facts hk
      simp only [SrcPWFV] at hv
      simp only [labelEs, labelV, TokWFEs, TokWFV, hp, hkw, hkey, labelled_wfPEs dd (d + 1) st hv,
        labelled_wfPEs es d _ hes, Bool.not_false, Bool.and_self]
  | (k, .list l) :: es, d, st, h => by
    obtain ⟨h1, hes⟩ := pwf_cons h
    rcases h1 with ⟨_, _, hv, _⟩ | ⟨hp, hk, hkey, hv⟩
    · cases hv
    · obtain ⟨hkw, _, _⟩ := C02.srcWord_facts hk
      simp only [SrcPWFV] at hv
      simp only [labelEs, labelV, TokWFEs, TokWFV, hp, hkw, hkey, C02.labelled_wfXs l (d + 1) st hv,
        labelled_wfPEs es d _ hes, Bool.not_false, Bool.and_self]

/-! ## 3. newline removal and `strip` on an admissible layout of admissible tokens -/

theorem tokOK'_no_nl {t : STok} (ht : TokOK' t) : ∀ c ∈ t.text, c ≠ '\n' := by
  intro c hc
  cases t with
  | word w =>
    have := (ht.2 c hc).2.2.2
    rintro rfl; rw [C02.isWs_nl] at this; cases this
  | quoted q b =>
    obtain ⟨h1, _, h3⟩ := C02.srcQuoted_facts ht
    simp only [STok.text, List.mem_cons, List.mem_append, List.not_mem_nil, or_false, or_assoc] at hc
    rcases hc with rfl | hc | rfl
    · rintro rfl; simp [isQuote] at h1
    · rintro rfl; have := (h3 _ hc).1; rw [C02.isLineBreak_nl] at this; cases this
    · rintro rfl; simp [isQuote] at h1

/-- the text of an admissible token starts and ends with a non-blank character -/
theorem tokOK'_ends {t : STok} (ht : TokOK' t) :
    (∃ a x, t.text = a :: x ∧ isWs a = false) ∧ (∃ y b, t.text = y ++ [b] ∧ isWs b = false) := by
  cases t with
  | word w =>
    obtain ⟨hne, hc⟩ := ht
    constructor
    · cases w with
      | nil => exact absurd rfl hne
      | cons a x => exact ⟨a, x, rfl, (hc a (by simp)).2.2.2⟩
    · refine ⟨w.dropLast, w.getLast hne, (List.dropLast_concat_getLast hne).symm, (hc _ (List.getLast_mem hne)).2.2.2⟩
  | quoted q b =>
    obtain ⟨h1, _, _⟩ := C02.srcQuoted_facts ht
    have hq := (C02.Main.quote_facts h1).1
    exact ⟨⟨q, b ++ [q], rfl, hq⟩, ⟨q :: b, q, rfl, hq⟩⟩

/-- a layout without leading gap and tail starts and ends with a non-blank character -/
theorem core_shape' (ts : List STok) (gaps : List Str) (hts : ∀ t ∈ ts, TokOK' t) (hne : ts ≠ [])
    (hhead : gaps.headD [] = []) :
    ∃ a x y b, spreadS ts gaps [] = a :: x ∧ spreadS ts gaps [] = y ++ [b] ∧ isWs a = false ∧ isWs b = false := by
  obtain ⟨a, x, hax, ha⟩ : ∃ a x, spreadS ts gaps [] = a :: x ∧ isWs a = false := by
    cases ts with
    | nil => exact absurd rfl hne
    | cons t ts =>
      obtain ⟨⟨a, x, e, ha⟩, _⟩ := tokOK'_ends (hts t (by simp))
      exact ⟨a, x ++ spreadS ts gaps.tail [], by rw [C02.Main.spreadS_cons, hhead, e]; rfl, ha⟩
  obtain ⟨y, b, hyb, hb⟩ : ∃ y b, spreadS ts gaps [] = y ++ [b] ∧ isWs b = false := by
    have e := (List.dropLast_concat_getLast hne).symm
    obtain ⟨_, ⟨y, b, e', hb⟩⟩ := tokOK'_ends (hts _ (List.getLast_mem hne))
    obtain ⟨z, hz⟩ := C02.spread_snoc (ts.dropLast.map STok.text) gaps (ts.getLast hne).text
    refine ⟨z ++ y, b, ?_, hb⟩
    rw [List.append_assoc, ← e', ← hz]
    conv => lhs; rw [e]
    simp [spreadS]
  exact ⟨a, x, y, b, hax, hyb, ha, hb⟩

/-- newline removal and `strip` turn an admissible layout of admissible tokens into an admissible layout of the same
    tokens without line feeds, leading gap and tail (`C02.normalise_spread` for any token list) -/
theorem normalise_toks (ts : List STok) (gaps : List Str) (tail : Str) (hts : ∀ t ∈ ts, TokOK' t)
    (hg : GapsOKS ts gaps = true) (ht : tail.all isWs = true) :
    ∃ gaps', GapsOKS ts gaps' = true ∧
      strip ((spreadS ts gaps tail).map fun ch => if ch == '\n' then ' ' else ch) = spreadS ts gaps' [] := by
  have htoks : (List.map STok.text ts).map (·.map fun ch => if ch == '\n' then ' ' else ch) =
      List.map STok.text ts := by
    rw [List.map_map]
    apply List.map_congr_left
    intro t ht'
    exact C02.map_nl_id _ (tokOK'_no_nl (hts t ht'))
  have hmap : (spreadS ts gaps tail).map (fun ch => if ch == '\n' then ' ' else ch) =
      spreadS ts (gaps.map (·.map fun ch => if ch == '\n' then ' ' else ch))
        (tail.map fun ch => if ch == '\n' then ' ' else ch) := by
    simp only [spreadS, C02.map_spread, htoks]
  rw [hmap]
  have hg' := C02.gapsOKS_map _ _ hg
  have ht' := C02.nl_ws_all tail ht
  generalize gaps.map (·.map fun ch => if ch == '\n' then ' ' else ch) = gm at hg' ⊢
  generalize (tail.map fun ch => if ch == '\n' then ' ' else ch) = tm at ht' ⊢
  cases ts with
  | nil =>
    refine ⟨[], rfl, ?_⟩
    simp only [spreadS, List.map_nil, spread]
    exact C02.strip_ws tm ht'
  | cons t ts =>
    cases gm with
    | nil =>
      have := C02.gapsOKS_nogaps hg'; subst this
      refine ⟨[], rfl, ?_⟩
      obtain ⟨a, x, y, b, h1, h2, ha, hb⟩ := core_shape' [t] [] hts (by simp) rfl
      have e : spreadS [t] [] tm = [] ++ spreadS [t] [] [] ++ tm := by simp [spreadS, spread]
      rw [e]
      exact C02.strip_core [] _ tm x y a b rfl ht' h1 h2 ha hb
    | cons g gs =>
      have hgws : g.all isWs = true := (C02.gapsOKS_cons hg').1
      have hg0 : GapsOKS (t :: ts) ([] :: gs) = true := gapsOKS_head hg' rfl
      refine ⟨[] :: gs, hg0, ?_⟩
      obtain ⟨a, x, y, b, h1, h2, ha, hb⟩ := core_shape' (t :: ts) ([] :: gs) hts (by simp) rfl
      have esplit : spreadS (t :: ts) (g :: gs) tm = g ++ spreadS (t :: ts) ([] :: gs) [] ++ tm := by
        simp only [spreadS, List.map_cons]
        rw [C02.spread_tail]
        simp [spread]
      rw [esplit]
      exact C02.strip_core g _ tm x y a b hgws ht' h1 h2 ha hb

/-! ## 4. the stages between newline removal and `_clean` -/

/-- `parseRest` is `parseBlockSt` followed by `_clean` and the removal of the documentation keys -/
theorem parseRest_eq (st : LexSt) (block : Str) :
    parseRest st block = (parseBlockSt st block).map (fun r => finishSD r.1 r.2) := by
  simp only [parseRest, parseBlockSt, parseBlockSt', finishSD, bind, Except.bind, pure, Except.pure, Except.map]
  cases hl : lexLiteralsFuel _ st none (strip (List.map (fun ch => if (ch == '\n') = true then ' ' else ch) block)) with
  | error e => rfl
  | ok v =>
    simp only []
    cases parseDictToks true [] (levels 0 (tokenize (lexExpressions v.fst v.snd).snd)) [] with
    | error e => rfl
    | ok es =>
      simp only []
      cases insertLiterals (lexExpressions v.fst v.snd).fst.lits es <;> rfl

/-- the stages on any admissible layout of a labelled document, from any lexer state: the scanner's result is the
    meaning of the token tree; what remains is literal re-insertion (`parseBlockSt_plain` with placeholder entries
    anywhere) -/
theorem parseBlockSt_labelled (st : LexSt) (es : SrcEntries) (gaps : List Str) (tail : Str)
    (h : SrcPWFEs 1 es = true) (hg : GapsOKS (srcToksPEs es) gaps = true) (ht : tail.all isWs = true) :
    parseBlockSt st (spreadS (srcToksPEs es) gaps tail) =
      (insertLiterals (labelEs (C02.labOf st) es).1.lits (denEs (labelEs (C02.labOf st) es).2 [])).map
        (fun r => (r, C02.withLab st (labelEs (C02.labOf st) es).1)) := by
  have hok := srcToksPEs_ok es 1 h
  obtain ⟨gaps', hg', e⟩ := normalise_toks _ gaps tail hok hg ht
  unfold parseBlockSt
  rw [e]
  have hl := label_toksPEs es 1 (C02.labOf st) h
  have hlex := lex_spread' (srcToksPEs es) gaps' [] hok hg' rfl st _ none (Nat.le_succ _) (by simp)
  have hgl := C02.gaps_bridge_aux (srcToksPEs es) gaps' (C02.labOf st) hg'
  rw [hl] at hlex
  rw [hl] at hgl
  have hnd := labelled_no_dollar' (srcToksPEs es) (C02.labOf st) hok
  rw [hl] at hnd
  exact stages_tail _ _ _ _ gaps' hlex (labelled_wfPEs es 1 _ h) hgl hnd

/-! ## 5. literal re-insertion on a labelled document -/

/-- number of quoted strings of a labelled document (`C02.countQuotedEs`: a comment entry holds a bare word and
    counts 0) -/
abbrev countQuotedEs' (es : SrcEntries) : Nat := C02.countQuotedEs es

/-- no top-level key is spelled `_variables` or `_includes` -/
abbrev DocKeysAbsentP (es : SrcEntries) : Prop := C02.DocKeysAbsent es

theorem denPEs_cons_ph {k : Str} (hp : isPhTok k = true) (v : Src) (es : SrcEntries) (acc : Entries) :
    denPEs ((k, v) :: es) acc = denPEs es (setKey (.str k) (.leaf (.str k)) acc) := by
  simp only [denPEs, hp, if_true]

theorem denPEs_cons {k : Str} {key : Key} (hp : isPhTok k = false) (hk : keyOfScalar (parseKey k) = some key)
    (v : Src) (es : SrcEntries) (acc : Entries) :
    denPEs ((k, v) :: es) acc = denPEs es (setKey key (denPV v) acc) := by
  simp only [denPEs, hp, Bool.false_eq_true, if_false, hk]

theorem denEs_cons_ph {k : Str} (hp : isPhTok k = true) (w : Str) (es acc : Entries) :
    denEs ((.str k, .leaf (.str w)) :: es) acc = denEs es (setKey (.str k) (.leaf (.str k)) acc) := by
  simp only [denEs, hp, if_true]

/-- the recorded bodies of a well-formed labelled document do not contain the reserved word -/
theorem drawnPEs_clean : ∀ (es : SrcEntries) (st : LabelSt) (d : Nat), SrcPWFEs d es = true →
    ∀ p ∈ C02.drawnEs st es, isInfix kwLit p.2 = false
  | [], st, d, _, p, hp => by simp [C02.drawnEs] at hp
  | (k, .lit l) :: es, st, d, h, p, hp => by
    obtain ⟨h1, hes⟩ := pwf_cons h
    simp only [C02.drawnEs, List.mem_append] at hp
    rcases hp with hp | hp
    · rcases h1 with ⟨_, _, hv, _⟩ | ⟨_, _, _, hv⟩
      · cases hv; simp [C02.drawnV] at hp
      · exact C02.drawnV_clean (.lit l) st d (by simpa only [SrcPWFV, SrcWFV] using hv) p hp
    · exact drawnPEs_clean es _ d hes p hp
  | (k, .dict dd) :: es, st, d, h, p, hp => by
    obtain ⟨h1, hes⟩ := pwf_cons h
    simp only [C02.drawnEs, List.mem_append] at hp
    rcases hp with hp | hp
    · rcases h1 with ⟨_, _, hv, _⟩ | ⟨_, _, _, hv⟩
      · cases hv
      · simp only [SrcPWFV] at hv
        simp only [C02.drawnV] at hp
        exact drawnPEs_clean dd st (d + 1) hv p hp
    · exact drawnPEs_clean es _ d hes p hp
  | (k, .list l) :: es, st, d, h, p, hp => by
    obtain ⟨h1, hes⟩ := pwf_cons h
    simp only [C02.drawnEs, List.mem_append] at hp
    rcases hp with hp | hp
    · rcases h1 with ⟨_, _, hv, _⟩ | ⟨_, _, _, hv⟩
      · cases hv
      · exact C02.drawnV_clean (.list l) st d (by simpa only [SrcPWFV, SrcWFV] using hv) p hp
    · exact drawnPEs_clean es _ d hes p hp

/-- (5) the meaning of the token tree of a labelled document and the meaning of the document are related through the
    literal table: comment entries are string leaves without the reserved word, hence untouched -/
theorem relPEs (T : Tbl Str) : ∀ (es : SrcEntries) (st : LabelSt) (d : Nat) (acc acc' : Entries),
    SrcPWFEs d es = true → (∀ p ∈ C02.drawnEs st es, p ∈ T) → C02.REs T d acc acc' →
    C02.REs T d (denEs (labelEs st es).2 acc) (denPEs es acc')
  | [], st, d, acc, acc', _, _, hacc => by simpa only [labelEs, denEs, denPEs] using hacc
  | (k, .lit l) :: es, st, d, acc, acc', h, hT, hacc => by
    obtain ⟨h1, hes⟩ := pwf_cons h
    simp only [C02.drawnEs, List.mem_append] at hT
    rcases h1 with ⟨hp, _, hv, _, hl⟩ | ⟨hp, hk, hkey, hv⟩
    · cases hv
      rw [C02.labelEs_cons, denPEs_cons_ph hp]
      simp only [labelV]
      rw [denEs_cons_ph hp]
      refine relPEs T es _ d _ _ hes (fun p hp' => hT p (Or.inr hp')) (C02.REs_setKey _ ?_ acc acc' hacc)
      simp only [C02.RV]
      exact Or.inl ⟨hl, trivial⟩
    · obtain ⟨key, hkey⟩ := Option.isSome_iff_exists.mp hkey
      rw [C02.labelEs_cons, C02.denEs_cons hp hkey, denPEs_cons hp hkey]
      have hv' : SrcWFV d (.lit l) = true := by simpa only [SrcPWFV, SrcWFV] using hv
      have := C02.relV T (.lit l) st d hv' (fun p hp' => hT p (Or.inl hp'))
      simp only [denSrcV] at this
      exact relPEs T es _ d _ _ hes (fun p hp' => hT p (Or.inr hp'))
        (C02.REs_setKey key (by simpa only [denPV] using this) acc acc' hacc)
  | (k, .dict dd) :: es, st, d, acc, acc', h, hT, hacc => by
    obtain ⟨h1, hes⟩ := pwf_cons h
    simp only [C02.drawnEs, List.mem_append] at hT
    rcases h1 with ⟨_, _, hv, _⟩ | ⟨hp, hk, hkey, hv⟩
    · cases hv
    · obtain ⟨key, hkey⟩ := Option.isSome_iff_exists.mp hkey
      simp only [SrcPWFV] at hv
      rw [C02.labelEs_cons, C02.denEs_cons hp hkey, denPEs_cons hp hkey]
      have hsub : C02.RV T d (denV (labelV st (.dict dd)).2) (denPV (.dict dd)) := by
        simp only [labelV, denV, denPV, C02.RV]
        exact ⟨_, rfl, relPEs T dd st (d + 1) [] [] hv (fun p hp' => hT p (Or.inl (by simpa only [C02.drawnV] using hp')))
          (by simp only [C02.REs])⟩
      exact relPEs T es _ d _ _ hes (fun p hp' => hT p (Or.inr hp')) (C02.REs_setKey key hsub acc acc' hacc)
  | (k, .list l) :: es, st, d, acc, acc', h, hT, hacc => by
    obtain ⟨h1, hes⟩ := pwf_cons h
    simp only [C02.drawnEs, List.mem_append] at hT
    rcases h1 with ⟨_, _, hv, _⟩ | ⟨hp, hk, hkey, hv⟩
    · cases hv
    · obtain ⟨key, hkey⟩ := Option.isSome_iff_exists.mp hkey
      rw [C02.labelEs_cons, C02.denEs_cons hp hkey, denPEs_cons hp hkey]
      have hv' : SrcWFV d (.list l) = true := by simpa only [SrcPWFV, SrcWFV] using hv
      have := C02.relV T (.list l) st d hv' (fun p hp' => hT p (Or.inl hp'))
      simp only [denSrcV] at this
      exact relPEs T es _ d _ _ hes (fun p hp' => hT p (Or.inr hp'))
        (C02.REs_setKey key (by simpa only [denPV] using this) acc acc' hacc)

/-- literal re-insertion restores the meaning of a labelled document (`C02.insert_literals` with comment entries at
    any dict level) -/
theorem insert_literals_labelled {es : SrcEntries} {c : Counter} (hwf : SrcPWFEs 1 es = true)
    (hc : C13.ValidCounter Gen.counterLimit c) (hn : countQuotedEs' es ≤ Gen.counterLimit + 1) :
    insertLiterals (labelEs { counter := c } es).1.lits (denEs (labelEs { counter := c } es).2 []) =
      .ok (denPEs es []) := by
  obtain ⟨h1, h2, _⟩ := C02.labelEs_state es { counter := c }
  have hnd : ((C02.drawnEs { counter := c } es).map (·.1)).Nodup := by
    rw [h2]; exact C13.alloc_nodup hn hc
  have hle : ∀ p ∈ C02.drawnEs { counter := c } es, p.1 ≤ 999999 := by
    intro p hp
    have : p.1 ∈ alloc Gen.counterLimit (C02.countQuotedEs es) c := by
      rw [← h2]; exact List.mem_map.mpr ⟨p, hp, rfl⟩
    exact C13.alloc_le hc _ _ this
  have hlits : (labelEs { counter := c } es).1.lits = C02.drawnEs { counter := c } es := by
    rw [h1, C02.setAll_nodup _ _ (by simpa using hnd)]
    rfl
  rw [hlits]
  exact C02.insertLiterals_of_rel _ hnd hle (drawnPEs_clean es _ 1 hwf) _ _
    (relPEs _ es _ 1 [] [] hwf (fun _ hp => hp) (by simp only [C02.REs]))

/-! ## 6. the reader after its comment stages -/

/-- the SDict `parseRest` returns on a labelled document -/
def restSD (st : LexSt) (es : SrcEntries) : SD :=
  let sd := ({ data := denPEs es [], exprs := [], lineC := st.lineC, blockC := st.blockC, incl := st.incl } : SD).clean
  { sd with data := dropDocKeys sd.data }

/-- `parseRest_labelled` with the counter spelled out: it has advanced by the number of quoted strings -/
theorem parseRest_labelled_counter {es : SrcEntries} {gaps : List Str} {tail : Str} {st : LexSt}
    (h : SrcPWFEs 1 es = true) (hg : GapsOKS (srcToksPEs es) gaps = true) (ht : tail.all isWs = true)
    (hl : st.lits = []) (he : st.exprs = []) (hc : C13.ValidCounter Gen.counterLimit st.counter)
    (hn : countQuotedEs' es ≤ Gen.counterLimit + 1) :
    parseRest st (spreadS (srcToksPEs es) gaps tail) =
      .ok (restSD st es, C02.adv Gen.counterLimit (countQuotedEs' es) st.counter) := by
  have hlab : C02.labOf st = ({ counter := st.counter } : LabelSt) := by
    simp only [C02.labOf, hl]
  rw [parseRest_eq, parseBlockSt_labelled st es gaps tail h hg ht, hlab, insert_literals_labelled h hc hn]
  simp only [Except.map, finishSD, restSD, C02.withLab, he, (C02.labelEs_state es { counter := st.counter }).2.2]

/-- **the reader after its comment stages, on any admissible layout of a well-formed labelled document**, returns the
    document's meaning: comment entries `ph ↦ ph` at their dict levels, quoted strings restored, then `_clean` and the
    removal of the documentation keys; the comment and include tables are the ones the comment stages left -/
theorem parseRest_labelled {es : SrcEntries} {gaps : List Str} {tail : Str} {st : LexSt}
    (h : SrcPWFEs 1 es = true) (hg : GapsOKS (srcToksPEs es) gaps = true) (ht : tail.all isWs = true)
    (hl : st.lits = []) (he : st.exprs = []) (hc : C13.ValidCounter Gen.counterLimit st.counter)
    (hn : countQuotedEs' es ≤ Gen.counterLimit + 1) (hd : DocKeysAbsentP es) :
    ∃ c', parseRest st (spreadS (srcToksPEs es) gaps tail)
        = .ok (let sd := ({ data := denPEs es [], exprs := [], lineC := st.lineC, blockC := st.blockC,
                            incl := st.incl } : SD).clean
               { sd with data := dropDocKeys sd.data }, c') :=
  ⟨_, parseRest_labelled_counter h hg ht hl he hc hn⟩

/-! ### `_clean` only deletes entries; without the documentation keys in the text `dropDocKeys` is the identity -/

theorem foldl_inv {α β : Type} (P : β → Prop) (f : β → α → β) :
    ∀ (l : List α), (∀ b, P b → ∀ a ∈ l, P (f b a)) → ∀ b, P b → P (l.foldl f b)
  | [], _, b, hb => hb
  | a :: l, hf, b, hb =>
    foldl_inv P f l (fun b hb a ha => hf b hb a (List.mem_cons_of_mem _ ha)) _ (hf b hb a List.mem_cons_self)

theorem keys_delKey_sub {k x : Key} {es : Entries} (h : x ∈ keys (delKey k es)) : x ∈ keys es :=
  ((C07.delKey_sublist k es).map (·.1)).subset h

/-- `_clean_data` on one level only deletes keys -/
theorem cleanLevel_keys (s : SD) (lvl : Entries) : ∀ x ∈ keys (cleanLevel s lvl).2, x ∈ keys lvl := by
  intro x hx
  simp only [cleanLevel] at hx
  have step : ∀ {β : Type} (f : Entries × β → Key → Entries × β) (l : List Key) (init : Entries × β),
      x ∈ keys (l.foldl f init).1 → (∀ acc k, (f acc k).1 = acc.1 ∨ (f acc k).1 = delKey k acc.1) →
      x ∈ keys init.1 := by
    intro β f l init hx hf
    revert hx
    refine foldl_inv (fun acc => x ∈ keys acc.1 → x ∈ keys init.1) _ l ?_ init id
    intro acc hacc k _ hk
    apply hacc
    rcases hf acc k with e | e
    · rw [e] at hk; exact hk
    · rw [e] at hk; exact keys_delKey_sub hk
  have h3 := step _ _ _ hx (by
    intro acc k
    cases k with
    | int z => exact Or.inl rfl
    | str w =>
      simp only
      split
      · exact Or.inl rfl
      · split
        · exact Or.inl rfl
        · split
          · exact Or.inr rfl
          · exact Or.inl rfl)
  have h2 := step _ _ _ h3 (by
    intro acc k
    cases k with
    | int z => exact Or.inl rfl
    | str w =>
      simp only
      split
      · exact Or.inl rfl
      · split
        · exact Or.inl rfl
        · split
          · exact Or.inr rfl
          · exact Or.inl rfl)
  exact step _ _ _ h2 (by
    intro acc k
    cases k with
    | int z => exact Or.inl rfl
    | str w =>
      simp only
      split
      · exact Or.inl rfl
      · split
        · exact Or.inl rfl
        · split
          · exact Or.inr rfl
          · exact Or.inl rfl)

/-- `_clean` (all levels) only deletes keys of the level it is called on -/
theorem cleanRec_keys : ∀ (fuel : Nat) (s : SD) (lvl : Entries), ∀ x ∈ keys (cleanRec fuel s lvl).2, x ∈ keys lvl
  | 0, s, lvl, x, hx => hx
  | fuel + 1, s, lvl, x, hx => by
    simp only [cleanRec] at hx
    apply cleanLevel_keys s lvl
    revert hx
    refine foldl_inv (fun (acc : SD × Entries) => x ∈ keys acc.2 → x ∈ keys (cleanLevel s lvl).2) _ _ ?_ _ id
    intro acc hacc e he hx
    cases hv : e.2 with
    | dict sub =>
      simp only [hv] at hx
      rcases C02.Main.keys_setKey_sub hx with rfl | hx
      · exact List.mem_map_of_mem he
      · exact hacc hx
    | leaf a => simp only [hv] at hx; exact hacc hx
    | list xs => simp only [hv] at hx; exact hacc hx

theorem clean_keys (s : SD) : ∀ x ∈ keys s.clean.data, x ∈ keys s.data := by
  intro x hx
  exact cleanRec_keys _ s s.data x (by simpa only [SD.clean] using hx)

/-- every key of the meaning of a labelled document was there, is a comment placeholder word, or the typed form of
    a written key -/
theorem denP_keys (key : Key) : ∀ (es : SrcEntries) (acc : Entries), key ∈ keys (denPEs es acc) →
    key ∈ keys acc ∨ ∃ e ∈ es, (isPhTok e.1 = true ∧ key = .str e.1) ∨
      (isPhTok e.1 = false ∧ keyOfScalar (parseKey e.1) = some key)
  | [], acc, h => Or.inl (by simpa only [denPEs] using h)
  | (k, v) :: es, acc, h => by
    have lift : (∃ e ∈ es, (isPhTok e.1 = true ∧ key = .str e.1) ∨
        (isPhTok e.1 = false ∧ keyOfScalar (parseKey e.1) = some key)) →
        ∃ e ∈ (k, v) :: es, (isPhTok e.1 = true ∧ key = .str e.1) ∨
          (isPhTok e.1 = false ∧ keyOfScalar (parseKey e.1) = some key) :=
      fun ⟨e, he, hk⟩ => ⟨e, List.mem_cons_of_mem _ he, hk⟩
    cases hp : isPhTok k with
    | true =>
      rw [denPEs_cons_ph hp] at h
      rcases denP_keys key es _ h with h | h
      · rcases C02.Main.keys_setKey_sub h with rfl | h
        · exact Or.inr ⟨(k, v), List.mem_cons_self, Or.inl ⟨hp, rfl⟩⟩
        · exact Or.inl h
      · exact Or.inr (lift h)
    | false =>
      cases hko : keyOfScalar (parseKey k) with
      | none =>
        simp only [denPEs, hp, Bool.false_eq_true, if_false, hko] at h
        rcases denP_keys key es acc h with h | h
        · exact Or.inl h
        · exact Or.inr (lift h)
      | some key' =>
        rw [denPEs_cons hp hko] at h
        rcases denP_keys key es _ h with h | h
        · rcases C02.Main.keys_setKey_sub h with rfl | h
          · exact Or.inr ⟨(k, v), List.mem_cons_self, Or.inr ⟨hp, hko⟩⟩
          · exact Or.inl h
        · exact Or.inr (lift h)

theorem pwf_keys {d : Nat} : ∀ {es : SrcEntries}, SrcPWFEs d es = true → ∀ e ∈ es, isPhTok e.1 = false →
    isSrcWord e.1 = true
  | [], _, e, he, _ => by cases he
  | (k, v) :: es, h, e, he, hp => by
    obtain ⟨h1, hes⟩ := pwf_cons h
    rcases List.mem_cons.mp he with rfl | he
    · rcases h1 with ⟨hp', _⟩ | ⟨_, hk, _⟩
      · rw [hp'] at hp; cases hp
      · exact hk
    · exact pwf_keys hes e he hp

/-- a string key that is not written at the top level is not in the meaning -/
theorem denP_lookup_none {d : Nat} {es : SrcEntries} (h : SrcPWFEs d es = true) {s : Str} (hs : ∀ e ∈ es, e.1 ≠ s) :
    lookup (.str s) (denPEs es []) = none := by
  rw [lookup_eq_none_iff]
  intro hm
  rcases denP_keys _ es [] hm with hm | ⟨e, he, ⟨_, hk⟩ | ⟨hp, hk⟩⟩
  · simp [keys] at hm
  · cases hk; exact hs e he rfl
  · rcases C02.Main.typedKey_cases (pwf_keys h e he hp) hk with ⟨z, hz⟩ | hz
    · cases hz
    · cases hz; exact hs e he rfl

/-- without the two documentation keys in the text, their removal after `_clean` is the identity -/
theorem dropDocKeys_clean {d : Nat} {es : SrcEntries} (h : SrcPWFEs d es = true) (hd : DocKeysAbsentP es) (s : SD)
    (hs : s.data = denPEs es []) : dropDocKeys s.clean.data = s.clean.data := by
  apply C02.dropDocKeys_id
  · rw [lookup_eq_none_iff]
    intro hm
    have := clean_keys s _ hm
    rw [hs] at this
    exact lookup_eq_none_iff.mp (denP_lookup_none h fun e he => (hd e he).1) this
  · rw [lookup_eq_none_iff]
    intro hm
    have := clean_keys s _ hm
    rw [hs] at this
    exact lookup_eq_none_iff.mp (denP_lookup_none h fun e he => (hd e he).2) this

/-- **`parseRest_labelled` without `dropDocKeys`**: when no top-level key of the labelled document is `_variables` or
    `_includes`, the reader returns the cleaned meaning itself -/
theorem parseRest_labelled_clean {es : SrcEntries} {gaps : List Str} {tail : Str} {st : LexSt}
    (h : SrcPWFEs 1 es = true) (hg : GapsOKS (srcToksPEs es) gaps = true) (ht : tail.all isWs = true)
    (hl : st.lits = []) (he : st.exprs = []) (hc : C13.ValidCounter Gen.counterLimit st.counter)
    (hn : countQuotedEs' es ≤ Gen.counterLimit + 1) (hd : DocKeysAbsentP es) :
    parseRest st (spreadS (srcToksPEs es) gaps tail) =
      .ok (({ data := denPEs es [], exprs := [], lineC := st.lineC, blockC := st.blockC, incl := st.incl } : SD).clean,
        C02.adv Gen.counterLimit (countQuotedEs' es) st.counter) := by
  rw [parseRest_labelled_counter h hg ht hl he hc hn, restSD]
  show Except.ok (_, _) = _
  rw [dropDocKeys_clean h hd
    ({ data := denPEs es [], exprs := [], lineC := st.lineC, blockC := st.blockC, incl := st.incl } : SD) rfl]

/-! ## 7. corollaries: the whole reader, given what the comment stages produce -/

/-- the reader on a commented text, given that its comment stages leave an admissible layout of a well-formed
    labelled document (one line through `parseNative_stages`) -/
theorem read_commented_of_stages {dir : Str} {c : Counter} {text : Str} {st : LexSt} {es : SrcEntries}
    {gaps' : List Str} {tail' : Str}
    (hst : commentStages true dir c text = (st, spreadS (srcToksPEs es) gaps' tail'))
    (hl : st.lits = []) (he : st.exprs = []) (hi : st.incl = [])
    (h : SrcPWFEs 1 es = true) (hg : GapsOKS (srcToksPEs es) gaps' = true) (ht : tail'.all isWs = true)
    (hc : C13.ValidCounter Gen.counterLimit st.counter) (hn : countQuotedEs' es ≤ Gen.counterLimit + 1)
    (hd : DocKeysAbsentP es) :
    ∃ c', parseNative true dir c text =
      .ok (let sd := ({ data := denPEs es [], lineC := st.lineC, blockC := st.blockC } : SD).clean
           { sd with data := dropDocKeys sd.data }, c') := by
  rw [parseNative_stages, hst]
  obtain ⟨c', hc'⟩ := parseRest_labelled h hg ht hl he hc hn hd
  exact ⟨c', by rw [hc', hi]⟩

/-- the same with the counter spelled out -/
theorem read_commented_of_stages_counter {dir : Str} {c : Counter} {text : Str} {st : LexSt} {es : SrcEntries}
    {gaps' : List Str} {tail' : Str}
    (hst : commentStages true dir c text = (st, spreadS (srcToksPEs es) gaps' tail'))
    (hl : st.lits = []) (he : st.exprs = []) (hi : st.incl = [])
    (h : SrcPWFEs 1 es = true) (hg : GapsOKS (srcToksPEs es) gaps' = true) (ht : tail'.all isWs = true)
    (hc : C13.ValidCounter Gen.counterLimit st.counter) (hn : countQuotedEs' es ≤ Gen.counterLimit + 1) :
    parseNative true dir c text =
      .ok (let sd := ({ data := denPEs es [], lineC := st.lineC, blockC := st.blockC } : SD).clean
           { sd with data := dropDocKeys sd.data }, C02.adv Gen.counterLimit (countQuotedEs' es) st.counter) := by
  rw [parseNative_stages, hst, parseRest_labelled_counter h hg ht hl he hc hn, restSD, hi]

/-- the SDict of `parseRest_labelled`, for the lexer state and the labelled document `labelCItems` describes, is
    `denC c items` (before the removal of the documentation keys) -/
theorem denC_eq (c : Counter) (items : List CItem) :
    (({ data := denPEs (labelCItems { counter := c } items).2 [], exprs := [],
        lineC := (labelCItems { counter := c } items).1.lineC,
        blockC := (labelCItems { counter := c } items).1.blockC, incl := [] } : SD).clean) = denC c items := rfl

/-- … and after it -/
theorem restSD_denC (c : Counter) (items : List CItem) (st : LexSt)
    (h1 : st.lineC = (labelCItems { counter := c } items).1.lineC)
    (h2 : st.blockC = (labelCItems { counter := c } items).1.blockC) (h3 : st.incl = []) :
    restSD st (labelCItems { counter := c } items).2 =
      { denC c items with data := dropDocKeys (denC c items).data } := by
  rw [restSD, h1, h2, h3]
  rfl

/-- the reader on a commented text is `denC`, given that the comment stages produce what `labelCItems` describes:
    the labelled document laid out admissibly, the two comment tables, no include -/
theorem read_commented_denC {dir : Str} {c : Counter} {text : Str} {st : LexSt} {items : List CItem}
    {gaps' : List Str} {tail' : Str}
    (hst : commentStages true dir c text =
      (st, spreadS (srcToksPEs (labelCItems { counter := c } items).2) gaps' tail'))
    (hl : st.lits = []) (he : st.exprs = []) (hi : st.incl = [])
    (h1 : st.lineC = (labelCItems { counter := c } items).1.lineC)
    (h2 : st.blockC = (labelCItems { counter := c } items).1.blockC)
    (h : SrcPWFEs 1 (labelCItems { counter := c } items).2 = true)
    (hg : GapsOKS (srcToksPEs (labelCItems { counter := c } items).2) gaps' = true) (ht : tail'.all isWs = true)
    (hc : C13.ValidCounter Gen.counterLimit st.counter)
    (hn : countQuotedEs' (labelCItems { counter := c } items).2 ≤ Gen.counterLimit + 1) :
    parseNative true dir c text =
      .ok ({ denC c items with data := dropDocKeys (denC c items).data },
        C02.adv Gen.counterLimit (countQuotedEs' (labelCItems { counter := c } items).2) st.counter) := by
  rw [parseNative_stages, hst, parseRest_labelled_counter h hg ht hl he hc hn, restSD_denC c items st h1 h2 hi]


/-! ### the side conditions of `parseRest_labelled`, from the commented document -/

mutual
  theorem countQuoted_labelV : ∀ (v : CSrc) (st : CLabelSt),
      C02.countQuotedV (labelCV st v).2 = C02.countQuotedV (plainV v)
    | .lit l, st => by simp only [labelCV, plainV]
    | .dict items, st => by
      simp only [labelCV, plainV, C02.countQuotedV]
      exact countQuoted_labelI items st
    | .list xs, st => by simp only [labelCV, plainV]
  /-- comment entries hold a bare word: the labelled document has the quoted strings of the comment-free one -/
  theorem countQuoted_labelI : ∀ (items : List CItem) (st : CLabelSt),
      countQuotedEs' (labelCItems st items).2 = C02.countQuotedEs (plainItems items)
    | [], st => by simp only [labelCItems, plainItems]
    | .entry k v :: r, st => by
      simp only [labelCItems, plainItems, C02.countQuotedEs, countQuoted_labelV v st]
      exact congrArg _ (countQuoted_labelI r _)
    | .lineC x :: r, st => by
      simp only [labelCItems, plainItems, C02.countQuotedEs, C02.countQuotedV, Nat.zero_add]
      exact countQuoted_labelI r _
    | .blockC x :: r, st => by
      simp only [labelCItems, plainItems, C02.countQuotedEs, C02.countQuotedV, Nat.zero_add]
      exact countQuoted_labelI r _
end

theorem docKey_heads : "_variables".toList = '_' :: "variables".toList ∧ "_includes".toList = '_' :: "includes".toList :=
  ⟨by decide, by decide⟩

/-- placeholder words are none of the documentation keys -/
theorem docKeys_label : ∀ (items : List CItem) (st : CLabelSt), C02.DocKeysAbsent (plainItems items) →
    DocKeysAbsentP (labelCItems st items).2
  | [], st, _ => by simp only [labelCItems]; intro e he; cases he
  | .entry k v :: r, st, h => by
    simp only [labelCItems, plainItems] at h ⊢
    intro e he
    rcases List.mem_cons.mp he with rfl | he
    · exact h (k, plainV v) List.mem_cons_self
    · exact docKeys_label r _ (fun e he => h e (List.mem_cons_of_mem _ he)) e he
  | .lineC x :: r, st, h => by
    simp only [labelCItems, plainItems] at h ⊢
    intro e he
    rcases List.mem_cons.mp he with rfl | he
    · have e1 : ∀ i, linePh i = 'L' :: ("INECOMMENT".toList ++ padSix i) := fun _ => rfl
      simp only [e1]
      exact ⟨fun h => absurd (List.cons.inj (h.trans docKey_heads.1)).1 (by decide),
        fun h => absurd (List.cons.inj (h.trans docKey_heads.2)).1 (by decide)⟩
    · exact docKeys_label r _ h e he
  | .blockC x :: r, st, h => by
    simp only [labelCItems, plainItems] at h ⊢
    intro e he
    rcases List.mem_cons.mp he with rfl | he
    · have e1 : ∀ i, blockPh i = 'B' :: ("LOCKCOMMENT".toList ++ padSix i) := fun _ => rfl
      simp only [e1]
      exact ⟨fun h => absurd (List.cons.inj (h.trans docKey_heads.1)).1 (by decide),
        fun h => absurd (List.cons.inj (h.trans docKey_heads.2)).1 (by decide)⟩
    · exact docKeys_label r _ h e he

mutual
  theorem counter_labelV : ∀ (v : CSrc) (st : CLabelSt), C13.ValidCounter Gen.counterLimit st.counter →
      C13.ValidCounter Gen.counterLimit (labelCV st v).1.counter
    | .lit l, st, h => by simpa only [labelCV] using h
    | .dict items, st, h => by simpa only [labelCV] using counter_labelI items st h
    | .list xs, st, h => by simpa only [labelCV] using h
  /-- the counter the comment stages leave is valid -/
  theorem counter_labelI : ∀ (items : List CItem) (st : CLabelSt), C13.ValidCounter Gen.counterLimit st.counter →
      C13.ValidCounter Gen.counterLimit (labelCItems st items).1.counter
    | [], st, h => by simpa only [labelCItems] using h
    | .entry k v :: r, st, h => by
      simp only [labelCItems]
      exact counter_labelI r _ (counter_labelV v st h)
    | .lineC x :: r, st, h => by
      simp only [labelCItems]
      exact counter_labelI r _ (C13.next_valid h)
    | .blockC x :: r, st, h => by
      simp only [labelCItems]
      exact counter_labelI r _ h
end

/-- **ready for composition**: the reader on a commented text is exactly `denC c items`, given that the comment stages
    produce what `labelCItems` describes; side conditions stated on the commented document itself (its comment-free
    part `plainItems items`), `dropDocKeys` gone -/
theorem read_commented_denC' {dir : Str} {c : Counter} {text : Str} {st : LexSt} {items : List CItem}
    {gaps' : List Str} {tail' : Str}
    (hst : commentStages true dir c text =
      (st, spreadS (srcToksPEs (labelCItems { counter := c } items).2) gaps' tail'))
    (hl : st.lits = []) (he : st.exprs = []) (hi : st.incl = [])
    (h0 : st.counter = (labelCItems { counter := c } items).1.counter)
    (h1 : st.lineC = (labelCItems { counter := c } items).1.lineC)
    (h2 : st.blockC = (labelCItems { counter := c } items).1.blockC)
    (h : SrcPWFEs 1 (labelCItems { counter := c } items).2 = true)
    (hg : GapsOKS (srcToksPEs (labelCItems { counter := c } items).2) gaps' = true) (ht : tail'.all isWs = true)
    (hc : C13.ValidCounter Gen.counterLimit c)
    (hn : C02.countQuotedEs (plainItems items) ≤ Gen.counterLimit + 1)
    (hd : C02.DocKeysAbsent (plainItems items)) :
    parseNative true dir c text =
      .ok (denC c items, C02.adv Gen.counterLimit (C02.countQuotedEs (plainItems items)) st.counter) := by
  have hc' : C13.ValidCounter Gen.counterLimit st.counter := by
    rw [h0]; exact counter_labelI items { counter := c } hc
  have hq := countQuoted_labelI items { counter := c }
  rw [read_commented_denC hst hl he hi h1 h2 h hg ht hc' (by rw [hq]; exact hn), hq]
  have hdk : dropDocKeys (denC c items).data = (denC c items).data :=
    dropDocKeys_clean h (docKeys_label items _ hd)
      ({ data := denPEs (labelCItems { counter := c } items).2 [],
         lineC := (labelCItems { counter := c } items).1.lineC,
         blockC := (labelCItems { counter := c } items).1.blockC } : SD) rfl
  rw [hdk]

/-! ## 8. non-vacuity -/

/-- `// first⏎ a 'x y'; sub { /* inner */ p 1; } l ( 1 "two" );` -/
def exItems : List CItem :=
  [ .lineC " first".toList,
    .entry ['a'] (.lit (.quoted '\'' "x y".toList)),
    .entry "sub".toList (.dict [.blockC " inner ".toList, .entry ['p'] (.lit (.bare ['1']))]),
    .entry ['l'] (.list [.lit (.bare ['1']), .lit (.quoted '"' "two".toList)]) ]

/-- the labelled document: a line-comment entry at top level, a block-comment entry inside `sub` -/
def exP : SrcEntries :=
  [ ("LINECOMMENT000000".toList, .lit (.bare "LINECOMMENT000000".toList)),
    (['a'], .lit (.quoted '\'' "x y".toList)),
    ("sub".toList, .dict [("BLOCKCOMMENT000000".toList, .lit (.bare "BLOCKCOMMENT000000".toList)),
                          (['p'], .lit (.bare ['1']))]),
    (['l'], .list [.lit (.bare ['1']), .lit (.quoted '"' "two".toList)]) ]

/-- the lexer state the comment stages leave (counter `none` at the start: the line comment drew id 0) -/
def exSt : LexSt := { counter := some 0, lineC := [(0, "// first".toList)], blockC := [(0, "/* inner */".toList)] }

theorem exItems_wf : CSrcWFItems 1 exItems = true := by decide +kernel
theorem exP_wf : SrcPWFEs 1 exP = true := by decide +kernel

theorem exItems_label : (labelCItems { counter := none } exItems).2 = exP ∧
    (labelCItems { counter := none } exItems).1.counter = exSt.counter ∧
    (labelCItems { counter := none } exItems).1.lineC = exSt.lineC ∧
    (labelCItems { counter := none } exItems).1.blockC = exSt.blockC := by
  have e1 : linePh 0 = "LINECOMMENT000000".toList := by rw [linePh, C02.padSix_zero]; decide
  have e2 : blockPh 0 = "BLOCKCOMMENT000000".toList := by rw [blockPh, C02.padSix_zero]; decide
  simp [exItems, exP, exSt, labelCItems, labelCV, Counter.next, Tbl.set, e1, e2]

theorem exP_toks : srcToksPEs exP =
    [.word "LINECOMMENT000000".toList, .word ['a'], .quoted '\'' "x y".toList, .word [';'], .word "sub".toList,
     .word ['{'], .word "BLOCKCOMMENT000000".toList, .word ['p'], .word ['1'], .word [';'], .word ['}'], .word ['l'],
     .word ['('], .word ['1'], .quoted '"' "two".toList, .word [')'], .word [';']] := by
  have h1 : isPhTok "LINECOMMENT000000".toList = true := by decide
  have h2 : isPhTok "BLOCKCOMMENT000000".toList = true := by decide
  have h3 : isPhTok ['a'] = false := by decide
  have h4 : isPhTok ['p'] = false := by decide
  simp only [exP, srcToksPEs, srcToksXs, srcToksV, Lit.tok, h1, h2, h3, h4, if_true, Bool.false_eq_true, if_false,
    List.cons_append, List.nil_append, List.append_nil]

def exPGaps : List Str :=
  [[], ['\n'], [' '], [], ['\n'], ['\n'], ['\n', ' ', ' ', ' '], [' ', '\n', ' ', ' '], [' '], [], ['\n'], ['\n'],
   [' '], [], [' '], [], []]

theorem exPGaps_ok : GapsOKS (srcToksPEs exP) exPGaps = true := by rw [exP_toks]; decide

/-- what the comment stages leave of
    `// first⏎a 'x y';⏎sub⏎{⏎  /* inner */⏎  p 1;⏎}⏎l (1 "two");⏎` (the block-comment placeholder blank-padded) -/
def exPText : Str :=
  "LINECOMMENT000000\na 'x y';\nsub\n{\n   BLOCKCOMMENT000000 \n  p 1;\n}\nl (1 \"two\");\n".toList

theorem exP_text : spreadS (srcToksPEs exP) exPGaps ['\n'] = exPText := by rw [exP_toks]; decide

theorem exP_count : countQuotedEs' exP = 2 := by decide
theorem exP_docKeys : DocKeysAbsentP exP := by decide

/-- the instance of the theorem -/
theorem ex_parseRest : parseRest exSt exPText = .ok (restSD exSt exP, some 2) := by
  have := parseRest_labelled_counter (st := exSt) (tail := ['\n']) exP_wf exPGaps_ok (by decide) rfl rfl
    (Or.inr ⟨0, rfl, by decide⟩) (by rw [exP_count]; decide)
  rw [exP_text, exP_count] at this
  exact this

/-- what the document means -/
def exSD : SD :=
  { data := [ (.str "LINECOMMENT000000".toList, .leaf (.str "LINECOMMENT000000".toList)),
              (.str ['a'], .leaf (.str "x y".toList)),
              (.str "sub".toList, .dict [ (.str "BLOCKCOMMENT000000".toList, .leaf (.str "BLOCKCOMMENT000000".toList)),
                                          (.str ['p'], .leaf (.int 1)) ]),
              (.str ['l'], .list [.leaf (.int 1), .leaf (.str "two".toList)]) ],
    lineC := [(0, "// first".toList)], blockC := [(0, "/* inner */".toList)] }

set_option synthInstance.maxSize 1000 in
/-- the reader's stages evaluated on the text (kernel reduction, well-founded scanner included), field by field -/
theorem ex_parseRest_fields :
    (parseRest exSt exPText).toOption.map (fun r => (r.1.data, r.1.exprs, r.1.lineC, r.1.blockC, r.1.incl, r.2)) =
      some (exSD.data, [], exSD.lineC, exSD.blockC, [], some 2) := by decide +kernel

theorem ex_parseRest_eval : parseRest exSt exPText = .ok (exSD, some 2) := by
  have h := ex_parseRest_fields
  cases hr : parseRest exSt exPText with
  | error e => rw [hr] at h; simp [Except.toOption] at h
  | ok r =>
    rw [hr] at h
    obtain ⟨⟨d, x, l, b, i⟩, c⟩ := r
    simp only [Except.toOption, Option.map_some, Option.some.injEq, Prod.mk.injEq] at h
    obtain ⟨rfl, rfl, rfl, rfl, rfl, rfl⟩ := h
    rfl

/-- hence the meaning `restSD` assigns to the labelled document is the expected one: both comment entries are kept at
    their levels, both table entries survive `_clean` -/
theorem ex_restSD : restSD exSt exP = exSD := by
  have := ex_parseRest.symm.trans ex_parseRest_eval
  simp only [Except.ok.injEq, Prod.mk.injEq] at this
  exact this.1

/-- … and it is what the commented document `exItems` means -/
theorem ex_denC : denC none exItems = exSD := by
  have h := restSD_denC none exItems exSt exItems_label.2.2.1.symm exItems_label.2.2.2.symm rfl
  have hdk : dropDocKeys (denC none exItems).data = (denC none exItems).data :=
    dropDocKeys_clean (es := (labelCItems { counter := none } exItems).2)
      (by rw [exItems_label.1]; exact exP_wf) (by rw [exItems_label.1]; exact exP_docKeys)
      ({ data := denPEs (labelCItems { counter := none } exItems).2 [],
         lineC := (labelCItems { counter := none } exItems).1.lineC,
         blockC := (labelCItems { counter := none } exItems).1.blockC } : SD) rfl
  rw [exItems_label.1, ex_restSD, hdk] at h
  exact h.symm

end DictIO.C12
