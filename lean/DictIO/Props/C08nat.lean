/-
  C08 -- history independence for documents WITH comments: naturality of the comment stages in the placeholder ids.

  The reader gives every line comment an id drawn from the process-global counter (`Counter.next`, ids `0 … 999999`, wrapping),
  puts an entry `LINECOMMENTnnnnnn ↦ LINECOMMENTnnnnnn` into the data where the comment stands and the text into the table
  `lineC` under that id.  Block comments are numbered `0, 1, 2, …` per text (`lexBlockCommentsFuel`, `labelCItems`): their ids
  do not depend on the counter.  So two reads of the same text from two counter values differ exactly by a renaming of the
  line-comment ids; this file proves that, through `_clean` (which deletes comment entries whose text repeats) and through
  the whole reader (`C12_read_commented`).

    1  `phIdOf`, `renWord f g`, `renKey`, `renScalar`, `renV` / `renEs` / `renXs`, `renTbl`, `renSD f g`
           the renaming: a word `LINECOMMENT%06d` (id below 10^6) gets its id mapped by `f`, `BLOCKCOMMENT%06d` by `g`, every
           other string is left alone (`renWord_spec`: complete, exclusive case analysis; `renWord_noComment`); on values:
           keys and string leaves, also inside lists; on an `SDict`: data, `lineC` re-keyed by `f`, `blockC` by `g`
       `RenOK f`   injective, and six-digit ids stay six-digit
    2a `clean_ren`            `(renSD f g s).clean = renSD f g s.clean` for `RenOK f`, `RenOK g`, provided every key `_clean`
                              looks at is an exact placeholder word or contains no placeholder (`PhWFEs s.data`)
       `clean_ren_needs_wf`   … which is needed: refuted on a witness without it
    2b `ren_denSrcV/Es/Xs`    the comment-free part of a well-formed document is untouched by any renaming
    2c `label_natI`           labelling from two counters related by `f` (`CRel f c₁ c₂`: `f` maps the `j`-th id drawn from
                              `c₁` to the `j`-th id drawn from `c₂`, all `j`): states and meanings related by the renaming
       `phWF_labelI`          the meaning of a commented document satisfies `PhWFEs`
    2d `shift c₁ c₂`, `shift_ok`, `shift_rel`   the rotation of `0 … 999999` by `start c₂ - start c₁`: a bijection, so the
                              collision pattern across the wrap-around is the same in both reads and NO bound on the number of
                              line comments is needed
       `denC_natural`         `denC c₂ items = renSD (shift c₁ c₂) id (denC c₁ items)`, with `shift` injective and
                              `(alloc limit k c₁).map (shift c₁ c₂) = alloc limit k c₂` for every `k`
       `drawn_ids`            with at most `limit + 1` line comments the table built is keyed by `alloc limit n c`
    3  `C08_commented_read_natural`   both reads `.ok`, results related by `renSD (shift c₁ c₂) id`
       `counterAfter_rel`     … and so are the counters they leave: sequences of reads stay related
       `C08_commented_read_stripped`  stripped data, line-comment texts in table order, block-comment table: EQUAL
    4  `canonSD`, `canonSD_ren`, `C08_denC_canon`, `C08_commented_canon`
           canonical form (ids ↦ rank of first appearance per kind, in the traversal "entries in order, key before value",
           then the table keys; tables re-keyed): invariant under every renaming injective on the ids occurring;
           the canonical forms of the two reads are EQUAL (what the harness compares on the real code)
    5  `exDoc_reads` … `exDoc_canon_eval`   the example of `C12stages` from `none` and from `some 999998` (ids 999999, 0, 1)
    6  `exDoc_block_ids_local`, `clean_ren_needs_wf`   negatives on witnesses

  Added hypothesis (beyond those of `C12_read_commented` for both counters): `nBlockI items ≤ 1000000`.  Block comments are
  numbered locally; from the 1 000 001-st on the reader's own placeholder has seven digits (`BLOCKCOMMENT1000000`), which
  `_clean`'s `\d{6}` reads as id 100000: outside the placeholder format this file's renaming speaks about (`KeyOK`).  The
  statement is probably still true there (both reads agree on block comments), but it is not proved.  The task's own bound
  "at most limit + 1 comments" implies it; line comments need no bound at all.
  Scope: documents of `CSrc` (comments at statement boundaries, no include directives, no `$`), as in `C12_read_commented`.
-/
import DictIO.Props.C12off
import DictIO.Props.C08

namespace DictIO.C08
open DictIO

set_option linter.unusedSimpArgs false
set_option linter.unusedVariables false
set_option linter.unnecessarySimpa false
set_option linter.unusedSectionVars false

/-! ## 1. renaming of placeholder ids -/

/-- `s` is exactly the placeholder word `kw ++ "%06d" % n` with `n` below one million: the id `n` -/
def phIdOf (kw s : Str) : Option Nat :=
  let n := digitsVal (s.drop kw.length)
  if n < 1000000 ∧ s = kw ++ padSix n then some n else none

/-- rename the id of a placeholder word: line-comment ids by `f`, block-comment ids by `g`; every other string stays -/
def renWord (f g : Nat → Nat) (s : Str) : Str :=
  match phIdOf kwLine s with
  | some i => linePh (f i)
  | none => match phIdOf kwBlock s with
    | some i => blockPh (g i)
    | none => s

def renKey (f g : Nat → Nat) : Key → Key
  | .str s => .str (renWord f g s)
  | .int z => .int z

def renScalar (f g : Nat → Nat) : Scalar → Scalar
  | .str s => .str (renWord f g s)
  | x => x

mutual
  def renV (f g : Nat → Nat) : Val → Val
    | .leaf x => .leaf (renScalar f g x)
    | .dict es => .dict (renEs f g es)
    | .list xs => .list (renXs f g xs)
  def renEs (f g : Nat → Nat) : Entries → Entries
    | [] => []
    | (k, v) :: es => (renKey f g k, renV f g v) :: renEs f g es
  def renXs (f g : Nat → Nat) : List Val → List Val
    | [] => []
    | v :: xs => renV f g v :: renXs f g xs
end

/-- re-key a side table -/
def renTbl {α} (f : Nat → Nat) (t : Tbl α) : Tbl α := t.map fun e => (f e.1, e.2)

/-- the renaming on an `SDict`: data renamed, line-comment table re-keyed by `f`, block-comment table by `g` -/
def renSD (f g : Nat → Nat) (s : SD) : SD :=
  { s with data := renEs f g s.data, lineC := renTbl f s.lineC, blockC := renTbl g s.blockC }


/-! ### the recognisers on placeholder words -/

theorem phIdOf_ph (kw : Str) {n : Nat} (h : n < 1000000) : phIdOf kw (kw ++ padSix n) = some n := by
  simp only [phIdOf, List.drop_left, C02.digitsVal_padSix]
  simp [h]

theorem phIdOf_some {kw s : Str} {n : Nat} (h : phIdOf kw s = some n) : n < 1000000 ∧ s = kw ++ padSix n := by
  simp only [phIdOf] at h
  split at h
  · rename_i hc
    cases h
    exact hc
  · cases h

theorem digitVal_ascii : ∀ c ∈ C02.asciiDigits, (digitVal c).isSome = true := by decide

theorem digitRun_go_digits : ∀ (ds r : Str) (acc : Nat), (∀ c ∈ ds, (digitVal c).isSome = true) →
    digitRun.go ds.length (ds ++ r) acc = some (ds.foldl (fun a c => a * 10 + (digitVal c).getD 0) acc)
  | [], r, acc, _ => by simp [digitRun.go]
  | c :: ds, r, acc, h => by
    obtain ⟨d, hd⟩ := Option.isSome_iff_exists.mp (h c (by simp))
    simp only [List.length_cons, List.cons_append, digitRun.go, hd, List.foldl_cons, Option.getD_some]
    exact digitRun_go_digits ds r _ (fun c hc => h c (by simp [hc]))

theorem padSix_len {n : Nat} (h : n < 1000000) : (padSix n).length = 6 := C02.padSix_length (by omega)

theorem digitRun_padSix {n : Nat} (h : n < 1000000) (r : Str) : digitRun 6 (padSix n ++ r) = some n := by
  have := digitRun_go_digits (padSix n) r 0 (fun c hc => digitVal_ascii c (C02.padSix_ascii n c hc))
  rw [padSix_len h] at this
  have e := C02.digitsVal_padSix n
  simp only [digitsVal] at e
  rw [e] at this
  exact this

theorem firstSix_skip : ∀ (p s : Str), (∀ c ∈ p, digitVal c = none) → firstSixDigits (p ++ s) = firstSixDigits s
  | [], _, _ => rfl
  | c :: p, s, h => by
    have hc : digitVal c = none := h c (by simp)
    simp only [List.cons_append, firstSixDigits, digitRun, digitRun.go, hc]
    exact firstSix_skip p s (fun c hc => h c (by simp [hc]))

theorem firstSix_padSix {n : Nat} (h : n < 1000000) : firstSixDigits (padSix n) = some n := by
  have hr := digitRun_padSix h []
  rw [List.append_nil] at hr
  cases hp : padSix n with
  | nil => have := padSix_len h; rw [hp] at this; cases this
  | cons c cs => rw [hp] at hr; simp only [firstSixDigits, hr]

theorem kwLine_nodigit : ∀ c ∈ kwLine, digitVal c = none := by decide
theorem kwBlock_nodigit : ∀ c ∈ kwBlock, digitVal c = none := by decide

theorem firstSix_linePh {n : Nat} (h : n < 1000000) : firstSixDigits (linePh n) = some n := by
  rw [linePh, firstSix_skip _ _ kwLine_nodigit, firstSix_padSix h]

theorem firstSix_blockPh {n : Nat} (h : n < 1000000) : firstSixDigits (blockPh n) = some n := by
  rw [blockPh, firstSix_skip _ _ kwBlock_nodigit, firstSix_padSix h]

theorem containsPh_self {kw : Str} (hkw : kw ≠ []) {t : Str} (ht : (digitRun 6 t).isSome = true) :
    containsPh kw (kw ++ t) = true := by
  cases kw with
  | nil => exact absurd rfl hkw
  | cons c cs =>
    have hp : (c :: cs).isPrefixOf (c :: cs ++ t) = true := List.isPrefixOf_iff_prefix.mpr (List.prefix_append _ _)
    have hd : (c :: cs ++ t).drop (c :: cs).length = t := List.drop_left
    simp only [containsPh, List.cons_append, tails, List.any_cons, Bool.or_eq_true, Bool.and_eq_true]
    left
    exact ⟨by simpa using hp, by rw [← List.cons_append, hd]; exact ht⟩

theorem containsLine_linePh {n : Nat} (h : n < 1000000) : containsPh kwLine (linePh n) = true :=
  containsPh_self (by decide) (by rw [← List.append_nil (padSix n), digitRun_padSix h]; rfl)

theorem containsBlock_blockPh {n : Nat} (h : n < 1000000) : containsPh kwBlock (blockPh n) = true :=
  containsPh_self (by decide) (by rw [← List.append_nil (padSix n), digitRun_padSix h]; rfl)

theorem padSix_not {a : Char} (ha : ¬ ('0' ≤ a ∧ a ≤ '9')) (n : Nat) : a ∉ padSix n :=
  fun h => ha (C02.padSix_digits n a h)

theorem containsPh_notin {kw s : Str} (a : Char) (hsub : isInfix [a] kw = true) (h : a ∉ s) : containsPh kw s = false :=
  C02.Main.containsPh_false hsub (C02.isInfix_head_notin a [] s h)

theorem containsBlock_linePh (n : Nat) : containsPh kwBlock (linePh n) = false :=
  containsPh_notin 'B' (by decide) (by
    simp only [linePh, List.mem_append, not_or]; exact ⟨by decide, padSix_not (by decide) n⟩)

theorem containsIncl_linePh (n : Nat) : containsPh kwIncl (linePh n) = false :=
  containsPh_notin 'U' (by decide) (by
    simp only [linePh, List.mem_append, not_or]; exact ⟨by decide, padSix_not (by decide) n⟩)

theorem containsIncl_blockPh (n : Nat) : containsPh kwIncl (blockPh n) = false :=
  containsPh_notin 'U' (by decide) (by
    simp only [blockPh, List.mem_append, not_or]; exact ⟨by decide, padSix_not (by decide) n⟩)

theorem containsLine_blockPh (n : Nat) : containsPh kwLine (blockPh n) = false :=
  containsPh_notin 'I' (by decide) (by
    simp only [blockPh, List.mem_append, not_or]; exact ⟨by decide, padSix_not (by decide) n⟩)

theorem linePh_ne_blockPh (i j : Nat) : linePh i ≠ blockPh j := by
  intro h
  have e1 : linePh i = 'L' :: ("INECOMMENT".toList ++ padSix i) := rfl
  have e2 : blockPh j = 'B' :: ("LOCKCOMMENT".toList ++ padSix j) := rfl
  rw [e1, e2] at h
  exact absurd (List.cons.inj h).1 (by decide)

theorem linePh_inj {i j : Nat} (h : linePh i = linePh j) : i = j := C02.padSix_inj (List.append_cancel_left h)
theorem blockPh_inj {i j : Nat} (h : blockPh i = blockPh j) : i = j := C02.padSix_inj (List.append_cancel_left h)

theorem phIdOf_line_linePh {n : Nat} (h : n < 1000000) : phIdOf kwLine (linePh n) = some n := phIdOf_ph kwLine h
theorem phIdOf_block_blockPh {n : Nat} (h : n < 1000000) : phIdOf kwBlock (blockPh n) = some n := phIdOf_ph kwBlock h

theorem phIdOf_line_blockPh (n : Nat) : phIdOf kwLine (blockPh n) = none := by
  cases h : phIdOf kwLine (blockPh n) with
  | none => rfl
  | some i => exact absurd (phIdOf_some h).2.symm (linePh_ne_blockPh i n)

theorem phIdOf_block_linePh (n : Nat) : phIdOf kwBlock (linePh n) = none := by
  cases h : phIdOf kwBlock (linePh n) with
  | none => rfl
  | some i => exact absurd (phIdOf_some h).2 (linePh_ne_blockPh n i)


/-! ### the renaming on words and keys -/

/-- what a renaming must satisfy: injective, and six-digit ids stay six-digit ids -/
structure RenOK (f : Nat → Nat) : Prop where
  inj : Function.Injective f
  lt : ∀ i, i < 1000000 → f i < 1000000

theorem renOK_id : RenOK id := ⟨fun _ _ h => h, fun _ h => h⟩

theorem renWord_linePh (f g : Nat → Nat) {i : Nat} (h : i < 1000000) : renWord f g (linePh i) = linePh (f i) := by
  simp only [renWord, phIdOf_line_linePh h]

theorem renWord_blockPh (f g : Nat → Nat) {i : Nat} (h : i < 1000000) : renWord f g (blockPh i) = blockPh (g i) := by
  simp only [renWord, phIdOf_line_blockPh, phIdOf_block_blockPh h]

theorem renWord_noPh (f g : Nat → Nat) {s : Str} (hl : containsPh kwLine s = false) (hb : containsPh kwBlock s = false) :
    renWord f g s = s := by
  have h1 : phIdOf kwLine s = none := by
    cases h : phIdOf kwLine s with
    | none => rfl
    | some i =>
      obtain ⟨hi, rfl⟩ := phIdOf_some h
      rw [show kwLine ++ padSix i = linePh i from rfl, containsLine_linePh hi] at hl; cases hl
  have h2 : phIdOf kwBlock s = none := by
    cases h : phIdOf kwBlock s with
    | none => rfl
    | some i =>
      obtain ⟨hi, rfl⟩ := phIdOf_some h
      rw [show kwBlock ++ padSix i = blockPh i from rfl, containsBlock_blockPh hi] at hb; cases hb
  simp only [renWord, h1, h2]

/-- a string without `COMMENT` in it is left alone -/
theorem renWord_noComment (f g : Nat → Nat) {s : Str} (h : isInfix "COMMENT".toList s = false) : renWord f g s = s :=
  renWord_noPh f g (C02.Main.containsPh_false (kw := kwLine) (sub := "COMMENT".toList) (by decide) h)
    (C02.Main.containsPh_false (kw := kwBlock) (sub := "COMMENT".toList) (by decide) h)

/-- the specification of `renWord`, complete: the three cases are exhaustive and exclusive -/
theorem renWord_spec (f g : Nat → Nat) (s : Str) :
    (∃ i, i < 1000000 ∧ s = linePh i ∧ renWord f g s = linePh (f i)) ∨
    (∃ i, i < 1000000 ∧ s = blockPh i ∧ renWord f g s = blockPh (g i)) ∨
    ((∀ i, i < 1000000 → s ≠ linePh i) ∧ (∀ i, i < 1000000 → s ≠ blockPh i) ∧ renWord f g s = s) := by
  cases h1 : phIdOf kwLine s with
  | some i =>
    obtain ⟨hi, e⟩ := phIdOf_some h1
    exact Or.inl ⟨i, hi, e, by rw [e]; exact renWord_linePh f g hi⟩
  | none =>
    cases h2 : phIdOf kwBlock s with
    | some i =>
      obtain ⟨hi, e⟩ := phIdOf_some h2
      exact Or.inr (Or.inl ⟨i, hi, e, by rw [e]; exact renWord_blockPh f g hi⟩)
    | none =>
      refine Or.inr (Or.inr ⟨fun i hi e => ?_, fun i hi e => ?_, by simp only [renWord, h1, h2]⟩)
      · rw [e, phIdOf_line_linePh hi] at h1; cases h1
      · rw [e, phIdOf_block_blockPh hi] at h2; cases h2

theorem renWord_id (s : Str) : renWord id id s = s := by
  rcases renWord_spec id id s with ⟨i, _, e, h⟩ | ⟨i, _, e, h⟩ | ⟨_, _, h⟩
  · rw [h, e]; rfl
  · rw [h, e]; rfl
  · exact h

/-- a key of a dict level as `_clean` must find it: an exact line- or block-comment placeholder word, or a key without
    any placeholder in it -/
def KeyOK (k : Key) : Prop :=
  (∃ i, i < 1000000 ∧ k = .str (linePh i)) ∨ (∃ i, i < 1000000 ∧ k = .str (blockPh i)) ∨ C07.isPhKey k = false

theorem isPhKey_linePh {i : Nat} (h : i < 1000000) : C07.isPhKey (.str (linePh i)) = true := by
  simp only [C07.isPhKey, containsLine_linePh h, Bool.or_true]

theorem isPhKey_blockPh {i : Nat} (h : i < 1000000) : C07.isPhKey (.str (blockPh i)) = true := by
  simp only [C07.isPhKey, containsBlock_blockPh h, Bool.true_or]

theorem renKey_noPh (f g : Nat → Nat) {k : Key} (h : C07.isPhKey k = false) : renKey f g k = k := by
  cases k with
  | int z => rfl
  | str s =>
    simp only [C07.isPhKey, Bool.or_eq_false_iff] at h
    simp only [renKey, renWord_noPh f g h.2 h.1.1]

theorem renKey_ok {f g : Nat → Nat} (hf : RenOK f) (hg : RenOK g) {k : Key} (h : KeyOK k) : KeyOK (renKey f g k) := by
  rcases h with ⟨i, hi, rfl⟩ | ⟨i, hi, rfl⟩ | h
  · exact Or.inl ⟨f i, hf.lt i hi, by simp only [renKey, renWord_linePh f g hi]⟩
  · exact Or.inr (Or.inl ⟨g i, hg.lt i hi, by simp only [renKey, renWord_blockPh f g hi]⟩)
  · rw [renKey_noPh f g h]; exact Or.inr (Or.inr h)

theorem renKey_inj {f g : Nat → Nat} (hf : RenOK f) (hg : RenOK g) {k k' : Key} (h : KeyOK k) (h' : KeyOK k')
    (e : renKey f g k = renKey f g k') : k = k' := by
  rcases h with ⟨i, hi, rfl⟩ | ⟨i, hi, rfl⟩ | h <;> rcases h' with ⟨j, hj, rfl⟩ | ⟨j, hj, rfl⟩ | h'
  · simp only [renKey, renWord_linePh f g hi, renWord_linePh f g hj, Key.str.injEq] at e
    rw [hf.inj (linePh_inj e)]
  · simp only [renKey, renWord_linePh f g hi, renWord_blockPh f g hj, Key.str.injEq] at e
    exact absurd e (linePh_ne_blockPh _ _)
  · rw [renKey_noPh f g h'] at e
    simp only [renKey, renWord_linePh f g hi] at e
    rw [← e, isPhKey_linePh (hf.lt i hi)] at h'; cases h'
  · simp only [renKey, renWord_linePh f g hj, renWord_blockPh f g hi, Key.str.injEq] at e
    exact absurd e.symm (linePh_ne_blockPh _ _)
  · simp only [renKey, renWord_blockPh f g hi, renWord_blockPh f g hj, Key.str.injEq] at e
    rw [hg.inj (blockPh_inj e)]
  · rw [renKey_noPh f g h'] at e
    simp only [renKey, renWord_blockPh f g hi] at e
    rw [← e, isPhKey_blockPh (hg.lt i hi)] at h'; cases h'
  · rw [renKey_noPh f g h] at e
    simp only [renKey, renWord_linePh f g hj] at e
    rw [e, isPhKey_linePh (hf.lt j hj)] at h; cases h
  · rw [renKey_noPh f g h] at e
    simp only [renKey, renWord_blockPh f g hj] at e
    rw [e, isPhKey_blockPh (hg.lt j hj)] at h; cases h
  · rw [renKey_noPh f g h, renKey_noPh f g h'] at e; exact e

/-! ### the renaming on entries and tables -/

theorem renEs_nil (f g : Nat → Nat) : renEs f g [] = [] := by simp only [renEs]
theorem renEs_cons (f g : Nat → Nat) (k : Key) (v : Val) (es : Entries) :
    renEs f g ((k, v) :: es) = (renKey f g k, renV f g v) :: renEs f g es := by simp only [renEs]
theorem renV_dict (f g : Nat → Nat) (es : Entries) : renV f g (.dict es) = .dict (renEs f g es) := by simp only [renV]
theorem renV_leaf (f g : Nat → Nat) (x : Scalar) : renV f g (.leaf x) = .leaf (renScalar f g x) := by simp only [renV]
theorem renV_list (f g : Nat → Nat) (xs : List Val) : renV f g (.list xs) = .list (renXs f g xs) := by simp only [renV]
theorem renXs_nil (f g : Nat → Nat) : renXs f g [] = [] := by simp only [renXs]
theorem renXs_cons (f g : Nat → Nat) (v : Val) (xs : List Val) :
    renXs f g (v :: xs) = renV f g v :: renXs f g xs := by simp only [renXs]

theorem keys_renEs (f g : Nat → Nat) : ∀ es : Entries, keys (renEs f g es) = (keys es).map (renKey f g)
  | [] => by simp only [renEs_nil, keys, List.map_nil]
  | (k, v) :: es => by
    have := keys_renEs f g es
    simp only [keys] at this
    simp only [renEs_cons, keys, List.map_cons, this]

theorem renEs_append (f g : Nat → Nat) : ∀ a b : Entries, renEs f g (a ++ b) = renEs f g a ++ renEs f g b
  | [], b => by simp only [renEs_nil, List.nil_append]
  | (k, v) :: a, b => by simp only [List.cons_append, renEs_cons, renEs_append f g a b]

theorem setKey_ren {f g : Nat → Nat} (hf : RenOK f) (hg : RenOK g) {k : Key} (hk : KeyOK k) (v : Val) :
    ∀ acc : Entries, (∀ x ∈ keys acc, KeyOK x) →
      renEs f g (setKey k v acc) = setKey (renKey f g k) (renV f g v) (renEs f g acc)
  | [], _ => by simp only [setKey, renEs_cons, renEs_nil]
  | (k', v') :: es, h => by
    have hk' : KeyOK k' := h k' (by simp [keys])
    have ih := setKey_ren hf hg hk v es (fun x hx => h x (by simp only [keys, List.map_cons, List.mem_cons] at hx ⊢; exact Or.inr hx))
    by_cases e : k' = k
    · subst e
      simp only [setKey, if_true, renEs_cons]
    · have e' : ¬ renKey f g k' = renKey f g k := fun h' => e (renKey_inj hf hg hk' hk h')
      simp only [setKey, e, if_false, renEs_cons, e', ih]

theorem delKey_ren {f g : Nat → Nat} (hf : RenOK f) (hg : RenOK g) {k : Key} (hk : KeyOK k) :
    ∀ acc : Entries, (∀ x ∈ keys acc, KeyOK x) →
      renEs f g (delKey k acc) = delKey (renKey f g k) (renEs f g acc)
  | [], _ => by simp only [delKey, renEs_nil]
  | (k', v') :: es, h => by
    have hk' : KeyOK k' := h k' (by simp [keys])
    have ih := delKey_ren hf hg hk es (fun x hx => h x (by simp only [keys, List.map_cons, List.mem_cons] at hx ⊢; exact Or.inr hx))
    by_cases e : k' = k
    · subst e
      simp only [delKey, if_true, renEs_cons]
    · have e' : ¬ renKey f g k' = renKey f g k := fun h' => e (renKey_inj hf hg hk' hk h')
      simp only [delKey, e, if_false, renEs_cons, e', ih]

theorem renTbl_id {α} (t : Tbl α) : renTbl id t = t := by
  simp only [renTbl, id]; exact List.map_id' t

theorem renTbl_texts {α} (f : Nat → Nat) (t : Tbl α) : (renTbl f t).map (·.2) = t.map (·.2) := by
  simp only [renTbl, List.map_map]; rfl

theorem renTbl_length {α} (f : Nat → Nat) (t : Tbl α) : (renTbl f t).length = t.length := by
  simp only [renTbl, List.length_map]

theorem renTbl_append {α} (f : Nat → Nat) (t u : Tbl α) : renTbl f (t ++ u) = renTbl f t ++ renTbl f u := by
  simp only [renTbl, List.map_append]

theorem renTbl_get {α} {f : Nat → Nat} (hf : Function.Injective f) (i : Nat) :
    ∀ t : Tbl α, Tbl.get? (f i) (renTbl f t) = Tbl.get? i t
  | [] => rfl
  | (j, a) :: t => by
    have ih := renTbl_get hf i t
    simp only [renTbl] at ih
    by_cases e : j = i
    · subst e; simp only [renTbl, List.map_cons, Tbl.get?, if_true]
    · have e' : ¬ f j = f i := fun h => e (hf h)
      simp only [renTbl, List.map_cons, Tbl.get?, e, e', if_false, ih]

theorem renTbl_set {α} {f : Nat → Nat} (hf : Function.Injective f) (i : Nat) (a : α) :
    ∀ t : Tbl α, Tbl.set (f i) a (renTbl f t) = renTbl f (Tbl.set i a t)
  | [] => rfl
  | (j, b) :: t => by
    have ih := renTbl_set hf i a t
    simp only [renTbl] at ih
    by_cases e : j = i
    · subst e; simp only [renTbl, List.map_cons, Tbl.set, if_true]
    · have e' : ¬ f j = f i := fun h => e (hf h)
      simp only [renTbl, List.map_cons, Tbl.set, e, e', if_false, ih]

theorem renTbl_del {α} {f : Nat → Nat} (hf : Function.Injective f) (i : Nat) :
    ∀ t : Tbl α, Tbl.del (f i) (renTbl f t) = renTbl f (Tbl.del i t)
  | [] => rfl
  | (j, b) :: t => by
    have ih := renTbl_del hf i t
    simp only [renTbl] at ih
    by_cases e : j = i
    · subst e; simp only [renTbl, List.map_cons, Tbl.del, if_true]
    · have e' : ¬ f j = f i := fun h => e (hf h)
      simp only [renTbl, List.map_cons, Tbl.del, e, e', if_false, ih]


/-! ## 2a. `_clean` commutes with the renaming -/

/-- one round of the loop of `_clean_data` -/
def cstep {α} [BEq α] (acc : Entries × Tbl α × List α) (k : Key) : Entries × Tbl α × List α :=
  let (d, t, seen) := acc
  match k with
  | .str x =>
    (match firstSixDigits x with
    | none => acc
    | some i => match t.get? i with
      | none => acc
      | some txt =>
        if seen.contains txt then (delKey k d, t.del i, seen) else (d, t, seen ++ [txt]))
  | _ => acc

theorem cleanStep_eq {α} [BEq α] (sel : Key → Bool) (lvl : Entries) (tbl : Tbl α) :
    C06.cleanStep sel lvl tbl =
      ((((keys lvl).filter sel).foldl cstep (lvl, tbl, [])).1, (((keys lvl).filter sel).foldl cstep (lvl, tbl, [])).2.1) := rfl

theorem cstep_keys {α} [BEq α] (acc : Entries × Tbl α × List α) (k : Key) : ∀ x ∈ keys (cstep acc k).1, x ∈ keys acc.1 := by
  obtain ⟨d, t, seen⟩ := acc
  intro x hx
  cases k with
  | int z => exact hx
  | str s =>
    simp only [cstep] at hx
    split at hx
    · exact hx
    · split at hx
      · exact hx
      · split at hx
        · exact C12.keys_delKey_sub hx
        · exact hx

section
variable {α : Type} [BEq α] {f g : Nat → Nat} (hf : RenOK f) (hg : RenOK g) {h : Nat → Nat} (hh : Function.Injective h)
include hf hg hh

theorem cstep_ren {k : Key} (hk : KeyOK k)
    (hc : ∃ x x' i, k = .str x ∧ renKey f g k = .str x' ∧ firstSixDigits x = some i ∧ firstSixDigits x' = some (h i))
    (d : Entries) (t : Tbl α) (seen : List α) (hd : ∀ x ∈ keys d, KeyOK x) :
    cstep (renEs f g d, renTbl h t, seen) (renKey f g k) =
      (renEs f g (cstep (d, t, seen) k).1, renTbl h (cstep (d, t, seen) k).2.1, (cstep (d, t, seen) k).2.2) := by
  obtain ⟨x, x', i, rfl, hx', h1, h2⟩ := hc
  rw [hx']
  simp only [cstep, h1, h2, renTbl_get hh]
  cases ht : Tbl.get? i t with
  | none => rfl
  | some txt =>
    dsimp only
    by_cases hs : seen.contains txt = true
    · simp only [hs, if_true]
      rw [← hx', ← delKey_ren hf hg hk d hd, renTbl_del hh]
    · simp only [hs, Bool.false_eq_true, if_false]

theorem cfold_ren (sel : Key → Bool)
    (hcand : ∀ k, KeyOK k → sel k = true →
      ∃ x x' i, k = .str x ∧ renKey f g k = .str x' ∧ firstSixDigits x = some i ∧ firstSixDigits x' = some (h i)) :
    ∀ (cand : List Key), (∀ k ∈ cand, KeyOK k ∧ sel k = true) →
      ∀ (d : Entries) (t : Tbl α) (seen : List α), (∀ x ∈ keys d, KeyOK x) →
        (cand.map (renKey f g)).foldl cstep (renEs f g d, renTbl h t, seen) =
          (renEs f g (cand.foldl cstep (d, t, seen)).1, renTbl h (cand.foldl cstep (d, t, seen)).2.1,
            (cand.foldl cstep (d, t, seen)).2.2)
  | [], _, _, _, _, _ => rfl
  | k :: cand, hc, d, t, seen, hd => by
    have hk := hc k List.mem_cons_self
    rw [List.map_cons, List.foldl_cons, List.foldl_cons, cstep_ren hf hg hh hk.1 (hcand k hk.1 hk.2) d t seen hd]
    have hd' : ∀ x ∈ keys (cstep (d, t, seen) k).1, KeyOK x := fun x hx => hd x (cstep_keys _ _ x hx)
    have ih := cfold_ren sel hcand cand (fun k' hk' => hc k' (List.mem_cons_of_mem _ hk'))
      (cstep (d, t, seen) k).1 (cstep (d, t, seen) k).2.1 (cstep (d, t, seen) k).2.2 hd'
    exact ih

theorem cleanStep_ren (sel : Key → Bool) (lvl : Entries) (tbl : Tbl α)
    (hok : ∀ k ∈ keys lvl, KeyOK k)
    (hsel : ∀ k, KeyOK k → sel (renKey f g k) = sel k)
    (hcand : ∀ k, KeyOK k → sel k = true →
      ∃ x x' i, k = .str x ∧ renKey f g k = .str x' ∧ firstSixDigits x = some i ∧ firstSixDigits x' = some (h i)) :
    C06.cleanStep sel (renEs f g lvl) (renTbl h tbl) =
      (renEs f g (C06.cleanStep sel lvl tbl).1, renTbl h (C06.cleanStep sel lvl tbl).2) := by
  have hcnd : (keys (renEs f g lvl)).filter sel = ((keys lvl).filter sel).map (renKey f g) := by
    rw [keys_renEs, List.filter_map]
    congr 1
    apply List.filter_congr
    intro k hk
    exact hsel k (hok k hk)
  rw [cleanStep_eq, cleanStep_eq, hcnd,
    cfold_ren hf hg hh sel hcand _ (fun k hk => ⟨hok k (List.mem_filter.mp hk).1, (List.mem_filter.mp hk).2⟩) lvl tbl [] hok]

end


theorem cleanLevel_eq (s : SD) (lvl : Entries) :
    cleanLevel s lvl =
      ({ s with
          blockC := (C06.cleanStep C06.selB lvl s.blockC).2,
          incl := (C06.cleanStep C06.selI (C06.cleanStep C06.selB lvl s.blockC).1 s.incl).2,
          lineC := (C06.cleanStep C06.selL
            (C06.cleanStep C06.selI (C06.cleanStep C06.selB lvl s.blockC).1 s.incl).1 s.lineC).2 },
       (C06.cleanStep C06.selL (C06.cleanStep C06.selI (C06.cleanStep C06.selB lvl s.blockC).1 s.incl).1 s.lineC).1) := rfl

theorem sel_linePh {i : Nat} (hi : i < 1000000) :
    C06.selB (.str (linePh i)) = false ∧ C06.selI (.str (linePh i)) = false ∧ C06.selL (.str (linePh i)) = true := by
  simp [C06.selB, C06.selI, C06.selL, containsBlock_linePh, containsIncl_linePh, containsLine_linePh hi]

theorem sel_blockPh {i : Nat} (hi : i < 1000000) :
    C06.selB (.str (blockPh i)) = true ∧ C06.selI (.str (blockPh i)) = false ∧ C06.selL (.str (blockPh i)) = false := by
  simp [C06.selB, C06.selI, C06.selL, containsBlock_blockPh hi, containsIncl_blockPh, containsLine_blockPh]

theorem sel_noPh {k : Key} (h : C07.isPhKey k = false) : C06.selB k = false ∧ C06.selI k = false ∧ C06.selL k = false := by
  cases k with
  | int z => exact ⟨rfl, rfl, rfl⟩
  | str x =>
    simp only [C07.isPhKey, Bool.or_eq_false_iff] at h
    simp [C06.selB, C06.selI, C06.selL, h.1.1, h.1.2, h.2]

/-- the keys of a level stay admissible through one loop of `_clean_data` -/
theorem cleanStep_ok {α} [BEq α] (sel : Key → Bool) (hsel : ∀ k, sel k = true → C07.isPhKey k = true) (lvl : Entries)
    (tbl : Tbl α) (h : ∀ x ∈ keys lvl, KeyOK x) : ∀ x ∈ keys (C06.cleanStep sel lvl tbl).1, KeyOK x :=
  C06.cleanStep_inv (fun d => ∀ x ∈ keys d, KeyOK x) (fun k d _ hd x hx => hd x (C12.keys_delKey_sub hx)) sel hsel lvl tbl h

/-- two `SDict`s whose tables differ by the renaming (the data fields are not compared) -/
structure TRel (f g : Nat → Nat) (s s' : SD) : Prop where
  lineC : s'.lineC = renTbl f s.lineC
  blockC : s'.blockC = renTbl g s.blockC
  incl : s'.incl = s.incl
  exprs : s'.exprs = s.exprs

section
variable {f g : Nat → Nat} (hf : RenOK f) (hg : RenOK g)
include hf hg

theorem cleanLevel_ren {s s' : SD} (hs : TRel f g s s') (lvl : Entries) (hok : ∀ k ∈ keys lvl, KeyOK k) :
    TRel f g (cleanLevel s lvl).1 (cleanLevel s' (renEs f g lvl)).1 ∧
      (cleanLevel s' (renEs f g lvl)).2 = renEs f g (cleanLevel s lvl).2 := by
  -- block comments
  have hB := cleanStep_ren hf hg hg.inj C06.selB lvl s.blockC hok
    (by
      intro k hk
      rcases hk with ⟨i, hi, rfl⟩ | ⟨i, hi, rfl⟩ | hk
      · simp only [renKey, renWord_linePh f g hi, (sel_linePh hi).1, (sel_linePh (hf.lt i hi)).1]
      · simp only [renKey, renWord_blockPh f g hi, (sel_blockPh hi).1, (sel_blockPh (hg.lt i hi)).1]
      · rw [renKey_noPh f g hk])
    (by
      intro k hk hs
      rcases hk with ⟨i, hi, rfl⟩ | ⟨i, hi, rfl⟩ | hk
      · rw [(sel_linePh hi).1] at hs; cases hs
      · exact ⟨_, _, i, rfl, by simp only [renKey, renWord_blockPh f g hi], firstSix_blockPh hi, firstSix_blockPh (hg.lt i hi)⟩
      · rw [(sel_noPh hk).1] at hs; cases hs)
  have hok1 := cleanStep_ok C06.selB (fun _ => C06.selB_ph) lvl s.blockC hok
  -- include directives: no candidate
  have hI := cleanStep_ren (h := id) hf hg (fun _ _ e => e) C06.selI (C06.cleanStep C06.selB lvl s.blockC).1 s.incl hok1
    (by
      intro k hk
      rcases hk with ⟨i, hi, rfl⟩ | ⟨i, hi, rfl⟩ | hk
      · simp only [renKey, renWord_linePh f g hi, (sel_linePh hi).2.1, (sel_linePh (hf.lt i hi)).2.1]
      · simp only [renKey, renWord_blockPh f g hi, (sel_blockPh hi).2.1, (sel_blockPh (hg.lt i hi)).2.1]
      · rw [renKey_noPh f g hk])
    (by
      intro k hk hs
      rcases hk with ⟨i, hi, rfl⟩ | ⟨i, hi, rfl⟩ | hk
      · rw [(sel_linePh hi).2.1] at hs; cases hs
      · rw [(sel_blockPh hi).2.1] at hs; cases hs
      · rw [(sel_noPh hk).2.1] at hs; cases hs)
  rw [renTbl_id, renTbl_id] at hI
  have hok2 := cleanStep_ok C06.selI (fun _ => C06.selI_ph) _ s.incl hok1
  -- line comments
  have hL := cleanStep_ren hf hg hf.inj C06.selL
    (C06.cleanStep C06.selI (C06.cleanStep C06.selB lvl s.blockC).1 s.incl).1 s.lineC hok2
    (by
      intro k hk
      rcases hk with ⟨i, hi, rfl⟩ | ⟨i, hi, rfl⟩ | hk
      · simp only [renKey, renWord_linePh f g hi, (sel_linePh hi).2.2, (sel_linePh (hf.lt i hi)).2.2]
      · simp only [renKey, renWord_blockPh f g hi, (sel_blockPh hi).2.2, (sel_blockPh (hg.lt i hi)).2.2]
      · rw [renKey_noPh f g hk])
    (by
      intro k hk hs
      rcases hk with ⟨i, hi, rfl⟩ | ⟨i, hi, rfl⟩ | hk
      · exact ⟨_, _, i, rfl, by simp only [renKey, renWord_linePh f g hi], firstSix_linePh hi, firstSix_linePh (hf.lt i hi)⟩
      · rw [(sel_blockPh hi).2.2] at hs; cases hs
      · rw [(sel_noPh hk).2.2] at hs; cases hs)
  rw [cleanLevel_eq, cleanLevel_eq]
  simp only [hs.blockC, hs.incl, hs.lineC, hB, hI, hL]
  exact ⟨⟨rfl, rfl, rfl, hs.exprs⟩, trivial⟩

end


mutual
  /-- every key of every dict level that `_clean` visits (through dict nesting; lists are opaque to it) is admissible -/
  def PhWFV : Val → Prop
    | .dict es => PhWFEs es
    | _ => True
  def PhWFEs : Entries → Prop
    | [] => True
    | (k, v) :: es => KeyOK k ∧ PhWFV v ∧ PhWFEs es
end

theorem phWFEs_iff : ∀ {es : Entries}, PhWFEs es ↔ ∀ e ∈ es, KeyOK e.1 ∧ PhWFV e.2
  | [] => by simp [PhWFEs]
  | (k, v) :: es => by simp [PhWFEs, phWFEs_iff (es := es), and_assoc]

theorem phWFEs_keys {es : Entries} (h : PhWFEs es) : ∀ k ∈ keys es, KeyOK k := by
  intro k hk
  obtain ⟨e, he, rfl⟩ := List.mem_map.mp hk
  exact (phWFEs_iff.mp h e he).1

theorem keys_setKey_sub {k x : Key} {v : Val} {es : Entries} (h : x ∈ keys (setKey k v es)) : x = k ∨ x ∈ keys es := by
  obtain ⟨e, he, rfl⟩ := List.mem_map.mp h
  rcases C07.mem_setKey he with rfl | he
  · exact Or.inl rfl
  · exact Or.inr (List.mem_map_of_mem (f := (·.1)) he)

theorem phWFEs_setKey {k : Key} {v : Val} {es : Entries} (h : PhWFEs es) (hk : KeyOK k) (hv : PhWFV v) :
    PhWFEs (setKey k v es) := by
  rw [phWFEs_iff] at h ⊢
  intro e he
  rcases C07.mem_setKey he with rfl | he
  · exact ⟨hk, hv⟩
  · exact h e he

theorem sd_ext {a b : SD} (h1 : a.data = b.data) (h2 : a.exprs = b.exprs) (h3 : a.lineC = b.lineC) (h4 : a.blockC = b.blockC)
    (h5 : a.incl = b.incl) : a = b := by
  cases a; cases b; simp_all

mutual
  theorem depthV_ren (f g : Nat → Nat) : ∀ v : Val, depthV (renV f g v) = depthV v
    | .leaf _ => by simp only [renV_leaf, depthV]
    | .dict es => by simp only [renV_dict, depthV, depthEs_ren f g es]
    | .list xs => by simp only [renV_list, depthV, depthVs_ren f g xs]
  theorem depthEs_ren (f g : Nat → Nat) : ∀ es : Entries, depthV.depthEs (renEs f g es) = depthV.depthEs es
    | [] => by simp only [renEs_nil]
    | (k, v) :: es => by simp only [renEs_cons, depthV.depthEs, depthV_ren f g v, depthEs_ren f g es]
  theorem depthVs_ren (f g : Nat → Nat) : ∀ xs : List Val, depthV.depthVs (renXs f g xs) = depthV.depthVs xs
    | [] => by simp only [renXs_nil]
    | v :: xs => by simp only [renXs_cons, depthV.depthVs, depthV_ren f g v, depthVs_ren f g xs]
end

section
variable {f g : Nat → Nat} (hf : RenOK f) (hg : RenOK g)
include hf hg

theorem cleanRec_ren : ∀ (fuel : Nat) (s s' : SD) (lvl : Entries), TRel f g s s' → PhWFEs lvl →
    TRel f g (cleanRec fuel s lvl).1 (cleanRec fuel s' (renEs f g lvl)).1 ∧
      (cleanRec fuel s' (renEs f g lvl)).2 = renEs f g (cleanRec fuel s lvl).2
  | 0, _, _, _, hs, _ => ⟨hs, rfl⟩
  | fuel + 1, s, s', lvl, hs, hw => by
    have hl := cleanLevel_ren hf hg hs lvl (phWFEs_keys hw)
    have hsub := (C06.cleanLevel_spec s lvl).1
    have hw1 : ∀ e ∈ (cleanLevel s lvl).2, KeyOK e.1 ∧ PhWFV e.2 := fun e he => phWFEs_iff.mp hw e (hsub.subset he)
    simp only [cleanRec]
    rw [hl.2]
    have hl1 := hl.1
    generalize (cleanLevel s' (renEs f g lvl)).1 = s1' at hl1
    generalize (cleanLevel s lvl).2 = lvl1 at hw1
    generalize (cleanLevel s lvl).1 = s1 at hl1
    suffices H : ∀ (l : Entries) (acc acc' : SD × Entries), (∀ e ∈ l, KeyOK e.1 ∧ PhWFV e.2) → TRel f g acc.1 acc'.1 →
        acc'.2 = renEs f g acc.2 → (∀ x ∈ keys acc.2, KeyOK x) →
        TRel f g
          (l.foldl (fun (acc : SD × Entries) e =>
            match e.2 with
            | .dict sub => ((cleanRec fuel acc.1 sub).1, setKey e.1 (.dict (cleanRec fuel acc.1 sub).2) acc.2)
            | _ => acc) acc).1
          ((renEs f g l).foldl (fun (acc : SD × Entries) e =>
            match e.2 with
            | .dict sub => ((cleanRec fuel acc.1 sub).1, setKey e.1 (.dict (cleanRec fuel acc.1 sub).2) acc.2)
            | _ => acc) acc').1 ∧
        ((renEs f g l).foldl (fun (acc : SD × Entries) e =>
            match e.2 with
            | .dict sub => ((cleanRec fuel acc.1 sub).1, setKey e.1 (.dict (cleanRec fuel acc.1 sub).2) acc.2)
            | _ => acc) acc').2 =
          renEs f g (l.foldl (fun (acc : SD × Entries) e =>
            match e.2 with
            | .dict sub => ((cleanRec fuel acc.1 sub).1, setKey e.1 (.dict (cleanRec fuel acc.1 sub).2) acc.2)
            | _ => acc) acc).2 from
      H lvl1 (s1, lvl1) (s1', renEs f g lvl1) hw1 hl1 rfl (fun x hx => by
        obtain ⟨e, he, rfl⟩ := List.mem_map.mp hx
        exact (hw1 e he).1)
    intro l
    induction l with
    | nil => intro acc acc' _ h1 h2 _; rw [renEs_nil]; exact ⟨h1, h2⟩
    | cons e l ih =>
      intro acc acc' hl h1 h2 h3
      obtain ⟨k0, v0⟩ := e
      have he := hl _ List.mem_cons_self
      rw [renEs_cons, List.foldl_cons, List.foldl_cons]
      cases v0 with
      | leaf x => rw [renV_leaf]; exact ih _ _ (fun e' he' => hl e' (List.mem_cons_of_mem _ he')) h1 h2 h3
      | list xs => rw [renV_list]; exact ih _ _ (fun e' he' => hl e' (List.mem_cons_of_mem _ he')) h1 h2 h3
      | dict sub =>
        rw [renV_dict]
        dsimp only
        have ihs := cleanRec_ren fuel acc.1 acc'.1 sub h1 he.2
        apply ih _ _ (fun e' he' => hl e' (List.mem_cons_of_mem _ he'))
        · exact ihs.1
        · dsimp only
          rw [ihs.2, h2, setKey_ren hf hg he.1 _ _ h3, renV_dict]
        · intro x hx
          rcases keys_setKey_sub hx with rfl | hx
          · exact he.1
          · exact h3 x hx

/-- **`_clean` commutes with the renaming** of placeholder ids -/
theorem clean_ren (s : SD) (hw : PhWFEs s.data) : (renSD f g s).clean = renSD f g s.clean := by
  have e1 : s.clean = { (cleanRec (depthV (.dict s.data) + 1) s s.data).1 with
      data := (cleanRec (depthV (.dict s.data) + 1) s s.data).2 } := rfl
  have e2 : (renSD f g s).clean = { (cleanRec (depthV (.dict (renEs f g s.data)) + 1) (renSD f g s) (renEs f g s.data)).1 with
      data := (cleanRec (depthV (.dict (renEs f g s.data)) + 1) (renSD f g s) (renEs f g s.data)).2 } := rfl
  have hd : depthV (.dict (renEs f g s.data)) = depthV (.dict s.data) := by
    rw [← renV_dict, depthV_ren]
  rw [hd] at e2
  have h := cleanRec_ren hf hg (depthV (.dict s.data) + 1) s (renSD f g s) s.data ⟨rfl, rfl, rfl, rfl⟩ hw
  rw [e1, e2]
  obtain ⟨h1, h2⟩ := h
  generalize cleanRec (depthV (.dict s.data) + 1) s s.data = r at h1 h2 ⊢
  generalize cleanRec (depthV (.dict s.data) + 1) (renSD f g s) (renEs f g s.data) = r' at h1 h2 ⊢
  exact sd_ext h2 h1.exprs h1.lineC h1.blockC h1.incl

end


/-! ## 2b. the comment-free part of a document is untouched by the renaming -/

theorem renScalar_den (f g : Nat → Nat) {l : Lit} (h : l.ok = true) : renScalar f g l.den = l.den := by
  cases l with
  | bare w =>
    simp only [Lit.ok] at h
    obtain ⟨_, hc, _, _, _, hq, _⟩ := C02.Main.srcWord_iff.mp h
    simp only [Lit.den]
    cases hp : parseValue w with
    | str s =>
      have := C04.C04_idem hp (fun c hc => (hq c hc).1)
      subst this
      simp only [renScalar, renWord_noComment f g hc]
    | _ => rfl
  | quoted q b =>
    simp only [Lit.ok] at h
    have hc := (C02.Main.srcQuoted_iff.mp h).2.2.2.2.2.2.2.1
    simp only [Lit.den]
    cases hp : parseValue b with
    | str s => simp only [renScalar, renWord_noComment f g hc]
    | _ => rfl

theorem renEs_fix (f g : Nat → Nat) : ∀ {es : Entries}, (∀ e ∈ es, renKey f g e.1 = e.1 ∧ renV f g e.2 = e.2) →
    renEs f g es = es
  | [], _ => renEs_nil f g
  | (k, v) :: es, h => by
    have h0 := h (k, v) List.mem_cons_self
    rw [renEs_cons, h0.1, h0.2, renEs_fix f g (fun e he => h e (List.mem_cons_of_mem _ he))]

mutual
  theorem ren_denSrcV (f g : Nat → Nat) : ∀ (v : Src) (d : Nat), SrcWFV d v = true → renV f g (denSrcV v) = denSrcV v
    | .lit l, _, h => by
      simp only [SrcWFV, Bool.and_eq_true] at h
      simp only [denSrcV, renV_leaf, renScalar_den f g h.1]
    | .dict es, d, h => by
      simp only [SrcWFV] at h
      simp only [denSrcV, renV_dict]
      rw [renEs_fix f g (ren_denSrcEs f g es (d + 1) [] h (fun _ he => nomatch he))]
    | .list xs, d, h => by
      simp only [SrcWFV] at h
      simp only [denSrcV, renV_list, ren_denSrcXs f g xs (d + 1) h]
  theorem ren_denSrcEs (f g : Nat → Nat) : ∀ (es : SrcEntries) (d : Nat) (acc : Entries), SrcWFEs d es = true →
      (∀ e ∈ acc, renKey f g e.1 = e.1 ∧ renV f g e.2 = e.2) →
      ∀ e ∈ denSrcEs es acc, renKey f g e.1 = e.1 ∧ renV f g e.2 = e.2
    | [], _, _, _, hacc => by simpa only [denSrcEs] using hacc
    | (k, v) :: es, d, acc, h, hacc => by
      obtain ⟨hk, hp, hkey, hv, hes⟩ := C12.wf_cons h
      obtain ⟨key, hkey⟩ := Option.isSome_iff_exists.mp hkey
      simp only [denSrcEs, hkey]
      apply ren_denSrcEs f g es d _ hes
      intro e he
      rcases C07.mem_setKey he with rfl | he
      · exact ⟨renKey_noPh f g (C02.Main.typedKey_noPh hk hkey), ren_denSrcV f g v d hv⟩
      · exact hacc e he
  theorem ren_denSrcXs (f g : Nat → Nat) : ∀ (xs : List Src) (d : Nat), SrcWFXs d xs = true →
      renXs f g (denSrcXs xs) = denSrcXs xs
    | [], _, _ => by simp only [denSrcXs, renXs_nil]
    | v :: xs, d, h => by
      simp only [SrcWFXs, Bool.and_eq_true] at h
      simp only [denSrcXs, renXs_cons, ren_denSrcV f g v d h.1, ren_denSrcXs f g xs d h.2]
end


/-! ## 2c. the labelling of the comments is natural in the counter -/

mutual
  /-- number of line comments of a document -/
  def nLineV : CSrc → Nat
    | .lit _ => 0
    | .dict items => nLineI items
    | .list _ => 0
  def nLineI : List CItem → Nat
    | [] => 0
    | .entry _ v :: r => nLineV v + nLineI r
    | .lineC _ :: r => 1 + nLineI r
    | .blockC _ :: r => nLineI r
end

mutual
  /-- number of block comments of a document -/
  def nBlockV : CSrc → Nat
    | .lit _ => 0
    | .dict items => nBlockI items
    | .list _ => 0
  def nBlockI : List CItem → Nat
    | [] => 0
    | .entry _ v :: r => nBlockV v + nBlockI r
    | .lineC _ :: r => nBlockI r
    | .blockC _ :: r => 1 + nBlockI r
end

mutual
  theorem blockLen_labelV : ∀ (v : CSrc) (st : CLabelSt), (labelCV st v).1.blockC.length = st.blockC.length + nBlockV v
    | .lit l, st => by simp only [labelCV, nBlockV, Nat.add_zero]
    | .dict items, st => by simp only [labelCV, nBlockV, blockLen_labelI items st]
    | .list xs, st => by simp only [labelCV, nBlockV, Nat.add_zero]
  theorem blockLen_labelI : ∀ (items : List CItem) (st : CLabelSt),
      (labelCItems st items).1.blockC.length = st.blockC.length + nBlockI items
    | [], st => by simp only [labelCItems, nBlockI, Nat.add_zero]
    | .entry k v :: r, st => by
      simp only [labelCItems, nBlockI, blockLen_labelI r _, blockLen_labelV v st, Nat.add_assoc]
    | .lineC x :: r, st => by simp only [labelCItems, nBlockI, blockLen_labelI r _]
    | .blockC x :: r, st => by
      simp only [labelCItems, nBlockI, blockLen_labelI r _, List.length_append, List.length_singleton, Nat.add_assoc]
end

/-- `f` carries the ids the counter hands out from `c₁` to the ids it hands out from `c₂`, one by one -/
def CRel (f : Nat → Nat) (c₁ c₂ : Counter) : Prop :=
  ∀ k, (alloc Gen.counterLimit k c₁).map f = alloc Gen.counterLimit k c₂

theorem CRel.next {f : Nat → Nat} {c₁ c₂ : Counter} (h : CRel f c₁ c₂) :
    f (Counter.next Gen.counterLimit c₁).1 = (Counter.next Gen.counterLimit c₂).1 ∧
      CRel f (Counter.next Gen.counterLimit c₁).2 (Counter.next Gen.counterLimit c₂).2 := by
  refine ⟨?_, fun k => ?_⟩
  · have := h 1
    rw [C13.alloc_succ, C13.alloc_succ, List.map_cons] at this
    exact (List.cons.inj this).1
  · have := h (k + 1)
    rw [C13.alloc_succ, C13.alloc_succ, List.map_cons] at this
    exact (List.cons.inj this).2

/-- two labelling states that differ by the renaming of the line-comment ids -/
structure StRel (f : Nat → Nat) (st₁ st₂ : CLabelSt) : Prop where
  counter : CRel f st₁.counter st₂.counter
  lineC : st₂.lineC = renTbl f st₁.lineC
  blockC : st₂.blockC = st₁.blockC

theorem limit_eq : Gen.counterLimit = 999999 := rfl

theorem keyOK_line {c : Counter} (hc : C13.ValidCounter Gen.counterLimit c) :
    (Counter.next Gen.counterLimit c).1 < 1000000 ∧ KeyOK (.str (linePh (Counter.next Gen.counterLimit c).1)) := by
  have h1 := C13.next_le hc
  have h2 : (Counter.next Gen.counterLimit c).1 < 1000000 := Nat.lt_of_le_of_lt h1 (by decide)
  exact ⟨h2, Or.inl ⟨_, h2, rfl⟩⟩

theorem keyOK_typed {k : Str} {key : Key} (hk : isSrcWord k = true) (h : keyOfScalar (parseKey k) = some key) : KeyOK key :=
  Or.inr (Or.inr (C02.Main.typedKey_noPh hk h))

theorem keysOK_setKey {k : Key} {v : Val} {acc : Entries} (hk : KeyOK k) (hacc : ∀ x ∈ keys acc, KeyOK x) :
    ∀ x ∈ keys (setKey k v acc), KeyOK x := by
  intro x hx
  rcases keys_setKey_sub hx with rfl | hx
  · exact hk
  · exact hacc x hx

theorem isPhTok_linePh (i : Nat) : isPhTok (linePh i) = true := (C12.linePh_tok i).2
theorem isPhTok_blockPh (i : Nat) : isPhTok (blockPh i) = true := (C12.blockPh_tok i).2

mutual
  /-- the meaning of a labelled commented document has admissible keys at every dict level -/
  theorem phWF_labelV : ∀ (v : CSrc) (d : Nat) (st : CLabelSt), CSrcWFV d v = true →
      C13.ValidCounter Gen.counterLimit st.counter → st.blockC.length + nBlockV v ≤ 1000000 →
      PhWFV (denPV (labelCV st v).2)
    | .lit l, _, _, _, _, _ => by simp only [labelCV, denPV, PhWFV]
    | .dict items, d, st, h, hc, hb => by
      simp only [CSrcWFV] at h
      simp only [nBlockV] at hb
      simp only [labelCV, denPV, PhWFV]
      exact phWF_labelI items (d + 1) st [] h hc hb (by simp only [PhWFEs])
    | .list xs, _, _, _, _, _ => by simp only [labelCV, denPV, PhWFV]
  theorem phWF_labelI : ∀ (items : List CItem) (d : Nat) (st : CLabelSt) (acc : Entries), CSrcWFItems d items = true →
      C13.ValidCounter Gen.counterLimit st.counter → st.blockC.length + nBlockI items ≤ 1000000 → PhWFEs acc →
      PhWFEs (denPEs (labelCItems st items).2 acc)
    | [], _, _, _, _, _, _, hacc => by simpa only [labelCItems, denPEs] using hacc
    | .entry k v :: r, d, st, acc, h, hc, hb, hacc => by
      simp only [CSrcWFItems, Bool.and_eq_true] at h
      obtain ⟨⟨⟨hk, hkey⟩, hv⟩, hr⟩ := h
      obtain ⟨key, hkey⟩ := Option.isSome_iff_exists.mp hkey
      have hp : isPhTok k = false := (C02.srcWord_facts hk).2.1
      simp only [nBlockI] at hb
      simp only [labelCItems]
      rw [C12.denPEs_cons hp hkey]
      refine phWF_labelI r d _ _ hr (C12.counter_labelV v st hc) (by rw [blockLen_labelV]; omega) ?_
      exact phWFEs_setKey hacc (keyOK_typed hk hkey) (phWF_labelV v d st hv hc (by omega))
    | .lineC x :: r, d, st, acc, h, hc, hb, hacc => by
      simp only [CSrcWFItems, Bool.and_eq_true] at h
      simp only [nBlockI] at hb
      simp only [labelCItems]
      rw [C12.denPEs_cons_ph (isPhTok_linePh _)]
      exact phWF_labelI r d _ _ h.2 (C13.next_valid hc) hb
        (phWFEs_setKey hacc (keyOK_line hc).2 (by simp only [PhWFV]))
    | .blockC x :: r, d, st, acc, h, hc, hb, hacc => by
      simp only [CSrcWFItems, Bool.and_eq_true] at h
      simp only [nBlockI] at hb
      simp only [labelCItems]
      rw [C12.denPEs_cons_ph (isPhTok_blockPh _)]
      refine phWF_labelI r d _ _ h.2 hc ?_
        (phWFEs_setKey hacc (Or.inr (Or.inl ⟨_, by omega, rfl⟩)) (by simp only [PhWFV]))
      simp only [List.length_append, List.length_singleton]; omega
end


section
variable {f : Nat → Nat} (hf : RenOK f)
include hf

mutual
  theorem label_natV : ∀ (v : CSrc) (d : Nat) (st₁ st₂ : CLabelSt), CSrcWFV d v = true → StRel f st₁ st₂ →
      C13.ValidCounter Gen.counterLimit st₁.counter → st₁.blockC.length + nBlockV v ≤ 1000000 →
      StRel f (labelCV st₁ v).1 (labelCV st₂ v).1 ∧
        denPV (labelCV st₂ v).2 = renV f id (denPV (labelCV st₁ v).2)
    | .lit l, _, _, _, h, hs, _, _ => by
      simp only [CSrcWFV, Bool.and_eq_true] at h
      simp only [labelCV, denPV, renV_leaf, renScalar_den f id h.1]
      exact ⟨hs, trivial⟩
    | .dict items, d, st₁, st₂, h, hs, hc, hb => by
      simp only [CSrcWFV] at h
      simp only [nBlockV] at hb
      have := label_natI items (d + 1) st₁ st₂ [] h hs hc hb (fun _ hx => nomatch hx)
      rw [renEs_nil] at this
      simp only [labelCV, denPV, renV_dict]
      exact ⟨this.1, by rw [this.2]⟩
    | .list xs, d, _, _, h, hs, _, _ => by
      simp only [CSrcWFV] at h
      simp only [labelCV, denPV, renV_list, ren_denSrcXs f id xs (d + 1) h]
      exact ⟨hs, trivial⟩
  /-- labelling from two counters related by `f`: the states stay related, and the meanings differ by the renaming -/
  theorem label_natI : ∀ (items : List CItem) (d : Nat) (st₁ st₂ : CLabelSt) (acc : Entries), CSrcWFItems d items = true →
      StRel f st₁ st₂ → C13.ValidCounter Gen.counterLimit st₁.counter → st₁.blockC.length + nBlockI items ≤ 1000000 →
      (∀ x ∈ keys acc, KeyOK x) →
      StRel f (labelCItems st₁ items).1 (labelCItems st₂ items).1 ∧
        denPEs (labelCItems st₂ items).2 (renEs f id acc) = renEs f id (denPEs (labelCItems st₁ items).2 acc)
    | [], _, _, _, _, _, hs, _, _, _ => by
      simp only [labelCItems, denPEs]
      exact ⟨hs, trivial⟩
    | .entry k v :: r, d, st₁, st₂, acc, h, hs, hc, hb, hacc => by
      simp only [CSrcWFItems, Bool.and_eq_true] at h
      obtain ⟨⟨⟨hk, hkey⟩, hv⟩, hr⟩ := h
      obtain ⟨key, hkey⟩ := Option.isSome_iff_exists.mp hkey
      have hp : isPhTok k = false := (C02.srcWord_facts hk).2.1
      simp only [nBlockI] at hb
      have hV := label_natV v d st₁ st₂ hv hs hc (by omega)
      have hkOK := keyOK_typed hk hkey
      have hI := label_natI r d (labelCV st₁ v).1 (labelCV st₂ v).1 (setKey key (denPV (labelCV st₁ v).2) acc) hr hV.1
        (C12.counter_labelV v st₁ hc) (by rw [blockLen_labelV]; omega) (keysOK_setKey hkOK hacc)
      rw [setKey_ren hf renOK_id hkOK _ acc hacc, renKey_noPh f id (C02.Main.typedKey_noPh hk hkey), ← hV.2] at hI
      simp only [labelCItems]
      rw [C12.denPEs_cons hp hkey, C12.denPEs_cons hp hkey]
      exact hI
    | .lineC x :: r, d, st₁, st₂, acc, h, hs, hc, hb, hacc => by
      simp only [CSrcWFItems, Bool.and_eq_true] at h
      simp only [nBlockI] at hb
      obtain ⟨hn1, hn2⟩ := hs.counter.next
      obtain ⟨hi, hkOK⟩ := keyOK_line hc
      have hst : StRel f
          { st₁ with counter := (Counter.next Gen.counterLimit st₁.counter).2,
                     lineC := st₁.lineC.set (Counter.next Gen.counterLimit st₁.counter).1 ('/' :: '/' :: x) }
          { st₂ with counter := (Counter.next Gen.counterLimit st₂.counter).2,
                     lineC := st₂.lineC.set (Counter.next Gen.counterLimit st₂.counter).1 ('/' :: '/' :: x) } :=
        ⟨hn2, by simp only [hs.lineC, ← hn1, renTbl_set hf.inj], hs.blockC⟩
      have hI := label_natI r d _ _
        (setKey (.str (linePh (Counter.next Gen.counterLimit st₁.counter).1))
          (.leaf (.str (linePh (Counter.next Gen.counterLimit st₁.counter).1))) acc) h.2 hst (C13.next_valid hc) hb
        (keysOK_setKey hkOK hacc)
      rw [setKey_ren hf renOK_id hkOK _ acc hacc, renV_leaf] at hI
      simp only [renKey, renScalar, renWord_linePh f id hi, hn1] at hI
      simp only [labelCItems]
      rw [C12.denPEs_cons_ph (isPhTok_linePh _), C12.denPEs_cons_ph (isPhTok_linePh _)]
      exact hI
    | .blockC x :: r, d, st₁, st₂, acc, h, hs, hc, hb, hacc => by
      simp only [CSrcWFItems, Bool.and_eq_true] at h
      simp only [nBlockI] at hb
      have hi : st₁.blockC.length < 1000000 := by omega
      have hkOK : KeyOK (.str (blockPh st₁.blockC.length)) := Or.inr (Or.inl ⟨_, hi, rfl⟩)
      have hst : StRel f
          { st₁ with blockC := st₁.blockC ++ [(st₁.blockC.length, '/' :: '*' :: x ++ ['*', '/'])] }
          { st₂ with blockC := st₂.blockC ++ [(st₂.blockC.length, '/' :: '*' :: x ++ ['*', '/'])] } :=
        ⟨hs.counter, hs.lineC, by simp only [hs.blockC]⟩
      have hI := label_natI r d _ _
        (setKey (.str (blockPh st₁.blockC.length)) (.leaf (.str (blockPh st₁.blockC.length))) acc) h.2 hst hc
        (by simp only [List.length_append, List.length_singleton]; omega) (keysOK_setKey hkOK hacc)
      rw [setKey_ren hf renOK_id hkOK _ acc hacc, renV_leaf] at hI
      simp only [renKey, renScalar, renWord_blockPh f id hi, id] at hI
      simp only [labelCItems]
      rw [C12.denPEs_cons_ph (isPhTok_blockPh _), C12.denPEs_cons_ph (isPhTok_blockPh _), hs.blockC]
      rw [hs.blockC] at hI
      exact hI
end

end


/-! ## 2d. `denC` is natural in the counter -/

theorem denC_unfold (c : Counter) (items : List CItem) :
    denC c items =
      ({ data := denPEs (labelCItems { counter := c } items).2 [],
         lineC := (labelCItems { counter := c } items).1.lineC,
         blockC := (labelCItems { counter := c } items).1.blockC } : SD).clean := rfl

/-- naturality for any renaming that carries the ids drawn from `c₁` to the ids drawn from `c₂` -/
theorem denC_natural_of {f : Nat → Nat} (hf : RenOK f) {d : Nat} {items : List CItem} {c₁ c₂ : Counter}
    (hwf : CSrcWFItems d items = true) (hc₁ : C13.ValidCounter Gen.counterLimit c₁) (hrel : CRel f c₁ c₂)
    (hb : nBlockI items ≤ 1000000) :
    denC c₂ items = renSD f id (denC c₁ items) := by
  have hI := label_natI hf items d { counter := c₁ } { counter := c₂ } [] hwf ⟨hrel, rfl, rfl⟩ hc₁
    (by simpa using hb) (fun _ hx => nomatch hx)
  rw [renEs_nil] at hI
  have hw : PhWFEs (denPEs (labelCItems { counter := c₁ } items).2 []) :=
    phWF_labelI items d { counter := c₁ } [] hwf hc₁ (by simpa using hb) (by simp only [PhWFEs])
  rw [denC_unfold, denC_unfold, ← clean_ren hf renOK_id _ hw]
  congr 1
  exact sd_ext hI.2 rfl hI.1.lineC (by rw [hI.1.blockC]; exact (renTbl_id _).symm) rfl

/-- the rotation of the id space `0 … 999999` that carries the ids handed out from `c₁` to those handed out from `c₂` -/
def shift (c₁ c₂ : Counter) (i : Nat) : Nat :=
  if i < 1000000 then (i + (C13.startOf c₂ % 1000000 + 1000000 - C13.startOf c₁ % 1000000)) % 1000000 else i

theorem shift_ok (c₁ c₂ : Counter) : RenOK (shift c₁ c₂) := by
  refine ⟨fun i j h => ?_, fun i hi => ?_⟩
  · simp only [shift] at h
    split at h <;> split at h <;> omega
  · simp only [shift, hi, if_true]
    omega

/-- the rotation maps the `j`-th id drawn from `c₁` to the `j`-th id drawn from `c₂`, for every `j` (also past the
    wrap-around) -/
theorem shift_rel {c₁ c₂ : Counter} (hc₁ : C13.ValidCounter Gen.counterLimit c₁)
    (hc₂ : C13.ValidCounter Gen.counterLimit c₂) : CRel (shift c₁ c₂) c₁ c₂ := by
  intro k
  rw [C13.alloc_eq_range hc₁, C13.alloc_eq_range hc₂, List.map_map]
  apply List.map_congr_left
  intro j _
  simp only [Function.comp, limit_eq, shift, show 999999 + 1 = 1000000 from rfl]
  rw [if_pos (Nat.mod_lt _ (by decide))]
  omega

/-- **naturality of the comment stages in the counter.**  Two valid counters; the rotation `shift c₁ c₂` of the id space
    is injective, keeps ids six-digit, maps the ids drawn from `c₁` to the ids drawn from `c₂` one by one, and the
    meaning of the document read from `c₂` is the meaning read from `c₁` with the line-comment ids renamed by it
    (block-comment ids are local to the text and are the same in both reads) -/
theorem denC_natural {d : Nat} {items : List CItem} {c₁ c₂ : Counter} (hwf : CSrcWFItems d items = true)
    (hc₁ : C13.ValidCounter Gen.counterLimit c₁) (hc₂ : C13.ValidCounter Gen.counterLimit c₂)
    (hb : nBlockI items ≤ 1000000) :
    Function.Injective (shift c₁ c₂) ∧
      (∀ k, (alloc Gen.counterLimit k c₁).map (shift c₁ c₂) = alloc Gen.counterLimit k c₂) ∧
      denC c₂ items = renSD (shift c₁ c₂) id (denC c₁ items) :=
  ⟨(shift_ok c₁ c₂).inj, shift_rel hc₁ hc₂, denC_natural_of (shift_ok c₁ c₂) hwf hc₁ (shift_rel hc₁ hc₂) hb⟩


/-! ### the ids drawn are `alloc` lists -/

mutual
  theorem counter_labelV_adv : ∀ (v : CSrc) (st : CLabelSt),
      (labelCV st v).1.counter = C02.adv Gen.counterLimit (nLineV v) st.counter
    | .lit l, st => by simp only [labelCV, nLineV, C02.adv]
    | .dict items, st => by simp only [labelCV, nLineV, counter_labelI_adv items st]
    | .list xs, st => by simp only [labelCV, nLineV, C02.adv]
  /-- the counter after the comment stages: advanced once per line comment -/
  theorem counter_labelI_adv : ∀ (items : List CItem) (st : CLabelSt),
      (labelCItems st items).1.counter = C02.adv Gen.counterLimit (nLineI items) st.counter
    | [], st => by simp only [labelCItems, nLineI, C02.adv]
    | .entry k v :: r, st => by
      simp only [labelCItems, nLineI, counter_labelI_adv r _, counter_labelV_adv v st, C02.adv_add]
    | .lineC x :: r, st => by
      simp only [labelCItems, nLineI, counter_labelI_adv r _, Nat.add_comm 1, C02.adv]
    | .blockC x :: r, st => by simp only [labelCItems, nLineI, counter_labelI_adv r _]
end

theorem tbl_set_keys_new {α} (i : Nat) (a : α) : ∀ t : Tbl α, i ∉ t.map (·.1) →
    (Tbl.set i a t).map (·.1) = t.map (·.1) ++ [i]
  | [], _ => rfl
  | (j, b) :: t, h => by
    have hj : ¬ j = i := fun e => h (by simp [e])
    have ih := tbl_set_keys_new i a t (fun hm => h (by simp [hm]))
    simp only [Tbl.set, hj, if_false, List.map_cons, ih, List.cons_append]

mutual
  theorem lineKeys_labelV : ∀ (v : CSrc) (st : CLabelSt),
      (st.lineC.map (·.1) ++ alloc Gen.counterLimit (nLineV v) st.counter).Nodup →
      (labelCV st v).1.lineC.map (·.1) = st.lineC.map (·.1) ++ alloc Gen.counterLimit (nLineV v) st.counter
    | .lit l, st, _ => by simp only [labelCV, nLineV, alloc, List.append_nil]
    | .dict items, st, h => by
      simp only [nLineV] at h
      simp only [labelCV, nLineV, lineKeys_labelI items st h]
    | .list xs, st, _ => by simp only [labelCV, nLineV, alloc, List.append_nil]
  /-- as long as the ids drawn do not collide with each other or with the table, the line-comment table (before
      `_clean`) grows by exactly the `alloc` list of the counter: one entry per line comment, in document order -/
  theorem lineKeys_labelI : ∀ (items : List CItem) (st : CLabelSt),
      (st.lineC.map (·.1) ++ alloc Gen.counterLimit (nLineI items) st.counter).Nodup →
      (labelCItems st items).1.lineC.map (·.1) = st.lineC.map (·.1) ++ alloc Gen.counterLimit (nLineI items) st.counter
    | [], st, _ => by simp only [labelCItems, nLineI, alloc, List.append_nil]
    | .entry k v :: r, st, h => by
      simp only [nLineI, C02.alloc_add, ← List.append_assoc] at h
      have hv := lineKeys_labelV v st (List.Nodup.sublist (List.sublist_append_left _ _) h)
      rw [← hv, ← counter_labelV_adv v st] at h
      simp only [labelCItems, nLineI, C02.alloc_add]
      rw [lineKeys_labelI r _ h, hv, counter_labelV_adv v st, List.append_assoc]
    | .lineC x :: r, st, h => by
      simp only [nLineI, Nat.add_comm 1, C13.alloc_succ] at h
      have hi : (Counter.next Gen.counterLimit st.counter).1 ∉ st.lineC.map (·.1) := by
        intro hm
        exact (List.nodup_append.mp h).2.2 _ hm _ List.mem_cons_self rfl
      have hk := tbl_set_keys_new (Counter.next Gen.counterLimit st.counter).1 ('/' :: '/' :: x) st.lineC hi
      simp only [labelCItems, nLineI, Nat.add_comm 1, C13.alloc_succ]
      rw [lineKeys_labelI r _ (by rw [hk, List.append_assoc]; exact h), hk, List.append_assoc]
      rfl
    | .blockC x :: r, st, h => by
      simp only [nLineI] at h
      simp only [labelCItems, nLineI]
      exact lineKeys_labelI r _ h
end

/-- **the ids drawn are an `alloc` list**: with at most `limit + 1` line comments, the line-comment table the comment
    stages build (before `_clean`) is keyed by the ids `alloc limit n c`, `n` the number of line comments, in document
    order; the counter afterwards is `c` advanced `n` times -/
theorem drawn_ids {items : List CItem} {c : Counter} (hc : C13.ValidCounter Gen.counterLimit c)
    (hn : nLineI items ≤ Gen.counterLimit + 1) :
    (labelCItems { counter := c } items).1.lineC.map (·.1) = alloc Gen.counterLimit (nLineI items) c ∧
      (labelCItems { counter := c } items).1.counter = C02.adv Gen.counterLimit (nLineI items) c := by
  refine ⟨?_, counter_labelI_adv items _⟩
  have := lineKeys_labelI items { counter := c } (by simpa using C13.alloc_nodup hn hc)
  simpa using this

/-! ## 3. the reader: two reads of the same text from two counter values -/

/-- the counter after the read (`C12_read_commented`): advanced by the line comments, then by the quoted strings -/
def counterAfter (c : Counter) (items : List CItem) : Counter :=
  C02.adv Gen.counterLimit (C02.countQuotedEs (plainItems items)) (labelCItems { counter := c } items).1.counter

/-- **C08 for commented documents.**  For every well-formed commented document in every admissible layout, every
    directory and every two valid counter values, both reads succeed, and the second result is the first one with the
    line-comment ids renamed by the rotation `shift c₁ c₂` (data: keys and string leaves; line-comment table re-keyed;
    block-comment table, whose ids are local to the text, identical).
    Hypotheses: those of `C12_read_commented` (for both counters), and at most one million block comments. -/
theorem C08_commented_read_natural {items : List CItem} {gaps : List Str} {tail : Str} (dir : Str) {c₁ c₂ : Counter}
    (hwf : CSrcWFItems 1 items = true) (hg : GapsOKC (ctoksItems items) gaps tail = true)
    (htail : items = [] → tail.all isWs = true)
    (hc₁ : C13.ValidCounter Gen.counterLimit c₁) (hc₂ : C13.ValidCounter Gen.counterLimit c₂)
    (hn : C02.countQuotedEs (plainItems items) ≤ Gen.counterLimit + 1)
    (hd : C02.DocKeysAbsent (plainItems items)) (hb : nBlockI items ≤ 1000000) :
    parseNative true dir c₁ (spreadC (ctoksItems items) gaps tail) = .ok (denC c₁ items, counterAfter c₁ items) ∧
    parseNative true dir c₂ (spreadC (ctoksItems items) gaps tail) =
      .ok (renSD (shift c₁ c₂) id (denC c₁ items), counterAfter c₂ items) := by
  refine ⟨C12.C12_read_commented dir c₁ hwf hg htail hc₁ hn hd, ?_⟩
  rw [C12.C12_read_commented dir c₂ hwf hg htail hc₂ hn hd, (denC_natural hwf hc₁ hc₂ hb).2.2]
  rfl

theorem CRel.adv {f : Nat → Nat} : ∀ (k : Nat) {c₁ c₂ : Counter}, CRel f c₁ c₂ →
    CRel f (C02.adv Gen.counterLimit k c₁) (C02.adv Gen.counterLimit k c₂)
  | 0, _, _, h => h
  | k + 1, _, _, h => by simp only [C02.adv]; exact CRel.adv k h.next.2

/-- the counters the two reads leave behind are related by the same rotation: a *sequence* of reads from `c₁` and the
    same sequence from `c₂` stay related by `shift c₁ c₂` -/
theorem counterAfter_rel {c₁ c₂ : Counter} (items : List CItem) (hc₁ : C13.ValidCounter Gen.counterLimit c₁)
    (hc₂ : C13.ValidCounter Gen.counterLimit c₂) :
    CRel (shift c₁ c₂) (counterAfter c₁ items) (counterAfter c₂ items) := by
  simp only [counterAfter, counter_labelI_adv]
  exact CRel.adv _ (CRel.adv _ (shift_rel hc₁ hc₂))

/-- what the renaming leaves alone: the comment texts in table order, and the whole block-comment table -/
theorem renSD_texts (f : Nat → Nat) (sd : SD) :
    (renSD f id sd).lineC.map (·.2) = sd.lineC.map (·.2) ∧ (renSD f id sd).blockC = sd.blockC ∧
      (renSD f id sd).exprs = sd.exprs ∧ (renSD f id sd).incl = sd.incl :=
  ⟨renTbl_texts f _, renTbl_id _, rfl, rfl⟩

/-- corollary: the data with the comment entries stripped, the line-comment texts in table order and the block-comment
    table are *equal* in the two reads -/
theorem C08_commented_read_stripped {items : List CItem} {gaps : List Str} {tail : Str} (dir : Str) {c₁ c₂ : Counter}
    (hwf : CSrcWFItems 1 items = true) (hg : GapsOKC (ctoksItems items) gaps tail = true)
    (htail : items = [] → tail.all isWs = true)
    (hc₁ : C13.ValidCounter Gen.counterLimit c₁) (hc₂ : C13.ValidCounter Gen.counterLimit c₂)
    (hn : C02.countQuotedEs (plainItems items) ≤ Gen.counterLimit + 1)
    (hd : C02.DocKeysAbsent (plainItems items)) (hb : nBlockI items ≤ 1000000) :
    ∃ sd₁ sd₂ c₁' c₂',
      parseNative true dir c₁ (spreadC (ctoksItems items) gaps tail) = .ok (sd₁, c₁') ∧
      parseNative true dir c₂ (spreadC (ctoksItems items) gaps tail) = .ok (sd₂, c₂') ∧
      C12.stripPhEs sd₂.data = C12.stripPhEs sd₁.data ∧
      sd₂.lineC.map (·.2) = sd₁.lineC.map (·.2) ∧ sd₂.blockC = sd₁.blockC := by
  obtain ⟨h₁, h₂⟩ := C08_commented_read_natural dir hwf hg htail hc₁ hc₂ hn hd hb
  refine ⟨_, _, _, _, h₁, h₂, ?_, (renSD_texts _ _).1, (renSD_texts _ _).2.1⟩
  rw [← (denC_natural hwf hc₁ hc₂ hb).2.2, C12.C12_data_on_off c₂ hwf, C12.C12_data_on_off c₁ hwf,
    C12.denCoff_data c₂ hwf, C12.denCoff_data c₁ hwf]


/-! ## 4. the canonical form: ids replaced by their rank of first appearance -/

/-- the id of kind `kw` a word carries, if it is a placeholder word of that kind -/
def wordIds (kw s : Str) : List Nat := (phIdOf kw s).toList

def keyIds (kw : Str) : Key → List Nat
  | .str s => wordIds kw s
  | .int _ => []

def scalarIds (kw : Str) : Scalar → List Nat
  | .str s => wordIds kw s
  | _ => []

mutual
  /-- the placeholder ids of kind `kw` in a value, in the fixed traversal: entries in order, key before value -/
  def idsV (kw : Str) : Val → List Nat
    | .leaf x => scalarIds kw x
    | .dict es => idsEs kw es
    | .list xs => idsXs kw xs
  def idsEs (kw : Str) : Entries → List Nat
    | [] => []
    | (k, v) :: es => keyIds kw k ++ idsV kw v ++ idsEs kw es
  def idsXs (kw : Str) : List Val → List Nat
    | [] => []
    | v :: xs => idsV kw v ++ idsXs kw xs
end

/-- rank of first appearance of `i` in `ids` -/
def rankOf (ids : List Nat) (i : Nat) : Nat := ids.eraseDups.idxOf i

/-- all line-comment ids of an `SDict`: those in the data (traversal order), then the keys of the table -/
def lineIdsSD (sd : SD) : List Nat := idsEs kwLine sd.data ++ sd.lineC.map (·.1)
def blockIdsSD (sd : SD) : List Nat := idsEs kwBlock sd.data ++ sd.blockC.map (·.1)

/-- the canonical form: every line-comment id replaced by its rank of first appearance among the line-comment ids,
    every block-comment id by its rank among the block-comment ids; tables re-keyed accordingly -/
def canonSD (sd : SD) : SD := renSD (rankOf (lineIdsSD sd)) (rankOf (blockIdsSD sd)) sd

theorem idsEs_nil (kw : Str) : idsEs kw [] = [] := by simp only [idsEs]
theorem idsEs_cons (kw : Str) (k : Key) (v : Val) (es : Entries) :
    idsEs kw ((k, v) :: es) = keyIds kw k ++ idsV kw v ++ idsEs kw es := by simp only [idsEs]
theorem idsXs_nil (kw : Str) : idsXs kw [] = [] := by simp only [idsXs]
theorem idsXs_cons (kw : Str) (v : Val) (xs : List Val) : idsXs kw (v :: xs) = idsV kw v ++ idsXs kw xs := by
  simp only [idsXs]
theorem idsV_leaf (kw : Str) (x : Scalar) : idsV kw (.leaf x) = scalarIds kw x := by simp only [idsV]
theorem idsV_dict (kw : Str) (es : Entries) : idsV kw (.dict es) = idsEs kw es := by simp only [idsV]
theorem idsV_list (kw : Str) (xs : List Val) : idsV kw (.list xs) = idsXs kw xs := by simp only [idsV]

/-! ### words -/

theorem mem_wordIds {kw s : Str} {i : Nat} : i ∈ wordIds kw s ↔ phIdOf kw s = some i := by
  simp [wordIds, Option.mem_toList]

theorem wordIds_line_ren (f g : Nat → Nat) (s : Str) (hb : ∀ i ∈ wordIds kwLine s, f i < 1000000) :
    wordIds kwLine (renWord f g s) = (wordIds kwLine s).map f := by
  rcases renWord_spec f g s with ⟨i, hi, e, h⟩ | ⟨i, hi, e, h⟩ | ⟨h1, h2, h⟩
  · have hfi := hb i (mem_wordIds.mpr (by rw [e]; exact phIdOf_line_linePh hi))
    rw [h, e]
    simp only [wordIds, phIdOf_line_linePh hi, phIdOf_line_linePh hfi, Option.toList_some, List.map_cons, List.map_nil]
  · rw [h, e]
    simp only [wordIds, phIdOf_line_blockPh, Option.toList_none, List.map_nil]
  · rw [h]
    have : phIdOf kwLine s = none := by
      cases hp : phIdOf kwLine s with
      | none => rfl
      | some i => exact absurd (phIdOf_some hp).2 (h1 i (phIdOf_some hp).1)
    simp only [wordIds, this, Option.toList_none, List.map_nil]

theorem wordIds_block_ren (f g : Nat → Nat) (s : Str) (hb : ∀ i ∈ wordIds kwBlock s, g i < 1000000) :
    wordIds kwBlock (renWord f g s) = (wordIds kwBlock s).map g := by
  rcases renWord_spec f g s with ⟨i, hi, e, h⟩ | ⟨i, hi, e, h⟩ | ⟨h1, h2, h⟩
  · rw [h, e]
    simp only [wordIds, phIdOf_block_linePh, Option.toList_none, List.map_nil]
  · have hgi := hb i (mem_wordIds.mpr (by rw [e]; exact phIdOf_block_blockPh hi))
    rw [h, e]
    simp only [wordIds, phIdOf_block_blockPh hi, phIdOf_block_blockPh hgi, Option.toList_some, List.map_cons, List.map_nil]
  · rw [h]
    have : phIdOf kwBlock s = none := by
      cases hp : phIdOf kwBlock s with
      | none => rfl
      | some i => exact absurd (phIdOf_some hp).2 (h2 i (phIdOf_some hp).1)
    simp only [wordIds, this, Option.toList_none, List.map_nil]

theorem renWord_comp (F G f g : Nat → Nat) (s : Str) (hl : ∀ i ∈ wordIds kwLine s, f i < 1000000)
    (hb : ∀ i ∈ wordIds kwBlock s, g i < 1000000) :
    renWord F G (renWord f g s) = renWord (F ∘ f) (G ∘ g) s := by
  rcases renWord_spec f g s with ⟨i, hi, e, h⟩ | ⟨i, hi, e, h⟩ | ⟨h1, h2, h⟩
  · have hfi := hl i (mem_wordIds.mpr (by rw [e]; exact phIdOf_line_linePh hi))
    rw [h, e, renWord_linePh F G hfi, renWord_linePh _ _ hi]; rfl
  · have hgi := hb i (mem_wordIds.mpr (by rw [e]; exact phIdOf_block_blockPh hi))
    rw [h, e, renWord_blockPh F G hgi, renWord_blockPh _ _ hi]; rfl
  · rw [h]
    rcases renWord_spec F G s with ⟨i, hi, e, _⟩ | ⟨i, hi, e, _⟩ | ⟨_, _, h'⟩
    · exact absurd e (h1 i hi)
    · exact absurd e (h2 i hi)
    · rw [h']
      rcases renWord_spec (F ∘ f) (G ∘ g) s with ⟨i, hi, e, _⟩ | ⟨i, hi, e, _⟩ | ⟨_, _, h''⟩
      · exact absurd e (h1 i hi)
      · exact absurd e (h2 i hi)
      · exact h''.symm

theorem renWord_congr {F G F' G' : Nat → Nat} (s : Str) (hl : ∀ i ∈ wordIds kwLine s, F i = F' i)
    (hb : ∀ i ∈ wordIds kwBlock s, G i = G' i) : renWord F G s = renWord F' G' s := by
  rcases renWord_spec F G s with ⟨i, hi, e, h⟩ | ⟨i, hi, e, h⟩ | ⟨h1, h2, h⟩
  · rw [h, e, renWord_linePh _ _ hi, hl i (mem_wordIds.mpr (by rw [e]; exact phIdOf_line_linePh hi))]
  · rw [h, e, renWord_blockPh _ _ hi, hb i (mem_wordIds.mpr (by rw [e]; exact phIdOf_block_blockPh hi))]
  · rw [h]
    rcases renWord_spec F' G' s with ⟨i, hi, e, _⟩ | ⟨i, hi, e, _⟩ | ⟨_, _, h'⟩
    · exact absurd e (h1 i hi)
    · exact absurd e (h2 i hi)
    · exact h'.symm


/-! ### values -/

/-- the word-level fact `wordIds_line_ren` / `wordIds_block_ren`, abstracted over the kind -/
def WordNat (kw : Str) (h f g : Nat → Nat) : Prop :=
  ∀ s, (∀ i ∈ wordIds kw s, h i < 1000000) → wordIds kw (renWord f g s) = (wordIds kw s).map h

theorem wordNat_line (f g : Nat → Nat) : WordNat kwLine f f g := wordIds_line_ren f g
theorem wordNat_block (f g : Nat → Nat) : WordNat kwBlock g f g := wordIds_block_ren f g

theorem keyIds_ren {kw : Str} {h f g : Nat → Nat} (hw : WordNat kw h f g) (k : Key)
    (hb : ∀ i ∈ keyIds kw k, h i < 1000000) : keyIds kw (renKey f g k) = (keyIds kw k).map h := by
  cases k with
  | int z => rfl
  | str s => exact hw s hb

theorem scalarIds_ren {kw : Str} {h f g : Nat → Nat} (hw : WordNat kw h f g) (x : Scalar)
    (hb : ∀ i ∈ scalarIds kw x, h i < 1000000) : scalarIds kw (renScalar f g x) = (scalarIds kw x).map h := by
  cases x with
  | str s => exact hw s hb
  | _ => rfl

mutual
  theorem idsV_ren {kw : Str} {h f g : Nat → Nat} (hw : WordNat kw h f g) : ∀ (v : Val),
      (∀ i ∈ idsV kw v, h i < 1000000) → idsV kw (renV f g v) = (idsV kw v).map h
    | .leaf x, hb => by
      rw [idsV_leaf] at hb
      rw [renV_leaf, idsV_leaf, idsV_leaf, scalarIds_ren hw x hb]
    | .dict es, hb => by
      rw [idsV_dict] at hb
      rw [renV_dict, idsV_dict, idsV_dict, idsEs_ren hw es hb]
    | .list xs, hb => by
      rw [idsV_list] at hb
      rw [renV_list, idsV_list, idsV_list, idsXs_ren hw xs hb]
  theorem idsEs_ren {kw : Str} {h f g : Nat → Nat} (hw : WordNat kw h f g) : ∀ (es : Entries),
      (∀ i ∈ idsEs kw es, h i < 1000000) → idsEs kw (renEs f g es) = (idsEs kw es).map h
    | [], _ => by rw [renEs_nil, idsEs_nil, List.map_nil]
    | (k, v) :: es, hb => by
      rw [idsEs_cons] at hb
      rw [renEs_cons, idsEs_cons, idsEs_cons, List.map_append, List.map_append,
        keyIds_ren hw k (fun i hi => hb i (by simp [hi])),
        idsV_ren hw v (fun i hi => hb i (by simp [hi])),
        idsEs_ren hw es (fun i hi => hb i (by simp [hi]))]
  theorem idsXs_ren {kw : Str} {h f g : Nat → Nat} (hw : WordNat kw h f g) : ∀ (xs : List Val),
      (∀ i ∈ idsXs kw xs, h i < 1000000) → idsXs kw (renXs f g xs) = (idsXs kw xs).map h
    | [], _ => by rw [renXs_nil, idsXs_nil, List.map_nil]
    | v :: xs, hb => by
      rw [idsXs_cons] at hb
      rw [renXs_cons, idsXs_cons, idsXs_cons, List.map_append,
        idsV_ren hw v (fun i hi => hb i (by simp [hi])),
        idsXs_ren hw xs (fun i hi => hb i (by simp [hi]))]
end

theorem renKey_comp (F G f g : Nat → Nat) (k : Key) (hl : ∀ i ∈ keyIds kwLine k, f i < 1000000)
    (hb : ∀ i ∈ keyIds kwBlock k, g i < 1000000) :
    renKey F G (renKey f g k) = renKey (F ∘ f) (G ∘ g) k := by
  cases k with
  | int z => rfl
  | str s => simp only [renKey]; rw [renWord_comp F G f g s hl hb]

theorem renScalar_comp (F G f g : Nat → Nat) (x : Scalar) (hl : ∀ i ∈ scalarIds kwLine x, f i < 1000000)
    (hb : ∀ i ∈ scalarIds kwBlock x, g i < 1000000) :
    renScalar F G (renScalar f g x) = renScalar (F ∘ f) (G ∘ g) x := by
  cases x with
  | str s => simp only [renScalar]; rw [renWord_comp F G f g s hl hb]
  | _ => rfl

mutual
  theorem renV_comp (F G f g : Nat → Nat) : ∀ (v : Val), (∀ i ∈ idsV kwLine v, f i < 1000000) →
      (∀ i ∈ idsV kwBlock v, g i < 1000000) → renV F G (renV f g v) = renV (F ∘ f) (G ∘ g) v
    | .leaf x, hl, hb => by
      rw [idsV_leaf] at hl hb
      rw [renV_leaf, renV_leaf, renV_leaf, renScalar_comp F G f g x hl hb]
    | .dict es, hl, hb => by
      rw [idsV_dict] at hl hb
      rw [renV_dict, renV_dict, renV_dict, renEs_comp F G f g es hl hb]
    | .list xs, hl, hb => by
      rw [idsV_list] at hl hb
      rw [renV_list, renV_list, renV_list, renXs_comp F G f g xs hl hb]
  theorem renEs_comp (F G f g : Nat → Nat) : ∀ (es : Entries), (∀ i ∈ idsEs kwLine es, f i < 1000000) →
      (∀ i ∈ idsEs kwBlock es, g i < 1000000) → renEs F G (renEs f g es) = renEs (F ∘ f) (G ∘ g) es
    | [], _, _ => by rw [renEs_nil, renEs_nil, renEs_nil]
    | (k, v) :: es, hl, hb => by
      rw [idsEs_cons] at hl hb
      rw [renEs_cons, renEs_cons, renEs_cons,
        renKey_comp F G f g k (fun i hi => hl i (by simp [hi])) (fun i hi => hb i (by simp [hi])),
        renV_comp F G f g v (fun i hi => hl i (by simp [hi])) (fun i hi => hb i (by simp [hi])),
        renEs_comp F G f g es (fun i hi => hl i (by simp [hi])) (fun i hi => hb i (by simp [hi]))]
  theorem renXs_comp (F G f g : Nat → Nat) : ∀ (xs : List Val), (∀ i ∈ idsXs kwLine xs, f i < 1000000) →
      (∀ i ∈ idsXs kwBlock xs, g i < 1000000) → renXs F G (renXs f g xs) = renXs (F ∘ f) (G ∘ g) xs
    | [], _, _ => by rw [renXs_nil, renXs_nil, renXs_nil]
    | v :: xs, hl, hb => by
      rw [idsXs_cons] at hl hb
      rw [renXs_cons, renXs_cons, renXs_cons,
        renV_comp F G f g v (fun i hi => hl i (by simp [hi])) (fun i hi => hb i (by simp [hi])),
        renXs_comp F G f g xs (fun i hi => hl i (by simp [hi])) (fun i hi => hb i (by simp [hi]))]
end

theorem renKey_congr {F G F' G' : Nat → Nat} (k : Key) (hl : ∀ i ∈ keyIds kwLine k, F i = F' i)
    (hb : ∀ i ∈ keyIds kwBlock k, G i = G' i) : renKey F G k = renKey F' G' k := by
  cases k with
  | int z => rfl
  | str s => simp only [renKey]; rw [renWord_congr s hl hb]

theorem renScalar_congr {F G F' G' : Nat → Nat} (x : Scalar) (hl : ∀ i ∈ scalarIds kwLine x, F i = F' i)
    (hb : ∀ i ∈ scalarIds kwBlock x, G i = G' i) : renScalar F G x = renScalar F' G' x := by
  cases x with
  | str s => simp only [renScalar]; rw [renWord_congr s hl hb]
  | _ => rfl

mutual
  theorem renV_congr {F G F' G' : Nat → Nat} : ∀ (v : Val), (∀ i ∈ idsV kwLine v, F i = F' i) →
      (∀ i ∈ idsV kwBlock v, G i = G' i) → renV F G v = renV F' G' v
    | .leaf x, hl, hb => by
      rw [idsV_leaf] at hl hb
      rw [renV_leaf, renV_leaf, renScalar_congr x hl hb]
    | .dict es, hl, hb => by
      rw [idsV_dict] at hl hb
      rw [renV_dict, renV_dict, renEs_congr es hl hb]
    | .list xs, hl, hb => by
      rw [idsV_list] at hl hb
      rw [renV_list, renV_list, renXs_congr xs hl hb]
  theorem renEs_congr {F G F' G' : Nat → Nat} : ∀ (es : Entries), (∀ i ∈ idsEs kwLine es, F i = F' i) →
      (∀ i ∈ idsEs kwBlock es, G i = G' i) → renEs F G es = renEs F' G' es
    | [], _, _ => by rw [renEs_nil, renEs_nil]
    | (k, v) :: es, hl, hb => by
      rw [idsEs_cons] at hl hb
      rw [renEs_cons, renEs_cons,
        renKey_congr k (fun i hi => hl i (by simp [hi])) (fun i hi => hb i (by simp [hi])),
        renV_congr v (fun i hi => hl i (by simp [hi])) (fun i hi => hb i (by simp [hi])),
        renEs_congr es (fun i hi => hl i (by simp [hi])) (fun i hi => hb i (by simp [hi]))]
  theorem renXs_congr {F G F' G' : Nat → Nat} : ∀ (xs : List Val), (∀ i ∈ idsXs kwLine xs, F i = F' i) →
      (∀ i ∈ idsXs kwBlock xs, G i = G' i) → renXs F G xs = renXs F' G' xs
    | [], _, _ => by rw [renXs_nil, renXs_nil]
    | v :: xs, hl, hb => by
      rw [idsXs_cons] at hl hb
      rw [renXs_cons, renXs_cons,
        renV_congr v (fun i hi => hl i (by simp [hi])) (fun i hi => hb i (by simp [hi])),
        renXs_congr xs (fun i hi => hl i (by simp [hi])) (fun i hi => hb i (by simp [hi]))]
end


/-! ### tables, ranks, and the invariance of the canonical form -/

theorem renTbl_comp {α} (F f : Nat → Nat) (t : Tbl α) : renTbl F (renTbl f t) = renTbl (F ∘ f) t := by
  simp only [renTbl, List.map_map]; rfl

theorem renTbl_congr {α} {F F' : Nat → Nat} (t : Tbl α) (h : ∀ i ∈ t.map (·.1), F i = F' i) : renTbl F t = renTbl F' t := by
  simp only [renTbl]
  apply List.map_congr_left
  intro e he
  rw [h e.1 (List.mem_map_of_mem (f := (·.1)) he)]

theorem renTbl_keys {α} (f : Nat → Nat) (t : Tbl α) : (renTbl f t).map (·.1) = (t.map (·.1)).map f := by
  simp only [renTbl, List.map_map]; rfl

/-- the rank of first appearance is invariant under a renaming that is injective on the list -/
theorem rankOf_map {f : Nat → Nat} {L : List Nat} (hinj : ∀ a ∈ L, ∀ b ∈ L, f a = f b → a = b) {i : Nat} (hi : i ∈ L) :
    rankOf (L.map f) (f i) = rankOf L i := by
  simp only [rankOf]
  rw [C13.eraseDups_map_injOn L.length L (Nat.le_refl _) hinj]
  apply C13.idxOf_map_injOn
  have hmem : ∀ x ∈ i :: L.eraseDups, x ∈ L := by
    intro x hx
    rcases List.mem_cons.mp hx with rfl | hx
    · exact hi
    · exact List.mem_eraseDups.mp hx
  exact fun a ha b hb => hinj a (hmem a ha) b (hmem b hb)

/-- **the canonical form forgets the ids**: it is invariant under every renaming that is injective on the ids occurring
    in the `SDict` (data and table keys, per kind) and keeps the ids occurring in the data six-digit -/
theorem canonSD_ren (f g : Nat → Nat) (sd : SD)
    (hfi : ∀ a ∈ lineIdsSD sd, ∀ b ∈ lineIdsSD sd, f a = f b → a = b)
    (hfb : ∀ a ∈ idsEs kwLine sd.data, f a < 1000000)
    (hgi : ∀ a ∈ blockIdsSD sd, ∀ b ∈ blockIdsSD sd, g a = g b → a = b)
    (hgb : ∀ a ∈ idsEs kwBlock sd.data, g a < 1000000) :
    canonSD (renSD f g sd) = canonSD sd := by
  have hL : lineIdsSD (renSD f g sd) = (lineIdsSD sd).map f := by
    simp only [lineIdsSD, renSD, List.map_append, idsEs_ren (wordNat_line f g) sd.data hfb, renTbl_keys]
  have hB : blockIdsSD (renSD f g sd) = (blockIdsSD sd).map g := by
    simp only [blockIdsSD, renSD, List.map_append, idsEs_ren (wordNat_block f g) sd.data hgb, renTbl_keys]
  simp only [canonSD]
  rw [hL, hB]
  have eL : ∀ i ∈ lineIdsSD sd, (rankOf ((lineIdsSD sd).map f) ∘ f) i = rankOf (lineIdsSD sd) i :=
    fun i hi => rankOf_map hfi hi
  have eB : ∀ i ∈ blockIdsSD sd, (rankOf ((blockIdsSD sd).map g) ∘ g) i = rankOf (blockIdsSD sd) i :=
    fun i hi => rankOf_map hgi hi
  apply sd_ext
  · show renEs _ _ (renEs f g sd.data) = renEs _ _ sd.data
    rw [renEs_comp _ _ f g sd.data hfb hgb]
    exact renEs_congr sd.data (fun i hi => eL i (List.mem_append_left _ hi)) (fun i hi => eB i (List.mem_append_left _ hi))
  · rfl
  · show renTbl _ (renTbl f sd.lineC) = renTbl _ sd.lineC
    rw [renTbl_comp]
    exact renTbl_congr _ (fun i hi => eL i (List.mem_append_right _ hi))
  · show renTbl _ (renTbl g sd.blockC) = renTbl _ sd.blockC
    rw [renTbl_comp]
    exact renTbl_congr _ (fun i hi => eB i (List.mem_append_right _ hi))
  · rfl

mutual
  theorem idsV_lt (kw : Str) : ∀ (v : Val), ∀ a ∈ idsV kw v, a < 1000000
    | .leaf x, a, ha => by
      rw [idsV_leaf] at ha
      cases x with
      | str s => exact (phIdOf_some (mem_wordIds.mp ha)).1
      | _ => cases ha
    | .dict es, a, ha => by rw [idsV_dict] at ha; exact idsEs_lt kw es a ha
    | .list xs, a, ha => by rw [idsV_list] at ha; exact idsXs_lt kw xs a ha
  theorem idsEs_lt (kw : Str) : ∀ (es : Entries), ∀ a ∈ idsEs kw es, a < 1000000
    | [], a, ha => by rw [idsEs_nil] at ha; cases ha
    | (k, v) :: es, a, ha => by
      rw [idsEs_cons, List.mem_append, List.mem_append] at ha
      rcases ha with (ha | ha) | ha
      · cases k with
        | str s => exact (phIdOf_some (mem_wordIds.mp ha)).1
        | int z => cases ha
      · exact idsV_lt kw v a ha
      · exact idsEs_lt kw es a ha
  theorem idsXs_lt (kw : Str) : ∀ (xs : List Val), ∀ a ∈ idsXs kw xs, a < 1000000
    | [], a, ha => by rw [idsXs_nil] at ha; cases ha
    | v :: xs, a, ha => by
      rw [idsXs_cons, List.mem_append] at ha
      rcases ha with ha | ha
      · exact idsV_lt kw v a ha
      · exact idsXs_lt kw xs a ha
end

/-- the version for renamings that are injective everywhere -/
theorem canonSD_ren' {f g : Nat → Nat} (hf : RenOK f) (hg : RenOK g) (sd : SD) :
    canonSD (renSD f g sd) = canonSD sd :=
  canonSD_ren f g sd (fun _ _ _ _ e => hf.inj e) (fun a ha => hf.lt a (idsEs_lt _ _ a ha)) (fun _ _ _ _ e => hg.inj e)
    (fun a ha => hg.lt a (idsEs_lt _ _ a ha))

/-- **the canonical forms of the meanings from two counters are equal** -/
theorem C08_denC_canon {d : Nat} {items : List CItem} {c₁ c₂ : Counter} (hwf : CSrcWFItems d items = true)
    (hc₁ : C13.ValidCounter Gen.counterLimit c₁) (hc₂ : C13.ValidCounter Gen.counterLimit c₂)
    (hb : nBlockI items ≤ 1000000) :
    canonSD (denC c₂ items) = canonSD (denC c₁ items) := by
  rw [(denC_natural hwf hc₁ hc₂ hb).2.2, canonSD_ren' (shift_ok c₁ c₂) renOK_id]

/-- **C08, commented documents, canonical form** (what the harness compares on the real code): the canonical forms of
    the results of two reads of the same text from two valid counter values are equal; both reads succeed -/
theorem C08_commented_canon {items : List CItem} {gaps : List Str} {tail : Str} (dir : Str) {c₁ c₂ : Counter}
    (hwf : CSrcWFItems 1 items = true) (hg : GapsOKC (ctoksItems items) gaps tail = true)
    (htail : items = [] → tail.all isWs = true)
    (hc₁ : C13.ValidCounter Gen.counterLimit c₁) (hc₂ : C13.ValidCounter Gen.counterLimit c₂)
    (hn : C02.countQuotedEs (plainItems items) ≤ Gen.counterLimit + 1)
    (hd : C02.DocKeysAbsent (plainItems items)) (hb : nBlockI items ≤ 1000000) :
    (parseNative true dir c₁ (spreadC (ctoksItems items) gaps tail)).map (fun r => canonSD r.1) =
        .ok (canonSD (denC c₁ items)) ∧
      (parseNative true dir c₂ (spreadC (ctoksItems items) gaps tail)).map (fun r => canonSD r.1) =
        .ok (canonSD (denC c₁ items)) := by
  obtain ⟨h₁, h₂⟩ := C08_commented_read_natural dir hwf hg htail hc₁ hc₂ hn hd hb
  rw [h₁, h₂]
  exact ⟨rfl, by simp only [Except.map]; rw [canonSD_ren' (shift_ok c₁ c₂) renOK_id]⟩


/-- … in the form "the same whatever value the counter has reached" -/
theorem C08_commented_canon_eq {items : List CItem} {gaps : List Str} {tail : Str} (dir : Str) {c₁ c₂ : Counter}
    (hwf : CSrcWFItems 1 items = true) (hg : GapsOKC (ctoksItems items) gaps tail = true)
    (htail : items = [] → tail.all isWs = true)
    (hc₁ : C13.ValidCounter Gen.counterLimit c₁) (hc₂ : C13.ValidCounter Gen.counterLimit c₂)
    (hn : C02.countQuotedEs (plainItems items) ≤ Gen.counterLimit + 1)
    (hd : C02.DocKeysAbsent (plainItems items)) (hb : nBlockI items ≤ 1000000) :
    (parseNative true dir c₁ (spreadC (ctoksItems items) gaps tail)).map (fun r => canonSD r.1) =
      (parseNative true dir c₂ (spreadC (ctoksItems items) gaps tail)).map (fun r => canonSD r.1) := by
  obtain ⟨h₁, h₂⟩ := C08_commented_canon dir hwf hg htail hc₁ hc₂ hn hd hb
  rw [h₁, h₂]

/-! ## 5. non-vacuity: the example document of `C12stages`, read from a fresh counter and from `999998`
    (the wrap-around falls between the first and the second line comment) -/

open DictIO.C12 (exDoc exGaps exDoc_wf exGaps_ok)

theorem exDoc_blocks : nBlockI exDoc ≤ 1000000 := by decide +kernel

theorem ex_valid : C13.ValidCounter Gen.counterLimit (some 999998) := Or.inr ⟨999998, rfl, by decide⟩

/-- both reads succeed and differ by the renaming -/
theorem exDoc_reads (dir : Str) :
    parseNative true dir none (spreadC (ctoksItems exDoc) exGaps ['\n']) =
      .ok (denC none exDoc, counterAfter none exDoc) ∧
    parseNative true dir (some 999998) (spreadC (ctoksItems exDoc) exGaps ['\n']) =
      .ok (renSD (shift none (some 999998)) id (denC none exDoc), counterAfter (some 999998) exDoc) :=
  C08_commented_read_natural dir exDoc_wf exGaps_ok (fun h => by cases h) (Or.inl rfl) ex_valid (by decide +kernel)
    (by decide +kernel) exDoc_blocks

/-- the rotation on the example: `0 ↦ 999999`, `1 ↦ 0`, `2 ↦ 1` … -/
theorem exDoc_shift : (alloc Gen.counterLimit 5 none).map (shift none (some 999998)) = [999999, 0, 1, 2, 3] ∧
    alloc Gen.counterLimit 5 (some 999998) = [999999, 0, 1, 2, 3] := by decide +kernel

/-- the read from the fresh counter, evaluated: ids 0, 1, 2 survive `_clean` (3 and 4 repeat a text of their level) -/
theorem exDoc_none :
    (denC none exDoc).data =
      [ (.str "LINECOMMENT000000".toList, .leaf (.str "LINECOMMENT000000".toList)),
        (.str "BLOCKCOMMENT000000".toList, .leaf (.str "BLOCKCOMMENT000000".toList)),
        (.str ['a'], .leaf (.int 1)),
        (.str "LINECOMMENT000001".toList, .leaf (.str "LINECOMMENT000001".toList)),
        (.str ['n'], .dict [
          (.str "LINECOMMENT000002".toList, .leaf (.str "LINECOMMENT000002".toList)),
          (.str ['p'], .leaf (.str "x y".toList)),
          (.str "BLOCKCOMMENT000001".toList, .leaf (.str "BLOCKCOMMENT000001".toList))]),
        (.str ['l'], .list [.leaf (.int 1), .leaf (.str "it's".toList)]) ] ∧
    (denC none exDoc).lineC =
      [(0, "// first".toList), (1, "// tail 'q' ; { $x".toList), (2, "// nested".toList)] ∧
    (denC none exDoc).blockC = [(0, "/* hdr C++ x */".toList), (1, "/*blk\n two*/".toList)] := by
  refine ⟨?_, ?_, ?_⟩ <;> decide +kernel

/-- the read from `999998`, evaluated directly (not through the theorem): ids 999999, 0, 1 -/
theorem exDoc_wrap :
    (denC (some 999998) exDoc).data =
      [ (.str "LINECOMMENT999999".toList, .leaf (.str "LINECOMMENT999999".toList)),
        (.str "BLOCKCOMMENT000000".toList, .leaf (.str "BLOCKCOMMENT000000".toList)),
        (.str ['a'], .leaf (.int 1)),
        (.str "LINECOMMENT000000".toList, .leaf (.str "LINECOMMENT000000".toList)),
        (.str ['n'], .dict [
          (.str "LINECOMMENT000001".toList, .leaf (.str "LINECOMMENT000001".toList)),
          (.str ['p'], .leaf (.str "x y".toList)),
          (.str "BLOCKCOMMENT000001".toList, .leaf (.str "BLOCKCOMMENT000001".toList))]),
        (.str ['l'], .list [.leaf (.int 1), .leaf (.str "it's".toList)]) ] ∧
    (denC (some 999998) exDoc).lineC =
      [(999999, "// first".toList), (0, "// tail 'q' ; { $x".toList), (1, "// nested".toList)] ∧
    (denC (some 999998) exDoc).blockC = [(0, "/* hdr C++ x */".toList), (1, "/*blk\n two*/".toList)] := by
  refine ⟨?_, ?_, ?_⟩ <;> decide +kernel

/-- the renaming of the first read, evaluated: it is the second read (an evaluation that does not go through
    `denC_natural`) -/
theorem exDoc_renamed :
    (renSD (shift none (some 999998)) id (denC none exDoc)).data = (denC (some 999998) exDoc).data ∧
    (renSD (shift none (some 999998)) id (denC none exDoc)).lineC = (denC (some 999998) exDoc).lineC ∧
    (renSD (shift none (some 999998)) id (denC none exDoc)).blockC = (denC (some 999998) exDoc).blockC := by
  refine ⟨?_, ?_, ?_⟩ <;> decide +kernel

/-- the two reads are different data … -/
theorem exDoc_differ : (denC (some 999998) exDoc).data ≠ (denC none exDoc).data := by decide +kernel

/-- … with the same canonical form, which on this example is the read from the fresh counter -/
theorem exDoc_canon : canonSD (denC (some 999998) exDoc) = canonSD (denC none exDoc) :=
  C08_denC_canon exDoc_wf (Or.inl rfl) ex_valid exDoc_blocks

theorem exDoc_canon_eval :
    (canonSD (denC (some 999998) exDoc)).data = (denC none exDoc).data ∧
    (canonSD (denC (some 999998) exDoc)).lineC = (denC none exDoc).lineC ∧
    (canonSD (denC (some 999998) exDoc)).blockC = (denC none exDoc).blockC := by
  refine ⟨?_, ?_, ?_⟩ <;> decide +kernel


/-! ## 6. what is false, on witnesses -/

/-- block-comment ids are *not* drawn from the counter: renaming them like the line-comment ids gives something else
    than the second read (this is why `denC_natural` renames with `id` on block comments) -/
theorem exDoc_block_ids_local :
    (renSD (shift none (some 999998)) (shift none (some 999998)) (denC none exDoc)).data ≠ (denC (some 999998) exDoc).data := by
  decide +kernel

/-- exchange the ids 0 and 1 -/
def swap01 (i : Nat) : Nat := if i = 0 then 1 else if i = 1 then 0 else i

theorem swap01_ok : RenOK swap01 := by
  refine ⟨fun i j h => ?_, fun i hi => ?_⟩
  · simp only [swap01] at h
    split at h <;> split at h <;> (try split at h) <;> (try split at h) <;> omega
  · simp only [swap01]
    split
    · omega
    · split <;> omega

/-- **`_clean` does not commute with the renaming on arbitrary data**: a key that merely *contains* a placeholder
    (`xLINECOMMENT000001`) is read by `_clean` as a line comment with the id 1, but is no placeholder word and is not
    renamed.  Hence the hypothesis `PhWFEs` of `clean_ren` (every key `_clean` looks at is an exact placeholder word or
    contains none); the meanings of commented documents satisfy it (`phWF_labelI`). -/
theorem clean_ren_needs_wf :
    ¬ ∀ (f g : Nat → Nat) (s : SD), RenOK f → RenOK g → (renSD f g s).clean = renSD f g s.clean := by
  intro h
  have := congrArg SD.lineC (h swap01 id
    { data := [(.str "LINECOMMENT000000".toList, .leaf .none), (.str "xLINECOMMENT000001".toList, .leaf .none)],
      lineC := [(0, ['a']), (1, ['a'])] } swap01_ok renOK_id)
  revert this
  decide +kernel

end DictIO.C08
