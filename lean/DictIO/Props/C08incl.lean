/-
  C08 -- history independence for documents with comments AND `#include` directives: naturality of the reader's
  stages (line comments, include directives, block comments, `_clean`) in the placeholder ids.

  The reader gives every line comment and every include directive an id drawn from the ONE process-global counter
  (`labelI`: first all line comments in document order, then all directives in document order; ids `0 … 999999`,
  wrapping), puts `LINECOMMENTnnnnnn ↦ …` / `INCLUDEnnnnnn ↦ …` entries into the data and the texts / directive entries
  into the tables `lineC` / `incl` under those ids.  Block comments are numbered locally.  So two reads of one text from
  two counter values differ exactly by the rotation `shift c₁ c₂` of `C08nat`, applied to the line-comment ids AND the
  include ids; this file proves that, through `_clean` (which merges identical directives of one dict level) and
  through the whole reader (`C12_read_included`).

    1  `renWord3 f g h`, `renKey3`, `renScalar3`, `renV3` / `renEs3` / `renXs3`, `renSD3 f g h`
           the renaming with a third function for the include ids: `INCLUDE%06d` (id below 10^6) gets its id mapped by
           `h`, `LINECOMMENT%06d` by `f`, `BLOCKCOMMENT%06d` by `g`, every other string stays (`renWord3_spec`: complete,
           exclusive case analysis); `incl` table re-keyed by `h`
       `renWord' f g := renWord3 f g f`, `renSD' f g := renSD3 f g f`     the renaming of the statement: line comments
           and directives draw from the same counter (`renWord'_spec`, `renSD'_fields`)
       `renSD'_of_noIncl`     without include placeholders it is the `renSD` of `C08nat`
    2  `clean_ren3`           `(renSD3 f g h s).clean = renSD3 f g h s.clean` for `RenOK f g h`, provided every key `_clean`
                              looks at is an exact placeholder word or contains no placeholder (`PhWF3Es s.data`).
                              This covers the merging of identical directives: NO restriction to pairwise distinct
                              directive texts (`hdist` of `C12_incl_table_result` is not needed; `exMerge_natural`)
       `clean_ren3_needs_wf`  … the hypothesis is needed: refuted on a witness without it
    3a `ren3_denSrcV/Es/Xs`   the comment- and directive-free part of a well-formed document is untouched
    3b `label_nat3I`, `phWF3_labelI`, `labelI_natural_of`
                              labelling from two counters related by `f` (`CRel f c₁ c₂`): states (both counters, the two
                              tables keyed by drawn ids) and meanings related by the renaming; the meaning satisfies `PhWF3Es`
    3c `denI_natural`         `denI dir c₂ items = renSD' (shift c₁ c₂) id (denI dir c₁ items)`, with `shift` injective and
                              `(alloc limit k c₁).map (shift c₁ c₂) = alloc limit k c₂` for every `k`
    4  `C08_included_read_natural`   both reads `.ok`, results related by `renSD' (shift c₁ c₂) id`
       `counterAfterI_rel`    … and so are the counters they leave
       `denI_stripped`        the data with the placeholder entries stripped is `denSrcEs (plainIItems items) []`: no counter
       `C08_included_read_stripped`  stripped data, line-comment texts, include entries (directive text, file name, path)
                              in table order, block-comment table: EQUAL
    5  `canonSD'`, `canonSD'_ren`, `C08_denI_canon`, `C08_included_canon`, `C08_included_canon_eq`
           canonical form with the include ids (ids ↦ rank of first appearance per kind; three tables re-keyed): invariant
           under every renaming injective on the ids occurring; the canonical forms of the two reads are EQUAL
    6  `exI_reads` … `exI_canon_eval`, `exMerge_natural`   the example `exI` of `C12incl` from `none` (ids 0,1 | 2,3,4) and
           from `some 999997` (ids 999998, 999999 | 0, 1, 2: the wrap-around falls between the last line comment and the
           first directive), both evaluated by the kernel, and related by the theorem
    7  `exI_incl_ids_global`, `exI_incl_table_moves`, `exI_block_ids_local`, `clean_ren3_needs_wf`   negatives on witnesses

  Hypotheses of the reader theorems: those of `C12_read_included` (for both counters) and `nBlockII items ≤ 1000000` (at
  most one million block comments, as in `C08nat`: from the 1 000 001-st on the block placeholder has seven digits,
  outside the format the renaming speaks about).  NO bound on the number of line comments and directives is needed:
  `shift` is a bijection of the id space, so collisions after a full turn of the counter happen alike in both reads.
  Scope: documents of `ISrc` / `IItem` (comments and directives at statement boundaries, directives alone on their
  line, no `$`), as in `C12_read_included`.
-/
import DictIO.Props.C12incl

namespace DictIO.C08
open DictIO
open DictIO.C12 (exI exI_wf exIGaps exIGaps_ok exI_text exIText inclsItems)
open DictIO.C12.Incl (firstSix_inclPh)

set_option linter.unusedSimpArgs false
set_option linter.unusedVariables false
set_option linter.unnecessarySimpa false
set_option linter.unusedSectionVars false

/-! ## 1. the renaming, extended to include placeholders -/

/-- rename the id of a placeholder word: line-comment ids by `f`, block-comment ids by `g`, include ids by `h` -/
def renWord3 (f g h : Nat → Nat) (s : Str) : Str :=
  match phIdOf kwIncl s with
  | some i => inclPh (h i)
  | none => renWord f g s

def renKey3 (f g h : Nat → Nat) : Key → Key
  | .str s => .str (renWord3 f g h s)
  | .int z => .int z

def renScalar3 (f g h : Nat → Nat) : Scalar → Scalar
  | .str s => .str (renWord3 f g h s)
  | x => x

mutual
  def renV3 (f g h : Nat → Nat) : Val → Val
    | .leaf x => .leaf (renScalar3 f g h x)
    | .dict es => .dict (renEs3 f g h es)
    | .list xs => .list (renXs3 f g h xs)
  def renEs3 (f g h : Nat → Nat) : Entries → Entries
    | [] => []
    | (k, v) :: es => (renKey3 f g h k, renV3 f g h v) :: renEs3 f g h es
  def renXs3 (f g h : Nat → Nat) : List Val → List Val
    | [] => []
    | v :: xs => renV3 f g h v :: renXs3 f g h xs
end

/-- the renaming on an `SDict`: data renamed, line-comment table re-keyed by `f`, block-comment table by `g`, include
    table by `h` -/
def renSD3 (f g h : Nat → Nat) (s : SD) : SD :=
  { s with data := renEs3 f g h s.data, lineC := renTbl f s.lineC, blockC := renTbl g s.blockC, incl := renTbl h s.incl }

/-- the renaming of the task: line comments and include directives draw from the one global counter, so their ids are
    renamed by the same `f`; block-comment ids by `g` -/
def renWord' (f g : Nat → Nat) (s : Str) : Str := renWord3 f g f s
def renSD' (f g : Nat → Nat) (s : SD) : SD := renSD3 f g f s

/-! ### the recognisers on the three kinds of placeholder words -/

theorem containsIncl_inclPh {n : Nat} (h : n < 1000000) : containsPh kwIncl (inclPh n) = true :=
  containsPh_self (by decide) (by rw [← List.append_nil (padSix n), digitRun_padSix h]; rfl)

theorem containsLine_inclPh (n : Nat) : containsPh kwLine (inclPh n) = false :=
  containsPh_notin 'M' (by decide) (by
    simp only [inclPh, List.mem_append, not_or]; exact ⟨by decide, padSix_not (by decide) n⟩)

theorem containsBlock_inclPh (n : Nat) : containsPh kwBlock (inclPh n) = false :=
  containsPh_notin 'M' (by decide) (by
    simp only [inclPh, List.mem_append, not_or]; exact ⟨by decide, padSix_not (by decide) n⟩)

theorem linePh_ne_inclPh (i j : Nat) : linePh i ≠ inclPh j := by
  intro h
  have e1 : linePh i = 'L' :: ("INECOMMENT".toList ++ padSix i) := rfl
  have e2 : inclPh j = 'I' :: ("NCLUDE".toList ++ padSix j) := rfl
  rw [e1, e2] at h
  exact absurd (List.cons.inj h).1 (by decide)

theorem blockPh_ne_inclPh (i j : Nat) : blockPh i ≠ inclPh j := by
  intro h
  have e1 : blockPh i = 'B' :: ("LOCKCOMMENT".toList ++ padSix i) := rfl
  have e2 : inclPh j = 'I' :: ("NCLUDE".toList ++ padSix j) := rfl
  rw [e1, e2] at h
  exact absurd (List.cons.inj h).1 (by decide)

theorem inclPh_inj' {i j : Nat} (h : inclPh i = inclPh j) : i = j := C02.padSix_inj (List.append_cancel_left h)

theorem phIdOf_incl_inclPh {n : Nat} (h : n < 1000000) : phIdOf kwIncl (inclPh n) = some n := phIdOf_ph kwIncl h

theorem phIdOf_incl_linePh (n : Nat) : phIdOf kwIncl (linePh n) = none := by
  cases h : phIdOf kwIncl (linePh n) with
  | none => rfl
  | some i => exact absurd (phIdOf_some h).2 (linePh_ne_inclPh n i)

theorem phIdOf_incl_blockPh (n : Nat) : phIdOf kwIncl (blockPh n) = none := by
  cases h : phIdOf kwIncl (blockPh n) with
  | none => rfl
  | some i => exact absurd (phIdOf_some h).2 (blockPh_ne_inclPh n i)

theorem phIdOf_line_inclPh (n : Nat) : phIdOf kwLine (inclPh n) = none := by
  cases h : phIdOf kwLine (inclPh n) with
  | none => rfl
  | some i => exact absurd (phIdOf_some h).2.symm (linePh_ne_inclPh i n)

theorem phIdOf_block_inclPh (n : Nat) : phIdOf kwBlock (inclPh n) = none := by
  cases h : phIdOf kwBlock (inclPh n) with
  | none => rfl
  | some i => exact absurd (phIdOf_some h).2.symm (blockPh_ne_inclPh i n)

theorem renWord_inclPh (f g : Nat → Nat) (i : Nat) : renWord f g (inclPh i) = inclPh i := by
  simp only [renWord, phIdOf_line_inclPh, phIdOf_block_inclPh]

/-! ### the renaming on words and keys -/

theorem renWord3_linePh (f g h : Nat → Nat) {i : Nat} (hi : i < 1000000) : renWord3 f g h (linePh i) = linePh (f i) := by
  simp only [renWord3, phIdOf_incl_linePh, renWord_linePh f g hi]

theorem renWord3_blockPh (f g h : Nat → Nat) {i : Nat} (hi : i < 1000000) :
    renWord3 f g h (blockPh i) = blockPh (g i) := by
  simp only [renWord3, phIdOf_incl_blockPh, renWord_blockPh f g hi]

theorem renWord3_inclPh (f g h : Nat → Nat) {i : Nat} (hi : i < 1000000) : renWord3 f g h (inclPh i) = inclPh (h i) := by
  simp only [renWord3, phIdOf_incl_inclPh hi]

theorem renWord3_noPh (f g h : Nat → Nat) {s : Str} (hl : containsPh kwLine s = false)
    (hb : containsPh kwBlock s = false) (hi : containsPh kwIncl s = false) : renWord3 f g h s = s := by
  have h1 : phIdOf kwIncl s = none := by
    cases hp : phIdOf kwIncl s with
    | none => rfl
    | some i =>
      obtain ⟨hlt, rfl⟩ := phIdOf_some hp
      rw [show kwIncl ++ padSix i = inclPh i from rfl, containsIncl_inclPh hlt] at hi; cases hi
  simp only [renWord3, h1, renWord_noPh f g hl hb]

/-- a string without `COMMENT` and without `INCLUDE` in it is left alone -/
theorem renWord3_plain (f g h : Nat → Nat) {s : Str} (hc : isInfix "COMMENT".toList s = false)
    (hi : isInfix "INCLUDE".toList s = false) : renWord3 f g h s = s :=
  renWord3_noPh f g h (C02.Main.containsPh_false (kw := kwLine) (sub := "COMMENT".toList) (by decide) hc)
    (C02.Main.containsPh_false (kw := kwBlock) (sub := "COMMENT".toList) (by decide) hc)
    (C02.Main.containsPh_false (kw := kwIncl) (sub := "INCLUDE".toList) (by decide) hi)

/-- the specification of `renWord3`, complete: the four cases are exhaustive and exclusive -/
theorem renWord3_spec (f g h : Nat → Nat) (s : Str) :
    (∃ i, i < 1000000 ∧ s = linePh i ∧ renWord3 f g h s = linePh (f i)) ∨
    (∃ i, i < 1000000 ∧ s = blockPh i ∧ renWord3 f g h s = blockPh (g i)) ∨
    (∃ i, i < 1000000 ∧ s = inclPh i ∧ renWord3 f g h s = inclPh (h i)) ∨
    ((∀ i, i < 1000000 → s ≠ linePh i) ∧ (∀ i, i < 1000000 → s ≠ blockPh i) ∧ (∀ i, i < 1000000 → s ≠ inclPh i) ∧
      renWord3 f g h s = s) := by
  cases h0 : phIdOf kwIncl s with
  | some i =>
    obtain ⟨hi, e⟩ := phIdOf_some h0
    exact Or.inr (Or.inr (Or.inl ⟨i, hi, e, by rw [e]; exact renWord3_inclPh f g h hi⟩))
  | none =>
    have hn : ∀ i, i < 1000000 → s ≠ inclPh i := by
      intro i hi e
      rw [e, phIdOf_incl_inclPh hi] at h0; cases h0
    have e3 : renWord3 f g h s = renWord f g s := by simp only [renWord3, h0]
    rcases renWord_spec f g s with ⟨i, hi, e, hr⟩ | ⟨i, hi, e, hr⟩ | ⟨h1, h2, hr⟩
    · exact Or.inl ⟨i, hi, e, e3.trans hr⟩
    · exact Or.inr (Or.inl ⟨i, hi, e, e3.trans hr⟩)
    · exact Or.inr (Or.inr (Or.inr ⟨h1, h2, hn, e3.trans hr⟩))

/-- on strings without include placeholder the extended renaming is the renaming of `C08nat` -/
theorem renWord3_eq_renWord (f g h : Nat → Nat) {s : Str} (hs : ∀ i, i < 1000000 → s ≠ inclPh i) :
    renWord3 f g h s = renWord f g s := by
  cases h0 : phIdOf kwIncl s with
  | some i => exact absurd (phIdOf_some h0).2 (hs i (phIdOf_some h0).1)
  | none => simp only [renWord3, h0]

/-- the renaming of the statement, on words: include placeholders are renamed by the same `f` as line comments -/
theorem renWord'_spec (f g : Nat → Nat) :
    (∀ i, i < 1000000 → renWord' f g (kwIncl ++ padSix i) = kwIncl ++ padSix (f i)) ∧
    (∀ i, i < 1000000 → renWord' f g (kwLine ++ padSix i) = kwLine ++ padSix (f i)) ∧
    (∀ i, i < 1000000 → renWord' f g (kwBlock ++ padSix i) = kwBlock ++ padSix (g i)) ∧
    (∀ s, (∀ i, i < 1000000 → s ≠ kwIncl ++ padSix i) → renWord' f g s = renWord f g s) :=
  ⟨fun _ hi => renWord3_inclPh f g f hi, fun _ hi => renWord3_linePh f g f hi, fun _ hi => renWord3_blockPh f g f hi,
    fun _ hs => renWord3_eq_renWord f g f hs⟩

/-- … and on an `SDict`: the include table is re-keyed by `f`, like the line-comment table -/
theorem renSD'_fields (f g : Nat → Nat) (sd : SD) :
    (renSD' f g sd).data = renEs3 f g f sd.data ∧ (renSD' f g sd).lineC = renTbl f sd.lineC ∧
      (renSD' f g sd).blockC = renTbl g sd.blockC ∧ (renSD' f g sd).incl = renTbl f sd.incl ∧
      (renSD' f g sd).exprs = sd.exprs := ⟨rfl, rfl, rfl, rfl, rfl⟩

/-- a key of a dict level as `_clean` must find it: an exact line-comment, block-comment or include placeholder word, or
    a key without any placeholder in it -/
def KeyOK3 (k : Key) : Prop :=
  (∃ i, i < 1000000 ∧ k = .str (linePh i)) ∨ (∃ i, i < 1000000 ∧ k = .str (blockPh i)) ∨
    (∃ i, i < 1000000 ∧ k = .str (inclPh i)) ∨ C07.isPhKey k = false

theorem isPhKey_inclPh {i : Nat} (h : i < 1000000) : C07.isPhKey (.str (inclPh i)) = true := by
  simp only [C07.isPhKey, containsIncl_inclPh h, Bool.or_true, Bool.true_or]

theorem renKey3_noPh (f g h : Nat → Nat) {k : Key} (hk : C07.isPhKey k = false) : renKey3 f g h k = k := by
  cases k with
  | int z => rfl
  | str s =>
    simp only [C07.isPhKey, Bool.or_eq_false_iff] at hk
    simp only [renKey3, renWord3_noPh f g h hk.2 hk.1.1 hk.1.2]

theorem renKey3_linePh (f g h : Nat → Nat) {i : Nat} (hi : i < 1000000) :
    renKey3 f g h (.str (linePh i)) = .str (linePh (f i)) := by simp only [renKey3, renWord3_linePh f g h hi]
theorem renKey3_blockPh (f g h : Nat → Nat) {i : Nat} (hi : i < 1000000) :
    renKey3 f g h (.str (blockPh i)) = .str (blockPh (g i)) := by simp only [renKey3, renWord3_blockPh f g h hi]
theorem renKey3_inclPh (f g h : Nat → Nat) {i : Nat} (hi : i < 1000000) :
    renKey3 f g h (.str (inclPh i)) = .str (inclPh (h i)) := by simp only [renKey3, renWord3_inclPh f g h hi]

section
variable {f g h : Nat → Nat} (hf : RenOK f) (hg : RenOK g) (hh : RenOK h)
include hf hg hh

theorem renKey3_ok {k : Key} (hk : KeyOK3 k) : KeyOK3 (renKey3 f g h k) := by
  rcases hk with ⟨i, hi, rfl⟩ | ⟨i, hi, rfl⟩ | ⟨i, hi, rfl⟩ | hk
  · exact Or.inl ⟨f i, hf.lt i hi, renKey3_linePh f g h hi⟩
  · exact Or.inr (Or.inl ⟨g i, hg.lt i hi, renKey3_blockPh f g h hi⟩)
  · exact Or.inr (Or.inr (Or.inl ⟨h i, hh.lt i hi, renKey3_inclPh f g h hi⟩))
  · rw [renKey3_noPh f g h hk]; exact Or.inr (Or.inr (Or.inr hk))

/-- the image of an admissible key, with its kind -/
theorem renKey3_cases {k : Key} (hk : KeyOK3 k) :
    (∃ i, i < 1000000 ∧ f i < 1000000 ∧ k = .str (linePh i) ∧ renKey3 f g h k = .str (linePh (f i))) ∨
    (∃ i, i < 1000000 ∧ g i < 1000000 ∧ k = .str (blockPh i) ∧ renKey3 f g h k = .str (blockPh (g i))) ∨
    (∃ i, i < 1000000 ∧ h i < 1000000 ∧ k = .str (inclPh i) ∧ renKey3 f g h k = .str (inclPh (h i))) ∨
    (C07.isPhKey k = false ∧ renKey3 f g h k = k) := by
  rcases hk with ⟨i, hi, rfl⟩ | ⟨i, hi, rfl⟩ | ⟨i, hi, rfl⟩ | hk
  · exact Or.inl ⟨i, hi, hf.lt i hi, rfl, renKey3_linePh f g h hi⟩
  · exact Or.inr (Or.inl ⟨i, hi, hg.lt i hi, rfl, renKey3_blockPh f g h hi⟩)
  · exact Or.inr (Or.inr (Or.inl ⟨i, hi, hh.lt i hi, rfl, renKey3_inclPh f g h hi⟩))
  · exact Or.inr (Or.inr (Or.inr ⟨hk, renKey3_noPh f g h hk⟩))

theorem renKey3_inj {k k' : Key} (hk : KeyOK3 k) (hk' : KeyOK3 k') (e : renKey3 f g h k = renKey3 f g h k') : k = k' := by
  rcases renKey3_cases hf hg hh hk with ⟨i, hi, hfi, rfl, r⟩ | ⟨i, hi, hfi, rfl, r⟩ | ⟨i, hi, hfi, rfl, r⟩ | ⟨hp, r⟩ <;>
    rcases renKey3_cases hf hg hh hk' with ⟨j, hj, hfj, rfl, r'⟩ | ⟨j, hj, hfj, rfl, r'⟩ | ⟨j, hj, hfj, rfl, r'⟩ | ⟨hp', r'⟩ <;>
    rw [r, r'] at e
  · rw [hf.inj (linePh_inj (Key.str.inj e))]
  · exact absurd (Key.str.inj e) (linePh_ne_blockPh _ _)
  · exact absurd (Key.str.inj e) (linePh_ne_inclPh _ _)
  · rw [← e, isPhKey_linePh hfi] at hp'; cases hp'
  · exact absurd (Key.str.inj e).symm (linePh_ne_blockPh _ _)
  · rw [hg.inj (blockPh_inj (Key.str.inj e))]
  · exact absurd (Key.str.inj e) (blockPh_ne_inclPh _ _)
  · rw [← e, isPhKey_blockPh hfi] at hp'; cases hp'
  · exact absurd (Key.str.inj e).symm (linePh_ne_inclPh _ _)
  · exact absurd (Key.str.inj e).symm (blockPh_ne_inclPh _ _)
  · rw [hh.inj (inclPh_inj' (Key.str.inj e))]
  · rw [← e, isPhKey_inclPh hfi] at hp'; cases hp'
  · rw [e, isPhKey_linePh hfj] at hp; cases hp
  · rw [e, isPhKey_blockPh hfj] at hp; cases hp
  · rw [e, isPhKey_inclPh hfj] at hp; cases hp
  · exact e

end

/-! ### the renaming on entries -/

theorem renEs3_nil (f g h : Nat → Nat) : renEs3 f g h [] = [] := by simp only [renEs3]
theorem renEs3_cons (f g h : Nat → Nat) (k : Key) (v : Val) (es : Entries) :
    renEs3 f g h ((k, v) :: es) = (renKey3 f g h k, renV3 f g h v) :: renEs3 f g h es := by simp only [renEs3]
theorem renV3_dict (f g h : Nat → Nat) (es : Entries) : renV3 f g h (.dict es) = .dict (renEs3 f g h es) := by
  simp only [renV3]
theorem renV3_leaf (f g h : Nat → Nat) (x : Scalar) : renV3 f g h (.leaf x) = .leaf (renScalar3 f g h x) := by
  simp only [renV3]
theorem renV3_list (f g h : Nat → Nat) (xs : List Val) : renV3 f g h (.list xs) = .list (renXs3 f g h xs) := by
  simp only [renV3]
theorem renXs3_nil (f g h : Nat → Nat) : renXs3 f g h [] = [] := by simp only [renXs3]
theorem renXs3_cons (f g h : Nat → Nat) (v : Val) (xs : List Val) :
    renXs3 f g h (v :: xs) = renV3 f g h v :: renXs3 f g h xs := by simp only [renXs3]

theorem keys_renEs3 (f g h : Nat → Nat) : ∀ es : Entries, keys (renEs3 f g h es) = (keys es).map (renKey3 f g h)
  | [] => by simp only [renEs3_nil, keys, List.map_nil]
  | (k, v) :: es => by
    have := keys_renEs3 f g h es
    simp only [keys] at this
    simp only [renEs3_cons, keys, List.map_cons, this]

section
variable {f g h : Nat → Nat} (hf : RenOK f) (hg : RenOK g) (hh : RenOK h)
include hf hg hh

theorem setKey_ren3 {k : Key} (hk : KeyOK3 k) (v : Val) :
    ∀ acc : Entries, (∀ x ∈ keys acc, KeyOK3 x) →
      renEs3 f g h (setKey k v acc) = setKey (renKey3 f g h k) (renV3 f g h v) (renEs3 f g h acc)
  | [], _ => by simp only [setKey, renEs3_cons, renEs3_nil]
  | (k', v') :: es, hacc => by
    have hk' : KeyOK3 k' := hacc k' (by simp [keys])
    have ih := setKey_ren3 hk v es
      (fun x hx => hacc x (by simp only [keys, List.map_cons, List.mem_cons] at hx ⊢; exact Or.inr hx))
    by_cases e : k' = k
    · subst e
      simp only [setKey, if_true, renEs3_cons]
    · have e' : ¬ renKey3 f g h k' = renKey3 f g h k := fun h' => e (renKey3_inj hf hg hh hk' hk h')
      simp only [setKey, e, if_false, renEs3_cons, e', ih]

theorem delKey_ren3 {k : Key} (hk : KeyOK3 k) :
    ∀ acc : Entries, (∀ x ∈ keys acc, KeyOK3 x) →
      renEs3 f g h (delKey k acc) = delKey (renKey3 f g h k) (renEs3 f g h acc)
  | [], _ => by simp only [delKey, renEs3_nil]
  | (k', v') :: es, hacc => by
    have hk' : KeyOK3 k' := hacc k' (by simp [keys])
    have ih := delKey_ren3 hk es
      (fun x hx => hacc x (by simp only [keys, List.map_cons, List.mem_cons] at hx ⊢; exact Or.inr hx))
    by_cases e : k' = k
    · subst e
      simp only [delKey, if_true, renEs3_cons]
    · have e' : ¬ renKey3 f g h k' = renKey3 f g h k := fun h' => e (renKey3_inj hf hg hh hk' hk h')
      simp only [delKey, e, if_false, renEs3_cons, e', ih]

end

/-! ## 2. `_clean` commutes with the extended renaming -/

section
variable {α : Type} [BEq α] {f g h : Nat → Nat} (hf : RenOK f) (hg : RenOK g) (hh : RenOK h)
  {m : Nat → Nat} (hm : Function.Injective m)
include hf hg hh hm

theorem cstep_ren3 {k : Key} (hk : KeyOK3 k)
    (hc : ∃ x x' i, k = .str x ∧ renKey3 f g h k = .str x' ∧ firstSixDigits x = some i ∧ firstSixDigits x' = some (m i))
    (d : Entries) (t : Tbl α) (seen : List α) (hd : ∀ x ∈ keys d, KeyOK3 x) :
    cstep (renEs3 f g h d, renTbl m t, seen) (renKey3 f g h k) =
      (renEs3 f g h (cstep (d, t, seen) k).1, renTbl m (cstep (d, t, seen) k).2.1, (cstep (d, t, seen) k).2.2) := by
  obtain ⟨x, x', i, rfl, hx', h1, h2⟩ := hc
  rw [hx']
  simp only [cstep, h1, h2, renTbl_get hm]
  cases ht : Tbl.get? i t with
  | none => rfl
  | some txt =>
    dsimp only
    by_cases hs : seen.contains txt = true
    · simp only [hs, if_true]
      rw [← hx', ← delKey_ren3 hf hg hh hk d hd, renTbl_del hm]
    · simp only [hs, Bool.false_eq_true, if_false]

theorem cfold_ren3 (sel : Key → Bool)
    (hcand : ∀ k, KeyOK3 k → sel k = true →
      ∃ x x' i, k = .str x ∧ renKey3 f g h k = .str x' ∧ firstSixDigits x = some i ∧ firstSixDigits x' = some (m i)) :
    ∀ (cand : List Key), (∀ k ∈ cand, KeyOK3 k ∧ sel k = true) →
      ∀ (d : Entries) (t : Tbl α) (seen : List α), (∀ x ∈ keys d, KeyOK3 x) →
        (cand.map (renKey3 f g h)).foldl cstep (renEs3 f g h d, renTbl m t, seen) =
          (renEs3 f g h (cand.foldl cstep (d, t, seen)).1, renTbl m (cand.foldl cstep (d, t, seen)).2.1,
            (cand.foldl cstep (d, t, seen)).2.2)
  | [], _, _, _, _, _ => rfl
  | k :: cand, hc, d, t, seen, hd => by
    have hk := hc k List.mem_cons_self
    rw [List.map_cons, List.foldl_cons, List.foldl_cons, cstep_ren3 hf hg hh hm hk.1 (hcand k hk.1 hk.2) d t seen hd]
    have hd' : ∀ x ∈ keys (cstep (d, t, seen) k).1, KeyOK3 x := fun x hx => hd x (cstep_keys _ _ x hx)
    have ih := cfold_ren3 sel hcand cand (fun k' hk' => hc k' (List.mem_cons_of_mem _ hk'))
      (cstep (d, t, seen) k).1 (cstep (d, t, seen) k).2.1 (cstep (d, t, seen) k).2.2 hd'
    exact ih

theorem cleanStep_ren3 (sel : Key → Bool) (lvl : Entries) (tbl : Tbl α)
    (hok : ∀ k ∈ keys lvl, KeyOK3 k)
    (hsel : ∀ k, KeyOK3 k → sel (renKey3 f g h k) = sel k)
    (hcand : ∀ k, KeyOK3 k → sel k = true →
      ∃ x x' i, k = .str x ∧ renKey3 f g h k = .str x' ∧ firstSixDigits x = some i ∧ firstSixDigits x' = some (m i)) :
    C06.cleanStep sel (renEs3 f g h lvl) (renTbl m tbl) =
      (renEs3 f g h (C06.cleanStep sel lvl tbl).1, renTbl m (C06.cleanStep sel lvl tbl).2) := by
  have hcnd : (keys (renEs3 f g h lvl)).filter sel = ((keys lvl).filter sel).map (renKey3 f g h) := by
    rw [keys_renEs3, List.filter_map]
    congr 1
    apply List.filter_congr
    intro k hk
    exact hsel k (hok k hk)
  rw [cleanStep_eq, cleanStep_eq, hcnd,
    cfold_ren3 hf hg hh hm sel hcand _ (fun k hk => ⟨hok k (List.mem_filter.mp hk).1, (List.mem_filter.mp hk).2⟩) lvl tbl [] hok]

end

theorem sel_inclPh {i : Nat} (hi : i < 1000000) :
    C06.selB (.str (inclPh i)) = false ∧ C06.selI (.str (inclPh i)) = true ∧ C06.selL (.str (inclPh i)) = false := by
  simp [C06.selB, C06.selI, C06.selL, containsBlock_inclPh, containsIncl_inclPh hi, containsLine_inclPh]

/-- the keys of a level stay admissible through one loop of `_clean_data` -/
theorem cleanStep_ok3 {α} [BEq α] (sel : Key → Bool) (hsel : ∀ k, sel k = true → C07.isPhKey k = true) (lvl : Entries)
    (tbl : Tbl α) (h : ∀ x ∈ keys lvl, KeyOK3 x) : ∀ x ∈ keys (C06.cleanStep sel lvl tbl).1, KeyOK3 x :=
  C06.cleanStep_inv (fun d => ∀ x ∈ keys d, KeyOK3 x) (fun k d _ hd x hx => hd x (C12.keys_delKey_sub hx)) sel hsel lvl tbl h

/-- two `SDict`s whose tables differ by the renaming (the data fields are not compared) -/
structure TRel3 (f g h : Nat → Nat) (s s' : SD) : Prop where
  lineC : s'.lineC = renTbl f s.lineC
  blockC : s'.blockC = renTbl g s.blockC
  incl : s'.incl = renTbl h s.incl
  exprs : s'.exprs = s.exprs

section
variable {f g h : Nat → Nat} (hf : RenOK f) (hg : RenOK g) (hh : RenOK h)
include hf hg hh

/-- the three selectors of `_clean_data` do not see the renaming -/
theorem sel_ren3 {k : Key} (hk : KeyOK3 k) :
    C06.selB (renKey3 f g h k) = C06.selB k ∧ C06.selI (renKey3 f g h k) = C06.selI k ∧
      C06.selL (renKey3 f g h k) = C06.selL k := by
  rcases renKey3_cases hf hg hh hk with ⟨i, hi, hfi, rfl, r⟩ | ⟨i, hi, hfi, rfl, r⟩ | ⟨i, hi, hfi, rfl, r⟩ | ⟨hp, r⟩ <;> rw [r]
  · exact ⟨(sel_linePh hfi).1.trans (sel_linePh hi).1.symm, (sel_linePh hfi).2.1.trans (sel_linePh hi).2.1.symm,
      (sel_linePh hfi).2.2.trans (sel_linePh hi).2.2.symm⟩
  · exact ⟨(sel_blockPh hfi).1.trans (sel_blockPh hi).1.symm, (sel_blockPh hfi).2.1.trans (sel_blockPh hi).2.1.symm,
      (sel_blockPh hfi).2.2.trans (sel_blockPh hi).2.2.symm⟩
  · exact ⟨(sel_inclPh hfi).1.trans (sel_inclPh hi).1.symm, (sel_inclPh hfi).2.1.trans (sel_inclPh hi).2.1.symm,
      (sel_inclPh hfi).2.2.trans (sel_inclPh hi).2.2.symm⟩
  · exact ⟨rfl, rfl, rfl⟩

theorem cleanLevel_ren3 {s s' : SD} (hs : TRel3 f g h s s') (lvl : Entries) (hok : ∀ k ∈ keys lvl, KeyOK3 k) :
    TRel3 f g h (cleanLevel s lvl).1 (cleanLevel s' (renEs3 f g h lvl)).1 ∧
      (cleanLevel s' (renEs3 f g h lvl)).2 = renEs3 f g h (cleanLevel s lvl).2 := by
  -- block comments
  have hB := cleanStep_ren3 hf hg hh hg.inj C06.selB lvl s.blockC hok
    (fun k hk => (sel_ren3 hf hg hh hk).1)
    (by
      intro k hk hsl
      rcases hk with ⟨i, hi, rfl⟩ | ⟨i, hi, rfl⟩ | ⟨i, hi, rfl⟩ | hk
      · rw [(sel_linePh hi).1] at hsl; cases hsl
      · exact ⟨_, _, i, rfl, renKey3_blockPh f g h hi, firstSix_blockPh hi, firstSix_blockPh (hg.lt i hi)⟩
      · rw [(sel_inclPh hi).1] at hsl; cases hsl
      · rw [(sel_noPh hk).1] at hsl; cases hsl)
  have hok1 := cleanStep_ok3 C06.selB (fun _ => C06.selB_ph) lvl s.blockC hok
  -- include directives
  have hI := cleanStep_ren3 hf hg hh hh.inj C06.selI (C06.cleanStep C06.selB lvl s.blockC).1 s.incl hok1
    (fun k hk => (sel_ren3 hf hg hh hk).2.1)
    (by
      intro k hk hsl
      rcases hk with ⟨i, hi, rfl⟩ | ⟨i, hi, rfl⟩ | ⟨i, hi, rfl⟩ | hk
      · rw [(sel_linePh hi).2.1] at hsl; cases hsl
      · rw [(sel_blockPh hi).2.1] at hsl; cases hsl
      · exact ⟨_, _, i, rfl, renKey3_inclPh f g h hi, firstSix_inclPh hi, firstSix_inclPh (hh.lt i hi)⟩
      · rw [(sel_noPh hk).2.1] at hsl; cases hsl)
  have hok2 := cleanStep_ok3 C06.selI (fun _ => C06.selI_ph) _ s.incl hok1
  -- line comments
  have hL := cleanStep_ren3 hf hg hh hf.inj C06.selL
    (C06.cleanStep C06.selI (C06.cleanStep C06.selB lvl s.blockC).1 s.incl).1 s.lineC hok2
    (fun k hk => (sel_ren3 hf hg hh hk).2.2)
    (by
      intro k hk hsl
      rcases hk with ⟨i, hi, rfl⟩ | ⟨i, hi, rfl⟩ | ⟨i, hi, rfl⟩ | hk
      · exact ⟨_, _, i, rfl, renKey3_linePh f g h hi, firstSix_linePh hi, firstSix_linePh (hf.lt i hi)⟩
      · rw [(sel_blockPh hi).2.2] at hsl; cases hsl
      · rw [(sel_inclPh hi).2.2] at hsl; cases hsl
      · rw [(sel_noPh hk).2.2] at hsl; cases hsl)
  rw [cleanLevel_eq, cleanLevel_eq]
  simp only [hs.blockC, hs.incl, hs.lineC, hB, hI, hL]
  exact ⟨⟨rfl, rfl, rfl, hs.exprs⟩, trivial⟩

end

mutual
  /-- every key of every dict level that `_clean` visits (through dict nesting; lists are opaque to it) is admissible -/
  def PhWF3V : Val → Prop
    | .dict es => PhWF3Es es
    | _ => True
  def PhWF3Es : Entries → Prop
    | [] => True
    | (k, v) :: es => KeyOK3 k ∧ PhWF3V v ∧ PhWF3Es es
end

theorem phWF3Es_iff : ∀ {es : Entries}, PhWF3Es es ↔ ∀ e ∈ es, KeyOK3 e.1 ∧ PhWF3V e.2
  | [] => by simp [PhWF3Es]
  | (k, v) :: es => by simp [PhWF3Es, phWF3Es_iff (es := es), and_assoc]

theorem phWF3Es_keys {es : Entries} (h : PhWF3Es es) : ∀ k ∈ keys es, KeyOK3 k := by
  intro k hk
  obtain ⟨e, he, rfl⟩ := List.mem_map.mp hk
  exact (phWF3Es_iff.mp h e he).1

theorem phWF3Es_setKey {k : Key} {v : Val} {es : Entries} (h : PhWF3Es es) (hk : KeyOK3 k) (hv : PhWF3V v) :
    PhWF3Es (setKey k v es) := by
  rw [phWF3Es_iff] at h ⊢
  intro e he
  rcases C07.mem_setKey he with rfl | he
  · exact ⟨hk, hv⟩
  · exact h e he

mutual
  theorem depthV_ren3 (f g h : Nat → Nat) : ∀ v : Val, depthV (renV3 f g h v) = depthV v
    | .leaf _ => by simp only [renV3_leaf, depthV]
    | .dict es => by simp only [renV3_dict, depthV, depthEs_ren3 f g h es]
    | .list xs => by simp only [renV3_list, depthV, depthVs_ren3 f g h xs]
  theorem depthEs_ren3 (f g h : Nat → Nat) : ∀ es : Entries, depthV.depthEs (renEs3 f g h es) = depthV.depthEs es
    | [] => by simp only [renEs3_nil]
    | (k, v) :: es => by simp only [renEs3_cons, depthV.depthEs, depthV_ren3 f g h v, depthEs_ren3 f g h es]
  theorem depthVs_ren3 (f g h : Nat → Nat) : ∀ xs : List Val, depthV.depthVs (renXs3 f g h xs) = depthV.depthVs xs
    | [] => by simp only [renXs3_nil]
    | v :: xs => by simp only [renXs3_cons, depthV.depthVs, depthV_ren3 f g h v, depthVs_ren3 f g h xs]
end

section
variable {f g h : Nat → Nat} (hf : RenOK f) (hg : RenOK g) (hh : RenOK h)
include hf hg hh

theorem cleanRec_ren3 : ∀ (fuel : Nat) (s s' : SD) (lvl : Entries), TRel3 f g h s s' → PhWF3Es lvl →
    TRel3 f g h (cleanRec fuel s lvl).1 (cleanRec fuel s' (renEs3 f g h lvl)).1 ∧
      (cleanRec fuel s' (renEs3 f g h lvl)).2 = renEs3 f g h (cleanRec fuel s lvl).2
  | 0, _, _, _, hs, _ => ⟨hs, rfl⟩
  | fuel + 1, s, s', lvl, hs, hw => by
    have hl := cleanLevel_ren3 hf hg hh hs lvl (phWF3Es_keys hw)
    have hsub := (C06.cleanLevel_spec s lvl).1
    have hw1 : ∀ e ∈ (cleanLevel s lvl).2, KeyOK3 e.1 ∧ PhWF3V e.2 := fun e he => phWF3Es_iff.mp hw e (hsub.subset he)
    simp only [cleanRec]
    rw [hl.2]
    have hl1 := hl.1
    generalize (cleanLevel s' (renEs3 f g h lvl)).1 = s1' at hl1
    generalize (cleanLevel s lvl).2 = lvl1 at hw1
    generalize (cleanLevel s lvl).1 = s1 at hl1
    suffices H : ∀ (l : Entries) (acc acc' : SD × Entries), (∀ e ∈ l, KeyOK3 e.1 ∧ PhWF3V e.2) → TRel3 f g h acc.1 acc'.1 →
        acc'.2 = renEs3 f g h acc.2 → (∀ x ∈ keys acc.2, KeyOK3 x) →
        TRel3 f g h
          (l.foldl (fun (acc : SD × Entries) e =>
            match e.2 with
            | .dict sub => ((cleanRec fuel acc.1 sub).1, setKey e.1 (.dict (cleanRec fuel acc.1 sub).2) acc.2)
            | _ => acc) acc).1
          ((renEs3 f g h l).foldl (fun (acc : SD × Entries) e =>
            match e.2 with
            | .dict sub => ((cleanRec fuel acc.1 sub).1, setKey e.1 (.dict (cleanRec fuel acc.1 sub).2) acc.2)
            | _ => acc) acc').1 ∧
        ((renEs3 f g h l).foldl (fun (acc : SD × Entries) e =>
            match e.2 with
            | .dict sub => ((cleanRec fuel acc.1 sub).1, setKey e.1 (.dict (cleanRec fuel acc.1 sub).2) acc.2)
            | _ => acc) acc').2 =
          renEs3 f g h (l.foldl (fun (acc : SD × Entries) e =>
            match e.2 with
            | .dict sub => ((cleanRec fuel acc.1 sub).1, setKey e.1 (.dict (cleanRec fuel acc.1 sub).2) acc.2)
            | _ => acc) acc).2 from
      H lvl1 (s1, lvl1) (s1', renEs3 f g h lvl1) hw1 hl1 rfl (fun x hx => by
        obtain ⟨e, he, rfl⟩ := List.mem_map.mp hx
        exact (hw1 e he).1)
    intro l
    induction l with
    | nil => intro acc acc' _ h1 h2 _; rw [renEs3_nil]; exact ⟨h1, h2⟩
    | cons e l ih =>
      intro acc acc' hl h1 h2 h3
      obtain ⟨k0, v0⟩ := e
      have he := hl _ List.mem_cons_self
      rw [renEs3_cons, List.foldl_cons, List.foldl_cons]
      cases v0 with
      | leaf x => rw [renV3_leaf]; exact ih _ _ (fun e' he' => hl e' (List.mem_cons_of_mem _ he')) h1 h2 h3
      | list xs => rw [renV3_list]; exact ih _ _ (fun e' he' => hl e' (List.mem_cons_of_mem _ he')) h1 h2 h3
      | dict sub =>
        rw [renV3_dict]
        dsimp only
        have ihs := cleanRec_ren3 fuel acc.1 acc'.1 sub h1 he.2
        apply ih _ _ (fun e' he' => hl e' (List.mem_cons_of_mem _ he'))
        · exact ihs.1
        · dsimp only
          rw [ihs.2, h2, setKey_ren3 hf hg hh he.1 _ _ h3, renV3_dict]
        · intro x hx
          rcases keys_setKey_sub hx with rfl | hx
          · exact he.1
          · exact h3 x hx

/-- **`_clean` commutes with the renaming** of the three kinds of placeholder ids, in particular on the include table
    (where `_clean` merges identical directives of one level): no restriction to pairwise distinct directive texts -/
theorem clean_ren3 (s : SD) (hw : PhWF3Es s.data) : (renSD3 f g h s).clean = renSD3 f g h s.clean := by
  have e1 : s.clean = { (cleanRec (depthV (.dict s.data) + 1) s s.data).1 with
      data := (cleanRec (depthV (.dict s.data) + 1) s s.data).2 } := rfl
  have e2 : (renSD3 f g h s).clean =
      { (cleanRec (depthV (.dict (renEs3 f g h s.data)) + 1) (renSD3 f g h s) (renEs3 f g h s.data)).1 with
        data := (cleanRec (depthV (.dict (renEs3 f g h s.data)) + 1) (renSD3 f g h s) (renEs3 f g h s.data)).2 } := rfl
  have hd : depthV (.dict (renEs3 f g h s.data)) = depthV (.dict s.data) := by
    rw [← renV3_dict, depthV_ren3]
  rw [hd] at e2
  have hr := cleanRec_ren3 hf hg hh (depthV (.dict s.data) + 1) s (renSD3 f g h s) s.data ⟨rfl, rfl, rfl, rfl⟩ hw
  rw [e1, e2]
  obtain ⟨h1, h2⟩ := hr
  generalize cleanRec (depthV (.dict s.data) + 1) s s.data = r at h1 h2 ⊢
  generalize cleanRec (depthV (.dict s.data) + 1) (renSD3 f g h s) (renEs3 f g h s.data) = r' at h1 h2 ⊢
  exact sd_ext h2 h1.exprs h1.lineC h1.blockC h1.incl

end

/-! ## 3a. the comment- and directive-free part of a document is untouched by the renaming -/

theorem renScalar3_den (f g h : Nat → Nat) {l : Lit} (hl : l.ok = true) : renScalar3 f g h l.den = l.den := by
  cases l with
  | bare w =>
    simp only [Lit.ok] at hl
    obtain ⟨_, hc, hi, _, _, hq, _⟩ := C02.Main.srcWord_iff.mp hl
    simp only [Lit.den]
    cases hp : parseValue w with
    | str s =>
      have := C04.C04_idem hp (fun c hc => (hq c hc).1)
      subst this
      simp only [renScalar3, renWord3_plain f g h hc hi]
    | _ => rfl
  | quoted q b =>
    simp only [Lit.ok] at hl
    have hc := (C02.Main.srcQuoted_iff.mp hl).2.2.2.2.2.2.2.1
    have hi := (C02.Main.srcQuoted_iff.mp hl).2.2.2.2.2.2.2.2
    simp only [Lit.den]
    cases hp : parseValue b with
    | str s => simp only [renScalar3, renWord3_plain f g h hc hi]
    | _ => rfl

theorem renEs3_fix (f g h : Nat → Nat) : ∀ {es : Entries}, (∀ e ∈ es, renKey3 f g h e.1 = e.1 ∧ renV3 f g h e.2 = e.2) →
    renEs3 f g h es = es
  | [], _ => renEs3_nil f g h
  | (k, v) :: es, hall => by
    have h0 := hall (k, v) List.mem_cons_self
    rw [renEs3_cons, h0.1, h0.2, renEs3_fix f g h (fun e he => hall e (List.mem_cons_of_mem _ he))]

mutual
  theorem ren3_denSrcV (f g h : Nat → Nat) : ∀ (v : Src) (d : Nat), SrcWFV d v = true → renV3 f g h (denSrcV v) = denSrcV v
    | .lit l, _, hw => by
      simp only [SrcWFV, Bool.and_eq_true] at hw
      simp only [denSrcV, renV3_leaf, renScalar3_den f g h hw.1]
    | .dict es, d, hw => by
      simp only [SrcWFV] at hw
      simp only [denSrcV, renV3_dict]
      rw [renEs3_fix f g h (ren3_denSrcEs f g h es (d + 1) [] hw (fun _ he => nomatch he))]
    | .list xs, d, hw => by
      simp only [SrcWFV] at hw
      simp only [denSrcV, renV3_list, ren3_denSrcXs f g h xs (d + 1) hw]
  theorem ren3_denSrcEs (f g h : Nat → Nat) : ∀ (es : SrcEntries) (d : Nat) (acc : Entries), SrcWFEs d es = true →
      (∀ e ∈ acc, renKey3 f g h e.1 = e.1 ∧ renV3 f g h e.2 = e.2) →
      ∀ e ∈ denSrcEs es acc, renKey3 f g h e.1 = e.1 ∧ renV3 f g h e.2 = e.2
    | [], _, _, _, hacc => by simpa only [denSrcEs] using hacc
    | (k, v) :: es, d, acc, hw, hacc => by
      obtain ⟨hk, hp, hkey, hv, hes⟩ := C12.wf_cons hw
      obtain ⟨key, hkey⟩ := Option.isSome_iff_exists.mp hkey
      simp only [denSrcEs, hkey]
      apply ren3_denSrcEs f g h es d _ hes
      intro e he
      rcases C07.mem_setKey he with rfl | he
      · exact ⟨renKey3_noPh f g h (C02.Main.typedKey_noPh hk hkey), ren3_denSrcV f g h v d hv⟩
      · exact hacc e he
  theorem ren3_denSrcXs (f g h : Nat → Nat) : ∀ (xs : List Src) (d : Nat), SrcWFXs d xs = true →
      renXs3 f g h (denSrcXs xs) = denSrcXs xs
    | [], _, _ => by simp only [denSrcXs, renXs3_nil]
    | v :: xs, d, hw => by
      simp only [SrcWFXs, Bool.and_eq_true] at hw
      simp only [denSrcXs, renXs3_cons, ren3_denSrcV f g h v d hw.1, ren3_denSrcXs f g h xs d hw.2]
end

/-! ## 3b. the labelling of comments and directives is natural in the counter -/

mutual
  /-- number of block comments of a document with directives -/
  def nBlockIV : ISrc → Nat
    | .lit _ => 0
    | .dict items => nBlockII items
    | .list _ => 0
  def nBlockII : List IItem → Nat
    | [] => 0
    | .entry _ v :: r => nBlockIV v + nBlockII r
    | .lineC _ :: r => nBlockII r
    | .blockC _ :: r => 1 + nBlockII r
    | .incl _ _ :: r => nBlockII r
end

mutual
  theorem blockLen_labelIV (dir : Str) : ∀ (v : ISrc) (st : ILabelSt),
      (labelIV dir st v).1.c.blockC.length = st.c.blockC.length + nBlockIV v
    | .lit l, st => by simp only [labelIV, nBlockIV, Nat.add_zero]
    | .dict items, st => by simp only [labelIV, nBlockIV, blockLen_labelII dir items st]
    | .list xs, st => by simp only [labelIV, nBlockIV, Nat.add_zero]
  theorem blockLen_labelII (dir : Str) : ∀ (items : List IItem) (st : ILabelSt),
      (labelIItems dir st items).1.c.blockC.length = st.c.blockC.length + nBlockII items
    | [], st => by simp only [labelIItems, nBlockII, Nat.add_zero]
    | .entry k v :: r, st => by
      simp only [labelIItems, nBlockII, blockLen_labelII dir r _, blockLen_labelIV dir v st, Nat.add_assoc]
    | .lineC x :: r, st => by simp only [labelIItems, nBlockII, blockLen_labelII dir r _]
    | .blockC x :: r, st => by
      simp only [labelIItems, nBlockII, blockLen_labelII dir r _, List.length_append, List.length_singleton, Nat.add_assoc]
    | .incl q n :: r, st => by simp only [labelIItems, nBlockII, blockLen_labelII dir r _]
end

/-- two labelling states that differ by the renaming of the ids drawn from the global counter: those of the line
    comments and those of the include directives -/
structure StRel3 (f : Nat → Nat) (st₁ st₂ : ILabelSt) : Prop where
  counter : CRel f st₁.c.counter st₂.c.counter
  icounter : CRel f st₁.icounter st₂.icounter
  lineC : st₂.c.lineC = renTbl f st₁.c.lineC
  blockC : st₂.c.blockC = st₁.c.blockC
  incl : st₂.incl = renTbl f st₁.incl

theorem keysOK3_setKey {k : Key} {v : Val} {acc : Entries} (hk : KeyOK3 k) (hacc : ∀ x ∈ keys acc, KeyOK3 x) :
    ∀ x ∈ keys (setKey k v acc), KeyOK3 x := by
  intro x hx
  rcases keys_setKey_sub hx with rfl | hx
  · exact hk
  · exact hacc x hx

theorem keyOK3_typed {k : Str} {key : Key} (hk : isSrcWord k = true) (h : keyOfScalar (parseKey k) = some key) : KeyOK3 key :=
  Or.inr (Or.inr (Or.inr (C02.Main.typedKey_noPh hk h)))

theorem isPhTok_inclPh (i : Nat) : isPhTok (inclPh i) = true := (C12.Incl.inclPh_tok i).2

mutual
  /-- the meaning of a labelled document with directives has admissible keys at every dict level -/
  theorem phWF3_labelV (dir : Str) : ∀ (v : ISrc) (d : Nat) (st : ILabelSt), ISrcWFV d v = true →
      st.c.blockC.length + nBlockIV v ≤ 1000000 → PhWF3V (denPV (labelIV dir st v).2)
    | .lit l, _, _, _, _ => by simp only [labelIV, denPV, PhWF3V]
    | .dict items, d, st, hw, hb => by
      simp only [ISrcWFV] at hw
      simp only [nBlockIV] at hb
      simp only [labelIV, denPV, PhWF3V]
      exact phWF3_labelI dir items (d + 1) st [] hw hb (by simp only [PhWF3Es])
    | .list xs, _, _, _, _ => by simp only [labelIV, denPV, PhWF3V]
  theorem phWF3_labelI (dir : Str) : ∀ (items : List IItem) (d : Nat) (st : ILabelSt) (acc : Entries),
      ISrcWFItems d items = true → st.c.blockC.length + nBlockII items ≤ 1000000 → PhWF3Es acc →
      PhWF3Es (denPEs (labelIItems dir st items).2 acc)
    | [], _, _, _, _, _, hacc => by simpa only [labelIItems, denPEs] using hacc
    | .entry k v :: r, d, st, acc, hw, hb, hacc => by
      simp only [ISrcWFItems, Bool.and_eq_true] at hw
      obtain ⟨⟨⟨hk, hkey⟩, hv⟩, hr⟩ := hw
      obtain ⟨key, hkey⟩ := Option.isSome_iff_exists.mp hkey
      have hp : isPhTok k = false := (C02.srcWord_facts hk).2.1
      simp only [nBlockII] at hb
      simp only [labelIItems]
      rw [C12.denPEs_cons hp hkey]
      refine phWF3_labelI dir r d _ _ hr (by rw [blockLen_labelIV]; omega) ?_
      exact phWF3Es_setKey hacc (keyOK3_typed hk hkey) (phWF3_labelV dir v d st hv (by omega))
    | .lineC x :: r, d, st, acc, hw, hb, hacc => by
      simp only [ISrcWFItems, Bool.and_eq_true] at hw
      simp only [nBlockII] at hb
      simp only [labelIItems]
      rw [C12.denPEs_cons_ph (isPhTok_linePh _)]
      exact phWF3_labelI dir r d _ _ hw.2 hb
        (phWF3Es_setKey hacc (Or.inl ⟨_, C12.Incl.next_lt _, rfl⟩) (by simp only [PhWF3V]))
    | .blockC x :: r, d, st, acc, hw, hb, hacc => by
      simp only [ISrcWFItems, Bool.and_eq_true] at hw
      simp only [nBlockII] at hb
      simp only [labelIItems]
      rw [C12.denPEs_cons_ph (isPhTok_blockPh _)]
      refine phWF3_labelI dir r d _ _ hw.2 ?_
        (phWF3Es_setKey hacc (Or.inr (Or.inl ⟨_, by omega, rfl⟩)) (by simp only [PhWF3V]))
      simp only [List.length_append, List.length_singleton]; omega
    | .incl q n :: r, d, st, acc, hw, hb, hacc => by
      simp only [ISrcWFItems, Bool.and_eq_true] at hw
      simp only [nBlockII] at hb
      simp only [labelIItems]
      rw [C12.denPEs_cons_ph (isPhTok_inclPh _)]
      exact phWF3_labelI dir r d _ _ hw.2 hb
        (phWF3Es_setKey hacc (Or.inr (Or.inr (Or.inl ⟨_, C12.Incl.next_lt _, rfl⟩))) (by simp only [PhWF3V]))
end

section
variable {f : Nat → Nat} (hf : RenOK f)
include hf

mutual
  theorem label_nat3V (dir : Str) : ∀ (v : ISrc) (d : Nat) (st₁ st₂ : ILabelSt), ISrcWFV d v = true → StRel3 f st₁ st₂ →
      st₁.c.blockC.length + nBlockIV v ≤ 1000000 →
      StRel3 f (labelIV dir st₁ v).1 (labelIV dir st₂ v).1 ∧
        denPV (labelIV dir st₂ v).2 = renV3 f id f (denPV (labelIV dir st₁ v).2)
    | .lit l, _, _, _, hw, hs, _ => by
      simp only [ISrcWFV, Bool.and_eq_true] at hw
      simp only [labelIV, denPV, renV3_leaf, renScalar3_den f id f hw.1]
      exact ⟨hs, trivial⟩
    | .dict items, d, st₁, st₂, hw, hs, hb => by
      simp only [ISrcWFV] at hw
      simp only [nBlockIV] at hb
      have := label_nat3I dir items (d + 1) st₁ st₂ [] hw hs hb (fun _ hx => nomatch hx)
      rw [renEs3_nil] at this
      simp only [labelIV, denPV, renV3_dict]
      exact ⟨this.1, by rw [this.2]⟩
    | .list xs, d, _, _, hw, hs, _ => by
      simp only [ISrcWFV] at hw
      simp only [labelIV, denPV, renV3_list, ren3_denSrcXs f id f xs (d + 1) hw]
      exact ⟨hs, trivial⟩
  /-- **labelling from two counters related by `f`**: the states stay related (both counters, the line-comment table and
      the include table re-keyed by `f`, the block-comment table equal), and the meanings of the labelled documents
      differ by the renaming -/
  theorem label_nat3I (dir : Str) : ∀ (items : List IItem) (d : Nat) (st₁ st₂ : ILabelSt) (acc : Entries),
      ISrcWFItems d items = true → StRel3 f st₁ st₂ → st₁.c.blockC.length + nBlockII items ≤ 1000000 →
      (∀ x ∈ keys acc, KeyOK3 x) →
      StRel3 f (labelIItems dir st₁ items).1 (labelIItems dir st₂ items).1 ∧
        denPEs (labelIItems dir st₂ items).2 (renEs3 f id f acc) =
          renEs3 f id f (denPEs (labelIItems dir st₁ items).2 acc)
    | [], _, _, _, _, _, hs, _, _ => by
      simp only [labelIItems, denPEs]
      exact ⟨hs, trivial⟩
    | .entry k v :: r, d, st₁, st₂, acc, hw, hs, hb, hacc => by
      simp only [ISrcWFItems, Bool.and_eq_true] at hw
      obtain ⟨⟨⟨hk, hkey⟩, hv⟩, hr⟩ := hw
      obtain ⟨key, hkey⟩ := Option.isSome_iff_exists.mp hkey
      have hp : isPhTok k = false := (C02.srcWord_facts hk).2.1
      simp only [nBlockII] at hb
      have hV := label_nat3V dir v d st₁ st₂ hv hs (by omega)
      have hkOK := keyOK3_typed hk hkey
      have hI := label_nat3I dir r d (labelIV dir st₁ v).1 (labelIV dir st₂ v).1
        (setKey key (denPV (labelIV dir st₁ v).2) acc) hr hV.1
        (by rw [blockLen_labelIV]; omega) (keysOK3_setKey hkOK hacc)
      rw [setKey_ren3 hf renOK_id hf hkOK _ acc hacc, renKey3_noPh f id f (C02.Main.typedKey_noPh hk hkey), ← hV.2] at hI
      simp only [labelIItems]
      rw [C12.denPEs_cons hp hkey, C12.denPEs_cons hp hkey]
      exact hI
    | .lineC x :: r, d, st₁, st₂, acc, hw, hs, hb, hacc => by
      simp only [ISrcWFItems, Bool.and_eq_true] at hw
      simp only [nBlockII] at hb
      obtain ⟨hn1, hn2⟩ := hs.counter.next
      have hi := C12.Incl.next_lt st₁.c.counter
      have hkOK : KeyOK3 (.str (linePh (Counter.next Gen.counterLimit st₁.c.counter).1)) := Or.inl ⟨_, hi, rfl⟩
      have hst : StRel3 f
          { st₁ with c := { st₁.c with counter := (Counter.next Gen.counterLimit st₁.c.counter).2,
                                       lineC := st₁.c.lineC.set (Counter.next Gen.counterLimit st₁.c.counter).1 ('/' :: '/' :: x) } }
          { st₂ with c := { st₂.c with counter := (Counter.next Gen.counterLimit st₂.c.counter).2,
                                       lineC := st₂.c.lineC.set (Counter.next Gen.counterLimit st₂.c.counter).1 ('/' :: '/' :: x) } } :=
        ⟨hn2, hs.icounter, by simp only [hs.lineC, ← hn1, renTbl_set hf.inj], hs.blockC, hs.incl⟩
      have hI := label_nat3I dir r d _ _
        (setKey (.str (linePh (Counter.next Gen.counterLimit st₁.c.counter).1))
          (.leaf (.str (linePh (Counter.next Gen.counterLimit st₁.c.counter).1))) acc) hw.2 hst hb
        (keysOK3_setKey hkOK hacc)
      rw [setKey_ren3 hf renOK_id hf hkOK _ acc hacc, renV3_leaf] at hI
      simp only [renKey3, renScalar3, renWord3_linePh f id f hi, hn1] at hI
      simp only [labelIItems]
      rw [C12.denPEs_cons_ph (isPhTok_linePh _), C12.denPEs_cons_ph (isPhTok_linePh _)]
      exact hI
    | .blockC x :: r, d, st₁, st₂, acc, hw, hs, hb, hacc => by
      simp only [ISrcWFItems, Bool.and_eq_true] at hw
      simp only [nBlockII] at hb
      have hi : st₁.c.blockC.length < 1000000 := by omega
      have hkOK : KeyOK3 (.str (blockPh st₁.c.blockC.length)) := Or.inr (Or.inl ⟨_, hi, rfl⟩)
      have hst : StRel3 f
          { st₁ with c := { st₁.c with blockC := st₁.c.blockC ++ [(st₁.c.blockC.length, '/' :: '*' :: x ++ ['*', '/'])] } }
          { st₂ with c := { st₂.c with blockC := st₂.c.blockC ++ [(st₂.c.blockC.length, '/' :: '*' :: x ++ ['*', '/'])] } } :=
        ⟨hs.counter, hs.icounter, hs.lineC, by simp only [hs.blockC], hs.incl⟩
      have hI := label_nat3I dir r d _ _
        (setKey (.str (blockPh st₁.c.blockC.length)) (.leaf (.str (blockPh st₁.c.blockC.length))) acc) hw.2 hst
        (by simp only [List.length_append, List.length_singleton]; omega) (keysOK3_setKey hkOK hacc)
      rw [setKey_ren3 hf renOK_id hf hkOK _ acc hacc, renV3_leaf] at hI
      simp only [renKey3, renScalar3, renWord3_blockPh f id f hi, id] at hI
      simp only [labelIItems]
      rw [C12.denPEs_cons_ph (isPhTok_blockPh _), C12.denPEs_cons_ph (isPhTok_blockPh _), hs.blockC]
      rw [hs.blockC] at hI
      exact hI
    | .incl q n :: r, d, st₁, st₂, acc, hw, hs, hb, hacc => by
      simp only [ISrcWFItems, Bool.and_eq_true] at hw
      simp only [nBlockII] at hb
      obtain ⟨hn1, hn2⟩ := hs.icounter.next
      have hi := C12.Incl.next_lt st₁.icounter
      have hkOK : KeyOK3 (.str (inclPh (Counter.next Gen.counterLimit st₁.icounter).1)) :=
        Or.inr (Or.inr (Or.inl ⟨_, hi, rfl⟩))
      have hst : StRel3 f
          { st₁ with icounter := (Counter.next Gen.counterLimit st₁.icounter).2,
                     incl := st₁.incl.set (Counter.next Gen.counterLimit st₁.icounter).1 (inclEntry dir q n) }
          { st₂ with icounter := (Counter.next Gen.counterLimit st₂.icounter).2,
                     incl := st₂.incl.set (Counter.next Gen.counterLimit st₂.icounter).1 (inclEntry dir q n) } :=
        ⟨hs.counter, hn2, hs.lineC, hs.blockC, by simp only [hs.incl, ← hn1, renTbl_set hf.inj]⟩
      have hI := label_nat3I dir r d _ _
        (setKey (.str (inclPh (Counter.next Gen.counterLimit st₁.icounter).1))
          (.leaf (.str (inclPh (Counter.next Gen.counterLimit st₁.icounter).1))) acc) hw.2 hst hb
        (keysOK3_setKey hkOK hacc)
      rw [setKey_ren3 hf renOK_id hf hkOK _ acc hacc, renV3_leaf] at hI
      simp only [renKey3, renScalar3, renWord3_inclPh f id f hi, hn1] at hI
      simp only [labelIItems]
      rw [C12.denPEs_cons_ph (isPhTok_inclPh _), C12.denPEs_cons_ph (isPhTok_inclPh _)]
      exact hI
end

end

/-! ## 3c. `denI` is natural in the counter -/

theorem denI_unfold (dir : Str) (c : Counter) (items : List IItem) :
    denI dir c items =
      ({ data := denPEs (labelI dir c items).2 [], lineC := (labelI dir c items).1.c.lineC,
         blockC := (labelI dir c items).1.c.blockC, incl := (labelI dir c items).1.incl } : SD).clean := rfl

/-- **`labelI` is natural in the counter**: for any renaming `f` that carries the ids drawn from `c₁` to the ids drawn
    from `c₂`, the labelled documents mean the same up to `f`, and the tables the stages leave are the same up to
    re-keying by `f` (line comments, includes) resp. equal (block comments) -/
theorem labelI_natural_of {f : Nat → Nat} (hf : RenOK f) (dir : Str) {d : Nat} {items : List IItem} {c₁ c₂ : Counter}
    (hwf : ISrcWFItems d items = true) (hrel : CRel f c₁ c₂) (hb : nBlockII items ≤ 1000000) :
    denPEs (labelI dir c₂ items).2 [] = renEs3 f id f (denPEs (labelI dir c₁ items).2 []) ∧
      (labelI dir c₂ items).1.c.lineC = renTbl f (labelI dir c₁ items).1.c.lineC ∧
      (labelI dir c₂ items).1.c.blockC = (labelI dir c₁ items).1.c.blockC ∧
      (labelI dir c₂ items).1.incl = renTbl f (labelI dir c₁ items).1.incl ∧
      CRel f (labelI dir c₁ items).1.icounter (labelI dir c₂ items).1.icounter := by
  have hI := label_nat3I hf dir items d
    { c := { counter := c₁ }, icounter := C02.adv Gen.counterLimit (countLineItems items) c₁ }
    { c := { counter := c₂ }, icounter := C02.adv Gen.counterLimit (countLineItems items) c₂ } [] hwf
    ⟨hrel, CRel.adv _ hrel, rfl, rfl, rfl⟩ (by simpa using hb) (fun _ hx => nomatch hx)
  rw [renEs3_nil] at hI
  exact ⟨hI.2, hI.1.lineC, hI.1.blockC, hI.1.incl, hI.1.icounter⟩

/-- naturality for any renaming that carries the ids drawn from `c₁` to the ids drawn from `c₂` -/
theorem denI_natural_of {f : Nat → Nat} (hf : RenOK f) (dir : Str) {d : Nat} {items : List IItem} {c₁ c₂ : Counter}
    (hwf : ISrcWFItems d items = true) (hrel : CRel f c₁ c₂) (hb : nBlockII items ≤ 1000000) :
    denI dir c₂ items = renSD' f id (denI dir c₁ items) := by
  obtain ⟨h1, h2, h3, h4, _⟩ := labelI_natural_of hf dir hwf hrel hb
  have hw : PhWF3Es (denPEs (labelI dir c₁ items).2 []) :=
    phWF3_labelI dir items d _ [] hwf (by simpa using hb) (by simp only [PhWF3Es])
  rw [denI_unfold, denI_unfold, renSD', ← clean_ren3 hf renOK_id hf _ hw]
  congr 1
  exact sd_ext h1 rfl h2 (by rw [h3]; exact (renTbl_id _).symm) h4

/-- **naturality of the reader's stages in the counter, documents with include directives.**  Two valid counters; the
    rotation `shift c₁ c₂` of the id space is injective, maps the ids drawn from `c₁` to the ids drawn from `c₂` one by
    one, and the meaning of the document read from `c₂` is the meaning read from `c₁` with the line-comment ids AND the
    include ids renamed by it (data and both tables), block-comment ids untouched.  `_clean`, which merges identical
    directives of one level, is included: no restriction to pairwise distinct directive texts, and no bound on the
    number of line comments and directives (the rotation is a bijection of `0 … 999999`). -/
theorem denI_natural (dir : Str) {d : Nat} {items : List IItem} {c₁ c₂ : Counter} (hwf : ISrcWFItems d items = true)
    (hc₁ : C13.ValidCounter Gen.counterLimit c₁) (hc₂ : C13.ValidCounter Gen.counterLimit c₂)
    (hb : nBlockII items ≤ 1000000) :
    Function.Injective (shift c₁ c₂) ∧
      (∀ k, (alloc Gen.counterLimit k c₁).map (shift c₁ c₂) = alloc Gen.counterLimit k c₂) ∧
      denI dir c₂ items = renSD' (shift c₁ c₂) id (denI dir c₁ items) :=
  ⟨(shift_ok c₁ c₂).inj, shift_rel hc₁ hc₂, denI_natural_of (shift_ok c₁ c₂) dir hwf (shift_rel hc₁ hc₂) hb⟩

/-! ## 4. the reader: two reads of the same text from two counter values -/

/-- the counter after the read (`C12_read_included`): advanced by the line comments, the directives, the quoted strings -/
def counterAfterI (dir : Str) (c : Counter) (items : List IItem) : Counter :=
  C02.adv Gen.counterLimit (C02.countQuotedEs (plainIItems items)) (labelI dir c items).1.icounter

/-- **C08 for documents with comments and include directives.**  For every well-formed document, every admissible
    layout, every directory and every two valid counter values, both reads succeed, and the second result is the first
    one with the line-comment ids and the include ids renamed by the rotation `shift c₁ c₂`. -/
theorem C08_included_read_natural {items : List IItem} {gaps : List Str} {tail : Str} (dir : Str) {c₁ c₂ : Counter}
    (hwf : ISrcWFItems 1 items = true) (hg : GapsOKI (itoksItems items) gaps tail = true)
    (htail : items = [] → tail.all isWs = true)
    (hc₁ : C13.ValidCounter Gen.counterLimit c₁) (hc₂ : C13.ValidCounter Gen.counterLimit c₂)
    (hn : C02.countQuotedEs (plainIItems items) ≤ Gen.counterLimit + 1)
    (hd : C02.DocKeysAbsent (plainIItems items)) (hb : nBlockII items ≤ 1000000) :
    parseNative true dir c₁ (spreadC (itoksItems items) gaps tail) = .ok (denI dir c₁ items, counterAfterI dir c₁ items) ∧
    parseNative true dir c₂ (spreadC (itoksItems items) gaps tail) =
      .ok (renSD' (shift c₁ c₂) id (denI dir c₁ items), counterAfterI dir c₂ items) := by
  refine ⟨C12.C12_read_included dir c₁ hwf hg htail hc₁ hn hd, ?_⟩
  rw [C12.C12_read_included dir c₂ hwf hg htail hc₂ hn hd, (denI_natural dir hwf hc₁ hc₂ hb).2.2]
  rfl

/-- the counters the two reads leave behind are related by the same rotation -/
theorem counterAfterI_rel (dir : Str) {d : Nat} {c₁ c₂ : Counter} {items : List IItem} (hwf : ISrcWFItems d items = true)
    (hc₁ : C13.ValidCounter Gen.counterLimit c₁) (hc₂ : C13.ValidCounter Gen.counterLimit c₂)
    (hb : nBlockII items ≤ 1000000) :
    CRel (shift c₁ c₂) (counterAfterI dir c₁ items) (counterAfterI dir c₂ items) :=
  CRel.adv _ (labelI_natural_of (shift_ok c₁ c₂) dir hwf (shift_rel hc₁ hc₂) hb).2.2.2.2

/-- what the renaming leaves alone: the comment texts and the include entries (directive text, file name, path) in
    table order, the whole block-comment table, the expressions -/
theorem renSD'_texts (f : Nat → Nat) (sd : SD) :
    (renSD' f id sd).lineC.map (·.2) = sd.lineC.map (·.2) ∧ (renSD' f id sd).blockC = sd.blockC ∧
      (renSD' f id sd).exprs = sd.exprs ∧ (renSD' f id sd).incl.map (·.2) = sd.incl.map (·.2) :=
  ⟨renTbl_texts f _, renTbl_id _, rfl, renTbl_texts f _⟩

/-! ### the data with the placeholder entries stripped does not depend on the counter at all -/

mutual
  theorem strip_denIV (dir : Str) : ∀ (v : ISrc) (d : Nat) (st : ILabelSt), ISrcWFV d v = true →
      C12.stripPhV (denPV (labelIV dir st v).2) = denSrcV (plainIV v)
    | .lit l, _, _, _ => by simp only [labelIV, denPV, C12.stripPhV, plainIV, denSrcV]
    | .dict items, d, st, hw => by
      simp only [ISrcWFV] at hw
      simp only [labelIV, denPV, C12.stripPhV, plainIV, denSrcV, strip_denII dir items (d + 1) st [] hw, C12.stripPhEs_nil]
    | .list xs, d, st, hw => by
      simp only [ISrcWFV] at hw
      simp only [labelIV, denPV, C12.stripPhV, plainIV, denSrcV, C12.strip_denSrcXs xs (d + 1) hw]
  /-- stripping the meaning of the labelled document gives the meaning of the document without comments and directives -/
  theorem strip_denII (dir : Str) : ∀ (items : List IItem) (d : Nat) (st : ILabelSt) (acc : Entries),
      ISrcWFItems d items = true →
      C12.stripPhEs (denPEs (labelIItems dir st items).2 acc) = denSrcEs (plainIItems items) (C12.stripPhEs acc)
    | [], _, _, _, _ => by simp only [labelIItems, denPEs, plainIItems, denSrcEs]
    | .entry k v :: r, d, st, acc, hw => by
      simp only [ISrcWFItems, Bool.and_eq_true] at hw
      obtain ⟨⟨⟨hk, hkey⟩, hv⟩, hr⟩ := hw
      obtain ⟨key, hkey⟩ := Option.isSome_iff_exists.mp hkey
      have hp : isPhTok k = false := (C02.srcWord_facts hk).2.1
      simp only [labelIItems, plainIItems]
      rw [C12.denPEs_cons hp hkey, strip_denII dir r d _ _ hr, C12.strip_setKey (C12.typedKey_not_phKey hk hkey),
        strip_denIV dir v d st hv]
      simp only [denSrcEs, hkey]
    | .lineC x :: r, d, st, acc, hw => by
      simp only [ISrcWFItems, Bool.and_eq_true] at hw
      simp only [labelIItems, plainIItems]
      rw [C12.denPEs_cons_ph (isPhTok_linePh _), strip_denII dir r d _ _ hw.2,
        C12.strip_setKey_ph (k := .str _) (isPhTok_linePh _)]
    | .blockC x :: r, d, st, acc, hw => by
      simp only [ISrcWFItems, Bool.and_eq_true] at hw
      simp only [labelIItems, plainIItems]
      rw [C12.denPEs_cons_ph (isPhTok_blockPh _), strip_denII dir r d _ _ hw.2,
        C12.strip_setKey_ph (k := .str _) (isPhTok_blockPh _)]
    | .incl q n :: r, d, st, acc, hw => by
      simp only [ISrcWFItems, Bool.and_eq_true] at hw
      simp only [labelIItems, plainIItems]
      rw [C12.denPEs_cons_ph (isPhTok_inclPh _), strip_denII dir r d _ _ hw.2,
        C12.strip_setKey_ph (k := .str _) (isPhTok_inclPh _)]
end

/-- the data of a read with the comment and include entries stripped at every level is the meaning of the document
    without comments and directives: the counter does not occur in it -/
theorem denI_stripped (dir : Str) {d : Nat} {items : List IItem} (c : Counter) (hwf : ISrcWFItems d items = true) :
    C12.stripPhEs (denI dir c items).data = denSrcEs (plainIItems items) [] := by
  rw [denI_unfold, C12.strip_clean _ (C12.denP_nodup _ [] C07.nodupV_nil)]
  exact (strip_denII dir items d _ [] hwf).trans (by rw [C12.stripPhEs_nil])

/-- corollary: the stripped data, the line-comment texts, the include entries (directive, file name, path) in table
    order and the block-comment table are *equal* in the two reads -/
theorem C08_included_read_stripped {items : List IItem} {gaps : List Str} {tail : Str} (dir : Str) {c₁ c₂ : Counter}
    (hwf : ISrcWFItems 1 items = true) (hg : GapsOKI (itoksItems items) gaps tail = true)
    (htail : items = [] → tail.all isWs = true)
    (hc₁ : C13.ValidCounter Gen.counterLimit c₁) (hc₂ : C13.ValidCounter Gen.counterLimit c₂)
    (hn : C02.countQuotedEs (plainIItems items) ≤ Gen.counterLimit + 1)
    (hd : C02.DocKeysAbsent (plainIItems items)) (hb : nBlockII items ≤ 1000000) :
    ∃ sd₁ sd₂ c₁' c₂',
      parseNative true dir c₁ (spreadC (itoksItems items) gaps tail) = .ok (sd₁, c₁') ∧
      parseNative true dir c₂ (spreadC (itoksItems items) gaps tail) = .ok (sd₂, c₂') ∧
      C12.stripPhEs sd₂.data = C12.stripPhEs sd₁.data ∧
      sd₂.lineC.map (·.2) = sd₁.lineC.map (·.2) ∧ sd₂.blockC = sd₁.blockC ∧
      sd₂.incl.map (·.2) = sd₁.incl.map (·.2) ∧
      sd₂.incl.map (·.2.file) = sd₁.incl.map (·.2.file) := by
  obtain ⟨h₁, h₂⟩ := C08_included_read_natural dir hwf hg htail hc₁ hc₂ hn hd hb
  have h4 := (renSD'_texts (shift c₁ c₂) (denI dir c₁ items)).2.2.2
  refine ⟨_, _, _, _, h₁, h₂, ?_, (renSD'_texts _ _).1, (renSD'_texts _ _).2.1, h4, ?_⟩
  · rw [← (denI_natural dir hwf hc₁ hc₂ hb).2.2, denI_stripped dir c₂ hwf, denI_stripped dir c₁ hwf]
  · have := congrArg (List.map (·.file)) h4
    rw [List.map_map, List.map_map] at this
    exact this

/-! ## 5. the canonical form, extended with the include ids -/

theorem wordIds_ph (kw : Str) {i : Nat} (hi : i < 1000000) : wordIds kw (kw ++ padSix i) = [i] := by
  simp only [wordIds, phIdOf_ph kw hi, Option.toList_some]

theorem wordIds_none {kw s : Str} (h : ∀ i, i < 1000000 → s ≠ kw ++ padSix i) : wordIds kw s = [] := by
  cases hp : phIdOf kw s with
  | none => simp only [wordIds, hp, Option.toList_none]
  | some i => exact absurd (phIdOf_some hp).2 (h i (phIdOf_some hp).1)

theorem wordIds_line_linePh {i : Nat} (hi : i < 1000000) : wordIds kwLine (linePh i) = [i] := wordIds_ph kwLine hi
theorem wordIds_block_blockPh {i : Nat} (hi : i < 1000000) : wordIds kwBlock (blockPh i) = [i] := wordIds_ph kwBlock hi
theorem wordIds_incl_inclPh {i : Nat} (hi : i < 1000000) : wordIds kwIncl (inclPh i) = [i] := wordIds_ph kwIncl hi

theorem renWord3_other (f g h : Nat → Nat) {s : Str} (h1 : ∀ i, i < 1000000 → s ≠ linePh i)
    (h2 : ∀ i, i < 1000000 → s ≠ blockPh i) (h3 : ∀ i, i < 1000000 → s ≠ inclPh i) : renWord3 f g h s = s := by
  rcases renWord3_spec f g h s with ⟨i, hi, e, _⟩ | ⟨i, hi, e, _⟩ | ⟨i, hi, e, _⟩ | ⟨_, _, _, r⟩
  · exact absurd e (h1 i hi)
  · exact absurd e (h2 i hi)
  · exact absurd e (h3 i hi)
  · exact r

theorem wordIds3_line (f g h : Nat → Nat) (s : Str) (hb : ∀ i ∈ wordIds kwLine s, f i < 1000000) :
    wordIds kwLine (renWord3 f g h s) = (wordIds kwLine s).map f := by
  rcases renWord3_spec f g h s with ⟨i, hi, e, r⟩ | ⟨i, hi, e, r⟩ | ⟨i, hi, e, r⟩ | ⟨h1, h2, h3, r⟩
  · have hfi := hb i (by rw [e, wordIds_line_linePh hi]; exact List.mem_singleton.mpr rfl)
    rw [r, e, wordIds_line_linePh hi, wordIds_line_linePh hfi]; rfl
  · rw [r, e]; simp only [wordIds, phIdOf_line_blockPh, Option.toList_none, List.map_nil]
  · rw [r, e]; simp only [wordIds, phIdOf_line_inclPh, Option.toList_none, List.map_nil]
  · rw [r, wordIds_none h1]; rfl

theorem wordIds3_block (f g h : Nat → Nat) (s : Str) (hb : ∀ i ∈ wordIds kwBlock s, g i < 1000000) :
    wordIds kwBlock (renWord3 f g h s) = (wordIds kwBlock s).map g := by
  rcases renWord3_spec f g h s with ⟨i, hi, e, r⟩ | ⟨i, hi, e, r⟩ | ⟨i, hi, e, r⟩ | ⟨h1, h2, h3, r⟩
  · rw [r, e]; simp only [wordIds, phIdOf_block_linePh, Option.toList_none, List.map_nil]
  · have hgi := hb i (by rw [e, wordIds_block_blockPh hi]; exact List.mem_singleton.mpr rfl)
    rw [r, e, wordIds_block_blockPh hi, wordIds_block_blockPh hgi]; rfl
  · rw [r, e]; simp only [wordIds, phIdOf_block_inclPh, Option.toList_none, List.map_nil]
  · rw [r, wordIds_none h2]; rfl

theorem wordIds3_incl (f g h : Nat → Nat) (s : Str) (hb : ∀ i ∈ wordIds kwIncl s, h i < 1000000) :
    wordIds kwIncl (renWord3 f g h s) = (wordIds kwIncl s).map h := by
  rcases renWord3_spec f g h s with ⟨i, hi, e, r⟩ | ⟨i, hi, e, r⟩ | ⟨i, hi, e, r⟩ | ⟨h1, h2, h3, r⟩
  · rw [r, e]; simp only [wordIds, phIdOf_incl_linePh, Option.toList_none, List.map_nil]
  · rw [r, e]; simp only [wordIds, phIdOf_incl_blockPh, Option.toList_none, List.map_nil]
  · have hhi := hb i (by rw [e, wordIds_incl_inclPh hi]; exact List.mem_singleton.mpr rfl)
    rw [r, e, wordIds_incl_inclPh hi, wordIds_incl_inclPh hhi]; rfl
  · rw [r, wordIds_none h3]; rfl

theorem renWord3_comp (F G H f g h : Nat → Nat) (s : Str) (hl : ∀ i ∈ wordIds kwLine s, f i < 1000000)
    (hb : ∀ i ∈ wordIds kwBlock s, g i < 1000000) (hi : ∀ i ∈ wordIds kwIncl s, h i < 1000000) :
    renWord3 F G H (renWord3 f g h s) = renWord3 (F ∘ f) (G ∘ g) (H ∘ h) s := by
  rcases renWord3_spec f g h s with ⟨i, hi', e, r⟩ | ⟨i, hi', e, r⟩ | ⟨i, hi', e, r⟩ | ⟨h1, h2, h3, r⟩
  · have hfi := hl i (by rw [e, wordIds_line_linePh hi']; exact List.mem_singleton.mpr rfl)
    rw [r, e, renWord3_linePh F G H hfi, renWord3_linePh _ _ _ hi']; rfl
  · have hgi := hb i (by rw [e, wordIds_block_blockPh hi']; exact List.mem_singleton.mpr rfl)
    rw [r, e, renWord3_blockPh F G H hgi, renWord3_blockPh _ _ _ hi']; rfl
  · have hhi := hi i (by rw [e, wordIds_incl_inclPh hi']; exact List.mem_singleton.mpr rfl)
    rw [r, e, renWord3_inclPh F G H hhi, renWord3_inclPh _ _ _ hi']; rfl
  · rw [r, renWord3_other F G H h1 h2 h3, renWord3_other _ _ _ h1 h2 h3]

theorem renWord3_congr {F G H F' G' H' : Nat → Nat} (s : Str) (hl : ∀ i ∈ wordIds kwLine s, F i = F' i)
    (hb : ∀ i ∈ wordIds kwBlock s, G i = G' i) (hi : ∀ i ∈ wordIds kwIncl s, H i = H' i) :
    renWord3 F G H s = renWord3 F' G' H' s := by
  rcases renWord3_spec F G H s with ⟨i, hi', e, r⟩ | ⟨i, hi', e, r⟩ | ⟨i, hi', e, r⟩ | ⟨h1, h2, h3, r⟩
  · rw [r, e, renWord3_linePh _ _ _ hi', hl i (by rw [e, wordIds_line_linePh hi']; exact List.mem_singleton.mpr rfl)]
  · rw [r, e, renWord3_blockPh _ _ _ hi', hb i (by rw [e, wordIds_block_blockPh hi']; exact List.mem_singleton.mpr rfl)]
  · rw [r, e, renWord3_inclPh _ _ _ hi', hi i (by rw [e, wordIds_incl_inclPh hi']; exact List.mem_singleton.mpr rfl)]
  · rw [r, renWord3_other _ _ _ h1 h2 h3]

/-- the word-level facts `wordIds3_line` / `wordIds3_block` / `wordIds3_incl`, abstracted over the kind -/
def WordNat3 (kw : Str) (m f g h : Nat → Nat) : Prop :=
  ∀ s, (∀ i ∈ wordIds kw s, m i < 1000000) → wordIds kw (renWord3 f g h s) = (wordIds kw s).map m

theorem wordNat3_line (f g h : Nat → Nat) : WordNat3 kwLine f f g h := wordIds3_line f g h
theorem wordNat3_block (f g h : Nat → Nat) : WordNat3 kwBlock g f g h := wordIds3_block f g h
theorem wordNat3_incl (f g h : Nat → Nat) : WordNat3 kwIncl h f g h := wordIds3_incl f g h

theorem keyIds_ren3 {kw : Str} {m f g h : Nat → Nat} (hw : WordNat3 kw m f g h) (k : Key)
    (hb : ∀ i ∈ keyIds kw k, m i < 1000000) : keyIds kw (renKey3 f g h k) = (keyIds kw k).map m := by
  cases k with
  | int z => rfl
  | str s => exact hw s hb

theorem scalarIds_ren3 {kw : Str} {m f g h : Nat → Nat} (hw : WordNat3 kw m f g h) (x : Scalar)
    (hb : ∀ i ∈ scalarIds kw x, m i < 1000000) : scalarIds kw (renScalar3 f g h x) = (scalarIds kw x).map m := by
  cases x with
  | str s => exact hw s hb
  | _ => rfl

mutual
  theorem idsV_ren3 {kw : Str} {m f g h : Nat → Nat} (hw : WordNat3 kw m f g h) : ∀ (v : Val),
      (∀ i ∈ idsV kw v, m i < 1000000) → idsV kw (renV3 f g h v) = (idsV kw v).map m
    | .leaf x, hb => by
      rw [idsV_leaf] at hb
      rw [renV3_leaf, idsV_leaf, idsV_leaf, scalarIds_ren3 hw x hb]
    | .dict es, hb => by
      rw [idsV_dict] at hb
      rw [renV3_dict, idsV_dict, idsV_dict, idsEs_ren3 hw es hb]
    | .list xs, hb => by
      rw [idsV_list] at hb
      rw [renV3_list, idsV_list, idsV_list, idsXs_ren3 hw xs hb]
  theorem idsEs_ren3 {kw : Str} {m f g h : Nat → Nat} (hw : WordNat3 kw m f g h) : ∀ (es : Entries),
      (∀ i ∈ idsEs kw es, m i < 1000000) → idsEs kw (renEs3 f g h es) = (idsEs kw es).map m
    | [], _ => by rw [renEs3_nil, idsEs_nil, List.map_nil]
    | (k, v) :: es, hb => by
      rw [idsEs_cons] at hb
      rw [renEs3_cons, idsEs_cons, idsEs_cons, List.map_append, List.map_append,
        keyIds_ren3 hw k (fun i hi => hb i (by simp [hi])),
        idsV_ren3 hw v (fun i hi => hb i (by simp [hi])),
        idsEs_ren3 hw es (fun i hi => hb i (by simp [hi]))]
  theorem idsXs_ren3 {kw : Str} {m f g h : Nat → Nat} (hw : WordNat3 kw m f g h) : ∀ (xs : List Val),
      (∀ i ∈ idsXs kw xs, m i < 1000000) → idsXs kw (renXs3 f g h xs) = (idsXs kw xs).map m
    | [], _ => by rw [renXs3_nil, idsXs_nil, List.map_nil]
    | v :: xs, hb => by
      rw [idsXs_cons] at hb
      rw [renXs3_cons, idsXs_cons, idsXs_cons, List.map_append,
        idsV_ren3 hw v (fun i hi => hb i (by simp [hi])),
        idsXs_ren3 hw xs (fun i hi => hb i (by simp [hi]))]
end

theorem renKey3_comp (F G H f g h : Nat → Nat) (k : Key) (hl : ∀ i ∈ keyIds kwLine k, f i < 1000000)
    (hb : ∀ i ∈ keyIds kwBlock k, g i < 1000000) (hi : ∀ i ∈ keyIds kwIncl k, h i < 1000000) :
    renKey3 F G H (renKey3 f g h k) = renKey3 (F ∘ f) (G ∘ g) (H ∘ h) k := by
  cases k with
  | int z => rfl
  | str s => simp only [renKey3]; rw [renWord3_comp F G H f g h s hl hb hi]

theorem renScalar3_comp (F G H f g h : Nat → Nat) (x : Scalar) (hl : ∀ i ∈ scalarIds kwLine x, f i < 1000000)
    (hb : ∀ i ∈ scalarIds kwBlock x, g i < 1000000) (hi : ∀ i ∈ scalarIds kwIncl x, h i < 1000000) :
    renScalar3 F G H (renScalar3 f g h x) = renScalar3 (F ∘ f) (G ∘ g) (H ∘ h) x := by
  cases x with
  | str s => simp only [renScalar3]; rw [renWord3_comp F G H f g h s hl hb hi]
  | _ => rfl

mutual
  theorem renV3_comp (F G H f g h : Nat → Nat) : ∀ (v : Val), (∀ i ∈ idsV kwLine v, f i < 1000000) →
      (∀ i ∈ idsV kwBlock v, g i < 1000000) → (∀ i ∈ idsV kwIncl v, h i < 1000000) →
      renV3 F G H (renV3 f g h v) = renV3 (F ∘ f) (G ∘ g) (H ∘ h) v
    | .leaf x, hl, hb, hi => by
      rw [idsV_leaf] at hl hb hi
      rw [renV3_leaf, renV3_leaf, renV3_leaf, renScalar3_comp F G H f g h x hl hb hi]
    | .dict es, hl, hb, hi => by
      rw [idsV_dict] at hl hb hi
      rw [renV3_dict, renV3_dict, renV3_dict, renEs3_comp F G H f g h es hl hb hi]
    | .list xs, hl, hb, hi => by
      rw [idsV_list] at hl hb hi
      rw [renV3_list, renV3_list, renV3_list, renXs3_comp F G H f g h xs hl hb hi]
  theorem renEs3_comp (F G H f g h : Nat → Nat) : ∀ (es : Entries), (∀ i ∈ idsEs kwLine es, f i < 1000000) →
      (∀ i ∈ idsEs kwBlock es, g i < 1000000) → (∀ i ∈ idsEs kwIncl es, h i < 1000000) →
      renEs3 F G H (renEs3 f g h es) = renEs3 (F ∘ f) (G ∘ g) (H ∘ h) es
    | [], _, _, _ => by rw [renEs3_nil, renEs3_nil, renEs3_nil]
    | (k, v) :: es, hl, hb, hi => by
      rw [idsEs_cons] at hl hb hi
      rw [renEs3_cons, renEs3_cons, renEs3_cons,
        renKey3_comp F G H f g h k (fun i hm => hl i (by simp [hm])) (fun i hm => hb i (by simp [hm]))
          (fun i hm => hi i (by simp [hm])),
        renV3_comp F G H f g h v (fun i hm => hl i (by simp [hm])) (fun i hm => hb i (by simp [hm]))
          (fun i hm => hi i (by simp [hm])),
        renEs3_comp F G H f g h es (fun i hm => hl i (by simp [hm])) (fun i hm => hb i (by simp [hm]))
          (fun i hm => hi i (by simp [hm]))]
  theorem renXs3_comp (F G H f g h : Nat → Nat) : ∀ (xs : List Val), (∀ i ∈ idsXs kwLine xs, f i < 1000000) →
      (∀ i ∈ idsXs kwBlock xs, g i < 1000000) → (∀ i ∈ idsXs kwIncl xs, h i < 1000000) →
      renXs3 F G H (renXs3 f g h xs) = renXs3 (F ∘ f) (G ∘ g) (H ∘ h) xs
    | [], _, _, _ => by rw [renXs3_nil, renXs3_nil, renXs3_nil]
    | v :: xs, hl, hb, hi => by
      rw [idsXs_cons] at hl hb hi
      rw [renXs3_cons, renXs3_cons, renXs3_cons,
        renV3_comp F G H f g h v (fun i hm => hl i (by simp [hm])) (fun i hm => hb i (by simp [hm]))
          (fun i hm => hi i (by simp [hm])),
        renXs3_comp F G H f g h xs (fun i hm => hl i (by simp [hm])) (fun i hm => hb i (by simp [hm]))
          (fun i hm => hi i (by simp [hm]))]
end

theorem renKey3_congr {F G H F' G' H' : Nat → Nat} (k : Key) (hl : ∀ i ∈ keyIds kwLine k, F i = F' i)
    (hb : ∀ i ∈ keyIds kwBlock k, G i = G' i) (hi : ∀ i ∈ keyIds kwIncl k, H i = H' i) :
    renKey3 F G H k = renKey3 F' G' H' k := by
  cases k with
  | int z => rfl
  | str s => simp only [renKey3]; rw [renWord3_congr s hl hb hi]

theorem renScalar3_congr {F G H F' G' H' : Nat → Nat} (x : Scalar) (hl : ∀ i ∈ scalarIds kwLine x, F i = F' i)
    (hb : ∀ i ∈ scalarIds kwBlock x, G i = G' i) (hi : ∀ i ∈ scalarIds kwIncl x, H i = H' i) :
    renScalar3 F G H x = renScalar3 F' G' H' x := by
  cases x with
  | str s => simp only [renScalar3]; rw [renWord3_congr s hl hb hi]
  | _ => rfl

mutual
  theorem renV3_congr {F G H F' G' H' : Nat → Nat} : ∀ (v : Val), (∀ i ∈ idsV kwLine v, F i = F' i) →
      (∀ i ∈ idsV kwBlock v, G i = G' i) → (∀ i ∈ idsV kwIncl v, H i = H' i) → renV3 F G H v = renV3 F' G' H' v
    | .leaf x, hl, hb, hi => by
      rw [idsV_leaf] at hl hb hi
      rw [renV3_leaf, renV3_leaf, renScalar3_congr x hl hb hi]
    | .dict es, hl, hb, hi => by
      rw [idsV_dict] at hl hb hi
      rw [renV3_dict, renV3_dict, renEs3_congr es hl hb hi]
    | .list xs, hl, hb, hi => by
      rw [idsV_list] at hl hb hi
      rw [renV3_list, renV3_list, renXs3_congr xs hl hb hi]
  theorem renEs3_congr {F G H F' G' H' : Nat → Nat} : ∀ (es : Entries), (∀ i ∈ idsEs kwLine es, F i = F' i) →
      (∀ i ∈ idsEs kwBlock es, G i = G' i) → (∀ i ∈ idsEs kwIncl es, H i = H' i) →
      renEs3 F G H es = renEs3 F' G' H' es
    | [], _, _, _ => by rw [renEs3_nil, renEs3_nil]
    | (k, v) :: es, hl, hb, hi => by
      rw [idsEs_cons] at hl hb hi
      rw [renEs3_cons, renEs3_cons,
        renKey3_congr k (fun i hm => hl i (by simp [hm])) (fun i hm => hb i (by simp [hm])) (fun i hm => hi i (by simp [hm])),
        renV3_congr v (fun i hm => hl i (by simp [hm])) (fun i hm => hb i (by simp [hm])) (fun i hm => hi i (by simp [hm])),
        renEs3_congr es (fun i hm => hl i (by simp [hm])) (fun i hm => hb i (by simp [hm])) (fun i hm => hi i (by simp [hm]))]
  theorem renXs3_congr {F G H F' G' H' : Nat → Nat} : ∀ (xs : List Val), (∀ i ∈ idsXs kwLine xs, F i = F' i) →
      (∀ i ∈ idsXs kwBlock xs, G i = G' i) → (∀ i ∈ idsXs kwIncl xs, H i = H' i) →
      renXs3 F G H xs = renXs3 F' G' H' xs
    | [], _, _, _ => by rw [renXs3_nil, renXs3_nil]
    | v :: xs, hl, hb, hi => by
      rw [idsXs_cons] at hl hb hi
      rw [renXs3_cons, renXs3_cons,
        renV3_congr v (fun i hm => hl i (by simp [hm])) (fun i hm => hb i (by simp [hm])) (fun i hm => hi i (by simp [hm])),
        renXs3_congr xs (fun i hm => hl i (by simp [hm])) (fun i hm => hb i (by simp [hm])) (fun i hm => hi i (by simp [hm]))]
end

/-- all include ids of an `SDict`: those in the data (traversal order), then the keys of the include table -/
def inclIdsSD (sd : SD) : List Nat := idsEs kwIncl sd.data ++ sd.incl.map (·.1)

/-- the canonical form with the include ids: every line-comment id replaced by its rank of first appearance among the
    line-comment ids, every block-comment id by its rank among the block-comment ids, every include id by its rank
    among the include ids; the three tables re-keyed accordingly -/
def canonSD' (sd : SD) : SD :=
  renSD3 (rankOf (lineIdsSD sd)) (rankOf (blockIdsSD sd)) (rankOf (inclIdsSD sd)) sd

/-- **the canonical form forgets the ids**: it is invariant under every renaming that is injective on the ids occurring
    in the `SDict` (data and table keys, per kind) and keeps the ids occurring in the data six-digit -/
theorem canonSD'_ren (f g h : Nat → Nat) (sd : SD)
    (hfi : ∀ a ∈ lineIdsSD sd, ∀ b ∈ lineIdsSD sd, f a = f b → a = b)
    (hfb : ∀ a ∈ idsEs kwLine sd.data, f a < 1000000)
    (hgi : ∀ a ∈ blockIdsSD sd, ∀ b ∈ blockIdsSD sd, g a = g b → a = b)
    (hgb : ∀ a ∈ idsEs kwBlock sd.data, g a < 1000000)
    (hhi : ∀ a ∈ inclIdsSD sd, ∀ b ∈ inclIdsSD sd, h a = h b → a = b)
    (hhb : ∀ a ∈ idsEs kwIncl sd.data, h a < 1000000) :
    canonSD' (renSD3 f g h sd) = canonSD' sd := by
  have hL : lineIdsSD (renSD3 f g h sd) = (lineIdsSD sd).map f := by
    simp only [lineIdsSD, renSD3, List.map_append, idsEs_ren3 (wordNat3_line f g h) sd.data hfb, renTbl_keys]
  have hB : blockIdsSD (renSD3 f g h sd) = (blockIdsSD sd).map g := by
    simp only [blockIdsSD, renSD3, List.map_append, idsEs_ren3 (wordNat3_block f g h) sd.data hgb, renTbl_keys]
  have hI : inclIdsSD (renSD3 f g h sd) = (inclIdsSD sd).map h := by
    simp only [inclIdsSD, renSD3, List.map_append, idsEs_ren3 (wordNat3_incl f g h) sd.data hhb, renTbl_keys]
  simp only [canonSD']
  rw [hL, hB, hI]
  have eL : ∀ i ∈ lineIdsSD sd, (rankOf ((lineIdsSD sd).map f) ∘ f) i = rankOf (lineIdsSD sd) i :=
    fun i hi => rankOf_map hfi hi
  have eB : ∀ i ∈ blockIdsSD sd, (rankOf ((blockIdsSD sd).map g) ∘ g) i = rankOf (blockIdsSD sd) i :=
    fun i hi => rankOf_map hgi hi
  have eI : ∀ i ∈ inclIdsSD sd, (rankOf ((inclIdsSD sd).map h) ∘ h) i = rankOf (inclIdsSD sd) i :=
    fun i hi => rankOf_map hhi hi
  apply sd_ext
  · show renEs3 _ _ _ (renEs3 f g h sd.data) = renEs3 _ _ _ sd.data
    rw [renEs3_comp _ _ _ f g h sd.data hfb hgb hhb]
    exact renEs3_congr sd.data (fun i hi => eL i (List.mem_append_left _ hi)) (fun i hi => eB i (List.mem_append_left _ hi))
      (fun i hi => eI i (List.mem_append_left _ hi))
  · rfl
  · show renTbl _ (renTbl f sd.lineC) = renTbl _ sd.lineC
    rw [renTbl_comp]
    exact renTbl_congr _ (fun i hi => eL i (List.mem_append_right _ hi))
  · show renTbl _ (renTbl g sd.blockC) = renTbl _ sd.blockC
    rw [renTbl_comp]
    exact renTbl_congr _ (fun i hi => eB i (List.mem_append_right _ hi))
  · show renTbl _ (renTbl h sd.incl) = renTbl _ sd.incl
    rw [renTbl_comp]
    exact renTbl_congr _ (fun i hi => eI i (List.mem_append_right _ hi))

/-- the version for renamings that are injective everywhere -/
theorem canonSD'_ren' {f g h : Nat → Nat} (hf : RenOK f) (hg : RenOK g) (hh : RenOK h) (sd : SD) :
    canonSD' (renSD3 f g h sd) = canonSD' sd :=
  canonSD'_ren f g h sd (fun _ _ _ _ e => hf.inj e) (fun a ha => hf.lt a (idsEs_lt _ _ a ha)) (fun _ _ _ _ e => hg.inj e)
    (fun a ha => hg.lt a (idsEs_lt _ _ a ha)) (fun _ _ _ _ e => hh.inj e) (fun a ha => hh.lt a (idsEs_lt _ _ a ha))

/-- **the canonical forms of the meanings from two counters are equal** -/
theorem C08_denI_canon (dir : Str) {d : Nat} {items : List IItem} {c₁ c₂ : Counter} (hwf : ISrcWFItems d items = true)
    (hc₁ : C13.ValidCounter Gen.counterLimit c₁) (hc₂ : C13.ValidCounter Gen.counterLimit c₂)
    (hb : nBlockII items ≤ 1000000) :
    canonSD' (denI dir c₂ items) = canonSD' (denI dir c₁ items) := by
  rw [(denI_natural dir hwf hc₁ hc₂ hb).2.2, renSD', canonSD'_ren' (shift_ok c₁ c₂) renOK_id (shift_ok c₁ c₂)]

/-- **C08, documents with comments and include directives, canonical form**: the canonical forms of the results of two
    reads of the same text from two valid counter values are equal; both reads succeed -/
theorem C08_included_canon {items : List IItem} {gaps : List Str} {tail : Str} (dir : Str) {c₁ c₂ : Counter}
    (hwf : ISrcWFItems 1 items = true) (hg : GapsOKI (itoksItems items) gaps tail = true)
    (htail : items = [] → tail.all isWs = true)
    (hc₁ : C13.ValidCounter Gen.counterLimit c₁) (hc₂ : C13.ValidCounter Gen.counterLimit c₂)
    (hn : C02.countQuotedEs (plainIItems items) ≤ Gen.counterLimit + 1)
    (hd : C02.DocKeysAbsent (plainIItems items)) (hb : nBlockII items ≤ 1000000) :
    (parseNative true dir c₁ (spreadC (itoksItems items) gaps tail)).map (fun r => canonSD' r.1) =
        .ok (canonSD' (denI dir c₁ items)) ∧
      (parseNative true dir c₂ (spreadC (itoksItems items) gaps tail)).map (fun r => canonSD' r.1) =
        .ok (canonSD' (denI dir c₁ items)) := by
  obtain ⟨h₁, h₂⟩ := C08_included_read_natural dir hwf hg htail hc₁ hc₂ hn hd hb
  rw [h₁, h₂]
  exact ⟨rfl, by simp only [Except.map]; rw [renSD', canonSD'_ren' (shift_ok c₁ c₂) renOK_id (shift_ok c₁ c₂)]⟩

/-- … in the form "the same whatever value the counter has reached" -/
theorem C08_included_canon_eq {items : List IItem} {gaps : List Str} {tail : Str} (dir : Str) {c₁ c₂ : Counter}
    (hwf : ISrcWFItems 1 items = true) (hg : GapsOKI (itoksItems items) gaps tail = true)
    (htail : items = [] → tail.all isWs = true)
    (hc₁ : C13.ValidCounter Gen.counterLimit c₁) (hc₂ : C13.ValidCounter Gen.counterLimit c₂)
    (hn : C02.countQuotedEs (plainIItems items) ≤ Gen.counterLimit + 1)
    (hd : C02.DocKeysAbsent (plainIItems items)) (hb : nBlockII items ≤ 1000000) :
    (parseNative true dir c₁ (spreadC (itoksItems items) gaps tail)).map (fun r => canonSD' r.1) =
      (parseNative true dir c₂ (spreadC (itoksItems items) gaps tail)).map (fun r => canonSD' r.1) := by
  obtain ⟨h₁, h₂⟩ := C08_included_canon dir hwf hg htail hc₁ hc₂ hn hd hb
  rw [h₁, h₂]

/-! ## 6. non-vacuity: the example `exI` of `C12incl`, read from a fresh counter and from `999997`
    (line comments 999998, 999999; the wrap-around falls between the last line comment and the first directive) -/

theorem exI_blocks : nBlockII exI ≤ 1000000 := by decide +kernel

theorem ex_valid7 : C13.ValidCounter Gen.counterLimit (some 999997) := Or.inr ⟨999997, rfl, by decide⟩

/-- both reads of the example text succeed and differ by the renaming -/
theorem exI_reads (dir : Str) :
    parseNative true dir none exIText = .ok (denI dir none exI, counterAfterI dir none exI) ∧
    parseNative true dir (some 999997) exIText =
      .ok (renSD' (shift none (some 999997)) id (denI dir none exI), counterAfterI dir (some 999997) exI) := by
  rw [← exI_text]
  exact C08_included_read_natural dir exI_wf exIGaps_ok (fun h => by cases h) (Or.inl rfl) ex_valid7 (by decide +kernel)
    (by decide +kernel) exI_blocks

/-- the rotation on the example: `0 ↦ 999998`, `1 ↦ 999999`, `2 ↦ 0`, … -/
theorem exI_shift : (alloc Gen.counterLimit 5 none).map (shift none (some 999997)) = [999998, 999999, 0, 1, 2] ∧
    alloc Gen.counterLimit 5 (some 999997) = [999998, 999999, 0, 1, 2] := by decide +kernel

/-- the read from the fresh counter, evaluated: line comments 0, 1; directives 2, 3, 4 -/
theorem exI_none :
    (denI "/d".toList none exI).data =
      [ (.str "LINECOMMENT000000".toList, .leaf (.str "LINECOMMENT000000".toList)),
        (.str ['a'], .leaf (.int 1)),
        (.str "INCLUDE000002".toList, .leaf (.str "INCLUDE000002".toList)),
        (.str "BLOCKCOMMENT000000".toList, .leaf (.str "BLOCKCOMMENT000000".toList)),
        (.str ['n'], .dict [
          (.str ['p'], .leaf (.str "x y".toList)),
          (.str "INCLUDE000003".toList, .leaf (.str "INCLUDE000003".toList)),
          (.str "LINECOMMENT000001".toList, .leaf (.str "LINECOMMENT000001".toList))]),
        (.str "INCLUDE000004".toList, .leaf (.str "INCLUDE000004".toList)) ] ∧
    (denI "/d".toList none exI).lineC = [(0, "// head".toList), (1, "// in".toList)] ∧
    (denI "/d".toList none exI).blockC = [(0, "/* blk */".toList)] ∧
    (denI "/d".toList none exI).incl =
      [(2, { directive := "#include 'inc/a'".toList, file := "inc/a".toList, path := "/d/inc/a".toList }),
       (3, { directive := "#include \"../b\"".toList, file := "../b".toList, path := "/d/../b".toList }),
       (4, { directive := "#include /abs/c".toList, file := "/abs/c".toList, path := "/abs/c".toList })] := by
  refine ⟨?_, ?_, ?_, ?_⟩ <;> decide +kernel

/-- the read from `999997`, evaluated directly (not through the theorem): line comments 999998, 999999; directives
    0, 1, 2 -/
theorem exI_wrap :
    (denI "/d".toList (some 999997) exI).data =
      [ (.str "LINECOMMENT999998".toList, .leaf (.str "LINECOMMENT999998".toList)),
        (.str ['a'], .leaf (.int 1)),
        (.str "INCLUDE000000".toList, .leaf (.str "INCLUDE000000".toList)),
        (.str "BLOCKCOMMENT000000".toList, .leaf (.str "BLOCKCOMMENT000000".toList)),
        (.str ['n'], .dict [
          (.str ['p'], .leaf (.str "x y".toList)),
          (.str "INCLUDE000001".toList, .leaf (.str "INCLUDE000001".toList)),
          (.str "LINECOMMENT999999".toList, .leaf (.str "LINECOMMENT999999".toList))]),
        (.str "INCLUDE000002".toList, .leaf (.str "INCLUDE000002".toList)) ] ∧
    (denI "/d".toList (some 999997) exI).lineC = [(999998, "// head".toList), (999999, "// in".toList)] ∧
    (denI "/d".toList (some 999997) exI).blockC = [(0, "/* blk */".toList)] ∧
    (denI "/d".toList (some 999997) exI).incl =
      [(0, { directive := "#include 'inc/a'".toList, file := "inc/a".toList, path := "/d/inc/a".toList }),
       (1, { directive := "#include \"../b\"".toList, file := "../b".toList, path := "/d/../b".toList }),
       (2, { directive := "#include /abs/c".toList, file := "/abs/c".toList, path := "/abs/c".toList })] := by
  refine ⟨?_, ?_, ?_, ?_⟩ <;> decide +kernel

/-- the renaming of the first read, evaluated: it is the second read (an evaluation that does not go through
    `denI_natural`) -/
theorem exI_renamed :
    (renSD' (shift none (some 999997)) id (denI "/d".toList none exI)).data = (denI "/d".toList (some 999997) exI).data ∧
    (renSD' (shift none (some 999997)) id (denI "/d".toList none exI)).lineC = (denI "/d".toList (some 999997) exI).lineC ∧
    (renSD' (shift none (some 999997)) id (denI "/d".toList none exI)).blockC = (denI "/d".toList (some 999997) exI).blockC ∧
    (renSD' (shift none (some 999997)) id (denI "/d".toList none exI)).incl = (denI "/d".toList (some 999997) exI).incl := by
  refine ⟨?_, ?_, ?_, ?_⟩ <;> decide +kernel

/-- … and through the theorem -/
theorem exI_natural (dir : Str) :
    denI dir (some 999997) exI = renSD' (shift none (some 999997)) id (denI dir none exI) :=
  (denI_natural dir exI_wf (Or.inl rfl) ex_valid7 exI_blocks).2.2

/-- the two reads are different data and different include tables … -/
theorem exI_differ : (denI "/d".toList (some 999997) exI).data ≠ (denI "/d".toList none exI).data ∧
    (denI "/d".toList (some 999997) exI).incl ≠ (denI "/d".toList none exI).incl := by
  refine ⟨?_, ?_⟩ <;> decide +kernel

/-- … with the same canonical form -/
theorem exI_canon (dir : Str) : canonSD' (denI dir (some 999997) exI) = canonSD' (denI dir none exI) :=
  C08_denI_canon dir exI_wf (Or.inl rfl) ex_valid7 exI_blocks

/-- the canonical form of the wrapped read, evaluated: line comments 0, 1; directives 0, 1, 2 (each kind ranked by
    itself) -/
theorem exI_canon_eval :
    keys (canonSD' (denI "/d".toList (some 999997) exI)).data =
      [.str "LINECOMMENT000000".toList, .str ['a'], .str "INCLUDE000000".toList, .str "BLOCKCOMMENT000000".toList,
       .str ['n'], .str "INCLUDE000002".toList] ∧
    (canonSD' (denI "/d".toList (some 999997) exI)).lineC = (denI "/d".toList none exI).lineC ∧
    (canonSD' (denI "/d".toList (some 999997) exI)).blockC = (denI "/d".toList none exI).blockC ∧
    (canonSD' (denI "/d".toList (some 999997) exI)).incl.map (·.1) = [0, 1, 2] ∧
    (canonSD' (denI "/d".toList (some 999997) exI)).incl.map (·.2) = (denI "/d".toList none exI).incl.map (·.2) := by
  refine ⟨?_, ?_, ?_, ?_, ?_⟩ <;> decide +kernel

/-- `_clean` merging two identical directives of one level (`incl_clean_merges`), across the wrap-around: the ids drawn
    are 999999 and 0 resp. 0 and 1, the entry that survives is the first one in both reads, and the results are related
    by the rotation as the theorem says (here `hdist` of `C12_incl_table_result` fails) -/
theorem exMerge_natural :
    (denI "/d".toList none [.incl (some '\'') ['x'], .incl (some '\'') ['x']]).incl =
      [(0, { directive := "#include 'x'".toList, file := ['x'], path := "/d/x".toList })] ∧
    (denI "/d".toList (some 999998) [.incl (some '\'') ['x'], .incl (some '\'') ['x']]).incl =
      [(999999, { directive := "#include 'x'".toList, file := ['x'], path := "/d/x".toList })] ∧
    keys (denI "/d".toList (some 999998) [.incl (some '\'') ['x'], .incl (some '\'') ['x']]).data =
      [.str "INCLUDE999999".toList] ∧
    denI "/d".toList (some 999998) [.incl (some '\'') ['x'], .incl (some '\'') ['x']] =
      renSD' (shift none (some 999998)) id (denI "/d".toList none [.incl (some '\'') ['x'], .incl (some '\'') ['x']]) := by
  refine ⟨?_, ?_, ?_, ?_⟩
  · decide +kernel
  · decide +kernel
  · decide +kernel
  · exact (denI_natural (d := 1) "/d".toList (by decide +kernel) (Or.inl rfl) ex_valid (by decide +kernel)).2.2

/-! ## 7. what is false, on witnesses -/

/-- the include ids ARE drawn from the counter: the renaming of `C08nat` (line-comment ids only) does not relate the
    two reads of a document with directives -/
theorem exI_incl_ids_global :
    (renSD (shift none (some 999997)) id (denI "/d".toList none exI)).data ≠ (denI "/d".toList (some 999997) exI).data := by
  decide +kernel

/-- … and they move by the SAME rotation as the line-comment ids: leaving the include table alone (or re-keying it by
    anything else than the rotation) gives something else than the second read -/
theorem exI_incl_table_moves :
    (renSD3 (shift none (some 999997)) id id (denI "/d".toList none exI)).incl ≠ (denI "/d".toList (some 999997) exI).incl := by
  decide +kernel

/-- block-comment ids are not drawn from the counter (as in `C08nat`) -/
theorem exI_block_ids_local :
    (renSD3 (shift none (some 999997)) (shift none (some 999997)) (shift none (some 999997))
      (denI "/d".toList none exI)).data ≠ (denI "/d".toList (some 999997) exI).data := by
  decide +kernel

/-- **`_clean` does not commute with the extended renaming on arbitrary data** either: a key that merely *contains* an
    include placeholder (`xINCLUDE000001`) is read by `_clean` as a directive with the id 1, but is no placeholder word
    and is not renamed.  Hence the hypothesis `PhWF3Es` of `clean_ren3`; the meanings of documents with directives
    satisfy it (`phWF3_labelI`). -/
theorem clean_ren3_needs_wf :
    ¬ ∀ (f g h : Nat → Nat) (s : SD), RenOK f → RenOK g → RenOK h → (renSD3 f g h s).clean = renSD3 f g h s.clean := by
  intro hall
  have := congrArg SD.incl (hall id id swap01
    { data := [(.str "INCLUDE000000".toList, .leaf .none), (.str "xINCLUDE000001".toList, .leaf .none)],
      incl := [(0, { directive := ['a'], file := [], path := [] }), (1, { directive := ['a'], file := [], path := [] })] }
    renOK_id renOK_id swap01_ok)
  revert this
  decide +kernel

/-! ## 8. the extended renaming extends the renaming of `C08nat` -/

theorem renWord3_of_noIncl (f g h : Nat → Nat) {s : Str} (hs : wordIds kwIncl s = []) : renWord3 f g h s = renWord f g s := by
  cases h0 : phIdOf kwIncl s with
  | some i => simp [wordIds, h0] at hs
  | none => simp only [renWord3, h0]

mutual
  theorem renV3_of_noIncl (f g h : Nat → Nat) : ∀ (v : Val), idsV kwIncl v = [] → renV3 f g h v = renV f g v
    | .leaf x, hn => by
      rw [idsV_leaf] at hn
      rw [renV3_leaf, renV_leaf]
      cases x with
      | str s => simp only [renScalar3, renScalar, renWord3_of_noIncl f g h hn]
      | _ => rfl
    | .dict es, hn => by
      rw [idsV_dict] at hn
      rw [renV3_dict, renV_dict, renEs3_of_noIncl f g h es hn]
    | .list xs, hn => by
      rw [idsV_list] at hn
      rw [renV3_list, renV_list, renXs3_of_noIncl f g h xs hn]
  theorem renEs3_of_noIncl (f g h : Nat → Nat) : ∀ (es : Entries), idsEs kwIncl es = [] → renEs3 f g h es = renEs f g es
    | [], _ => by rw [renEs3_nil, renEs_nil]
    | (k, v) :: es, hn => by
      rw [idsEs_cons, List.append_eq_nil_iff, List.append_eq_nil_iff] at hn
      rw [renEs3_cons, renEs_cons, renV3_of_noIncl f g h v hn.1.2, renEs3_of_noIncl f g h es hn.2]
      cases k with
      | int z => rfl
      | str s => simp only [renKey3, renKey, renWord3_of_noIncl f g h hn.1.1]
  theorem renXs3_of_noIncl (f g h : Nat → Nat) : ∀ (xs : List Val), idsXs kwIncl xs = [] → renXs3 f g h xs = renXs f g xs
    | [], _ => by rw [renXs3_nil, renXs_nil]
    | v :: xs, hn => by
      rw [idsXs_cons, List.append_eq_nil_iff] at hn
      rw [renXs3_cons, renXs_cons, renV3_of_noIncl f g h v hn.1, renXs3_of_noIncl f g h xs hn.2]
end

/-- on an `SDict` without include placeholders and with an empty include table (e.g. the meaning of a commented document
    without directives) `renSD'` is the `renSD` of `C08nat` -/
theorem renSD'_of_noIncl (f g : Nat → Nat) (sd : SD) (hd : idsEs kwIncl sd.data = []) (ht : sd.incl = []) :
    renSD' f g sd = renSD f g sd := by
  apply sd_ext
  · exact renEs3_of_noIncl f g f sd.data hd
  · rfl
  · rfl
  · rfl
  · show renTbl f sd.incl = sd.incl
    rw [ht]; rfl

end DictIO.C08
