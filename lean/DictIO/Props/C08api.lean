/-
  C08 on the API state machine (`Model/Api.lean`): counter independence lifted to HISTORIES of API calls.

  C08: "The data returned by a read, and the bytes produced by a write or parse, are a function of the file contents and
  the options alone … whatever reads, writes, loads or resets happened before in the same process, and whatever value the
  internal placeholder counter has reached, including across its wrap-around."  Here: for every world (file system +
  counter), every history `ops : List ApiOp` run by `apiRun`, and a probe call appended to the history.

  Headline theorems
    `step_valid_counter`, `run_valid_counter`
        the invariant: EVERY API call (read, write, dump, parse, load, reset; completed or not), on every file system and
        every text, keeps the counter at a value that can occur (`none`, or `some n` with `n ≤ 999999`).  Proved through
        the whole reader: `parseNative_valid` (every lexer stage, arbitrary text), `parseJson_valid`,
        `mergeIncludesRec_valid` (every include graph), `readFile_valid`, `writeText_valid`.
    `C08_history_writes`   (contains `C08_history_reads`)
        a file that is an admissible layout of a well-formed comment-free document (`PlainDoc` = the hypotheses of
        `C08_data_counter_independent`), ANY read options, ANY history none of whose calls targets that file (reads,
        loads, resets never do; writes / dumps / parses to other files allowed): the probe `read p o` after the history
        returns exactly what it returns in the fresh world `{ fs := w.fs, c := none }`, and that is `plainProbe`, a closed
        form without file system and counter.  The whole `ApiOut` is equal (data and side tables), not only the data.
        `plainProbe_meaning`: for includes on / no scope / no order it is the documented meaning `denSrcEs es []`.
    `C08_history_reads`        the same for histories of reads, loads, resets (`C13api.IsReadOp`): no side condition.
    `C08_history_load`         the same for the probe `SDict().load(p)`.
    `C08_history_commented`, `C08_history_commented_reads`
        commented documents (`CommentedDoc` = the hypotheses of `C08_commented_canon_eq`), options: comments kept,
        `order = false`, no scope, includes on or off (`CommentedOpts`): the outputs agree after `canonOut`
        (`C08.canonSD` on the returned SDict: placeholder ids ↦ rank of first appearance).  Goes through the stages above
        the parser: `_merge_includes` on a dict without include entries is `_clean` twice (`selfMerge_eq`), `_clean` and
        `_remove_include_keys` commute with the renaming of ids (`C08.clean_ren`, `phWF_clean`, `removeIncludeKeys_ren`).
    `order_refutes`            REFUTATION: the same statement with `order = true` is false (witness below; finding D18).
    `C08_write_bytes_history`, `C08_write_unsupported_history`
        after ANY history (no side condition at all), from any world and ANY counter value, an overwriting `write` of
        any source (builtin dict or SDict) leaves in its target `writeBytes target order source`: a function of the
        target's suffix, the source and `order` alone; the counter is not moved.  `writeBytes_plain`: for a builtin dict
        it is `fmtPlain` of the retyped (ordered) dict.
    `C08_parse_bytes_history`
        `parse src` in overwrite mode on a comment-free source after any history that does not target the source: the
        bytes in `parsed.<name>` are `writeBytes` of `postRead` of the document's meaning.

  Assumed (hypotheses): the starting counter is a value that can occur (`C13.ValidCounter Gen.counterLimit w.c`; the real
  counter starts at `none` and `step_valid_counter` shows it never leaves the set); the probed file is native text of
  the document class named; histories do not *target* the probed file (they may read it).

  NOT covered
    * probed files WITH include directives (`readFile_congr` over the include closure; the fuel argument is available as
      `C06_fuel_suffices`, but the counter-dependence of the included files' placeholder ids needs `C08incl`-style
      renaming through `merge`, which is not proved anywhere yet);
    * commented documents with `order = true` (false: `order_refutes`), with a scope, or with `comments = false`;
    * `write` in append mode to an existing target (its bytes depend on the target's previous content by design), JSON/XML.
-/
import DictIO.Props.C13api
import DictIO.Props.C08nat
import DictIO.Props.C06fold
import DictIO.Props.C01dump

namespace DictIO
namespace C08api
open DictIO

/-! ## helper lemmas -/

/-- the counter values that can occur -/
abbrev V (c : Counter) : Prop := C13.ValidCounter Gen.counterLimit c

theorem V_none : V none := Or.inl rfl

theorem fresh_valid {st : LexSt} (h : V st.counter) : V st.fresh.2.counter :=
  C13.next_valid h

theorem lexLineComment_valid (comments : Bool) {st : LexSt} (line : Str) (h : V st.counter) :
    V (lexLineComment comments st line).1.counter := by
  unfold lexLineComment
  split
  · exact h
  · exact fresh_valid h

theorem lexInclude_valid (dir : Str) {st : LexSt} (line : Str) (h : V st.counter) :
    V (lexInclude dir st line).1.counter := by
  unfold lexInclude
  split
  · exact h
  · exact fresh_valid h

theorem foldl_lines_valid (f : LexSt → Str → LexSt × Str) (hf : ∀ st l, V st.counter → V (f st l).1.counter) :
    ∀ (lines : List Str) (acc : LexSt × List Str), V acc.1.counter →
      V (lines.foldl (fun (acc : LexSt × List Str) l => ((f acc.1 l).1, acc.2 ++ [(f acc.1 l).2])) acc).1.counter
  | [], _, h => h
  | l :: ls, acc, h => by
    simp only [List.foldl_cons]
    exact foldl_lines_valid f hf ls _ (hf _ _ h)

theorem lexLiterals_valid : ∀ (fuel : Nat) (st : LexSt) (prev : Option Char) (s : Str) (st' : LexSt) (t : Str),
    lexLiteralsFuel fuel st prev s = .ok (st', t) → V st.counter → V st'.counter
  | 0, st, _, s, st', t, h, hv => by
    simp only [lexLiteralsFuel, Except.ok.injEq, Prod.mk.injEq] at h
    rw [← h.1]; exact hv
  | _ + 1, st, _, [], st', t, h, hv => by
    simp only [lexLiteralsFuel, Except.ok.injEq, Prod.mk.injEq] at h
    rw [← h.1]; exact hv
  | fuel + 1, st, prev, c :: r, st', t, h, hv => by
    simp only [lexLiteralsFuel] at h
    split at h
    · split at h
      · cases h
      · split at h
        · cases hr : lexLiteralsFuel fuel st (some c) r with
          | error e => simp [hr, bind, Except.bind] at h
          | ok x =>
            simp only [hr, bind, Except.bind, pure, Except.pure, Except.ok.injEq, Prod.mk.injEq] at h
            have := lexLiterals_valid fuel st (some c) r x.1 x.2 hr hv
            rw [← h.1]; exact this
        · next body rest _ =>
          split at h
          · cases hr : lexLiteralsFuel fuel st (some '"') rest with
            | error e => simp [hr, bind, Except.bind] at h
            | ok x =>
              simp only [hr, bind, Except.bind, pure, Except.pure, Except.ok.injEq, Prod.mk.injEq] at h
              have := lexLiterals_valid fuel st (some '"') rest x.1 x.2 hr hv
              rw [← h.1]; exact this
          · cases hr : lexLiteralsFuel fuel { st.fresh.2 with lits := st.fresh.2.lits.set st.fresh.1 body } (some c) rest with
            | error e => simp [hr, bind, Except.bind] at h
            | ok x =>
              simp only [hr, bind, Except.bind, pure, Except.pure, Except.ok.injEq, Prod.mk.injEq] at h
              have := lexLiterals_valid fuel _ (some c) rest x.1 x.2 hr (fresh_valid hv)
              rw [← h.1]; exact this
    · cases hr : lexLiteralsFuel fuel st (some c) r with
      | error e => simp [hr, bind, Except.bind] at h
      | ok x =>
        simp only [hr, bind, Except.bind, pure, Except.pure, Except.ok.injEq, Prod.mk.injEq] at h
        have := lexLiterals_valid fuel st (some c) r x.1 x.2 hr hv
        rw [← h.1]; exact this

theorem lexRefs_valid : ∀ (fuel : Nat) (st : LexSt) (s : Str), V st.counter → V (lexRefsFuel fuel st s).1.counter
  | 0, _, _, h => h
  | fuel + 1, st, s, h => by
    simp only [lexRefsFuel]
    split
    · exact h
    · exact lexRefs_valid fuel _ _ (fresh_valid h)

theorem foldl_exprs_valid : ∀ (found : List Str) (acc : LexSt × Str), V acc.1.counter →
    V (found.foldl (fun (acc : LexSt × Str) e =>
      let (st, s) := acc
      let (i, st) := st.fresh
      let ph := kwExpr ++ padSix i
      ({ st with exprs := st.exprs.set i { expression := e.filter (· != '"'), name := ph } }, replaceAll e ph s)) acc).1.counter
  | [], _, h => h
  | e :: es, acc, h => by
    simp only [List.foldl_cons]
    exact foldl_exprs_valid es _ (fresh_valid h)

theorem lexExpressions_valid (st : LexSt) (s : Str) (h : V st.counter) : V (lexExpressions st s).1.counter := by
  unfold lexExpressions
  exact lexRefs_valid _ _ _ (foldl_exprs_valid _ _ h)

/-- **the native parser leaves a counter value that can occur**, for every text (well-formed or not) -/
theorem parseNative_valid {comments : Bool} {dir : Str} {c c' : Counter} {text : Str} {sd : SD}
    (h : parseNative comments dir c text = .ok (sd, c')) (hc : V c) : V c' := by
  unfold parseNative at h
  simp only [bind, Except.bind, pure, Except.pure] at h
  have hA := foldl_lines_valid (lexLineComment comments) (fun st l => lexLineComment_valid comments l)
    (splitLinesKeep text) ({ counter := c }, []) hc
  generalize List.foldl _ (({ counter := c } : LexSt), ([] : List Str)) (splitLinesKeep text) = A at h hA
  have hB := foldl_lines_valid (lexInclude dir) (fun st l => lexInclude_valid dir l) A.2 (A.1, []) hA
  generalize List.foldl _ (A.1, ([] : List Str)) A.2 = B at h hB
  split at h
  · cases h
  · next st block hl =>
    have hst := lexLiterals_valid _ _ _ _ _ _ hl hB
    split at h
    · cases h
    · split at h
      · cases h
      · simp only [Except.ok.injEq, Prod.mk.injEq] at h
        rw [← h.2]
        exact lexExpressions_valid _ _ hst

theorem jsonExtractExpr_valid (st : JsonSt) (s : Str) (h : V st.counter) : V (jsonExtractExpr st s).1.counter := by
  unfold jsonExtractExpr
  split
  · exact h
  · exact C13.next_valid h

mutual
  theorem jsonExprV_valid : ∀ (v : Val) (st : JsonSt), V st.counter → V (jsonExprV st v).1.counter
    | .leaf (.str s), st, h => by
      simp only [jsonExprV]
      split
      · exact jsonExtractExpr_valid st s h
      · exact h
    | .leaf (.int _), st, h => by simpa only [jsonExprV] using h
    | .leaf (.float _), st, h => by simpa only [jsonExprV] using h
    | .leaf (.bool _), st, h => by simpa only [jsonExprV] using h
    | .leaf .none, st, h => by simpa only [jsonExprV] using h
    | .dict es, st, h => by simp only [jsonExprV]; exact jsonExprEs_valid es st h
    | .list xs, st, h => by simp only [jsonExprV]; exact jsonExprXs_valid xs st h
  theorem jsonExprEs_valid : ∀ (es : Entries) (st : JsonSt), V st.counter → V (jsonExprEs st es).1.counter
    | [], st, h => by simpa only [jsonExprEs] using h
    | (k, v) :: es, st, h => by
      simp only [jsonExprEs]
      exact jsonExprEs_valid es _ (jsonExprV_valid v st h)
  theorem jsonExprXs_valid : ∀ (xs : List Val) (st : JsonSt), V st.counter → V (jsonExprXs st xs).1.counter
    | [], st, h => by simpa only [jsonExprXs] using h
    | v :: xs, st, h => by
      simp only [jsonExprXs]
      exact jsonExprXs_valid xs _ (jsonExprV_valid v st h)
end

theorem foldl_fst_valid {α β : Type} (f : Counter × β → α → Counter × β) (hf : ∀ acc e, V acc.1 → V (f acc e).1) :
    ∀ (l : List α) (acc : Counter × β), V acc.1 → V (l.foldl f acc).1
  | [], _, h => h
  | e :: l, acc, h => by
    simp only [List.foldl_cons]
    exact foldl_fst_valid f hf l _ (hf _ _ h)

theorem parseJson_valid (dir : Comps) (c : Counter) (es : Entries) (hc : V c) : V (parseJson dir c es).2 := by
  unfold parseJson
  simp only
  apply jsonExprEs_valid
  refine foldl_fst_valid _ ?_ es _ hc
  intro acc e h
  split
  · split
    · exact C13.next_valid h
    · exact h
  · exact h

theorem parseFile_valid {fs : FS} {comments : Bool} {c c' : Counter} {p : Comps} {sd : SD}
    (h : parseFile fs comments c p = .ok (sd, c')) (hc : V c) : V c' := by
  unfold parseFile at h
  split at h
  · cases h
  · split at h
    · cases h
    · split at h
      · cases h
      · split at h
        · cases h
        · next sd0 c0 hp =>
          simp only [Except.ok.injEq, Prod.mk.injEq] at h
          rw [← h.2]; exact parseNative_valid hp hc
    · split at h
      · next es _ _ =>
        simp only [Except.ok.injEq] at h
        have := parseJson_valid p.dropLast c es hc
        rw [h] at this; exact this
      · cases h

/-- a monadic left fold keeps an invariant of the accumulator that every step keeps -/
theorem foldlM_inv {α β : Type} (P : β → Prop) (f : β → α → Except ParseErr β)
    (hf : ∀ b a b', f b a = .ok b' → P b → P b') :
    ∀ (l : List α) (b b' : β), l.foldlM f b = .ok b' → P b → P b'
  | [], b, b', h, hb => by
    simp only [List.foldlM, pure, Except.pure, Except.ok.injEq] at h
    rw [← h]; exact hb
  | a :: l, b, b', h, hb => by
    simp only [List.foldlM, bind, Except.bind] at h
    split at h
    · cases h
    · next b1 h1 => exact foldlM_inv P f hf l b1 b' h (hf _ _ _ h1 hb)

theorem inclStep_valid (fs : FS) (comments : Bool) (recur : List Comps → SD → Comps → Counter → Except ParseErr (SD × Counter))
    (hr : ∀ a sd d c r, recur a sd d c = .ok r → V c → V r.2)
    (ancestors : List Comps) (dir : Comps) (acc acc' : SD × Counter) (e : Nat × InclEntry)
    (h : C06.inclStep fs comments recur ancestors dir acc e = .ok acc') (hv : V acc.2) : V acc'.2 := by
  unfold C06.inclStep at h
  simp only [bind, Except.bind, pure, Except.pure] at h
  split at h
  · simp only [Except.ok.injEq] at h; rw [← h]; exact hv
  · split at h
    · simp only [Except.ok.injEq] at h; rw [← h]; exact hv
    · split at h
      · cases h
      · next r hp =>
        have h1 : V r.2 := parseFile_valid (sd := r.1) (c' := r.2) hp hv
        split at h
        · simp only [Except.ok.injEq] at h; rw [← h]; exact h1
        · split at h
          · cases h
          · next r2 hr2 =>
            simp only [Except.ok.injEq] at h; rw [← h]
            exact hr _ _ _ _ r2 hr2 h1

theorem mergeIncludesRec_valid (fs : FS) (comments : Bool) : ∀ (fuel : Nat) (ancestors : List Comps) (parent : SD)
    (dir : Comps) (c : Counter) (r : SD × Counter),
    mergeIncludesRec fs comments fuel ancestors parent dir c = .ok r → V c → V r.2
  | 0, _, _, _, _, r, h, hc => by
    rw [C06.mergeIncludesRec_zero] at h
    simp only [Except.ok.injEq] at h; rw [← h]; exact hc
  | fuel + 1, ancestors, parent, dir, c, r, h, hc => by
    rw [C06.mergeIncludesRec_succ] at h
    cases hf : parent.incl.foldlM (C06.inclStep fs comments (mergeIncludesRec fs comments fuel) ancestors dir) (({} : SD), c) with
    | error e => rw [hf] at h; cases h
    | ok x =>
      rw [hf] at h
      simp only [Except.map, Except.ok.injEq] at h
      rw [← h]
      show V x.2
      exact foldlM_inv (fun b : SD × Counter => V b.2) _
        (fun b a b' hb => inclStep_valid fs comments _ (mergeIncludesRec_valid fs comments fuel) ancestors dir b b' a hb)
        _ _ _ hf hc

theorem mergeIncludes_valid {fs : FS} {comments : Bool} {parent : SD} {dir : Comps} {c : Counter} {r : SD × Counter}
    (h : mergeIncludes fs comments parent dir c = .ok r) (hc : V c) : V r.2 := by
  unfold mergeIncludes at h
  simp only [bind, Except.bind, pure, Except.pure] at h
  split at h
  · cases h
  · next x hx =>
    simp only [Except.ok.injEq] at h; rw [← h]
    exact mergeIncludesRec_valid fs comments _ _ _ _ _ x hx hc

/-- **a read leaves a counter value that can occur** -/
theorem readFile_valid {ev : Str → EvalResult} {fs : FS} {o : ReadOpts} {c c' : Counter} {p : Comps} {sd : SD}
    (h : readFile ev fs o c p = .ok (.ok sd c')) (hc : V c) : V c' := by
  cases ho : o.includes with
  | true =>
    rw [C06.readFile_anchor ev fs o c p ho] at h
    cases hp : parseFile fs o.comments c p with
    | error e => rw [hp] at h; cases h
    | ok r =>
      have h1 : V r.2 := parseFile_valid (sd := r.1) (c' := r.2) hp hc
      cases hm : mergeIncludes fs o.comments r.1 p.dropLast r.2 with
      | error e => rw [hp] at h; simp only [Except.bind, hm] at h; cases h
      | ok r2 =>
        have h2 : V r2.2 := mergeIncludes_valid hm h1
        rw [hp] at h; simp only [Except.bind, hm] at h
        split at h
        · cases h
        · split at h
          · cases h
          · simp only [pure, Except.pure, Except.ok.injEq, ReadOut.ok.injEq] at h
            rw [← h.2]; exact h2
  | false =>
    rw [C06.readFile_off ev fs o c p ho] at h
    cases hp : parseFile fs o.comments c p with
    | error e => rw [hp] at h; cases h
    | ok r =>
      have h1 : V r.2 := parseFile_valid (sd := r.1) (c' := r.2) hp hc
      rw [hp] at h; simp only [Except.bind] at h
      split at h
      · cases h
      · split at h
        · cases h
        · simp only [pure, Except.pure, Except.ok.injEq, ReadOut.ok.injEq] at h
          rw [← h.2]; exact h1

theorem writeText_valid {ev : Str → EvalResult} {fs : FS} {target : Comps} {mode : Str} {order : Bool} {a : Arg}
    {c c' : Counter} {t : Str} (h : writeText ev fs target mode order a c = .ok (t, c')) (hc : V c) : V c' := by
  unfold writeText at h
  split at h
  · cases h
  · next fl _ =>
    have hfresh : ∀ {x : Except ParseErr (Str × Counter)},
        x = (match fmtArg fl (if order = true then a.retype.order else a.retype) with
          | some t => .ok (t, c)
          | none => .error .unsupported) → x = .ok (t, c') → V c' := by
      intro x hx hx'
      rw [hx] at hx'
      split at hx'
      · simp only [Except.ok.injEq, Prod.mk.injEq] at hx'; rw [← hx'.2]; exact hc
      · cases hx'
    simp only at h
    split at h
    · split at h
      · split at h
        · cases h
        · cases h
        · next sd c1 hr =>
          split at h
          · simp only [Except.ok.injEq, Prod.mk.injEq] at h
            rw [← h.2]; exact readFile_valid hr hc
          · cases h
      · exact hfresh rfl h
    · exact hfresh rfl h

theorem writeTo_valid (ev : Str → EvalResult) (w : World) (target : Comps) (mode : Str) (order : Bool) (a : Arg)
    (hc : V w.c) : V (writeTo ev w target mode order a).1.c := by
  cases hw : writeText ev w.fs target mode order a w.c with
  | error e => rw [C13api.writeTo_error hw]; exact hc
  | ok r =>
    obtain ⟨t, c'⟩ := r
    rw [C13api.writeTo_ok hw]
    exact writeText_valid hw hc

/-- **the counter invariant**: every API call, completed or not, on every world whose counter holds a value that can
    occur (`none` after a reset, or `some n` with `n ≤ 999999`) leaves such a world -/
theorem step_valid_counter (ev : Str → EvalResult) (w : World) (op : ApiOp) (hc : V w.c) : V (apiStep ev w op).1.c := by
  cases op with
  | read p o =>
    cases hg : w.fs.get (resolveSpelled p) with
    | none => simpa [apiStep, hg] using hc
    | some b =>
      cases hr : readFile ev w.fs o w.c p with
      | error e => simpa [apiStep, hg, hr] using hc
      | ok r =>
        cases r with
        | exit1 => simpa [apiStep, hg, hr] using hc
        | ok sd c' => simpa [apiStep, hg, hr] using readFile_valid hr hc
  | load p =>
    cases hg : w.fs.get (resolveSpelled p) with
    | none => simpa [apiStep, hg] using hc
    | some b =>
      cases hr : readFile ev w.fs {} w.c p with
      | error e => simpa [apiStep, hg, hr] using hc
      | ok r =>
        cases r with
        | exit1 => simpa [apiStep, hg, hr] using hc
        | ok sd c' => simpa [apiStep, hg, hr] using V_none
  | reset => exact V_none
  | write a target mode order => exact writeTo_valid ev w target mode order a hc
  | dump s target => exact writeTo_valid ev w target ['a'] false (.sd s) hc
  | parse src o mode output =>
    cases hg : w.fs.get (resolveSpelled src) with
    | none => simpa [apiStep, hg] using hc
    | some b =>
      cases hr : readFile ev w.fs o w.c src with
      | error e => simpa [apiStep, hg, hr] using hc
      | ok r =>
        cases r with
        | exit1 => simpa [apiStep, hg, hr] using hc
        | ok sd c' =>
          have h1 : V c' := readFile_valid hr hc
          cases hw : writeText ev w.fs (parseTarget src o.scope output) mode o.order (.sd sd) c' with
          | error e =>
            have := C13api.writeTo_error (ev := ev) (w := { w with c := c' }) hw
            simpa [apiStep, hg, hr, this] using hc
          | ok r =>
            obtain ⟨t, c''⟩ := r
            have := C13api.writeTo_ok (ev := ev) (w := { w with c := c' }) hw
            simpa [apiStep, hg, hr, this] using writeText_valid hw h1

/-- the invariant along every history -/
theorem run_valid_counter (ev : Str → EvalResult) : ∀ (ops : List ApiOp) (w : World), V w.c → V (apiRun ev w ops).1.c
  | [], _, h => h
  | op :: ops, w, h => by
    rw [C13api.apiRun_cons]
    exact run_valid_counter ev ops _ (step_valid_counter ev w op h)

/-! ### reading a file that has no include directive: everything after `parse_file` is a function of the parsed dict -/

/-- what `_merge_includes` does to a dict without include entries: `parent.merge(SDict())`, then the merge with itself -/
def selfMerge (sd : SD) : SD :=
  let p := sd.merge (.sd ({} : SD))
  p.merge (.sd p)

/-- `DictReader.read` after `parse_file`, for a parsed dict without include entries: no file system, no counter.
    `none` is `sys.exit(1)` (the scope does not exist). -/
def postRead (ev : Str → EvalResult) (o : ReadOpts) (sd : SD) : Except ParseErr (Option SD) :=
  (evalExpressions ev (if o.includes then selfMerge sd else sd)).bind fun sd =>
    if !o.scope.isEmpty && !pathExists sd.data o.scope then .ok none
    else
      let sd := if o.scope.isEmpty then sd else sd.reduceScope o.scope
      let sd := if o.order then sd.order else sd
      .ok (some (if o.includes then sd else { sd with data := removeIncludeKeys sd.data }))

def attach (c : Counter) : Option SD → ReadOut
  | none => .exit1
  | some s => .ok s c

theorem mergeIncludes_noincl (fs : FS) (comments : Bool) (parent : SD) (dir : Comps) (c : Counter)
    (h : parent.incl = []) : mergeIncludes fs comments parent dir c = .ok (selfMerge parent, c) := by
  unfold mergeIncludes
  rw [C06.mergeIncludesRec_succ, h]
  rfl

theorem readFile_noincl (ev : Str → EvalResult) (fs : FS) (o : ReadOpts) (c c' : Counter) (p : Comps) (sd : SD)
    (hp : parseFile fs o.comments c p = .ok (sd, c')) (hi : sd.incl = []) :
    readFile ev fs o c p = (postRead ev o sd).map (attach c') := by
  cases ho : o.includes with
  | true =>
    rw [C06.readFile_anchor ev fs o c p ho, hp]
    simp only [Except.bind, mergeIncludes_noincl fs o.comments sd p.dropLast c' hi, postRead, ho, ↓reduceIte]
    cases evalExpressions ev (selfMerge sd) with
    | error e => rfl
    | ok x =>
      dsimp only
      split <;> rfl
  | false =>
    rw [C06.readFile_off ev fs o c p ho, hp]
    simp only [Except.bind, postRead, ho, Bool.false_eq_true, ↓reduceIte]
    cases evalExpressions ev sd with
    | error e => rfl
    | ok x =>
      dsimp only
      split <;> rfl

/-! ### histories -/

theorem apiRun_snoc (ev : Str → EvalResult) : ∀ (ops : List ApiOp) (w : World) (op : ApiOp),
    apiRun ev w (ops ++ [op]) =
      ((apiStep ev (apiRun ev w ops).1 op).1, (apiRun ev w ops).2 ++ [(apiStep ev (apiRun ev w ops).1 op).2])
  | [], w, op => rfl
  | o :: ops, w, op => by
    rw [List.cons_append, C13api.apiRun_cons, apiRun_snoc ev ops _ op, C13api.apiRun_cons]
    rfl

/-- what the caller of `read` sees, from `postRead`'s result -/
def probeOut : Except ParseErr (Option SD) → ApiOut
  | .error e => .gaveUp e
  | .ok none => .exit1
  | .ok (some s) => .data s

theorem readFile_error {ev : Str → EvalResult} {fs : FS} {o : ReadOpts} {c : Counter} {p : Comps} {e : ParseErr}
    (hp : parseFile fs o.comments c p = .error e) : readFile ev fs o c p = .error e := by
  simp only [readFile, hp, bind, Except.bind]

theorem read_out_error {ev : Str → EvalResult} {w : World} {p : Comps} {o : ReadOpts} {b : FileBody} {e : ParseErr}
    (hg : w.fs.get (resolveSpelled p) = some b) (hp : parseFile w.fs o.comments w.c p = .error e) :
    (apiStep ev w (.read p o)).2 = .gaveUp e := by
  simp only [apiStep, hg, readFile_error hp]

theorem read_out_noincl {ev : Str → EvalResult} {w : World} {p : Comps} {o : ReadOpts} {b : FileBody} {sd : SD} {c' : Counter}
    (hg : w.fs.get (resolveSpelled p) = some b) (hp : parseFile w.fs o.comments w.c p = .ok (sd, c')) (hi : sd.incl = []) :
    (apiStep ev w (.read p o)).2 = probeOut (postRead ev o sd) := by
  simp only [apiStep, hg, readFile_noincl ev w.fs o w.c c' p sd hp hi]
  cases postRead ev o sd with
  | error e => rfl
  | ok r => cases r <;> rfl

/-! ### comment-free documents -/

/-- the hypotheses of `C02_layout_tolerant` / `C08_data_counter_independent` on a text: it is the admissible layout
    `spreadS (srcToksEs es) gaps tail` of the well-formed comment-free document `es` (no comments, no include
    directives, no `$`), with at most one million quoted strings and without the two documentation keys at top level -/
structure PlainDoc (es : SrcEntries) (gaps : List Str) (tail : Str) : Prop where
  wf : SrcWFEs 1 es = true
  gapsOK : GapsOKS (srcToksEs es) gaps = true
  tailWs : tail.all isWs = true
  count : C02.countQuotedEs es ≤ Gen.counterLimit + 1
  docKeys : C02.DocKeysAbsent es

instance (es : SrcEntries) (gaps : List Str) (tail : Str) : Decidable (PlainDoc es gaps tail) :=
  decidable_of_iff (SrcWFEs 1 es = true ∧ GapsOKS (srcToksEs es) gaps = true ∧ tail.all isWs = true ∧
      C02.countQuotedEs es ≤ Gen.counterLimit + 1 ∧ C02.DocKeysAbsent es)
    ⟨fun ⟨a, b, c, d, e⟩ => ⟨a, b, c, d, e⟩, fun ⟨a, b, c, d, e⟩ => ⟨a, b, c, d, e⟩⟩

/-- `parse_file` on such a file, from any counter value that can occur -/
theorem parseFile_plain {fs : FS} {p : Comps} {es : SrcEntries} {gaps : List Str} {tail : Str} (hdoc : PlainDoc es gaps tail)
    (hfile : fs.get (resolveSpelled p) = some (.native (spreadS (srcToksEs es) gaps tail)))
    (comments : Bool) {c : Counter} (hc : V c) :
    ∃ c', parseFile fs comments c p =
      if isXmlPath p || isJsonPath p then .error .unsupported else .ok ({ data := denSrcEs es [] }, c') := by
  obtain ⟨c', h⟩ := C02.C02_layout_tolerant (c := c) comments (pathStr p.dropLast) hdoc.wf hdoc.gapsOK hdoc.tailWs hc
    hdoc.count hdoc.docKeys
  refine ⟨c', ?_⟩
  unfold parseFile
  cases hx : isXmlPath p with
  | true => rfl
  | false =>
    cases hj : isJsonPath p with
    | true => simp [hfile]
    | false => simp [hfile, h]

/-- **the value `read p o` returns for such a file**, in closed form: no file system, no counter -/
def plainProbe (ev : Str → EvalResult) (p : Comps) (o : ReadOpts) (es : SrcEntries) : ApiOut :=
  if isXmlPath p || isJsonPath p then .gaveUp .unsupported else probeOut (postRead ev o { data := denSrcEs es [] })

/-- one probe, in any world that holds the file and a counter value that can occur -/
theorem probe_plain (ev : Str → EvalResult) {w : World} {p : Comps} (o : ReadOpts) {es : SrcEntries} {gaps : List Str} {tail : Str}
    (hdoc : PlainDoc es gaps tail)
    (hfile : w.fs.get (resolveSpelled p) = some (.native (spreadS (srcToksEs es) gaps tail))) (hc : V w.c) :
    (apiStep ev w (.read p o)).2 = plainProbe ev p o es := by
  obtain ⟨c', h⟩ := parseFile_plain hdoc hfile o.comments hc
  unfold plainProbe
  cases hxj : (isXmlPath p || isJsonPath p) with
  | true =>
    rw [hxj] at h
    exact read_out_error hfile h
  | false =>
    rw [hxj] at h
    exact read_out_noincl hfile h rfl

/-- **the value `SDict().load(p)` returns for such a file**, in closed form -/
def plainLoad (ev : Str → EvalResult) (p : Comps) (es : SrcEntries) : ApiOut :=
  if isXmlPath p || isJsonPath p then .gaveUp .unsupported
  else match postRead ev {} { data := denSrcEs es [] } with
    | .error e => .gaveUp e
    | .ok none => .exit1
    | .ok (some s) => .data (({} : SD).update (.sd s))

theorem load_plain (ev : Str → EvalResult) {w : World} {p : Comps} {es : SrcEntries} {gaps : List Str} {tail : Str}
    (hdoc : PlainDoc es gaps tail)
    (hfile : w.fs.get (resolveSpelled p) = some (.native (spreadS (srcToksEs es) gaps tail))) (hc : V w.c) :
    (apiStep ev w (.load p)).2 = plainLoad ev p es := by
  obtain ⟨c', h⟩ := parseFile_plain hdoc hfile ({} : ReadOpts).comments hc
  unfold plainLoad
  cases hxj : (isXmlPath p || isJsonPath p) with
  | true =>
    rw [hxj] at h
    simp only [if_true] at h
    simp only [apiStep, hfile, readFile_error (ev := ev) (o := {}) h, if_true]
  | false =>
    rw [hxj] at h
    simp only [apiStep, hfile, readFile_noincl ev w.fs {} w.c c' p _ h rfl, Bool.false_eq_true, if_false]
    cases postRead ev {} { data := denSrcEs es [] } with
    | error e => rfl
    | ok r => cases r <;> rfl

/-! ### `_clean` keeps what the renaming lemma `clean_ren` needs -/

theorem cleanStep_nil {α} [BEq α] (sel : Key → Bool) (lvl : Entries) : C06.cleanStep sel lvl ([] : Tbl α) = (lvl, []) := by
  rw [C08.cleanStep_eq]
  suffices H : ∀ (cand : List Key) (seen : List α), cand.foldl C08.cstep (lvl, ([] : Tbl α), seen) = (lvl, [], seen) by
    rw [H]
  intro cand
  induction cand with
  | nil => intro seen; rfl
  | cons k cand ih =>
    intro seen
    rw [List.foldl_cons]
    have : C08.cstep (lvl, ([] : Tbl α), seen) k = (lvl, [], seen) := by
      cases k with
      | int z => rfl
      | str x =>
        simp only [C08.cstep]
        split
        · rfl
        · rfl
    rw [this, ih]

theorem cleanLevel_incl_nil (s : SD) (lvl : Entries) (h : s.incl = []) : (cleanLevel s lvl).1.incl = [] := by
  rw [C08.cleanLevel_eq]
  simp only [h, cleanStep_nil]

theorem cleanRec_incl_nil : ∀ (fuel : Nat) (s : SD) (lvl : Entries), s.incl = [] → (cleanRec fuel s lvl).1.incl = []
  | 0, _, _, h => h
  | fuel + 1, s, lvl, h => by
    rw [C06fold.cleanRec_succ]
    have h1 := cleanLevel_incl_nil s lvl h
    generalize (cleanLevel s lvl).2 = lvl1
    generalize (cleanLevel s lvl).1 = s1 at h1
    suffices H : ∀ (l : Entries) (acc : SD × Entries), acc.1.incl = [] → (l.foldl (C06fold.cleanF fuel) acc).1.incl = [] from
      H lvl1 (s1, lvl1) h1
    intro l
    induction l with
    | nil => intro acc h; exact h
    | cons e l ih =>
      intro acc hacc
      rw [List.foldl_cons]
      apply ih
      obtain ⟨k, v⟩ := e
      cases v with
      | leaf x => exact hacc
      | list xs => exact hacc
      | dict sub => exact cleanRec_incl_nil fuel acc.1 sub hacc

theorem clean_incl_nil (s : SD) (h : s.incl = []) : s.clean.incl = [] := by
  show (cleanRec (depthV (.dict s.data) + 1) s s.data).1.incl = []
  exact cleanRec_incl_nil (depthV (.dict s.data) + 1) s s.data h

theorem phWF_delKey {k : Key} {d : Entries} (h : C08.PhWFEs d) : C08.PhWFEs (delKey k d) := by
  rw [C08.phWFEs_iff] at h ⊢
  exact fun e he => h e ((C07.delKey_sublist k d).subset he)

/-- `_clean` keeps the keys of every dict level admissible (it deletes entries, nothing else) -/
theorem phWF_cleanRec : ∀ (fuel : Nat) (s : SD) (lvl : Entries), C08.PhWFEs lvl → C08.PhWFEs (cleanRec fuel s lvl).2
  | 0, _, _, h => h
  | fuel + 1, s, lvl, h => by
    rw [C06fold.cleanRec_succ]
    have h1 : C08.PhWFEs (cleanLevel s lvl).2 :=
      C06.cleanLevel_inv C08.PhWFEs (fun k d _ hd => phWF_delKey hd) s lvl h
    generalize (cleanLevel s lvl).2 = lvl1 at h1
    generalize (cleanLevel s lvl).1 = s1
    suffices H : ∀ (l : Entries) (acc : SD × Entries), (∀ e ∈ l, e ∈ lvl1) → C08.PhWFEs acc.2 →
        C08.PhWFEs (l.foldl (C06fold.cleanF fuel) acc).2 from H lvl1 (s1, lvl1) (fun _ h => h) h1
    intro l
    induction l with
    | nil => intro acc _ h; exact h
    | cons e l ih =>
      intro acc hsub hacc
      rw [List.foldl_cons]
      apply ih _ (fun e' he' => hsub e' (List.mem_cons_of_mem _ he'))
      obtain ⟨k, v⟩ := e
      have hmem := C08.phWFEs_iff.mp h1 _ (hsub _ List.mem_cons_self)
      cases v with
      | leaf x => exact hacc
      | list xs => exact hacc
      | dict sub =>
        have hsubw : C08.PhWFEs sub := by simpa only [C08.PhWFV] using hmem.2
        exact C08.phWFEs_setKey hacc hmem.1 (by simpa only [C08.PhWFV] using phWF_cleanRec fuel acc.1 sub hsubw)

theorem phWF_clean (s : SD) (h : C08.PhWFEs s.data) : C08.PhWFEs s.clean.data := by
  rw [C06fold.clean_data_eq]
  exact phWF_cleanRec (depthV (.dict s.data) + 1) s s.data h

/-! ### `_merge_includes` on a dict without include entries is `_clean` twice -/

theorem merge_empty (sd : SD) : sd.merge (.sd {}) = sd.clean := by
  have h : ({ sd with data := mergeD true sd.exprs sd.data (Arg.sd {}).data } : SD).postMerge (.sd {}) = sd := by
    cases sd; simp [SD.postMerge, Arg.data, C07.mergeD_nil, C01.tbl_merge_nil]
  unfold SD.merge
  rw [h]

theorem merge_self (sd : SD) (hn : NodupKeysV (.dict sd.data)) : sd.merge (.sd sd) = sd.clean := by
  have h : ({ sd with data := mergeD true sd.exprs sd.data (Arg.sd sd).data } : SD).postMerge (.sd sd) = sd := by
    cases sd
    simp only [SD.postMerge, Arg.data, C01.tbl_merge_self]
    rw [C01.mergeD_self_top _ _ hn]
  unfold SD.merge
  rw [h]

theorem selfMerge_eq (sd : SD) (hn : NodupKeysV (.dict sd.data)) : selfMerge sd = sd.clean.clean := by
  unfold selfMerge
  simp only [merge_empty]
  exact merge_self _ (C06fold.clean_strip sd hn).1

/-! ### commented documents -/

/-- the hypotheses of `C08_commented_canon_eq` on a text: it is the admissible layout `spreadC (ctoksItems items) gaps tail`
    of the well-formed commented document `items` (line and block comments at statement boundaries; no include
    directives, no `$`), at most one million quoted strings and one million block comments, no documentation key -/
structure CommentedDoc (items : List CItem) (gaps : List Str) (tail : Str) : Prop where
  wf : CSrcWFItems 1 items = true
  gapsOK : GapsOKC (ctoksItems items) gaps tail = true
  tailWs : items = [] → tail.all isWs = true
  count : C02.countQuotedEs (plainItems items) ≤ Gen.counterLimit + 1
  docKeys : C02.DocKeysAbsent (plainItems items)
  blocks : C08.nBlockI items ≤ 1000000

/-- the unclean meaning: what `denC` cleans -/
def rawC (c : Counter) (items : List CItem) : SD :=
  { data := denPEs (labelCItems { counter := c } items).2 [],
    lineC := (labelCItems { counter := c } items).1.lineC,
    blockC := (labelCItems { counter := c } items).1.blockC }

theorem denC_raw (c : Counter) (items : List CItem) : denC c items = (rawC c items).clean := rfl

theorem rawC_nodup (c : Counter) (items : List CItem) : NodupKeysV (.dict (rawC c items).data) :=
  C12.denP_nodup _ [] C07.nodupV_nil

theorem denC_nodup (c : Counter) (items : List CItem) : NodupKeysV (.dict (denC c items).data) :=
  (C06fold.clean_strip _ (rawC_nodup c items)).1

theorem denC_exprs (c : Counter) (items : List CItem) : (denC c items).exprs = [] :=
  (C06fold.clean_strip _ (rawC_nodup c items)).2.2

theorem denC_incl (c : Counter) (items : List CItem) : (denC c items).incl = [] :=
  clean_incl_nil _ rfl

/-- every key of every dict level of the data is an exact comment placeholder or contains none (`C08.PhWFEs`; wrapped
    so that the unifier does not unfold it) -/
@[irreducible] def DataOK (sd : SD) : Prop := C08.PhWFEs sd.data

theorem DataOK.phWF {sd : SD} (h : DataOK sd) : C08.PhWFEs sd.data := by unfold DataOK at h; exact h

theorem denC_phWF {items : List CItem} {c : Counter} (hwf : CSrcWFItems 1 items = true) (hc : V c)
    (hb : C08.nBlockI items ≤ 1000000) : DataOK (denC c items) := by
  unfold DataOK
  rw [denC_raw]
  have h : C08.PhWFEs (rawC c items).data :=
    C08.phWF_labelI items 1 { counter := c } [] hwf hc (by simpa using hb) (by simp only [C08.PhWFEs])
  exact phWF_clean _ h

/-- `parse_file` (comments on) on such a file, from any counter value that can occur -/
theorem parseFile_commented {fs : FS} {p : Comps} {items : List CItem} {gaps : List Str} {tail : Str}
    (hdoc : CommentedDoc items gaps tail)
    (hfile : fs.get (resolveSpelled p) = some (.native (spreadC (ctoksItems items) gaps tail)))
    {c : Counter} (hc : V c) :
    ∃ c', parseFile fs true c p =
      if isXmlPath p || isJsonPath p then .error .unsupported else .ok (denC c items, c') := by
  have h := C12.C12_read_commented (pathStr p.dropLast) c hdoc.wf hdoc.gapsOK hdoc.tailWs hc hdoc.count hdoc.docKeys
  refine ⟨C08.counterAfter c items, ?_⟩
  unfold parseFile
  cases hx : isXmlPath p with
  | true => rfl
  | false =>
    cases hj : isJsonPath p with
    | true => simp [hfile]
    | false =>
      simp only [hfile, h, Bool.false_eq_true, if_false, Bool.or_self]
      have e : ∀ (D : SD) (F : Nat × InclEntry → Nat × InclEntry), D.incl = [] → ({ D with incl := D.incl.map F } : SD) = D := by
        intro D F hD; cases D; simp_all
      rw [e _ _ (denC_incl c items)]
      simp only [C08.counterAfter]

/-! ### `_remove_include_keys` commutes with the renaming -/

/-- the test of `removeIncludeKeys` on one key -/
def keepKey (k : Key) : Bool :=
  match k with
  | .str s => !(removeIncludeKeys.containsPhDigits kwIncl s)
  | _ => true

theorem removeIncludeKeys_eq (es : Entries) : removeIncludeKeys es = es.filter fun e => keepKey e.1 := by
  unfold removeIncludeKeys keepKey
  rfl

theorem keepKey_noInfix {s : Str} (h : isInfix kwIncl s = false) : keepKey (.str s) = true := by
  simp only [isInfix, List.any_eq_false] at h
  simp only [keepKey, Bool.not_eq_true', removeIncludeKeys.containsPhDigits, List.any_eq_false, Bool.and_eq_true, not_and]
  intro t ht hp
  exact absurd hp (h t ht)

theorem noIncl_of_notin {s : Str} (h : 'U' ∉ s) : isInfix kwIncl s = false := by
  cases hc : isInfix kwIncl s with
  | false => rfl
  | true =>
    have := C02.Front.isInfix_trans (p := ['U']) (by decide) hc
    rw [C02.isInfix_head_notin 'U' [] s h] at this; cases this

theorem keepKey_linePh (i : Nat) : keepKey (.str (linePh i)) = true :=
  keepKey_noInfix (noIncl_of_notin (by
    simp only [linePh, List.mem_append, not_or]; exact ⟨by decide, C08.padSix_not (by decide) i⟩))

theorem keepKey_blockPh (i : Nat) : keepKey (.str (blockPh i)) = true :=
  keepKey_noInfix (noIncl_of_notin (by
    simp only [blockPh, List.mem_append, not_or]; exact ⟨by decide, C08.padSix_not (by decide) i⟩))

theorem keepKey_ren (f g : Nat → Nat) {k : Key} (hk : C08.KeyOK k) : keepKey (C08.renKey f g k) = keepKey k := by
  rcases hk with ⟨i, hi, rfl⟩ | ⟨i, hi, rfl⟩ | hk
  · simp only [C08.renKey, C08.renWord_linePh f g hi, keepKey_linePh]
  · simp only [C08.renKey, C08.renWord_blockPh f g hi, keepKey_blockPh]
  · rw [C08.renKey_noPh f g hk]

theorem removeIncludeKeys_ren (f g : Nat → Nat) : ∀ (es : Entries), (∀ k ∈ keys es, C08.KeyOK k) →
    removeIncludeKeys (C08.renEs f g es) = C08.renEs f g (removeIncludeKeys es)
  | [], _ => by simp only [C08.renEs_nil, removeIncludeKeys_eq, List.filter_nil]
  | (k, v) :: es, h => by
    have ih := removeIncludeKeys_ren f g es (fun x hx => h x (by simp only [keys, List.map_cons, List.mem_cons]; exact Or.inr hx))
    have hk : C08.KeyOK k := h k (by simp [keys])
    rw [removeIncludeKeys_eq] at ih ⊢
    rw [removeIncludeKeys_eq] at ih ⊢
    rw [C08.renEs_cons, List.filter_cons, List.filter_cons]
    simp only [keepKey_ren f g hk]
    cases keepKey k with
    | true => simp only [if_true, C08.renEs_cons, ih]
    | false => simp only [Bool.false_eq_true, if_false, ih]

/-! ### the probe of a commented file -/

/-- the options `C08_history_commented` covers: comments kept, no reordering (`order=True` sorts the comment tables by
    id and is *not* canonical-form invariant: `C08.C08_order_not_canon_invariant`, `order_refutes` below), no scope -/
structure CommentedOpts (o : ReadOpts) : Prop where
  comments : o.comments = true
  order : o.order = false
  scope : o.scope = []

/-- replace the SDict a call returned by its canonical form (`C08.canonSD`: placeholder ids ↦ rank of first appearance) -/
def canonOut : ApiOut → ApiOut
  | .data s => .data (C08.canonSD s)
  | o => o

/-- everything `read` does after `parse_file` to the parsed commented document, for the options covered -/
def afterParse (o : ReadOpts) (sd : SD) : SD :=
  if o.includes then sd.clean.clean else { sd with data := removeIncludeKeys sd.data }

theorem postRead_commented {ev : Str → EvalResult} {o : ReadOpts} (ho : CommentedOpts o) (sd : SD) (he : sd.exprs = [])
    (hn : NodupKeysV (.dict sd.data)) : postRead ev o sd = .ok (some (afterParse o sd)) := by
  unfold postRead afterParse
  cases hi : o.includes with
  | true =>
    have h1 := C06fold.clean_strip sd hn
    have h2 := C06fold.clean_strip sd.clean h1.1
    have hex : sd.clean.clean.exprs = [] := by rw [h2.2.2, h1.2.2, he]
    simp [selfMerge_eq sd hn, C01.evalExpressions_noexpr ev _ hex, Except.bind, ho.scope, ho.order]
  | false =>
    simp [C01.evalExpressions_noexpr ev _ he, Except.bind, ho.scope, ho.order]

theorem afterParse_ren {f : Nat → Nat} (hf : C08.RenOK f) (o : ReadOpts) (sd : SD) (hw' : DataOK sd) :
    afterParse o (C08.renSD f id sd) = C08.renSD f id (afterParse o sd) := by
  have hw := hw'.phWF
  unfold afterParse
  cases o.includes with
  | true =>
    simp only [if_true]
    rw [C08.clean_ren hf C08.renOK_id sd hw, C08.clean_ren hf C08.renOK_id sd.clean (phWF_clean sd hw)]
  | false =>
    simp only [Bool.false_eq_true, if_false]
    exact C08.sd_ext (removeIncludeKeys_ren f id sd.data (C08.phWFEs_keys hw)) rfl rfl rfl rfl

/-- one probe of a commented file, in any world that holds the file and a counter value that can occur -/
theorem probe_commented (ev : Str → EvalResult) {w : World} {p : Comps} {o : ReadOpts} (ho : CommentedOpts o)
    {items : List CItem} {gaps : List Str} {tail : Str} (hdoc : CommentedDoc items gaps tail)
    (hfile : w.fs.get (resolveSpelled p) = some (.native (spreadC (ctoksItems items) gaps tail))) (hc : V w.c) :
    (apiStep ev w (.read p o)).2 =
      if isXmlPath p || isJsonPath p then .gaveUp .unsupported else .data (afterParse o (denC w.c items)) := by
  obtain ⟨c', h0⟩ := parseFile_commented hdoc hfile hc
  have h : parseFile w.fs o.comments w.c p =
      if isXmlPath p || isJsonPath p then .error .unsupported else .ok (denC w.c items, c') := by
    rw [ho.comments]; exact h0
  cases hxj : (isXmlPath p || isJsonPath p) with
  | true =>
    rw [hxj] at h
    simp only [if_true]
    exact read_out_error hfile h
  | false =>
    rw [hxj] at h
    simp only [Bool.false_eq_true, if_false]
    rw [read_out_noincl hfile h (denC_incl _ _), postRead_commented ho _ (denC_exprs _ _) (denC_nodup _ _)]
    rfl

/-- two probes of the same commented file from two counter values: equal canonical forms -/
theorem probe_commented_canon (ev : Str → EvalResult) {w₁ w₂ : World} {p : Comps} {o : ReadOpts} (ho : CommentedOpts o)
    {items : List CItem} {gaps : List Str} {tail : Str} (hdoc : CommentedDoc items gaps tail)
    (hf₁ : w₁.fs.get (resolveSpelled p) = some (.native (spreadC (ctoksItems items) gaps tail))) (hc₁ : V w₁.c)
    (hf₂ : w₂.fs.get (resolveSpelled p) = some (.native (spreadC (ctoksItems items) gaps tail))) (hc₂ : V w₂.c) :
    canonOut (apiStep ev w₂ (.read p o)).2 = canonOut (apiStep ev w₁ (.read p o)).2 := by
  have h1 := probe_commented ev ho hdoc hf₁ hc₁
  have h2 := probe_commented ev ho hdoc hf₂ hc₂
  cases hxj : (isXmlPath p || isJsonPath p) with
  | true =>
    rw [hxj] at h1 h2
    simp only [if_true] at h1 h2
    rw [h1, h2]
  | false =>
    rw [hxj] at h1 h2
    simp only [Bool.false_eq_true, if_false] at h1 h2
    rw [h1, h2]
    have e1 : denC w₂.c items = C08.renSD (C08.shift w₁.c w₂.c) id (denC w₁.c items) :=
      (C08.denC_natural hdoc.wf hc₁ hc₂ hdoc.blocks).2.2
    have hw := denC_phWF (items := items) (c := w₁.c) hdoc.wf hc₁ hdoc.blocks
    have e2 := afterParse_ren (C08.shift_ok w₁.c w₂.c) o (denC w₁.c items) hw
    have e3 := C08.canonSD_ren' (C08.shift_ok w₁.c w₂.c) C08.renOK_id (afterParse o (denC w₁.c items))
    show ApiOut.data (C08.canonSD _) = ApiOut.data (C08.canonSD _)
    rw [e1, e2, e3]

/-! ### the bytes a write produces -/

/-- **the text `DictWriter.write(source, target, mode='w', order)` writes**, in closed form: the formatter chosen by the
    target's suffix on the retyped (and, on request, ordered) source.  No file system, no counter.
    `none`: the model does not write this (JSON / XML target, or an SDict the native formatter gives up on). -/
def writeBytes (target : Comps) (order : Bool) (a : Arg) : Option Str :=
  match flavorOfPath target with
  | none => none
  | some fl => fmtArg fl (if order then a.retype.order else a.retype)

/-- in overwrite mode (every mode other than `'a'`), and in any mode when the target does not exist -/
theorem writeText_overwrite (ev : Str → EvalResult) (fs : FS) (target : Comps) (mode : Str) (order : Bool) (a : Arg)
    (c : Counter) (hm : mode ≠ ['a'] ∨ fs.get (resolveSpelled target) = none) :
    writeText ev fs target mode order a c =
      match writeBytes target order a with
      | some t => .ok (t, c)
      | none => .error .unsupported := by
  unfold writeText writeBytes
  cases flavorOfPath target with
  | none => rfl
  | some fl =>
    simp only
    rcases hm with hm | hm
    · have : (mode == ['a']) = false := by simpa using hm
      simp only [this, Bool.false_eq_true, if_false]
      split <;> rfl
    · simp only [hm]
      cases fmtArg fl (if order = true then a.retype.order else a.retype) <;> rfl

/-- one overwriting write in any world: the target holds `writeBytes`, the counter is where it was -/
theorem write_step (ev : Str → EvalResult) (w : World) (a : Arg) (target : Comps) (mode : Str) (order : Bool)
    (hm : mode ≠ ['a'] ∨ w.fs.get (resolveSpelled target) = none) :
    apiStep ev w (.write a target mode order) =
      match writeBytes target order a with
      | some t => ({ fs := w.fs.set (resolveSpelled target) (.native t), c := w.c }, .done)
      | none => (w, .gaveUp .unsupported) := by
  have h := writeText_overwrite ev w.fs target mode order a w.c hm
  cases hb : writeBytes target order a with
  | none => rw [hb] at h; simp only [apiStep, C13api.writeTo_error h]
  | some t => rw [hb] at h; simp only [apiStep, C13api.writeTo_ok h]

/-- for a builtin dict the formatter never gives up: the bytes are `fmtPlain` of the retyped (ordered) dict -/
theorem writeBytes_plain (target : Comps) (order : Bool) (d : Entries) {fl : Flavor} (hf : flavorOfPath target = some fl) :
    writeBytes target order (.plain d) = some (fmtPlain fl (if order then orderD (normEs d) else normEs d)) := by
  unfold writeBytes
  rw [hf]
  cases order <;> rfl


/-- one overwriting `parse` of a comment-free source in any world that holds it: the derived target holds `writeBytes`
    of the dict read, which is returned with its string leaves re-typed (`_retype_values` works in place) -/
theorem parse_step_plain (ev : Str → EvalResult) {w : World} {src : Comps} (o : ReadOpts) (mode : Str) (output : Option Str)
    {es : SrcEntries} {gaps : List Str} {tail : Str} (hdoc : PlainDoc es gaps tail)
    (hfile : w.fs.get (resolveSpelled src) = some (.native (spreadS (srcToksEs es) gaps tail))) (hc : V w.c)
    (hxj : (isXmlPath src || isJsonPath src) = false) (hm : mode ≠ ['a'])
    {sd : SD} (hr : postRead ev o { data := denSrcEs es [] } = .ok (some sd))
    {t : Str} (ht : writeBytes (parseTarget src o.scope output) o.order (.sd sd) = some t) :
    ∃ c', apiStep ev w (.parse src o mode output) =
      ({ fs := w.fs.set (resolveSpelled (parseTarget src o.scope output)) (.native t), c := c' },
        .data { sd with data := normEs sd.data }) := by
  obtain ⟨c', hp⟩ := parseFile_plain hdoc hfile o.comments hc
  rw [hxj] at hp
  have hread : readFile ev w.fs o w.c src = .ok (.ok sd c') := by
    rw [readFile_noincl ev w.fs o w.c c' src _ hp rfl, hr]; rfl
  have hw := writeText_overwrite ev w.fs (parseTarget src o.scope output) mode o.order (.sd sd) c' (.inl hm)
  rw [ht] at hw
  have hto := C13api.writeTo_ok (ev := ev) (w := { w with c := c' }) hw
  exact ⟨c', by simp only [apiStep, hfile, hread, hto]⟩

/-- with the default treatment (includes merged, no scope, no reordering) `postRead` of a comment-free document's
    meaning is that meaning: `_merge_includes`, `_clean` and `_eval_expressions` change nothing -/
theorem postRead_plain (ev : Str → EvalResult) {es : SrcEntries} {gaps : List Str} {tail : Str} (hdoc : PlainDoc es gaps tail)
    (o : ReadOpts) (hi : o.includes = true) (hs : o.scope = []) (ho : o.order = false) :
    postRead ev o { data := denSrcEs es [] } = .ok (some { data := denSrcEs es [] }) := by
  have hn : NodupKeysV (.dict (denSrcEs es [])) := C02.den_nodup es
  have hcl : ({ data := denSrcEs es [] } : SD).clean = { data := denSrcEs es [] } :=
    C07.clean_id _ hn (C02.den_noPh hdoc.wf)
  have hsm : selfMerge { data := denSrcEs es [] } = { data := denSrcEs es [] } := by
    rw [selfMerge_eq _ hn, hcl, hcl]
  unfold postRead
  simp [hi, hs, ho, hsm, C01.evalExpressions_noexpr ev { data := denSrcEs es [] } rfl, Except.bind]

/-- … so the probe with such options returns exactly the documented meaning of the document -/
theorem plainProbe_meaning (ev : Str → EvalResult) {p : Comps} {es : SrcEntries} {gaps : List Str} {tail : Str}
    (hdoc : PlainDoc es gaps tail) (o : ReadOpts) (hi : o.includes = true) (hs : o.scope = []) (ho : o.order = false)
    (hxj : (isXmlPath p || isJsonPath p) = false) :
    plainProbe ev p o es = .data { data := denSrcEs es [] } := by
  simp only [plainProbe, hxj, postRead_plain ev hdoc o hi hs ho, probeOut]
  rfl

/-! ## property theorems -/

/-- **C08 on histories, writes included.**  Take any world whose counter holds a value that can occur, any history of
    API calls — reads, loads, resets, and writes / dumps / parses whose target is not the probed file —, and a probe
    `read p o` (any options) of a file that is an admissible layout of a well-formed comment-free document.  The probe
    after the history returns what it returns in the fresh world (same files, counter reset) — and that is
    `plainProbe`, a function of the document and the options alone.  The outputs of the history itself are untouched. -/
theorem C08_history_writes (ev : Str → EvalResult) (ops : List ApiOp) (w : World) (p : Comps) (o : ReadOpts)
    {es : SrcEntries} {gaps : List Str} {tail : Str} (hdoc : PlainDoc es gaps tail)
    (hfile : w.fs.get (resolveSpelled p) = some (.native (spreadS (srcToksEs es) gaps tail)))
    (hc : C13.ValidCounter Gen.counterLimit w.c)
    (hops : ∀ op ∈ ops, op.target ≠ some (resolveSpelled p)) :
    (apiRun ev w (ops ++ [.read p o])).2 =
        (apiRun ev w ops).2 ++ (apiRun ev { fs := w.fs, c := none } [.read p o]).2 ∧
      (apiRun ev { fs := w.fs, c := none } [.read p o]).2 = [plainProbe ev p o es] := by
  have h1 : (apiStep ev (apiRun ev w ops).1 (.read p o)).2 = plainProbe ev p o es :=
    probe_plain ev o hdoc (by rw [C13api.run_frame ev _ ops w hops]; exact hfile) (run_valid_counter ev ops w hc)
  have h2 : (apiStep ev { fs := w.fs, c := none } (.read p o)).2 = plainProbe ev p o es :=
    probe_plain ev (w := { fs := w.fs, c := none }) o hdoc hfile V_none
  have h3 : (apiRun ev { fs := w.fs, c := none } [.read p o]).2 = [plainProbe ev p o es] := by
    rw [C13api.apiRun_cons, h2]; rfl
  exact ⟨by rw [apiRun_snoc, h1, h3], h3⟩

theorem target_of_readOp {op : ApiOp} (h : C13api.IsReadOp op) : op.target = none := by
  cases op <;> first | rfl | exact h.elim

/-- **C08 on histories of reads, loads and resets** (no side condition on the history at all) -/
theorem C08_history_reads (ev : Str → EvalResult) (ops : List ApiOp) (w : World) (p : Comps) (o : ReadOpts)
    {es : SrcEntries} {gaps : List Str} {tail : Str} (hdoc : PlainDoc es gaps tail)
    (hfile : w.fs.get (resolveSpelled p) = some (.native (spreadS (srcToksEs es) gaps tail)))
    (hc : C13.ValidCounter Gen.counterLimit w.c)
    (hops : ∀ op ∈ ops, C13api.IsReadOp op) :
    (apiRun ev w (ops ++ [.read p o])).2 =
        (apiRun ev w ops).2 ++ (apiRun ev { fs := w.fs, c := none } [.read p o]).2 ∧
      (apiRun ev { fs := w.fs, c := none } [.read p o]).2 = [plainProbe ev p o es] :=
  C08_history_writes ev ops w p o hdoc hfile hc (fun op hop => by rw [target_of_readOp (hops op hop)]; exact nofun)

/-- the same for the probe `SDict().load(p)` -/
theorem C08_history_load (ev : Str → EvalResult) (ops : List ApiOp) (w : World) (p : Comps)
    {es : SrcEntries} {gaps : List Str} {tail : Str} (hdoc : PlainDoc es gaps tail)
    (hfile : w.fs.get (resolveSpelled p) = some (.native (spreadS (srcToksEs es) gaps tail)))
    (hc : C13.ValidCounter Gen.counterLimit w.c)
    (hops : ∀ op ∈ ops, op.target ≠ some (resolveSpelled p)) :
    (apiRun ev w (ops ++ [.load p])).2 =
        (apiRun ev w ops).2 ++ (apiRun ev { fs := w.fs, c := none } [.load p]).2 ∧
      (apiRun ev { fs := w.fs, c := none } [.load p]).2 = [plainLoad ev p es] := by
  have h1 : (apiStep ev (apiRun ev w ops).1 (.load p)).2 = plainLoad ev p es :=
    load_plain ev hdoc (by rw [C13api.run_frame ev _ ops w hops]; exact hfile) (run_valid_counter ev ops w hc)
  have h2 : (apiStep ev { fs := w.fs, c := none } (.load p)).2 = plainLoad ev p es :=
    load_plain ev (w := { fs := w.fs, c := none }) hdoc hfile V_none
  have h3 : (apiRun ev { fs := w.fs, c := none } [.load p]).2 = [plainLoad ev p es] := by
    rw [C13api.apiRun_cons, h2]; rfl
  exact ⟨by rw [apiRun_snoc, h1, h3], h3⟩

/-- **C08 for writes, on histories.**  After *any* history of API calls (no side condition: the history may read,
    rewrite or create the target itself), from any world and any counter value whatsoever, an overwriting `write`
    (mode other than `'a'`) of any source — builtin dict or SDict — leaves in its target exactly `writeBytes`, a
    function of the target's suffix, the source and `order` alone; it returns `None`; it does not move the counter. -/
theorem C08_write_bytes_history (ev : Str → EvalResult) (ops : List ApiOp) (w : World) (a : Arg) (target : Comps)
    (mode : Str) (order : Bool) (hm : mode ≠ ['a']) {t : Str} (ht : writeBytes target order a = some t) :
    let r := apiRun ev w (ops ++ [.write a target mode order])
    r.1.fs.get (resolveSpelled target) = some (.native t) ∧ r.2 = (apiRun ev w ops).2 ++ [.done] ∧
      r.1.c = (apiRun ev w ops).1.c := by
  simp only [apiRun_snoc, write_step ev _ a target mode order (.inl hm), ht]
  exact ⟨C13api.get_set_self _ _ _, trivial, trivial⟩

/-- a write the model does not follow (`writeBytes = none`) changes nothing, after any history -/
theorem C08_write_unsupported_history (ev : Str → EvalResult) (ops : List ApiOp) (w : World) (a : Arg) (target : Comps)
    (mode : Str) (order : Bool) (hm : mode ≠ ['a']) (ht : writeBytes target order a = none) :
    apiRun ev w (ops ++ [.write a target mode order]) =
      ((apiRun ev w ops).1, (apiRun ev w ops).2 ++ [.gaveUp .unsupported]) := by
  simp only [apiRun_snoc, write_step ev _ a target mode order (.inl hm), ht]

/-- **C08 for `parse`, on histories.**  After any history that does not target the source, from any world with a
    counter value that can occur, `DictParser.parse(src, …)` in overwrite mode on a comment-free source writes into the
    derived file `parsed.<name>` bytes that are a function of the source document and the options alone (`writeBytes` of
    `postRead` of the document's meaning), and returns that dict, its string leaves re-typed by the writer. -/
theorem C08_parse_bytes_history (ev : Str → EvalResult) (ops : List ApiOp) (w : World) (src : Comps) (o : ReadOpts)
    (mode : Str) (output : Option Str) {es : SrcEntries} {gaps : List Str} {tail : Str} (hdoc : PlainDoc es gaps tail)
    (hfile : w.fs.get (resolveSpelled src) = some (.native (spreadS (srcToksEs es) gaps tail)))
    (hc : C13.ValidCounter Gen.counterLimit w.c)
    (hops : ∀ op ∈ ops, op.target ≠ some (resolveSpelled src))
    (hxj : (isXmlPath src || isJsonPath src) = false) (hm : mode ≠ ['a'])
    {sd : SD} (hr : postRead ev o { data := denSrcEs es [] } = .ok (some sd))
    {t : Str} (ht : writeBytes (parseTarget src o.scope output) o.order (.sd sd) = some t) :
    let r := apiRun ev w (ops ++ [.parse src o mode output])
    r.1.fs.get (resolveSpelled (parseTarget src o.scope output)) = some (.native t) ∧
      r.2 = (apiRun ev w ops).2 ++ [.data { sd with data := normEs sd.data }] := by
  obtain ⟨c', h⟩ := parse_step_plain ev (w := (apiRun ev w ops).1) o mode output hdoc
    (by rw [C13api.run_frame ev _ ops w hops]; exact hfile) (run_valid_counter ev ops w hc) hxj hm hr ht
  simp only [apiRun_snoc, h]
  exact ⟨C13api.get_set_self _ _ _, trivial⟩

/-- **C08 on histories, commented documents.**  Any world with a counter value that can occur, any history of API calls
    none of which targets the probed file (reads, loads and resets never do), a probe `read p o` with comments kept,
    `order=False`, no scope (`includes` on or off) of a file that is an admissible layout of a well-formed commented
    document: the probe after the history and the probe in the fresh world return SDicts with the same canonical form
    (`C08.canonSD`: the placeholder ids, which do depend on the counter, replaced by their rank of first appearance).
    The list equation says in addition that the history's own outputs are what they were. -/
theorem C08_history_commented (ev : Str → EvalResult) (ops : List ApiOp) (w : World) (p : Comps) (o : ReadOpts)
    (ho : CommentedOpts o) {items : List CItem} {gaps : List Str} {tail : Str} (hdoc : CommentedDoc items gaps tail)
    (hfile : w.fs.get (resolveSpelled p) = some (.native (spreadC (ctoksItems items) gaps tail)))
    (hc : C13.ValidCounter Gen.counterLimit w.c)
    (hops : ∀ op ∈ ops, op.target ≠ some (resolveSpelled p)) :
    (apiRun ev w (ops ++ [.read p o])).2.map canonOut =
      (apiRun ev w ops).2.map canonOut ++ (apiRun ev { fs := w.fs, c := none } [.read p o]).2.map canonOut := by
  have h1 : canonOut (apiStep ev (apiRun ev w ops).1 (.read p o)).2 =
      canonOut (apiStep ev { fs := w.fs, c := none } (.read p o)).2 :=
    probe_commented_canon ev (w₁ := { fs := w.fs, c := none }) ho hdoc hfile V_none
      (by rw [C13api.run_frame ev _ ops w hops]; exact hfile) (run_valid_counter ev ops w hc)
  rw [apiRun_snoc, List.map_append, List.map_singleton, h1, C13api.apiRun_cons]
  rfl

/-- the same for histories of reads, loads and resets: no side condition on the history -/
theorem C08_history_commented_reads (ev : Str → EvalResult) (ops : List ApiOp) (w : World) (p : Comps) (o : ReadOpts)
    (ho : CommentedOpts o) {items : List CItem} {gaps : List Str} {tail : Str} (hdoc : CommentedDoc items gaps tail)
    (hfile : w.fs.get (resolveSpelled p) = some (.native (spreadC (ctoksItems items) gaps tail)))
    (hc : C13.ValidCounter Gen.counterLimit w.c)
    (hops : ∀ op ∈ ops, C13api.IsReadOp op) :
    (apiRun ev w (ops ++ [.read p o])).2.map canonOut =
      (apiRun ev w ops).2.map canonOut ++ (apiRun ev { fs := w.fs, c := none } [.read p o]).2.map canonOut :=
  C08_history_commented ev ops w p o ho hdoc hfile hc
    (fun op hop => by rw [target_of_readOp (hops op hop)]; exact nofun)

/-! ## non-vacuity -/

/-! ### a world with two files, the counter one step before the wrap-around -/

def exA : Comps := ["w".toList, "plain".toList]
def exB : Comps := ["w".toList, "doc".toList]
def exOut : Comps := ["w".toList, "out".toList]

def exAText : Str := "\tk  'a; {b}' ;\r\nl (\t\"it's\"\u00a01 );\r\n\r\nsub\n{\n  p\t\t'x y';\n}\r\n".toList
def exBText : Str :=
  (" // first\n  /* hdr C++ x */ a 1 ; // tail 'q' ; { $x\n  n { // nested\n  p 'x y' ; /*blk\n two*/ // nested\n" ++
   "  } l ( 1 \"it's\" ) ; // first\n").toList

/-- `plain`: the loose layout of `C02.exSrc` (three quoted strings, a list, a nested dict; tabs, CR LF, a no-break
    space); `doc`: the commented document `C12.exDoc` (five line comments, two block comments) -/
def exWorld : World := { fs := [(exA, .native exAText), (exB, .native exBText)], c := some 999998 }

/-- a write to a third file, a read of `plain` (ids 999999, 0, 1: across the wrap-around), a read of `doc` (ids 2 … 8) -/
def exOps : List ApiOp :=
  [.write (.plain [(.str "k".toList, .leaf (.int 5))]) exOut ['w'] false, .read exA {}, .read exB {}]

theorem exPlainDoc : PlainDoc C02.exSrc C02.exSGapsLoose ['\r', '\n'] :=
  ⟨C02.exSrc_wf, C02.exSGapsLoose_ok, by decide, by rw [C02.exSrc_count]; decide, C02.exSrc_docKeys⟩

theorem exCommentedDoc : CommentedDoc C12.exDoc C12.exGaps ['\n'] :=
  ⟨C12.exDoc_wf, C12.exGaps_ok, fun h => (by cases h), by decide +kernel, by decide +kernel, C08.exDoc_blocks⟩

theorem exA_file : exWorld.fs.get (resolveSpelled exA) =
    some (.native (spreadS (srcToksEs C02.exSrc) C02.exSGapsLoose ['\r', '\n'])) := by
  rw [C02.exSLoose_text]; exact (rfl : _ = some (FileBody.native exAText))

theorem exB_file : exWorld.fs.get (resolveSpelled exB) =
    some (.native (spreadC (ctoksItems C12.exDoc) C12.exGaps ['\n'])) := by
  rw [C12.exDoc_text]; exact (rfl : _ = some (FileBody.native exBText))

theorem exOps_frame_A : ∀ op ∈ exOps, op.target ≠ some (resolveSpelled exA) := by decide
theorem exOps_frame_B : ∀ op ∈ exOps, op.target ≠ some (resolveSpelled exB) := by decide

/-- the data part of an output, for evaluation (`ApiOut` has no decidable equality) -/
def outData : ApiOut → Option Entries
  | .data s => some s.data
  | _ => none

def outLineC : ApiOut → Tbl Str
  | .data s => s.lineC
  | _ => []

/-- the history completes: `None`, data, data; and it ends with the counter at 8, past the wrap-around -/
example : (apiRun evalInt exWorld exOps).2.map (fun o => (outData o).isSome) = [false, true, true] ∧
    (apiRun evalInt exWorld exOps).1.c = some 8 := by decide +kernel

/-- `C08_history_writes` instantiated: the probe of `plain` after the history is the probe in the fresh world -/
theorem ex_plain_probe (o : ReadOpts) :
    (apiRun evalInt exWorld (exOps ++ [.read exA o])).2 =
      (apiRun evalInt exWorld exOps).2 ++ (apiRun evalInt { fs := exWorld.fs, c := none } [.read exA o]).2 :=
  (C08_history_writes evalInt exOps exWorld exA o exPlainDoc exA_file C08.ex_valid exOps_frame_A).1

/-- … evaluated without the theorem, with default options: the same data `C02.exData` from both worlds -/
example : ((apiRun evalInt exWorld (exOps ++ [.read exA {}])).2.map outData).getLast? = some (some C02.exData) ∧
    (apiRun evalInt { fs := exWorld.fs, c := none } [.read exA {}]).2.map outData = [some C02.exData] := by
  decide +kernel

/-- `C08_history_commented` instantiated: the probe of `doc` (default options) after the history … -/
theorem ex_commented_probe :
    (apiRun evalInt exWorld (exOps ++ [.read exB {}])).2.map canonOut =
      (apiRun evalInt exWorld exOps).2.map canonOut ++
        (apiRun evalInt { fs := exWorld.fs, c := none } [.read exB {}]).2.map canonOut :=
  C08_history_commented evalInt exOps exWorld exB {} ⟨rfl, rfl, rfl⟩ exCommentedDoc exB_file C08.ex_valid exOps_frame_B

/-- … evaluated without the theorem: after the history (counter at 8) the line comments carry the ids 9, 10, 11, in the
    fresh world 0, 1, 2: different SDicts (the theorem says: equal canonical forms) -/
example :
    ((apiRun evalInt exWorld (exOps ++ [.read exB {}])).2.map outLineC).getLast? =
      some [(9, "// first".toList), (10, "// tail 'q' ; { $x".toList), (11, "// nested".toList)] ∧
    (apiRun evalInt { fs := exWorld.fs, c := none } [.read exB {}]).2.map outLineC =
      [[(0, "// first".toList), (1, "// tail 'q' ; { $x".toList), (2, "// nested".toList)]] := by
  decide +kernel

/-- the probe itself across the wrap-around: `doc` read at 999998 draws the ids 999999, 0, 1
    (`C08.exDoc_canon_eval` evaluates the canonical form of this SDict: it is the read from the fresh counter) -/
example : (apiRun evalInt exWorld [.read exB {}]).2.map outLineC =
    [[(999999, "// first".toList), (0, "// tail 'q' ; { $x".toList), (1, "// nested".toList)]] := by
  decide +kernel

/-! ### `C08_write_bytes_history` on the example -/

/-- whatever the history did to `plain` (here: read it, twice), overwriting it with any builtin dict `d` leaves the
    formatter's text of `d`, retyped -/
example (d : Entries) :
    (apiRun evalInt exWorld (exOps ++ [.write (.plain d) exA ['w'] false])).1.fs.get (resolveSpelled exA) =
      some (.native (fmtPlain .native (normEs d))) :=
  (C08_write_bytes_history evalInt exOps exWorld (.plain d) exA ['w'] false (by decide)
    (writeBytes_plain exA false d (fl := .native) (by decide +kernel))).1

/-! ### `C08_parse_bytes_history` on the example -/

/-- after the history, `parse plain` (overwrite mode) leaves in `w/parsed.plain` the formatter's text of the document's
    meaning `C02.exData` (some text `t`: the formatter does not give up) -/
theorem ex_parse : ∃ t, writeBytes (parseTarget exA [] none) false (.sd { data := C02.exData }) = some t ∧
    (apiRun evalInt exWorld (exOps ++ [.parse exA {} ['w'] none])).1.fs.get ["w".toList, "parsed.plain".toList] =
      some (.native t) := by
  obtain ⟨t, ht⟩ := Option.isSome_iff_exists.mp
    (by decide +kernel : (writeBytes (parseTarget exA [] none) false (.sd { data := C02.exData })).isSome = true)
  have hr : postRead evalInt {} { data := denSrcEs C02.exSrc [] } = .ok (some { data := C02.exData }) := by
    rw [postRead_plain evalInt exPlainDoc {} rfl rfl rfl, C02.exSrc_den]
  exact ⟨t, ht, (C08_parse_bytes_history evalInt exOps exWorld exA {} ['w'] none exPlainDoc exA_file C08.ex_valid
    exOps_frame_A (by decide) (by decide) hr ht).1⟩

/-! ### `order=True` is excluded for a reason: the statement without `o.order = false` is false -/

/-- `// x`, `a 1;`, `// y` -/
def exODoc : List CItem := [.lineC " x".toList, .entry ['a'] (.lit (.bare ['1'])), .lineC " y".toList]
def exOGaps : List Str := [[' '], ['\n'], [' '], [], [' ']]
def exOText : Str := " // x\na 1; // y\n".toList
def exO : Comps := ["w".toList, "o".toList]
def exOWorld : World := { fs := [(exO, .native exOText)], c := some 999998 }

theorem exOToks : ctoksItems exODoc =
    [.lineC " x".toList, .tok (.word ['a']), .tok (.word ['1']), .tok (.word [';']), .lineC " y".toList] := by
  simp [exODoc, ctoksItems, Lit.tok]

theorem exOCommentedDoc : CommentedDoc exODoc exOGaps ['\n'] :=
  ⟨by decide +kernel, by rw [exOToks]; decide +kernel, fun h => (by cases h), by decide +kernel, by decide +kernel,
    by decide +kernel⟩

theorem exO_file : exOWorld.fs.get (resolveSpelled exO) =
    some (.native (spreadC (ctoksItems exODoc) exOGaps ['\n'])) := by
  have : spreadC (ctoksItems exODoc) exOGaps ['\n'] = exOText := by rw [exOToks]; decide +kernel
  rw [this]; rfl

/-- **refutation.**  `C08_history_commented` with `order=True`: the file `" // x\na 1; // y\n"`, the counter at 999998,
    the empty history.  The two line comments get the ids 999999 and 0; `order=True` sorts the table by id, so `// y`
    comes first, while from the fresh counter (ids 0, 1) `// x` comes first: the canonical forms differ (finding D18, here
    at the level of the API). -/
theorem order_refutes :
    ¬ ∀ (ops : List ApiOp) (w : World) (p : Comps) (o : ReadOpts) (items : List CItem) (gaps : List Str) (tail : Str),
      o.comments = true → o.scope = [] → CommentedDoc items gaps tail →
      w.fs.get (resolveSpelled p) = some (.native (spreadC (ctoksItems items) gaps tail)) →
      C13.ValidCounter Gen.counterLimit w.c → (∀ op ∈ ops, op.target ≠ some (resolveSpelled p)) →
      (apiRun evalInt w (ops ++ [.read p o])).2.map canonOut =
        (apiRun evalInt w ops).2.map canonOut ++ (apiRun evalInt { fs := w.fs, c := none } [.read p o]).2.map canonOut := by
  intro h
  have := h [] exOWorld exO { order := true } exODoc exOGaps ['\n'] rfl rfl exOCommentedDoc exO_file C08.ex_valid
    (fun _ hop => nomatch hop)
  have := congrArg (fun l => l.map outLineC) this
  revert this
  decide +kernel

/-- the two tables of the refutation, evaluated -/
example :
    (apiRun evalInt exOWorld [.read exO { order := true }]).2.map outLineC = [[(0, "// y".toList), (999999, "// x".toList)]] ∧
    (apiRun evalInt { fs := exOWorld.fs, c := none } [.read exO { order := true }]).2.map outLineC =
      [[(0, "// x".toList), (1, "// y".toList)]] := by decide +kernel

/- checked: each of the following depends on [propext, Classical.choice, Quot.sound] only
#print axioms step_valid_counter
#print axioms run_valid_counter
#print axioms C08_history_writes
#print axioms C08_history_reads
#print axioms C08_history_load
#print axioms C08_write_bytes_history
#print axioms C08_write_unsupported_history
#print axioms C08_parse_bytes_history
#print axioms C08_history_commented
#print axioms C08_history_commented_reads
#print axioms order_refutes
#print axioms plainProbe_meaning
#print axioms ex_parse
#print axioms ex_plain_probe
#print axioms ex_commented_probe
-/

end C08api
end DictIO
