import DictIO.Props.C13api
import DictIO.Props.C08nat
import DictIO.Props.C06

namespace DictIO
namespace C08api
open DictIO

/-! ## helper lemmas -/

/-- the counter values that can occur -/
abbrev V (c : Counter) : Prop := C13.ValidCounter Gen.counterLimit c

theorem V_none : V none := Or.inl rfl

theorem fresh_valid {st : LexSt} (h : V st.counter) : V st.fresh.2.counter :=
  C13.next_valid h

theorem lexLineComment_valid (comments : Bool) {st : LexSt} (line : Str) (h : V st.counter) :
    V (lexLineComment comments st line).1.counter := by
  unfold lexLineComment
  split
  · exact h
  · exact fresh_valid h

theorem lexInclude_valid (dir : Str) {st : LexSt} (line : Str) (h : V st.counter) :
    V (lexInclude dir st line).1.counter := by
  unfold lexInclude
  split
  · exact h
  · exact fresh_valid h

theorem foldl_lines_valid (f : LexSt → Str → LexSt × Str) (hf : ∀ st l, V st.counter → V (f st l).1.counter) :
    ∀ (lines : List Str) (acc : LexSt × List Str), V acc.1.counter →
      V (lines.foldl (fun (acc : LexSt × List Str) l => ((f acc.1 l).1, acc.2 ++ [(f acc.1 l).2])) acc).1.counter
  | [], _, h => h
  | l :: ls, acc, h => by
    simp only [List.foldl_cons]
    exact foldl_lines_valid f hf ls _ (hf _ _ h)

theorem lexLiterals_valid : ∀ (fuel : Nat) (st : LexSt) (prev : Option Char) (s : Str) (st' : LexSt) (t : Str),
    lexLiteralsFuel fuel st prev s = .ok (st', t) → V st.counter → V st'.counter
  | 0, st, _, s, st', t, h, hv => by
    simp only [lexLiteralsFuel, Except.ok.injEq, Prod.mk.injEq] at h
    rw [← h.1]; exact hv
  | _ + 1, st, _, [], st', t, h, hv => by
    simp only [lexLiteralsFuel, Except.ok.injEq, Prod.mk.injEq] at h
    rw [← h.1]; exact hv
  | fuel + 1, st, prev, c :: r, st', t, h, hv => by
    simp only [lexLiteralsFuel] at h
    split at h
    · split at h
      · cases h
      · split at h
        · cases hr : lexLiteralsFuel fuel st (some c) r with
          | error e => simp [hr, bind, Except.bind] at h
          | ok x =>
            simp only [hr, bind, Except.bind, pure, Except.pure, Except.ok.injEq, Prod.mk.injEq] at h
            have := lexLiterals_valid fuel st (some c) r x.1 x.2 hr hv
            rw [← h.1]; exact this
        · next body rest _ =>
          split at h
          · cases hr : lexLiteralsFuel fuel st (some '"') rest with
            | error e => simp [hr, bind, Except.bind] at h
            | ok x =>
              simp only [hr, bind, Except.bind, pure, Except.pure, Except.ok.injEq, Prod.mk.injEq] at h
              have := lexLiterals_valid fuel st (some '"') rest x.1 x.2 hr hv
              rw [← h.1]; exact this
          · cases hr : lexLiteralsFuel fuel { st.fresh.2 with lits := st.fresh.2.lits.set st.fresh.1 body } (some c) rest with
            | error e => simp [hr, bind, Except.bind] at h
            | ok x =>
              simp only [hr, bind, Except.bind, pure, Except.pure, Except.ok.injEq, Prod.mk.injEq] at h
              have := lexLiterals_valid fuel _ (some c) rest x.1 x.2 hr (fresh_valid hv)
              rw [← h.1]; exact this
    · cases hr : lexLiteralsFuel fuel st (some c) r with
      | error e => simp [hr, bind, Except.bind] at h
      | ok x =>
        simp only [hr, bind, Except.bind, pure, Except.pure, Except.ok.injEq, Prod.mk.injEq] at h
        have := lexLiterals_valid fuel st (some c) r x.1 x.2 hr hv
        rw [← h.1]; exact this

theorem lexRefs_valid : ∀ (fuel : Nat) (st : LexSt) (s : Str), V st.counter → V (lexRefsFuel fuel st s).1.counter
  | 0, _, _, h => h
  | fuel + 1, st, s, h => by
    simp only [lexRefsFuel]
    split
    · exact h
    · exact lexRefs_valid fuel _ _ (fresh_valid h)

theorem foldl_exprs_valid : ∀ (found : List Str) (acc : LexSt × Str), V acc.1.counter →
    V (found.foldl (fun (acc : LexSt × Str) e =>
      let (st, s) := acc
      let (i, st) := st.fresh
      let ph := kwExpr ++ padSix i
      ({ st with exprs := st.exprs.set i { expression := e.filter (· != '"'), name := ph } }, replaceAll e ph s)) acc).1.counter
  | [], _, h => h
  | e :: es, acc, h => by
    simp only [List.foldl_cons]
    exact foldl_exprs_valid es _ (fresh_valid h)

theorem lexExpressions_valid (st : LexSt) (s : Str) (h : V st.counter) : V (lexExpressions st s).1.counter := by
  unfold lexExpressions
  exact lexRefs_valid _ _ _ (foldl_exprs_valid _ _ h)

/-- **the native parser leaves a counter value that can occur**, for every text (well-formed or not) -/
theorem parseNative_valid {comments : Bool} {dir : Str} {c c' : Counter} {text : Str} {sd : SD}
    (h : parseNative comments dir c text = .ok (sd, c')) (hc : V c) : V c' := by
  unfold parseNative at h
  simp only [bind, Except.bind, pure, Except.pure] at h
  have hA := foldl_lines_valid (lexLineComment comments) (fun st l => lexLineComment_valid comments l)
    (splitLinesKeep text) ({ counter := c }, []) hc
  generalize List.foldl _ (({ counter := c } : LexSt), ([] : List Str)) (splitLinesKeep text) = A at h hA
  have hB := foldl_lines_valid (lexInclude dir) (fun st l => lexInclude_valid dir l) A.2 (A.1, []) hA
  generalize List.foldl _ (A.1, ([] : List Str)) A.2 = B at h hB
  split at h
  · cases h
  · next st block hl =>
    have hst := lexLiterals_valid _ _ _ _ _ _ hl hB
    split at h
    · cases h
    · split at h
      · cases h
      · simp only [Except.ok.injEq, Prod.mk.injEq] at h
        rw [← h.2]
        exact lexExpressions_valid _ _ hst

theorem jsonExtractExpr_valid (st : JsonSt) (s : Str) (h : V st.counter) : V (jsonExtractExpr st s).1.counter := by
  unfold jsonExtractExpr
  split
  · exact h
  · exact C13.next_valid h

mutual
  theorem jsonExprV_valid : ∀ (v : Val) (st : JsonSt), V st.counter → V (jsonExprV st v).1.counter
    | .leaf (.str s), st, h => by
      simp only [jsonExprV]
      split
      · exact jsonExtractExpr_valid st s h
      · exact h
    | .leaf (.int _), st, h => by simpa only [jsonExprV] using h
    | .leaf (.float _), st, h => by simpa only [jsonExprV] using h
    | .leaf (.bool _), st, h => by simpa only [jsonExprV] using h
    | .leaf .none, st, h => by simpa only [jsonExprV] using h
    | .dict es, st, h => by simp only [jsonExprV]; exact jsonExprEs_valid es st h
    | .list xs, st, h => by simp only [jsonExprV]; exact jsonExprXs_valid xs st h
  theorem jsonExprEs_valid : ∀ (es : Entries) (st : JsonSt), V st.counter → V (jsonExprEs st es).1.counter
    | [], st, h => by simpa only [jsonExprEs] using h
    | (k, v) :: es, st, h => by
      simp only [jsonExprEs]
      exact jsonExprEs_valid es _ (jsonExprV_valid v st h)
  theorem jsonExprXs_valid : ∀ (xs : List Val) (st : JsonSt), V st.counter → V (jsonExprXs st xs).1.counter
    | [], st, h => by simpa only [jsonExprXs] using h
    | v :: xs, st, h => by
      simp only [jsonExprXs]
      exact jsonExprXs_valid xs _ (jsonExprV_valid v st h)
end

theorem foldl_fst_valid {α β : Type} (f : Counter × β → α → Counter × β) (hf : ∀ acc e, V acc.1 → V (f acc e).1) :
    ∀ (l : List α) (acc : Counter × β), V acc.1 → V (l.foldl f acc).1
  | [], _, h => h
  | e :: l, acc, h => by
    simp only [List.foldl_cons]
    exact foldl_fst_valid f hf l _ (hf _ _ h)

theorem parseJson_valid (dir : Comps) (c : Counter) (es : Entries) (hc : V c) : V (parseJson dir c es).2 := by
  unfold parseJson
  simp only
  apply jsonExprEs_valid
  refine foldl_fst_valid _ ?_ es _ hc
  intro acc e h
  split
  · split
    · exact C13.next_valid h
    · exact h
  · exact h

theorem parseFile_valid {fs : FS} {comments : Bool} {c c' : Counter} {p : Comps} {sd : SD}
    (h : parseFile fs comments c p = .ok (sd, c')) (hc : V c) : V c' := by
  unfold parseFile at h
  split at h
  · cases h
  · split at h
    · cases h
    · split at h
      · cases h
      · split at h
        · cases h
        · next sd0 c0 hp =>
          simp only [Except.ok.injEq, Prod.mk.injEq] at h
          rw [← h.2]; exact parseNative_valid hp hc
    · split at h
      · next es _ _ =>
        simp only [Except.ok.injEq] at h
        have := parseJson_valid p.dropLast c es hc
        rw [h] at this; exact this
      · cases h

/-- a monadic left fold keeps an invariant of the accumulator that every step keeps -/
theorem foldlM_inv {α β : Type} (P : β → Prop) (f : β → α → Except ParseErr β)
    (hf : ∀ b a b', f b a = .ok b' → P b → P b') :
    ∀ (l : List α) (b b' : β), l.foldlM f b = .ok b' → P b → P b'
  | [], b, b', h, hb => by
    simp only [List.foldlM, pure, Except.pure, Except.ok.injEq] at h
    rw [← h]; exact hb
  | a :: l, b, b', h, hb => by
    simp only [List.foldlM, bind, Except.bind] at h
    split at h
    · cases h
    · next b1 h1 => exact foldlM_inv P f hf l b1 b' h (hf _ _ _ h1 hb)

theorem inclStep_valid (fs : FS) (comments : Bool) (recur : List Comps → SD → Comps → Counter → Except ParseErr (SD × Counter))
    (hr : ∀ a sd d c r, recur a sd d c = .ok r → V c → V r.2)
    (ancestors : List Comps) (dir : Comps) (acc acc' : SD × Counter) (e : Nat × InclEntry)
    (h : C06.inclStep fs comments recur ancestors dir acc e = .ok acc') (hv : V acc.2) : V acc'.2 := by
  unfold C06.inclStep at h
  simp only [bind, Except.bind, pure, Except.pure] at h
  split at h
  · simp only [Except.ok.injEq] at h; rw [← h]; exact hv
  · split at h
    · simp only [Except.ok.injEq] at h; rw [← h]; exact hv
    · split at h
      · cases h
      · next r hp =>
        have h1 : V r.2 := parseFile_valid (sd := r.1) (c' := r.2) hp hv
        split at h
        · simp only [Except.ok.injEq] at h; rw [← h]; exact h1
        · split at h
          · cases h
          · next r2 hr2 =>
            simp only [Except.ok.injEq] at h; rw [← h]
            exact hr _ _ _ _ r2 hr2 h1

theorem mergeIncludesRec_valid (fs : FS) (comments : Bool) : ∀ (fuel : Nat) (ancestors : List Comps) (parent : SD)
    (dir : Comps) (c : Counter) (r : SD × Counter),
    mergeIncludesRec fs comments fuel ancestors parent dir c = .ok r → V c → V r.2
  | 0, _, _, _, _, r, h, hc => by
    rw [C06.mergeIncludesRec_zero] at h
    simp only [Except.ok.injEq] at h; rw [← h]; exact hc
  | fuel + 1, ancestors, parent, dir, c, r, h, hc => by
    rw [C06.mergeIncludesRec_succ] at h
    cases hf : parent.incl.foldlM (C06.inclStep fs comments (mergeIncludesRec fs comments fuel) ancestors dir) (({} : SD), c) with
    | error e => rw [hf] at h; cases h
    | ok x =>
      rw [hf] at h
      simp only [Except.map, Except.ok.injEq] at h
      rw [← h]
      show V x.2
      exact foldlM_inv (fun b : SD × Counter => V b.2) _
        (fun b a b' hb => inclStep_valid fs comments _ (mergeIncludesRec_valid fs comments fuel) ancestors dir b b' a hb)
        _ _ _ hf hc

theorem mergeIncludes_valid {fs : FS} {comments : Bool} {parent : SD} {dir : Comps} {c : Counter} {r : SD × Counter}
    (h : mergeIncludes fs comments parent dir c = .ok r) (hc : V c) : V r.2 := by
  unfold mergeIncludes at h
  simp only [bind, Except.bind, pure, Except.pure] at h
  split at h
  · cases h
  · next x hx =>
    simp only [Except.ok.injEq] at h; rw [← h]
    exact mergeIncludesRec_valid fs comments _ _ _ _ _ x hx hc

/-- **a read leaves a counter value that can occur** -/
theorem readFile_valid {ev : Str → EvalResult} {fs : FS} {o : ReadOpts} {c c' : Counter} {p : Comps} {sd : SD}
    (h : readFile ev fs o c p = .ok (.ok sd c')) (hc : V c) : V c' := by
  cases ho : o.includes with
  | true =>
    rw [C06.readFile_anchor ev fs o c p ho] at h
    cases hp : parseFile fs o.comments c p with
    | error e => rw [hp] at h; cases h
    | ok r =>
      have h1 : V r.2 := parseFile_valid (sd := r.1) (c' := r.2) hp hc
      cases hm : mergeIncludes fs o.comments r.1 p.dropLast r.2 with
      | error e => rw [hp] at h; simp only [Except.bind, hm] at h; cases h
      | ok r2 =>
        have h2 : V r2.2 := mergeIncludes_valid hm h1
        rw [hp] at h; simp only [Except.bind, hm] at h
        split at h
        · cases h
        · split at h
          · cases h
          · simp only [pure, Except.pure, Except.ok.injEq, ReadOut.ok.injEq] at h
            rw [← h.2]; exact h2
  | false =>
    rw [C06.readFile_off ev fs o c p ho] at h
    cases hp : parseFile fs o.comments c p with
    | error e => rw [hp] at h; cases h
    | ok r =>
      have h1 : V r.2 := parseFile_valid (sd := r.1) (c' := r.2) hp hc
      rw [hp] at h; simp only [Except.bind] at h
      split at h
      · cases h
      · split at h
        · cases h
        · simp only [pure, Except.pure, Except.ok.injEq, ReadOut.ok.injEq] at h
          rw [← h.2]; exact h1

theorem writeText_valid {ev : Str → EvalResult} {fs : FS} {target : Comps} {mode : Str} {order : Bool} {a : Arg}
    {c c' : Counter} {t : Str} (h : writeText ev fs target mode order a c = .ok (t, c')) (hc : V c) : V c' := by
  unfold writeText at h
  split at h
  · cases h
  · next fl _ =>
    have hfresh : ∀ {x : Except ParseErr (Str × Counter)},
        x = (match fmtArg fl (if order = true then a.retype.order else a.retype) with
          | some t => .ok (t, c)
          | none => .error .unsupported) → x = .ok (t, c') → V c' := by
      intro x hx hx'
      rw [hx] at hx'
      split at hx'
      · simp only [Except.ok.injEq, Prod.mk.injEq] at hx'; rw [← hx'.2]; exact hc
      · cases hx'
    simp only at h
    split at h
    · split at h
      · split at h
        · cases h
        · cases h
        · next sd c1 hr =>
          split at h
          · simp only [Except.ok.injEq, Prod.mk.injEq] at h
            rw [← h.2]; exact readFile_valid hr hc
          · cases h
      · exact hfresh rfl h
    · exact hfresh rfl h

theorem writeTo_valid (ev : Str → EvalResult) (w : World) (target : Comps) (mode : Str) (order : Bool) (a : Arg)
    (hc : V w.c) : V (writeTo ev w target mode order a).1.c := by
  cases hw : writeText ev w.fs target mode order a w.c with
  | error e => rw [C13api.writeTo_error hw]; exact hc
  | ok r =>
    obtain ⟨t, c'⟩ := r
    rw [C13api.writeTo_ok hw]
    exact writeText_valid hw hc

/-- **the counter invariant**: every API call, completed or not, on every world whose counter holds a value that can
    occur (`none` after a reset, or `some n` with `n ≤ 999999`) leaves such a world -/
theorem step_valid_counter (ev : Str → EvalResult) (w : World) (op : ApiOp) (hc : V w.c) : V (apiStep ev w op).1.c := by
  cases op with
  | read p o =>
    cases hg : w.fs.get (resolveSpelled p) with
    | none => simpa [apiStep, hg] using hc
    | some b =>
      cases hr : readFile ev w.fs o w.c p with
      | error e => simpa [apiStep, hg, hr] using hc
      | ok r =>
        cases r with
        | exit1 => simpa [apiStep, hg, hr] using hc
        | ok sd c' => simpa [apiStep, hg, hr] using readFile_valid hr hc
  | load p =>
    cases hg : w.fs.get (resolveSpelled p) with
    | none => simpa [apiStep, hg] using hc
    | some b =>
      cases hr : readFile ev w.fs {} w.c p with
      | error e => simpa [apiStep, hg, hr] using hc
      | ok r =>
        cases r with
        | exit1 => simpa [apiStep, hg, hr] using hc
        | ok sd c' => simpa [apiStep, hg, hr] using V_none
  | reset => exact V_none
  | write a target mode order => exact writeTo_valid ev w target mode order a hc
  | dump s target => exact writeTo_valid ev w target ['a'] false (.sd s) hc
  | parse src o mode output =>
    cases hg : w.fs.get (resolveSpelled src) with
    | none => simpa [apiStep, hg] using hc
    | some b =>
      cases hr : readFile ev w.fs o w.c src with
      | error e => simpa [apiStep, hg, hr] using hc
      | ok r =>
        cases r with
        | exit1 => simpa [apiStep, hg, hr] using hc
        | ok sd c' =>
          have h1 : V c' := readFile_valid hr hc
          cases hw : writeText ev w.fs (parseTarget src o.scope output) mode o.order (.sd sd) c' with
          | error e =>
            have := C13api.writeTo_error (ev := ev) (w := { w with c := c' }) hw
            simpa [apiStep, hg, hr, this] using hc
          | ok r =>
            obtain ⟨t, c''⟩ := r
            have := C13api.writeTo_ok (ev := ev) (w := { w with c := c' }) hw
            simpa [apiStep, hg, hr, this] using writeText_valid hw h1

/-- the invariant along every history -/
theorem run_valid_counter (ev : Str → EvalResult) : ∀ (ops : List ApiOp) (w : World), V w.c → V (apiRun ev w ops).1.c
  | [], _, h => h
  | op :: ops, w, h => by
    rw [C13api.apiRun_cons]
    exact run_valid_counter ev ops _ (step_valid_counter ev w op h)

/-! ### reading a file that has no include directive: everything after `parse_file` is a function of the parsed dict -/

/-- what `_merge_includes` does to a dict without include entries: `parent.merge(SDict())`, then the merge with itself -/
def selfMerge (sd : SD) : SD :=
  let p := sd.merge (.sd ({} : SD))
  p.merge (.sd p)

/-- `DictReader.read` after `parse_file`, for a parsed dict without include entries: no file system, no counter.
    `none` is `sys.exit(1)` (the scope does not exist). -/
def postRead (ev : Str → EvalResult) (o : ReadOpts) (sd : SD) : Except ParseErr (Option SD) :=
  (evalExpressions ev (if o.includes then selfMerge sd else sd)).bind fun sd =>
    if !o.scope.isEmpty && !pathExists sd.data o.scope then .ok none
    else
      let sd := if o.scope.isEmpty then sd else sd.reduceScope o.scope
      let sd := if o.order then sd.order else sd
      .ok (some (if o.includes then sd else { sd with data := removeIncludeKeys sd.data }))

def attach (c : Counter) : Option SD → ReadOut
  | none => .exit1
  | some s => .ok s c

theorem mergeIncludes_noincl (fs : FS) (comments : Bool) (parent : SD) (dir : Comps) (c : Counter)
    (h : parent.incl = []) : mergeIncludes fs comments parent dir c = .ok (selfMerge parent, c) := by
  unfold mergeIncludes
  rw [C06.mergeIncludesRec_succ, h]
  rfl

theorem readFile_noincl (ev : Str → EvalResult) (fs : FS) (o : ReadOpts) (c c' : Counter) (p : Comps) (sd : SD)
    (hp : parseFile fs o.comments c p = .ok (sd, c')) (hi : sd.incl = []) :
    readFile ev fs o c p = (postRead ev o sd).map (attach c') := by
  cases ho : o.includes with
  | true =>
    rw [C06.readFile_anchor ev fs o c p ho, hp]
    simp only [Except.bind, mergeIncludes_noincl fs o.comments sd p.dropLast c' hi, postRead, ho, ↓reduceIte]
    cases evalExpressions ev (selfMerge sd) with
    | error e => rfl
    | ok x =>
      dsimp only
      split <;> rfl
  | false =>
    rw [C06.readFile_off ev fs o c p ho, hp]
    simp only [Except.bind, postRead, ho, Bool.false_eq_true, ↓reduceIte]
    cases evalExpressions ev sd with
    | error e => rfl
    | ok x =>
      dsimp only
      split <;> rfl

/-! ### histories -/

theorem apiRun_snoc (ev : Str → EvalResult) : ∀ (ops : List ApiOp) (w : World) (op : ApiOp),
    apiRun ev w (ops ++ [op]) =
      ((apiStep ev (apiRun ev w ops).1 op).1, (apiRun ev w ops).2 ++ [(apiStep ev (apiRun ev w ops).1 op).2])
  | [], w, op => rfl
  | o :: ops, w, op => by
    rw [List.cons_append, C13api.apiRun_cons, apiRun_snoc ev ops _ op, C13api.apiRun_cons]
    rfl

/-- what the caller of `read` sees, from `postRead`'s result -/
def probeOut : Except ParseErr (Option SD) → ApiOut
  | .error e => .gaveUp e
  | .ok none => .exit1
  | .ok (some s) => .data s

theorem read_out_error {ev : Str → EvalResult} {w : World} {p : Comps} {o : ReadOpts} {b : FileBody} {e : ParseErr}
    (hg : w.fs.get (resolveSpelled p) = some b) (hp : parseFile w.fs o.comments w.c p = .error e) :
    (apiStep ev w (.read p o)).2 = .gaveUp e := by
  have : readFile ev w.fs o w.c p = .error e := by
    simp only [readFile, hp, bind, Except.bind]
  simp only [apiStep, hg, this]

theorem read_out_noincl {ev : Str → EvalResult} {w : World} {p : Comps} {o : ReadOpts} {b : FileBody} {sd : SD} {c' : Counter}
    (hg : w.fs.get (resolveSpelled p) = some b) (hp : parseFile w.fs o.comments w.c p = .ok (sd, c')) (hi : sd.incl = []) :
    (apiStep ev w (.read p o)).2 = probeOut (postRead ev o sd) := by
  simp only [apiStep, hg, readFile_noincl ev w.fs o w.c c' p sd hp hi]
  cases postRead ev o sd with
  | error e => rfl
  | ok r => cases r <;> rfl

/-! ### comment-free documents -/

/-- the hypotheses of `C02_layout_tolerant` / `C08_data_counter_independent` on a text: it is the admissible layout
    `spreadS (srcToksEs es) gaps tail` of the well-formed comment-free document `es` (no comments, no include
    directives, no `$`), with at most one million quoted strings and without the two documentation keys at top level -/
structure PlainDoc (es : SrcEntries) (gaps : List Str) (tail : Str) : Prop where
  wf : SrcWFEs 1 es = true
  gapsOK : GapsOKS (srcToksEs es) gaps = true
  tailWs : tail.all isWs = true
  count : C02.countQuotedEs es ≤ Gen.counterLimit + 1
  docKeys : C02.DocKeysAbsent es

instance (es : SrcEntries) (gaps : List Str) (tail : Str) : Decidable (PlainDoc es gaps tail) :=
  decidable_of_iff (SrcWFEs 1 es = true ∧ GapsOKS (srcToksEs es) gaps = true ∧ tail.all isWs = true ∧
      C02.countQuotedEs es ≤ Gen.counterLimit + 1 ∧ C02.DocKeysAbsent es)
    ⟨fun ⟨a, b, c, d, e⟩ => ⟨a, b, c, d, e⟩, fun ⟨a, b, c, d, e⟩ => ⟨a, b, c, d, e⟩⟩

/-- `parse_file` on such a file, from any counter value that can occur -/
theorem parseFile_plain {fs : FS} {p : Comps} {es : SrcEntries} {gaps : List Str} {tail : Str} (hdoc : PlainDoc es gaps tail)
    (hfile : fs.get (resolveSpelled p) = some (.native (spreadS (srcToksEs es) gaps tail)))
    (comments : Bool) {c : Counter} (hc : V c) :
    ∃ c', parseFile fs comments c p =
      if isXmlPath p || isJsonPath p then .error .unsupported else .ok ({ data := denSrcEs es [] }, c') := by
  obtain ⟨c', h⟩ := C02.C02_layout_tolerant (c := c) comments (pathStr p.dropLast) hdoc.wf hdoc.gapsOK hdoc.tailWs hc
    hdoc.count hdoc.docKeys
  refine ⟨c', ?_⟩
  unfold parseFile
  cases hx : isXmlPath p with
  | true => rfl
  | false =>
    cases hj : isJsonPath p with
    | true => simp [hfile]
    | false => simp [hfile, h]

/-- **the value `read p o` returns for such a file**, in closed form: no file system, no counter -/
def plainProbe (ev : Str → EvalResult) (p : Comps) (o : ReadOpts) (es : SrcEntries) : ApiOut :=
  if isXmlPath p || isJsonPath p then .gaveUp .unsupported else probeOut (postRead ev o { data := denSrcEs es [] })

/-- one probe, in any world that holds the file and a counter value that can occur -/
theorem probe_plain (ev : Str → EvalResult) {w : World} {p : Comps} (o : ReadOpts) {es : SrcEntries} {gaps : List Str} {tail : Str}
    (hdoc : PlainDoc es gaps tail)
    (hfile : w.fs.get (resolveSpelled p) = some (.native (spreadS (srcToksEs es) gaps tail))) (hc : V w.c) :
    (apiStep ev w (.read p o)).2 = plainProbe ev p o es := by
  obtain ⟨c', h⟩ := parseFile_plain hdoc hfile o.comments hc
  unfold plainProbe
  cases hxj : (isXmlPath p || isJsonPath p) with
  | true =>
    rw [hxj] at h
    exact read_out_error hfile h
  | false =>
    rw [hxj] at h
    exact read_out_noincl hfile h rfl

/-! ## property theorems -/

/-- **C08 on histories, writes included.**  Take any world whose counter holds a value that can occur, any history of
    API calls — reads, loads, resets, and writes / dumps / parses whose target is not the probed file —, and a probe
    `read p o` (any options) of a file that is an admissible layout of a well-formed comment-free document.  The probe
    after the history returns what it returns in the fresh world (same files, counter reset) — and that is
    `plainProbe`, a function of the document and the options alone.  The outputs of the history itself are untouched. -/
theorem C08_history_writes (ev : Str → EvalResult) (ops : List ApiOp) (w : World) (p : Comps) (o : ReadOpts)
    {es : SrcEntries} {gaps : List Str} {tail : Str} (hdoc : PlainDoc es gaps tail)
    (hfile : w.fs.get (resolveSpelled p) = some (.native (spreadS (srcToksEs es) gaps tail)))
    (hc : C13.ValidCounter Gen.counterLimit w.c)
    (hops : ∀ op ∈ ops, op.target ≠ some (resolveSpelled p)) :
    (apiRun ev w (ops ++ [.read p o])).2 =
        (apiRun ev w ops).2 ++ (apiRun ev { fs := w.fs, c := none } [.read p o]).2 ∧
      (apiRun ev { fs := w.fs, c := none } [.read p o]).2 = [plainProbe ev p o es] := by
  have h1 : (apiStep ev (apiRun ev w ops).1 (.read p o)).2 = plainProbe ev p o es :=
    probe_plain ev o hdoc (by rw [C13api.run_frame ev _ ops w hops]; exact hfile) (run_valid_counter ev ops w hc)
  have h2 : (apiStep ev { fs := w.fs, c := none } (.read p o)).2 = plainProbe ev p o es :=
    probe_plain ev (w := { fs := w.fs, c := none }) o hdoc hfile V_none
  have h3 : (apiRun ev { fs := w.fs, c := none } [.read p o]).2 = [plainProbe ev p o es] := by
    rw [C13api.apiRun_cons, h2]; rfl
  exact ⟨by rw [apiRun_snoc, h1, h3], h3⟩

theorem target_of_readOp {op : ApiOp} (h : C13api.IsReadOp op) : op.target = none := by
  cases op <;> first | rfl | exact h.elim

/-- **C08 on histories of reads, loads and resets** (no side condition on the history at all) -/
theorem C08_history_reads (ev : Str → EvalResult) (ops : List ApiOp) (w : World) (p : Comps) (o : ReadOpts)
    {es : SrcEntries} {gaps : List Str} {tail : Str} (hdoc : PlainDoc es gaps tail)
    (hfile : w.fs.get (resolveSpelled p) = some (.native (spreadS (srcToksEs es) gaps tail)))
    (hc : C13.ValidCounter Gen.counterLimit w.c)
    (hops : ∀ op ∈ ops, C13api.IsReadOp op) :
    (apiRun ev w (ops ++ [.read p o])).2 =
        (apiRun ev w ops).2 ++ (apiRun ev { fs := w.fs, c := none } [.read p o]).2 ∧
      (apiRun ev { fs := w.fs, c := none } [.read p o]).2 = [plainProbe ev p o es] :=
  C08_history_writes ev ops w p o hdoc hfile hc (fun op hop => by rw [target_of_readOp (hops op hop)]; exact nofun)

/-! ### the bytes a write produces -/

/-- **the text `DictWriter.write(source, target, mode='w', order)` writes**, in closed form: the formatter chosen by the
    target's suffix on the retyped (and, on request, ordered) source.  No file system, no counter.
    `none`: the model does not write this (JSON / XML target, or an SDict the native formatter gives up on). -/
def writeBytes (target : Comps) (order : Bool) (a : Arg) : Option Str :=
  match flavorOfPath target with
  | none => none
  | some fl => fmtArg fl (if order then a.retype.order else a.retype)

/-- in overwrite mode (every mode other than `'a'`), and in any mode when the target does not exist -/
theorem writeText_overwrite (ev : Str → EvalResult) (fs : FS) (target : Comps) (mode : Str) (order : Bool) (a : Arg)
    (c : Counter) (hm : mode ≠ ['a'] ∨ fs.get (resolveSpelled target) = none) :
    writeText ev fs target mode order a c =
      match writeBytes target order a with
      | some t => .ok (t, c)
      | none => .error .unsupported := by
  unfold writeText writeBytes
  cases flavorOfPath target with
  | none => rfl
  | some fl =>
    simp only
    rcases hm with hm | hm
    · have : (mode == ['a']) = false := by simpa using hm
      simp only [this, Bool.false_eq_true, if_false]
      split <;> rfl
    · simp only [hm]
      cases fmtArg fl (if order = true then a.retype.order else a.retype) <;> rfl

/-- one overwriting write in any world: the target holds `writeBytes`, the counter is where it was -/
theorem write_step (ev : Str → EvalResult) (w : World) (a : Arg) (target : Comps) (mode : Str) (order : Bool)
    (hm : mode ≠ ['a'] ∨ w.fs.get (resolveSpelled target) = none) :
    apiStep ev w (.write a target mode order) =
      match writeBytes target order a with
      | some t => ({ fs := w.fs.set (resolveSpelled target) (.native t), c := w.c }, .done)
      | none => (w, .gaveUp .unsupported) := by
  have h := writeText_overwrite ev w.fs target mode order a w.c hm
  cases hb : writeBytes target order a with
  | none => rw [hb] at h; simp only [apiStep, C13api.writeTo_error h]
  | some t => rw [hb] at h; simp only [apiStep, C13api.writeTo_ok h]

/-- **C08 for writes, on histories.**  After *any* history of API calls (no side condition: the history may read,
    rewrite or create the target itself), from any world and any counter value whatsoever, an overwriting `write`
    (mode other than `'a'`) of any source — builtin dict or SDict — leaves in its target exactly `writeBytes`, a
    function of the target's suffix, the source and `order` alone; it returns `None`; it does not move the counter. -/
theorem C08_write_bytes_history (ev : Str → EvalResult) (ops : List ApiOp) (w : World) (a : Arg) (target : Comps)
    (mode : Str) (order : Bool) (hm : mode ≠ ['a']) {t : Str} (ht : writeBytes target order a = some t) :
    let r := apiRun ev w (ops ++ [.write a target mode order])
    r.1.fs.get (resolveSpelled target) = some (.native t) ∧ r.2 = (apiRun ev w ops).2 ++ [.done] ∧
      r.1.c = (apiRun ev w ops).1.c := by
  simp only [apiRun_snoc, write_step ev _ a target mode order (.inl hm), ht]
  exact ⟨C13api.get_set_self _ _ _, trivial, trivial⟩

/-- for a builtin dict the formatter never gives up: the bytes are `fmtPlain` of the retyped (ordered) dict -/
theorem writeBytes_plain (target : Comps) (order : Bool) (d : Entries) {fl : Flavor} (hf : flavorOfPath target = some fl) :
    writeBytes target order (.plain d) = some (fmtPlain fl (if order then orderD (normEs d) else normEs d)) := by
  unfold writeBytes
  rw [hf]
  cases order <;> rfl

/-- a write the model does not follow (`writeBytes = none`) changes nothing, after any history -/
theorem C08_write_unsupported_history (ev : Str → EvalResult) (ops : List ApiOp) (w : World) (a : Arg) (target : Comps)
    (mode : Str) (order : Bool) (hm : mode ≠ ['a']) (ht : writeBytes target order a = none) :
    apiRun ev w (ops ++ [.write a target mode order]) =
      ((apiRun ev w ops).1, (apiRun ev w ops).2 ++ [.gaveUp .unsupported]) := by
  simp only [apiRun_snoc, write_step ev _ a target mode order (.inl hm), ht]

end C08api
end DictIO
