/-
  C07 -- the regular expressions of the library functions this property's model was written against, pinned against the
  table regenerated from the sources on every run (Generated/Regex.lean, harness/extract_regex.py).  A changed pattern
  breaks the `rfl` below: the hand-written recogniser of the model is then no longer justified, and the check searches
  for a failing input.  GENERATED ONCE by tools/mkrepins.py; committed.
-/
import DictIO.Generated.Regex

namespace DictIO.C07.Re
open DictIO.Gen

theorem re_dict__value_contains_circular_reference :
    regexesOf "dict.py" "_value_contains_circular_reference" = ["fullmatch:(BLOCKCOMMENT|INCLUDE|LINECOMMENT)\\d{6}", "search:\\${re.escape(key)}(?!\\w)"] := rfl

theorem re_dict__insert_expression :
    regexesOf "dict.py" "_insert_expression" = ["search:EXPRESSION\\d{6}", "search:\\d{6}"] := rfl

theorem re_dict_SDict__clean_data :
    regexesOf "dict.py" "SDict._clean_data" = ["search:BLOCKCOMMENT\\d{6}", "search:INCLUDE\\d{6}", "search:LINECOMMENT\\d{6}", "findall:\\d{6}", "findall:\\d{6}", "findall:\\d{6}"] := rfl

end DictIO.C07.Re
