/-
  C09 -- JSON files round-trip, and mean the same as the equivalent native file.
  Model: `parseJson` (`JsonParser.parse_string` after `json.loads`: `_extract_includes`, the two `update`s,
  `_extract_expressions`), `parseFile`, `readFile` (Model/Reader.lean).  JSON text ↔ value is `json`'s job: a `.json`
  file body is the value `json.loads` returns.

    (a) `C09_post_id`               the post-processing after `json.loads` is the identity on a dict without include
                                    keys, without `$` in string leaves, without placeholder keys
    (b) `C09_string_leaves_stay`    a string leaf that spells a number stays a string
    (c) `C09_file`                  the file route: reading a `.json` file that holds `normEs d` returns `normEs d`
                                    (`C09_file_statement`, proved: `C09_file_holds`)
        `C09_file_dom`              … on the native value domain the hypotheses of (a) hold (`dom_noIncludeKeys`,
                                    `dom_noDollar`, `C01.norm_invariants`)
        `C09_equiv_plain`           a native and a JSON rendering of the same plain dict read to the same data
                                    (`exDict_equiv`: non-vacuity)
        `C09_equiv_statement`       the same with include entries and `$`-expressions: kept as a statement
-/
import DictIO.Props.C01

namespace DictIO.C09
open DictIO

/-! ## specification vocabulary -/

mutual
  /-- no string leaf contains `$` (keys are not looked at: `_extract_expressions` visits values only) -/
  def noDollarV : Val → Bool
    | .leaf (.str s) => !s.contains '$'
    | .leaf _ => true
    | .dict es => noDollarEs es
    | .list xs => noDollarXs xs
  def noDollarEs : Entries → Bool
    | [] => true
    | (_, v) :: es => noDollarV v && noDollarEs es
  def noDollarXs : List Val → Bool
    | [] => true
    | v :: xs => noDollarV v && noDollarXs xs
end

/-- no string leaf, at any depth (also inside lists), contains `$` -/
def NoDollarEs (es : Entries) : Prop := noDollarEs es = true

instance (es : Entries) : Decidable (NoDollarEs es) := by unfold NoDollarEs; infer_instance

/-- no top-level key is an include key (`^\s*#\s*include`) -/
def NoIncludeKeys (es : Entries) : Prop :=
  ∀ e ∈ es, match e.1 with | .str k => isIncludeKey k = false | _ => True

/-! ## helper lemmas -/

/-- builtin `dict.update` with fresh, pairwise different keys appends -/
theorem updateD_append : ∀ (o t : Entries), (keys (t ++ o)).Nodup → updateD t o = t ++ o
  | [], t, _ => by simp [updateD]
  | (k, v) :: o, t, h => by
    have hk : k ∉ keys t := by
      intro hm
      have h' : (keys t ++ k :: keys o).Nodup := by simpa [keys] using h
      exact (List.nodup_append.mp h').2.2 k hm k List.mem_cons_self rfl
    have hstep : updateD t ((k, v) :: o) = updateD (setKey k v t) o := rfl
    rw [hstep, C07.setKey_of_not_mem k v t hk, updateD_append o (t ++ [(k, v)]) (by simpa using h)]
    simp

theorem updateD_nil_left (es : Entries) (h : (keys es).Nodup) : updateD [] es = es := by
  simpa using updateD_append es [] (by simpa using h)

/-- a loop that only ever appends the item to the last component of its state -/
theorem foldl_rest {σ : Type} (f : σ → Key × Val → σ) (mk : Entries → σ) :
    ∀ (l : Entries) (rest : Entries), (∀ rest e, e ∈ l → f (mk rest) e = mk (rest ++ [e])) →
    l.foldl f (mk rest) = mk (rest ++ l)
  | [], rest, _ => by simp
  | e :: l, rest, h => by
    rw [List.foldl_cons, h rest e List.mem_cons_self,
      foldl_rest f mk l (rest ++ [e]) fun r e' he' => h r e' (List.mem_cons_of_mem _ he')]
    simp

/-- `$` does not occur: there is no reference to find -/
theorem findRefs_none {s : Str} (h : s.contains '$' = false) : findRefs s = [] := by
  have : '$' ∉ s := by simpa using h
  simp [findRefs, findRefsFuel, C02.Front.findRef_none s this]

theorem jsonExtractExpr_none (st : JsonSt) {s : Str} (h : s.contains '$' = false) : jsonExtractExpr st s = (st, s) := by
  simp [jsonExtractExpr, findRefs_none h]

mutual
  /-- `_extract_expressions` changes nothing (string leaves stay strings, whatever they spell) -/
  theorem jsonExprV_id (st : JsonSt) : ∀ v : Val, noDollarV v = true → jsonExprV st v = (st, v)
    | .leaf (.str s), h => by
      have hs : s.contains '$' = false := by simpa [noDollarV] using h
      simp only [jsonExprV, jsonExtractExpr_none st hs]
      split <;> rfl
    | .leaf (.int _), _ => rfl
    | .leaf (.float _), _ => rfl
    | .leaf (.bool _), _ => rfl
    | .leaf .none, _ => rfl
    | .dict es, h => by
      simp only [noDollarV] at h
      simp only [jsonExprV, jsonExprEs_id st es h]
    | .list xs, h => by
      simp only [noDollarV] at h
      simp only [jsonExprV, jsonExprXs_id st xs h]
  theorem jsonExprEs_id (st : JsonSt) : ∀ es : Entries, noDollarEs es = true → jsonExprEs st es = (st, es)
    | [], _ => rfl
    | (k, v) :: es, h => by
      simp only [noDollarEs, Bool.and_eq_true] at h
      simp only [jsonExprEs, jsonExprV_id st v h.1, jsonExprEs_id st es h.2]
  theorem jsonExprXs_id (st : JsonSt) : ∀ xs : List Val, noDollarXs xs = true → jsonExprXs st xs = (st, xs)
    | [], _ => rfl
    | v :: xs, h => by
      simp only [noDollarXs, Bool.and_eq_true] at h
      simp only [jsonExprXs, jsonExprV_id st v h.1, jsonExprXs_id st xs h.2]
end

/-- the two `update` calls of `JsonParser.parse_string` (placeholders first, then the data back) -/
theorem json_updates (es : Entries) (hp : C07.NoPhEs es) (hn : NodupKeysV (.dict es)) :
    (({ data := [], incl := [] } : SD).update (.plain [])).update (.sd { data := es, incl := [] }) = { data := es } := by
  have h1 : ({ data := [], incl := [] } : SD).update (.plain []) = {} := by
    unfold SD.update
    exact C07.clean_id _ C07.nodupV_nil trivial
  rw [h1]
  have h2 : (({ ({} : SD) with data := updateD ({} : SD).data (Arg.sd { data := es, incl := [] }).data }).postUpdate
      (.sd { data := es, incl := [] })) = { data := es } := by
    simp [SD.postUpdate, Arg.data, updateD_nil_left es hn.1, Tbl.update]
  unfold SD.update
  rw [h2]
  exact C07.clean_id _ hn hp

/-! ## (a) the post-processing is the identity -/

/-- **(a)** `JsonParser.parse_string` after `json.loads`: a dict without include keys at the top level, without `$`
    in any string leaf, without placeholder keys and with unique keys at every level (every `json.loads` result has
    them) is returned unchanged, with empty side tables, and the counter is not used.  In particular string leaves
    keep their string type even when they spell a number, boolean or none: `parse_value` is consulted only to decide
    where to look for references. -/
theorem C09_post_id (dir : Comps) (c : Counter) (es : Entries) :
    NoIncludeKeys es → NoDollarEs es → C07.NoPhEs es → NodupKeysV (.dict es) →
    parseJson dir c es = ({ data := es }, c) := by
  intro hi hd hp hn
  unfold parseJson
  rw [foldl_rest _ (fun rest => (c, ([] : Tbl InclEntry), ([] : Entries), rest)) es []]
  · simp only [List.nil_append, json_updates es hp hn, jsonExprEs_id { counter := c } es hd]
  · -- `_extract_includes` finds nothing
    intro rest e he
    have hk := hi e he
    obtain ⟨k, v⟩ := e
    cases k with
    | int z => rfl
    | str s =>
      cases v with
      | leaf x => simp only at hk; simp only [hk]; rfl
      | dict d => rfl
      | list xs => rfl

/-! ## (b) string leaves keep their type -/

/-- **(b)** `{"a": "1"}` comes back as `{"a": "1"}`: the string leaf is not re-typed -/
theorem C09_string_leaves_stay (dir : Comps) (c : Counter) :
    parseJson dir c [(.str ['a'], .leaf (.str ['1']))] = ({ data := [(.str ['a'], .leaf (.str ['1']))] }, c) :=
  C09_post_id dir c _ (by intro e he; simp at he; subst he; decide) (by decide) ⟨by decide, trivial, trivial⟩
    ⟨by simp [keys], trivial, trivial⟩

/-- … as do `"true"`, `"NULL"`, `"1.5"` next to typed values and nested containers -/
theorem C09_string_leaves_stay' (dir : Comps) (c : Counter) :
    parseJson dir c
      [(.str ['a'], .leaf (.str "true".toList)), (.str ['b'], .list [.leaf (.str "NULL".toList), .leaf (.int 1)]),
       (.str ['c'], .dict [(.str ['d'], .leaf (.str "1.5".toList))])] =
      ({ data := [(.str ['a'], .leaf (.str "true".toList)), (.str ['b'], .list [.leaf (.str "NULL".toList), .leaf (.int 1)]),
       (.str ['c'], .dict [(.str ['d'], .leaf (.str "1.5".toList))])] }, c) :=
  C09_post_id dir c _ (by intro e he; simp at he; rcases he with rfl | rfl | rfl <;> decide) (by decide)
    ⟨by decide, trivial, by decide, trivial, by decide, ⟨by decide, trivial, trivial⟩, trivial⟩
    (by simp [NodupKeysV, NodupKeysEs, NodupKeysXs, keys])

/-! ## (c) the file route -/

theorem not_xml_of_json {p : Comps} (h : isJsonPath p = true) : isXmlPath p = false := by
  unfold isJsonPath at h
  unfold isXmlPath
  cases hl : p.getLast? with
  | none => rfl
  | some n =>
    rw [hl] at h
    have : suffixOf n = ".json".toList := by simpa using h
    simp only [this]
    decide

/-- **(c)** `DictReader.read` of a `.json` file whose content (as `json.loads` returns it) is `es`: under the hypotheses
    of (a) the data read is `es`, all tables empty, counter untouched.  The stages above the parser are identities
    (`C01.read_stages_plain`). -/
theorem C09_read_json (ev : Str → EvalResult) (p : Comps) (c : Counter) (es : Entries)
    (hj : isJsonPath p = true) (hr : resolveSpelled p = p)
    (hi : NoIncludeKeys es) (hd : NoDollarEs es) (hp : C07.NoPhEs es) (hn : NodupKeysV (.dict es)) :
    readFile ev [(p, .json es)] {} c p = .ok (.ok { data := es } c) := by
  have hpf : parseFile [(p, .json es)] true c p = .ok ({ data := es }, c) := by
    simp only [parseFile, not_xml_of_json hj, hr, C01.fs_get_single, hj, C09_post_id p.dropLast c es hi hd hp hn]
    rfl
  obtain ⟨hmi, hev⟩ := C01.read_stages_plain ev [(p, .json es)] true es p.dropLast c hp hn
  simp only [readFile, hpf, bind, Except.bind, pure, Except.pure]
  simp only [if_true, hmi, hev]
  rfl

/-- **C09, file route, statement.**  `DictWriter.write(d, x.json)` re-types the dict (`normEs`, as for every format)
    and hands it to `json.dumps`; `DictReader.read(x.json)` gets it back from `json.loads`.  Reading returns exactly
    `normEs d`: through the file writer and reader the only change is the documented element-type normalisation.
    (The JSON serialiser itself — `json.dumps`/`json.loads` being inverse on JSON-representable values — is the
    library's; the correspondence check exercises it.) -/
def C09_file_statement : Prop :=
  ∀ (ev : Str → EvalResult) (p : Comps) (c : Counter) (d : Entries),
    isJsonPath p = true → resolveSpelled p = p →
    NoIncludeKeys (normEs d) → NoDollarEs (normEs d) → C07.NoPhEs (normEs d) → NodupKeysV (.dict (normEs d)) →
    readFile ev [(p, .json (normEs d))] {} c p = .ok (.ok { data := normEs d } c)

theorem C09_file (ev : Str → EvalResult) (p : Comps) (c : Counter) (d : Entries)
    (hj : isJsonPath p = true) (hr : resolveSpelled p = p)
    (hi : NoIncludeKeys (normEs d)) (hd : NoDollarEs (normEs d)) (hp : C07.NoPhEs (normEs d))
    (hn : NodupKeysV (.dict (normEs d))) :
    readFile ev [(p, .json (normEs d))] {} c p = .ok (.ok { data := normEs d } c) :=
  C09_read_json ev p c (normEs d) hj hr hi hd hp hn

theorem C09_file_holds : C09_file_statement := C09_file

/-! #### equivalence of the native and the JSON rendering -/

/-! the native value domain satisfies the JSON-side hypotheses: a domain key is a single word that does not start with
    `#`, a domain string has no `$` -/

theorem domKey_not_include {s : Str} (h : isDomKey (.str s) = true) : isIncludeKey s = false := by
  simp only [isDomKey, Bool.and_eq_true] at h
  obtain ⟨hw, _, _, _, _, _, _, _, hh⟩ := C01.isSrcWord_iff.mp h.1.1
  cases s with
  | nil => rfl
  | cons c r =>
    have hc : isWs c = false := by
      simp only [isWordTok, Bool.and_eq_true, List.all_eq_true] at hw
      have := hw.1.2 c List.mem_cons_self
      simpa using this.1
    have hne : c ≠ '#' := by simpa using hh
    unfold isIncludeKey dropWs
    rw [List.dropWhile_cons_of_neg (by simp [hc])]
    split
    · rename_i heq; cases heq; exact absurd rfl hne
    · rfl

theorem dom_noIncludeKeys {es : Entries} (h : DomC01 .native es = true) : NoIncludeKeys es := by
  intro e he
  have hd : domEs .native 1 es = true := by
    simp only [DomC01, Bool.and_eq_true] at h; exact h.1
  have hk := C01.domEs_keys hd e he
  cases hk1 : e.1 with
  | int z => trivial
  | str s => rw [hk1] at hk; exact domKey_not_include hk

mutual
  theorem dom_noDollarV : ∀ (d : Nat) (v : Val), domV .native d v = true → noDollarV v = true
    | _, .leaf (.str s), h => by
      simp only [domV, isDomScalar, Bool.and_eq_true] at h
      have := C01.domStr_no_dollar h.1
      simp only [noDollarV, this]; rfl
    | _, .leaf (.int _), _ => rfl
    | _, .leaf (.float _), _ => rfl
    | _, .leaf (.bool _), _ => rfl
    | _, .leaf .none, _ => rfl
    | d, .dict es, h => by
      simp only [domV, Bool.and_eq_true] at h
      simp only [noDollarV]; exact dom_noDollarEs (d + 1) es h.1
    | d, .list xs, h => by
      simp only [domV] at h
      simp only [noDollarV]; exact dom_noDollarXs (d + 1) xs h
  theorem dom_noDollarEs : ∀ (d : Nat) (es : Entries), domEs .native d es = true → noDollarEs es = true
    | _, [], _ => rfl
    | d, (k, v) :: es, h => by
      simp only [domEs, Bool.and_eq_true] at h
      simp only [noDollarEs, Bool.and_eq_true]
      exact ⟨dom_noDollarV d v h.1.2, dom_noDollarEs d es h.2⟩
  theorem dom_noDollarXs : ∀ (d : Nat) (xs : List Val), domXs .native d xs = true → noDollarXs xs = true
    | _, [], _ => rfl
    | d, v :: xs, h => by
      simp only [domXs, Bool.and_eq_true] at h
      simp only [noDollarXs, Bool.and_eq_true]
      exact ⟨dom_noDollarV d v h.1, dom_noDollarXs d xs h.2⟩
end

theorem dom_noDollar {es : Entries} (h : DomC01 .native es = true) : NoDollarEs es := by
  have hd : domEs .native 1 es = true := by
    simp only [DomC01, Bool.and_eq_true] at h; exact h.1
  exact dom_noDollarEs 1 es hd

/-- **native ≡ JSON, plain dicts.**  A normalised dict `e` of the (native) value domain, rendered once as native text
    and once as JSON, reads to the same data — `e` itself — through `DictReader.read`.  (Native: C01 route 2; JSON:
    `C09_read_json`, whose hypotheses follow from the value domain: `dom_noIncludeKeys`, `dom_noDollar`,
    `C01.norm_invariants`.) -/
theorem C09_equiv_plain {e : Entries} {c : Counter} (ev : Str → EvalResult) (pn pj : Comps)
    (hdom : DomC01 .native e = true) (hnorm : normEs e = e) (hdoc : C01.DocKeysAbsent' e)
    (hcnt : C02.countQuotedEs (srcOfEs .native e) ≤ Gen.counterLimit + 1) (hc : C13.ValidCounter Gen.counterLimit c)
    (hnj : isJsonPath pn = false) (hnx : isXmlPath pn = false) (hnr : resolveSpelled pn = pn)
    (hjj : isJsonPath pj = true) (hjr : resolveSpelled pj = pj) :
    ∃ c₁, readFile ev [(pn, .native (fmtPlain .native e))] {} c pn = .ok (.ok { data := e } c₁) ∧
      readFile ev [(pj, .json e)] {} c pj = .ok (.ok { data := e } c) := by
  obtain ⟨c₁, h1⟩ := C01.read_written (c := c) ev pn hdom hnorm hdoc hcnt hc hnj hnx hnr
  have hinv := C01.norm_invariants hdom
  rw [hnorm] at hinv
  exact ⟨c₁, h1, C09_read_json ev pj c e hjj hjr (dom_noIncludeKeys hdom) (dom_noDollar hdom) hinv.1 hinv.2⟩

/-- the file route on the value domain: no hypothesis beyond the domain and the path -/
theorem C09_file_dom (ev : Str → EvalResult) (p : Comps) (c : Counter) (d : Entries)
    (hdom : DomC01 .native (normEs d) = true) (hj : isJsonPath p = true) (hr : resolveSpelled p = p) :
    readFile ev [(p, .json (normEs d))] {} c p = .ok (.ok { data := normEs d } c) := by
  have hinv := C01.norm_invariants hdom
  rw [C01.normEs_idem] at hinv
  exact C09_read_json ev p c (normEs d) hj hr (dom_noIncludeKeys hdom) (dom_noDollar hdom) hinv.1 hinv.2

/-- non-vacuity: the example dict of `C01fmt`, as `/w/dict` (native) and `/w/dict.json` -/
theorem exDict_equiv (ev : Str → EvalResult) :
    ∃ c₁, readFile ev [(["w".toList, "dict".toList], .native (fmtPlain .native C01.exDict))] {} none
        ["w".toList, "dict".toList] = .ok (.ok { data := C01.exDict } c₁) ∧
      readFile ev [(["w".toList, "dict.json".toList], .json C01.exDict)] {} none ["w".toList, "dict.json".toList] =
        .ok (.ok { data := C01.exDict } none) :=
  C09_equiv_plain ev _ _ C01.exDict_dom C01.exDict_norm C01.exDict_docKeys (by rw [C01.exDict_count]; decide)
    (Or.inl rfl) (by decide) (by decide) (by decide) (by decide +kernel) (by decide)

/-! #### the general equivalence: kept as a statement -/

/-- a model document: files (native path, content tree).  In a content tree a top-level entry whose key is an include
    key and whose value is a file name stands for an include directive; string leaves with `$` are references /
    expressions. -/
abbrev Doc := List (Comps × Entries)

/-- path of the JSON rendering of a file -/
def jsonPathOf (p : Comps) : Comps := p.dropLast ++ [p.getLast?.getD [] ++ ".json".toList]

def isInclEntry (e : Key × Val) : Bool :=
  match e.1, e.2 with
  | .str k, .leaf (.str _) => isIncludeKey k
  | _, _ => false

/-- JSON rendering: the tree as it is, include file names pointing at the JSON renderings -/
def renderJson (doc : Doc) : FS :=
  doc.map fun f => (jsonPathOf f.1, .json (f.2.map fun e =>
    match e.1, e.2 with
    | .str k, .leaf (.str n) => if isIncludeKey k then (e.1, .leaf (.str (n ++ ".json".toList))) else e
    | _, _ => e))

/-- native rendering: `#include 'name'` lines for the include entries, then the writer's text of the rest -/
def renderNative (doc : Doc) : FS :=
  doc.map fun f => (f.1, .native (
    ((f.2.filter isInclEntry).flatMap fun e => match e.2 with
      | .leaf (.str n) => "#include '".toList ++ n ++ "'\n".toList
      | _ => []) ++
    fmtPlain .native (f.2.filter fun e => !isInclEntry e)))

/-- **C09, equivalence, full statement** (kept visible; NOT proved here).  A model document — content trees with
    include entries and `$`-references / expressions, across an include graph — rendered once in native syntax and
    once in JSON syntax reads to equal data (up to the comment / include placeholder entries, whose position differs:
    the JSON parser hoists include placeholders to the front).

    What is missing for a proof: the native side needs the include and expression stages of `parseNative` (outside
    the comment-, include- and `$`-free fragment C02 covers) and a correctness theorem for `mergeIncludesRec` and
    `evalExpressions`.  Decided by the correspondence check (harness C09: generated model documents rendered in
    both syntaxes, in any mix across the include graph). -/
def C09_equiv_statement : Prop :=
  ∀ (ev : Str → EvalResult) (doc : Doc) (root : Comps) (c : Counter),
    root ∈ doc.map (·.1) →
    (∀ f ∈ doc, isJsonPath f.1 = false ∧ isXmlPath f.1 = false ∧ resolveSpelled f.1 = f.1) →
    ∀ sdN cN sdJ cJ,
      readFile ev (renderNative doc) {} c root = .ok (.ok sdN cN) →
      readFile ev (renderJson doc) {} c (jsonPathOf root) = .ok (.ok sdJ cJ) →
      C01.dropPhEntries sdN.data = C01.dropPhEntries sdJ.data

end DictIO.C09
