/-
  C11 -- the regular expressions of the library functions this property's model was written against, pinned against the
  table regenerated from the sources on every run (Generated/Regex.lean, harness/extract_regex.py).  A changed pattern
  breaks the `rfl` below: the hand-written recogniser of the model is then no longer justified, and the check searches
  for a failing input.  GENERATED ONCE by tools/mkrepins.py; committed.
-/
import DictIO.Generated.Regex

namespace DictIO.C11.Re
open DictIO.Gen

theorem re_parser_XmlParser__parse_nodes :
    regexesOf "parser.py" "XmlParser._parse_nodes" = ["sub:^(\\{.*\\})", "sub:^\\d{6}_", "search:^[\\s\\n\\r]*$"] := rfl

theorem re_parser_XmlParser_parse_string :
    regexesOf "parser.py" "XmlParser.parse_string" = ["sub:\\{.*\\}"] := rfl

theorem re_formatter_XmlFormatter_populate_into_element :
    regexesOf "formatter.py" "XmlFormatter.populate_into_element" = ["match:_content", "match:_attrib", "match:^(true|false)$", "match:^(_.*[Oo]pts|INCLUDE)", "match:BLOCKCOMMENT[0-9]+", "search:.*0$", "match:LINECOMMENT[0-9]+", "sub:(^\\d{1,6}_)"] := rfl

theorem re_formatter_XmlFormatter_to_string :
    regexesOf "formatter.py" "XmlFormatter.to_string" = ["sub:<[^>]*>", "sub:query=[(\"[^\"]*\")|(?<=[\\s</])({'|'.join((f'{re.escape(s)}:' for s in prefixes))})]"] := rfl

end DictIO.C11.Re
