/-
  C12 -- reading a document with comments (composition of `C12stages` and `C12rest`).

  `C12_read_commented`: for every well-formed commented document `items` (line and block comments at statement
  boundaries of every dict level, `CSrcWFItems`), every admissible layout of it (`GapsOKC`: the gap conditions of C02 plus
  "a line comment is followed by a line break"), every directory and every valid counter value, the reader returns exactly
  `denC c items`: the denotation of the document with one `LINECOMMENTnnnnnn` / `BLOCKCOMMENTnnnnnn` entry per comment at
  the place and dict level where the comment stands, ids drawn in the order the reader stages draw them, and the comment
  texts in the two tables.  Unbounded in the size and nesting of the document, the number and texts of comments, and the
  layout.
-/
import DictIO.Props.C12stages
import DictIO.Props.C12rest

namespace DictIO.C12
open DictIO

/-- the reader on a commented document, any admissible layout -/
theorem C12_read_commented {items : List CItem} {gaps : List Str} {tail : Str} (dir : Str) (c : Counter)
    (hwf : CSrcWFItems 1 items = true) (hg : GapsOKC (ctoksItems items) gaps tail = true)
    (htail : items = [] → tail.all isWs = true)
    (hc : C13.ValidCounter Gen.counterLimit c)
    (hn : C02.countQuotedEs (plainItems items) ≤ Gen.counterLimit + 1)
    (hd : C02.DocKeysAbsent (plainItems items)) :
    parseNative true dir c (spreadC (ctoksItems items) gaps tail) =
      .ok (denC c items,
           C02.adv Gen.counterLimit (C02.countQuotedEs (plainItems items)) (labelCItems { counter := c } items).1.counter) := by
  obtain ⟨gaps', tail', hst, hgs, ht⟩ := comment_stages_on_doc dir c hwf hg htail
  exact read_commented_denC' hst rfl rfl rfl rfl rfl rfl (labelled_wf _ hwf) hgs ht hc hn hd

/-- layout tolerance with comments: two admissible layouts of the same commented document read alike -/
theorem C12_layout_tolerant_commented {items : List CItem} {g₁ g₂ : List Str} {t₁ t₂ : Str} (dir : Str) (c : Counter)
    (hwf : CSrcWFItems 1 items = true)
    (h₁ : GapsOKC (ctoksItems items) g₁ t₁ = true) (h₂ : GapsOKC (ctoksItems items) g₂ t₂ = true)
    (ht₁ : items = [] → t₁.all isWs = true) (ht₂ : items = [] → t₂.all isWs = true)
    (hc : C13.ValidCounter Gen.counterLimit c)
    (hn : C02.countQuotedEs (plainItems items) ≤ Gen.counterLimit + 1)
    (hd : C02.DocKeysAbsent (plainItems items)) :
    parseNative true dir c (spreadC (ctoksItems items) g₁ t₁) = parseNative true dir c (spreadC (ctoksItems items) g₂ t₂) := by
  rw [C12_read_commented dir c hwf h₁ ht₁ hc hn hd, C12_read_commented dir c hwf h₂ ht₂ hc hn hd]

end DictIO.C12

namespace DictIO.C12
open DictIO

/-! ### non-vacuity: the hypotheses hold for a document with five line comments, two block comments (one spanning two
    lines), a nested dict, a quoted string, a list and a comment text that contains quotes, `;`, `{` and `$` -/

theorem exDoc_read (dir : Str) :
    parseNative true dir none (spreadC (ctoksItems exDoc) exGaps ['\n']) =
      .ok (denC none exDoc,
           C02.adv Gen.counterLimit (C02.countQuotedEs (plainItems exDoc)) (labelCItems { counter := none } exDoc).1.counter) :=
  C12_read_commented dir none exDoc_wf exGaps_ok (fun h => by cases h) (Or.inl rfl) (by decide +kernel) (by decide +kernel)

end DictIO.C12
