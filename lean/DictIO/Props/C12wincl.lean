/-
  C12 -- the WRITER side for `#include` directives, and its composition with the reader side (`C12incl`).

  Property C12, second clause: "every `#include` directive is written again and names the same file".

  Main statements (native flavour):

    M1  `insertIncludes_layX`, `subI_layY`
          `insert_includes` on an admissible layout (`C12W.layX` / `okX`) whose tokens are include placeholder lines
          `INCLUDEnnnnnn<pad>INCLUDEnnnnnn;` (`YTok.iph`) and tokens without the word `INCLUDE`: it succeeds (file names
          without `$`: the `re.sub` template is well formed, backslashes included, `C18.includeLine_eq`) and replaces
          exactly the placeholder lines whose id is in the table by `#include <name as format_value spells it>`
          (`dirLine`); gaps, final gap and admissibility stay.
    M2  `write_incl_top`, `write_incl_layout` (for every SDict with `WIOK`), `wiok_denI`,
        `C12_write_included`, `C12_written_text` (for `denI dir c items` under `HWI c items`)
          the written text is  header ++ one line `#include <name>` per directive ++ `fmtPlain` of the entries,
          and it is an admissible layout (`GapsOKI`, a line feed put in front) of `writtenDocI items`.
    M3  `read_written_incl`, `C12_includes_roundtrip`
          reading the written text from any directory `dir₂` and any valid counter gives `denI dir₂ c₂ (writtenDocI items)`,
          whose directives name the same files in the same order.
    M4  `exM_written`, `exM_reread` (a document WITH a line comment, by evaluation), `exT_roundtrip`, `exT_includes`
          (through the theorems), `exTwice_facts` (what `dist` cannot prevent).

  Scope (stated in `HWI` / `WIOK`): documents of entries and `#include` directives at the TOP level, without comments
  (`topDoc`; what `SDict.include()` / `dump()` produce).  The canonical rule: all directives are hoisted in front of the
  entries, in their order (`hoistPlaceholders`), under the default header; the name is spelled by `qOf` (the rule of
  `format_value`: bare when it needs no quotes; single quotes for the empty name, a name with a double quote, a name with a
  blank / `/` / `\` / `:` / `;` / `,` / bracket or one that starts like `#include`; DOUBLE quotes for a name with a single
  quote only) — whatever quotes the source used.

  Hypotheses `HWI c items`: `wf` (reader side), `top`, `hc`, `nIncl`, `dist` (no two directives with the same text: `_clean`
  merges those), `dom` (the entries denote a dict of the value domain of C01), `names` (no `$`: `format_string` would take the
  name for a reference/expression; not the word `INCLUDE`: a later `re.sub` of `insert_includes` could rewrite it).
  `_clean` is the identity under them (`clean_noC`).
  Remark (`exTwice`): `#include 'x'` and `#include "x"` are two different texts, both are written `#include x`; on reading
  the written file `_clean` keeps one table entry (`C12.incl_clean_merges`).  `C12_includes_roundtrip` states the document
  that is read (`denI dir₂ c₂ (writtenDocI items)`), which covers this case; the table of it lists every file name once
  per distinct written text.
-/
import DictIO.Props.C12write
import DictIO.Props.C12incl

namespace DictIO.C12WI
open DictIO DictIO.C12W DictIO.C12 DictIO.C12.Incl

set_option linter.unusedSimpArgs false
set_option linter.unusedVariables false
set_option linter.unusedSectionVars false
set_option linter.unnecessarySimpa false

/-! ## 1. include placeholder lines on a layout (M1) -/

/-- a token of the writer's text while `insert_includes` runs: a token of `C12W` (source token, comment, comment
    placeholder line), or the placeholder line `INCLUDEnnnnnn<pad>INCLUDEnnnnnn;` of include number `i` -/
inductive YTok where
  | x (t : XTok)
  | iph (i : Nat) (pad : Str)

/-- the placeholder line of include `i` as `format_dict` writes it -/
def iphLine (i : Nat) (pad : Str) : Str := inclPh i ++ pad ++ inclPh i ++ [';']

def YTok.toX : YTok → XTok
  | .x t => t
  | .iph i pad => .tok (.word (iphLine i pad))

def toXL (lay : List (Str × YTok)) : List (Str × XTok) := lay.map fun p => (p.1, p.2.toX)

/-- the directive line the writer puts into the file for the file name `name`: `#include ` and the name as
    `format_value` spells it (bare, or in quotes) -/
def dirLine (name : Str) : Str := "#include ".toList ++ formatString .native name

def dirTok (name : Str) : YTok := .x (.tok (.word (dirLine name)))

theorem inclPh_chars (i : Nat) : ∀ c ∈ inclPh i, isWs c = false ∧ Gen.delimiters.contains c = false := by
  intro c hc
  rcases List.mem_append.mp hc with h | h
  · exact ⟨(kwIncl_facts c h).2.2.2.2.2.2.2.2.2.2.1, (kwIncl_facts c h).2.2.2.2.2.2.2.2.2.2.2⟩
  · have := C02.asciiDigits_facts c (C02.padSix_ascii i c h)
    exact ⟨this.2.1, this.2.2.1⟩

theorem inclPh_cons (i : Nat) : inclPh i = 'I' :: ("NCLUDE".toList ++ padSix i) := rfl

theorem isWs_I : isWs 'I' = false := by decide

/-- what follows a token of an admissible layout: the token is a single delimiter, or the rest cannot continue a word -/
theorem stop_after (t : XTok) (lay : List (Str × XTok)) (tail : Str) (ok : okX (ctxAfter t) lay = true)
    (ht : tail.all isWs = true) :
    (∃ d, t.text = [d] ∧ Gen.delimiters.contains d = true) ∨ StopHead (layX lay tail) := by
  cases t with
  | tok s =>
    cases hd : isDelimSTok s with
    | true =>
      left
      cases s with
      | word w =>
        obtain ⟨d, rfl, hd'⟩ := C02.delimTok_inv hd
        exact ⟨d, rfl, List.contains_iff_mem.mpr hd'⟩
      | quoted q b => cases hd
    | false =>
      right
      exact stopHead_layX (Or.inl rfl) lay tail (by simpa [ctxAfter, hd] using ok) ht
  | cmt l' full =>
    right
    cases l'
    · exact stopHead_layX (Or.inr (Or.inr rfl)) lay tail ok ht
    · exact stopHead_layX (Or.inr (Or.inl rfl)) lay tail ok ht
  | ph l' j pad =>
    right
    cases l'
    · exact stopHead_layX (Or.inr (Or.inr rfl)) lay tail ok ht
    · exact stopHead_layX (Or.inr (Or.inl rfl)) lay tail ok ht

/-- the token is the placeholder line of include `i`, or does not contain its placeholder word -/
def FreeI (i : Nat) (t : YTok) : Prop :=
  (∃ pad, t = .iph i pad ∧ pad ≠ [] ∧ pad.all isWs = true) ∨ isInfix (inclPh i) t.toX.text = false

def isIph (i : Nat) : YTok → Bool
  | .iph j _ => j == i
  | _ => false

def substY (i : Nat) (repl : Str) : YTok → YTok
  | .iph j pad => if j = i then .x (.tok (.word repl)) else .iph j pad
  | t => t

def substYL (i : Nat) (repl : Str) (lay : List (Str × YTok)) : List (Str × YTok) :=
  lay.map fun p => (p.1, substY i repl p.2)

/-- **one `re.sub` of `insert_includes` on a layout**: every placeholder line of include `i` is replaced by `repl`,
    literally; nothing else changes; the flag says whether there was one -/
theorem subI_layY (i : Nat) (repl : Str) : ∀ (lay : List (Str × YTok)) (c : Ctx) (tail : Str),
    okX c (toXL lay) = true → tail.all isWs = true → (∀ p ∈ lay, FreeI i p.2) →
    subP (inclPh i) repl (layX (toXL lay) tail) =
      (layX (toXL (substYL i repl lay)) tail, lay.any fun p => isIph i p.2)
  | [], c, tail, _, ht, _ => by
    have := subP_skip (P := inclPh i) (repl := repl) tail [] (noPrefix_ws (inclPh_cons i) isWs_I tail [] ht)
    simp only [List.append_nil] at this
    simp only [toXL, substYL, List.map_nil, layX, List.any_nil]
    rw [this]
    simp [subP, substPhEntryFuel]
  | (g, t) :: lay, c, tail, ok, ht, hfree => by
    have hP := inclPh_cons i
    simp only [toXL, List.map_cons, okX, Bool.and_eq_true] at ok
    have ih := subI_layY i repl lay (ctxAfter t.toX) tail ok.2 ht (fun p hp => hfree p (List.mem_cons_of_mem _ hp))
    simp only [toXL, substYL, List.map_cons, layX, List.append_assoc]
    simp only [toXL, substYL] at ih
    rw [subP_skip g _ (noPrefix_ws hP isWs_I g _ ok.1.1)]
    rcases hfree (g, t) List.mem_cons_self with ⟨pad, rfl, hne, hws⟩ | hinf
    · have e : (YTok.iph i pad).toX.text ++ layX (List.map (fun p => (p.1, p.2.toX)) lay) tail =
          inclPh i ++ pad ++ inclPh i ++ [';'] ++ layX (List.map (fun p => (p.1, p.2.toX)) lay) tail := by
        simp [YTok.toX, XTok.text, STok.text, iphLine]
      rw [e, subP_hit hP isWs_I pad _ hne hws, ih]
      simp [substY, YTok.toX, XTok.text, STok.text, isIph]
    · have hs := stop_after t.toX _ tail ok.2 ht
      rw [subP_skip t.toX.text _ (noPrefix_tok (inclPh_chars i) hinf hs), ih]
      have hnot : isIph i t = false ∧ substY i repl t = t := by
        cases t with
        | x s => exact ⟨rfl, rfl⟩
        | iph j pad =>
          by_cases hj : j = i
          · subst hj
            exfalso
            have : isInfix (inclPh j) (YTok.iph j pad).toX.text = true :=
              C01.isInfix_iff.mpr ⟨[], pad ++ inclPh j ++ [';'], by simp [YTok.toX, XTok.text, STok.text, iphLine]⟩
            rw [this] at hinf; cases hinf
          · exact ⟨by simp [isIph, hj], by simp [substY, hj]⟩
      simp [List.any_cons, hnot.1, hnot.2]

/-! ### the layout stays admissible -/

theorem isDelimTok_two (a b : Char) (r : Str) : isDelimTok (a :: b :: r) = false := rfl

theorem iphLine_cons (i : Nat) (pad : Str) : ∃ r, iphLine i pad = 'I' :: 'N' :: r := ⟨_, rfl⟩

theorem dirLine_cons (name : Str) : ∃ r, dirLine name = '#' :: 'i' :: r := ⟨_, rfl⟩

theorem iphLine_notDelim (i : Nat) (pad : Str) : isDelimTok (iphLine i pad) = false := by
  obtain ⟨r, e⟩ := iphLine_cons i pad; rw [e]; rfl

theorem dirLine_notDelim (name : Str) : isDelimTok (dirLine name) = false := by
  obtain ⟨r, e⟩ := dirLine_cons name; rw [e]; rfl

theorem ctxAfter_word {w : Str} (h : isDelimTok w = false) : ctxAfter (.tok (.word w)) = .wd := by
  simp [ctxAfter, isDelimSTok, h]

theorem gapOK_word {w w' : Str} (h : isDelimTok w = false) (h' : isDelimTok w' = false) (c : Ctx) (g : Str) :
    gapOK c (.tok (.word w)) g = gapOK c (.tok (.word w')) g := by
  cases c <;> simp [gapOK, isCommentX, isDelimX, isDelimSTok, h, h']

theorem ctxAfter_substY (i : Nat) {repl : Str} (hr : isDelimTok repl = false) (t : YTok) :
    ctxAfter (substY i repl t).toX = ctxAfter t.toX := by
  cases t with
  | x s => rfl
  | iph j pad =>
    simp only [substY]
    split
    · simp only [YTok.toX]; rw [ctxAfter_word hr, ctxAfter_word (iphLine_notDelim j pad)]
    · rfl

theorem gapOK_substY (c : Ctx) (i : Nat) {repl : Str} (hr : isDelimTok repl = false) (t : YTok) (g : Str) :
    gapOK c (substY i repl t).toX g = gapOK c t.toX g := by
  cases t with
  | x s => rfl
  | iph j pad =>
    simp only [substY]
    split
    · simp only [YTok.toX]; exact gapOK_word hr (iphLine_notDelim j pad) c g
    · rfl

theorem okX_substYL (i : Nat) {repl : Str} (hr : isDelimTok repl = false) : ∀ (lay : List (Str × YTok)) (c : Ctx),
    okX c (toXL (substYL i repl lay)) = okX c (toXL lay)
  | [], _ => rfl
  | (g, t) :: lay, c => by
    have ih := okX_substYL i hr lay (ctxAfter t.toX)
    simp only [toXL, substYL] at ih
    simp only [toXL, substYL, List.map_cons, okX, ctxAfter_substY i hr, gapOK_substY c i hr, ih]

/-! ### occurrences of a word inside a text with guard characters around it -/

theorem infix_guard_left {P a s : Str} (h : ∀ c ∈ a, c ∉ P) (hne : P ≠ []) (hi : isInfix P (a ++ s) = true) :
    isInfix P s = true := by
  obtain ⟨c0, P', rfl⟩ : ∃ c0 P', P = c0 :: P' := by
    cases P with
    | nil => exact absurd rfl hne
    | cons c0 P' => exact ⟨c0, P', rfl⟩
  rcases C12.infix_append_cases hi with h1 | h1 | ⟨p1, c2, p2, e, hne1, hm, _⟩
  · exact absurd (List.mem_cons_self) (h c0 (C01.isInfix_cons_mem h1))
  · exact h1
  · obtain ⟨c, hc⟩ := List.exists_mem_of_ne_nil _ hne1
    exact absurd (by rw [e]; simp [hc]) (h c (hm c hc))

theorem infix_guard_right {P b s : Str} (h : ∀ c ∈ b, c ∉ P) (hne : P ≠ []) (hi : isInfix P (s ++ b) = true) :
    isInfix P s = true := by
  obtain ⟨c0, P', rfl⟩ : ∃ c0 P', P = c0 :: P' := by
    cases P with
    | nil => exact absurd rfl hne
    | cons c0 P' => exact ⟨c0, P', rfl⟩
  rcases C12.infix_append_cases hi with h1 | h1 | ⟨p1, c2, p2, e, _, _, hh⟩
  · exact h1
  · exact absurd (List.mem_cons_self) (h c0 (C01.isInfix_cons_mem h1))
  · exact absurd (by rw [e]; simp) (h c2 (List.mem_of_mem_head? hh))

/-! ### the invariant of the tokens during `insert_includes` -/

/-- the text does not contain the word `INCLUDE` (hence no include placeholder word) -/
def NoI (s : Str) : Prop := isInfix kwIncl s = false

theorem kwIncl_in_ph (i : Nat) : isInfix kwIncl (inclPh i) = true :=
  C01.isInfix_iff.mpr ⟨[], padSix i, by simp [inclPh]⟩

theorem noIPh_of_noI {s : Str} (h : NoI s) (i : Nat) : isInfix (inclPh i) s = false := by
  cases hc : isInfix (inclPh i) s with
  | false => rfl
  | true => rw [NoI, C02.Front.isInfix_trans (kwIncl_in_ph i) hc] at h; cases h

/-- other tokens do not contain the word `INCLUDE`; placeholder lines are well formed -/
def ITokInv : YTok → Prop
  | .x t => NoI t.text
  | .iph j pad => j ≤ 999999 ∧ pad ≠ [] ∧ pad.all isWs = true

theorem inclPh_length {i : Nat} (hi : i ≤ 999999) : (inclPh i).length = 13 := by
  simp [inclPh, C02.padSix_length hi, kwIncl]

theorem inclPh_ne (i : Nat) : inclPh i ≠ [] := by rw [inclPh_cons]; simp

theorem inclPh_infix {i j : Nat} (hi : i ≤ 999999) (hj : j ≤ 999999) (h : isInfix (inclPh i) (inclPh j) = true) : i = j := by
  have := C02.isInfix_eq_of_length (by rw [inclPh_length hi, inclPh_length hj]) h
  exact C02.padSix_inj (List.append_cancel_left this)

/-- a placeholder line contains no placeholder word but its own -/
theorem iph_free {i j : Nat} {pad : Str} (hi : i ≤ 999999) (hj : j ≤ 999999) (hne : pad ≠ []) (hws : pad.all isWs = true)
    (hd : j ≠ i) :
    isInfix (inclPh i) (iphLine j pad) = false := by
  cases hc : isInfix (inclPh i) (iphLine j pad) with
  | false => rfl
  | true =>
    exfalso
    have hsemi : ∀ c ∈ [';'], c ∉ inclPh i := by
      intro c hc hm
      simp only [List.mem_singleton] at hc
      subst hc
      have := (inclPh_chars i ';' hm).2
      revert this; decide
    have hpad : ∀ c ∈ pad, c ∉ inclPh i := by
      intro c hc hm
      have h1 := (inclPh_chars i c hm).1
      rw [List.all_eq_true.mp hws c hc] at h1; cases h1
    have e : iphLine j pad = inclPh j ++ (pad ++ (inclPh j ++ [';'])) := by simp [iphLine]
    rw [e] at hc
    rcases C12.infix_append_cases hc with h1 | h1 | ⟨p1, c2, p2, e1, _, _, hh⟩
    · exact hd (inclPh_infix hi hj h1).symm
    · have h2 := infix_guard_right hsemi (inclPh_ne i) (by
        have := infix_guard_left hpad (inclPh_ne i) h1
        exact this)
      exact hd (inclPh_infix hi hj h2).symm
    · cases pad with
      | nil => exact absurd rfl hne
      | cons y pad' =>
        simp only [List.cons_append, List.head?_cons, Option.some.injEq] at hh
        subst hh
        exact hpad y (by simp) (by rw [e1]; simp)

theorem freeI_of_inv {t : YTok} (h : ITokInv t) {i : Nat} (hi : i ≤ 999999) : FreeI i t := by
  cases t with
  | x s => exact Or.inr (noIPh_of_noI h i)
  | iph j pad =>
    obtain ⟨hj, hne, hws⟩ := h
    by_cases hd : j = i
    · subst hd; exact Or.inl ⟨pad, rfl, hne, hws⟩
    · exact Or.inr (iph_free hi hj hne hws hd)

theorem inv_substY {t : YTok} (h : ITokInv t) (i : Nat) {repl : Str} (hr : NoI repl) : ITokInv (substY i repl t) := by
  cases t with
  | x s => exact h
  | iph j pad =>
    simp only [substY]
    split
    · exact hr
    · exact h

theorem kwIncl_ne : kwIncl ≠ [] := by decide

/-- the directive line contains the word `INCLUDE` only if the file name does -/
theorem noI_dirLine {name : Str} (hd : name.contains '$' = false) (h : NoI name) : NoI (dirLine name) := by
  have hkw : ∀ c ∈ "#include ".toList, c ∉ kwIncl := by decide
  have hq1 : ∀ c ∈ ['\''], c ∉ kwIncl := by decide
  have hq2 : ∀ c ∈ ['"'], c ∉ kwIncl := by decide
  cases hc : isInfix kwIncl (dirLine name) with
  | false => exact hc
  | true =>
    exfalso
    have h1 := infix_guard_left hkw kwIncl_ne hc
    rw [C18.formatString_native_eq hd] at h1
    rcases C18.wrapOf_cases name with e | e | ⟨e, _⟩ <;> rw [e] at h1
    · have e2 : sq name = ['\''] ++ (name ++ ['\'']) := rfl
      rw [e2] at h1
      have := infix_guard_right hq1 kwIncl_ne (infix_guard_left hq1 kwIncl_ne h1)
      rw [NoI, this] at h; cases h
    · have e2 : dq name = ['"'] ++ (name ++ ['"']) := rfl
      rw [e2] at h1
      have := infix_guard_right hq2 kwIncl_ne (infix_guard_left hq2 kwIncl_ne h1)
      rw [NoI, this] at h; cases h
    · simp only [id] at h1
      rw [NoI, h1] at h; cases h

/-- a whole include table at once -/
def substYT (T : Tbl InclEntry) : YTok → YTok
  | .iph j pad => (match T.get? j with | some e => dirTok e.file | none => .iph j pad)
  | t => t

theorem substYT_cons (i : Nat) (e : InclEntry) (T : Tbl InclEntry) (t : YTok) :
    substYT ((i, e) :: T) t = substYT T (substY i (dirLine e.file) t) := by
  cases t with
  | x s => rfl
  | iph j pad =>
    by_cases hj : j = i
    · subst hj
      simp [substYT, substY, Tbl.get?, dirTok]
    · have : ¬ i = j := fun e => hj e.symm
      simp [substYT, substY, Tbl.get?, hj, this]

theorem substYT_nil (t : YTok) : substYT [] t = t := by
  cases t <;> simp [substYT, Tbl.get?]

theorem insertIncludes_none (T : Tbl InclEntry) :
    T.foldl (fun (acc : Option Str) e => match acc with
      | none => none
      | some s => match includeLineFl .native e.2.file with
        | some line => some (substPh kwIncl e.1 line s).1
        | none => none) none = none := by
  induction T with
  | nil => rfl
  | cons e T ih => simpa only [List.foldl_cons] using ih

theorem insertIncludes_cons (e : Nat × InclEntry) (T : Tbl InclEntry) (s : Str) (hd : e.2.file.contains '$' = false) :
    insertIncludes .native (e :: T) s = insertIncludes .native T (subP (inclPh e.1) (dirLine e.2.file) s).1 := by
  have hl : includeLineFl .native e.2.file = some (dirLine e.2.file) := C18.includeLine_eq hd
  simp only [insertIncludes, List.foldl_cons, hl]
  rfl

/-- **M1 `insertIncludes_layX`.**  `insert_includes` on an admissible layout whose tokens are include placeholder
    lines `INCLUDEnnnnnn<pad>INCLUDEnnnnnn;` (ids within the counter's range, `pad` non-empty white space) and tokens
    that do not contain the word `INCLUDE`: for a table whose file names hold no `$` (the `re.sub` template is then well
    formed, backslashes included: `C18.includeLine_eq`) and not the word `INCLUDE`, the result exists, and it is the
    same layout (same gaps, same final gap, still admissible) in which exactly the placeholder lines whose id is in the
    table have become the directive line `#include <name as format_value spells it>`; every other token stays. -/
theorem insertIncludes_layX : ∀ (T : Tbl InclEntry) (lay : List (Str × YTok)) (c : Ctx) (tail : Str),
    okX c (toXL lay) = true → tail.all isWs = true → (∀ p ∈ lay, ITokInv p.2) →
    (∀ e ∈ T, e.1 ≤ 999999 ∧ e.2.file.contains '$' = false ∧ NoI e.2.file) →
    insertIncludes .native T (layX (toXL lay) tail) =
        some (layX (toXL (lay.map fun p => (p.1, substYT T p.2))) tail) ∧
      okX c (toXL (lay.map fun p => (p.1, substYT T p.2))) = true
  | [], lay, c, tail, ok, _, _, _ => by
    have : (lay.map fun p => (p.1, substYT [] p.2)) = lay := by
      simp [substYT_nil]
    rw [this]
    exact ⟨rfl, ok⟩
  | e :: T, lay, c, tail, ok, ht, hinv, hT => by
    obtain ⟨he1, he2, he3⟩ := hT e List.mem_cons_self
    have hsub := subI_layY e.1 (dirLine e.2.file) lay c tail ok ht (fun p hp => freeI_of_inv (hinv p hp) he1)
    have ih := insertIncludes_layX T (substYL e.1 (dirLine e.2.file) lay) c tail
      (by rw [okX_substYL _ (dirLine_notDelim _)]; exact ok) ht
      (by
        intro p hp
        simp only [substYL, List.mem_map] at hp
        obtain ⟨q, hq, rfl⟩ := hp
        exact inv_substY (hinv q hq) e.1 (noI_dirLine he2 he3))
      (fun e' he' => hT e' (List.mem_cons_of_mem _ he'))
    have emap : ((substYL e.1 (dirLine e.2.file) lay).map fun p => (p.1, substYT T p.2)) =
        lay.map fun p => (p.1, substYT (e :: T) p.2) := by
      simp only [substYL, List.map_map]
      apply List.map_congr_left
      intro p _
      obtain ⟨i, en⟩ := e
      simp [substYT_cons]
    rw [insertIncludes_cons e T _ he2, hsub]
    rw [emap] at ih
    exact ih

/-! ## 2. the writer on an SDict whose include placeholder entries stand at the top level -/

/-- the placeholder entry of include `i` -/
def inclE (i : Nat) : Key × Val := (.str (inclPh i), .leaf (.str (inclPh i)))

/-- the blanks between the two placeholder words at indentation level 0: `max 8 (30 - 13)` -/
def pad0 : Str := spaces 17

theorem inclChar_facts : ∀ c ∈ C02.asciiDigits ++ kwIncl, isComplexChar c = false ∧ isQuote c = false ∧ c ≠ '$' ∧ c ≠ '#' := by
  decide

theorem inclPh_plain (i : Nat) : ∀ c ∈ inclPh i, isComplexChar c = false ∧ isQuote c = false ∧ c ≠ '$' ∧ c ≠ '#' := by
  intro c hc
  apply inclChar_facts
  rcases List.mem_append.mp hc with h | h
  · exact List.mem_append.mpr (Or.inr h)
  · exact List.mem_append.mpr (Or.inl (C02.padSix_ascii i c h))

theorem inclPh_format (i : Nat) : formatString .native (inclPh i) = inclPh i := by
  refine C04.formatString_of_bare ⟨inclPh_ne i, ?_, ?_, ?_⟩
  · cases hc : (inclPh i).contains '$' with
    | false => rfl
    | true => exact absurd rfl (inclPh_plain i _ (List.contains_iff_mem.mp hc)).2.2.1
  · simp only [List.all_eq_true, Bool.and_eq_true, Bool.not_eq_true']
    exact fun c hc => ⟨(inclPh_plain i c hc).2.1, (inclPh_plain i c hc).1⟩
  · apply C01.startsInclude_of_head
    intro h
    exact (inclPh_plain i '#' (List.mem_of_mem_head? h)).2.2.2 rfl

theorem fline0 (x : Str) : fline 0 x = x ++ ['\n'] := by simp [fline, spaces]

/-- the raw output for placeholder entries at the top, then anything -/
theorem fmt_incl_top : ∀ (ids : List Nat) (D : Entries), (∀ i ∈ ids, i ≤ 999999) →
    fmtEntries .native 0 (ids.map inclE ++ D) =
      (ids.map fun i => iphLine i pad0).flatMap (· ++ ['\n']) ++ fmtEntries .native 0 D
  | [], D, _ => by simp
  | i :: ids, D, h => by
    have ih := fmt_incl_top ids D (fun j hj => h j (List.mem_cons_of_mem _ hj))
    have hl := inclPh_length (h i List.mem_cons_self)
    simp only [List.map_cons, List.cons_append, inclE, fmtEntries, formatKey, formatScalar, inclPh_format, fline0, hl, ih,
      List.flatMap_cons, iphLine, pad0, List.append_assoc]
    rfl

theorem insertBlock_nil (t : Str) : insertBlockComments .native [] t = nativeHeader ++ t := by
  simp [insertBlockComments, makeDefaultBlockComment, containsCpp]

mutual
  theorem wsh_of_domV : ∀ (d : Nat) (es : Entries), domEs .native d es = true → wshEs d es = true
    | _, [], _ => by simp only [wshEs]
    | d, (k, .dict sub) :: r, h => by
      simp only [domEs, domV, Bool.and_eq_true] at h
      simp only [wshEs, Bool.and_eq_true]
      exact ⟨⟨h.1.1, wsh_of_domV (d + 1) sub h.1.2.1⟩, wsh_of_domV d r h.2⟩
    | d, (k, .list xs) :: r, h => by
      simp only [domEs, domV, Bool.and_eq_true] at h
      simp only [wshEs, Bool.and_eq_true]
      exact ⟨⟨h.1.1, h.1.2⟩, wsh_of_domV d r h.2⟩
    | d, (k, .leaf x) :: r, h => by
      simp only [domEs, domV, Bool.and_eq_true, decide_eq_true_eq] at h
      simp only [wshEs, Bool.and_eq_true, Bool.or_eq_true, decide_eq_true_eq]
      exact ⟨Or.inr ⟨⟨h.1.1, h.1.2.1⟩, h.1.2.2⟩, wsh_of_domV d r h.2⟩
end

theorem phCov_dom : ∀ (d : Nat) (es : Entries), domEs .native d es = true → phCov [] [] es = true
  | _, [], _ => by simp only [phCov]
  | d, (k, .dict sub) :: r, h => by
    simp only [domEs, domV, Bool.and_eq_true] at h
    simp only [phCov, Bool.and_eq_true]
    exact ⟨phCov_dom (d + 1) sub h.1.2.1, phCov_dom d r h.2⟩
  | d, (k, .list xs) :: r, h => by
    simp only [domEs, Bool.and_eq_true] at h
    simp only [phCov]
    exact phCov_dom d r h.2
  | d, (k, .leaf x) :: r, h => by
    simp only [domEs, Bool.and_eq_true] at h
    simp only [phCov, phOf_dom h.1.1, Bool.true_and]
    exact phCov_dom d r h.2

theorem noI_tokOK {s : STok} (h : C02.TokOK s) : NoI s.text := by
  cases s with
  | word w =>
    rcases h with h | h
    · have hp : isPhTok w = false := (C02.srcWord_facts h).2.1
      simp only [isPhTok, Bool.or_eq_false_iff] at hp
      exact hp.2
    · obtain ⟨d, rfl, _⟩ := C02.delimTok_inv h
      cases hc : isInfix kwIncl [d] with
      | false => exact hc
      | true =>
        exfalso
        have h1 := mem_of_infix hc 'I' (by decide)
        have h2 := mem_of_infix hc 'N' (by decide)
        simp only [List.mem_singleton] at h1 h2
        rw [← h1] at h2; revert h2; decide
  | quoted q b =>
    have hq : isSrcQuoted q b = true := h
    simp only [isSrcQuoted, Bool.and_eq_true, Bool.not_eq_true'] at hq
    have hb : isInfix kwIncl b = false := hq.2
    have hqq : isQuote q = true := hq.1.1.1.1.1.1.1.1
    have hg : ∀ c ∈ [q], c ∉ kwIncl := by
      intro c hc hm
      simp only [List.mem_singleton] at hc
      subst hc
      have := (kwIncl_facts c hm).1
      rw [hqq] at this; cases this
    cases hc : isInfix kwIncl (STok.quoted q b).text with
    | false => exact hc
    | true =>
      have e : (STok.quoted q b).text = [q] ++ (b ++ [q]) := rfl
      rw [e] at hc
      have := infix_guard_right hg kwIncl_ne (infix_guard_left hg kwIncl_ne hc)
      rw [this] at hb; cases hb

/-! ### the text as a layout: header, placeholder lines, the plain part -/

def hdrY : YTok := .x (.cmt false C12.hdrComment)

/-- header, then one token per line, then the rest -/
def mkLay (mid : List YTok) (plainY : List (Str × YTok)) : List (Str × YTok) :=
  ([], hdrY) :: (mid.map fun t => (['\n'], t)) ++ plainY

theorem layX_mid (rest : List (Str × XTok)) (tail : Str) : ∀ (mid : List YTok),
    layX (toXL (mid.map fun t => (['\n'], t)) ++ rest) tail = mid.flatMap (fun t => '\n' :: t.toX.text) ++ layX rest tail
  | [] => rfl
  | t :: mid => by
    have ih := layX_mid rest tail mid
    simp only [toXL] at ih
    simp only [toXL, List.map_cons, List.cons_append, layX, ih, List.flatMap_cons, List.append_assoc, List.singleton_append,
      List.nil_append]

theorem toXL_mkLay (mid : List YTok) (plainY : List (Str × YTok)) :
    toXL (mkLay mid plainY) =
      ([], XTok.cmt false C12.hdrComment) :: (toXL (mid.map fun t => (['\n'], t)) ++ toXL plainY) := by
  unfold mkLay toXL
  rw [List.cons_append, List.map_cons, List.map_append]
  rfl

theorem layX_mkLay (mid : List YTok) (plainY : List (Str × YTok)) (tail : Str) :
    layX (toXL (mkLay mid plainY)) tail =
      C12.hdrComment ++ (mid.flatMap (fun t => '\n' :: t.toX.text) ++ layX (toXL plainY) tail) := by
  rw [toXL_mkLay]
  show [] ++ C12.hdrComment ++ layX (toXL (mid.map fun t => (['\n'], t)) ++ toXL plainY) tail = _
  rw [layX_mid]
  rfl

theorem nl_shift : ∀ (ls : List Str), '\n' :: ls.flatMap (· ++ ['\n']) = ls.flatMap ('\n' :: ·) ++ ['\n']
  | [] => rfl
  | l :: ls => by
    have ih := nl_shift ls
    simp only [List.flatMap_cons, List.cons_append, List.append_assoc, List.cons.injEq, true_and]
    rw [← ih]; simp

/-- the text with one line per middle token -/
theorem text_mkLay (lines : List Str) (P : Str) :
    nativeHeader ++ (lines.flatMap (· ++ ['\n']) ++ P) = C12.hdrComment ++ (lines.flatMap ('\n' :: ·) ++ ('\n' :: P)) := by
  rw [C12.nativeHeader_split]
  have := nl_shift lines
  simp only [List.append_assoc]
  rw [show ['\n'] ++ (lines.flatMap (· ++ ['\n']) ++ P) = ('\n' :: lines.flatMap (· ++ ['\n'])) ++ P from rfl, this]
  simp

theorem okX_mid (rest : List (Str × XTok)) (h : ∀ c, okX c rest = true) : ∀ (mid : List YTok) (c : Ctx),
    okX c (toXL (mid.map fun t => (['\n'], t)) ++ rest) = true
  | [], c => h c
  | t :: mid, c => by
    have ih := okX_mid rest h mid (ctxAfter t.toX)
    simp only [toXL] at ih
    simp only [toXL, List.map_cons, List.cons_append, okX, ih, gapOK_nl, Bool.and_true]
    rfl

theorem okX_mkLay (mid : List YTok) (plainY : List (Str × YTok)) (h : ∀ c, okX c (toXL plainY) = true) :
    okX .cov (toXL (mkLay mid plainY)) = true := by
  have := okX_mid (toXL plainY) h mid (ctxAfter hdrY.toX)
  rw [toXL_mkLay]
  show (([] : Str).all isWs && gapOK .cov (XTok.cmt false C12.hdrComment) [] && okX (ctxAfter hdrY.toX) _) = true
  rw [this]; rfl

theorem hdr_noI : NoI C12.hdrComment := by unfold NoI; decide +kernel

theorem pad0_facts : pad0 ≠ [] ∧ pad0.all isWs = true := ⟨by decide, by decide⟩

/-- the plain part of the raw text, with the line feed in front of it, as a layout -/
theorem plain_layY {D : Entries} (hd : domEs .native 1 D = true) :
    ∃ plainY : List (Str × YTok), layX (toXL plainY) ['\n'] = '\n' :: fmtEntries .native 0 D ∧
      (∀ c, okX c (toXL plainY) = true) ∧ (∀ p ∈ plainY, ITokInv p.2) ∧ (∀ T p, p ∈ plainY → substYT T p.2 = p.2) := by
  have hw := wsh_of_domV 1 D hd
  have hxok := xtoks_ok [] [] 1 0 D hw (phCov_dom 1 D hd)
  rcases lays_entriesX 1 0 D hw with ⟨_, ht⟩ | ⟨hne, lay, hm, htxt, ok, _⟩
  · exact ⟨[], by rw [ht]; rfl, fun _ => rfl, fun p hp => (by cases hp), fun _ p hp => (by cases hp)⟩
  · cases lay with
    | nil => rw [← hm] at hne; exact absurd rfl hne
    | cons p0 r =>
      obtain ⟨g0, t0⟩ := p0
      simp only [okX, Bool.and_eq_true] at ok
      refine ⟨('\n' :: g0, .x t0) :: r.map (fun p => (p.1, YTok.x p.2)), ?_, ?_, ?_, ?_⟩
      · have e : toXL (r.map (fun p => (p.1, YTok.x p.2))) = r := by
          simp [toXL, List.map_map, Function.comp_def, YTok.toX]
        have e2 : toXL (('\n' :: g0, YTok.x t0) :: r.map (fun p => (p.1, YTok.x p.2))) = ('\n' :: g0, t0) :: r := by
          rw [← e]; simp [toXL, YTok.toX, List.map_map, Function.comp_def]
        rw [e2, htxt]
        simp [layX]
      · intro c
        have e2 : toXL (('\n' :: g0, YTok.x t0) :: r.map (fun p => (p.1, YTok.x p.2))) = ('\n' :: g0, t0) :: r := by
          simp [toXL, YTok.toX, List.map_map, Function.comp_def]
        rw [e2]
        simp only [okX, List.all_cons, gapOK_nl, ok.1.1, ok.2, Bool.and_true, Bool.and_eq_true, and_true]
        decide
      · intro p hp
        have hmem : ∃ t, p.2 = YTok.x t ∧ t ∈ xtoksEs 0 D := by
          rcases List.mem_cons.mp hp with rfl | hp
          · exact ⟨t0, rfl, by rw [← hm]; simp⟩
          · obtain ⟨q, hq, rfl⟩ := List.mem_map.mp hp
            exact ⟨q.2, rfl, by rw [← hm]; exact List.mem_cons_of_mem _ (List.mem_map_of_mem hq)⟩
        obtain ⟨t, e, ht⟩ := hmem
        rw [e]
        have := hxok t ht
        cases t with
        | tok s => exact noI_tokOK this
        | cmt l f => exact this.elim
        | ph l i pad => simp [XOK, Tbl.get?] at this
      · intro T p hp
        rcases List.mem_cons.mp hp with rfl | hp
        · rfl
        · obtain ⟨q, hq, rfl⟩ := List.mem_map.mp hp
          rfl

theorem insertLine_nil (t : Str) : insertLineComments [] t = t := rfl

theorem dirLine_good {name : Str} (hd : name.contains '$' = false)
    (hnb : ∀ c ∈ name, c ≠ '\n' ∧ c ≠ '\r') :
    C12.goodLineB (dirLine name) = true ∧ ∀ c ∈ dirLine name, c ≠ '\r' := by
  have hkw : ∀ c ∈ "#include ".toList, c ≠ '\n' ∧ c ≠ '\r' := by decide
  have hshape : ∃ a z, dirLine name = a ++ [z] ∧ isWs z = false ∧ ∀ c ∈ a ++ [z], c ≠ '\n' ∧ c ≠ '\r' := by
    unfold dirLine
    rw [C18.formatString_native_eq hd]
    rcases C18.wrapOf_cases name with e | e | ⟨e, hne, hq, hc⟩ <;> rw [e]
    · refine ⟨"#include ".toList ++ '\'' :: name, '\'', by simp [sq], by decide, ?_⟩
      intro c hc
      simp only [List.mem_append, List.mem_cons, List.mem_singleton, List.not_mem_nil, or_false] at hc
      rcases hc with (hc | rfl | hc) | rfl
      · exact hkw c hc
      · decide
      · exact hnb c hc
      · decide
    · refine ⟨"#include ".toList ++ '"' :: name, '"', by simp [dq], by decide, ?_⟩
      intro c hc
      simp only [List.mem_append, List.mem_cons, List.mem_singleton, List.not_mem_nil, or_false] at hc
      rcases hc with (hc | rfl | hc) | rfl
      · exact hkw c hc
      · decide
      · exact hnb c hc
      · decide
    · rcases List.eq_nil_or_concat name with rfl | ⟨n', z, rfl⟩
      · exact absurd rfl hne
      · refine ⟨"#include ".toList ++ n', z, by simp, C18.not_ws_of_not_complex hc z (by simp), ?_⟩
        intro c hc'
        simp only [id, List.mem_append, List.mem_singleton] at hc'
        rcases hc' with (hc' | hc') | rfl
        · exact hkw c hc'
        · exact hnb c (by simp [hc'])
        · exact hnb c (by simp)
  obtain ⟨a, z, e, hz, hall⟩ := hshape
  rw [e]
  refine ⟨?_, fun c hc => (hall c hc).2⟩
  simp only [C12.goodLineB, List.reverse_append, List.reverse_cons, List.reverse_nil, List.nil_append, List.singleton_append,
    hz, Bool.not_false, Bool.true_and, List.all_eq_true, bne_iff_ne, ne_eq, List.mem_reverse]
  exact fun c hc => (hall c (by simp [hc])).1

theorem mid_text_iph : ∀ (ids : List Nat),
    (ids.map fun i => YTok.iph i pad0).flatMap (fun t => '\n' :: t.toX.text) =
      (ids.map fun i => iphLine i pad0).flatMap ('\n' :: ·)
  | [] => rfl
  | i :: ids => by
    simp only [List.map_cons, List.flatMap_cons, mid_text_iph ids]
    rfl

theorem mid_text_dir : ∀ (names : List Str),
    (names.map dirTok).flatMap (fun t => '\n' :: t.toX.text) = (names.map dirLine).flatMap ('\n' :: ·)
  | [] => rfl
  | n :: names => by
    simp only [List.map_cons, List.flatMap_cons, mid_text_dir names]
    rfl

theorem subst_mid (T : Tbl InclEntry) : ∀ (ids : List Nat) (names : List Str), ids.length = names.length →
    (∀ p ∈ ids.zip names, ∃ e, T.get? p.1 = some e ∧ e.file = p.2) →
    (ids.map fun i => YTok.iph i pad0).map (substYT T) = names.map dirTok
  | [], [], _, _ => rfl
  | [], _ :: _, h, _ => by cases h
  | _ :: _, [], h, _ => by cases h
  | i :: ids, n :: names, hl, h => by
    obtain ⟨e, he, hf⟩ := h (i, n) (by simp)
    have ih := subst_mid T ids names (by simpa using hl) (fun p hp => h p (by simp [hp]))
    simp only [List.map_cons, ih, substYT, he, hf]

theorem map_mkLay (T : Tbl InclEntry) (mid : List YTok) (plainY : List (Str × YTok))
    (hid : ∀ p ∈ plainY, substYT T p.2 = p.2) :
    (mkLay mid plainY).map (fun p => (p.1, substYT T p.2)) = mkLay (mid.map (substYT T)) plainY := by
  have e : plainY.map (fun p => (p.1, substYT T p.2)) = plainY := by
    conv => rhs; rw [← List.map_id plainY]
    apply List.map_congr_left
    intro p hp
    rw [hid p hp]; rfl
  unfold mkLay
  rw [List.cons_append, List.map_cons, List.map_append, e, List.map_map, List.map_map]
  rfl

theorem rts_lines' (ls : List Str) (hg : ∀ l ∈ ls, C12.goodLineB l = true ∧ ∀ c ∈ l, c ≠ '\r') (P : Str) :
    removeTrailingSpaces (ls.flatMap (· ++ ['\n']) ++ P) = ls.flatMap (· ++ ['\n']) ++ removeTrailingSpaces P := by
  have hcr : ∀ c ∈ ls.flatMap (· ++ ['\n']), c ≠ '\r' := by
    intro c hc
    simp only [List.mem_flatMap, List.mem_append, List.mem_singleton] at hc
    obtain ⟨l, hl, hc | rfl⟩ := hc
    · exact (hg l hl).2 c hc
    · decide
  rw [C01.removeTrailingSpaces_eq, C01.removeTrailingSpaces_eq, C01.universalNl_solid _ _ hcr,
    C12.rts_lines _ _ (fun l hl => (hg l hl).1)]

/-- what the writer theorem needs of an SDict: no comments; after the hoisting the data are the include placeholder
    entries `ids` followed by a dict `D` of the value domain of C01; the include table has an entry for every id (file
    names `names`); no file name of the table holds a `$`, the word `INCLUDE`, a line feed or a carriage return -/
structure WIOK (sd : SD) (ids : List Nat) (names : List Str) (D : Entries) : Prop where
  lineC : sd.lineC = []
  blockC : sd.blockC = []
  hoist : hoistPlaceholders sd.data = ids.map inclE ++ D
  dom : DomC01 .native D = true
  len : ids.length = names.length
  idsle : ∀ i ∈ ids, i ≤ 999999
  look : ∀ p ∈ ids.zip names, ∃ e, sd.incl.get? p.1 = some e ∧ e.file = p.2
  tbl : ∀ e ∈ sd.incl, e.1 ≤ 999999 ∧ e.2.file.contains '$' = false ∧ NoI e.2.file
  names : ∀ n ∈ names, n.contains '$' = false ∧ ∀ c ∈ n, c ≠ '\n' ∧ c ≠ '\r'

/-- **the writer on an SDict with include placeholder entries at the top level** (no comments): the text is the default
    header, one directive line `#include <name>` per placeholder entry, in their order, and then the text of the plain
    dict `D` -/
theorem write_incl_top {sd : SD} {ids : List Nat} {names : List Str} {D : Entries} (h : WIOK sd ids names D) :
    fmtSD .native sd =
      some (nativeHeader ++ ((names.map dirLine).flatMap (· ++ ['\n']) ++ fmtPlain .native D)) := by
  have hd : domEs .native 1 D = true := by
    have := h.dom; simp only [DomC01, Bool.and_eq_true] at this; exact this.1
  obtain ⟨plainY, hP, hokP, hinvP, hidP⟩ := plain_layY hd
  have hraw : nativeHeader ++ fmtEntries .native 0 (hoistPlaceholders sd.data) =
      layX (toXL (mkLay (ids.map fun i => YTok.iph i pad0) plainY)) ['\n'] := by
    rw [h.hoist, fmt_incl_top ids D h.idsle, text_mkLay, layX_mkLay, hP, mid_text_iph]
  have hinv : ∀ p ∈ mkLay (ids.map fun i => YTok.iph i pad0) plainY, ITokInv p.2 := by
    intro p hp
    simp only [mkLay, List.cons_append, List.mem_cons, List.mem_append, List.mem_map] at hp
    rcases hp with rfl | ⟨t, ⟨i, hi, rfl⟩, rfl⟩ | hp
    · exact hdr_noI
    · exact ⟨h.idsle i hi, pad0_facts.1, pad0_facts.2⟩
    · exact hinvP p hp
  obtain ⟨hins, _⟩ := insertIncludes_layX sd.incl _ .cov ['\n'] (okX_mkLay _ plainY hokP) (by decide) hinv h.tbl
  have hres : insertIncludes .native sd.incl (nativeHeader ++ fmtEntries .native 0 (hoistPlaceholders sd.data)) =
      some (nativeHeader ++ ((names.map dirLine).flatMap (· ++ ['\n']) ++ fmtEntries .native 0 D)) := by
    rw [hraw, hins, map_mkLay _ _ _ (fun p hp => hidP _ p hp), subst_mid sd.incl ids names h.len h.look, layX_mkLay, hP,
      mid_text_dir, ← text_mkLay]
  have hgood : ∀ l ∈ names.map dirLine, C12.goodLineB l = true ∧ ∀ c ∈ l, c ≠ '\r' := by
    intro l hl
    obtain ⟨n, hn, rfl⟩ := List.mem_map.mp hl
    exact dirLine_good (h.names n hn).1 (h.names n hn).2
  simp only [fmtSD, h.blockC, insertBlock_nil, hres, h.lineC, insertLine_nil]
  rw [C12.rts_header, rts_lines' _ hgood]
  have : fmtPlain .native D = removeTrailingSpaces (fmtEntries .native 0 D) := by
    show removeTrailingSpaces (fmtEntries .native 0 (hoistPlaceholders D)) = _
    rw [C01.hoist_id h.dom]
  rw [this]

/-! ## 3. the written text as an admissible layout (`GapsOKI`) of the written document -/

/-- **the writer's quoting rule for the file name of a directive** (that of `format_value`): single quotes for the empty
    name, for a name with a double quote, and for a name without quotes that holds a blank, `/`, `\`, `:`, `;`, `,`, a
    bracket … (`isComplexChar`) or starts like `#include`; double quotes for a name with a single quote only; bare otherwise -/
def qOf (name : Str) : Option Char :=
  if name.isEmpty then some '\''
  else if name.any isQuote then (if name.contains '"' then some '\'' else some '"')
  else if name.any isComplexChar || startsInclude name then some '\'' else none

theorem dirText_qOf {name : Str} (hd : name.contains '$' = false) : dirText (qOf name) name = dirLine name := by
  unfold dirLine
  rw [C18.formatString_native_eq hd]
  unfold C18.wrapOf qOf dirText
  split
  · rfl
  · split
    · split <;> rfl
    · split <;> rfl

theorem qOf_cases (name : Str) :
    (qOf name = none ∧ name ≠ [] ∧ name.any isQuote = false ∧ name.any isComplexChar = false) ∨
    (∃ q, qOf name = some q ∧ isQuote q = true) := by
  unfold qOf
  split
  · exact Or.inr ⟨_, rfl, by decide⟩
  · rename_i hne
    split
    · split
      · exact Or.inr ⟨_, rfl, by decide⟩
      · exact Or.inr ⟨_, rfl, by decide⟩
    · rename_i hq
      split
      · exact Or.inr ⟨_, rfl, by decide⟩
      · rename_i hc
        simp only [Bool.or_eq_true, not_or, Bool.not_eq_true] at hc
        exact Or.inl ⟨rfl, by intro e; subst e; simp at hne, by simpa using hq, hc.1⟩

/-- the name, spelled by the writer's rule, is read back -/
theorem inclName_qOf {name : Str} (hs : isInfix ['/', '/'] name = false) (hb : ∀ c ∈ name, isLineBreak c = false) :
    isInclName (qOf name) name = true := by
  rw [inclName_iff]
  refine ⟨hs, ?_⟩
  rcases qOf_cases name with ⟨e, hne, hq, hc⟩ | ⟨q, e, hq⟩ <;> rw [e]
  · refine ⟨hne, fun c hm => ⟨?_, C18.not_ws_of_not_complex hc c hm⟩⟩
    have := List.any_eq_false.mp hq c hm
    simpa using this
  · exact ⟨hq, hb⟩

mutual
  /-- a plain source document as a document with comments and directives (it has none) -/
  def embV : Src → ISrc
    | .lit l => .lit l
    | .dict es => .dict (embEs es)
    | .list xs => .list xs
  def embEs : SrcEntries → List IItem
    | [] => []
    | (k, v) :: r => .entry k (embV v) :: embEs r
end

theorem itoks_emb : ∀ (es : SrcEntries), itoksItems (embEs es) = (srcToksEs es).map CTok.tok
  | [] => by simp only [embEs, itoksItems, srcToksEs, List.map_nil]
  | (k, .lit l) :: r => by
    simp only [embEs, embV, itoksItems, srcToksEs, List.map_cons, itoks_emb r]
  | (k, .dict d) :: r => by
    simp only [embEs, embV, itoksItems, srcToksEs, List.map_cons, List.map_append, List.map_nil, itoks_emb r, itoks_emb d,
      List.cons_append, List.append_assoc, List.nil_append]
  | (k, .list xs) :: r => by
    simp only [embEs, embV, itoksItems, srcToksEs, List.map_cons, List.map_append, List.map_nil, itoks_emb r,
      List.cons_append, List.append_assoc, List.nil_append]

/-- **the document that is written**: the default header, the directives (names spelled by `qOf`), the plain entries as
    the writer spells them -/
def writtenI (names : List Str) (D : Entries) : List IItem :=
  .blockC C12.hdrBody :: (names.map fun n => IItem.incl (qOf n) n) ++ embEs (srcOfEs .native D)

theorem itoks_incls (R : List IItem) : ∀ (names : List Str),
    itoksItems ((names.map fun n => IItem.incl (qOf n) n) ++ R) =
      (names.map fun n => CTok.tok (.word (dirText (qOf n) n))) ++ itoksItems R
  | [] => rfl
  | n :: names => by
    simp only [List.map_cons, List.cons_append, itoksItems, itoks_incls R names]

theorem itoks_writtenI (names : List Str) (D : Entries) :
    itoksItems (writtenI names D) =
      .blockC C12.hdrBody :: ((names.map fun n => CTok.tok (.word (dirText (qOf n) n))) ++
        (srcToksEs (srcOfEs .native D)).map CTok.tok) := by
  simp only [writtenI, List.cons_append, itoksItems, itoks_incls, itoks_emb]

/-- what follows the directives: admissible, and it starts on a new line -/
def RestOK (R : List CTok) (RG : List Str) (T : Str) : Prop :=
  GapsOKC R RG T = true ∧ DirGapsOK false R RG T = true ∧ T.all isWs = true ∧
  (match R, RG with
   | [], _ => T.head? = some '\n'
   | _ :: _, g :: _ => g.head? = some '\n'
   | _ :: _, [] => False)

theorem nl_lb : isLineBreak '\n' = true := by decide

theorem restOK_dir {R : List CTok} {RG : List Str} {T : Str} (h : RestOK R RG T) (w : Str) :
    RestOK (.tok (.word w) :: R) (['\n'] :: RG) T := by
  obtain ⟨h1, h2, h3, h4⟩ := h
  cases R with
  | nil =>
    refine ⟨?_, ?_, h3, rfl⟩
    · simp [GapsOKC, h3, C01.isWs_nl]
    · simp only [DirGapsOK, dirNext, h4, List.getLast?_singleton, nl_lb]
      simp
  | cons u R' =>
    cases RG with
    | nil => exact h4.elim
    | cons g' RG' =>
      have hne : g' ≠ [] := by intro e; rw [e] at h4; cases h4
      refine ⟨?_, ?_, h3, rfl⟩
      · cases u <;> simp [GapsOKC, h1, hne, C01.isWs_nl]
      · show ((!isDirTok (.tok (.word w)) || ((false && (['\n'] : Str).isEmpty) ||
            (match (['\n'] : Str).getLast? with | some c => isLineBreak c | none => false)) &&
            dirNext (u :: R') (g' :: RG') T) && DirGapsOK false (u :: R') (g' :: RG') T) = true
        rw [h2]
        have h4' : g'.head? = some '\n' := h4
        simp [dirNext, h4', nl_lb]

theorem restOK_dirs {R : List CTok} {RG : List Str} {T : Str} (h : RestOK R RG T) : ∀ (ws : List Str),
    RestOK (ws.map (fun w => CTok.tok (.word w)) ++ R) (ws.map (fun _ => ['\n']) ++ RG) T
  | [] => h
  | w :: ws => by
    simp only [List.map_cons, List.cons_append]
    exact restOK_dir (restOK_dirs h ws) w

theorem gapsOKI_hdr {R : List CTok} {RG : List Str} {T : Str} (h : RestOK R RG T) (b : Str) :
    GapsOKI (.blockC b :: R) (['\n'] :: RG) T = true := by
  obtain ⟨h1, h2, h3, h4⟩ := h
  unfold GapsOKI
  cases R with
  | nil => simp [GapsOKC, DirGapsOK, isDirTok, h3, C01.isWs_nl]
  | cons u R' =>
    cases RG with
    | nil => exact h4.elim
    | cons g' RG' =>
      have hne : g' ≠ [] := by intro e; rw [e] at h4; cases h4
      have e : DirGapsOK true (.blockC b :: u :: R') (['\n'] :: g' :: RG') T = true := by
        show ((!isDirTok (.blockC b) || _) && DirGapsOK false (u :: R') (g' :: RG') T) = true
        rw [h2]; rfl
      rw [e]
      simp [GapsOKC, h1, hne, C01.isWs_nl]

theorem spread_dirs (R : List Str) (RG : List Str) (T : Str) : ∀ (ws : List Str),
    spread (ws ++ R) (ws.map (fun _ => ['\n']) ++ RG) T = ws.flatMap ('\n' :: ·) ++ spread R RG T
  | [] => rfl
  | w :: ws => by
    simp only [List.map_cons, List.cons_append, spread, spread_dirs R RG T ws, List.flatMap_cons, List.append_assoc,
      List.singleton_append, List.nil_append]

/-- the layout of source tokens as a layout of a document's tokens, a line feed put in front -/
theorem gapsOKC_toks (T : Str) (hT : T.all isWs = true) : ∀ (ts : List STok) (g : Str) (gs : List Str),
    GapsOKS (ts) (g :: gs) = true → ts ≠ [] → GapsOKC (ts.map CTok.tok) (g :: gs) T = true
  | [], _, _, _, h => absurd rfl h
  | [t], g, gs, h, _ => by
    simp only [GapsOKS] at h
    simp [GapsOKC, h, hT]
  | t :: u :: ts, g, [], h, _ => by simp [GapsOKS] at h
  | t :: u :: ts, g, g' :: gs, h, _ => by
    simp only [GapsOKS, Bool.and_eq_true] at h
    have ih := gapsOKC_toks T hT (u :: ts) g' gs h.2 (by simp)
    simp only [List.map_cons] at ih
    simp only [List.map_cons, GapsOKC, h.1.1, h.1.2, ih, Bool.and_self]

theorem dirGaps_plain (T : Str) : ∀ (ts : List CTok) (gs : List Str) (first : Bool),
    GapsOKC ts gs T = true → (∀ t ∈ ts, isDirTok t = false) → DirGapsOK first ts gs T = true
  | [], _, _, _, _ => by simp [DirGapsOK]
  | [t], [], _, h, _ => by simp [GapsOKC] at h
  | [t], g :: gs, _, _, hd => by simp [DirGapsOK, hd t (by simp)]
  | t :: u :: ts, [], _, h, _ => by simp [GapsOKC] at h
  | t :: u :: ts, [g], _, h, _ => by simp [GapsOKC] at h
  | t :: u :: ts, g :: g' :: gs, _, h, hd => by
    simp only [GapsOKC, Bool.and_eq_true] at h
    have ih := dirGaps_plain T (u :: ts) (g' :: gs) false h.2 (fun t' ht' => hd t' (List.mem_cons_of_mem _ ht'))
    show ((!isDirTok t || _) && DirGapsOK false (u :: ts) (g' :: gs) T) = true
    rw [ih, hd t (by simp)]; rfl

/-- the plain part behind the directives -/
theorem restOK_plain {ts : List STok} {gaps : List Str} {tail : Str} (hok : ∀ t ∈ ts, C02.TokOK t)
    (hg : GapsOKS ts gaps = true) (ht : tail.all isWs = true) :
    ∃ RG T, RestOK (ts.map CTok.tok) RG T ∧ spread (ts.map STok.text) RG T = '\n' :: spreadS ts gaps tail := by
  cases ts with
  | nil =>
    refine ⟨[], '\n' :: tail, ⟨rfl, rfl, ?_, rfl⟩, rfl⟩
    simp [ht, C01.isWs_nl]
  | cons t ts =>
    have hg' : GapsOKS (t :: ts) (('\n' :: gaps.headD []) :: gaps.tail) = true := by
      cases ts with
      | nil =>
        cases gaps with
        | nil => simp [GapsOKS, C01.isWs_nl]
        | cons g gs => simp only [GapsOKS] at hg; simp [GapsOKS, C01.isWs_nl, hg]
      | cons u ts =>
        cases gaps with
        | nil => simp [GapsOKS] at hg
        | cons g gs =>
          cases gs with
          | nil => simp [GapsOKS] at hg
          | cons g' gs =>
            simp only [GapsOKS, Bool.and_eq_true] at hg
            simp [GapsOKS, C01.isWs_nl, hg.1.1, hg.1.2, hg.2]
    have h1 := gapsOKC_toks tail ht (t :: ts) _ _ hg' (by simp)
    have h2 := dirGaps_plain tail _ _ false h1 (by
      intro t' ht'
      obtain ⟨s, hs, rfl⟩ := List.mem_map.mp ht'
      exact aok_notDir (t := .tok s) (hok s hs))
    refine ⟨('\n' :: gaps.headD []) :: gaps.tail, tail, ⟨h1, h2, ht, rfl⟩, ?_⟩
    cases gaps with
    | nil => simp [spreadS, spread]
    | cons g gs => simp [spreadS, spread]

theorem map_text_words : ∀ (L : List Str), (L.map fun w => CTok.tok (.word w)).map CTok.text = L
  | [] => rfl
  | w :: L => by simp only [List.map_cons, map_text_words L]; rfl

theorem map_text_toks : ∀ (ts : List STok), (ts.map CTok.tok).map CTok.text = ts.map STok.text
  | [] => rfl
  | t :: ts => by simp only [List.map_cons, map_text_toks ts]; rfl

theorem hdr_text : (CTok.blockC C12.hdrBody).text = C12.hdrComment := by
  rw [C12.hdrComment_shape]; rfl

/-- **the text of `write_incl_top` is an admissible layout of the written document** (a line feed put in front for the
    header comment, as in `C12W.write_commented`) -/
theorem text_is_layout {names : List Str} {D : Entries} (hdom : DomC01 .native D = true)
    (hn : ∀ n ∈ names, n.contains '$' = false) :
    ∃ gaps tail, nativeHeader ++ ((names.map dirLine).flatMap (· ++ ['\n']) ++ fmtPlain .native D) =
        spreadC (itoksItems (writtenI names D)) ([] :: gaps) tail ∧
      GapsOKI (itoksItems (writtenI names D)) (['\n'] :: gaps) tail = true ∧ tail.all isWs = true := by
  have hd : domEs .native 1 D = true := by
    simp only [DomC01, Bool.and_eq_true] at hdom; exact hdom.1
  obtain ⟨pg, pt, hp, hpg, hpt⟩ := C01.fmtPlain_is_layout hdom
  obtain ⟨RG, T, hR, hsp⟩ := restOK_plain (C02.srcToks_ok 1 _ (C01.srcOf_wf 1 D hd)) hpg hpt
  have hdirs : (names.map fun n => CTok.tok (.word (dirText (qOf n) n))) =
      (names.map dirLine).map (fun w => CTok.tok (.word w)) := by
    rw [List.map_map]
    apply List.map_congr_left
    intro n hn'
    simp only [Function.comp, dirText_qOf (hn n hn')]
  have hR' := restOK_dirs hR (names.map dirLine)
  refine ⟨(names.map dirLine).map (fun _ => ['\n']) ++ RG, T, ?_, ?_, hR'.2.2.1⟩
  · rw [itoks_writtenI, hdirs, text_mkLay, hp, ← hsp]
    unfold spreadC
    rw [List.map_cons, List.map_append, map_text_words, map_text_toks, hdr_text]
    show _ = [] ++ C12.hdrComment ++ spread _ _ _
    rw [spread_dirs]
    rfl
  · rw [itoks_writtenI, hdirs]
    exact gapsOKI_hdr hR' _

/-! ## 4. M2 / M3 for an SDict with top-level includes -/

/-- **M2, SDict form.**  The text written for an SDict with `WIOK` is an admissible layout (`GapsOKI`, with a line feed put
    in front) of the document `writtenI names D`: the default header, the directives `#include <name>` in the order of
    their placeholder entries with the names spelled by `qOf`, and the plain entries in the writer's spelling. -/
theorem write_incl_layout {sd : SD} {ids : List Nat} {names : List Str} {D : Entries} (h : WIOK sd ids names D) :
    ∃ gaps tail, fmtSD .native sd = some (spreadC (itoksItems (writtenI names D)) ([] :: gaps) tail) ∧
      GapsOKI (itoksItems (writtenI names D)) (['\n'] :: gaps) tail = true ∧ tail.all isWs = true := by
  obtain ⟨gaps, tail, e, hg, ht⟩ := text_is_layout (names := names) h.dom (fun n hn => (h.names n hn).1)
  exact ⟨gaps, tail, by rw [write_incl_top h, e], hg, ht⟩

mutual
  theorem wf_embV : ∀ (d : Nat) (v : Src), ISrcWFV d (embV v) = SrcWFV d v
    | d, .lit l => by simp only [embV, ISrcWFV, SrcWFV]
    | d, .dict es => by simp only [embV, ISrcWFV, SrcWFV, wf_emb (d + 1) es]
    | d, .list xs => by simp only [embV, ISrcWFV, SrcWFV]
  theorem wf_emb : ∀ (d : Nat) (es : SrcEntries), ISrcWFItems d (embEs es) = SrcWFEs d es
    | _, [] => by simp only [embEs, ISrcWFItems, SrcWFEs]
    | d, (k, v) :: r => by simp only [embEs, ISrcWFItems, SrcWFEs, wf_embV d v, wf_emb d r]
end

mutual
  theorem plain_embV : ∀ (v : Src), plainIV (embV v) = v
    | .lit l => by simp only [embV, plainIV]
    | .dict es => by simp only [embV, plainIV, plain_emb es]
    | .list xs => by simp only [embV, plainIV]
  theorem plain_emb : ∀ (es : SrcEntries), plainIItems (embEs es) = es
    | [] => by simp only [embEs, plainIItems]
    | (k, v) :: r => by simp only [embEs, plainIItems, plain_embV v, plain_emb r]
end

mutual
  theorem incls_embV : ∀ (v : Src), inclsV (embV v) = []
    | .lit l => by simp only [embV, inclsV]
    | .dict es => by simp only [embV, inclsV, incls_emb es]
    | .list xs => by simp only [embV, inclsV]
  theorem incls_emb : ∀ (es : SrcEntries), inclsItems (embEs es) = []
    | [] => by simp only [embEs, inclsItems]
    | (k, v) :: r => by simp only [embEs, inclsItems, incls_embV v, incls_emb r, List.append_nil]
end

theorem writtenI_facts (D : Entries) : ∀ (names : List Str) (R : List IItem),
    plainIItems ((names.map fun n => IItem.incl (qOf n) n) ++ R) = plainIItems R ∧
    inclsItems ((names.map fun n => IItem.incl (qOf n) n) ++ R) = (names.map fun n => (qOf n, n)) ++ inclsItems R ∧
    (∀ d, (∀ n ∈ names, isInclName (qOf n) n = true) →
      ISrcWFItems d ((names.map fun n => IItem.incl (qOf n) n) ++ R) = ISrcWFItems d R)
  | [], R => ⟨rfl, rfl, fun _ _ => rfl⟩
  | n :: names, R => by
    obtain ⟨h1, h2, h3⟩ := writtenI_facts D names R
    refine ⟨?_, ?_, ?_⟩
    · simp only [List.map_cons, List.cons_append, plainIItems, h1]
    · simp only [List.map_cons, List.cons_append, inclsItems, h2]
    · intro d hn
      simp only [List.map_cons, List.cons_append, ISrcWFItems, hn n (by simp), Bool.true_and]
      exact h3 d (fun m hm => hn m (by simp [hm]))

/-- the directives of the written document: those of the SDict, in the order of their placeholder entries -/
theorem incls_writtenI (names : List Str) (D : Entries) :
    inclsItems (writtenI names D) = names.map fun n => (qOf n, n) := by
  have := (writtenI_facts D names (embEs (srcOfEs .native D))).2.1
  simp only [writtenI, List.cons_append, inclsItems, this, incls_emb, List.append_nil]

theorem plain_writtenI (names : List Str) (D : Entries) : plainIItems (writtenI names D) = srcOfEs .native D := by
  have := (writtenI_facts D names (embEs (srcOfEs .native D))).1
  simp only [writtenI, List.cons_append, plainIItems, this, plain_emb]

theorem wf_writtenI {names : List Str} {D : Entries} (hdom : DomC01 .native D = true)
    (hn : ∀ n ∈ names, isInclName (qOf n) n = true) : ISrcWFItems 1 (writtenI names D) = true := by
  have hd : domEs .native 1 D = true := by
    simp only [DomC01, Bool.and_eq_true] at hdom; exact hdom.1
  have := (writtenI_facts D names (embEs (srcOfEs .native D))).2.2 1 hn
  simp only [writtenI, List.cons_append, ISrcWFItems, this, wf_emb, C01.srcOf_wf 1 D hd, hdrBody_text, Bool.and_self]

/-- **M3, SDict form: every directive is written again and names the same file.**  For an SDict with `WIOK` whose file names
    hold no `//` and no line-break character: the written text, read from any directory `dir₂` with any valid counter,
    is the document `writtenI names D`, whose directives are exactly `names`, in order (spelled by `qOf`). -/
theorem read_written_incl {sd : SD} {ids : List Nat} {names : List Str} {D : Entries} (h : WIOK sd ids names D)
    (hnm : ∀ n ∈ names, isInfix ['/', '/'] n = false ∧ ∀ c ∈ n, isLineBreak c = false)
    (dir₂ : Str) {c₂ : Counter} (hc₂ : C13.ValidCounter Gen.counterLimit c₂)
    (hq : C02.countQuotedEs (srcOfEs .native D) ≤ Gen.counterLimit + 1)
    (hk : C02.DocKeysAbsent (srcOfEs .native D)) :
    ∃ text c', fmtSD .native sd = some text ∧
      parseNative true dir₂ c₂ text = .ok (denI dir₂ c₂ (writtenI names D), c') ∧
      inclsItems (writtenI names D) = names.map fun n => (qOf n, n) := by
  obtain ⟨gaps, tail, hw, hg, ht⟩ := write_incl_layout h
  have hwf := wf_writtenI h.dom (fun n hn => inclName_qOf (hnm n hn).1 (hnm n hn).2)
  have hread := C12_read_included dir₂ c₂ hwf hg (fun _ => ht) hc₂ (by rw [plain_writtenI]; exact hq)
    (by rw [plain_writtenI]; exact hk)
  refine ⟨_, C02.adv Gen.counterLimit (C02.countQuotedEs (plainIItems (writtenI names D)))
    (labelI dir₂ c₂ (writtenI names D)).1.icounter, hw, ?_, incls_writtenI names D⟩
  have e : spreadC (itoksItems (writtenI names D)) (['\n'] :: gaps) tail =
      '\n' :: spreadC (itoksItems (writtenI names D)) ([] :: gaps) tail := by
    rw [itoks_writtenI]
    simp [spreadC, spread]
  rw [e, parseNative_nl] at hread
  exact hread

/-! ## 4a. `_clean` on an SDict without comments whose include table has no value twice -/

/-- the loop of `_clean_data` for one class of keys leaves data and table alone when the candidates are distinct keys
    with distinct ids and the table has no value twice (`C12.Incl.cfold_tbl`, with the data) -/
theorem cfold_both {α} [BEq α] [LawfulBEq α] (t : Tbl α) (ht : TblInj t) : ∀ (cand : List Key), cand.Nodup →
    (∀ k ∈ cand, ∀ k' ∈ cand, fsdK k = fsdK k' → fsdK k ≠ none → k = k') →
    ∀ (d : Entries) (seen : List α),
      (∀ a ∈ seen, ∀ k ∈ cand, ∀ i, fsdK k = some i → t.get? i ≠ some a) →
      (cand.foldl C08.cstep (d, t, seen)).1 = d ∧ (cand.foldl C08.cstep (d, t, seen)).2.1 = t
  | [], _, _, _, _, _ => ⟨rfl, rfl⟩
  | k :: cand, hnd, hinj, d, seen, hseen => by
    rw [List.foldl_cons]
    obtain ⟨hk, hnd'⟩ := List.nodup_cons.mp hnd
    have hinj' : ∀ k1 ∈ cand, ∀ k2 ∈ cand, fsdK k1 = fsdK k2 → fsdK k1 ≠ none → k1 = k2 :=
      fun k1 h1 k2 h2 => hinj k1 (List.mem_cons_of_mem _ h1) k2 (List.mem_cons_of_mem _ h2)
    have hseen' : ∀ a ∈ seen, ∀ k ∈ cand, ∀ i, fsdK k = some i → t.get? i ≠ some a :=
      fun a ha k' hk' => hseen a ha k' (List.mem_cons_of_mem _ hk')
    cases k with
    | int z => exact cfold_both t ht cand hnd' hinj' d seen hseen'
    | str x =>
      cases hf : firstSixDigits x with
      | none =>
        simp only [C08.cstep, hf]
        exact cfold_both t ht cand hnd' hinj' d seen hseen'
      | some i =>
        cases hg : Tbl.get? i t with
        | none =>
          simp only [C08.cstep, hf, hg]
          exact cfold_both t ht cand hnd' hinj' d seen hseen'
        | some txt =>
          simp only [C08.cstep, hf, hg]
          have hns : seen.contains txt = false := by
            cases hc : seen.contains txt with
            | false => rfl
            | true =>
              have hm : txt ∈ seen := by simpa using hc
              exact absurd hg (hseen txt hm (.str x) List.mem_cons_self i hf)
          simp only [hns, Bool.false_eq_true, if_false]
          refine cfold_both t ht cand hnd' hinj' d (seen ++ [txt]) ?_
          intro a ha k' hk' i' hi' hget
          rcases List.mem_append.mp ha with ha | ha
          · exact hseen' a ha k' hk' i' hi' hget
          · simp only [List.mem_singleton] at ha
            subst ha
            have hii : i' = i := ht i' i a hget hg
            subst hii
            have : k' = .str x := hinj k' (List.mem_cons_of_mem _ hk') (.str x) List.mem_cons_self
              (by rw [hi']; exact hf.symm) (by rw [hi']; simp)
            subst this
            exact hk hk'

theorem tblInj_nil {α} : TblInj ([] : Tbl α) := by
  intro i j a h; simp [Tbl.get?] at h

theorem cleanStep_nil {α} [BEq α] [LawfulBEq α] (sel : Key → Bool) (lvl : Entries) (hn : (keys lvl).Nodup) :
    C06.cleanStep sel lvl ([] : Tbl α) = (lvl, []) := by
  rw [C08.cleanStep_eq]
  have : ∀ (cand : List Key) (seen : List α), cand.foldl C08.cstep (lvl, ([] : Tbl α), seen) = (lvl, [], seen) := by
    intro cand
    induction cand with
    | nil => intro seen; rfl
    | cons k cand ih =>
      intro seen
      rw [List.foldl_cons]
      have : C08.cstep (lvl, ([] : Tbl α), seen) k = (lvl, [], seen) := by
        cases k with
        | int z => rfl
        | str x =>
          cases hf : firstSixDigits x with
          | none => simp only [C08.cstep, hf]
          | some i => simp only [C08.cstep, hf, Tbl.get?]
      rw [this, ih]
  rw [this]

theorem cleanStep_incl (lvl : Entries) (t : Tbl InclEntry) (ht : TblInj t) (hn : (keys lvl).Nodup) (hp : PhOKEs lvl) :
    C06.cleanStep C06.selI lvl t = (lvl, t) := by
  rw [C08.cleanStep_eq]
  have := cfold_both t ht _ (hn.filter C06.selI) (by
    intro k hk k' hk' h1 h2
    exact keyInj_of_phOK hp k (List.mem_filter.mp hk).1 k' (List.mem_filter.mp hk').1 (List.mem_filter.mp hk).2
      (List.mem_filter.mp hk').2 h1 h2) lvl [] (by intro a ha; cases ha)
  exact Prod.ext this.1 this.2

/-- **`_clean` changes nothing** on an SDict without comments when no two directives have the same text -/
theorem cleanRec_noC : ∀ (fuel : Nat) (s : SD) (lvl : Entries), s.lineC = [] → s.blockC = [] → TblInj s.incl →
    NodupKeysV (.dict lvl) → PhOKEs lvl → cleanRec fuel s lvl = (s, lvl)
  | 0, _, _, _, _, _, _, _ => rfl
  | fuel + 1, s, lvl, hl, hb, ht, hn, hp => by
    have hlev : cleanLevel s lvl = (s, lvl) := by
      rw [C08.cleanLevel_eq, hb, hl, cleanStep_nil C06.selB lvl hn.1, cleanStep_incl lvl s.incl ht hn.1 hp,
        cleanStep_nil C06.selL lvl hn.1]
      cases s
      simp only at hl hb
      subst hl hb
      rfl
    simp only [cleanRec, hlev]
    suffices H : ∀ l : Entries, (∀ e ∈ l, e ∈ lvl) →
        l.foldl (fun (acc : SD × Entries) e =>
          match e.2 with
          | .dict sub => ((cleanRec fuel acc.1 sub).1, setKey e.1 (.dict (cleanRec fuel acc.1 sub).2) acc.2)
          | _ => acc) (s, lvl) = (s, lvl) from H lvl (fun _ h => h)
    intro l
    induction l with
    | nil => intro _; rfl
    | cons e l ih =>
      intro hsub
      obtain ⟨k, v⟩ := e
      have hmem : (k, v) ∈ lvl := hsub _ List.mem_cons_self
      have hrest := ih fun e he => hsub e (List.mem_cons_of_mem _ he)
      cases v with
      | leaf x => simpa only [List.foldl_cons] using hrest
      | list xs => simpa only [List.foldl_cons] using hrest
      | dict sub =>
        have h1 : NodupKeysV (.dict sub) := C07.nodupKeysEs_iff.mp hn.2 _ hmem
        have h2 : PhOKEs sub := (phOKEs_iff.mp hp _ hmem).2
        simp only [List.foldl_cons, cleanRec_noC fuel s sub hl hb ht h1 h2, C07.setKey_of_mem_nodup hn.1 hmem]
        exact hrest

theorem clean_noC (s : SD) (hl : s.lineC = []) (hb : s.blockC = []) (ht : TblInj s.incl)
    (hn : NodupKeysV (.dict s.data)) (hp : PhOKEs s.data) : s.clean = s := by
  simp only [SD.clean, cleanRec_noC _ s s.data hl hb ht hn hp]

/-! ## 4b. documents whose directives stand at the top level, without comments -/

mutual
  /-- no comment and no directive inside -/
  def plainV : ISrc → Bool
    | .lit _ => true
    | .dict items => plainItems items
    | .list _ => true
  def plainItems : List IItem → Bool
    | [] => true
    | .entry _ v :: r => plainV v && plainItems r
    | .lineC _ :: _ => false
    | .blockC _ :: _ => false
    | .incl _ _ :: _ => false
end

/-- entries (without comments and directives inside) and directives, no comments -/
def topDoc : List IItem → Bool
  | [] => true
  | .entry _ v :: r => plainV v && topDoc r
  | .incl _ _ :: r => topDoc r
  | .lineC _ :: _ => false
  | .blockC _ :: _ => false

mutual
  theorem label_plainV (dir : Str) : ∀ (v : ISrc) (st : ILabelSt), plainV v = true →
      labelIV dir st v = (st, plainIV v) ∧ inclsV v = []
    | .lit l, st, _ => by simp only [labelIV, plainIV, inclsV, and_self]
    | .list xs, st, _ => by simp only [labelIV, plainIV, inclsV, and_self]
    | .dict items, st, h => by
      simp only [plainV] at h
      obtain ⟨h1, h2⟩ := label_plainI dir items st h
      simp only [labelIV, plainIV, inclsV, h1, h2, and_self]
  theorem label_plainI (dir : Str) : ∀ (items : List IItem) (st : ILabelSt), plainItems items = true →
      labelIItems dir st items = (st, plainIItems items) ∧ inclsItems items = []
    | [], st, _ => by simp only [labelIItems, plainIItems, inclsItems, and_self]
    | .entry k v :: r, st, h => by
      simp only [plainItems, Bool.and_eq_true] at h
      obtain ⟨h1, h2⟩ := label_plainV dir v st h.1
      obtain ⟨h3, h4⟩ := label_plainI dir r st h.2
      simp only [labelIItems, plainIItems, inclsItems, h1, h2, h3, h4, List.append_nil, and_self]
    | .lineC x :: r, st, h => by simp only [plainItems] at h; cases h
    | .blockC x :: r, st, h => by simp only [plainItems] at h; cases h
    | .incl q n :: r, st, h => by simp only [plainItems] at h; cases h
end

mutual
  theorem wf_plainV : ∀ (v : ISrc) (d : Nat), plainV v = true → ISrcWFV d v = true → SrcWFV d (plainIV v) = true
    | .lit l, d, _, h => by simpa only [plainIV, ISrcWFV, SrcWFV] using h
    | .list xs, d, _, h => by simpa only [plainIV, ISrcWFV, SrcWFV] using h
    | .dict items, d, hp, h => by
      simp only [plainV] at hp
      simp only [ISrcWFV] at h
      simp only [plainIV, SrcWFV]
      exact wf_plainI items (d + 1) hp h
  theorem wf_plainI : ∀ (items : List IItem) (d : Nat), plainItems items = true → ISrcWFItems d items = true →
      SrcWFEs d (plainIItems items) = true
    | [], _, _, _ => by simp only [plainIItems, SrcWFEs]
    | .entry k v :: r, d, hp, h => by
      simp only [plainItems, Bool.and_eq_true] at hp
      simp only [ISrcWFItems, Bool.and_eq_true] at h
      simp only [plainIItems, SrcWFEs, Bool.and_eq_true]
      exact ⟨⟨h.1.1, wf_plainV v d hp.1 h.1.2⟩, wf_plainI r d hp.2 h.2⟩
    | .lineC x :: r, _, hp, _ => by simp only [plainItems] at hp; cases hp
    | .blockC x :: r, _, hp, _ => by simp only [plainItems] at hp; cases hp
    | .incl q n :: r, _, hp, _ => by simp only [plainItems] at hp; cases hp
end

mutual
  theorem countLine_plainV : ∀ (v : ISrc), plainV v = true → countLineV v = 0
    | .lit l, _ => by simp only [countLineV]
    | .list xs, _ => by simp only [countLineV]
    | .dict items, h => by
      simp only [plainV] at h
      simp only [countLineV]
      exact countLine_plainI items h
  theorem countLine_plainI : ∀ (items : List IItem), plainItems items = true → countLineItems items = 0
    | [], _ => by simp only [countLineItems]
    | .entry k v :: r, h => by
      simp only [plainItems, Bool.and_eq_true] at h
      simp only [countLineItems, countLine_plainV v h.1, countLine_plainI r h.2]
    | .lineC x :: r, h => by simp only [plainItems] at h; cases h
    | .blockC x :: r, h => by simp only [plainItems] at h; cases h
    | .incl q n :: r, h => by simp only [plainItems] at h; cases h
end

/-- the placeholder entry of include `i` in the labelled document -/
def phSrc (i : Nat) : Str × Src := (inclPh i, .lit (.bare (inclPh i)))

/-- the labelling of a `topDoc`: the comment state is untouched; the placeholder entries are those of the ids drawn,
    in order; the other entries are the plain document -/
theorem label_top (dir : Str) : ∀ (items : List IItem) (d : Nat) (st : ILabelSt), topDoc items = true →
    ISrcWFItems d items = true →
    (labelIItems dir st items).1.c = st.c ∧
    (labelIItems dir st items).2.filter (fun e => isPhTok e.1) =
      (alloc Gen.counterLimit (inclsItems items).length st.icounter).map phSrc ∧
    (labelIItems dir st items).2.filter (fun e => !isPhTok e.1) = plainIItems items ∧
    SrcWFEs d (plainIItems items) = true ∧
    countLineItems items = 0
  | [], _, st, _, _ => by
    simp only [labelIItems, inclsItems, plainIItems, List.filter_nil, List.length_nil, alloc, List.map_nil, SrcWFEs,
      countLineItems, and_self]
  | .entry k v :: r, d, st, ht, hw => by
    simp only [topDoc, Bool.and_eq_true] at ht
    simp only [ISrcWFItems, Bool.and_eq_true] at hw
    obtain ⟨h1, h2⟩ := label_plainV dir v st ht.1
    obtain ⟨i1, i2, i3, i4, i5⟩ := label_top dir r d st ht.2 hw.2
    have hp : isPhTok k = false := (C02.srcWord_facts hw.1.1.1).2.1
    have hcl : countLineV v = 0 := countLine_plainV v ht.1
    simp only [labelIItems, h1, inclsItems, h2, List.nil_append, plainIItems, List.filter_cons, hp, Bool.false_eq_true,
      if_false, Bool.not_false, if_true, i1, i2, i3, SrcWFEs, hw.1.1.1, hw.1.1.2, wf_plainV v d ht.1 hw.1.2, i4, Bool.and_self,
      countLineItems, hcl, i5, and_self]
  | .incl q n :: r, d, st, ht, hw => by
    simp only [topDoc] at ht
    simp only [ISrcWFItems, Bool.and_eq_true] at hw
    obtain ⟨i1, i2, i3, i4, i5⟩ := label_top dir r d
      { st with icounter := (Counter.next Gen.counterLimit st.icounter).2,
                incl := st.incl.set (Counter.next Gen.counterLimit st.icounter).1 (inclEntry dir q n) } ht hw.2
    have hp : isPhTok (inclPh (Counter.next Gen.counterLimit st.icounter).1) = true := (inclPh_tok _).2
    simp only [labelIItems, inclsItems, List.length_cons, C13.alloc_succ, List.map_cons, plainIItems, List.filter_cons, hp,
      if_true, Bool.not_true, Bool.false_eq_true, if_false, i1, i2, i3, i4, countLineItems, i5, phSrc, and_self]
  | .lineC x :: r, _, _, ht, _ => by simp only [topDoc] at ht; cases ht
  | .blockC x :: r, _, _, ht, _ => by simp only [topDoc] at ht; cases ht

/-! ## 4c. the data of `denI` for such a document, hoisted -/

theorem filter_setKey (p : Key → Bool) (k : Key) (v : Val) : ∀ (acc : Entries),
    (setKey k v acc).filter (fun e => p e.1) =
      if p k then setKey k v (acc.filter fun e => p e.1) else acc.filter fun e => p e.1
  | [] => by by_cases h : p k <;> simp [setKey, h]
  | (k0, v0) :: acc => by
    have ih := filter_setKey p k v acc
    by_cases h0 : k0 = k
    · subst h0
      by_cases h : p k0 <;> simp [setKey, h]
    · by_cases h : p k <;> by_cases h' : p k0 <;> simp [setKey, h0, h, h', ih]

theorem denPEs_cons_none {k : Str} {v : Src} {es : SrcEntries} {acc : Entries} (hp : isPhTok k = false)
    (hk : keyOfScalar (parseKey k) = none) : denPEs ((k, v) :: es) acc = denPEs es acc := by
  simp only [denPEs, hp, Bool.false_eq_true, if_false, hk]

/-- filtering the meaning of a labelled document by a class of keys = the meaning of the entries of that class -/
theorem filter_denPEs (p : Key → Bool) (cls : Str → Bool) : ∀ (es : SrcEntries) (acc : Entries),
    (∀ e ∈ es, (isPhTok e.1 = true → p (.str e.1) = cls e.1) ∧
       (isPhTok e.1 = false → ∀ key, keyOfScalar (parseKey e.1) = some key → p key = cls e.1)) →
    (denPEs es acc).filter (fun e => p e.1) = denPEs (es.filter fun e => cls e.1) (acc.filter fun e => p e.1)
  | [], acc, _ => by simp only [denPEs, List.filter_nil]
  | (k, v) :: es, acc, h => by
    have hes := fun e he => h e (List.mem_cons_of_mem _ he)
    obtain ⟨h1, h2⟩ := h (k, v) List.mem_cons_self
    by_cases hp : isPhTok k = true
    · rw [C12.denPEs_cons_ph hp, filter_denPEs p cls es _ hes, filter_setKey, h1 hp]
      cases hc : cls k with
      | false => simp only [Bool.false_eq_true, if_false, List.filter_cons, hc]
      | true => simp only [if_true, List.filter_cons, hc]; rw [C12.denPEs_cons_ph hp]
    · have hp' : isPhTok k = false := by simpa using hp
      cases hk : keyOfScalar (parseKey k) with
      | none =>
        rw [denPEs_cons_none hp' hk, filter_denPEs p cls es _ hes]
        cases hc : cls k with
        | false => simp only [List.filter_cons, hc, Bool.false_eq_true, if_false]
        | true => simp only [List.filter_cons, hc, if_true]; rw [denPEs_cons_none hp' hk]
      | some key =>
        rw [C12.denPEs_cons hp' hk, filter_denPEs p cls es _ hes, filter_setKey, h2 hp' key hk]
        cases hc : cls k with
        | false => simp only [List.filter_cons, hc, Bool.false_eq_true, if_false]
        | true => simp only [List.filter_cons, hc, if_true]; rw [C12.denPEs_cons hp' hk]

theorem denPEs_phs : ∀ (ids : List Nat) (acc : Entries), (∀ i ∈ ids, i ≤ 999999) → ids.Nodup →
    (∀ i ∈ ids, Key.str (inclPh i) ∉ keys acc) → denPEs (ids.map phSrc) acc = acc ++ ids.map inclE
  | [], acc, _, _, _ => by simp [denPEs]
  | i :: ids, acc, hle, hnd, hfr => by
    obtain ⟨hi, hnd'⟩ := List.nodup_cons.mp hnd
    simp only [List.map_cons, phSrc]
    rw [C12.denPEs_cons_ph (inclPh_tok i).2, C07.setKey_of_not_mem _ _ acc (hfr i (by simp))]
    have := denPEs_phs ids (acc ++ [(.str (inclPh i), .leaf (.str (inclPh i)))]) (fun j hj => hle j (by simp [hj])) hnd' (by
      intro j hj hm
      simp only [keys, List.map_append, List.map_cons, List.map_nil, List.mem_append, List.mem_singleton] at hm
      rcases hm with hm | hm
      · exact hfr j (by simp [hj]) hm
      · have e : inclPh j = inclPh i := by simpa using hm
        have := inclPh_inj (by have := hle j (by simp [hj]); omega) (by have := hle i (by simp); omega) e
        subst this; exact hi hj)
    rw [this]; simp [inclE]

def pB (k : Key) : Bool := match k with | .str x => containsPh kwBlock x | _ => false
def pI (k : Key) : Bool := match k with | .str x => containsPh kwIncl x | _ => false

theorem p_inclPh {i : Nat} (hi : i ≤ 999999) : pB (.str (inclPh i)) = false ∧ pI (.str (inclPh i)) = true := by
  constructor
  · exact C08.containsPh_notin 'M' (by decide) (by
      simp only [inclPh, List.mem_append, not_or]; exact ⟨by decide, C08.padSix_not (by decide) i⟩)
  · exact C08.containsPh_self (by decide) (by
      rw [← List.append_nil (padSix i), C08.digitRun_padSix (by omega)]; rfl)

theorem p_typed {k : Str} {key : Key} (hk : isSrcWord k = true) (h : keyOfScalar (parseKey k) = some key) :
    pB key = false ∧ pI key = false := by
  have := C02.Main.typedKey_noPh hk h
  cases key with
  | int z => exact ⟨rfl, rfl⟩
  | str x =>
    simp only [C07.isPhKey, Bool.or_eq_false_iff] at this
    exact ⟨this.1.1, this.1.2⟩

/-- the hypotheses of the include clause on a document:
    `wf` well formed (hypothesis of the reader side); `top` entries and directives only, the directives at the top level;
    `hc` a counter state that can occur; `nIncl` at most `counterLimit + 1` directives (ids distinct);
    `dist` no two directives with the same text (`_clean` merges those: `C12.incl_clean_merges`);
    `dom` the entries denote a dict in the value domain of C01;
    `names` no file name holds a `$` (the writer would not quote it as a string) or the word `INCLUDE` (a later
    insertion pass could rewrite it) -/
structure HWI (c : Counter) (items : List IItem) : Prop where
  wf : ISrcWFItems 1 items = true
  top : topDoc items = true
  hc : C13.ValidCounter Gen.counterLimit c
  nIncl : (inclsItems items).length ≤ Gen.counterLimit + 1
  dist : ((inclsItems items).map fun p => dirText p.1 p.2).Nodup
  dom : DomC01 .native (denSrcEs (plainIItems items) []) = true
  names : ∀ p ∈ inclsItems items, p.2.contains '$' = false ∧ NoI p.2

/-- the file names of the directives, in document order -/
def namesOf (items : List IItem) : List Str := (inclsItems items).map (·.2)

theorem wf_incl_names : ∀ (items : List IItem) (d : Nat), topDoc items = true → ISrcWFItems d items = true →
    ∀ p ∈ inclsItems items, isInclName p.1 p.2 = true
  | [], _, _, _, p, hp => by simp [inclsItems] at hp
  | .entry k v :: r, d, ht, hw, p, hp => by
    simp only [topDoc, Bool.and_eq_true] at ht
    simp only [ISrcWFItems, Bool.and_eq_true] at hw
    simp only [inclsItems, (label_plainV [] v { c := {counter := none}, icounter := none } ht.1).2, List.nil_append] at hp
    exact wf_incl_names r d ht.2 hw.2 p hp
  | .incl q n :: r, d, ht, hw, p, hp => by
    simp only [topDoc] at ht
    simp only [ISrcWFItems, Bool.and_eq_true] at hw
    simp only [inclsItems, List.mem_cons] at hp
    rcases hp with rfl | hp
    · exact hw.1
    · exact wf_incl_names r d ht hw.2 p hp
  | .lineC x :: r, _, ht, _, _, _ => by simp only [topDoc] at ht; cases ht
  | .blockC x :: r, _, ht, _, _, _ => by simp only [topDoc] at ht; cases ht

theorem zip_lookup (f : (Option Char × Str) → InclEntry) (hf : ∀ q, (f q).file = q.2) :
    ∀ (ids : List Nat) (qs : List (Option Char × Str)), ids.Nodup →
    ∀ p ∈ ids.zip (qs.map (·.2)), ∃ e, Tbl.get? p.1 (ids.zip (qs.map f)) = some e ∧ e.file = p.2
  | [], _, _, p, hp => by simp at hp
  | _ :: _, [], _, p, hp => by simp at hp
  | i :: ids, q :: qs, hnd, p, hp => by
    obtain ⟨hi, hnd'⟩ := List.nodup_cons.mp hnd
    simp only [List.map_cons, List.zip_cons_cons, List.mem_cons] at hp
    rcases hp with rfl | hp
    · exact ⟨f q, by simp [Tbl.get?], hf q⟩
    · obtain ⟨e, he, hfe⟩ := zip_lookup f hf ids qs hnd' p hp
      have hne : ¬ i = p.1 := by
        intro e1
        exact hi (e1 ▸ (List.of_mem_zip hp).1)
      exact ⟨e, by simp only [List.map_cons, List.zip_cons_cons, Tbl.get?, hne, if_false]; exact he, hfe⟩

/-- **the SDict of such a document is one the writer theorem applies to**: no comments, the include entries in front
    after the hoisting (ids in document order), the plain entries behind, the table with the entry of every directive -/
theorem wiok_denI (dir : Str) {c : Counter} {items : List IItem} (H : HWI c items) :
    WIOK (denI dir c items) (alloc Gen.counterLimit (inclsItems items).length c) (namesOf items)
      (denSrcEs (plainIItems items) []) := by
  obtain ⟨t1, t2, t3, t4, t5⟩ := label_top dir items 1
    { c := { counter := c }, icounter := C02.adv Gen.counterLimit (countLineItems items) c } H.top H.wf
  have hadv : C02.adv Gen.counterLimit (countLineItems items) c = c := by rw [t5]; rfl
  rw [hadv] at t1 t2 t3
  have e0 : labelIItems dir { c := { counter := c }, icounter := c } items = labelI dir c items := by
    show _ = labelIItems dir { c := { counter := c }, icounter := C02.adv Gen.counterLimit (countLineItems items) c } items
    rw [hadv]
  rw [e0] at t1 t2 t3
  have htab := C12_incl_table (items := items) dir c H.hc H.nIncl
  rw [hadv] at htab
  have hids_le : ∀ i ∈ alloc Gen.counterLimit (inclsItems items).length c, i ≤ 999999 :=
    fun i hi => C13.alloc_le H.hc _ i hi
  have hids_nd : (alloc Gen.counterLimit (inclsItems items).length c).Nodup := C13.alloc_nodup H.nIncl H.hc
  -- `_clean` does nothing
  have hinj : TblInj (labelI dir c items).1.incl := by
    rw [htab]
    refine tblInj_zip _ _ (nodup_of_map (fun e : InclEntry => e.directive) _ ?_)
    rw [List.map_map]
    exact H.dist
  have hden : denI dir c items =
      ({ data := denPEs (labelI dir c items).2 [], lineC := [], blockC := [], incl := (labelI dir c items).1.incl } : SD) := by
    have e : denI dir c items =
        ({ data := denPEs (labelI dir c items).2 [], lineC := (labelI dir c items).1.c.lineC,
           blockC := (labelI dir c items).1.c.blockC, incl := (labelI dir c items).1.incl } : SD).clean := rfl
    rw [e, t1]
    exact clean_noC _ rfl rfl hinj (denP_nodup _ [] C07.nodupV_nil) (phOK_I dir items 1 _ [] H.wf (by simp only [PhOKEs]))
  -- the classes of the labelled entries
  have hcls : ∀ e ∈ (labelI dir c items).2,
      (isPhTok e.1 = true → ∃ i, i ≤ 999999 ∧ e.1 = inclPh i) ∧ (isPhTok e.1 = false → isSrcWord e.1 = true) := by
    intro e he
    constructor
    · intro hp
      have : e ∈ (labelI dir c items).2.filter (fun e => isPhTok e.1) := List.mem_filter.mpr ⟨he, hp⟩
      rw [t2] at this
      obtain ⟨i, hi, rfl⟩ := List.mem_map.mp this
      exact ⟨i, hids_le i hi, rfl⟩
    · intro hp
      have : e ∈ (labelI dir c items).2.filter (fun e => !isPhTok e.1) := List.mem_filter.mpr ⟨he, by simp [hp]⟩
      rw [t3] at this
      have hwf := t4
      clear t2 t3 he
      generalize plainIItems items = es at this hwf
      induction es with
      | nil => cases this
      | cons e0 es ih =>
        simp only [SrcWFEs, Bool.and_eq_true] at hwf
        rcases List.mem_cons.mp this with rfl | hm
        · exact hwf.1.1.1
        · exact ih hm hwf.2
  have hB := filter_denPEs pB (fun _ => false) (labelI dir c items).2 [] (by
    intro e he
    refine ⟨fun hp => ?_, fun hp key hk => (p_typed ((hcls e he).2 hp) hk).1⟩
    obtain ⟨i, hi, e1⟩ := (hcls e he).1 hp
    rw [e1]; exact (p_inclPh hi).1)
  have hI := filter_denPEs (fun k => !pB k && pI k) isPhTok (labelI dir c items).2 [] (by
    intro e he
    refine ⟨fun hp => ?_, fun hp key hk => ?_⟩
    · obtain ⟨i, hi, e1⟩ := (hcls e he).1 hp
      rw [hp, e1, (p_inclPh hi).1, (p_inclPh hi).2]; rfl
    · rw [hp, (p_typed ((hcls e he).2 hp) hk).1, (p_typed ((hcls e he).2 hp) hk).2]; rfl)
  have hR := filter_denPEs (fun k => !pB k && !pI k) (fun k => !isPhTok k) (labelI dir c items).2 [] (by
    intro e he
    refine ⟨fun hp => ?_, fun hp key hk => ?_⟩
    · obtain ⟨i, hi, e1⟩ := (hcls e he).1 hp
      rw [hp, e1, (p_inclPh hi).1, (p_inclPh hi).2]; rfl
    · rw [hp, (p_typed ((hcls e he).2 hp) hk).1, (p_typed ((hcls e he).2 hp) hk).2]; rfl)
  simp only [List.filter_nil] at hB hI hR
  have hff : ∀ l : SrcEntries, l.filter (fun _ => false) = [] := fun l => by simp
  rw [hff] at hB
  rw [t2, denPEs_phs _ [] hids_le hids_nd (by intro i _ hm; cases hm)] at hI
  rw [t3, C12.denPEs_plain _ 1 [] t4] at hR
  have hhoist : hoistPlaceholders (denPEs (labelI dir c items).2 []) =
      (alloc Gen.counterLimit (inclsItems items).length c).map inclE ++ denSrcEs (plainIItems items) [] := by
    rw [hoist_def]
    show List.filter (fun (e : Key × Val) => pB e.1) _ ++ List.filter (fun (e : Key × Val) => !pB e.1 && pI e.1) _ ++
      List.filter (fun (e : Key × Val) => !pB e.1 && !pI e.1) _ = _
    rw [hB, hI, hR]
    simp [denPEs]
  have hnames := wf_incl_names items 1 H.top H.wf
  refine ⟨by rw [hden], by rw [hden], by rw [hden]; exact hhoist, H.dom, by simp [namesOf, C13.alloc_length], hids_le, ?_, ?_, ?_⟩
  · -- every id has its entry
    rw [hden]
    show ∀ p ∈ (alloc Gen.counterLimit (inclsItems items).length c).zip (namesOf items),
      ∃ e, Tbl.get? p.1 (labelI dir c items).1.incl = some e ∧ e.file = p.2
    rw [htab]
    exact zip_lookup _ (fun _ => rfl) _ _ hids_nd
  · rw [hden]
    show ∀ e ∈ (labelI dir c items).1.incl, _
    rw [htab]
    intro e he
    have h1 := (List.of_mem_zip he).1
    have h2 := (List.of_mem_zip he).2
    obtain ⟨q, hq, e2⟩ := List.mem_map.mp h2
    refine ⟨hids_le _ h1, ?_, ?_⟩
    · rw [← e2]; exact (H.names q hq).1
    · rw [← e2]; exact (H.names q hq).2
  · intro n hn
    simp only [namesOf] at hn
    obtain ⟨q, hq, rfl⟩ := List.mem_map.mp hn
    refine ⟨(H.names q hq).1, fun c hc => ?_⟩
    have hb : isLineBreak c = false := by
      have := quoteName_nobreak (hnames q hq) c
      cases hq1 : q.1 with
      | none => rw [hq1] at this; exact this hc
      | some qq => rw [hq1] at this; exact this (by simp [quoteName, hc])
    constructor
    · rintro rfl; rw [lineBreak_nl_cr.1] at hb; cases hb
    · rintro rfl; rw [lineBreak_nl_cr.2] at hb; cases hb

/-! ## 4d. M2 and M3 for documents -/

/-- **the document that is written** for `items`: the default header, the directives in document order (they are all
    hoisted in front of the entries; names spelled by `qOf`), then the entries in the writer's spelling -/
def writtenDocI (items : List IItem) : List IItem := writtenI (namesOf items) (denSrcEs (plainIItems items) [])

/-- **M2 `C12_write_included`.**  For a document of entries and top-level `#include` directives (no comments; `HWI`), read
    in any directory `dir` from counter `c`: the writer succeeds on the SDict `denI dir c items`, and the text is an
    admissible layout (`GapsOKI`, a line feed put in front for the header comment) of the canonical document
    `writtenDocI items`. -/
theorem C12_write_included (dir : Str) {c : Counter} {items : List IItem} (H : HWI c items) :
    ∃ gaps tail, fmtSD .native (denI dir c items) = some (spreadC (itoksItems (writtenDocI items)) ([] :: gaps) tail) ∧
      GapsOKI (itoksItems (writtenDocI items)) (['\n'] :: gaps) tail = true ∧ tail.all isWs = true :=
  write_incl_layout (wiok_denI dir H)

/-- … and the text itself: header, one line `#include <name>` per directive, the plain text of the entries -/
theorem C12_written_text (dir : Str) {c : Counter} {items : List IItem} (H : HWI c items) :
    fmtSD .native (denI dir c items) =
      some (nativeHeader ++ (((namesOf items).map dirLine).flatMap (· ++ ['\n']) ++
        fmtPlain .native (denSrcEs (plainIItems items) []))) :=
  write_incl_top (wiok_denI dir H)

/-- **M3 `C12_includes_roundtrip`: every `#include` directive is written again and names the same file.**  The text
    written for `denI dir c items`, read from any directory `dir₂` with any valid counter `c₂`, is the document
    `writtenDocI items`; its directives name exactly the files the directives of `items` name, in the same order (the
    `path` of the table entries follows `dir₂`, the `file` does not: `inclEntry`). -/
theorem C12_includes_roundtrip (dir dir₂ : Str) {c c₂ : Counter} {items : List IItem} (H : HWI c items)
    (hc₂ : C13.ValidCounter Gen.counterLimit c₂)
    (hq : C02.countQuotedEs (srcOfEs .native (denSrcEs (plainIItems items) [])) ≤ Gen.counterLimit + 1)
    (hk : C02.DocKeysAbsent (srcOfEs .native (denSrcEs (plainIItems items) []))) :
    ∃ text c', fmtSD .native (denI dir c items) = some text ∧
      parseNative true dir₂ c₂ text = .ok (denI dir₂ c₂ (writtenDocI items), c') ∧
      (inclsItems (writtenDocI items)).map (·.2) = (inclsItems items).map (·.2) ∧
      inclsItems (writtenDocI items) = (inclsItems items).map fun p => (qOf p.2, p.2) := by
  have hnames := wf_incl_names items 1 H.top H.wf
  obtain ⟨text, c', h1, h2, h3⟩ := read_written_incl (wiok_denI dir H) (by
    intro n hn
    simp only [namesOf] at hn
    obtain ⟨q, hq, rfl⟩ := List.mem_map.mp hn
    refine ⟨(inclName_iff.mp (hnames q hq)).1, fun c hc => ?_⟩
    have := quoteName_nobreak (hnames q hq) c
    cases hq1 : q.1 with
    | none => rw [hq1] at this; exact this hc
    | some qq => rw [hq1] at this; exact this (by simp [quoteName, hc])) dir₂ hc₂ hq hk
  refine ⟨text, c', h1, h2, ?_, ?_⟩
  · show (inclsItems (writtenI (namesOf items) _)).map (·.2) = _
    rw [h3]; simp [namesOf, List.map_map]
  · show inclsItems (writtenI (namesOf items) _) = _
    rw [h3]; simp [namesOf, List.map_map]

/-! ## 5. non-vacuity (M4) -/

instance (s : Str) : Decidable (NoI s) := by unfold NoI; infer_instance

/-- a line comment, two entries, `#include 'inc/a'` and `#include "../b c"` (a name with a blank) at the top level -/
def exM : List IItem := [
  .lineC " note".toList,
  .entry ['a'] (.lit (.bare ['1'])),
  .incl (some '\'') "inc/a".toList,
  .entry ['b'] (.lit (.quoted '\'' "x y".toList)),
  .incl (some '"') "../b c".toList]

def exMText : Str := C01.unlines
  ["/*---------------------------------*- C++ -*----------------------------------*\\",
   "filetype dictionary; coding utf-8; version 0.1; local --; purpose --;",
   "\\*----------------------------------------------------------------------------*/",
   "#include 'inc/a'",
   "#include '../b c'",
   "// note",
   "a                             1;",
   "b                             'x y';"]

def exMData : Entries :=
  [ (.str "INCLUDE000001".toList, .leaf (.str "INCLUDE000001".toList)),
    (.str "INCLUDE000002".toList, .leaf (.str "INCLUDE000002".toList)),
    (.str "LINECOMMENT000000".toList, .leaf (.str "LINECOMMENT000000".toList)),
    (.str "a".toList, .leaf (.int 1)),
    (.str "b".toList, .leaf (.str "x y".toList)) ]

/-- the SDict of the example: the include entries hoisted in front (ids 1 and 2: the line comment drew 0) -/
theorem exM_sd : hoistPlaceholders (denI "/d".toList none exM).data = exMData ∧
    (denI "/d".toList none exM).lineC = [(0, "// note".toList)] ∧ (denI "/d".toList none exM).blockC = [] ∧
    (denI "/d".toList none exM).incl =
      [(1, { directive := "#include 'inc/a'".toList, file := "inc/a".toList, path := "/d/inc/a".toList }),
       (2, { directive := "#include \"../b c\"".toList, file := "../b c".toList, path := "/d/../b c".toList })] := by
  decide +kernel

theorem exM_raw : fmtEntries .native 0 exMData = C01.unlines
    ["INCLUDE000001                 INCLUDE000001;",
     "INCLUDE000002                 INCLUDE000002;",
     "LINECOMMENT000000             LINECOMMENT000000;",
     "a                             1;",
     "b                             'x y';"] := by
  simp only [exMData, fmtEntries]
  decide +kernel

/-- by evaluation: the document read in `/d` is written with both directives at the top, under the header, the name with
    the blank in single quotes (the writer's rule; the source had double quotes) -/
theorem exM_written : fmtSD .native (denI "/d".toList none exM) = some exMText := by
  obtain ⟨h1, h2, h3, h4⟩ := exM_sd
  simp only [fmtSD, h1, h2, h3, h4, exM_raw]
  decide +kernel

/-- by evaluation: the written text read in another directory `/e` from counter 3: both directives are there, in order,
    with the same file names (the paths follow the directory) -/
theorem exM_reread :
    (parseNative true "/e".toList (some 3) exMText).toOption.map (fun r => r.1.incl.map fun e => (e.2.file, e.2.path)) =
      some [("inc/a".toList, "/e/inc/a".toList), ("../b c".toList, "/e/../b c".toList)] ∧
    (denI "/d".toList none exM).incl.map (fun e => (e.2.file, e.2.path)) =
      [("inc/a".toList, "/d/inc/a".toList), ("../b c".toList, "/d/../b c".toList)] := by
  constructor <;> decide +kernel

/-- the same document without the comment: through the theorems -/
def exT : List IItem := [
  .entry ['a'] (.lit (.bare ['1'])),
  .incl (some '\'') "inc/a".toList,
  .entry ['b'] (.lit (.quoted '\'' "x y".toList)),
  .incl (some '"') "../b c".toList]

def exTD : Entries := [(.str ['a'], .leaf (.int 1)), (.str ['b'], .leaf (.str "x y".toList))]

theorem exT_incl : (denI "/d".toList none exT).incl =
    [(0, { directive := "#include 'inc/a'".toList, file := "inc/a".toList, path := "/d/inc/a".toList }),
     (1, { directive := "#include \"../b c\"".toList, file := "../b c".toList, path := "/d/../b c".toList })] := by
  decide +kernel

theorem exT_wiok : WIOK (denI "/d".toList none exT) [0, 1] ["inc/a".toList, "../b c".toList] exTD where
  lineC := by decide +kernel
  blockC := by decide +kernel
  hoist := by decide +kernel
  dom := by decide +kernel
  len := rfl
  idsle := by decide
  look := by
    rw [exT_incl]
    intro p hp
    simp only [List.zip_cons_cons, List.zip_nil_right, List.mem_cons, List.not_mem_nil, or_false] at hp
    rcases hp with rfl | rfl
    · exact ⟨_, rfl, rfl⟩
    · exact ⟨_, rfl, rfl⟩
  tbl := by rw [exT_incl]; decide +kernel
  names := by decide +kernel

/-- the example through `read_written_incl`: written, and read again from any directory with any valid counter, the
    document has exactly the two directives, naming the same files -/
theorem exT_roundtrip (dir₂ : Str) {c₂ : Counter} (hc₂ : C13.ValidCounter Gen.counterLimit c₂) :
    ∃ text c', fmtSD .native (denI "/d".toList none exT) = some text ∧
      parseNative true dir₂ c₂ text = .ok (denI dir₂ c₂ (writtenI ["inc/a".toList, "../b c".toList] exTD), c') ∧
      inclsItems (writtenI ["inc/a".toList, "../b c".toList] exTD) =
        [(some '\'', "inc/a".toList), (some '\'', "../b c".toList)] := by
  obtain ⟨text, c', h1, h2, h3⟩ := read_written_incl exT_wiok (by decide +kernel) dir₂ hc₂ (by decide +kernel) (by decide +kernel)
  exact ⟨text, c', h1, h2, by rw [h3]; decide +kernel⟩

theorem exT_hwi : HWI none exT where
  wf := by decide +kernel
  top := by decide +kernel
  hc := Or.inl rfl
  nIncl := by decide +kernel
  dist := by decide +kernel
  dom := by decide +kernel
  names := by decide +kernel

/-- the example through `C12_includes_roundtrip`: read in any directory, written, read again in any directory -/
theorem exT_includes (dir dir₂ : Str) {c₂ : Counter} (hc₂ : C13.ValidCounter Gen.counterLimit c₂) :
    ∃ text c', fmtSD .native (denI dir none exT) = some text ∧
      parseNative true dir₂ c₂ text = .ok (denI dir₂ c₂ (writtenDocI exT), c') ∧
      (inclsItems (writtenDocI exT)).map (·.2) = ["inc/a".toList, "../b c".toList] := by
  obtain ⟨text, c', h1, h2, h3, _⟩ := C12_includes_roundtrip dir dir₂ exT_hwi hc₂ (by decide +kernel) (by decide +kernel)
  exact ⟨text, c', h1, h2, by rw [h3]; decide +kernel⟩

/-- what `dist` cannot prevent: the same file included twice with different quotes.  The two directive texts differ
    (`HWI` holds), both are written `#include x`, and `_clean`, on reading the written file, keeps one table entry. -/
def exTwice : List IItem := [.incl (some '\'') ['x'], .incl (some '"') ['x']]

theorem exTwice_facts : HWI none exTwice ∧
    inclsItems (writtenDocI exTwice) = [(none, ['x']), (none, ['x'])] ∧
    (denI "/e".toList none (writtenDocI exTwice)).incl.map (·.2.file) = [['x']] := by
  refine ⟨⟨by decide +kernel, by decide +kernel, Or.inl rfl, by decide +kernel, by decide +kernel, by decide +kernel,
    by decide +kernel⟩, by decide +kernel, by decide +kernel⟩

end DictIO.C12WI
