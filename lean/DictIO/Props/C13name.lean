/-
  C13 (names) -- `create_target_file_name` on file names, and the placeholder counter.
  Model: `stemOf`/`suffixOf`/`targetName` (Model/Path.lean), `Counter.next`/`alloc`/`rankCanon` (Model/Counter.lean).
  Single file: helper lemmas first, then the property theorems, then non-vacuity examples.
-/
import DictIO.Model.Path
import DictIO.Model.Counter

namespace DictIO.C13
open DictIO

/-! #### specification vocabulary -/

/-- the stem is `parsed` or the prefix itself: the suffix is then kept as part of the file name -/
def specialOf (name : Str) (pfx : Option Str) : Bool :=
  stemOf name == "parsed".toList || (match pfx with | some p => stemOf name == p | none => false)

/-- the file name before the prefix is applied -/
def baseOf (name : Str) (pfx : Option Str) (scope : List Str) : Str :=
  let f := if specialOf name pfx then stemOf name ++ suffixOf name else stemOf name
  if scope.isEmpty then f else f ++ ('_' :: ['_'].intercalate scope)

/-- the file name with the prefix applied (a prefix that is already there is not repeated) -/
def fileNameOf (name : Str) (pfx : Option Str) (scope : List Str) : Str :=
  match pfx with
  | some p => if p.isEmpty then baseOf name pfx scope else
      (removeSuffixDot p ++ ['.']) ++ stripPrefix (removeSuffixDot p ++ ['.']) (baseOf name pfx scope)
  | none => baseOf name pfx scope

/-- the extension -/
def endingOf (special : Bool) (suf : Str) (output : Option Str) : Str :=
  match output with
  | some o => if o.isEmpty then (if special then [] else suf) else
      let o' := if o == "cpp".toList || o == "foam".toList || o == "json".toList || o == "xml".toList then o else "cpp".toList
      if o' == "cpp".toList then [] else '.' :: o'
  | none => if special then [] else suf

theorem targetName_eq (n : Str) (pfx : Option Str) (scope : List Str) (out : Option Str) :
    targetName n pfx scope out = fileNameOf n pfx scope ++ endingOf (specialOf n pfx) (suffixOf n) out := by
  cases pfx <;> cases out <;> rfl


/-- a counter state that can occur: freshly reset, or a value not above the limit -/
def ValidCounter (limit : Nat) (c : Counter) : Prop := c = none ∨ ∃ n, c = some n ∧ n ≤ limit

/-- the id the counter hands out next, before wrapping -/
def startOf : Counter → Nat
  | none => 0
  | some n => n + 1


/-! ## helper lemmas -/

/-! ##### the last dot -/

theorem stem_append_suffix (n : Str) : stemOf n ++ suffixOf n = n := by
  simp only [stemOf, suffixOf]
  cases rfindDot n with
  | none => simp
  | some i => simp only; split <;> simp

theorem findIdx?_skip {p : Char → Bool} {y : Char} (hy : p y = true) (r : Str) :
    ∀ l : Str, (∀ x ∈ l, p x = false) → (l ++ y :: r).findIdx? p = some l.length
  | [], _ => by simp [List.findIdx?_cons, hy]
  | c :: l, h => by
    have hc := h c List.mem_cons_self
    have ih := findIdx?_skip hy r l fun x hx => h x (List.mem_cons_of_mem _ hx)
    simp [List.findIdx?_cons, hc, ih]

/-- a name either has no dot, or splits at its last dot -/
theorem dot_split : ∀ s : Str, '.' ∉ s ∨ ∃ a b, s = a ++ '.' :: b ∧ '.' ∉ b
  | [] => Or.inl (by simp)
  | c :: s => by
    rcases dot_split s with h | ⟨a, b, rfl, hb⟩
    · by_cases hc : c = '.'
      · subst hc; exact Or.inr ⟨[], s, rfl, h⟩
      · refine Or.inl ?_
        simp only [List.mem_cons, not_or]
        exact ⟨fun e => hc e.symm, h⟩
    · exact Or.inr ⟨c :: a, b, rfl, hb⟩

theorem rfindDot_none {s : Str} (h : '.' ∉ s) : rfindDot s = none := by
  have : s.reverse.findIdx? (· == '.') = none := by
    rw [List.findIdx?_eq_none_iff]
    intro x hx
    have hx' : x ∈ s := List.mem_reverse.mp hx
    simp only [beq_eq_false_iff_ne, ne_eq]
    intro e; subst e; exact h hx'
  simp [rfindDot, this]

theorem rfindDot_split (a : Str) {b : Str} (hb : '.' ∉ b) : rfindDot (a ++ '.' :: b) = some a.length := by
  have : (a ++ '.' :: b).reverse.findIdx? (· == '.') = some b.length := by
    have := findIdx?_skip (p := (· == '.')) (y := '.') (by simp) a.reverse b.reverse (by
      intro x hx
      have hx' : x ∈ b := List.mem_reverse.mp hx
      simp only [beq_eq_false_iff_ne, ne_eq]
      intro e; subst e; exact hb hx')
    simpa using this
  simp only [rfindDot, this, List.length_append, List.length_cons]
  congr 1
  omega

theorem suffixOf_no_dot {s : Str} (h : '.' ∉ s) : suffixOf s = [] := by simp [suffixOf, rfindDot_none h]
theorem stemOf_no_dot {s : Str} (h : '.' ∉ s) : stemOf s = s := by simp [stemOf, rfindDot_none h]

theorem suffixOf_split (a : Str) {b : Str} (hb : '.' ∉ b) :
    suffixOf (a ++ '.' :: b) = if a ≠ [] ∧ b ≠ [] then '.' :: b else [] := by
  simp only [suffixOf, rfindDot_split a hb, List.drop_left, List.length_append, List.length_cons]
  have : (0 < a.length ∧ a.length < a.length + (b.length + 1) - 1) ↔ (a ≠ [] ∧ b ≠ []) := by
    rw [← List.length_pos_iff, ← List.length_pos_iff]; omega
  simp only [this]

theorem stemOf_split (a : Str) {b : Str} (hb : '.' ∉ b) :
    stemOf (a ++ '.' :: b) = if a ≠ [] ∧ b ≠ [] then a else a ++ '.' :: b := by
  simp only [stemOf, rfindDot_split a hb, List.take_left, List.length_append, List.length_cons]
  have : (0 < a.length ∧ a.length < a.length + (b.length + 1) - 1) ↔ (a ≠ [] ∧ b ≠ []) := by
    rw [← List.length_pos_iff, ← List.length_pos_iff]; omega
  simp only [this]

/-- the two shapes of a file name: no (pathlib) suffix, or `stem ++ '.' :: ext` with a dot-free non-empty `ext` -/
theorem suffix_cases (n : Str) : (stemOf n = n ∧ suffixOf n = []) ∨
    ∃ a b, n = a ++ '.' :: b ∧ a ≠ [] ∧ b ≠ [] ∧ '.' ∉ b ∧ stemOf n = a ∧ suffixOf n = '.' :: b := by
  rcases dot_split n with h | ⟨a, b, rfl, hb⟩
  · exact Or.inl ⟨stemOf_no_dot h, suffixOf_no_dot h⟩
  · by_cases hab : a ≠ [] ∧ b ≠ []
    · exact Or.inr ⟨a, b, rfl, hab.1, hab.2, hb, by rw [stemOf_split a hb, if_pos hab], by rw [suffixOf_split a hb, if_pos hab]⟩
    · exact Or.inl ⟨by rw [stemOf_split a hb, if_neg hab], by rw [suffixOf_split a hb, if_neg hab]⟩

/-- the stem of a name that starts with `a.` is `a` or starts with `a.` -/
theorem stemOf_dot_prefix (a x : Str) : stemOf (a ++ '.' :: x) = a ∨ (a ++ ['.']) <+: stemOf (a ++ '.' :: x) := by
  rcases dot_split x with h | ⟨x1, b, rfl, hb⟩
  · rw [stemOf_split a h]
    split
    · exact Or.inl rfl
    · exact Or.inr ⟨x, by simp⟩
  · have e : a ++ '.' :: (x1 ++ '.' :: b) = (a ++ '.' :: x1) ++ '.' :: b := by simp
    rw [e, stemOf_split _ hb]
    split
    · exact Or.inr ⟨x1, by simp⟩
    · exact Or.inr ⟨x1 ++ '.' :: b, by simp⟩

theorem getLast?_append_cons {a : Str} (c : Char) {b : Str} (hb : b ≠ []) : (a ++ c :: b).getLast? = b.getLast? := by
  cases b with
  | nil => exact absurd rfl hb
  | cons d b =>
    rw [List.getLast?_append, List.getLast?_cons_cons, List.getLast?_eq_some_getLast (List.cons_ne_nil d b)]
    rfl

/-! ##### `stripPrefix` -/

theorem stripPrefix_append (p x : Str) : stripPrefix p (p ++ x) = x := by
  have : p.isPrefixOf (p ++ x) = true := List.isPrefixOf_iff_prefix.mpr (List.prefix_append _ _)
  simp [stripPrefix, this]

theorem append_stripPrefix {p s : Str} (h : p <+: s) : p ++ stripPrefix p s = s := by
  obtain ⟨x, rfl⟩ := h
  rw [stripPrefix_append]

theorem stripPrefix_of_not_prefix {p s : Str} (h : ¬ p <+: s) : stripPrefix p s = s := by
  have : p.isPrefixOf s = false := by
    rw [Bool.eq_false_iff]; intro e; exact h (List.isPrefixOf_iff_prefix.mp e)
  simp [stripPrefix, this]

/-! ##### literals -/

/-- `"parsed"` -/
abbrev P : Str := ['p', 'a', 'r', 's', 'e', 'd']
/-- `"parsed."` -/
abbrev PD : Str := ['p', 'a', 'r', 's', 'e', 'd', '.']

theorem parsed_lit : "parsed".toList = P := by decide
theorem cpp_lit : "cpp".toList = ['c', 'p', 'p'] := by decide
theorem foam_lit : "foam".toList = ['f', 'o', 'a', 'm'] := by decide
theorem json_lit : "json".toList = ['j', 's', 'o', 'n'] := by decide
theorem xml_lit : "xml".toList = ['x', 'm', 'l'] := by decide

theorem PD_eq : PD = P ++ ['.'] := rfl

/-! ##### `targetName` with the prefix `parsed` and no scope -/

theorem fileNameOf_parsed (n : Str) :
    fileNameOf n (some P) [] = PD ++ stripPrefix PD (if stemOf n = P then n else stemOf n) := by
  have hs := stem_append_suffix n
  simp only [fileNameOf, baseOf, specialOf, parsed_lit, Bool.or_self, beq_iff_eq, List.isEmpty_nil, if_true, hs]
  rfl

theorem specialOf_parsed (n : Str) : specialOf n (some P) = decide (stemOf n = P) := by
  simp only [specialOf, parsed_lit, Bool.or_self]
  by_cases h : stemOf n = P <;> simp [h]

/-- a name that starts with `parsed.` and whose stem is not `parsed` has a stem that starts with `parsed.` -/
theorem PD_prefix_stem {r : Str} (h : PD <+: r) (hs : stemOf r ≠ P) : PD <+: stemOf r := by
  obtain ⟨x, rfl⟩ := h
  have e : PD ++ x = P ++ '.' :: x := rfl
  rw [e] at hs ⊢
  rcases stemOf_dot_prefix P x with h1 | h1
  · exact absurd h1 hs
  · exact h1

/-- for a name that already carries the prefix, file name and kept suffix make up the name again -/
theorem fileNameOf_parsed_fixed {r : Str} (h : PD <+: r) :
    fileNameOf r (some P) [] ++ (if stemOf r = P then [] else suffixOf r) = r := by
  have hs := stem_append_suffix r
  rw [fileNameOf_parsed]
  by_cases hp : stemOf r = P
  · simp only [hp, if_true, List.append_nil]
    exact append_stripPrefix h
  · simp only [hp, if_false]
    rw [append_stripPrefix (PD_prefix_stem h hp), hs]


/-! ##### the extension -/

theorem endingOf_none (sp : Bool) (suf : Str) : endingOf sp suf none = if sp then [] else suf := rfl

theorem endingOf_cpp (sp : Bool) (suf : Str) : endingOf sp suf (some "cpp".toList) = [] := by
  simp [endingOf, cpp_lit]

theorem endingOf_ext (sp : Bool) (suf : Str) {o : Str} (ho : o ∈ ["json".toList, "foam".toList, "xml".toList]) :
    endingOf sp suf (some o) = '.' :: o := by
  simp only [json_lit, foam_lit, xml_lit, List.mem_cons, List.not_mem_nil, or_false] at ho
  rcases ho with rfl | rfl | rfl <;> simp [endingOf, cpp_lit, foam_lit, json_lit, xml_lit]

theorem ext_facts {o : Str} (ho : o ∈ ["json".toList, "foam".toList, "xml".toList]) : o ≠ [] ∧ '.' ∉ o := by
  simp only [json_lit, foam_lit, xml_lit, List.mem_cons, List.not_mem_nil, or_false] at ho
  rcases ho with rfl | rfl | rfl <;> decide

theorem removeSuffixDot_P : removeSuffixDot P ++ ['.'] = PD := by decide

/-! ##### counter -/

theorem alloc_succ (limit k : Nat) (c : Counter) :
    alloc limit (k + 1) c = (Counter.next limit c).1 :: alloc limit k (Counter.next limit c).2 := rfl

theorem alloc_some {limit : Nat} : ∀ (k n : Nat), n ≤ limit →
    alloc limit k (some n) = (List.range k).map fun i => (n + 1 + i) % (limit + 1)
  | 0, _, _ => rfl
  | k + 1, n, hn => by
    rw [alloc_succ, List.range_succ_eq_map, List.map_cons, List.map_map]
    by_cases h : n + 1 > limit
    · have hn1 : n + 1 = limit + 1 := by omega
      simp only [Counter.next, h, if_true]
      rw [alloc_some k 0 (Nat.zero_le _)]
      congr 1
      · simp [hn1]
      · apply List.map_congr_left
        intro i _
        simp only [Function.comp, Nat.succ_eq_add_one]
        rw [show n + 1 + (i + 1) = (limit + 1) + (0 + 1 + i) by omega, Nat.add_mod_left]
    · simp only [Counter.next, h, if_false]
      rw [alloc_some k (n + 1) (by omega)]
      congr 1
      · rw [Nat.add_zero, Nat.mod_eq_of_lt (by omega)]
      · apply List.map_congr_left
        intro i _
        simp only [Function.comp, Nat.succ_eq_add_one]
        rw [show n + 1 + (i + 1) = n + 1 + 1 + i by omega]

/-- the ids handed out are consecutive modulo `limit + 1` -/
theorem alloc_eq_range {limit : Nat} {c : Counter} (hc : ValidCounter limit c) (k : Nat) :
    alloc limit k c = (List.range k).map fun i => (startOf c + i) % (limit + 1) := by
  rcases hc with rfl | ⟨n, rfl, hn⟩
  · cases k with
    | zero => rfl
    | succ k =>
      rw [alloc_succ, List.range_succ_eq_map, List.map_cons, List.map_map]
      simp only [Counter.next, startOf]
      rw [alloc_some k 0 (Nat.zero_le _)]
      congr 1
      apply List.map_congr_left
      intro i _
      simp only [Function.comp, Nat.succ_eq_add_one]
      rw [show 0 + (i + 1) = 0 + 1 + i by omega]
  · exact alloc_some k n hn

/-- `% m` is injective on a window of at most `m` consecutive numbers -/
theorem mod_window_inj {m s a b : Nat} (hab : a < b) (hb : b < m) : (s + a) % m ≠ (s + b) % m := by
  intro e
  have h := Nat.sub_mod_eq_zero_of_mod_eq e.symm
  rw [show s + b - (s + a) = b - a by omega, Nat.mod_eq_of_lt (by omega)] at h
  omega

theorem idxOf_map_injOn {f : Nat → Nat} (i : Nat) : ∀ (l : List Nat), (∀ a ∈ i :: l, ∀ b ∈ i :: l, f a = f b → a = b) →
    (l.map f).idxOf (f i) = l.idxOf i
  | [], _ => rfl
  | x :: l, h => by
    have ih := idxOf_map_injOn i l fun a ha b hb =>
      h a (by rcases List.mem_cons.mp ha with rfl | ha <;> simp [*]) b (by rcases List.mem_cons.mp hb with rfl | hb <;> simp [*])
    rw [List.map_cons, List.idxOf_cons, List.idxOf_cons, ih]
    by_cases e : x = i
    · subst e; rw [beq_self_eq_true, beq_self_eq_true]
    · have : f x ≠ f i := fun e' => e (h x (by simp) i (by simp) e')
      rw [beq_eq_false_iff_ne.mpr e, beq_eq_false_iff_ne.mpr this]

theorem eraseDups_map_injOn {f : Nat → Nat} : ∀ (n : Nat) (l : List Nat), l.length ≤ n →
    (∀ a ∈ l, ∀ b ∈ l, f a = f b → a = b) → (l.map f).eraseDups = l.eraseDups.map f
  | _, [], _, _ => by simp
  | 0, _ :: _, hl, _ => by simp at hl
  | n + 1, x :: l, hl, h => by
    rw [List.map_cons, List.eraseDups_cons, List.eraseDups_cons, List.map_cons, List.filter_map]
    have hf : List.filter ((fun b => !b == f x) ∘ f) l = List.filter (fun b => !b == x) l := by
      apply List.filter_congr
      intro y hy
      simp only [Function.comp]
      by_cases e : y = x
      · subst e; rw [beq_self_eq_true, beq_self_eq_true]
      · have : f y ≠ f x := fun e' => e (h y (List.mem_cons_of_mem _ hy) x List.mem_cons_self e')
        rw [beq_eq_false_iff_ne.mpr e, beq_eq_false_iff_ne.mpr this]
    rw [hf]
    congr 1
    apply eraseDups_map_injOn n
    · have := List.length_filter_le (fun b => !b == x) l
      simp only [List.length_cons] at hl
      omega
    · intro a ha b hb
      exact h a (List.mem_cons_of_mem _ (List.mem_filter.mp ha).1) b (List.mem_cons_of_mem _ (List.mem_filter.mp hb).1)

theorem eraseDups_of_nodup : ∀ {l : List Nat}, l.Nodup → l.eraseDups = l
  | [], _ => by simp
  | a :: l, h => by
    have ⟨ha, hl⟩ := List.nodup_cons.mp h
    rw [List.eraseDups_cons, List.filter_eq_self.mpr, eraseDups_of_nodup hl]
    intro b hb
    have : b ≠ a := fun e => ha (e ▸ hb)
    simp [this]

theorem idxOf_range' : ∀ (k s i : Nat), s ≤ i → i < s + k → (List.range' s k).idxOf i = i - s
  | 0, s, i, h1, h2 => by omega
  | k + 1, s, i, h1, h2 => by
    rw [List.range'_succ, List.idxOf_cons]
    by_cases e : s = i
    · subst e; simp
    · rw [beq_eq_false_iff_ne.mpr e, cond_false, idxOf_range' k (s + 1) i (by omega) (by omega)]; omega

/-! ## the property -/

/-! #### (1) stem and suffix make up the name -/

theorem stem_suffix (n : Str) : stemOf n ++ suffixOf n = n := stem_append_suffix n

/-- a suffix, when there is one, is a dot followed by a non-empty dot-free extension, and the stem is not empty -/
theorem suffix_shape (n : Str) : suffixOf n = [] ∨ ∃ b, suffixOf n = '.' :: b ∧ b ≠ [] ∧ '.' ∉ b ∧ stemOf n ≠ [] := by
  rcases suffix_cases n with ⟨_, h⟩ | ⟨a, b, _, ha, hb, hd, hs, hx⟩
  · exact Or.inl h
  · exact Or.inr ⟨b, hx, hb, hd, by rw [hs]; exact ha⟩

/-! #### (2), (4) the shape of the target name -/

/-- the target name is a file name followed by an extension … -/
theorem targetName_shape (n : Str) (pfx : Option Str) (scope : List Str) (out : Option Str) :
    targetName n pfx scope out = fileNameOf n pfx scope ++ endingOf (specialOf n pfx) (suffixOf n) out :=
  targetName_eq n pfx scope out

/-- (2) … that starts with the prefix and a dot (a trailing dot of the prefix is not doubled) -/
theorem targetName_prefix {pfx : Str} (h : pfx ≠ []) (n : Str) (scope : List Str) (out : Option Str) :
    (removeSuffixDot pfx ++ ['.']) <+: targetName n (some pfx) scope out := by
  have he : pfx.isEmpty = false := by cases pfx <;> simp_all
  rw [targetName_eq]
  simp only [fileNameOf, he, Bool.false_eq_true, if_false]
  exact (List.prefix_append _ _).trans (List.prefix_append _ _)

/-- without a prefix nothing is prepended -/
theorem targetName_no_prefix (n : Str) (scope : List Str) (out : Option Str) :
    targetName n none scope out = baseOf n none scope ++ endingOf (specialOf n none) (suffixOf n) out :=
  targetName_eq n none scope out

/-- (4) output `json`, `foam`, `xml`: the name ends with that extension -/
theorem targetName_ext_eq {o : Str} (ho : o ∈ ["json".toList, "foam".toList, "xml".toList]) (n : Str) (pfx : Option Str)
    (scope : List Str) : targetName n pfx scope (some o) = fileNameOf n pfx scope ++ '.' :: o := by
  rw [targetName_eq, endingOf_ext _ _ ho]

theorem targetName_ext {o : Str} {out : Option Str} (hout : out = some o) (ho : o ∈ ["json".toList, "foam".toList, "xml".toList])
    (n : Str) (pfx : Option Str) (scope : List Str) : ('.' :: o) <:+ targetName n pfx scope out := by
  subst hout
  rw [targetName_ext_eq ho]
  exact List.suffix_append _ _

/-- (4) output `cpp`: no extension at all … -/
theorem targetName_cpp (n : Str) (pfx : Option Str) (scope : List Str) :
    targetName n pfx scope (some "cpp".toList) = fileNameOf n pfx scope := by
  rw [targetName_eq, endingOf_cpp, List.append_nil]

/-- … no output given: the source's suffix is kept (unless it already is part of the file name) -/
theorem targetName_none (n : Str) (pfx : Option Str) (scope : List Str) :
    targetName n pfx scope none = fileNameOf n pfx scope ++ (if specialOf n pfx then [] else suffixOf n) := by
  rw [targetName_eq, endingOf_none]

/-- so the `cpp` name is the default name without the kept suffix -/
theorem targetName_cpp_prefix_none (n : Str) (pfx : Option Str) (scope : List Str) :
    targetName n pfx scope (some "cpp".toList) <+: targetName n pfx scope none := by
  rw [targetName_cpp, targetName_none]
  exact List.prefix_append _ _

/-- an unknown output format is treated as `cpp` -/
theorem targetName_unknown_output {o : Str} (hne : o ≠ [])
    (ho : o ∉ ["cpp".toList, "foam".toList, "json".toList, "xml".toList]) (n : Str) (pfx : Option Str) (scope : List Str) :
    targetName n pfx scope (some o) = fileNameOf n pfx scope := by
  have he : o.isEmpty = false := by cases o <;> simp_all
  simp only [List.mem_cons, List.not_mem_nil, or_false, not_or, cpp_lit, foam_lit, json_lit, xml_lit] at ho
  rw [targetName_eq]
  simp [endingOf, he, cpp_lit, foam_lit, json_lit, xml_lit, ho.1, ho.2.1, ho.2.2.1, ho.2.2.2]

/-! #### (5) the prefix is matched literally -/

/-- regression for a fixed defect (the prefix used to be a regular expression: `.` matched any character) -/
theorem targetName_literal_prefix :
    targetName "parsedXfoo".toList (some "parsed".toList) [] none = "parsed.parsedXfoo".toList := by decide

/-! #### (3) parsing a parsed file targets the same name -/

/-- no output format: a name that carries the prefix is a fixed point -/
theorem targetName_fixed_none {r : Str} (h : PD <+: r) : targetName r (some P) [] none = r := by
  rw [targetName_none, specialOf_parsed]
  simp only [decide_eq_true_eq]
  exact fileNameOf_parsed_fixed h

theorem targetName_idem_none (n : Str) :
    targetName (targetName n (some "parsed".toList) [] none) (some "parsed".toList) [] none
      = targetName n (some "parsed".toList) [] none := by
  rw [parsed_lit]
  apply targetName_fixed_none
  rw [← removeSuffixDot_P]
  exact targetName_prefix (by decide) n [] none

/-- `json`/`foam`/`xml`: a name that carries the prefix and the extension is a fixed point -/
theorem targetName_fixed_ext {o : Str} (ho : o ∈ ["json".toList, "foam".toList, "xml".toList]) (y : Str) :
    targetName (PD ++ y ++ '.' :: o) (some P) [] (some o) = PD ++ y ++ '.' :: o := by
  obtain ⟨hne, hdot⟩ := ext_facts ho
  have hab : (PD ++ y) ≠ [] ∧ o ≠ [] := ⟨by simp, hne⟩
  have hstem : stemOf (PD ++ y ++ '.' :: o) = PD ++ y := by rw [stemOf_split _ hdot, if_pos hab]
  have hnp : PD ++ y ≠ P := by
    intro e
    have := congrArg List.length e
    simp at this
  rw [targetName_ext_eq ho, fileNameOf_parsed, hstem, if_neg hnp, stripPrefix_append]

theorem targetName_idem_ext {o : Str} (ho : o ∈ ["json".toList, "foam".toList, "xml".toList]) (n : Str) :
    targetName (targetName n (some "parsed".toList) [] (some o)) (some "parsed".toList) [] (some o)
      = targetName n (some "parsed".toList) [] (some o) := by
  rw [parsed_lit, targetName_ext_eq ho n, fileNameOf_parsed]
  exact targetName_fixed_ext ho _

/-- what follows `parsed.` in the `cpp` target name: the name without its suffix (with it, when the stem is
    `parsed`) and without a leading `parsed.` -/
def cppRest (n : Str) : Str := stripPrefix PD (if stemOf n = P then n else stemOf n)

/-- the names for which the `cpp` target name is stable: what follows `parsed.` has no dot, or ends in a dot
    (then pathlib sees no suffix in the target name, and a second pass has nothing to cut off) -/
def cppIdemDom (n : Str) : Bool := !(cppRest n).contains '.' || (cppRest n).getLast? == some '.'

theorem targetName_cpp_parsed (n : Str) : targetName n (some P) [] (some "cpp".toList) = PD ++ cppRest n := by
  rw [targetName_cpp, fileNameOf_parsed]; rfl

/-- `cpp`: a name `parsed.x` is a fixed point exactly when `x` has no dot or ends in a dot -/
theorem targetName_fixed_cpp_iff (x : Str) :
    targetName (PD ++ x) (some P) [] (some "cpp".toList) = PD ++ x ↔ ('.' ∉ x ∨ x.getLast? = some '.') := by
  have hfix := fileNameOf_parsed_fixed (r := PD ++ x) (List.prefix_append _ _)
  have h1 : targetName (PD ++ x) (some P) [] (some "cpp".toList) = PD ++ x ↔
      (stemOf (PD ++ x) = P ∨ suffixOf (PD ++ x) = []) := by
    rw [targetName_cpp]
    constructor
    · intro e
      rw [e] at hfix
      by_cases hp : stemOf (PD ++ x) = P
      · exact Or.inl hp
      · rw [if_neg hp] at hfix
        exact Or.inr (List.append_right_eq_self.mp hfix)
    · rintro (hp | hs)
      · rw [if_pos hp, List.append_nil] at hfix; exact hfix
      · rw [hs, ite_self, List.append_nil] at hfix; exact hfix
  rw [h1]
  have e0 : PD ++ x = P ++ '.' :: x := rfl
  rcases dot_split x with h | ⟨a, b, rfl, hb⟩
  · refine iff_of_true ?_ (Or.inl h)
    rw [e0, stemOf_split P h, suffixOf_split P h]
    by_cases hx : x = []
    · right; simp [hx]
    · left; simp [hx]
  · have e1 : PD ++ (a ++ '.' :: b) = (PD ++ a) ++ '.' :: b := by simp
    rw [e1, stemOf_split _ hb, suffixOf_split _ hb]
    by_cases hbe : b = []
    · subst hbe
      refine iff_of_true (Or.inr (by simp)) (Or.inr (by simp))
    · have hab : (PD ++ a) ≠ [] ∧ b ≠ [] := ⟨by simp, hbe⟩
      rw [if_pos hab, if_pos hab]
      refine iff_of_false ?_ ?_
      · rintro (e | e)
        · have := congrArg List.length e
          simp at this
        · cases e
      · rintro (e | e)
        · exact e (by simp)
        · rw [getLast?_append_cons '.' hbe] at e
          exact hb (List.mem_of_getLast? e)


/-- (3, `cpp`) the second pass reproduces the `cpp` target name exactly for the names in `cppIdemDom` -/
theorem targetName_idem_cpp_iff (n : Str) :
    targetName (targetName n (some "parsed".toList) [] (some "cpp".toList)) (some "parsed".toList) [] (some "cpp".toList)
      = targetName n (some "parsed".toList) [] (some "cpp".toList) ↔ cppIdemDom n = true := by
  rw [parsed_lit, targetName_cpp_parsed n, targetName_fixed_cpp_iff]
  simp [cppIdemDom]

/-- a sufficient condition on the source name alone: its stem has no dot (`foo`, `foo.x`, `parsed.x`, `foo.`;
    not `a.b.c`, not the hidden file `.foo`) -/
theorem cppIdemDom_of_plain_stem {n : Str} (h : '.' ∉ stemOf n) : cppIdemDom n = true := by
  have hnp : ¬ PD <+: stemOf n := by
    rintro ⟨x, e⟩
    exact h (by rw [← e]; simp)
  have : '.' ∉ cppRest n := by
    unfold cppRest
    by_cases hp : stemOf n = P
    · rw [if_pos hp]
      rcases suffix_cases n with ⟨hs, _⟩ | ⟨a, b, hn, _, _, hb, hs, _⟩
      · rw [← hs, stripPrefix_of_not_prefix hnp]; exact h
      · rw [hp] at hs
        subst hs
        rw [hn, show P ++ '.' :: b = PD ++ b from rfl, stripPrefix_append]
        exact hb
    · rw [if_neg hp, stripPrefix_of_not_prefix hnp]; exact h
  simp [cppIdemDom, this]

/-- the output formats of `create_target_file_name` -/
def outputs : List (Option Str) := [none, some "cpp".toList, some "foam".toList, some "json".toList, some "xml".toList]

/-- (3) as first stated: for every name and every output format, the target name of a target name is itself -/
def targetName_idem_statement : Prop :=
  ∀ (n : Str) (out : Option Str), out ∈ outputs →
    targetName (targetName n (some "parsed".toList) [] out) (some "parsed".toList) [] out
      = targetName n (some "parsed".toList) [] out

/-- (3) holds for every name without output format and for `foam`/`json`/`xml`; for `cpp` (no extension is
    written) it needs `cppIdemDom n`.  Added hypothesis (decidable), needed by `targetName_idem_cex`. -/
theorem targetName_idem_partial (n : Str) {out : Option Str} (hout : out ∈ outputs)
    (hcpp : out = some "cpp".toList → cppIdemDom n = true) :
    targetName (targetName n (some "parsed".toList) [] out) (some "parsed".toList) [] out
      = targetName n (some "parsed".toList) [] out := by
  simp only [outputs, List.mem_cons, List.not_mem_nil, or_false] at hout
  rcases hout with rfl | rfl | rfl | rfl | rfl
  · exact targetName_idem_none n
  · exact (targetName_idem_cpp_iff n).mpr (hcpp rfl)
  · exact targetName_idem_ext (by simp) n
  · exact targetName_idem_ext (by simp) n
  · exact targetName_idem_ext (by simp) n

/-- with output `cpp`, `a.b.c` ↦ `parsed.a.b` ↦ `parsed.a`: every pass cuts off what pathlib takes for a suffix -/
theorem targetName_idem_cex :
    targetName "a.b.c".toList (some "parsed".toList) [] (some "cpp".toList) = "parsed.a.b".toList ∧
    targetName "parsed.a.b".toList (some "parsed".toList) [] (some "cpp".toList) = "parsed.a".toList := by decide

/-- the same for a hidden file: `.foo` ↦ `parsed..foo` ↦ `parsed.` -/
theorem targetName_idem_cex_hidden :
    targetName ".foo".toList (some "parsed".toList) [] (some "cpp".toList) = "parsed..foo".toList ∧
    targetName "parsed..foo".toList (some "parsed".toList) [] (some "cpp".toList) = "parsed.".toList := by decide

theorem targetName_idem_statement_false : ¬ targetName_idem_statement := by
  intro h
  have := h "a.b.c".toList (some "cpp".toList) (by simp [outputs])
  rw [targetName_idem_cex.1, targetName_idem_cex.2] at this
  revert this
  decide

/-! ### counter -/

section counter


/-- (6a) the counter never exceeds the limit -/
theorem next_le {limit : Nat} {c : Counter} (hc : ValidCounter limit c) : (Counter.next limit c).1 ≤ limit := by
  rcases hc with rfl | ⟨n, rfl, _⟩
  · exact Nat.zero_le _
  · simp only [Counter.next]
    split
    · exact Nat.zero_le _
    · simp only; omega

/-- … and the new state is valid again -/
theorem next_valid {limit : Nat} {c : Counter} (hc : ValidCounter limit c) : ValidCounter limit (Counter.next limit c).2 := by
  rcases hc with rfl | ⟨n, rfl, _⟩
  · exact Or.inr ⟨0, rfl, Nat.zero_le _⟩
  · simp only [Counter.next]
    split
    · exact Or.inr ⟨0, rfl, Nat.zero_le _⟩
    · exact Or.inr ⟨n + 1, rfl, by omega⟩

/-- (6b) `k` ids are handed out -/
theorem alloc_length (limit : Nat) : ∀ (k : Nat) (c : Counter), (alloc limit k c).length = k
  | 0, _ => rfl
  | k + 1, c => by rw [alloc_succ, List.length_cons, alloc_length limit k]

/-- every id handed out is within the limit -/
theorem alloc_le {limit : Nat} {c : Counter} (hc : ValidCounter limit c) (k : Nat) : ∀ i ∈ alloc limit k c, i ≤ limit := by
  rw [alloc_eq_range hc]
  intro i hi
  obtain ⟨j, _, rfl⟩ := List.mem_map.mp hi
  have := Nat.mod_lt (startOf c + j) (show limit + 1 > 0 by omega)
  omega

/-- (6c) up to `limit + 1` successive ids are pairwise distinct, even across the wrap-around -/
theorem alloc_nodup {limit k : Nat} {c : Counter} (hk : k ≤ limit + 1) (hc : c = none ∨ ∃ n, c = some n ∧ n ≤ limit) :
    (alloc limit k c).Nodup := by
  rw [alloc_eq_range hc, List.Nodup, List.pairwise_map]
  refine List.Pairwise.imp_of_mem ?_ List.pairwise_lt_range
  intro a b _ hb hab
  exact mod_window_inj hab (by have := List.mem_range.mp hb; omega)

/-- the bound is sharp: one id more and the first one comes back -/
example : ¬ (alloc 2 4 none).Nodup := by decide

/-- (6d) renaming the ids by a function that is injective on them does not change the canonical form -/
theorem rankCanon_map_injOn {f : Nat → Nat} {ids : List Nat} (h : ∀ a ∈ ids, ∀ b ∈ ids, f a = f b → a = b) :
    rankCanon (ids.map f) = rankCanon ids := by
  simp only [rankCanon, List.map_map]
  rw [eraseDups_map_injOn ids.length ids (Nat.le_refl _) h]
  apply List.map_congr_left
  intro i hi
  simp only [Function.comp]
  apply idxOf_map_injOn
  intro a ha b hb
  have hmem : ∀ x ∈ i :: ids.eraseDups, x ∈ ids := by
    intro x hx
    rcases List.mem_cons.mp hx with rfl | hx
    · exact hi
    · exact List.mem_eraseDups.mp hx
  exact h a (hmem a ha) b (hmem b hb)

/-- (6d) placeholder ids enter the canonical form only through equality -/
theorem rankCanon_map_injective {f : Nat → Nat} (hf : Function.Injective f) (ids : List Nat) :
    rankCanon (ids.map f) = rankCanon ids :=
  rankCanon_map_injOn fun _ _ _ _ e => hf e

theorem rankCanon_alloc {limit k : Nat} {c : Counter} (hk : k ≤ limit + 1) (hc : ValidCounter limit c) :
    rankCanon (alloc limit k c) = rankCanon (List.range k) := by
  rw [alloc_eq_range hc]
  apply rankCanon_map_injOn
  intro a ha b hb e
  have ha' := List.mem_range.mp ha
  have hb' := List.mem_range.mp hb
  rcases Nat.lt_trichotomy a b with h | h | h
  · exact absurd e (mod_window_inj h (by omega))
  · exact h
  · exact absurd e.symm (mod_window_inj h (by omega))

/-- the canonical form of distinct ids is `0, 1, …` -/
theorem rankCanon_range (k : Nat) : rankCanon (List.range k) = List.range k := by
  simp only [rankCanon, eraseDups_of_nodup List.nodup_range]
  rw [List.range_eq_range']
  conv => rhs; rw [← List.map_id (List.range' 0 k)]
  apply List.map_congr_left
  intro i hi
  have := List.mem_range'_1.mp hi
  rw [idxOf_range' k 0 i (by omega) (by omega)]; simp

/-- (6e) the canonical form of freshly drawn placeholders does not depend on where the counter stands -/
theorem rankCanon_alloc_indep {limit k : Nat} {c c' : Counter} (hk : k ≤ limit + 1)
    (hc : ValidCounter limit c) (hc' : ValidCounter limit c') :
    rankCanon (alloc limit k c) = rankCanon (alloc limit k c') := by
  rw [rankCanon_alloc hk hc, rankCanon_alloc hk hc']

end counter

/-! #### non-vacuity -/

section Examples

/-- stem and suffix as pathlib sees them: hidden files and trailing dots have no suffix -/
example : (stemOf "a.b.c".toList, suffixOf "a.b.c".toList) = ("a.b".toList, ".c".toList) := by decide
example : (stemOf ".foo".toList, suffixOf ".foo".toList) = (".foo".toList, []) := by decide
example : (stemOf "foo.".toList, suffixOf "foo.".toList) = ("foo.".toList, []) := by decide

/-- target names: prefix once, scope appended, extension by output -/
example : targetName "test.dict".toList (some "parsed".toList) [] none = "parsed.test.dict".toList := by decide
example : targetName "parsed.test.dict".toList (some "parsed".toList) [] none = "parsed.test.dict".toList := by decide
example : targetName "test.dict".toList (some "parsed".toList) ["a".toList, "1".toList] (some "json".toList)
    = "parsed.test_a_1.json".toList := by decide
example : targetName "test.dict".toList (some "pre.".toList) [] (some "cpp".toList) = "pre.test".toList := by decide
example : targetName "test.dict".toList none [] (some "yaml".toList) = "test".toList := by decide

/-- (3) instantiated -/
example : cppIdemDom "test.dict".toList = true := by decide
example : targetName (targetName "test.dict".toList (some "parsed".toList) [] (some "cpp".toList)) (some "parsed".toList) []
    (some "cpp".toList) = targetName "test.dict".toList (some "parsed".toList) [] (some "cpp".toList) :=
  targetName_idem_partial _ (by simp [outputs]) fun _ => by decide
example : cppIdemDom "a.b.c".toList = false ∧ cppIdemDom ".foo".toList = false ∧ cppIdemDom "a..b".toList = true := by decide

/-- the counter wraps to 0 after the limit … -/
example : alloc 2 3 (some 1) = [2, 0, 1] := by decide
example : Counter.next Gen.counterLimit (some 999999) = (0, some 0) := by decide
/-- … (6c), (6e) instantiated at the generated limit, across the wrap-around -/
example : (alloc Gen.counterLimit 3 (some 999998)).Nodup := alloc_nodup (by decide) (Or.inr ⟨_, rfl, by decide⟩)
example : alloc Gen.counterLimit 3 (some 999998) = [999999, 0, 1] := by decide
example : rankCanon (alloc Gen.counterLimit 3 (some 999998)) = rankCanon (alloc Gen.counterLimit 3 none) :=
  rankCanon_alloc_indep (by decide) (Or.inr ⟨_, rfl, by decide⟩) (Or.inl rfl)
/-- ranks of first appearance -/
example : rankCanon [7, 3, 7, 9] = [0, 1, 0, 2] := by decide

end Examples

end DictIO.C13
