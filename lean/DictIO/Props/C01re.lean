/-
  C01 -- the regular expressions of the library functions this property's model was written against, pinned against the
  table regenerated from the sources on every run (Generated/Regex.lean, harness/extract_regex.py).  A changed pattern
  breaks the `rfl` below: the hand-written recogniser of the model is then no longer justified, and the check searches
  for a failing input.  GENERATED ONCE by tools/mkrepins.py; committed.
-/
import DictIO.Generated.Regex

namespace DictIO.C01.Re
open DictIO.Gen

theorem re_parser_NativeParser__extract_line_comments :
    regexesOf "parser.py" "NativeParser._extract_line_comments" = ["search:(?<!:)/{2}.*$"] := rfl

theorem re_parser_NativeParser__extract_includes :
    regexesOf "parser.py" "NativeParser._extract_includes" = ["search:^\\s*#\\s*include", "sub:(^\\s*#\\s*include\\s*|\\s*$)"] := rfl

theorem re_parser_NativeParser__extract_block_comments :
    regexesOf "parser.py" "NativeParser._extract_block_comments" = ["sub:/\\*[\\w\\W\\d\\D\\s]*?\\*/"] := rfl

theorem re_parser_NativeParser__remove_line_endings_from_block_content :
    regexesOf "parser.py" "NativeParser._remove_line_endings_from_block_content" = ["sub:\\n"] := rfl

theorem re_parser_NativeParser_parse_string :
    regexesOf "parser.py" "NativeParser.parse_string" = ["sub:(BLOCKCOMMENT\\d{6})"] := rfl

theorem re_parser_NativeParser__extract_string_literals :
    regexesOf "parser.py" "NativeParser._extract_string_literals" = ["compile:(?P<q>((?<!\\\\)\\\\{8}['\\\"])|((?<!\\\\)\\\\{6}['\\\"])|((?<!\\\\)\\\\{4}['\\\"])|((?<!\\\\)\\\\{2}['\\\"])|(?<!\\\\)['\\\"]).*?(?P=q)", "finditer:search_pattern=[(?P<q>((?<!\\\\)\\\\{8}['\\\"])|((?<!\\\\)\\\\{6}['\\\"])|((?<!\\\\)\\\\{4}['\\\"])|((?<!\\\\)\\\\{2}['\\\"])|(?<!\\\\)['\\\"]).*?(?P=q)]"] := rfl

theorem re_parser_NativeParser__extract_expressions :
    regexesOf "parser.py" "NativeParser._extract_expressions" = ["findall:search_pattern=[\"[^\"]*\\$.*?\" | \\$\\w[\\w\\[\\]]* | {re.escape(expression)}]", "compile:{re.escape(expression)}", "sub:search_pattern=[\"[^\"]*\\$.*?\" | \\$\\w[\\w\\[\\]]* | {re.escape(expression)}]", "sub:\\\"", "search:search_pattern=[\"[^\"]*\\$.*?\" | \\$\\w[\\w\\[\\]]* | {re.escape(expression)}]"] := rfl

theorem re_parser_NativeParser__separate_delimiters :
    regexesOf "parser.py" "NativeParser._separate_delimiters" = ["sub:(\\{char})", "sub:\\s+"] := rfl

theorem re_parser_NativeParser__convert_block_content_to_tokens :
    regexesOf "parser.py" "NativeParser._convert_block_content_to_tokens" = ["split:\\s"] := rfl

theorem re_parser_NativeParser__parse_tokenized_dict :
    regexesOf "parser.py" "NativeParser._parse_tokenized_dict" = ["match:^.*COMMENT.*$", "match:^.*COMMENT.*$", "match:^.*COMMENT.*$", "match:^.*COMMENT.*$", "match:^.*INCLUDE.*$", "match:^.*COMMENT.*$", "match:^.*INCLUDE.*$"] := rfl

theorem re_parser_NativeParser__parse_tokenized_list :
    regexesOf "parser.py" "NativeParser._parse_tokenized_list" = ["match:^.*COMMENT.*$", "match:^.*COMMENT.*$"] := rfl

theorem re_parser_Parser_parse_value :
    regexesOf "parser.py" "Parser.parse_value" = ["search:^[+-]?\\d+$", "search:^[+-]?(\\d+(\\.\\d*)?|\\.\\d+)$", "search:^[+-]?(\\d+(\\.\\d*)?|\\.\\d+)([eE][-+]?\\d+)?$", "search:^(true)$", "search:^(false)$", "search:^(on)$", "search:^(off)$", "search:^(none)$", "search:^(null)$"] := rfl

theorem re_parser_Parser_remove_quotes_from_string :
    regexesOf "parser.py" "Parser.remove_quotes_from_string" = ["compile:[\\'\\\"]", "compile:(^['\\\"]{1}|['\\\"]{1}$)", "sub:search_pattern=[[\\'\\\"] | (^['\\\"]{1}|['\\\"]{1}$)]"] := rfl

theorem re_dict_SDict__clean_data :
    regexesOf "dict.py" "SDict._clean_data" = ["search:BLOCKCOMMENT\\d{6}", "search:INCLUDE\\d{6}", "search:LINECOMMENT\\d{6}", "findall:\\d{6}", "findall:\\d{6}", "findall:\\d{6}"] := rfl

theorem re_formatter_Formatter_format_string :
    regexesOf "formatter.py" "Formatter.format_string" = ["search:[$]", "search:^\\$\\w[\\w\\[\\]]*$", "search:[\\\"']", "search:[\\s:/\\\\;,{}()<>\\[\\]]|^#(include|$)"] := rfl

theorem re_formatter_NativeFormatter_format_string_with_nested_string :
    regexesOf "formatter.py" "NativeFormatter.format_string_with_nested_string" = ["search:\"", "search:'"] := rfl

theorem re_formatter_NativeFormatter_to_string :
    regexesOf "formatter.py" "NativeFormatter.to_string" = ["search:BLOCKCOMMENT\\d{6}", "search:INCLUDE\\d{6}"] := rfl

theorem re_formatter_NativeFormatter_insert_block_comments :
    regexesOf "formatter.py" "NativeFormatter.insert_block_comments" = ["search:{re.escape(block_comment)}", "findall:search_pattern=[BLOCKCOMMENT{key:06d}\\s+BLOCKCOMMENT{key:06d};]", "sub:search_pattern=[BLOCKCOMMENT{key:06d}\\s+BLOCKCOMMENT{key:06d};]", "sub:\\\\"] := rfl

theorem re_formatter_NativeFormatter_insert_includes :
    regexesOf "formatter.py" "NativeFormatter.insert_includes" = ["sub:search_pattern=[INCLUDE{key:06d}\\s+INCLUDE{key:06d};]"] := rfl

theorem re_formatter_NativeFormatter_insert_line_comments :
    regexesOf "formatter.py" "NativeFormatter.insert_line_comments" = ["sub:search_pattern=[LINECOMMENT{key:06d}\\s+LINECOMMENT{key:06d};]"] := rfl

theorem re_formatter_NativeFormatter_make_default_block_comment :
    regexesOf "formatter.py" "NativeFormatter.make_default_block_comment" = ["search:\\s[Cc]\\+{2}\\s"] := rfl

theorem re_formatter_NativeFormatter_remove_trailing_spaces :
    regexesOf "formatter.py" "NativeFormatter.remove_trailing_spaces" = ["search:[\r\n]*$", "sub:\\s+$"] := rfl

end DictIO.C01.Re
