/-
  C18 -- Relative paths, the highest common root folder, include directives.
  Model (Model/Path.lean): `relPath` (`relative_path`), `joinNorm` (`os.path.normpath(from / rel)`),
  `commonPrefix`/`commonPrefixAll`/`folderOf`/`commonRoot` (`highest_common_root_folder`),
  `includeLine` (`NativeFormatter.insert_includes`), `parseIncludeLine` (`NativeParser._extract_includes`).
  Single file: helper lemmas first, then the property theorems, then non-vacuity examples.
-/
import DictIO.Model.Path

namespace DictIO.C18
open DictIO

/-! #### specification vocabulary -/

/-- the names for which the include directive is claimed to round-trip: non-empty, no line feed, no `$`,
    first and last character neither a quote nor white space, not both kinds of quote -/
def pathDom (name : Str) : Bool :=
  !name.isEmpty && !name.contains '\n' && !name.contains '$' &&
  (match name.head? with | some c => !isQuote c && !isWs c | none => false) &&
  (match name.getLast? with | some c => !isQuote c && !isWs c | none => false) &&
  !(name.contains '\'' && name.contains '"')

def PathDom (name : Str) : Prop := pathDom name = true

instance (name : Str) : Decidable (PathDom name) := by unfold PathDom; infer_instance

/-! ## helper lemmas -/

/-! ##### `commonPrefix` -/

theorem commonPrefix_prefix_left : ∀ a b : Comps, commonPrefix a b <+: a
  | [], _ => by simp [commonPrefix]
  | _ :: _, [] => by simp [commonPrefix]
  | x :: as, y :: bs => by
    by_cases h : x = y
    · simp only [commonPrefix, h, if_true]
      exact List.cons_prefix_cons.mpr ⟨rfl, commonPrefix_prefix_left as bs⟩
    · simp [commonPrefix, h]

theorem commonPrefix_prefix_right : ∀ a b : Comps, commonPrefix a b <+: b
  | [], _ => by simp [commonPrefix]
  | _ :: _, [] => by simp [commonPrefix]
  | x :: as, y :: bs => by
    by_cases h : x = y
    · simp only [commonPrefix, h, if_true]
      exact List.cons_prefix_cons.mpr ⟨rfl, commonPrefix_prefix_right as bs⟩
    · simp [commonPrefix, h]

theorem commonPrefix_max : ∀ (p a b : Comps), p <+: a → p <+: b → p <+: commonPrefix a b
  | [], _, _, _, _ => List.nil_prefix
  | x :: p, [], _, ha, _ => by simp at ha
  | x :: p, _ :: _, [], _, hb => by simp at hb
  | x :: p, y :: as, z :: bs, ha, hb => by
    obtain ⟨rfl, ha'⟩ := List.cons_prefix_cons.mp ha
    obtain ⟨rfl, hb'⟩ := List.cons_prefix_cons.mp hb
    simp only [commonPrefix, if_true]
    exact List.cons_prefix_cons.mpr ⟨rfl, commonPrefix_max p as bs ha' hb'⟩

/-! ##### `commonPrefixAll` -/

theorem commonPrefixAll_cons_cons (p q : Comps) (ps : List Comps) :
    commonPrefixAll (p :: q :: ps) = commonPrefix p (commonPrefixAll (q :: ps)) := rfl

theorem commonPrefixAll_prefix : ∀ (l : List Comps), ∀ p ∈ l, commonPrefixAll l <+: p
  | [], p, h => by simp at h
  | [q], p, h => by
    simp only [List.mem_singleton] at h
    subst h
    exact List.prefix_refl _
  | q :: r :: ps, p, h => by
    rw [commonPrefixAll_cons_cons]
    rcases List.mem_cons.mp h with rfl | hm
    · exact commonPrefix_prefix_left _ _
    · exact (commonPrefix_prefix_right _ _).trans (commonPrefixAll_prefix (r :: ps) p hm)

theorem commonPrefixAll_max (x : Comps) : ∀ (l : List Comps), l ≠ [] → (∀ p ∈ l, x <+: p) → x <+: commonPrefixAll l
  | [], h, _ => absurd rfl h
  | [q], _, h => h q List.mem_cons_self
  | q :: r :: ps, _, h => by
    rw [commonPrefixAll_cons_cons]
    exact commonPrefix_max x _ _ (h q List.mem_cons_self)
      (commonPrefixAll_max x (r :: ps) (by simp) fun p hp => h p (List.mem_cons_of_mem _ hp))

/-! ##### `joinNorm` -/

theorem joinNorm_nil (frm : Comps) : joinNorm frm [] = frm := rfl

theorem joinNorm_append (frm a b : Comps) : joinNorm frm (a ++ b) = joinNorm (joinNorm frm a) b := by
  simp [joinNorm, List.foldl_append]

theorem joinNorm_cons_dotdot (frm rel : Comps) : joinNorm frm (['.', '.'] :: rel) = joinNorm frm.dropLast rel := by
  simp [joinNorm]

theorem joinNorm_cons_plain {c : Str} (h : isDots c = false) (frm rel : Comps) :
    joinNorm frm (c :: rel) = joinNorm (frm ++ [c]) rel := by
  simp only [isDots, Bool.or_eq_false_iff, beq_eq_false_iff_ne, ne_eq] at h
  simp [joinNorm, h.1, h.2]

/-- `n` leading `..` components pop the last `n` components of the start (never below the root) -/
theorem joinNorm_replicate_dotdot : ∀ (n : Nat) (frm : Comps),
    joinNorm frm (List.replicate n ['.', '.']) = frm.take (frm.length - n)
  | 0, frm => by simp [joinNorm]
  | n + 1, frm => by
    rw [List.replicate_succ, joinNorm_cons_dotdot, joinNorm_replicate_dotdot n, List.dropLast_eq_take, List.take_take,
      List.length_take]
    congr 1
    omega

/-- components that are neither `.` nor `..` are pushed -/
theorem joinNorm_plain : ∀ (t frm : Comps), (∀ c ∈ t, isDots c = false) → joinNorm frm t = frm ++ t
  | [], frm, _ => by simp [joinNorm]
  | c :: t, frm, h => by
    rw [joinNorm_cons_plain (h c List.mem_cons_self), joinNorm_plain t _ fun c' hc' => h c' (List.mem_cons_of_mem _ hc')]
    simp

theorem noDots_of_norm {p : Comps} (h : NormComps p) : ∀ c ∈ p, isDots c = false := fun c hc => (h c hc).2.1

theorem norm_append_right {a b : Comps} (h : NormComps (a ++ b)) : NormComps b :=
  fun c hc => h c (List.mem_append_right _ hc)

/-! ##### string literals, white space -/

theorem includeKw_lit : "#include ".toList = ['#', 'i', 'n', 'c', 'l', 'u', 'd', 'e', ' '] := by decide
theorem include_lit : "include".toList = ['i', 'n', 'c', 'l', 'u', 'd', 'e'] := by decide

theorem isWs_space : isWs ' ' = true := by decide
theorem isWs_hash : isWs '#' = false := by decide
theorem isWs_i : isWs 'i' = false := by decide
theorem isWs_sq : isWs '\'' = false := by decide
theorem isWs_dq : isWs '"' = false := by decide
theorem isWs_nl : isWs '\n' = true := by decide

/-! ##### `doubleBackslashes` -/

theorem doubleBackslashes_cons (c : Char) (r : Str) :
    doubleBackslashes (c :: r) = if c = '\\' then '\\' :: '\\' :: doubleBackslashes r else c :: doubleBackslashes r := by
  by_cases h : c = '\\'
  · subst h; simp [doubleBackslashes]
  · simp [doubleBackslashes, h]

/-- doubling only repeats a character that is already there -/
theorem mem_doubleBackslashes (x : Char) : ∀ s : Str, x ∈ doubleBackslashes s ↔ x ∈ s
  | [] => by simp [doubleBackslashes]
  | c :: r => by
    rw [doubleBackslashes_cons]
    by_cases h : c = '\\'
    · subst h; simp [mem_doubleBackslashes x r]
    · simp [h, mem_doubleBackslashes x r]

theorem contains_doubleBackslashes (x : Char) (s : Str) : (doubleBackslashes s).contains x = s.contains x := by
  rw [Bool.eq_iff_iff, List.contains_iff_mem, List.contains_iff_mem, mem_doubleBackslashes]

theorem any_doubleBackslashes (p : Char → Bool) (s : Str) : (doubleBackslashes s).any p = s.any p := by
  rw [Bool.eq_iff_iff, List.any_eq_true, List.any_eq_true]
  simp only [mem_doubleBackslashes]

theorem isEmpty_doubleBackslashes (s : Str) : (doubleBackslashes s).isEmpty = s.isEmpty := by
  cases s with
  | nil => rfl
  | cons c r => rw [doubleBackslashes_cons]; split <;> rfl

/-- a backslash-free prefix is a prefix of the doubled text exactly when it is one of the text -/
theorem isPrefixOf_doubleBackslashes : ∀ (p s : Str), '\\' ∉ p →
    p.isPrefixOf (doubleBackslashes s) = p.isPrefixOf s
  | [], _, _ => by simp
  | _ :: _, [], _ => by simp [doubleBackslashes]
  | a :: p, c :: s, h => by
    have ha : a ≠ '\\' := fun e => h (by simp [e])
    have hp : '\\' ∉ p := fun hm => h (List.mem_cons_of_mem _ hm)
    rw [doubleBackslashes_cons]
    by_cases hc : c = '\\'
    · subst hc
      have : (a == '\\') = false := by simpa using ha
      simp [List.isPrefixOf, this]
    · simp only [hc, if_false, List.isPrefixOf, isPrefixOf_doubleBackslashes p s hp]

theorem eq_hash_doubleBackslashes (s : Str) : (doubleBackslashes s == ['#']) = (s == ['#']) := by
  cases s with
  | nil => rfl
  | cons c r =>
    rw [doubleBackslashes_cons]
    by_cases hc : c = '\\'
    · subst hc
      simp
    · simp only [hc, if_false]
      cases r with
      | nil => simp [doubleBackslashes]
      | cons d r' =>
        have : doubleBackslashes (d :: r') ≠ [] := by
          rw [doubleBackslashes_cons]; split <;> simp
        simp [this]

theorem startsInclude_doubleBackslashes (s : Str) : startsInclude (doubleBackslashes s) = startsInclude s := by
  unfold startsInclude
  rw [isPrefixOf_doubleBackslashes _ s (by decide), eq_hash_doubleBackslashes]

/-! ##### `templateExpand` -/

theorem templateExpand_cons_ne {c : Char} (h : c ≠ '\\') (r : Str) :
    templateExpand (c :: r) = (templateExpand r).map (c :: ·) := by
  rw [templateExpand.eq_4]
  · intro _ hc; exact absurd hc h
  · intro hc; exact absurd hc h

theorem templateExpand_bs_bs (r : Str) : templateExpand ('\\' :: '\\' :: r) = (templateExpand r).map ('\\' :: ·) := by
  simp [templateExpand]

/-- a backslash-free stretch of the template is copied -/
theorem templateExpand_append_plain : ∀ (a b : Str), '\\' ∉ a → templateExpand (a ++ b) = (templateExpand b).map (a ++ ·)
  | [], b, _ => by simp
  | c :: a, b, h => by
    have hc : c ≠ '\\' := fun e => h (by simp [e])
    have ha : '\\' ∉ a := fun hm => h (List.mem_cons_of_mem _ hm)
    rw [List.cons_append, templateExpand_cons_ne hc, templateExpand_append_plain a b ha]
    cases templateExpand b <;> simp

/-- a stretch with every backslash doubled expands to the original -/
theorem templateExpand_double_append : ∀ (s r : Str),
    templateExpand (doubleBackslashes s ++ r) = (templateExpand r).map (s ++ ·)
  | [], r => by simp [doubleBackslashes]
  | c :: s, r => by
    rw [doubleBackslashes_cons]
    by_cases h : c = '\\'
    · subst h
      simp only [if_true, List.cons_append]
      rw [templateExpand_bs_bs, templateExpand_double_append s r]
      cases templateExpand r <;> simp
    · simp only [h, if_false, List.cons_append]
      rw [templateExpand_cons_ne h, templateExpand_double_append s r]
      cases templateExpand r <;> simp

theorem templateExpand_double (s : Str) : templateExpand (doubleBackslashes s) = some s := by
  have := templateExpand_double_append s []
  simpa [templateExpand] using this

/-! ##### `formatString .native` on `$`-free text -/

/-- the quoting decision of `format_string` (Native), as a function of the text alone -/
def wrapOf (s : Str) : Str → Str :=
  if s.isEmpty then sq
  else if s.any isQuote then (if s.contains '"' then sq else dq)
  else if s.any isComplexChar || startsInclude s then sq
  else id

theorem formatString_native_eq {s : Str} (h : s.contains '$' = false) : formatString .native s = wrapOf s s := by
  unfold formatString wrapOf
  rw [h]
  simp only [Bool.false_eq_true, if_false]
  split
  · rfl
  · split
    · split <;> rfl
    · split <;> rfl

/-- doubling the backslashes does not change the quoting decision -/
theorem formatString_native_double {s : Str} (h : s.contains '$' = false) :
    formatString .native (doubleBackslashes s) = wrapOf s (doubleBackslashes s) := by
  rw [formatString_native_eq (by rw [contains_doubleBackslashes]; exact h)]
  unfold wrapOf
  rw [isEmpty_doubleBackslashes, any_doubleBackslashes, any_doubleBackslashes, contains_doubleBackslashes,
    startsInclude_doubleBackslashes]

theorem wrapOf_cases (s : Str) :
    wrapOf s = sq ∨ wrapOf s = dq ∨ (wrapOf s = id ∧ s ≠ [] ∧ s.any isQuote = false ∧ s.any isComplexChar = false) := by
  unfold wrapOf
  split
  · exact Or.inl rfl
  · rename_i hne
    split
    · split
      · exact Or.inl rfl
      · exact Or.inr (Or.inl rfl)
    · rename_i hq
      split
      · exact Or.inl rfl
      · rename_i hc
        refine Or.inr (Or.inr ⟨rfl, ?_, by simpa using hq, by simpa using (by simpa using hc : _ ∧ _).1⟩)
        intro e; subst e; simp at hne

theorem expand_sq {pre : Str} (hp : '\\' ∉ pre) (s : Str) :
    templateExpand (pre ++ sq (doubleBackslashes s)) = some (pre ++ sq s) := by
  rw [templateExpand_append_plain _ _ hp]
  simp only [sq, List.cons_append]
  rw [templateExpand_cons_ne (by decide), templateExpand_double_append]
  simp [templateExpand]

theorem expand_dq {pre : Str} (hp : '\\' ∉ pre) (s : Str) :
    templateExpand (pre ++ dq (doubleBackslashes s)) = some (pre ++ dq s) := by
  rw [templateExpand_append_plain _ _ hp]
  simp only [dq, List.cons_append]
  rw [templateExpand_cons_ne (by decide), templateExpand_double_append]
  simp [templateExpand]

theorem expand_bare {pre : Str} (hp : '\\' ∉ pre) (s : Str) :
    templateExpand (pre ++ doubleBackslashes s) = some (pre ++ s) := by
  rw [templateExpand_append_plain _ _ hp, templateExpand_double]
  rfl

/-- what `insert_includes` writes, after `re.sub` has expanded the replacement template, is the formatted
    *original* name: the doubled backslashes are undone, the quoting class is that of the original -/
theorem expand_formatted {pre : Str} (hp : '\\' ∉ pre) {s : Str} (h : s.contains '$' = false) :
    templateExpand (pre ++ formatString .native (doubleBackslashes s)) = some (pre ++ formatString .native s) := by
  rw [formatString_native_double h, formatString_native_eq h]
  rcases wrapOf_cases s with e | e | ⟨e, _⟩ <;> rw [e]
  · exact expand_sq hp s
  · exact expand_dq hp s
  · exact expand_bare hp s

/-! ##### `removeQuotes` -/

theorem dropEndQuote_append_quote {q : Char} (hq : isQuote q = true) : ∀ s : Str, dropEndQuote (s ++ [q]) = s
  | [] => by simp [dropEndQuote, hq]
  | [c] => by
    have hne : q ≠ '\n' := by intro e; subst e; revert hq; decide
    rw [List.singleton_append, dropEndQuote.eq_4 c [q] (by simp) (by simpa using hne)]
    simp [dropEndQuote, hq]
  | c :: c2 :: s => by
    rw [List.cons_append, dropEndQuote.eq_4 c _ (by simp) (by
      intro e
      have := congrArg List.length e
      simp at this), dropEndQuote_append_quote hq (c2 :: s)]

theorem removeQuotes_sq (s : Str) : removeQuotes (sq s) = s := by
  simp only [sq, List.cons_append, removeQuotes]
  rw [if_pos (by decide)]
  exact dropEndQuote_append_quote (by decide) s

theorem removeQuotes_dq (s : Str) : removeQuotes (dq s) = s := by
  simp only [dq, List.cons_append, removeQuotes]
  rw [if_pos (by decide)]
  exact dropEndQuote_append_quote (by decide) s

theorem dropEndQuote_plain : ∀ t : Str, (∀ c ∈ t, isQuote c = false ∧ c ≠ '\n') → dropEndQuote t = t
  | [], _ => rfl
  | [c], h => by simp [dropEndQuote, (h c (by simp)).1]
  | c :: c2 :: t, h => by
    have h2 := (h c2 (by simp)).2
    rw [dropEndQuote.eq_4 c _ (by simp) (by
      intro e
      simp only [List.cons.injEq] at e
      exact h2 e.1), dropEndQuote_plain (c2 :: t) fun x hx => h x (List.mem_cons_of_mem _ hx)]

/-- text without quotes and without line feed passes `remove_quotes_from_string` unchanged -/
theorem removeQuotes_plain {s : Str} (h : ∀ c ∈ s, isQuote c = false ∧ c ≠ '\n') : removeQuotes s = s := by
  cases s with
  | nil => rfl
  | cons c cs =>
    simp only [removeQuotes, (h c List.mem_cons_self).1, Bool.false_eq_true, if_false]
    exact dropEndQuote_plain _ h

/-! ##### `parseIncludeLine` -/

theorem rstrip_of_last {body : Str} {l : Char} (hl : body.getLast? = some l) (hw : isWs l = false) :
    (body.reverse.dropWhile isWs).reverse = body := by
  obtain ⟨init, rfl⟩ : ∃ init, body = init ++ [l] := by
    refine ⟨body.dropLast, ?_⟩
    have hne : body ≠ [] := by intro e; subst e; simp at hl
    rw [List.getLast?_eq_some_getLast hne] at hl
    simp only [Option.some.injEq] at hl
    rw [← hl, List.dropLast_concat_getLast]
  simp [hw]

/-- a directive whose argument neither starts nor ends with white space is recognised, the argument is unquoted -/
theorem parse_include_body {b l : Char} {bs : Str} (hb : isWs b = false) (hl : (b :: bs).getLast? = some l)
    (hlw : isWs l = false) : parseIncludeLine ("#include ".toList ++ b :: bs) = some (removeQuotes (b :: bs)) := by
  rw [includeKw_lit]
  simp only [parseIncludeLine, include_lit, dropWs, List.cons_append, List.nil_append, List.dropWhile, isWs_hash, isWs_i]
  simp only [List.isPrefixOf, List.drop, beq_self_eq_true, Bool.true_and, if_true, List.dropWhile, isWs_space, hb]
  rw [rstrip_of_last hl hlw]


/-! ## the property -/

/-! #### (1) `relative_path` followed by `normpath(from / ·)` is the identity -/

/-- the target lies below (or is) the start -/
theorem rel_join_below {frm to : Comps} (hto : NormComps to) (hp : frm.isPrefixOf to = true) :
    joinNorm frm (relPath frm to) = to := by
  obtain ⟨t, rfl⟩ := List.isPrefixOf_iff_prefix.mp hp
  simp only [relPath, hp, if_true, List.drop_left]
  exact joinNorm_plain t frm (noDots_of_norm (norm_append_right hto))

/-- the general shape: climb out of what is not shared, then descend -/
theorem rel_join_general {frm to : Comps} (hto : NormComps to) :
    joinNorm frm (List.replicate (frm.length - (commonPrefix frm to).length) ['.', '.'] ++ to.drop (commonPrefix frm to).length) = to := by
  obtain ⟨f', hf⟩ := commonPrefix_prefix_left frm to
  obtain ⟨t', ht⟩ := commonPrefix_prefix_right frm to
  generalize commonPrefix frm to = c at hf ht
  subst hf ht
  rw [joinNorm_append, joinNorm_replicate_dotdot, List.drop_left]
  have : (c ++ f').length - ((c ++ f').length - c.length) = c.length := by simp
  rw [this, List.take_left]
  exact joinNorm_plain t' c (noDots_of_norm (norm_append_right hto))

/-- (1) for normalised absolute paths, `normpath(from / relative_path(from, to)) = to`, wherever `to` lies
    relative to `from` (below, above, beside).  Only `to` needs to be free of `.`/`..` components. -/
theorem rel_join {frm to : Comps} (_hfrm : NormComps frm) (hto : NormComps to) : joinNorm frm (relPath frm to) = to := by
  by_cases hp : frm.isPrefixOf to = true
  · exact rel_join_below hto hp
  · simp only [relPath, hp]
    exact rel_join_general hto

/-! #### (2) `commonPrefix` is the longest common prefix -/

theorem commonPrefix_isPrefix_left (a b : Comps) : commonPrefix a b <+: a := commonPrefix_prefix_left a b
theorem commonPrefix_isPrefix_right (a b : Comps) : commonPrefix a b <+: b := commonPrefix_prefix_right a b
theorem commonPrefix_maximal {p a b : Comps} (ha : p <+: a) (hb : p <+: b) : p <+: commonPrefix a b :=
  commonPrefix_max p a b ha hb

/-! #### (3) `highest_common_root_folder` -/

/-- the result is an ancestor-or-self of every (heuristically determined) folder -/
theorem root_prefix {paths : List Comps} (_h : paths ≠ []) : ∀ p ∈ paths, commonRoot paths <+: folderOf p :=
  fun _ hp => commonPrefixAll_prefix _ _ (List.mem_map_of_mem hp)

/-- no deeper common ancestor exists -/
theorem root_maximal {paths : List Comps} {q : Comps} (h : paths ≠ []) (hq : ∀ p ∈ paths, q <+: folderOf p) :
    q <+: commonRoot paths := by
  refine commonPrefixAll_max q _ (by simpa using h) ?_
  intro p hp
  obtain ⟨p', hp', rfl⟩ := List.mem_map.mp hp
  exact hq p' hp'

/-- the heuristic: a last component with a suffix is taken for a file … -/
theorem folderOf_of_file {d : Comps} {last : Str} (h : suffixOf last ≠ []) : folderOf (d ++ [last]) = d := by
  simp [folderOf, h]

/-- … and one without for a directory -/
theorem folderOf_of_dir {d : Comps} {last : Str} (h : suffixOf last = []) : folderOf (d ++ [last]) = d ++ [last] := by
  simp [folderOf, h]

theorem folderOf_nil : folderOf [] = [] := rfl

/-- known finding D24: a *directory* whose name contains a dot is treated as a file, so the reported root
    is too high: `/x/y.d` is a common ancestor-or-self of `/x/y.d` and `/x/y.d/w`, the result is `/x` -/
theorem root_dotted_dir_too_high :
    commonRoot [["x".toList, "y.d".toList], ["x".toList, "y.d".toList, "w".toList]] = ["x".toList] ∧
    (∀ p ∈ [["x".toList, "y.d".toList], ["x".toList, "y.d".toList, "w".toList]], ["x".toList, "y.d".toList] <+: p) := by
  decide

/-! #### (4) include directives: what is written is read back -/

theorem not_ws_of_not_complex {s : Str} (h : s.any isComplexChar = false) : ∀ c ∈ s, isWs c = false := by
  intro c hc
  have := (List.any_eq_false.mp h) c hc
  simp only [isComplexChar, Bool.or_eq_true, not_or] at this
  simpa using this.1.1.1.1.1.1.1.1.1.1.1.1.1

/-- the text written for an include: the keyword and the formatted *original* name -/
theorem includeLine_eq {name : Str} (h : name.contains '$' = false) :
    includeLine name = some ("#include ".toList ++ formatString .native name) :=
  expand_formatted (by rw [includeKw_lit]; decide) h

/-- the three quoting classes, separately -/
theorem parse_sq (name : Str) : parseIncludeLine ("#include ".toList ++ sq name) = some name := by
  have := parse_include_body (b := '\'') (l := '\'') (bs := name ++ ['\'']) isWs_sq (by simp [List.getLast?_cons]) isWs_sq
  rw [show '\'' :: (name ++ ['\'']) = sq name from rfl, removeQuotes_sq] at this
  exact this

theorem parse_dq (name : Str) : parseIncludeLine ("#include ".toList ++ dq name) = some name := by
  have := parse_include_body (b := '"') (l := '"') (bs := name ++ ['"']) isWs_dq (by simp [List.getLast?_cons]) isWs_dq
  rw [show '"' :: (name ++ ['"']) = dq name from rfl, removeQuotes_dq] at this
  exact this

theorem parse_bare {name : Str} (hne : name ≠ []) (hq : name.any isQuote = false) (hc : name.any isComplexChar = false) :
    parseIncludeLine ("#include ".toList ++ name) = some name := by
  have hws := not_ws_of_not_complex hc
  cases name with
  | nil => exact absurd rfl hne
  | cons b bs =>
    have hl : (b :: bs).getLast? = some ((b :: bs).getLast (by simp)) := List.getLast?_eq_some_getLast _
    rw [parse_include_body (hws b List.mem_cons_self) hl (hws _ (List.getLast_mem _))]
    congr 1
    apply removeQuotes_plain
    intro c hm
    refine ⟨(List.any_eq_false.mp hq) c hm |> fun h => by simpa using h, ?_⟩
    intro e
    subst e
    have := hws _ hm
    rw [isWs_nl] at this
    cases this

/-- (4, strong form) every `$`-free name round-trips through the written directive.  In the model the other
    conjuncts of `PathDom` are not needed: a quoted name is protected by its quotes (only the outermost pair is
    removed on reading), an unquoted one contains no quote and no white space at all (the empty name is written `''`). -/
theorem directive_roundtrip_of_no_dollar {name : Str} (h : name.contains '$' = false) :
    ∃ line, includeLine name = some line ∧ parseIncludeLine line = some name := by
  refine ⟨_, includeLine_eq h, ?_⟩
  rw [formatString_native_eq h]
  rcases wrapOf_cases name with e | e | ⟨e, hne, hq, hc⟩ <;> rw [e]
  · exact parse_sq name
  · exact parse_dq name
  · exact parse_bare hne hq hc

theorem PathDom.no_dollar {name : Str} (h : PathDom name) : name.contains '$' = false := by
  simp only [PathDom, pathDom, Bool.and_eq_true, Bool.not_eq_true'] at h
  exact h.1.1.1.2

/-- (4) the include directive written for `name` is read back as `name` (only the `$`-freeness of `PathDom` is used) -/
theorem directive_roundtrip {name : Str} (h : PathDom name) :
    ∃ line, includeLine name = some line ∧ parseIncludeLine line = some name :=
  directive_roundtrip_of_no_dollar h.no_dollar


/-! #### non-vacuity -/

section Examples

instance (p : Comps) : Decidable (NormComps p) := by unfold NormComps; infer_instance

private def frm0 : Comps := ["w".toList, "s1".toList, "t1".toList]
private def to0 : Comps := ["w".toList, "s2".toList, "t2".toList, "b".toList]

/-- concrete evaluation: a cousin placement needs two `..` -/
example : relPath frm0 to0 = ["..".toList, "..".toList, "s2".toList, "t2".toList, "b".toList] := by decide
example : joinNorm frm0 ["..".toList, "..".toList, "s2".toList, "t2".toList, "b".toList] = to0 := by decide
/-- `normpath` drops `.` and never climbs above the root -/
example : joinNorm ["a".toList] [".".toList, "..".toList, "..".toList, "b".toList] = ["b".toList] := by decide

/-- (1) instantiated (beside), and for a target above and one below the start -/
example : joinNorm frm0 (relPath frm0 to0) = to0 := rel_join (by decide) (by decide)
example : joinNorm frm0 (relPath frm0 ["w".toList]) = ["w".toList] ∧ relPath frm0 ["w".toList] = ["..".toList, "..".toList] :=
  ⟨rel_join (by decide) (by decide), by decide⟩
example : relPath ["w".toList] to0 = ["s2".toList, "t2".toList, "b".toList] := by decide

/-- (1) needs `to` to be normalised: a `..` component inside `to` is not reproduced -/
example : joinNorm [] (relPath [] ["a".toList, "..".toList]) ≠ ["a".toList, "..".toList] := by decide

/-- (2)/(3) instantiated -/
example : commonPrefix frm0 to0 = ["w".toList] := by decide
example : commonRoot [["w".toList, "s1".toList, "a.txt".toList], ["w".toList, "s1".toList, "sub".toList]] = ["w".toList, "s1".toList] := by
  decide
example : ["w".toList] <+: commonRoot [frm0, to0] := root_maximal (by decide) (by decide)

/-- (4) instantiated: a name with a space and a backslash is in the domain, is written single-quoted with
    the backslash intact, and is read back -/
example : PathDom "my dir\\sub.dict".toList := by decide
example : includeLine "my dir\\sub.dict".toList = some "#include 'my dir\\sub.dict'".toList := by decide
example : parseIncludeLine "#include 'my dir\\sub.dict'".toList = some "my dir\\sub.dict".toList := by decide
example : ∃ line, includeLine "my dir\\sub.dict".toList = some line ∧ parseIncludeLine line = some "my dir\\sub.dict".toList :=
  directive_roundtrip (by decide)
/-- the other two classes -/
example : includeLine "a.dict".toList = some "#include a.dict".toList := by decide
example : includeLine "it's".toList = some "#include \"it's\"".toList := by decide
/-- the template expansion is partial: a single backslash is an escape -/
example : templateExpand "a\\b".toList = none := by decide

end Examples

end DictIO.C18
