/-
  C16 -- sequences of writes with arbitrary modes: `C16_fold_statement` of Props/C16.lean, proved.

  An append re-reads the file.  A file the plain-dict route wrote (first write, overwrite) has no header and is read by
  C01 route 2; a file the `SDict` route wrote (append) starts with the header block comment and is read by
  `C01.readFile_dumped` (C12hdr / C01dump): the data comes back with the header placeholder entry in front and the
  header comment in the block-comment table.  The append-merge leaves that entry alone (`mergeD_hdr_cons`), `_clean`
  keeps it (`C12.clean_single_header`), the writer puts the header back (`C12.write_header`).

    `mergeD_hdr_cons`, `norm_mergeD`, `mergeD_top_eq`, `selfRef_dom`     the merge lemmas: header entry untouched; merge of
                                       normalised dicts is normalised; on domain dicts `_recursive_merge` on an `SDict`
                                       (`top = true`, self-reference test) is the plain recursive merge of the specification
    `Good`, `PathOK`, `FileOf`         the invariant: the file holds `e`, written by either route
    `read_any`, `append_any`, `write_any`, `run_any`
    `C16_append_header`                append onto a file the library wrote with header: header kept, data merged
    `C16_fold_full`                    `C16_fold_statement`
    `ex_fold`                          a write, two appends
-/
import DictIO.Props.C01dump
import DictIO.Props.C03
import DictIO.Props.C16

namespace DictIO.C16
open DictIO

attribute [local irreducible] nativeHeader
set_option linter.unusedSimpArgs false
set_option linter.unusedVariables false

/-! ## merge lemmas -/
theorem mstep_hdr_cons (top : Bool) (exprs : Tbl ExprEntry) (t : Entries) {k : Key} (v : Val)
    (hk : k ≠ .str C12.hdrPh) :
    C07.mstep top exprs (C12.hdrEntry :: t) k v = C12.hdrEntry :: C07.mstep top exprs t k v := by
  have hl : lookup k (C12.hdrEntry :: t) = lookup k t := C12.lookup_hdr_cons hk t
  have hs : ∀ x, setKey k x (C12.hdrEntry :: t) = C12.hdrEntry :: setKey k x t := fun x =>
    C12.setKey_cons_ne (fun e => hk e.symm) t
  unfold C07.mstep
  rw [hl]
  split
  · rw [hs]
  · split
    · rw [hs]
    · rfl
  · rfl

/-- the header placeholder entry in front is not touched by a merge with a dict that has no such key -/
theorem mergeD_hdr_cons (top : Bool) (exprs : Tbl ExprEntry) : ∀ (o t : Entries), Key.str C12.hdrPh ∉ keys o →
    mergeD top exprs (C12.hdrEntry :: t) o = C12.hdrEntry :: mergeD top exprs t o
  | [], t, _ => by rw [C07.mergeD_nil, C07.mergeD_nil]
  | (k, v) :: o, t, h => by
    have hk : k ≠ .str C12.hdrPh := fun e => h (by simp [e])
    rw [C07.mergeD_cons, C07.mergeD_cons, mstep_hdr_cons top exprs t v hk]
    exact mergeD_hdr_cons top exprs o _ fun hm => h (by simp [hm])

theorem normEs_append (a b : Entries) : normEs (a ++ b) = normEs a ++ normEs b := by
  induction a with
  | nil => rfl
  | cons e a ih => obtain ⟨k, v⟩ := e; simp [normEs, ih]

theorem norm_of_lookup {k : Key} {v : Val} : ∀ {t : Entries}, normEs t = t → lookup k t = some v → normV v = v
  | [], _, h => by simp [lookup] at h
  | (k', v') :: t, hn, h => by
    simp only [normEs, List.cons.injEq, Prod.mk.injEq, true_and] at hn
    simp only [lookup] at h
    split at h
    · cases h; exact hn.1
    · exact norm_of_lookup hn.2 h

/-- merging normalised dicts gives a normalised dict -/
theorem norm_mergeD (exprs : Tbl ExprEntry) : ∀ (top : Bool) (t o : Entries),
    normEs t = t → normEs o = o → normEs (mergeD top exprs t o) = mergeD top exprs t o := by
  apply C07.mergeD_induct exprs
    (motive := fun top t o => normEs t = t → normEs o = o → normEs (mergeD top exprs t o) = mergeD top exprs t o)
  · intro top t ht _; rw [C07.mergeD_nil]; exact ht
  · intro top t k v o ih1 ih2 ht ho
    simp only [normEs, List.cons.injEq, Prod.mk.injEq, true_and] at ho
    rw [C07.mergeD_cons]
    refine ih2 ?_ ho.2
    unfold C07.mstep
    split
    · next td od hl =>
      have htd : normEs td = td := by
        have := norm_of_lookup ht hl
        simpa [normV] using this
      have hod : normEs od = od := by simpa [normV] using ho.1
      rw [C03.normEs_setKey, ht]
      simp only [normV, ih1 td od hl rfl htd hod]
    · split
      · rw [C03.normEs_setKey, ht, ho.1]
      · exact ht
    · rw [normEs_append, ht]
      simp [normEs, ho.1]

/-- no top-level entry refers to its own key (`$key`, or a comment placeholder `ph ↦ ph`) -/
def NoSelf (exprs : Tbl ExprEntry) (t : Entries) : Prop := ∀ e ∈ t, selfRef exprs e.1 e.2 = false

theorem mstep_top_eq (exprs : Tbl ExprEntry) {t : Entries} (ht : NoSelf exprs t) (k : Key) (v : Val) :
    C07.mstep true exprs t k v = C07.mstep false exprs t k v := by
  have hs : ∀ tv, lookup k t = some tv → selfRef exprs k tv = false :=
    fun tv h => ht (k, tv) (lookup_some_mem h)
  unfold C07.mstep
  split
  · rfl
  · next _ tv hl _ => simp [hs tv hl]
  · rfl

theorem noSelf_mstep (exprs : Tbl ExprEntry) {t : Entries} (ht : NoSelf exprs t) {k : Key} {v : Val}
    (hv : selfRef exprs k v = false) : NoSelf exprs (C07.mstep false exprs t k v) := by
  unfold C07.mstep
  split
  · intro e he
    rcases C07.mem_setKey he with rfl | he
    · exact C07.selfRef_dict _ _ _
    · exact ht e he
  · simpa using ht
  · intro e he
    rcases List.mem_append.mp he with he | he
    · exact ht e he
    · simp only [List.mem_singleton] at he; subst he; exact hv

/-- without self-referring entries the `SDict` merge (`top = true`) is the plain recursive merge -/
theorem mergeD_top_eq (exprs : Tbl ExprEntry) : ∀ (o t : Entries), NoSelf exprs t → NoSelf exprs o →
    mergeD true exprs t o = mergeD false exprs t o
  | [], t, _, _ => by rw [C07.mergeD_nil, C07.mergeD_nil]
  | (k, v) :: o, t, ht, ho => by
    rw [C07.mergeD_cons, C07.mergeD_cons, mstep_top_eq exprs ht]
    exact mergeD_top_eq exprs o _ (noSelf_mstep exprs ht (ho (k, v) (by simp))) fun e he => ho e (by simp [he])

theorem insertExpression_nil (s : Str) : insertExpression [] s = s := by
  unfold insertExpression
  split
  · split
    · rfl
    · rfl
  · rfl

theorem refersTo_no_dollar (ks : Str) {vs : Str} (h : '$' ∉ vs) : refersTo ks vs = false := by
  unfold refersTo
  rw [List.any_eq_false]
  intro t ht
  obtain ⟨a, rfl⟩ := C01.mem_tails.mp ht
  split
  · next r => exact absurd (by simp) h
  · simp

theorem isExactPh_infix {kw s : Str} (h : isExactPh kw s = true) : isInfix kw s = true := by
  simp only [isExactPh, Bool.and_eq_true] at h
  rw [C01.isInfix_iff]
  obtain ⟨r, hr⟩ := List.isPrefixOf_iff_prefix.mp h.1.1
  exact ⟨[], r, by simp [hr]⟩

/-- a domain entry does not refer to its own key -/
theorem selfRef_dom {k : Key} {v : Val} {d : Nat} (hk : isDomKey k = true) (hv : domV .native d v = true) :
    selfRef [] k v = false := by
  cases k with
  | int z => cases v <;> rfl
  | str ks =>
    cases v with
    | dict es => rfl
    | list xs => rfl
    | leaf x =>
      cases x with
      | str vs =>
        simp only [domV, Bool.and_eq_true] at hv
        have hs : isDomStr .native vs = true := hv.1
        obtain ⟨hch, _⟩ := C01.isDomStr_iff.mp hs
        have hnd : '$' ∉ vs := fun hm => (hch _ hm).2 rfl
        simp only [isDomKey, Bool.and_eq_true] at hk
        obtain ⟨_, hc, hi, _⟩ := C01.isSrcWord_iff.mp hk.1.1
        have e1 : isExactPh kwBlock ks = false := by
          cases h : isExactPh kwBlock ks with
          | false => rfl
          | true =>
            have := C01.isInfix_of_append (p := "BLOCK".toList) (q := "COMMENT".toList) (isExactPh_infix h)
            rw [hc] at this; cases this
        have e2 : isExactPh kwIncl ks = false := by
          cases h : isExactPh kwIncl ks with
          | false => rfl
          | true =>
            have := isExactPh_infix h
            rw [show kwIncl = "INCLUDE".toList from rfl, hi] at this; cases this
        have e3 : isExactPh kwLine ks = false := by
          cases h : isExactPh kwLine ks with
          | false => rfl
          | true =>
            have := C01.isInfix_of_append (p := "LINE".toList) (q := "COMMENT".toList) (isExactPh_infix h)
            rw [hc] at this; cases this
        simp only [selfRef, insertExpression_nil, e1, e2, e3, refersTo_no_dollar ks hnd, Bool.or_self, Bool.and_false]
      | _ => rfl

theorem noSelf_dom {e : Entries} (h : DomC01 .native e = true) : NoSelf [] e := by
  simp only [DomC01, Bool.and_eq_true] at h
  have hd := h.1
  clear h
  induction e with
  | nil => intro x hx; cases hx
  | cons a e ih =>
    obtain ⟨k, v⟩ := a
    simp only [domEs, Bool.and_eq_true] at hd
    intro x hx
    rcases List.mem_cons.mp hx with rfl | hx
    · exact selfRef_dom hd.1.1 hd.1.2
    · exact ih hd.2 x hx

/-! ## the states of the file -/

/-- a dict the file may hold: in the value domain, normalised, with the side conditions of C01 -/
structure Good (e : Entries) : Prop where
  dom : DomC01 .native e = true
  norm : normEs e = e
  doc : C01.DocKeysAbsent' e
  cnt : C02.countQuotedEs (srcOfEs .native e) ≤ Gen.counterLimit + 1

/-- the path hypotheses of `C01.C01_roundtrip_file` -/
structure PathOK (target : Comps) : Prop where
  hj : isJsonPath target = false
  hx : isXmlPath target = false
  hr : resolveSpelled target = target

/-- the file holds `e`: written by the plain-dict route (first write, overwrite) or by the `SDict` route (append) -/
def FileOf (e : Entries) (t : Str) : Prop :=
  t = fmtPlain .native e ∨ t = nativeHeader ++ fmtPlain .native e

theorem Good.noPh {e : Entries} (h : Good e) : C07.NoPhEs e := by
  have := (C01.norm_invariants h.dom).1; rwa [h.norm] at this

theorem Good.nodup {e : Entries} (h : Good e) : NodupKeysV (.dict e) := by
  have := (C01.norm_invariants h.dom).2; rwa [h.norm] at this

/-- reading a file the plain-dict route wrote, counter valid afterwards -/
theorem read_plain {e : Entries} {c : Counter} (ev : Str → EvalResult) {target : Comps} (P : PathOK target)
    (h : Good e) (hc : C13.ValidCounter Gen.counterLimit c) :
    ∃ c', C13.ValidCounter Gen.counterLimit c' ∧
      readFile ev [(target, .native (fmtPlain .native e))] {} c target = .ok (.ok { data := e } c') := by
  obtain ⟨c', hv, hp⟩ := C03.read_written_text (c := c) true (pathStr target.dropLast) h.dom h.doc h.cnt hc
  rw [h.norm] at hp
  exact ⟨c', hv, C03.readFile_of_parse ev target _ hp h.noPh h.nodup P.hj P.hx P.hr⟩

/-- reading the file in either state -/
theorem read_any {e : Entries} {t : Str} {c : Counter} (ev : Str → EvalResult) {target : Comps} (P : PathOK target)
    (h : Good e) (hf : FileOf e t) (hc : C13.ValidCounter Gen.counterLimit c) :
    ∃ sd c', C13.ValidCounter Gen.counterLimit c' ∧
      readFile ev [(target, .native t)] {} c target = .ok (.ok sd c') ∧ (sd = { data := e } ∨ sd = C12.hdrSD e) := by
  rcases hf with rfl | rfl
  · obtain ⟨c', hv, hr⟩ := read_plain ev P h hc
    exact ⟨_, c', hv, hr, Or.inl rfl⟩
  · obtain ⟨c', hv, hr⟩ := C01.readFile_dumped (c := c) ev target h.dom h.norm h.doc h.cnt hc P.hj P.hx P.hr
    exact ⟨_, c', hv, hr, Or.inr rfl⟩

theorem dropPh_plain {D : Entries} (hp : C07.NoPhEs D) : C01.dropPhEntries ({ data := D } : SD).data = D :=
  List.filter_eq_self.mpr fun e he => by rw [C12.noPh_keys hp e.1 (List.mem_map_of_mem he)]; rfl

theorem dropPh_any {D : Entries} {sd : SD} (hp : C07.NoPhEs D) (h : sd = { data := D } ∨ sd = C12.hdrSD D) :
    C01.dropPhEntries sd.data = D := by
  rcases h with rfl | rfl
  · exact dropPh_plain hp
  · exact C01.dropPh_hdr hp

/-! ## one append -/

/-- the append-merge on the SDict read from a file with header: the header entry and table stay, the data is merged -/
theorem merge_hdr {e N : Entries} (he : Good e) (hN : DomC01 .native N = true) (hnN : normEs N = N) :
    (C12.hdrSD e).merge (.plain N) = C12.hdrSD (mergeD true [] e N) := by
  have hiN := C01.norm_invariants hN
  rw [hnN] at hiN
  have hd : mergeD true [] (C12.hdrEntry :: e) N = C12.hdrEntry :: mergeD true [] e N :=
    mergeD_hdr_cons true [] N e (C12.hdr_not_mem hiN.1)
  have hp := C07.noPhEs_mergeD [] true e N he.noPh hiN.1
  have hn := C07.nodupV_mergeD [] true e N he.nodup hiN.2.2
  show (({ C12.hdrSD e with data := mergeD true [] (C12.hdrEntry :: e) N } : SD).postMerge (.plain N)).clean = _
  rw [hd]
  exact C12.clean_single_header _ C12.hdrComment _ rfl rfl hp hn

theorem merge_plain {e N : Entries} (he : Good e) (hN : DomC01 .native N = true) (hnN : normEs N = N) :
    ({ data := e } : SD).merge (.plain N) = { data := mergeD true [] e N } := by
  have hiN := C01.norm_invariants hN
  rw [hnN] at hiN
  exact C07.merge_tables_plain { data := e } N (C07.nodupV_mergeD [] true e N he.nodup hiN.2.2)
    (C07.noPhEs_mergeD [] true e N he.noPh hiN.1)

theorem merge_top_false {e N : Entries} (he : Good e) (hN : DomC01 .native N = true) :
    mergeD true [] e N = mergeD false [] e N :=
  mergeD_top_eq [] N e (noSelf_dom he.dom) (noSelf_dom hN)

/-- **append onto a file that holds `e`** (in either state): the file then holds the merge, written by the `SDict`
    route, i.e. with the header (kept if it was there, put in front if not) -/
theorem append_any {e d : Entries} {t : Str} {c : Counter} (ev : Str → EvalResult) {target : Comps} (P : PathOK target)
    (he : Good e) (hf : FileOf e t) (hc : C13.ValidCounter Gen.counterLimit c)
    (hd : DomC01 .native (normEs d) = true)
    (hM : DomC01 .native (mergeD false [] e (normEs d)) = true) :
    ∃ c', C13.ValidCounter Gen.counterLimit c' ∧
      writeStep ev .native target (some t) ['a'] false d c =
        .ok (nativeHeader ++ fmtPlain .native (mergeD false [] e (normEs d)), c') := by
  obtain ⟨sd, c', hv, hr, hsd⟩ := read_any ev P he hf hc
  refine ⟨c', hv, ?_⟩
  have hnN := C01.normEs_idem d
  rw [C16_append_data ev .native target t false d c c' sd hr]
  simp only [Bool.false_eq_true, if_false]
  rcases hsd with rfl | rfl
  · rw [merge_plain he hd hnN, merge_top_false he hd, C12.fmtSD_text]
  · rw [merge_hdr he hd hnN, merge_top_false he hd]
    have := (C12.write_header hM).trans (C12.fmtSD_text _)
    simp only [C12.hdrSD, C12.hdrEntry]
    rw [this]

/-! ## sequences of writes -/

/-- what `C16_fold_statement` assumes about every dict the file holds along the way -/
def StateOK (e : Entries) : Prop :=
  DomC01 .native e = true ∧ C01.DocKeysAbsent' e ∧ C02.countQuotedEs (srcOfEs .native e) ≤ Gen.counterLimit + 1

theorem good_of (e : Entries) (h : StateOK e) (hn : normEs e = e) : Good e := ⟨h.1, hn, h.2.1, h.2.2⟩

/-- the dict the file holds after one more write -/
def nextState (old : Entries) (m : Str) (d : Entries) : Entries :=
  if m == ['a'] then mergeD false [] old (normEs d) else normEs d

theorem specFold_cons (old : Entries) (m : Str) (d : Entries) (ws : List (Str × Entries)) :
    specFold (some old) ((m, d) :: ws) = specFold (some (nextState old m d)) ws := rfl

theorem specStates_cons (old : Entries) (m : Str) (d : Entries) (ws : List (Str × Entries)) :
    specStates (some old) ((m, d) :: ws) = nextState old m d :: specStates (some (nextState old m d)) ws := rfl

theorem nextState_norm {old : Entries} (h : normEs old = old) (m : Str) (d : Entries) :
    normEs (nextState old m d) = nextState old m d := by
  unfold nextState
  split
  · exact norm_mergeD [] false old (normEs d) h (C01.normEs_idem d)
  · exact C01.normEs_idem d

/-- one write onto an existing file that holds `e` -/
theorem write_any {e d : Entries} {t : Str} {c : Counter} (ev : Str → EvalResult) {target : Comps} (P : PathOK target)
    (m : Str) (he : Good e) (hf : FileOf e t) (hc : C13.ValidCounter Gen.counterLimit c)
    (hd : DomC01 .native (normEs d) = true) (hM : DomC01 .native (nextState e m d) = true) :
    ∃ t' c', C13.ValidCounter Gen.counterLimit c' ∧
      writeStep ev .native target (some t) m false d c = .ok (t', c') ∧ FileOf (nextState e m d) t' := by
  by_cases hm : m = ['a']
  · subst hm
    have hM' : DomC01 .native (mergeD false [] e (normEs d)) = true := by simpa [nextState] using hM
    obtain ⟨c', hv, hw⟩ := append_any ev P he hf hc hd hM'
    exact ⟨_, c', hv, hw, Or.inr (by simp [nextState])⟩
  · have hm' : (m == ['a']) = false := by simpa using hm
    refine ⟨_, c, hc, C16_overwrite ev .native target t m false d c hm, Or.inl ?_⟩
    simp [nextState, hm']

/-- a sequence of writes onto an existing file that holds `e` -/
theorem run_any (ev : Str → EvalResult) {target : Comps} (P : PathOK target) :
    ∀ (ws : List (Str × Entries)) (e : Entries) (t : Str) (c : Counter), Good e → FileOf e t →
      C13.ValidCounter Gen.counterLimit c → (∀ s ∈ specStates (some e) ws, StateOK s) →
      (∀ w ∈ ws, DomC01 .native (normEs w.2) = true) →
      ∃ t' c' D, C13.ValidCounter Gen.counterLimit c' ∧
        runWrites ev .native target false (some t) c ws = .ok (some t', c') ∧
        specFold (some e) ws = some D ∧ Good D ∧ FileOf D t'
  | [], e, t, c, he, hf, hc, _, _ => ⟨t, c, e, hc, rfl, rfl, he, hf⟩
  | (m, d) :: ws, e, t, c, he, hf, hc, hs, hw => by
    rw [specStates_cons] at hs
    have hnext : Good (nextState e m d) :=
      good_of _ (hs _ List.mem_cons_self) (nextState_norm he.norm m d)
    obtain ⟨t1, c1, hv1, hw1, hf1⟩ := write_any ev P m he hf hc (hw (m, d) List.mem_cons_self) hnext.dom
    obtain ⟨t', c', D, hv, hrun, hspec, hD, hfD⟩ := run_any ev P ws _ t1 c1 hnext hf1 hv1
      (fun s hs' => hs s (List.mem_cons_of_mem _ hs')) (fun w hw' => hw w (List.mem_cons_of_mem _ hw'))
    refine ⟨t', c', D, hv, ?_, ?_, hD, hfD⟩
    · simp only [runWrites, hw1]; exact hrun
    · rw [specFold_cons]; exact hspec

/-- **C16, sequences of writes** — `C16_fold_statement`, proved.  After any non-empty sequence of writes with arbitrary
    modes to a fresh target, all written dicts and all intermediate results in the value domain, the sequence succeeds
    and reading the file back returns the fold of the specification, up to the header placeholder entry the append
    route writes. -/
theorem C16_fold_full : C16_fold_statement := by
  intro ev target ws c hne hs hw hc hj hx hr
  have P : PathOK target := ⟨hj, hx, hr⟩
  cases ws with
  | nil => exact absurd rfl hne
  | cons w ws =>
    obtain ⟨m, d⟩ := w
    have hs0 : specStates none ((m, d) :: ws) = normEs d :: specStates (some (normEs d)) ws := rfl
    rw [hs0] at hs
    have h0 : Good (normEs d) := good_of _ (hs _ List.mem_cons_self) (C01.normEs_idem d)
    obtain ⟨t', c', D, hv, hrun, hspec, hD, hfD⟩ := run_any ev P ws (normEs d) (fmtPlain .native (normEs d)) c h0
      (Or.inl rfl) hc (fun s hs' => hs s (List.mem_cons_of_mem _ hs')) (fun w hw' => hw w (List.mem_cons_of_mem _ hw'))
    obtain ⟨sd, c₂, _, hread, hsd⟩ := read_any ev P hD hfD hv
    refine ⟨t', c', sd, c₂, D, ?_, hread, hspec, dropPh_any hD.noPh hsd⟩
    simp only [runWrites, C16_new_file]
    exact hrun


/-! ## append onto a file the library wrote with header -/

/-- **append onto a dumped file.**  The file holds the `fmtSD` text of a normalised domain dict `e` (header in front).
    Appending `d` writes the `fmtSD` text of the merge `mergeD true [] e (normEs d)` — the header is kept, not
    doubled — and reading that file returns the merge (with the header placeholder entry and the header comment). -/
theorem C16_append_header {e d : Entries} {c : Counter} (ev : Str → EvalResult) {target : Comps} (P : PathOK target)
    (he : Good e) (hc : C13.ValidCounter Gen.counterLimit c) (hd : DomC01 .native (normEs d) = true)
    (hM : StateOK (mergeD true [] e (normEs d))) :
    ∃ t₀ t₁ c' c'', fmtSD .native { data := e } = some t₀ ∧
      writeStep ev .native target (some t₀) ['a'] false d c = .ok (t₁, c') ∧
      fmtSD .native { data := mergeD true [] e (normEs d) } = some t₁ ∧
      readFile ev [(target, .native t₁)] {} c' target = .ok (.ok (C12.hdrSD (mergeD true [] e (normEs d))) c'') := by
  have htf := merge_top_false he hd
  rw [htf] at hM ⊢
  have hG : Good (mergeD false [] e (normEs d)) :=
    good_of _ hM (norm_mergeD [] false e (normEs d) he.norm (C01.normEs_idem d))
  obtain ⟨c', hv, hw⟩ := append_any ev P he (Or.inr rfl) hc hd hM.1
  obtain ⟨c'', _, hr⟩ := C01.readFile_dumped (c := c') ev target hG.dom hG.norm hG.doc hG.cnt hv P.hj P.hx P.hr
  exact ⟨_, _, c', c'', C12.fmtSD_text e, hw, C12.fmtSD_text _, hr⟩

/-! ## non-vacuity: write `{a: 1}`, append `{b: "2", a: 9}`, append `{c: {x: 1}}` -/

def exWs : List (Str × Entries) :=
  [ (['w'], [(.str ['a'], .leaf (.int 1))]),
    (['a'], [(.str ['b'], .leaf (.str ['2'])), (.str ['a'], .leaf (.int 9))]),
    (['a'], [(.str ['c'], .dict [(.str ['x'], .leaf (.int 1))])]) ]

def exFold : Entries :=
  [(.str ['a'], .leaf (.int 1)), (.str ['b'], .leaf (.int 2)), (.str ['c'], .dict [(.str ['x'], .leaf (.int 1))])]

theorem exWs_spec : specFold none exWs = some exFold := by decide +kernel

theorem ex_fold (ev : Str → EvalResult) :
    ∃ t c₁ sd c₂, runWrites ev .native ["f".toList] false none none exWs = .ok (some t, c₁) ∧
      readFile ev [(["f".toList], .native t)] {} c₁ ["f".toList] = .ok (.ok sd c₂) ∧
      C01.dropPhEntries sd.data = exFold := by
  obtain ⟨t, c₁, sd, c₂, D, h1, h2, h3, h4⟩ := C16_fold_full ev ["f".toList] exWs none (by decide)
    (by decide +kernel) (by decide +kernel) (Or.inl rfl) (by decide) (by decide) (by decide)
  rw [exWs_spec] at h3
  cases h3
  exact ⟨t, c₁, sd, c₂, h1, h2, h4⟩

end DictIO.C16
