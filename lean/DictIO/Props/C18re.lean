/-
  C18 -- the regular expressions of the library functions this property's model was written against, pinned against the
  table regenerated from the sources on every run (Generated/Regex.lean, harness/extract_regex.py).  A changed pattern
  breaks the `rfl` below: the hand-written recogniser of the model is then no longer justified, and the check searches
  for a failing input.  GENERATED ONCE by tools/mkrepins.py; committed.
-/
import DictIO.Generated.Regex

namespace DictIO.C18.Re
open DictIO.Gen

theorem re_parser_NativeParser__extract_includes :
    regexesOf "parser.py" "NativeParser._extract_includes" = ["search:^\\s*#\\s*include", "sub:(^\\s*#\\s*include\\s*|\\s*$)"] := rfl

theorem re_formatter_NativeFormatter_insert_includes :
    regexesOf "formatter.py" "NativeFormatter.insert_includes" = ["sub:search_pattern=[INCLUDE{key:06d}\\s+INCLUDE{key:06d};]"] := rfl

end DictIO.C18.Re
