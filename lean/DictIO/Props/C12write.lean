/-
  C12 -- the WRITER side of the comment round trip, and its composition with the reader side (`C12read`).

  Property C12: "every line comment and block comment of a native source appears in the written output with its exact
  text, line comments in their original relative order and at their original nesting level; the output always begins
  with a header block comment: the source's own if it has one, otherwise the default".

  Main statements (all for the native flavour):

    M1  `fmt_labelled_is_layout`, `fmt_labelled_items`, `lays_entriesX`
          the raw output `fmtEntries .native lvl D` for a dict with comment placeholder entries is an admissible layout
          of `xtoksEs lvl D`; a placeholder entry `PH ↦ PH` is written as the line `<indent>PH<pad>PH;` with
          `pad` = `max 8 (30 - |PH| - 4·lvl)` blanks (`XTok.ph`, `padOf`)
    M2  `subP_layX` (one `re.sub` on a layout), `insertLine_layX`, `insertBlock_layX`, `block_stage`,
        `insert_comments_layout`, `insert_comments_spreadC`
          `insert_block_comments` / `insert_line_comments` replace every placeholder line by its comment, literally;
          the result is `spreadC (ctoksItems (docSD sd)) ([] :: gaps) "\n"` with `GapsOKC … ("\n" :: gaps) "\n"`
        `write_commented`     the same after `remove_trailing_spaces`, for every SDict with `WOK sd`
    M3  `C12_write_commented` `fmtSD .native (denC c items) = some (spreadC (ctoksItems (writtenDoc items)) ([] :: gaps) "\n")`
          under `HW c items`; `writtenDoc items` = default header (unless the document has its own) ++ `canonItems items`;
          `denC_closed` (`denC c items = sdOf c items`: one entry per item, comments in the tables)
    M4  `C12_roundtrip_commented`   reading the written text (any valid counter) gives `denC c₂ (writtenDoc items)`;
          `skel_cnormI`, `writtenDoc_top`: every comment of every level is there, at its place among the entries of
          its level; at top level the block comments stand first, in their order (the writer hoists them)
        `parseNative_nl`      a line feed in front of a text does not matter to the reader
    M5  `exW_hw`, `exW_written`, `exW_layout`, `exW_roundtrip`   non-vacuity, the written text by evaluation
    negative witnesses: `trailing_ws_lost` (finding: trailing white space of a comment is not written),
        `placeholder_in_comment_rewritten`; `C12.D28_header_inside_subdict`, `C12.D32_second_comment_lost`

  The canonical rule (by evaluation of the model, `docEs` / `hoistPlaceholders`, and `cleanRec_gen`): per dict level
  the entries and comments keep their order, except that at the TOP level all block comments are moved in front (in
  their order); keys and scalars are respelled by the writer (`cnormI`).  `_clean` (part of `denC`) removes, per level
  and per kind, every comment entry whose text equals that of an earlier one of the level (`cleanT`, `dedupLvl`,
  `lvl_dedup`: each text once, at its first place).

  Two layers of statements:
    * no level repeats a comment (`HW c items`; `_clean` changes nothing: `clean_fix`, `denC_closed`):
        `C12_write_commented`, `C12_roundtrip_commented`, example `exW…`;
    * comments may repeat (`HW2 c items`; `cleanRec_gen`: `_clean` in general, `denC_closed2`, `kept_blocks`):
        `C12_write_commented2`, `C12_roundtrip_commented2` with `writtenDoc2 items` = header ++ `canonItems (dedupI items)`,
        example `exDup…` (the SDict by evaluation: the repeated comments are gone from data and tables).

  Hypotheses `HW c items` / `HW2 c items` (all decidable but the counter's validity):
    `wf`     `CSrcWFItems 1 items` (hypothesis of the reader side)
    `ok`     keys and scalars in the value domain of C01 (`isDomKey`, `isDomScalar`, `domXs`), and for every comment:
             `lineTextOK` / `blockTextOK`: no trailing white space on any line and no carriage return (otherwise
             `remove_trailing_spaces` changes the text: `trailing_ws_lost`), no word `LINECOMMENTdddddd` /
             `BLOCKCOMMENTdddddd` inside (otherwise a later insertion pass rewrites it: `placeholder_in_comment_rewritten`)
    `lev`, `levs` (HW) / `keys`, `keysAll` (HW2)  at every level the typed keys are pairwise distinct (a later duplicate
             key overwrites the earlier entry and the comments inside it); HW only: no line comment twice, no block
             comment twice at one level
    `nLine`, `nBlock`, `hc`  at most `counterLimit + 1` line comments (ids distinct), at most 10^6 block comments,
             a counter state that can occur
    `first`  the first block comment of the document stands at the top level (else D28)
    `indep`  no block comment text (of the document without repetitions) occurs inside the concatenation of the block
             comments written before it (the first one completed by the default header) — exactly the test
             `bc in sofar` of `insert_block_comments` (else D32)
-/
import DictIO.Props.C12read
import DictIO.Props.C12hdr

namespace DictIO.C12W
open DictIO

set_option linter.unusedSimpArgs false
set_option linter.unusedVariables false
set_option linter.unusedSectionVars false

/-! ## 1. layouts of writer tokens -/

/-- what the writer emits between gaps: a source token, a comment (`full` = the complete text, delimiters included),
    or a placeholder entry line `PH<pad>PH;` that still waits for its comment -/
inductive XTok where
  | tok (t : STok)
  | cmt (line : Bool) (full : Str)
  | ph (line : Bool) (i : Nat) (pad : Str)
  deriving Repr, Inhabited

/-- the placeholder word: `LINECOMMENT%06d` / `BLOCKCOMMENT%06d` -/
def phWord (line : Bool) (i : Nat) : Str := (if line then kwLine else kwBlock) ++ padSix i

def XTok.text : XTok → Str
  | .tok t => t.text
  | .cmt _ full => full
  | .ph l i pad => phWord l i ++ pad ++ phWord l i ++ [';']

/-- what stands in front of a gap -/
inductive Ctx where
  | cov   -- the text in front ends with a line feed that belongs to the gap (or: nothing in front; see `okX_start`)
  | dl    -- a delimiter token
  | wd    -- a token that is no delimiter
  | ln    -- a line comment (or the placeholder line of one)
  | bk    -- a block comment (or the placeholder line of one)
  deriving DecidableEq, Repr

def isCommentX : XTok → Bool
  | .tok _ => false
  | _ => true

def ctxAfter : XTok → Ctx
  | .tok t => if isDelimSTok t then .dl else .wd
  | .cmt true _ => .ln
  | .cmt false _ => .bk
  | .ph true _ _ => .ln
  | .ph false _ _ => .bk

def isDelimX : XTok → Bool
  | .tok t => isDelimSTok t
  | _ => false

/-- the condition on the gap in front of token `t`, given what stands in front of the gap -/
def gapOK : Ctx → XTok → Str → Bool
  | .cov, _, _ => true
  | .dl, t, g => !isCommentX t || !g.isEmpty
  | .wd, t, g => isDelimX t || !g.isEmpty
  | .bk, _, g => !g.isEmpty
  | .ln, _, g => g.head? == some '\n'

def layX : List (Str × XTok) → Str → Str
  | [], tail => tail
  | (g, t) :: l, tail => g ++ t.text ++ layX l tail

def okX (c : Ctx) : List (Str × XTok) → Bool
  | [] => true
  | (g, t) :: l => g.all isWs && gapOK c t g && okX (ctxAfter t) l

def lastCtx (c : Ctx) : List XTok → Ctx
  | [] => c
  | t :: ts => lastCtx (ctxAfter t) ts

theorem layX_tail : ∀ (l : List (Str × XTok)) (tail : Str), layX l tail = layX l [] ++ tail
  | [], _ => rfl
  | (g, t) :: l, tail => by simp only [layX, layX_tail l tail, List.append_assoc]

theorem layX_append (l1 l2 : List (Str × XTok)) (tail : Str) : layX (l1 ++ l2) tail = layX l1 [] ++ layX l2 tail := by
  induction l1 with
  | nil => rfl
  | cons p l1 ih => obtain ⟨g, t⟩ := p; simp only [List.cons_append, layX, ih, List.append_assoc]

theorem lastCtx_append (c : Ctx) (ts us : List XTok) : lastCtx c (ts ++ us) = lastCtx (lastCtx c ts) us := by
  induction ts generalizing c with
  | nil => rfl
  | cons t ts ih => simp only [List.cons_append, lastCtx, ih]

theorem okX_append (c : Ctx) (l1 l2 : List (Str × XTok)) :
    okX c (l1 ++ l2) = (okX c l1 && okX (lastCtx c (l1.map Prod.snd)) l2) := by
  induction l1 generalizing c with
  | nil => simp [okX, lastCtx]
  | cons p l1 ih => obtain ⟨g, t⟩ := p; simp only [List.cons_append, okX, ih, List.map_cons, lastCtx, Bool.and_assoc]

/-- a gap that starts with a line feed satisfies every condition -/
theorem gapOK_nl (c : Ctx) (t : XTok) (g : Str) : gapOK c t ('\n' :: g) = true := by
  cases c <;> simp [gapOK]

/-- a non-empty gap satisfies every condition except the one behind a line comment -/
theorem gapOK_ne {c : Ctx} (hc : c ≠ .ln) (t : XTok) {g : Str} (hg : g ≠ []) : gapOK c t g = true := by
  cases c <;> simp_all [gapOK]

/-- `txt` is the layout of the tokens `xs` with final gap `tail`, admissible given what stands in front -/
def LaysX (c : Ctx) (xs : List XTok) (txt tail : Str) : Prop :=
  ∃ l, l.map Prod.snd = xs ∧ txt = layX l tail ∧ okX c l = true ∧ tail.all isWs = true

theorem LaysX.tok (c : Ctx) {g tail : Str} (t : XTok) (hg : g.all isWs = true) (ht : tail.all isWs = true)
    (hok : gapOK c t g = true) : LaysX c [t] (g ++ t.text ++ tail) tail :=
  ⟨[(g, t)], rfl, rfl, by simp [okX, hg, hok], ht⟩

/-- concatenation: the final gap of the first text joins the first gap of the second -/
theorem LaysX.append {c c2 : Ctx} {xs ys : List XTok} {a b t1 t2 : Str} (ha : LaysX c xs a t1) (hb : LaysX c2 ys b t2)
    (hne : ys ≠ [])
    (hc : ∀ u g, g.all isWs = true → gapOK c2 u g = true → gapOK (lastCtx c xs) u (t1 ++ g) = true) :
    LaysX c (xs ++ ys) (a ++ b) t2 := by
  obtain ⟨l1, rfl, rfl, ok1, ht1⟩ := ha
  obtain ⟨l2, rfl, rfl, ok2, ht2⟩ := hb
  cases l2 with
  | nil => exact absurd rfl hne
  | cons p l2 =>
    obtain ⟨g, t⟩ := p
    refine ⟨l1 ++ (t1 ++ g, t) :: l2, by simp, ?_, ?_, ht2⟩
    · rw [layX_append, layX_tail l1 t1]
      simp [layX]
    · rw [okX_append, ok1, Bool.true_and]
      simp only [okX, Bool.and_eq_true, List.all_append] at ok2 ⊢
      exact ⟨⟨⟨ht1, ok2.1.1⟩, hc t g ok2.1.1 ok2.1.2⟩, ok2.2⟩

/-- the same when the second text holds no token: it is all gap -/
theorem LaysX.append_nil {c c2 : Ctx} {xs : List XTok} {a b t1 t2 : Str} (ha : LaysX c xs a t1) (hb : LaysX c2 [] b t2) :
    LaysX c xs (a ++ b) (t1 ++ t2) := by
  obtain ⟨l1, rfl, rfl, ok1, ht1⟩ := ha
  obtain ⟨l2, h2, rfl, ok2, ht2⟩ := hb
  cases l2 with
  | cons p l2 => cases h2
  | nil =>
    refine ⟨l1, rfl, ?_, ok1, by simp [ht1, ht2]⟩
    rw [layX_tail l1 t1, layX_tail l1 (t1 ++ t2)]
    simp [layX]

/-! ### layouts of source tokens (`C01.Lays`) are layouts of writer tokens -/

def liftP (l : List (Str × STok)) : List (Str × XTok) := l.map fun p => (p.1, XTok.tok p.2)

theorem layX_lift : ∀ (l : List (Str × STok)) (tail : Str), layX (liftP l) tail = C01.layP l tail
  | [], _ => rfl
  | (g, t) :: l, tail => by
    have := layX_lift l tail
    simp only [liftP] at this
    simp only [liftP, List.map_cons, layX, C01.layP, XTok.text, this]

theorem okX_lift : ∀ (l : List (Str × STok)) (pd : Bool) (c : Ctx), C01.okFrom pd l = true →
    (c = .cov ∨ (c = .dl ∧ pd = true) ∨ (c = .wd ∧ pd = false) ∨ (c = .dl ∧ pd = false)) → okX c (liftP l) = true
  | [], _, _, _, _ => rfl
  | (g, t) :: l, pd, c, h, hc => by
    simp only [C01.okFrom, Bool.and_eq_true, Bool.or_eq_true, Bool.not_eq_true'] at h
    have ih := okX_lift l (isDelimSTok t) (ctxAfter (.tok t)) h.2 (by
      cases hd : isDelimSTok t <;> simp [ctxAfter, hd])
    simp only [liftP] at ih
    simp only [liftP, List.map_cons, okX, Bool.and_eq_true, ih, and_true, h.1.1, true_and]
    rcases hc with rfl | ⟨rfl, rfl⟩ | ⟨rfl, rfl⟩ | ⟨rfl, rfl⟩
    · rfl
    · simp [gapOK, isCommentX]
    · simp only [gapOK, isDelimX, Bool.or_eq_true, Bool.not_eq_true']
      rcases h.1.2 with (h' | h') | h'
      · cases h'
      · exact Or.inl h'
      · exact Or.inr h'
    · simp [gapOK, isCommentX]

theorem LaysX.of_lays {pd : Bool} {ts : List STok} {txt : Str} (c : Ctx) (h : C01.Lays pd ts txt)
    (hc : c = .cov ∨ (c = .dl ∧ pd = true) ∨ (c = .wd ∧ pd = false) ∨ (c = .dl ∧ pd = false)) :
    ∃ tail, LaysX c (ts.map .tok) txt tail := by
  obtain ⟨l, tail, rfl, rfl, ok, ht⟩ := h
  refine ⟨tail, liftP l, by simp [liftP], (layX_lift l tail).symm, okX_lift l pd c ok hc, ht⟩

theorem lastCtx_toks (c : Ctx) : ∀ (ts : List STok), lastCtx c (ts.map XTok.tok) = c ∨
    lastCtx c (ts.map XTok.tok) = .dl ∨ lastCtx c (ts.map XTok.tok) = .wd
  | [] => Or.inl rfl
  | t :: ts => by
    simp only [List.map_cons, lastCtx]
    rcases lastCtx_toks (ctxAfter (.tok t)) ts with h | h | h
    · rw [h]; cases hd : isDelimSTok t <;> simp [ctxAfter, hd]
    · exact Or.inr (Or.inl h)
    · exact Or.inr (Or.inr h)

/-! ## 2. what the writer emits for a dict with placeholder entries (M1) -/

/-- a text that ends with a full line: the layout of `xs`, final gap exactly one line feed (or nothing at all) -/
def LaysL (xs : List XTok) (txt : Str) : Prop := (xs = [] ∧ txt = []) ∨ (xs ≠ [] ∧ LaysX .cov xs txt ['\n'])

theorem LaysL.nil : LaysL [] [] := Or.inl ⟨rfl, rfl⟩

theorem LaysL.append {xs ys : List XTok} {a b : Str} (ha : LaysL xs a) (hb : LaysL ys b) : LaysL (xs ++ ys) (a ++ b) := by
  rcases ha with ⟨rfl, rfl⟩ | ⟨hx, ha⟩
  · simpa using hb
  · rcases hb with ⟨rfl, rfl⟩ | ⟨hy, hb⟩
    · rw [List.append_nil, List.append_nil]; exact Or.inr ⟨hx, ha⟩
    · exact Or.inr ⟨by simp [hx], ha.append hb hy fun u g _ _ => gapOK_nl _ u g⟩

theorem nl_ws : (['\n'] : Str).all isWs = true := by decide

/-- one token on a line of its own -/
theorem LaysL.line (lvl : Nat) (t : XTok) : LaysL [t] (fline lvl t.text) := by
  refine Or.inr ⟨by simp, ?_⟩
  have := LaysX.tok .cov (g := spaces (4 * lvl)) (tail := ['\n']) t (C01.spaces_ws _) nl_ws rfl
  simpa [fline] using this

theorem ctxAfter_tok (t : STok) : ctxAfter (.tok t) = .dl ∨ ctxAfter (.tok t) = .wd := by
  cases hd : isDelimSTok t <;> simp [ctxAfter, hd]

/-- what may follow a word may follow any source token, also with more white space in front -/
theorem gapOK_wd_ext {c : Ctx} (hc : c = .dl ∨ c = .wd) (u : XTok) (t g : Str) (h : gapOK .wd u g = true) :
    gapOK c u (t ++ g) = true := by
  simp only [gapOK, Bool.or_eq_true, Bool.not_eq_true', List.isEmpty_eq_false_iff] at h
  rcases hc with rfl | rfl
  · simp only [gapOK, Bool.or_eq_true, Bool.not_eq_true', List.isEmpty_eq_false_iff]
    rcases h with h | h
    · left; cases u <;> simp_all [isDelimX, isCommentX]
    · right; simp [h]
  · simp only [gapOK, Bool.or_eq_true, Bool.not_eq_true', List.isEmpty_eq_false_iff]
    rcases h with h | h
    · exact Or.inl h
    · right; simp [h]

theorem lastCtx_singleton (c : Ctx) (t : XTok) : lastCtx c [t] = ctxAfter t := rfl

theorem semi_delim : isDelimX (.tok (.word [';'])) = true := by decide
theorem close_delim : isDelimX (.tok (.word [')'])) = true := by decide

/-- the line `key<pad>value;` -/
theorem lays_leaf_line (lvl : Nat) (k v : STok) (pad : Str) (hp : pad.all isWs = true) (hne : pad ≠ []) :
    LaysL [.tok k, .tok v, .tok (.word [';'])] (fline lvl (k.text ++ pad ++ v.text ++ [';'])) := by
  have h0 := LaysX.tok .cov (g := spaces (4 * lvl)) (tail := []) (.tok k) (C01.spaces_ws _) rfl rfl
  have h1 := LaysX.tok .bk (g := pad) (tail := []) (.tok v) hp rfl (by simpa [gapOK] using hne)
  have h2 := LaysX.tok .wd (g := []) (tail := ['\n']) (.tok (.word [';'])) rfl nl_ws (by simp [gapOK, semi_delim])
  have h01 := h0.append h1 (by simp) (fun u g _ hg => by
    rw [lastCtx_singleton, List.nil_append]
    have hgne : g ≠ [] := by simpa [gapOK] using hg
    rcases ctxAfter_tok k with e | e <;> rw [e] <;> exact gapOK_ne (by decide) u hgne)
  have h012 := h01.append h2 (by simp) (fun u g _ hg => by
    have : lastCtx Ctx.cov ([XTok.tok k] ++ [XTok.tok v]) = ctxAfter (.tok v) := rfl
    rw [this]
    exact gapOK_wd_ext (ctxAfter_tok v) u [] g hg)
  refine Or.inr ⟨by simp, ?_⟩
  simpa [fline, XTok.text, STok.text] using h012

/-- `key ( items );` given the layout of the items -/
theorem lays_list_block (lvl : Nat) (xs : List Val) (d : Nat) (h : domXs .native d xs = true) :
    LaysL (.tok (.word ['(']) :: (srcToksXs (srcOfXs .native xs)).map XTok.tok ++ [.tok (.word [')']), .tok (.word [';'])])
      (fmtList .native lvl false xs) := by
  have hi := C01.lays_items d lvl xs.length 0 true xs h
  obtain ⟨tl, p2⟩ := LaysX.of_lays .wd hi (Or.inr (Or.inr (Or.inl ⟨rfl, rfl⟩)))
  have p1 := LaysX.tok .cov (g := spaces (4 * lvl)) (tail := ['\n']) (.tok (.word ['('])) (C01.spaces_ws _) nl_ws rfl
  -- `(` and the items
  have p12 : ∃ tl', LaysX .cov (.tok (.word ['(']) :: (srcToksXs (srcOfXs .native xs)).map XTok.tok)
      (spaces (4 * lvl) ++ (XTok.tok (.word ['('])).text ++ ['\n'] ++ fmtItems .native lvl xs.length 0 true xs) tl' := by
    by_cases hne : (srcToksXs (srcOfXs .native xs)).map XTok.tok = []
    · rw [hne] at p2 ⊢
      exact ⟨_, p1.append_nil p2⟩
    · exact ⟨_, p1.append p2 hne fun u g _ _ => gapOK_nl _ u g⟩
  obtain ⟨tl', p12⟩ := p12
  have hl : lastCtx .cov (XTok.tok (.word ['(']) :: (srcToksXs (srcOfXs .native xs)).map XTok.tok) = .dl ∨
      lastCtx .cov (XTok.tok (.word ['(']) :: (srcToksXs (srcOfXs .native xs)).map XTok.tok) = .wd := by
    have e : ctxAfter (XTok.tok (STok.word ['('])) = .dl := by decide
    simp only [lastCtx, e]
    rcases lastCtx_toks .dl (srcToksXs (srcOfXs .native xs)) with h | h | h
    · exact Or.inl h
    · exact Or.inl h
    · exact Or.inr h
  have p3 := LaysX.tok .wd (g := spaces (4 * lvl)) (tail := []) (.tok (.word [')'])) (C01.spaces_ws _) rfl
    (by simp [gapOK, close_delim])
  have p4 := LaysX.tok .wd (g := []) (tail := ['\n']) (.tok (.word [';'])) rfl nl_ws (by simp [gapOK, semi_delim])
  have p123 := p12.append p3 (by simp) (fun u g _ hg => gapOK_wd_ext hl u tl' g hg)
  have p1234 := p123.append p4 (by simp) (fun u g _ hg => by
    rw [lastCtx_append, lastCtx_singleton]
    exact gapOK_wd_ext (ctxAfter_tok _) u [] g hg)
  refine Or.inr ⟨by simp, ?_⟩
  simpa [fmtList, fline, XTok.text, STok.text, List.append_assoc] using p1234

/-! ### placeholder entries -/

/-- `w = kw ++ "%06d" % i` for an id within the counter's range -/
def phIdOf (kw w : Str) : Option Nat :=
  let i := digitsVal (w.drop kw.length)
  if w = kw ++ padSix i ∧ i ≤ 999999 then some i else none

/-- is the leaf entry `k ↦ x` a comment placeholder entry `ph ↦ ph`?  (kind: `true` = line comment, and id) -/
def phOf (k : Key) (x : Scalar) : Option (Bool × Nat) :=
  match k, x with
  | .str w, .str w' =>
    if w = w' then
      match phIdOf kwBlock w with
      | some i => some (false, i)
      | none => (phIdOf kwLine w).map fun i => (true, i)
    else none
  | _, _ => none

theorem phIdOf_some {kw w : Str} {i : Nat} (h : phIdOf kw w = some i) : w = kw ++ padSix i ∧ i ≤ 999999 := by
  unfold phIdOf at h
  simp only at h
  split at h
  · next hc => cases h; exact hc
  · cases h

theorem phIdOf_ph (kw : Str) {i : Nat} (hi : i ≤ 999999) : phIdOf kw (kw ++ padSix i) = some i := by
  unfold phIdOf
  simp only [List.drop_left, C02.digitsVal_padSix, hi, and_self, if_true]

theorem phOf_some {k : Key} {x : Scalar} {l : Bool} {i : Nat} (h : phOf k x = some (l, i)) :
    k = .str (phWord l i) ∧ x = .str (phWord l i) ∧ i ≤ 999999 := by
  unfold phOf at h
  split at h
  · next w w' =>
    split at h
    · next e =>
      subst e
      split at h
      · next j hj =>
        cases h
        obtain ⟨e, hi⟩ := phIdOf_some hj
        exact ⟨by rw [e]; rfl, by rw [e]; rfl, hi⟩
      · simp only [Option.map_eq_some_iff, Prod.mk.injEq] at h
        obtain ⟨j, hj, rfl, rfl⟩ := h
        obtain ⟨e, hi⟩ := phIdOf_some hj
        exact ⟨by rw [e]; rfl, by rw [e]; rfl, hi⟩
    · cases h
  · cases h

/-- characters of placeholder words -/
theorem phChar_facts : ∀ c ∈ C02.asciiDigits ++ kwLine ++ kwBlock,
    isWs c = false ∧ Gen.delimiters.contains c = false ∧ isQuote c = false ∧ c ≠ '$' ∧ isComplexChar c = false ∧
    c ≠ '#' ∧ c ≠ '\n' ∧ c ≠ '\r' ∧ c ≠ ';' ∧ c ≠ '/' := by decide

theorem phWord_chars (l : Bool) (i : Nat) : ∀ c ∈ phWord l i,
    isWs c = false ∧ Gen.delimiters.contains c = false ∧ isQuote c = false ∧ c ≠ '$' ∧ isComplexChar c = false ∧
    c ≠ '#' ∧ c ≠ '\n' ∧ c ≠ '\r' ∧ c ≠ ';' ∧ c ≠ '/' := by
  intro c hc
  apply phChar_facts
  simp only [phWord, List.mem_append] at hc ⊢
  rcases hc with hc | hc
  · cases l
    · exact Or.inr (by simpa using hc)
    · exact Or.inl (Or.inr (by simpa using hc))
  · exact Or.inl (Or.inl (C02.padSix_ascii i c hc))

theorem kw_lengths : kwLine.length = 11 ∧ kwBlock.length = 12 := by decide

theorem phWord_ne (l : Bool) (i : Nat) : phWord l i ≠ [] := by
  intro h
  have h1 := congrArg List.length h
  have h2 := kw_lengths
  simp only [phWord, List.length_append, List.length_nil] at h1
  cases l
  · simp only [Bool.false_eq_true, if_false] at h1; omega
  · simp only [if_true] at h1; omega

theorem phWord_length (l : Bool) {i : Nat} (hi : i ≤ 999999) : (phWord l i).length = if l then 17 else 18 := by
  cases l <;> simp [phWord, C02.padSix_length hi, kw_lengths]

theorem phWord_format (l : Bool) (i : Nat) : formatString .native (phWord l i) = phWord l i := by
  refine C04.formatString_of_bare ⟨phWord_ne l i, ?_, ?_, ?_⟩
  · cases hc : (phWord l i).contains '$' with
    | false => rfl
    | true => exact absurd rfl (phWord_chars l i _ (List.contains_iff_mem.mp hc)).2.2.2.1
  · simp only [List.all_eq_true, Bool.and_eq_true, Bool.not_eq_true']
    exact fun c hc => ⟨(phWord_chars l i c hc).2.2.1, (phWord_chars l i c hc).2.2.2.2.1⟩
  · apply C01.startsInclude_of_head
    intro h
    exact (phWord_chars l i '#' (List.mem_of_mem_head? h)).2.2.2.2.2.1 rfl

/-- the blanks between key and value on an entry line -/
def padOf (lvl : Nat) (skey : Str) : Str := spaces (max 8 (30 - skey.length - 4 * lvl))

theorem padOf_ws (lvl : Nat) (s : Str) : (padOf lvl s).all isWs = true := C01.spaces_ws _
theorem padOf_ne (lvl : Nat) (s : Str) : padOf lvl s ≠ [] := C01.spaces_ne (by omega)

/-- the token stream of the writer's raw output, placeholder lines as single tokens -/
def xtoksEs (lvl : Nat) : Entries → List XTok
  | [] => []
  | (k, .dict es) :: r =>
    .tok (.word (keyStr k)) :: .tok (.word ['{']) :: xtoksEs (lvl + 1) es ++ [.tok (.word ['}'])] ++ xtoksEs lvl r
  | (k, .list xs) :: r =>
    .tok (.word (keyStr k)) :: (.tok (.word ['(']) :: (srcToksXs (srcOfXs .native xs)).map XTok.tok ++
      [.tok (.word [')']), .tok (.word [';'])]) ++ xtoksEs lvl r
  | (k, .leaf x) :: r =>
    (match phOf k x with
     | some (l, i) => [.ph l i (padOf lvl (phWord l i))]
     | none => [.tok (.word (keyStr k)), .tok (writtenLit .native x).tok, .tok (.word [';'])]) ++ xtoksEs lvl r

/-- the shape the writer theorem needs: every leaf entry is a placeholder entry or lies in the value domain; other
    entries have domain keys; lists lie in the value domain -/
def wshEs (d : Nat) : Entries → Bool
  | [] => true
  | (k, .dict es) :: r => isDomKey k && wshEs (d + 1) es && wshEs d r
  | (k, .list xs) :: r => isDomKey k && domXs .native (d + 1) xs && wshEs d r
  | (k, .leaf x) :: r => ((phOf k x).isSome || (isDomKey k && isDomScalar .native x && decide (d ≤ 10))) && wshEs d r

/-- **M1** `fmt_labelled_is_layout` (line form): the writer's raw output for a dict with placeholder entries is a
    sequence of full lines laying out `xtoksEs`: every placeholder entry is the line `PH<pad>PH;` -/
theorem lays_entriesX : ∀ (d lvl : Nat) (D : Entries), wshEs d D = true → LaysL (xtoksEs lvl D) (fmtEntries .native lvl D)
  | _, _, [], _ => by simp only [xtoksEs, fmtEntries]; exact LaysL.nil
  | d, lvl, (k, .dict es) :: r, h => by
    simp only [wshEs, Bool.and_eq_true] at h
    have h0 := LaysL.line lvl (.tok (.word (keyStr k)))
    have h1 := LaysL.line lvl (.tok (.word ['{']))
    have h2 := lays_entriesX (d + 1) (lvl + 1) es h.1.2
    have h3 := LaysL.line lvl (.tok (.word ['}']))
    have h4 := lays_entriesX d lvl r h.2
    have := (((h0.append h1).append h2).append h3).append h4
    simpa [xtoksEs, fmtEntries, XTok.text, STok.text] using this
  | d, lvl, (k, .list xs) :: r, h => by
    simp only [wshEs, Bool.and_eq_true] at h
    have h0 := LaysL.line lvl (.tok (.word (keyStr k)))
    have h1 := lays_list_block lvl xs (d + 1) h.1.2
    have h4 := lays_entriesX d lvl r h.2
    have := (h0.append h1).append h4
    simpa [xtoksEs, fmtEntries, XTok.text, STok.text] using this
  | d, lvl, (k, .leaf x) :: r, h => by
    simp only [wshEs, Bool.and_eq_true, Bool.or_eq_true, decide_eq_true_eq] at h
    have h4 := lays_entriesX d lvl r h.2
    cases hp : phOf k x with
    | some li =>
      obtain ⟨l, i⟩ := li
      obtain ⟨rfl, rfl, hi⟩ := phOf_some hp
      have h0 := LaysL.line lvl (.ph l i (padOf lvl (phWord l i)))
      have := h0.append h4
      simpa [xtoksEs, hp, fmtEntries, XTok.text, formatKey, formatScalar, phWord_format, padOf] using this
    | none =>
      rw [hp] at h
      rcases h.1 with h1 | h1
      · cases h1
      · have h0 := lays_leaf_line lvl (.word (keyStr k)) (writtenLit .native x).tok (padOf lvl (keyStr k))
          (padOf_ws _ _) (padOf_ne _ _)
        have := h0.append h4
        simpa [xtoksEs, hp, fmtEntries, C01.text_word, C01.writtenLit_text, C01.formatKey_eq_keyStr h1.1.1, padOf] using this

/-- **M1 `fmt_labelled_is_layout`.**  For a dict whose leaf entries are comment placeholder entries `PH ↦ PH` or lie in
    the value domain (`wshEs`), the raw output of the writer at indentation level `lvl` is an admissible layout
    (`okX .cov`: white-space gaps, adjacent non-delimiter tokens separated, every placeholder line preceded by white
    space and followed by a line feed — the first gap of the text excepted) of the token stream `xtoksEs lvl D`: the
    tokens of the written document, in which every placeholder entry is the single token
    `PH ++ pad ++ PH ++ ";"`, `pad` = `max 8 (30 - |PH| - 4·lvl)` blanks, on a line of its own. -/
theorem fmt_labelled_is_layout (d lvl : Nat) (D : Entries) (h : wshEs d D = true) :
    ∃ lay tail, lay.map Prod.snd = xtoksEs lvl D ∧ fmtEntries .native lvl D = layX lay tail ∧ okX .cov lay = true ∧
      tail.all isWs = true := by
  rcases lays_entriesX d lvl D h with ⟨hx, ht⟩ | ⟨_, lay, hm, htxt, ok, htl⟩
  · exact ⟨[], [], by rw [hx]; rfl, by rw [ht]; rfl, rfl, rfl⟩
  · exact ⟨lay, ['\n'], hm, htxt, ok, htl⟩

/-! ## 3. substituting a comment for its placeholder line, on a layout (M2) -/

/-- the text behind a token cannot continue a placeholder word: it is empty, or starts with white space or a delimiter -/
def StopHead (s : Str) : Prop := ∀ c, s.head? = some c → isWs c = true ∨ Gen.delimiters.contains c = true

theorem substFuel_skip' (P repl : Str) : ∀ (h : Str) (fuel : Nat) (s : Str),
    (∀ h1 h2, h = h1 ++ h2 → h2 ≠ [] → P.isPrefixOf (h2 ++ s) = false) →
    substPhEntryFuel P repl (fuel + h.length) (h ++ s) =
      (h ++ (substPhEntryFuel P repl fuel s).1, (substPhEntryFuel P repl fuel s).2)
  | [], fuel, s, _ => by simp
  | x :: h, fuel, s, hp => by
    have hm : matchPhEntry P (x :: (h ++ s)) = none := by
      have := hp [] (x :: h) rfl (by simp)
      simp only [List.cons_append] at this
      simp [matchPhEntry, this]
    have e : fuel + (x :: h).length = (fuel + h.length) + 1 := by simp; omega
    rw [e, List.cons_append, substPhEntryFuel, hm]
    simp only []
    rw [substFuel_skip' P repl h fuel s (fun h1 h2 e2 hne => hp (x :: h1) h2 (by rw [e2]; rfl) hne)]
    rfl

/-- `substPh` with the fuel hidden -/
def subP (P repl s : Str) : Str × Bool := substPhEntryFuel P repl (s.length + 1) s

theorem subP_skip {P repl : Str} (h s : Str)
    (hp : ∀ h1 h2, h = h1 ++ h2 → h2 ≠ [] → P.isPrefixOf (h2 ++ s) = false) :
    subP P repl (h ++ s) = (h ++ (subP P repl s).1, (subP P repl s).2) := by
  unfold subP
  have e : (h ++ s).length + 1 = (s.length + 1) + h.length := by simp; omega
  rw [e, substFuel_skip' P repl h _ s hp]

theorem subP_hit {P repl : Str} {c : Char} {P' : Str} (hP : P = c :: P') (hc : isWs c = false)
    (pad s : Str) (hne : pad ≠ []) (hws : pad.all isWs = true) :
    subP P repl (P ++ pad ++ P ++ [';'] ++ s) = (repl ++ (subP P repl s).1, true) := by
  unfold subP
  have e : P ++ pad ++ P ++ [';'] ++ s = P ++ (pad ++ (P ++ ';' :: s)) := by simp
  rw [e, C12.substFuel_hit _ (C12.matchPhEntry_hit hP hc pad s hne hws)]
  have hlen : s.length < (P ++ (pad ++ (P ++ ';' :: s))).length := by simp; omega
  rw [C12.substFuel_enough P repl _ (s.length + 1) s hlen (by omega)]

theorem noPrefix_ws {P : Str} {c : Char} {P' : Str} (hP : P = c :: P') (hc : isWs c = false) (g s : Str)
    (hg : g.all isWs = true) : ∀ h1 h2, g = h1 ++ h2 → h2 ≠ [] → P.isPrefixOf (h2 ++ s) = false := by
  intro h1 h2 e hne
  cases h2 with
  | nil => exact absurd rfl hne
  | cons x h2 =>
    have hx : isWs x = true := List.all_eq_true.mp hg x (by rw [e]; simp)
    have : (c == x) = false := by
      simp only [beq_eq_false_iff_ne, ne_eq]; rintro rfl; rw [hx] at hc; cases hc
    simp [hP, List.isPrefixOf, this]

theorem noPrefix_tok {P h s : Str} (hP : ∀ c ∈ P, isWs c = false ∧ Gen.delimiters.contains c = false)
    (hinf : isInfix P h = false)
    (hs : (∃ d, h = [d] ∧ Gen.delimiters.contains d = true) ∨ StopHead s) :
    ∀ h1 h2, h = h1 ++ h2 → h2 ≠ [] → P.isPrefixOf (h2 ++ s) = false := by
  intro h1 h2 e hne
  cases hpre : P.isPrefixOf (h2 ++ s) with
  | false => rfl
  | true =>
    exfalso
    obtain ⟨r, hr⟩ := List.isPrefixOf_iff_prefix.mp hpre
    rcases List.append_eq_append_iff.mp hr with ⟨a', e1, e2⟩ | ⟨c', e1, e2⟩
    · have : isInfix P h = true := C01.isInfix_iff.mpr ⟨h1, a', by rw [e, e1]; simp⟩
      rw [this] at hinf; cases hinf
    · -- `h2` is a prefix of `P`
      cases c' with
      | nil =>
        simp only [List.append_nil] at e1
        have : isInfix P h = true := C01.isInfix_iff.mpr ⟨h1, [], by rw [e, e1]; simp⟩
        rw [this] at hinf; cases hinf
      | cons x c' =>
        rcases hs with ⟨d, hd, hdel⟩ | hs
        · rw [hd] at e
          have h2d : h2 = [d] := by
            cases h1 with
            | nil => exact e.symm
            | cons y h1 =>
              simp only [List.cons_append, List.cons.injEq] at e
              have := e.2
              simp only [List.nil_eq, List.append_eq_nil_iff] at this
              exact absurd this.2 hne
          have hdP : d ∈ P := by rw [e1, h2d]; simp
          rw [(hP d hdP).2] at hdel; cases hdel
        · have hxP : x ∈ P := by rw [e1]; simp
          have := hs x (by rw [e2]; rfl)
          rcases this with h' | h'
          · rw [(hP x hxP).1] at h'; cases h'
          · rw [(hP x hxP).2] at h'; cases h'

/-- behind a token that is no delimiter the layout cannot continue a placeholder word -/
theorem stopHead_layX {c : Ctx} (hc : c = .wd ∨ c = .ln ∨ c = .bk) : ∀ (l : List (Str × XTok)) (tail : Str),
    okX c l = true → tail.all isWs = true → StopHead (layX l tail)
  | [], tail, _, ht => by
    intro x hx
    exact Or.inl (List.all_eq_true.mp ht x (List.mem_of_mem_head? hx))
  | (g, t) :: l, tail, ok, _ => by
    simp only [okX, Bool.and_eq_true] at ok
    intro x hx
    cases g with
    | cons y g =>
      simp only [layX, List.cons_append, List.head?_cons, Option.some.injEq] at hx
      subst hx
      exact Or.inl (List.all_eq_true.mp ok.1.1 y (by simp))
    | nil =>
      have hg := ok.1.2
      rcases hc with rfl | rfl | rfl
      · simp only [gapOK, List.isEmpty_nil, Bool.not_true, Bool.or_false] at hg
        cases t with
        | tok s =>
          obtain ⟨d, hd⟩ : ∃ d, s = .word [d] ∧ d ∈ Gen.delimiters := by
            cases s with
            | word w => obtain ⟨d, rfl, hd⟩ := C02.delimTok_inv hg; exact ⟨d, rfl, hd⟩
            | quoted q b => cases hg
          rw [hd.1] at hx
          simp only [layX, List.nil_append, XTok.text, STok.text, List.cons_append, List.head?_cons,
            Option.some.injEq] at hx
          subst hx
          exact Or.inr (List.contains_iff_mem.mpr hd.2)
        | cmt _ _ => cases hg
        | ph _ _ _ => cases hg
      · simp [gapOK] at hg
      · simp [gapOK] at hg

def kwOf (l : Bool) : Str := if l then kwLine else kwBlock

/-- the token is the placeholder line of comment `(l, i)`, or does not contain its placeholder word -/
def Free (l : Bool) (i : Nat) (t : XTok) : Prop :=
  (∃ pad, t = .ph l i pad ∧ pad ≠ [] ∧ pad.all isWs = true) ∨ isInfix (phWord l i) t.text = false

def isPhX (l : Bool) (i : Nat) : XTok → Bool
  | .ph l' j _ => l' == l && j == i
  | _ => false

def substTok (l : Bool) (i : Nat) (repl : Str) : XTok → XTok
  | .ph l' j pad => if l' = l ∧ j = i then .cmt l repl else .ph l' j pad
  | t => t

def substL (l : Bool) (i : Nat) (repl : Str) (lay : List (Str × XTok)) : List (Str × XTok) :=
  lay.map fun p => (p.1, substTok l i repl p.2)

theorem phWord_head (l : Bool) (i : Nat) : ∃ c P', phWord l i = c :: P' ∧ isWs c = false := by
  cases h : phWord l i with
  | nil => exact absurd h (phWord_ne l i)
  | cons c P' => exact ⟨c, P', rfl, (phWord_chars l i c (by rw [h]; simp)).1⟩

/-- **substitution on a layout**: every placeholder line of comment `(l, i)` is replaced by `repl`, literally; nothing
    else changes; the flag says whether there was one -/
theorem subP_layX (l : Bool) (i : Nat) (repl : Str) : ∀ (lay : List (Str × XTok)) (c : Ctx) (tail : Str),
    okX c lay = true → tail.all isWs = true → (∀ p ∈ lay, Free l i p.2) →
    subP (phWord l i) repl (layX lay tail) =
      (layX (substL l i repl lay) tail, lay.any fun p => isPhX l i p.2)
  | [], c, tail, _, ht, _ => by
    obtain ⟨c0, P', hP, hc0⟩ := phWord_head l i
    have := subP_skip (P := phWord l i) (repl := repl) tail [] (noPrefix_ws hP hc0 tail [] ht)
    simp only [List.append_nil] at this
    simp only [layX, substL, List.map_nil, List.any_nil]
    rw [this]
    simp [subP, substPhEntryFuel]
  | (g, t) :: lay, c, tail, ok, ht, hfree => by
    obtain ⟨c0, P', hP, hc0⟩ := phWord_head l i
    simp only [okX, Bool.and_eq_true] at ok
    have ih := subP_layX l i repl lay (ctxAfter t) tail ok.2 ht (fun p hp => hfree p (List.mem_cons_of_mem _ hp))
    have hchars : ∀ c ∈ phWord l i, isWs c = false ∧ Gen.delimiters.contains c = false :=
      fun c hc => ⟨(phWord_chars l i c hc).1, (phWord_chars l i c hc).2.1⟩
    simp only [layX, List.append_assoc]
    rw [subP_skip g _ (noPrefix_ws hP hc0 g _ ok.1.1)]
    rcases hfree (g, t) List.mem_cons_self with ⟨pad, rfl, hne, hws⟩ | hinf
    · have e : (XTok.ph l i pad).text ++ layX lay tail = phWord l i ++ pad ++ phWord l i ++ [';'] ++ layX lay tail := by
        simp [XTok.text]
      rw [e, subP_hit hP hc0 pad _ hne hws, ih]
      simp [substL, substTok, layX, XTok.text, isPhX]
    · have hs : (∃ d, t.text = [d] ∧ Gen.delimiters.contains d = true) ∨ StopHead (layX lay tail) := by
        cases t with
        | tok s =>
          cases hd : isDelimSTok s with
          | true =>
            left
            cases s with
            | word w =>
              obtain ⟨d, rfl, hd'⟩ := C02.delimTok_inv hd
              exact ⟨d, rfl, List.contains_iff_mem.mpr hd'⟩
            | quoted q b => cases hd
          | false =>
            right
            exact stopHead_layX (Or.inl rfl) lay tail (by simpa [ctxAfter, hd] using ok.2) ht
        | cmt l' full =>
          right
          cases l'
          · exact stopHead_layX (Or.inr (Or.inr rfl)) lay tail ok.2 ht
          · exact stopHead_layX (Or.inr (Or.inl rfl)) lay tail ok.2 ht
        | ph l' j pad =>
          right
          cases l'
          · exact stopHead_layX (Or.inr (Or.inr rfl)) lay tail ok.2 ht
          · exact stopHead_layX (Or.inr (Or.inl rfl)) lay tail ok.2 ht
      rw [subP_skip t.text _ (noPrefix_tok hchars hinf hs), ih]
      have hnot : isPhX l i t = false ∧ substTok l i repl t = t := by
        cases t with
        | tok s => exact ⟨rfl, rfl⟩
        | cmt l' full => exact ⟨rfl, rfl⟩
        | ph l' j pad =>
          by_cases hlj : l' = l ∧ j = i
          · obtain ⟨rfl, rfl⟩ := hlj
            exfalso
            have : isInfix (phWord l' j) (XTok.ph l' j pad).text = true :=
              C01.isInfix_iff.mpr ⟨[], pad ++ phWord l' j ++ [';'], by simp [XTok.text]⟩
            rw [this] at hinf; cases hinf
          · constructor
            · simp only [isPhX, Bool.and_eq_false_iff, beq_eq_false_iff_ne, ne_eq]
              by_cases h1 : l' = l
              · exact Or.inr fun h2 => hlj ⟨h1, h2⟩
              · exact Or.inl h1
            · simp only [substTok, hlj, if_false]
      simp [substL, List.any_cons, hnot.1, hnot.2, layX]

theorem substPh_eq (l : Bool) (i : Nat) (repl s : Str) : substPh (kwOf l) i repl s = subP (phWord l i) repl s := rfl

/-! ### the invariant of the tokens during the insertion passes -/

/-- the text contains no placeholder word -/
def NoPh (s : Str) : Prop := ∀ l i, i ≤ 999999 → isInfix (phWord l i) s = false

/-- source tokens and inserted comments contain no placeholder word; placeholder lines are well formed -/
def TokInv : XTok → Prop
  | .tok s => NoPh s.text
  | .cmt _ full => NoPh full
  | .ph _ j pad => j ≤ 999999 ∧ pad ≠ [] ∧ pad.all isWs = true

theorem mem_of_infix {p s : Str} (h : isInfix p s = true) : ∀ c ∈ p, c ∈ s := by
  obtain ⟨a, b, rfl⟩ := C01.isInfix_iff.mp h
  intro c hc; simp [hc]

theorem digit_not_BI : ∀ c ∈ C02.asciiDigits, c ≠ 'B' ∧ c ≠ 'I' := by decide
theorem kw_BI : 'B' ∈ kwBlock ∧ 'B' ∉ kwLine ∧ 'I' ∈ kwLine ∧ 'I' ∉ kwBlock := by decide

/-- a placeholder word contains no other placeholder word -/
theorem phWord_infix {l l' : Bool} {i j : Nat} (hi : i ≤ 999999) (hj : j ≤ 999999)
    (h : isInfix (phWord l i) (phWord l' j) = true) : l = l' ∧ i = j := by
  by_cases hl : l = l'
  · subst hl
    have := C02.isInfix_eq_of_length (by rw [phWord_length l hi, phWord_length l hj]) h
    exact ⟨rfl, C02.padSix_inj (List.append_cancel_left this)⟩
  · exfalso
    have hm := mem_of_infix h
    cases l <;> cases l'
    · exact hl rfl
    · have := hm 'B' (by simp [phWord, kw_BI.1])
      simp only [phWord, if_true, List.mem_append] at this
      rcases this with h' | h'
      · exact kw_BI.2.1 h'
      · exact (digit_not_BI _ (C02.padSix_ascii j _ h')).1 rfl
    · have := hm 'I' (by simp [phWord, kw_BI.2.2.1])
      simp only [phWord, Bool.false_eq_true, if_false, List.mem_append] at this
      rcases this with h' | h'
      · exact kw_BI.2.2.2 h'
      · exact (digit_not_BI _ (C02.padSix_ascii j _ h')).2 rfl
    · exact hl rfl

/-- a placeholder line contains no placeholder word but its own -/
theorem ph_free {l l' : Bool} {i j : Nat} {pad : Str} (hi : i ≤ 999999) (hj : j ≤ 999999) (hne : pad ≠ [])
    (hws : pad.all isWs = true) (hd : ¬(l' = l ∧ j = i)) : isInfix (phWord l i) (XTok.ph l' j pad).text = false := by
  cases hcontra : isInfix (phWord l i) (XTok.ph l' j pad).text with
  | false => rfl
  | true =>
    exfalso
    have hch := phWord_chars l i
    obtain ⟨c0, P', hP, hc0⟩ := phWord_head l i
    have wsNot : ∀ c, c ∈ phWord l i → isWs c = true → False := fun c hc hw => by rw [(hch c hc).1] at hw; cases hw
    have inQ : isInfix (phWord l i) (phWord l' j) = true → False := fun h => by
      obtain ⟨rfl, rfl⟩ := phWord_infix hi hj h; exact hd ⟨rfl, rfl⟩
    obtain ⟨y, pad', rfl⟩ : ∃ y pad', pad = y :: pad' := by
      cases pad with
      | nil => exact absurd rfl hne
      | cons y pad' => exact ⟨y, pad', rfl⟩
    have hy : isWs y = true := by simp only [List.all_cons, Bool.and_eq_true] at hws; exact hws.1
    have e : (XTok.ph l' j (y :: pad')).text = phWord l' j ++ ((y :: pad') ++ (phWord l' j ++ [';'])) := by
      simp [XTok.text]
    rw [e] at hcontra
    rcases C12.infix_append_cases hcontra with h | h | ⟨p1, c2, p2, e1, _, _, hh⟩
    · exact inQ h
    · rcases C12.infix_append_cases h with h | h | ⟨p1, c2, p2, e1, hne1, hm, _⟩
      · rw [hP] at h
        exact wsNot c0 (by rw [hP]; simp) (List.all_eq_true.mp hws _ (C01.isInfix_cons_mem h))
      · rcases C12.infix_append_cases h with h | h | ⟨p1, c2, p2, e1, _, _, hh⟩
        · exact inQ h
        · rw [hP] at h
          have := C01.isInfix_cons_mem h
          simp only [List.mem_singleton] at this
          exact (hch c0 (by rw [hP]; simp)).2.2.2.2.2.2.2.2.1 this
        · simp only [List.head?_cons, Option.some.injEq] at hh
          subst hh
          exact (hch ';' (by rw [e1]; simp)).2.2.2.2.2.2.2.2.1 rfl
      · obtain ⟨c, hcm⟩ := List.exists_mem_of_ne_nil _ hne1
        exact wsNot c (by rw [e1]; simp [hcm]) (List.all_eq_true.mp hws _ (hm c hcm))
    · simp only [List.cons_append, List.head?_cons, Option.some.injEq] at hh
      subst hh
      exact wsNot y (by rw [e1]; simp) hy

theorem free_of_inv {t : XTok} (h : TokInv t) (l : Bool) {i : Nat} (hi : i ≤ 999999) : Free l i t := by
  cases t with
  | tok s => exact Or.inr (h l i hi)
  | cmt l' full => exact Or.inr (h l i hi)
  | ph l' j pad =>
    obtain ⟨hj, hne, hws⟩ := h
    by_cases hd : l' = l ∧ j = i
    · obtain ⟨rfl, rfl⟩ := hd
      exact Or.inl ⟨pad, rfl, hne, hws⟩
    · exact Or.inr (ph_free hi hj hne hws hd)

theorem inv_substTok {t : XTok} (h : TokInv t) (l : Bool) (i : Nat) {repl : Str} (hr : NoPh repl) :
    TokInv (substTok l i repl t) := by
  cases t with
  | tok s => exact h
  | cmt l' full => exact h
  | ph l' j pad =>
    simp only [substTok]
    split
    · exact hr
    · exact h

theorem ctxAfter_substTok (l : Bool) (i : Nat) (repl : Str) (t : XTok) : ctxAfter (substTok l i repl t) = ctxAfter t := by
  cases t with
  | tok s => rfl
  | cmt l' full => rfl
  | ph l' j pad =>
    simp only [substTok]
    split
    · next h => obtain ⟨rfl, rfl⟩ := h; cases l' <;> rfl
    · rfl

theorem gapOK_substTok (c : Ctx) (l : Bool) (i : Nat) (repl : Str) (t : XTok) (g : Str) :
    gapOK c (substTok l i repl t) g = gapOK c t g := by
  cases t with
  | tok s => rfl
  | cmt l' full => rfl
  | ph l' j pad =>
    simp only [substTok]
    split
    · cases c <;> rfl
    · rfl

theorem okX_substL (l : Bool) (i : Nat) (repl : Str) : ∀ (lay : List (Str × XTok)) (c : Ctx),
    okX c (substL l i repl lay) = okX c lay
  | [], _ => rfl
  | (g, t) :: lay, c => by
    have ih := okX_substL l i repl lay (ctxAfter t)
    simp only [substL] at ih
    simp only [substL, List.map_cons, okX, ctxAfter_substTok, gapOK_substTok, ih]

/-- a whole table at once -/
def substTokT (l : Bool) (T : Tbl Str) : XTok → XTok
  | .ph l' j pad => if l' = l then (match T.get? j with | some txt => .cmt l txt | none => .ph l' j pad) else .ph l' j pad
  | t => t

theorem substTokT_cons (l : Bool) (i : Nat) (txt : Str) (T : Tbl Str) (t : XTok) :
    substTokT l ((i, txt) :: T) t = substTokT l T (substTok l i txt t) := by
  cases t with
  | tok s => rfl
  | cmt l' full => rfl
  | ph l' j pad =>
    by_cases hl : l' = l
    · subst hl
      by_cases hj : j = i
      · subst hj
        simp [substTokT, substTok, Tbl.get?]
      · have : ¬ i = j := fun e => hj e.symm
        simp [substTokT, substTok, Tbl.get?, hj, this]
    · simp [substTokT, substTok, hl]

theorem foldl_substL (l : Bool) : ∀ (T : Tbl Str) (lay : List (Str × XTok)),
    T.foldl (fun lay e => substL l e.1 e.2 lay) lay = lay.map fun p => (p.1, substTokT l T p.2)
  | [], lay => by
    simp only [List.foldl_nil]
    have : ∀ t, substTokT l [] t = t := by
      intro t; cases t <;> simp [substTokT, Tbl.get?]
    simp [this]
  | (i, txt) :: T, lay => by
    simp only [List.foldl_cons]
    rw [foldl_substL l T]
    simp only [substL, List.map_map]
    apply List.map_congr_left
    intro p _
    simp [substTokT_cons]

/-! ## 4. the two insertion passes on a layout -/

theorem insertLine_fold (L : Tbl Str) : ∀ (lay : List (Str × XTok)) (c : Ctx) (tail : Str),
    okX c lay = true → tail.all isWs = true → (∀ p ∈ lay, TokInv p.2) → (∀ e ∈ L, e.1 ≤ 999999 ∧ NoPh e.2) →
    insertLineComments L (layX lay tail) = layX (L.foldl (fun lay e => substL true e.1 e.2 lay) lay) tail := by
  induction L with
  | nil => intros; rfl
  | cons e L ih =>
    intro lay c tail ok ht hinv hL
    have he := hL e List.mem_cons_self
    have hsub := subP_layX true e.1 e.2 lay c tail ok ht (fun p hp => free_of_inv (hinv p hp) true he.1)
    have e1 : insertLineComments (e :: L) (layX lay tail) =
        insertLineComments L (substPh kwLine e.1 e.2 (layX lay tail)).1 := rfl
    rw [e1, show substPh kwLine e.1 e.2 (layX lay tail) = subP (phWord true e.1) e.2 (layX lay tail) from rfl, hsub]
    simp only [List.foldl_cons]
    apply ih (substL true e.1 e.2 lay) c tail (by rw [okX_substL]; exact ok) ht
    · intro p hp
      simp only [substL, List.mem_map] at hp
      obtain ⟨q, hq, rfl⟩ := hp
      exact inv_substTok (hinv q hq) true e.1 he.2
    · exact fun e' he' => hL e' (List.mem_cons_of_mem _ he')

/-- **line comments**: every line-comment placeholder line whose id is in the table is replaced by the comment -/
theorem insertLine_layX (L : Tbl Str) (lay : List (Str × XTok)) (c : Ctx) (tail : Str)
    (ok : okX c lay = true) (ht : tail.all isWs = true) (hinv : ∀ p ∈ lay, TokInv p.2)
    (hL : ∀ e ∈ L, e.1 ≤ 999999 ∧ NoPh e.2) :
    insertLineComments L (layX lay tail) = layX (lay.map fun p => (p.1, substTokT true L p.2)) tail := by
  rw [insertLine_fold L lay c tail ok ht hinv hL, foldl_substL]

/-- the step of `insert_block_comments` -/
def blockF (acc : Str × Str × Bool) (e : Nat × Str) : Str × Str × Bool :=
  let bc := if acc.2.2 then makeDefaultBlockComment .native e.2 else e.2
  let bc := if isInfix bc acc.2.1 then [] else bc
  let r := substPh kwBlock e.1 bc acc.1
  if r.2 then (r.1, acc.2.1 ++ bc, false) else (acc.1, acc.2.1, false)

theorem insertBlock_eq (B : Tbl Str) (s : Str) :
    insertBlockComments .native B s =
      (if (B.foldl blockF (s, [], true)).2.1.isEmpty then makeDefaultBlockComment .native [] ++ (B.foldl blockF (s, [], true)).1
       else (B.foldl blockF (s, [], true)).1) := rfl

/-- no text is contained in what has been written before it -/
def indepFrom : Str → List Str → Bool
  | _, [] => true
  | sofar, t :: ts => !isInfix t sofar && indepFrom (sofar ++ t) ts

theorem any_substL_ne {i j : Nat} (hij : j ≠ i) (t : Str) (lay : List (Str × XTok)) :
    ((substL false i t lay).any fun p => isPhX false j p.2) = lay.any fun p => isPhX false j p.2 := by
  simp only [substL, List.any_map]
  congr 1
  funext p
  cases hp : p.2 with
  | tok s => simp [substTok, hp]
  | cmt l' full => simp [substTok, hp]
  | ph l' k pad =>
    simp only [Function.comp, hp, substTok]
    split
    · next h =>
      obtain ⟨rfl, rfl⟩ := h
      have : (k == j) = false := by simpa using fun e : k = j => hij e.symm
      simp [isPhX, this]
    · rfl

/-- one step of the block-comment pass on a layout, with the text to insert given -/
theorem blockF_step (lay : List (Str × XTok)) (c : Ctx) (tail sofar : Str) (first : Bool) (e : Nat × Str) (bc : Str)
    (ok : okX c lay = true) (ht : tail.all isWs = true) (hinv : ∀ p ∈ lay, TokInv p.2) (hi : e.1 ≤ 999999)
    (hbc : bc = if first then makeDefaultBlockComment .native e.2 else e.2)
    (hind : isInfix bc sofar = false) (hpres : (lay.any fun p => isPhX false e.1 p.2) = true) :
    blockF (layX lay tail, sofar, first) e = (layX (substL false e.1 bc lay) tail, sofar ++ bc, false) := by
  have hsub := subP_layX false e.1 bc lay c tail ok ht (fun p hp => free_of_inv (hinv p hp) false hi)
  have e1 : substPh kwBlock e.1 bc (layX lay tail) = subP (phWord false e.1) bc (layX lay tail) := rfl
  simp only [blockF, ← hbc, hind, Bool.false_eq_true, if_false, e1, hsub, hpres, if_true]

theorem blockF_rest : ∀ (B : Tbl Str) (lay : List (Str × XTok)) (c : Ctx) (tail sofar : Str),
    okX c lay = true → tail.all isWs = true → (∀ p ∈ lay, TokInv p.2) →
    (∀ e ∈ B, e.1 ≤ 999999 ∧ NoPh e.2 ∧ (lay.any fun p => isPhX false e.1 p.2) = true) →
    (B.map (·.1)).Nodup → indepFrom sofar (B.map (·.2)) = true →
    ∃ sofar', B.foldl blockF (layX lay tail, sofar, false) =
      (layX (B.foldl (fun lay e => substL false e.1 e.2 lay) lay) tail, sofar ++ sofar', false)
  | [], lay, c, tail, sofar, _, _, _, _, _, _ => ⟨[], by simp⟩
  | e :: B, lay, c, tail, sofar, ok, ht, hinv, hB, hnd, hind => by
    have he := hB e List.mem_cons_self
    simp only [List.map_cons, indepFrom, Bool.and_eq_true, Bool.not_eq_true'] at hind
    simp only [List.map_cons, List.nodup_cons] at hnd
    simp only [List.foldl_cons]
    rw [blockF_step lay c tail sofar false e e.2 ok ht hinv he.1 rfl hind.1 he.2.2]
    obtain ⟨s', hs'⟩ := blockF_rest B (substL false e.1 e.2 lay) c tail (sofar ++ e.2) (by rw [okX_substL]; exact ok) ht
      (by
        intro p hp
        simp only [substL, List.mem_map] at hp
        obtain ⟨q, hq, rfl⟩ := hp
        exact inv_substTok (hinv q hq) false e.1 he.2.1)
      (by
        intro e' he'
        have h' := hB e' (List.mem_cons_of_mem _ he')
        refine ⟨h'.1, h'.2.1, ?_⟩
        rw [any_substL_ne (fun h => hnd.1 (by rw [← h]; exact List.mem_map_of_mem he'))]
        exact h'.2.2)
      hnd.2 hind.2
    exact ⟨e.2 ++ s', by rw [hs']; simp⟩

/-- the texts the block-comment pass inserts: the first one completed by the default header unless it is a header -/
def blockTbl : Tbl Str → Tbl Str
  | [] => []
  | (i, t) :: B => (i, makeDefaultBlockComment .native t) :: B

/-- **block comments** (at least one): every block-comment placeholder line is replaced by its comment, the first
    one by the comment completed to a header; nothing is put in front of the text -/
theorem insertBlock_layX (e : Nat × Str) (B : Tbl Str) (lay : List (Str × XTok)) (c : Ctx) (tail : Str)
    (ok : okX c lay = true) (ht : tail.all isWs = true) (hinv : ∀ p ∈ lay, TokInv p.2)
    (hB : ∀ e' ∈ e :: B, e'.1 ≤ 999999 ∧ NoPh e'.2 ∧ (lay.any fun p => isPhX false e'.1 p.2) = true)
    (hhdr : NoPh (makeDefaultBlockComment .native e.2))
    (hnd : ((e :: B).map (·.1)).Nodup) (hind : indepFrom [] ((blockTbl (e :: B)).map (·.2)) = true) :
    insertBlockComments .native (e :: B) (layX lay tail) =
      layX (lay.map fun p => (p.1, substTokT false (blockTbl (e :: B)) p.2)) tail := by
  obtain ⟨i, t⟩ := e
  have he := hB (i, t) List.mem_cons_self
  simp only [blockTbl, List.map_cons, indepFrom, Bool.and_eq_true, Bool.not_eq_true'] at hind
  simp only [List.map_cons, List.nodup_cons] at hnd
  have hstep := blockF_step lay c tail [] true (i, t) (makeDefaultBlockComment .native t) ok ht hinv he.1 rfl hind.1 he.2.2
  obtain ⟨s', hs'⟩ := blockF_rest B (substL false i (makeDefaultBlockComment .native t) lay) c tail
    ([] ++ makeDefaultBlockComment .native t) (by rw [okX_substL]; exact ok) ht
    (by
      intro p hp
      simp only [substL, List.mem_map] at hp
      obtain ⟨q, hq, rfl⟩ := hp
      exact inv_substTok (hinv q hq) false i hhdr)
    (by
      intro e' he'
      have h' := hB e' (List.mem_cons_of_mem _ he')
      refine ⟨h'.1, h'.2.1, ?_⟩
      rw [any_substL_ne (fun h => hnd.1 (by rw [← h]; exact List.mem_map_of_mem he'))]
      exact h'.2.2)
    hnd.2 hind.2
  have hfold : ((i, t) :: B).foldl blockF (layX lay tail, [], true) =
      (layX (B.foldl (fun lay e => substL false e.1 e.2 lay) (substL false i (makeDefaultBlockComment .native t) lay)) tail,
        [] ++ makeDefaultBlockComment .native t ++ s', false) := by
    rw [List.foldl_cons, hstep, hs']
  have hne : ([] ++ makeDefaultBlockComment .native t ++ s').isEmpty = false := by
    have := C12.makeDefault_native_ne t
    cases hm : makeDefaultBlockComment .native t with
    | nil => exact absurd hm this
    | cons x r => rfl
  rw [insertBlock_eq, hfold]
  simp only [hne, Bool.false_eq_true, if_false]
  have := foldl_substL false ((i, makeDefaultBlockComment .native t) :: B) lay
  simp only [List.foldl_cons] at this
  rw [this]
  rfl

/-! ## 5. `remove_trailing_spaces` on a layout whose tokens may span several lines -/

/-- a token text the line-wise processing leaves alone: it ends in a non-blank, holds no carriage return, is a fixed
    point of the trailing-space removal, and its first line is not blank -/
def Solid (τ : Str) : Prop :=
  (∃ a z, τ = a ++ [z] ∧ isWs z = false) ∧ (∀ c ∈ τ, c ≠ '\r') ∧ C01.rts τ = τ ∧ C01.blankHead τ = false

theorem blankHead_nl (s : Str) : C01.blankHead ('\n' :: s) = true := by
  have : splitNl ('\n' :: s) = [] :: splitNl s := by rw [splitNl]
  simp [C01.blankHead, this]

/-- behind a text that ends in a non-blank the processing starts afresh -/
theorem rts_append_end {z : Char} (hz : isWs z = false) (s : Str) : ∀ a : Str,
    C01.rts (a ++ z :: s) = C01.rts (a ++ [z]) ++ C01.rts s ∧ C01.blankHead (a ++ z :: s) = C01.blankHead (a ++ [z])
  | [] => by
    have hn := C01.ne_nl_of_not_ws hz
    simp only [List.nil_append]
    rw [C01.rts_cons hn, C01.rts_cons hn, C01.blankHead_cons hn, C01.blankHead_cons hn, hz, C01.rts_nil]
    simp
  | c :: a => by
    have ih := rts_append_end hz s a
    simp only [List.cons_append]
    by_cases hc : c = '\n'
    · subst hc
      rw [C01.rts_nl, C01.rts_nl, ih.1, blankHead_nl, blankHead_nl]
      simp
    · rw [C01.rts_cons hc, C01.rts_cons hc, C01.blankHead_cons hc, C01.blankHead_cons hc, ih.1, ih.2]
      refine ⟨?_, rfl⟩
      split <;> simp

theorem solid_rts {τ : Str} (h : Solid τ) (s : Str) :
    C01.rts (τ ++ s) = τ ++ C01.rts s ∧ C01.blankHead (τ ++ s) = false := by
  obtain ⟨⟨a, z, rfl, hz⟩, _, hfix, hb⟩ := h
  have := rts_append_end hz s a
  simp only [List.append_assoc, List.singleton_append]
  rw [this.1, this.2, hfix, hb]
  simp

theorem solid_head {τ : Str} (h : Solid τ) (s : Str) : (τ ++ s).head? ≠ some '\n' := by
  obtain ⟨⟨a, z, rfl, hz⟩, _, _, hb⟩ := h
  cases a with
  | nil =>
    simp only [List.nil_append, List.singleton_append, List.head?_cons, ne_eq, Option.some.injEq]
    exact C01.ne_nl_of_not_ws hz
  | cons c a =>
    simp only [List.cons_append, List.head?_cons, ne_eq, Option.some.injEq]
    rintro rfl
    rw [List.cons_append, blankHead_nl] at hb
    cases hb

theorem universalNl_head_nl (g : Str) (h : g.head? = some '\n') : (universalNl g).head? = some '\n' := by
  cases g with
  | nil => cases h
  | cons c g =>
    simp only [List.head?_cons, Option.some.injEq] at h
    subst h
    rw [C01.universalNl_cons (by decide)]
    rfl

theorem gapOK_map {c : Ctx} {t : XTok} {g g' : Str} (h : gapOK c t g = true) (hne : g ≠ [] → g' ≠ [])
    (hnl : g.head? = some '\n' → g'.head? = some '\n') : gapOK c t g' = true := by
  cases c with
  | cov => rfl
  | dl =>
    simp only [gapOK, Bool.or_eq_true, Bool.not_eq_true', List.isEmpty_eq_false_iff] at h ⊢
    exact h.imp id hne
  | wd =>
    simp only [gapOK, Bool.or_eq_true, Bool.not_eq_true', List.isEmpty_eq_false_iff] at h ⊢
    exact h.imp id hne
  | bk =>
    simp only [gapOK, Bool.not_eq_true', List.isEmpty_eq_false_iff] at h ⊢
    exact hne h
  | ln =>
    simp only [gapOK, beq_iff_eq] at h ⊢
    exact hnl h

/-- the newline translation changes the gaps only -/
theorem unl_layX : ∀ (l : List (Str × XTok)) (c : Ctx) (tail : Str), okX c l = true → (∀ p ∈ l, Solid p.2.text) →
    universalNl (layX l tail) = layX (l.map fun p => (universalNl p.1, p.2)) (universalNl tail) ∧
    okX c (l.map fun p => (universalNl p.1, p.2)) = true
  | [], _, _, _, _ => ⟨rfl, rfl⟩
  | (g, t) :: l, c, tail, ok, hs => by
    simp only [okX, Bool.and_eq_true] at ok
    obtain ⟨ih1, ih2⟩ := unl_layX l (ctxAfter t) tail ok.2 (fun p hp => hs p (List.mem_cons_of_mem _ hp))
    have hsol := hs (g, t) List.mem_cons_self
    obtain ⟨hg', hne⟩ := C01.universalNl_ws g ok.1.1
    constructor
    · simp only [layX, List.map_cons, List.append_assoc]
      rw [C01.universalNl_append (solid_head hsol _), C01.universalNl_solid _ _ hsol.2.1, ih1]
    · simp only [List.map_cons, okX, Bool.and_eq_true]
      exact ⟨⟨hg', gapOK_map ok.1.2 hne (universalNl_head_nl g)⟩, ih2⟩

/-- a gap in front of something solid stays a gap, stays non-empty, keeps a leading line feed -/
theorem rts_gap' {s : Str} (hs : C01.blankHead s = false) : ∀ g : Str, g.all isWs = true →
    ∃ g', g'.all isWs = true ∧ (g ≠ [] → g' ≠ []) ∧ (g.head? = some '\n' → g'.head? = some '\n') ∧ (g = [] → g' = []) ∧
      C01.rts (g ++ s) = g' ++ C01.rts s
  | [], _ => ⟨[], rfl, fun h => h, fun h => h, fun _ => rfl, rfl⟩
  | c :: g, h => by
    simp only [List.all_cons, Bool.and_eq_true] at h
    obtain ⟨g', hg', hne, _, _, e⟩ := rts_gap' hs g h.2
    have hnil : c :: g = [] → False := fun e => by cases e
    by_cases hc : c = '\n'
    · subst hc
      exact ⟨'\n' :: g', by simp [hg', C01.isWs_nl], fun _ => by simp, fun _ => rfl, fun e => (hnil e).elim,
        by simp [C01.rts_nl, e]⟩
    · have hnl : (c :: g).head? = some '\n' → False := by
        simp only [List.head?_cons, Option.some.injEq]; exact hc
      simp only [List.cons_append]
      rw [C01.rts_cons hc, e]
      split
      · next hb =>
        simp only [Bool.and_eq_true] at hb
        refine ⟨g', hg', fun _ => hne ?_, fun h' => (hnl h').elim, fun e => (hnil e).elim, rfl⟩
        rintro rfl
        rw [List.nil_append, hs] at hb
        exact absurd hb.2 (by simp)
      · exact ⟨c :: g', by simp [hg', h.1], fun _ => by simp, fun h' => (hnl h').elim, fun e => (hnil e).elim, rfl⟩

/-- the trailing-space removal changes the gaps only (an empty first gap stays empty) -/
theorem rts_layX : ∀ (l : List (Str × XTok)) (c : Ctx) (tail : Str), okX c l = true → (∀ p ∈ l, Solid p.2.text) →
    ∃ l', C01.rts (layX l tail) = layX l' (C01.rts tail) ∧ l'.map Prod.snd = l.map Prod.snd ∧ okX c l' = true ∧
      (∀ t r, l = ([], t) :: r → ∃ r', l' = ([], t) :: r')
  | [], _, _, _, _ => ⟨[], rfl, rfl, rfl, fun _ _ e => by cases e⟩
  | (g, t) :: l, c, tail, ok, hs => by
    simp only [okX, Bool.and_eq_true] at ok
    obtain ⟨l', e, hm, ok', _⟩ := rts_layX l (ctxAfter t) tail ok.2 (fun p hp => hs p (List.mem_cons_of_mem _ hp))
    have hsol := solid_rts (hs (g, t) List.mem_cons_self) (layX l tail)
    obtain ⟨g', hg', hne, hnl, hnil, eg⟩ := rts_gap' hsol.2 g ok.1.1
    refine ⟨(g', t) :: l', ?_, by simp [hm], ?_, ?_⟩
    · simp only [layX, List.append_assoc]
      rw [eg, hsol.1, e]
    · simp only [okX, Bool.and_eq_true]
      exact ⟨⟨hg', gapOK_map ok.1.2 hne hnl⟩, ok'⟩
    · intro t2 r2 e2
      simp only [List.cons.injEq, Prod.mk.injEq] at e2
      obtain ⟨⟨rfl, rfl⟩, _⟩ := e2
      exact ⟨l', by rw [hnil rfl]⟩

/-- **`remove_trailing_spaces` keeps the layout** when every token text is solid -/
theorem removeTrailing_layX (l : List (Str × XTok)) (c : Ctx) (ok : okX c l = true) (hs : ∀ p ∈ l, Solid p.2.text) :
    ∃ l', removeTrailingSpaces (layX l ['\n']) = layX l' ['\n'] ∧ l'.map Prod.snd = l.map Prod.snd ∧ okX c l' = true ∧
      (∀ t r, l = ([], t) :: r → ∃ r', l' = ([], t) :: r') := by
  obtain ⟨e1, ok1⟩ := unl_layX l c ['\n'] ok hs
  have hs1 : ∀ p ∈ l.map (fun p => (universalNl p.1, p.2)), Solid p.2.text := by
    intro p hp
    obtain ⟨q, hq, rfl⟩ := List.mem_map.mp hp
    exact hs q hq
  obtain ⟨l', e2, hm, ok2, hfirst⟩ := rts_layX _ c (universalNl ['\n']) ok1 hs1
  refine ⟨l', ?_, by rw [hm]; simp, ok2, ?_⟩
  · rw [C01.removeTrailingSpaces_eq, e1, e2]
    have : C01.rts (universalNl ['\n']) = ['\n'] := by decide
    rw [this]
  · intro t r e
    subst e
    exact hfirst t (r.map fun p => (universalNl p.1, p.2)) rfl

/-! ## 6. the tokens of the raw output; the document that is written -/

/-- every placeholder entry of the tree has its comment in the table of its kind -/
def phCov (L B : Tbl Str) : Entries → Bool
  | [] => true
  | (_, .dict es) :: r => phCov L B es && phCov L B r
  | (_, .list _) :: r => phCov L B r
  | (k, .leaf x) :: r =>
    (match phOf k x with
     | some (true, i) => (L.get? i).isSome
     | some (false, i) => (B.get? i).isSome
     | none => true) && phCov L B r

/-- what the tokens of the raw output are: admissible source tokens and well-formed placeholder lines with a comment
    in the table -/
def XOK (L B : Tbl Str) : XTok → Prop
  | .tok s => C02.TokOK s
  | .cmt _ _ => False
  | .ph l i pad => i ≤ 999999 ∧ pad ≠ [] ∧ pad.all isWs = true ∧ ((if l then L else B).get? i).isSome = true

theorem tokOK_word {w : Str} (h : isSrcWord w = true) : C02.TokOK (.word w) := Or.inl h

theorem tokOK_lit {l : Lit} (h : l.ok = true) : C02.TokOK l.tok := by
  cases l with
  | bare w => exact Or.inl h
  | quoted q b => exact h

theorem delims_ok : C02.TokOK (.word ['{']) ∧ C02.TokOK (.word ['}']) ∧ C02.TokOK (.word ['(']) ∧
    C02.TokOK (.word [')']) ∧ C02.TokOK (.word [';']) :=
  ⟨C02.tokOK_delim (by decide), C02.tokOK_delim (by decide), C02.tokOK_delim (by decide), C02.tokOK_delim (by decide),
    C02.tokOK_delim (by decide)⟩

theorem xtoks_ok (L B : Tbl Str) : ∀ (d lvl : Nat) (D : Entries), wshEs d D = true → phCov L B D = true →
    ∀ x ∈ xtoksEs lvl D, XOK L B x
  | _, _, [], _, _, x, hx => by simp [xtoksEs] at hx
  | d, lvl, (k, .dict es) :: r, h, hc, x, hx => by
    simp only [wshEs, Bool.and_eq_true] at h
    simp only [phCov, Bool.and_eq_true] at hc
    simp only [xtoksEs, List.mem_cons, List.mem_append, List.not_mem_nil, or_false] at hx
    rcases hx with ((rfl | rfl | hx) | rfl) | hx
    · exact tokOK_word (C01.domKey_word h.1.1)
    · exact delims_ok.1
    · exact xtoks_ok L B (d + 1) (lvl + 1) es h.1.2 hc.1 x hx
    · exact delims_ok.2.1
    · exact xtoks_ok L B d lvl r h.2 hc.2 x hx
  | d, lvl, (k, .list xs) :: r, h, hc, x, hx => by
    simp only [wshEs, Bool.and_eq_true] at h
    simp only [phCov] at hc
    simp only [xtoksEs, List.mem_cons, List.mem_append, List.mem_map, List.not_mem_nil, or_false] at hx
    rcases hx with (rfl | (rfl | ⟨t, ht, rfl⟩) | rfl | rfl) | hx
    · exact tokOK_word (C01.domKey_word h.1.1)
    · exact delims_ok.2.2.1
    · exact C02.srcToksXs_ok _ (d + 1) (C01.srcOfXs_wf (d + 1) xs h.1.2) t ht
    · exact delims_ok.2.2.2.1
    · exact delims_ok.2.2.2.2
    · exact xtoks_ok L B d lvl r h.2 hc x hx
  | d, lvl, (k, .leaf y) :: r, h, hc, x, hx => by
    simp only [wshEs, Bool.and_eq_true, Bool.or_eq_true, decide_eq_true_eq] at h
    simp only [phCov, Bool.and_eq_true] at hc
    simp only [xtoksEs, List.mem_append] at hx
    rcases hx with hx | hx
    · cases hp : phOf k y with
      | some li =>
        obtain ⟨l, i⟩ := li
        rw [hp] at hx hc
        simp only [List.mem_singleton] at hx
        subst hx
        refine ⟨(phOf_some hp).2.2, padOf_ne _ _, padOf_ws _ _, ?_⟩
        cases l <;> simpa using hc.1
      | none =>
        rw [hp] at hx h
        simp only [List.mem_cons, List.not_mem_nil, or_false] at hx
        rcases h.1 with h1 | h1
        · cases h1
        · rcases hx with rfl | rfl | rfl
          · exact tokOK_word (C01.domKey_word h1.1.1)
          · exact tokOK_lit (C01.written_ok h1.1.2)
          · exact delims_ok.2.2.2.2
    · exact xtoks_ok L B d lvl r h.2 hc.2 x hx

def lineBody (full : Str) : Str := full.drop 2
def blockBody (full : Str) : Str := ((full.drop 2).dropLast).dropLast

/-- **the document that is written** for a tree with placeholder entries and the two comment tables: a placeholder
    entry becomes its comment, every other entry is spelled as the writer spells it -/
def docEs (L B : Tbl Str) : Entries → List CItem
  | [] => []
  | (k, .dict es) :: r => .entry (keyStr k) (.dict (docEs L B es)) :: docEs L B r
  | (k, .list xs) :: r => .entry (keyStr k) (.list (srcOfXs .native xs)) :: docEs L B r
  | (k, .leaf x) :: r =>
    (match phOf k x with
     | some (true, i) => .lineC (lineBody ((L.get? i).getD []))
     | some (false, i) => .blockC (blockBody ((B.get? i).getD []))
     | none => .entry (keyStr k) (.lit (writtenLit .native x))) :: docEs L B r

/-- a token of the final text as a token of a commented document -/
def toC : XTok → CTok
  | .tok s => .tok s
  | .cmt true full => .lineC (lineBody full)
  | .cmt false full => .blockC (blockBody full)
  | .ph l i pad => .tok (.word (XTok.text (.ph l i pad)))

/-- both insertion passes on one token -/
def finalTok (L B : Tbl Str) (t : XTok) : XTok := substTokT true L (substTokT false B t)

theorem ctoks_doc (L B : Tbl Str) : ∀ (lvl : Nat) (D : Entries), phCov L B D = true →
    ctoksItems (docEs L B D) = (xtoksEs lvl D).map fun t => toC (finalTok L B t)
  | _, [], _ => by simp [docEs, xtoksEs, ctoksItems]
  | lvl, (k, .dict es) :: r, hc => by
    simp only [phCov, Bool.and_eq_true] at hc
    simp only [docEs, ctoksItems, xtoksEs, ctoks_doc L B (lvl + 1) es hc.1, ctoks_doc L B lvl r hc.2, List.map_cons,
      List.map_append, List.map_nil, finalTok, substTokT, toC, List.cons_append, List.append_assoc, List.nil_append]
  | lvl, (k, .list xs) :: r, hc => by
    simp only [phCov] at hc
    simp only [docEs, ctoksItems, xtoksEs, ctoks_doc L B lvl r hc, List.map_cons,
      List.map_append, List.map_nil, List.map_map, finalTok, substTokT, toC, List.cons_append, List.append_assoc,
      List.nil_append, List.cons.injEq, true_and]
    congr 1
  | lvl, (k, .leaf x) :: r, hc => by
    simp only [phCov, Bool.and_eq_true] at hc
    have ih := ctoks_doc L B lvl r hc.2
    cases hp : phOf k x with
    | none =>
      simp only [docEs, hp, ctoksItems, xtoksEs, ih, List.map_cons, List.map_append, List.map_nil, finalTok, substTokT,
        toC, List.cons_append, List.nil_append]
    | some li =>
      obtain ⟨l, i⟩ := li
      rw [hp] at hc
      cases l with
      | true =>
        obtain ⟨txt, ht⟩ := Option.isSome_iff_exists.mp hc.1
        simp [docEs, hp, ctoksItems, xtoksEs, ih, finalTok, substTokT, toC, ht]
      | false =>
        obtain ⟨txt, ht⟩ := Option.isSome_iff_exists.mp hc.1
        simp [docEs, hp, ctoksItems, xtoksEs, ih, finalTok, substTokT, toC, ht]

/-! ## 7. from the layout to `spreadC` / `GapsOKC` -/

/-- a token of the final text: a source token or a comment with its delimiters -/
def WellC : XTok → Prop
  | .tok _ => True
  | .cmt true full => ∃ x, full = '/' :: '/' :: x
  | .cmt false full => ∃ x, full = '/' :: '*' :: x ++ ['*', '/']
  | .ph _ _ _ => False

theorem blockBody_eq (x : Str) : blockBody ('/' :: '*' :: x ++ ['*', '/']) = x := by
  have : ∀ x : Str, ((x ++ ['*', '/']).dropLast).dropLast = x := by
    intro x
    rw [show x ++ ['*', '/'] = (x ++ ['*']) ++ ['/'] by simp, List.dropLast_concat, List.dropLast_concat]
  simp [blockBody]

theorem toC_text {t : XTok} (h : WellC t) : (toC t).text = t.text := by
  cases t with
  | tok s => rfl
  | ph l i pad => exact h.elim
  | cmt l full =>
    cases l with
    | true => obtain ⟨x, rfl⟩ := h; rfl
    | false =>
      obtain ⟨x, rfl⟩ := h
      simp only [toC, blockBody_eq, CTok.text, XTok.text]

theorem layX_spreadC : ∀ (l : List (Str × XTok)) (tail : Str), (∀ p ∈ l, WellC p.2) →
    layX l tail = spreadC (l.map fun p => toC p.2) (l.map Prod.fst) tail
  | [], _, _ => rfl
  | (g, t) :: l, tail, h => by
    have ih := layX_spreadC l tail (fun p hp => h p (List.mem_cons_of_mem _ hp))
    simp only [spreadC] at ih ⊢
    simp only [layX, List.map_cons, spread, toC_text (h (g, t) List.mem_cons_self), ih, List.append_assoc]

theorem isCommentX_toC {t : XTok} (h : WellC t) :
    (isCommentX t = false ∧ ∃ s, t = .tok s) ∨ (∃ f, t = .cmt true f) ∨ (∃ f, t = .cmt false f) := by
  cases t with
  | tok s => exact Or.inl ⟨rfl, s, rfl⟩
  | ph l i pad => exact h.elim
  | cmt l full => cases l; exact Or.inr (Or.inr ⟨full, rfl⟩); exact Or.inr (Or.inl ⟨full, rfl⟩)

/-- an admissible layout in the sense of section 1 whose first gap is fine is admissible in the sense of `GapsOKC` -/
theorem gapsOKC_of_okX (tail : Str) (ht : tail.all isWs = true) (hnl : tail.head? = some '\n') :
    ∀ (l : List (Str × XTok)) (c : Ctx), okX c l = true → (∀ p ∈ l, WellC p.2) →
    (∀ g t r, l = (g, t) :: r → isCommentX t = true → g ≠ []) →
    GapsOKC (l.map fun p => toC p.2) (l.map Prod.fst) tail = true
  | [], _, _, _, _ => rfl
  | [(g, t)], c, ok, hw, hfirst => by
    simp only [okX, Bool.and_eq_true] at ok
    have hg := hfirst g t [] rfl
    simp only [List.map_cons, List.map_nil, GapsOKC, Bool.and_eq_true, ok.1.1, ht, true_and]
    rcases isCommentX_toC (hw (g, t) List.mem_cons_self) with ⟨_, s, rfl⟩ | ⟨f, rfl⟩ | ⟨f, rfl⟩
    · rfl
    · simp [toC, hnl, hg rfl]
    · simp [toC, hg rfl]
  | (g, t) :: (g', u) :: l, c, ok, hw, hfirst => by
    simp only [okX, Bool.and_eq_true] at ok
    obtain ⟨⟨hgws, _⟩, ⟨⟨hg'ws, hgap⟩, okr⟩⟩ := ok
    have hg := hfirst g t _ rfl
    have hwu := hw (g', u) (by simp)
    -- the gap in front of `u` is non-empty when `u` is a comment
    have hu : isCommentX u = true → g' ≠ [] := by
      intro hcu
      rcases isCommentX_toC (hw (g, t) List.mem_cons_self) with ⟨_, s, rfl⟩ | ⟨f, rfl⟩ | ⟨f, rfl⟩
      · cases hd : isDelimSTok s
        · simp only [ctxAfter, hd, gapOK, Bool.false_eq_true, if_false, Bool.or_eq_true, Bool.not_eq_true',
            List.isEmpty_eq_false_iff] at hgap
          rcases hgap with h | h
          · cases u <;> simp_all [isDelimX, isCommentX]
          · exact h
        · simp only [ctxAfter, hd, gapOK, if_true, Bool.or_eq_true, Bool.not_eq_true',
            List.isEmpty_eq_false_iff, hcu] at hgap
          rcases hgap with h | h
          · cases h
          · exact h
      · simp only [ctxAfter, gapOK, beq_iff_eq] at hgap
        intro e; rw [e] at hgap; cases hgap
      · simpa [ctxAfter, gapOK] using hgap
    have ih := gapsOKC_of_okX tail ht hnl ((g', u) :: l) (ctxAfter t) (by simp [okX, hg'ws, hgap, okr])
      (fun p hp => hw p (List.mem_cons_of_mem _ hp))
      (fun g2 t2 r2 e hc2 => by
        simp only [List.cons.injEq, Prod.mk.injEq] at e
        obtain ⟨⟨rfl, rfl⟩, _⟩ := e
        exact hu hc2)
    simp only [List.map_cons] at ih ⊢
    simp only [GapsOKC, Bool.and_eq_true, hgws, ih, and_true, true_and]
    rcases isCommentX_toC (hw (g, t) List.mem_cons_self) with ⟨_, s, rfl⟩ | ⟨f, rfl⟩ | ⟨f, rfl⟩
    · rcases isCommentX_toC hwu with ⟨_, s', rfl⟩ | ⟨f, rfl⟩ | ⟨f, rfl⟩
      · simp only [toC]
        cases hd : isDelimSTok s
        · simp only [ctxAfter, hd, gapOK, isDelimX, Bool.false_eq_true, if_false] at hgap
          simpa [Bool.or_comm] using hgap
        · simp
      · simpa [toC] using hu rfl
      · simpa [toC] using hu rfl
    · simp only [ctxAfter, gapOK, beq_iff_eq] at hgap
      simp [toC, hg rfl, hgap]
    · have : g' ≠ [] := by simpa [ctxAfter, gapOK] using hgap
      simp [toC, hg rfl, this]

/-- the top of a text: put a line feed in front and the first gap is fine -/
theorem gapsOKC_top (l : List (Str × XTok)) (g0 : Str) (t0 : XTok) (ok : okX .cov ((g0, t0) :: l) = true)
    (hw : ∀ p ∈ (g0, t0) :: l, WellC p.2) :
    GapsOKC (((g0, t0) :: l).map fun p => toC p.2) (('\n' :: g0) :: l.map Prod.fst) ['\n'] = true := by
  have := gapsOKC_of_okX ['\n'] (by decide) rfl (('\n' :: g0, t0) :: l) .cov
    (by
      simp only [okX, Bool.and_eq_true] at ok ⊢
      refine ⟨⟨?_, rfl⟩, ok.2⟩
      simp only [List.all_cons, Bool.and_eq_true]
      exact ⟨by decide, ok.1.1⟩)
    (by
      intro p hp
      rcases List.mem_cons.mp hp with rfl | hp
      · exact hw (g0, t0) List.mem_cons_self
      · exact hw p (List.mem_cons_of_mem _ hp))
    (by
      intro g t r e _
      simp only [List.cons.injEq, Prod.mk.injEq] at e
      rw [← e.1.1]; simp)
  simpa using this

/-! ## 8. the texts: source tokens, comment texts, the default header -/

theorem tbl_get_mem {α} {i : Nat} {a : α} : ∀ {t : Tbl α}, Tbl.get? i t = some a → (i, a) ∈ t
  | [], h => by simp [Tbl.get?] at h
  | (j, b) :: t, h => by
    simp only [Tbl.get?] at h
    split at h
    · next e => cases h; subst e; exact List.mem_cons_self
    · exact List.mem_cons_of_mem _ (tbl_get_mem h)

theorem kwComment_in_ph (l : Bool) (i : Nat) : isInfix C12.kwComment (phWord l i) = true := by
  have h1 : isInfix C12.kwComment (kwOf l) = true := by cases l <;> decide
  obtain ⟨a, b, e⟩ := C01.isInfix_iff.mp h1
  exact C01.isInfix_iff.mpr ⟨a, b ++ padSix i, by simp only [phWord]; rw [show (if l then kwLine else kwBlock) = kwOf l from rfl, e]; simp⟩

/-- a text without the word `COMMENT` contains no placeholder word -/
theorem noPh_of_noComment {s : Str} (h : isInfix C12.kwComment s = false) : NoPh s := by
  intro l i _
  cases hc : isInfix (phWord l i) s with
  | false => rfl
  | true => rw [C02.Front.isInfix_trans (kwComment_in_ph l i) hc] at h; cases h

theorem tokGood_of_ok {t : STok} (h : C02.TokOK t) : C01.TokGood t := by
  cases t with
  | word w =>
    rcases h with h | h
    · exact C01.tokGood_srcWord h
    · obtain ⟨c, rfl, hc⟩ := C02.delimTok_inv h
      exact C01.tokGood_word (by simp) (by
        intro x hx
        simp only [List.mem_singleton] at hx
        subst hx
        exact (C12.Stages.delim_ne x hc).2.2.2.2)
  | quoted q b => exact C01.tokGood_quoted h

theorem solid_of_good {t : STok} (h : C01.TokGood t) : Solid t.text := by
  obtain ⟨a, z, htx, hz, hch⟩ := h
  have ha : ∀ c ∈ a, c ≠ '\n' := fun c hc => (hch c (by rw [htx]; simp [hc])).1
  have := C01.rts_solid hz [] a ha
  refine ⟨⟨a, z, htx, hz⟩, fun c hc => (hch c hc).2, ?_, ?_⟩
  · rw [htx]; simpa [C01.rts_nil] using this.2
  · rw [htx]; simpa using this.1

/-- a line comment as it stands in the table: `//` + a one-line text that does not end in white space (trailing white
    space would be removed by `remove_trailing_spaces`) and contains no placeholder word -/
def LineFull (full : Str) : Prop :=
  ∃ x, full = '/' :: '/' :: x ∧ isLineCText x = true ∧ (∀ z, x.getLast? = some z → isWs z = false) ∧ NoPh full

/-- a block comment as it stands in the table: `/*` + text + `*/`, no carriage return, no line with trailing white
    space (`remove_trailing_spaces` leaves it alone), no placeholder word -/
def BlockFull (full : Str) : Prop :=
  ∃ x, full = '/' :: '*' :: x ++ ['*', '/'] ∧ isBlockCText x = true ∧ (∀ c ∈ full, c ≠ '\r') ∧ C01.rts full = full ∧
    NoPh full

theorem slash_facts : isWs '/' = false ∧ '/' ≠ '\n' := by decide

theorem lineBreak_nl_cr : isLineBreak '\n' = true ∧ isLineBreak '\r' = true := by decide

theorem solid_line {full : Str} (h : LineFull full) : Solid full := by
  obtain ⟨x, rfl, hx, hlast, _⟩ := h
  simp only [isLineCText, List.all_eq_true, Bool.not_eq_true'] at hx
  have hnl : ∀ c ∈ '/' :: '/' :: x, c ≠ '\n' ∧ c ≠ '\r' := by
    intro c hc
    simp only [List.mem_cons] at hc
    rcases hc with rfl | rfl | hc
    · decide
    · decide
    · have := hx c hc
      constructor
      · rintro rfl; rw [lineBreak_nl_cr.1] at this; cases this
      · rintro rfl; rw [lineBreak_nl_cr.2] at this; cases this
  have hend : ∃ a z, '/' :: '/' :: x = a ++ [z] ∧ isWs z = false := by
    rcases List.eq_nil_or_concat x with rfl | ⟨x', z, rfl⟩
    · exact ⟨['/'], '/', rfl, slash_facts.1⟩
    · exact ⟨'/' :: '/' :: x', z, by simp, hlast z (by simp)⟩
  obtain ⟨a, z, e, hz⟩ := hend
  have ha : ∀ c ∈ a, c ≠ '\n' := fun c hc => (hnl c (by rw [e]; simp [hc])).1
  have := C01.rts_solid hz [] a ha
  refine ⟨⟨a, z, e, hz⟩, fun c hc => (hnl c hc).2, ?_, ?_⟩
  · rw [e]; simpa [C01.rts_nil] using this.2
  · rw [e]; simpa using this.1

theorem solid_block {full : Str} (h : BlockFull full) : Solid full := by
  obtain ⟨x, rfl, _, hcr, hfix, _⟩ := h
  refine ⟨⟨'/' :: '*' :: x ++ ['*'], '/', by simp, slash_facts.1⟩, hcr, hfix, ?_⟩
  rw [List.cons_append, C01.blankHead_cons slash_facts.2, slash_facts.1]
  rfl

theorem wellC_line {full : Str} (h : LineFull full) : WellC (.cmt true full) := by
  obtain ⟨x, rfl, _⟩ := h; exact ⟨x, rfl⟩

theorem wellC_block {full : Str} (h : BlockFull full) : WellC (.cmt false full) := by
  obtain ⟨x, rfl, _⟩ := h; exact ⟨x, rfl⟩

/-! ### the default header as a block comment -/

theorem hdr_noComment : isInfix C12.kwComment C12.hdrComment = false := by decide +kernel
theorem hdr_noCr : ∀ c ∈ C12.hdrComment, c ≠ '\r' := by decide +kernel
theorem hdr_rts : C01.rts C12.hdrComment = C12.hdrComment := by decide +kernel
theorem hdrBody_text : isBlockCText C12.hdrBody = true := by decide +kernel

theorem hdr_blockFull : BlockFull C12.hdrComment :=
  ⟨C12.hdrBody, C12.hdrComment_shape, hdrBody_text, hdr_noCr, hdr_rts, noPh_of_noComment hdr_noComment⟩

/-! ## 9. helpers for the writer theorem -/

theorem substTokT_nil (l : Bool) (t : XTok) : substTokT l [] t = t := by
  cases t <;> simp [substTokT, Tbl.get?]

theorem ctxAfter_substTokT (l : Bool) (T : Tbl Str) (t : XTok) : ctxAfter (substTokT l T t) = ctxAfter t := by
  cases t with
  | tok s => rfl
  | cmt l' full => rfl
  | ph l' j pad =>
    simp only [substTokT]
    split
    · next h =>
      subst h
      split
      · cases l' <;> rfl
      · rfl
    · rfl

theorem gapOK_substTokT (c : Ctx) (l : Bool) (T : Tbl Str) (t : XTok) (g : Str) :
    gapOK c (substTokT l T t) g = gapOK c t g := by
  cases t with
  | tok s => rfl
  | cmt l' full => rfl
  | ph l' j pad =>
    simp only [substTokT]
    split
    · split
      · cases c <;> rfl
      · rfl
    · rfl

theorem okX_mapT (l : Bool) (T : Tbl Str) : ∀ (lay : List (Str × XTok)) (c : Ctx),
    okX c (lay.map fun p => (p.1, substTokT l T p.2)) = okX c lay
  | [], _ => rfl
  | (g, t) :: lay, c => by
    simp only [List.map_cons, okX, ctxAfter_substTokT, gapOK_substTokT, okX_mapT l T lay]

/-- the default header in front of a comment brings in no placeholder word -/
theorem noPh_hdr_append {t : Str} (ht : NoPh t) : NoPh (nativeHeader ++ t) := by
  intro l i hi
  cases hc : isInfix (phWord l i) (nativeHeader ++ t) with
  | false => rfl
  | true =>
    exfalso
    obtain ⟨c0, P', hP, hc0⟩ := phWord_head l i
    have hnl : '\n' ∉ phWord l i := fun h => (phWord_chars l i _ h).2.2.2.2.2.2.1 rfl
    rw [C12.nativeHeader_split, List.append_assoc] at hc
    rcases C12.infix_append_cases hc with h | h | ⟨p1, c2, p2, e1, _, _, hh⟩
    · have := (noPh_of_noComment hdr_noComment) l i hi
      rw [this] at h; cases h
    · rcases C12.infix_append_cases h with h | h | ⟨p1, c2, p2, e1, hne1, hm, _⟩
      · rw [hP] at h
        have := C01.isInfix_cons_mem h
        simp only [List.mem_singleton] at this
        exact hnl (by rw [hP, this]; simp)
      · rw [ht l i hi] at h; cases h
      · obtain ⟨c, hcm⟩ := List.exists_mem_of_ne_nil _ hne1
        have := hm c hcm
        simp only [List.mem_singleton] at this
        subst this
        exact hnl (by rw [e1]; simp [hcm])
    · simp only [List.singleton_append, List.head?_cons, Option.some.injEq] at hh
      subst hh
      exact hnl (by rw [e1]; simp)

theorem word_head {w : Str} (h : isSrcWord w = true) : ∃ c s, w = c :: s ∧ isWs c = false := by
  have hw := (C01.isSrcWord_iff.mp h).1
  simp only [isWordTok, Bool.and_eq_true, Bool.not_eq_true', List.all_eq_true] at hw
  cases w with
  | nil => simp at hw
  | cons c s => exact ⟨c, s, rfl, (hw.1.2 c (by simp)).1⟩

/-- the raw output of the writer starts with a non-blank -/
theorem fmt_head {d : Nat} {e : Key × Val} {r : Entries} (h : wshEs d (e :: r) = true) :
    ∃ c, (fmtEntries .native 0 (e :: r)).head? = some c ∧ isWs c = false := by
  obtain ⟨k, v⟩ := e
  have hsp : spaces (4 * 0) = [] := rfl
  cases v with
  | dict es =>
    simp only [wshEs, Bool.and_eq_true] at h
    obtain ⟨c, s, e, hc⟩ := word_head (C01.domKey_word h.1.1)
    refine ⟨c, ?_, hc⟩
    simp only [fmtEntries, fline, hsp, e, List.nil_append, List.cons_append, List.append_assoc, List.head?_cons]
  | list xs =>
    simp only [wshEs, Bool.and_eq_true] at h
    obtain ⟨c, s, e, hc⟩ := word_head (C01.domKey_word h.1.1)
    refine ⟨c, ?_, hc⟩
    simp only [fmtEntries, fline, hsp, e, List.nil_append, List.cons_append, List.append_assoc, List.head?_cons]
  | leaf x =>
    simp only [wshEs, Bool.and_eq_true, Bool.or_eq_true, decide_eq_true_eq] at h
    cases hp : phOf k x with
    | some li =>
      obtain ⟨l, i⟩ := li
      obtain ⟨rfl, rfl, _⟩ := phOf_some hp
      obtain ⟨c, s, e, hc⟩ := phWord_head l i
      refine ⟨c, ?_, hc⟩
      simp only [fmtEntries, fline, hsp, formatKey, phWord_format, List.nil_append]
      rw [e]
      simp only [List.cons_append, List.append_assoc, List.head?_cons]
    | none =>
      rw [hp] at h
      rcases h.1 with h1 | h1
      · cases h1
      · obtain ⟨c, s, e, hc⟩ := word_head (C01.domKey_word h1.1.1)
        refine ⟨c, ?_, hc⟩
        simp only [fmtEntries, fline, hsp, C01.formatKey_eq_keyStr h1.1.1, List.nil_append]
        rw [e]
        simp only [List.cons_append, List.append_assoc, List.head?_cons]

theorem xtoks_nil {lvl : Nat} : ∀ {D : Entries}, xtoksEs lvl D = [] → D = []
  | [], _ => rfl
  | (k, .dict es) :: r, h => by simp [xtoksEs] at h
  | (k, .list xs) :: r, h => by simp [xtoksEs] at h
  | (k, .leaf x) :: r, h => by
    simp only [xtoksEs, List.append_eq_nil_iff] at h
    cases hp : phOf k x with
    | some li => obtain ⟨l, i⟩ := li; rw [hp] at h; simp at h
    | none => rw [hp] at h; simp at h

/-- the raw output as a layout: first gap empty, final gap one line feed -/
theorem raw_layout {D : Entries} (h : wshEs 1 D = true) (hne : D ≠ []) :
    ∃ t r, ((([] : Str), t) :: r).map Prod.snd = xtoksEs 0 D ∧
      fmtEntries .native 0 D = layX (([], t) :: r) ['\n'] ∧ okX .cov (([], t) :: r) = true := by
  rcases lays_entriesX 1 0 D h with ⟨hx, _⟩ | ⟨_, lay, hm, htxt, ok, _⟩
  · exact absurd (xtoks_nil hx) hne
  · cases D with
    | nil => exact absurd rfl hne
    | cons e D' =>
      obtain ⟨c, hcs, hc⟩ := fmt_head h
      cases lay with
      | nil =>
        rw [htxt] at hcs
        simp only [layX, List.head?_cons, Option.some.injEq] at hcs
        rw [← hcs] at hc; cases hc
      | cons p lay' =>
        obtain ⟨g, t⟩ := p
        have hg : g = [] := by
          cases g with
          | nil => rfl
          | cons y g' =>
            rw [htxt] at hcs
            simp only [layX, List.cons_append, List.head?_cons, Option.some.injEq] at hcs
            simp only [okX, List.all_cons, Bool.and_eq_true] at ok
            rw [← hcs, ok.1.1.1] at hc; cases hc
        subst hg
        exact ⟨t, lay', hm, htxt, ok⟩

/-- outside the first id, the completed table and the table agree -/
theorem substTokT_blockTbl {i0 : Nat} {t0 : Str} {B : Tbl Str} {t : XTok} (h : isPhX false i0 t = false) :
    substTokT false (blockTbl ((i0, t0) :: B)) t = substTokT false ((i0, t0) :: B) t := by
  cases t with
  | tok s => rfl
  | cmt l' full => rfl
  | ph l' j pad =>
    cases l' with
    | true => simp [substTokT]
    | false =>
      have hj : ¬ i0 = j := by
        have : ¬ j = i0 := by simpa [isPhX] using h
        exact fun e => this e.symm
      simp [substTokT, blockTbl, Tbl.get?, hj]

/-! ## 10. the writer on an SDict with comments -/

def ownHeader (B : Tbl Str) : Bool :=
  match B with
  | (_, t) :: _ => containsCpp t
  | [] => false

/-- the default header, when the first block comment is no header of its own -/
def hdrToks (B : Tbl Str) : List XTok := if ownHeader B then [] else [.cmt false C12.hdrComment]
def hdrItems (B : Tbl Str) : List CItem := if ownHeader B then [] else [.blockC C12.hdrBody]

/-- the first block comment of the table stands first in the (hoisted) top level, and only there -/
def FirstOK (B : Tbl Str) (xs : List XTok) : Prop :=
  match B with
  | [] => True
  | (i0, _) :: _ => ∃ pad r, xs = .ph false i0 pad :: r ∧ ∀ t ∈ r, isPhX false i0 t = false

theorem tokInv_of_xok {L B : Tbl Str} {t : XTok} (h : XOK L B t) : TokInv t := by
  cases t with
  | tok s => exact noPh_of_noComment (C12.tok_noComment h).1
  | cmt l f => exact h.elim
  | ph l i pad => exact ⟨h.1, h.2.1, h.2.2.1⟩

theorem any_map_snd (lay : List (Str × XTok)) (p : XTok → Bool) :
    (lay.any fun q => p q.2) = (lay.map Prod.snd).any p := by
  induction lay with
  | nil => rfl
  | cons q lay ih => simp [ih]

theorem nativeHeader_lay (s : Str) : nativeHeader ++ s = C12.hdrComment ++ ('\n' :: s) := by
  rw [C12.nativeHeader_split]; simp

theorem block_stage (L B : Tbl Str) (D : Entries) (hsh : wshEs 1 D = true) (hcov : phCov L B D = true)
    (hB : ∀ e ∈ B, e.1 ≤ 999999 ∧ BlockFull e.2) (hnd : (B.map (·.1)).Nodup)
    (hpres : ∀ e ∈ B, ((xtoksEs 0 D).any fun t => isPhX false e.1 t) = true)
    (hfirst : FirstOK B (xtoksEs 0 D)) (hind : indepFrom [] ((blockTbl B).map (·.2)) = true) :
    ∃ t r, ((([] : Str), t) :: r).map Prod.snd = hdrToks B ++ (xtoksEs 0 D).map (substTokT false B) ∧
      insertBlockComments .native B (fmtEntries .native 0 D) = layX (([], t) :: r) ['\n'] ∧
      okX .cov (([], t) :: r) = true := by
  by_cases hD : D = []
  · subst hD
    cases B with
    | cons e B' => have := hpres e List.mem_cons_self; simp [xtoksEs] at this
    | nil =>
      refine ⟨.cmt false C12.hdrComment, [], by simp [hdrToks, ownHeader, xtoksEs], ?_, by simp [okX, gapOK]⟩
      rw [C12.C12_header_default]
      simp [fmtEntries, layX, XTok.text, C12.nativeHeader_split]
  · obtain ⟨t0, r0, hm, hraw, ok⟩ := raw_layout hsh hD
    have hxok := xtoks_ok L B 1 0 D hsh hcov
    simp only [okX, Bool.and_eq_true] at ok
    cases B with
    | nil =>
      refine ⟨.cmt false C12.hdrComment, (['\n'], t0) :: r0, ?_, ?_, ?_⟩
      · simp only [List.map_cons] at hm
        simp [hdrToks, ownHeader, ← hm, substTokT_nil]
      · rw [C12.C12_header_default, hraw, nativeHeader_lay]
        simp [layX, XTok.text]
      · simp only [okX, Bool.and_eq_true, gapOK_nl, and_true]
        exact ⟨⟨rfl, rfl⟩, ⟨by decide, ok.2⟩⟩
    | cons e B' =>
      obtain ⟨i0, t0'⟩ := e
      obtain ⟨pad, rx, hxs, huniq⟩ := hfirst
      simp only [List.map_cons] at hm
      rw [hxs] at hm
      simp only [List.cons.injEq] at hm
      obtain ⟨ht0, hr0⟩ := hm
      subst ht0
      have hinv : ∀ p ∈ (([] : Str), XTok.ph false i0 pad) :: r0, TokInv p.2 := by
        intro p hp
        apply tokInv_of_xok (L := L) (B := (i0, t0') :: B')
        apply hxok
        rw [hxs, ← hr0]
        rcases List.mem_cons.mp hp with rfl | hp
        · exact List.mem_cons_self
        · exact List.mem_cons_of_mem _ (List.mem_map_of_mem hp)
      have hhdr : NoPh (makeDefaultBlockComment .native t0') := by
        have h0 := (hB (i0, t0') List.mem_cons_self).2
        obtain ⟨_, _, _, _, _, hno⟩ := h0
        rw [C12.makeDefault_native]
        split
        · exact hno
        · exact noPh_hdr_append hno
      have hins := insertBlock_layX (i0, t0') B' (([], XTok.ph false i0 pad) :: r0) .cov ['\n']
        (by simp only [okX, Bool.and_eq_true]; exact ok) (by decide) hinv
        (by
          intro e' he'
          have h1 := hB e' he'
          obtain ⟨_, _, _, _, _, hno⟩ := h1.2
          refine ⟨h1.1, hno, ?_⟩
          rw [any_map_snd]
          simp only [List.map_cons, hr0, ← hxs]
          exact hpres e' he')
        hhdr hnd hind
      rw [hraw, hins]
      -- the layout after the pass: the completed first comment, the rest substituted from the table itself
      have hrest : r0.map (fun p => (p.1, substTokT false (blockTbl ((i0, t0') :: B')) p.2)) =
          r0.map (fun p => (p.1, substTokT false ((i0, t0') :: B') p.2)) := by
        apply List.map_congr_left
        intro p hp
        rw [substTokT_blockTbl (huniq p.2 (by rw [← hr0]; exact List.mem_map_of_mem hp))]
      have hhead : substTokT false (blockTbl ((i0, t0') :: B')) (XTok.ph false i0 pad) =
          .cmt false (makeDefaultBlockComment .native t0') := by
        simp [substTokT, blockTbl, Tbl.get?]
      have hhead' : substTokT false ((i0, t0') :: B') (XTok.ph false i0 pad) = .cmt false t0' := by
        simp [substTokT, Tbl.get?]
      have okr : okX .bk (r0.map fun p => (p.1, substTokT false ((i0, t0') :: B') p.2)) = true := by
        rw [okX_mapT]; exact ok.2
      simp only [List.map_cons, hhead, hrest]
      by_cases hcpp : containsCpp t0' = true
      · refine ⟨.cmt false t0', r0.map (fun p => (p.1, substTokT false ((i0, t0') :: B') p.2)), ?_, ?_, ?_⟩
        · simp [hdrToks, ownHeader, hcpp, hxs, hhead', ← hr0, List.map_map, Function.comp]
        · rw [C12.makeDefault_native, if_pos hcpp]
        · simp only [okX, Bool.and_eq_true]
          exact ⟨⟨rfl, rfl⟩, okr⟩
      · refine ⟨.cmt false C12.hdrComment,
          (['\n'], .cmt false t0') :: r0.map (fun p => (p.1, substTokT false ((i0, t0') :: B') p.2)), ?_, ?_, ?_⟩
        · simp [hdrToks, ownHeader, hcpp, hxs, hhead', ← hr0, List.map_map, Function.comp]
        · rw [C12.makeDefault_native, if_neg hcpp]
          simp only [layX, XTok.text, List.nil_append]
          rw [List.append_assoc, nativeHeader_lay]
          simp
        · simp only [okX, Bool.and_eq_true, gapOK_nl, and_true]
          exact ⟨⟨rfl, rfl⟩, ⟨by decide, okr⟩⟩

/-- the hypotheses of the writer theorem on an SDict -/
structure WOK (sd : SD) : Prop where
  shape : wshEs 1 (hoistPlaceholders sd.data) = true
  cov : phCov sd.lineC sd.blockC (hoistPlaceholders sd.data) = true
  lineT : ∀ e ∈ sd.lineC, e.1 ≤ 999999 ∧ LineFull e.2
  blockT : ∀ e ∈ sd.blockC, e.1 ≤ 999999 ∧ BlockFull e.2
  bNodup : (sd.blockC.map (·.1)).Nodup
  bPres : ∀ e ∈ sd.blockC, ((xtoksEs 0 (hoistPlaceholders sd.data)).any fun t => isPhX false e.1 t) = true
  first : FirstOK sd.blockC (xtoksEs 0 (hoistPlaceholders sd.data))
  indep : indepFrom [] ((blockTbl sd.blockC).map (·.2)) = true
  incl : sd.incl = []

/-- the commented document the writer writes for an SDict: the default header unless the first block comment is a
    header, then the (hoisted) top level with every placeholder entry replaced by its comment -/
def docSD (sd : SD) : List CItem :=
  hdrItems sd.blockC ++ docEs sd.lineC sd.blockC (hoistPlaceholders sd.data)

/-- a token of the raw output after the block-comment pass -/
theorem tokInv_stage1 {L B : Tbl Str} (hB : ∀ e ∈ B, e.1 ≤ 999999 ∧ BlockFull e.2) {x : XTok} (hx : XOK L B x) :
    TokInv (substTokT false B x) := by
  cases x with
  | tok s => exact tokInv_of_xok hx
  | cmt l f => exact hx.elim
  | ph l i pad =>
    cases l with
    | true => exact ⟨hx.1, hx.2.1, hx.2.2.1⟩
    | false =>
      obtain ⟨txt, ht⟩ := Option.isSome_iff_exists.mp hx.2.2.2
      simp only [Bool.false_eq_true, if_false] at ht
      simp only [substTokT, if_true, ht]
      obtain ⟨_, _, _, _, _, hno⟩ := (hB _ (tbl_get_mem ht)).2
      exact hno

/-- a token of the raw output after both passes: solid, and a token of a commented document -/
theorem final_tok_facts {L B : Tbl Str} (hL : ∀ e ∈ L, e.1 ≤ 999999 ∧ LineFull e.2)
    (hB : ∀ e ∈ B, e.1 ≤ 999999 ∧ BlockFull e.2) {x : XTok} (hx : XOK L B x) :
    Solid (finalTok L B x).text ∧ WellC (finalTok L B x) := by
  cases x with
  | tok s => exact ⟨solid_of_good (tokGood_of_ok hx), trivial⟩
  | cmt l f => exact hx.elim
  | ph l i pad =>
    obtain ⟨txt, ht⟩ := Option.isSome_iff_exists.mp hx.2.2.2
    cases l with
    | true =>
      simp only [if_true] at ht
      have : finalTok L B (.ph true i pad) = .cmt true txt := by simp [finalTok, substTokT, ht]
      rw [this]
      exact ⟨solid_line (hL _ (tbl_get_mem ht)).2, wellC_line (hL _ (tbl_get_mem ht)).2⟩
    | false =>
      simp only [Bool.false_eq_true, if_false] at ht
      have : finalTok L B (.ph false i pad) = .cmt false txt := by simp [finalTok, substTokT, ht]
      rw [this]
      exact ⟨solid_block (hB _ (tbl_get_mem ht)).2, wellC_block (hB _ (tbl_get_mem ht)).2⟩

theorem toC_hdr : toC (.cmt false C12.hdrComment) = .blockC C12.hdrBody := by
  have : C12.hdrComment = '/' :: '*' :: C12.hdrBody ++ ['*', '/'] := C12.hdrComment_shape
  simp only [toC]
  rw [this, blockBody_eq]

theorem ctoks_hdr (B : Tbl Str) (doc : List CItem) :
    ctoksItems (hdrItems B ++ doc) = (hdrToks B).map toC ++ ctoksItems doc := by
  simp only [hdrItems, hdrToks]
  split
  · rfl
  · simp only [List.singleton_append, ctoksItems, List.map_cons, List.map_nil, toC_hdr]

/-- the tokens of the final text -/
def finalToks (sd : SD) : List XTok :=
  hdrToks sd.blockC ++ (xtoksEs 0 (hoistPlaceholders sd.data)).map (finalTok sd.lineC sd.blockC)

theorem finalToks_doc (sd : SD) (h : WOK sd) : (finalToks sd).map toC = ctoksItems (docSD sd) := by
  rw [finalToks, docSD, ctoks_hdr, ctoks_doc sd.lineC sd.blockC 0 _ h.cov]
  simp only [List.map_append, List.map_map]
  rfl

/-- **M2, layout form.**  After `insert_block_comments` and `insert_line_comments` the raw output is a layout in which
    every placeholder line `PH<pad>PH;` has become its comment (the first block comment completed by the default
    header, written as a block comment of its own in front, unless it is a header itself; with no block comment at all
    the default header stands first): first gap empty, final gap one line feed, admissible, every token solid. -/
theorem insert_comments_layout (sd : SD) (h : WOK sd) :
    ∃ t r, ((([] : Str), t) :: r).map Prod.snd = finalToks sd ∧
      insertLineComments sd.lineC (insertBlockComments .native sd.blockC
        (fmtEntries .native 0 (hoistPlaceholders sd.data))) = layX (([], t) :: r) ['\n'] ∧
      okX .cov (([], t) :: r) = true ∧ ∀ p ∈ (([] : Str), t) :: r, Solid p.2.text ∧ WellC p.2 := by
  obtain ⟨t1, r1, hm1, htxt1, ok1⟩ := block_stage sd.lineC sd.blockC (hoistPlaceholders sd.data) h.shape h.cov h.blockT
    h.bNodup h.bPres h.first h.indep
  have hxok := xtoks_ok sd.lineC sd.blockC 1 0 (hoistPlaceholders sd.data) h.shape h.cov
  -- the tokens after the block pass
  have hmem1 : ∀ p ∈ ([], t1) :: r1, p.2 = .cmt false C12.hdrComment ∨
      ∃ x ∈ xtoksEs 0 (hoistPlaceholders sd.data), p.2 = substTokT false sd.blockC x := by
    intro p hp
    have : p.2 ∈ hdrToks sd.blockC ++ (xtoksEs 0 (hoistPlaceholders sd.data)).map (substTokT false sd.blockC) := by
      rw [← hm1]; exact List.mem_map_of_mem hp
    rcases List.mem_append.mp this with h' | h'
    · left
      simp only [hdrToks] at h'
      split at h'
      · cases h'
      · simpa using h'
    · right
      obtain ⟨x, hx, e⟩ := List.mem_map.mp h'
      exact ⟨x, hx, e.symm⟩
  have hinv1 : ∀ p ∈ ([], t1) :: r1, TokInv p.2 := by
    intro p hp
    rcases hmem1 p hp with e | ⟨x, hx, e⟩
    · rw [e]; exact noPh_of_noComment hdr_noComment
    · rw [e]; exact tokInv_stage1 h.blockT (hxok x hx)
  have hline := insertLine_layX sd.lineC (([], t1) :: r1) .cov ['\n'] ok1 (by decide) hinv1
    (fun e he => ⟨(h.lineT e he).1, by obtain ⟨_, _, _, _, hno⟩ := (h.lineT e he).2; exact hno⟩)
  refine ⟨substTokT true sd.lineC t1, r1.map fun p => (p.1, substTokT true sd.lineC p.2), ?_, ?_, ?_, ?_⟩
  · have e2 : ((([] : Str), substTokT true sd.lineC t1) :: r1.map fun p => (p.1, substTokT true sd.lineC p.2)).map Prod.snd =
        (((([] : Str), t1) :: r1).map Prod.snd).map (substTokT true sd.lineC) := by
      simp [List.map_map, Function.comp]
    rw [e2, hm1, finalToks, List.map_append, List.map_map]
    congr 1
    simp only [hdrToks]
    split
    · rfl
    · simp [substTokT]
  · rw [htxt1, hline]; rfl
  · have := okX_mapT true sd.lineC (([], t1) :: r1) .cov
    rw [ok1] at this
    exact this
  · intro p hp
    have hp' : p ∈ (([], t1) :: r1).map (fun p => (p.1, substTokT true sd.lineC p.2)) := hp
    obtain ⟨q, hq, rfl⟩ := List.mem_map.mp hp'
    rcases hmem1 q hq with e | ⟨x, hx, e⟩
    · simp only [e, substTokT]
      exact ⟨solid_block hdr_blockFull, wellC_block hdr_blockFull⟩
    · simp only [e]
      exact final_tok_facts h.lineT h.blockT (hxok x hx)

/-- a layout with empty first gap and final line feed, as `spreadC` / `GapsOKC` -/
theorem layout_to_spreadC (t : XTok) (r : List (Str × XTok)) (ok : okX .cov (([], t) :: r) = true)
    (hw : ∀ p ∈ (([] : Str), t) :: r, WellC p.2) :
    layX (([], t) :: r) ['\n'] = spreadC ((t :: r.map Prod.snd).map toC) ([] :: r.map Prod.fst) ['\n'] ∧
    GapsOKC ((t :: r.map Prod.snd).map toC) (['\n'] :: r.map Prod.fst) ['\n'] = true := by
  have e : (([], t) :: r).map (fun p => toC p.2) = (t :: r.map Prod.snd).map toC := by
    simp [List.map_map, Function.comp]
  constructor
  · rw [layX_spreadC _ _ hw, e]; rfl
  · have := gapsOKC_top r [] t ok hw
    rw [e] at this
    exact this

/-- **M2 `insert_comments_spreadC`.**  The text after both insertion passes is a layout of the document `docSD sd`
    (`spreadC (ctoksItems …)`), admissible (`GapsOKC`) once a line feed is put in front. -/
theorem insert_comments_spreadC (sd : SD) (h : WOK sd) :
    ∃ gaps, insertLineComments sd.lineC (insertBlockComments .native sd.blockC
        (fmtEntries .native 0 (hoistPlaceholders sd.data))) = spreadC (ctoksItems (docSD sd)) ([] :: gaps) ['\n'] ∧
      GapsOKC (ctoksItems (docSD sd)) (['\n'] :: gaps) ['\n'] = true := by
  obtain ⟨t, r, hm, htxt, ok, hs⟩ := insert_comments_layout sd h
  obtain ⟨h1, h2⟩ := layout_to_spreadC t r ok (fun p hp => (hs p hp).2)
  have e : (t :: r.map Prod.snd).map toC = ctoksItems (docSD sd) := by
    rw [← finalToks_doc sd h, ← hm]; rfl
  rw [e] at h1 h2
  exact ⟨r.map Prod.fst, htxt.trans h1, h2⟩

/-- **the writer on an SDict with comments** (generic form of M3): the text is a layout of the document `docSD sd`
    that starts with its first token; with a line feed put in front, the layout is admissible (`GapsOKC`) -/
theorem write_commented (sd : SD) (h : WOK sd) :
    ∃ gaps, fmtSD .native sd = some (spreadC (ctoksItems (docSD sd)) ([] :: gaps) ['\n']) ∧
      GapsOKC (ctoksItems (docSD sd)) (['\n'] :: gaps) ['\n'] = true := by
  obtain ⟨t, r, hm, htxt, ok, hs⟩ := insert_comments_layout sd h
  obtain ⟨l', hrts, hm', ok', hfirst'⟩ := removeTrailing_layX _ .cov ok (fun p hp => (hs p hp).1)
  obtain ⟨rf, hl'⟩ := hfirst' t r rfl
  have hw' : ∀ p ∈ (([] : Str), t) :: rf, WellC p.2 := by
    intro p hp
    rw [← hl'] at hp
    have : p.2 ∈ ((([] : Str), t) :: r).map Prod.snd := by rw [← hm']; exact List.mem_map_of_mem hp
    obtain ⟨q, hq, e⟩ := List.mem_map.mp this
    rw [← e]; exact (hs q hq).2
  obtain ⟨h1, h2⟩ := layout_to_spreadC t rf (by rw [← hl']; exact ok') hw'
  have e : (t :: rf.map Prod.snd).map toC = ctoksItems (docSD sd) := by
    rw [← finalToks_doc sd h, ← hm, ← hm', hl']; rfl
  rw [e] at h1 h2
  refine ⟨rf.map Prod.fst, ?_, h2⟩
  have hfmt : fmtSD .native sd = some (removeTrailingSpaces (insertLineComments sd.lineC
      (insertBlockComments .native sd.blockC (fmtEntries .native 0 (hoistPlaceholders sd.data))))) := by
    simp only [fmtSD, h.incl, insertIncludes, List.foldl_nil]
  rw [hfmt, htxt, hrts, hl', h1]

/-! ## 11. placeholder words and the library's own recognisers -/

theorem ascii_digitVal : ∀ c ∈ C02.asciiDigits, (digitVal c).isSome = true := by decide

theorem digitRun_go_digits : ∀ (ds r : Str) (acc : Nat), (∀ c ∈ ds, c ∈ C02.asciiDigits) →
    digitRun.go ds.length (ds ++ r) acc = some (ds.foldl (fun a c => a * 10 + (digitVal c).getD 0) acc)
  | [], _, _, _ => rfl
  | c :: ds, r, acc, h => by
    obtain ⟨d, hd⟩ := Option.isSome_iff_exists.mp (ascii_digitVal c (h c List.mem_cons_self))
    simp only [List.length_cons, List.cons_append, digitRun.go, hd, List.foldl_cons, Option.getD_some]
    exact digitRun_go_digits ds r _ (fun x hx => h x (List.mem_cons_of_mem _ hx))

theorem digitRun_padSix {i : Nat} (hi : i ≤ 999999) (r : Str) : digitRun 6 (padSix i ++ r) = some i := by
  have hl := C02.padSix_length hi
  have := digitRun_go_digits (padSix i) r 0 (C02.padSix_ascii i)
  rw [hl] at this
  have hv := C02.digitsVal_padSix i
  simp only [digitsVal] at hv
  rw [hv] at this
  exact this

theorem kw_no_digit : ∀ c ∈ kwLine ++ kwBlock, digitVal c = none := by decide

theorem firstSix_skip : ∀ (kw s : Str), (∀ c ∈ kw, digitVal c = none) → firstSixDigits (kw ++ s) = firstSixDigits s
  | [], _, _ => rfl
  | c :: kw, s, h => by
    have hc := h c List.mem_cons_self
    have : digitRun 6 (c :: (kw ++ s)) = none := by
      simp [digitRun, digitRun.go, hc]
    simp only [List.cons_append, firstSixDigits, this]
    exact firstSix_skip kw s (fun x hx => h x (List.mem_cons_of_mem _ hx))

theorem kwOf_no_digit (l : Bool) : ∀ c ∈ kwOf l, digitVal c = none := by
  intro c hc
  apply kw_no_digit
  cases l
  · exact List.mem_append_right _ hc
  · exact List.mem_append_left _ hc

/-- `int(re.findall(r"\d{6}", ph)[0])` is the id -/
theorem firstSix_ph (l : Bool) {i : Nat} (hi : i ≤ 999999) : firstSixDigits (phWord l i) = some i := by
  have e : phWord l i = kwOf l ++ padSix i := rfl
  rw [e, firstSix_skip _ _ (kwOf_no_digit l)]
  have hd := digitRun_padSix hi []
  rw [List.append_nil] at hd
  cases hp : padSix i with
  | nil =>
    have := C02.padSix_length hi
    rw [hp] at this; cases this
  | cons c cs =>
    rw [hp] at hd
    simp only [firstSixDigits, hd]

theorem containsPh_own (l : Bool) {i : Nat} (hi : i ≤ 999999) : containsPh (kwOf l) (phWord l i) = true := by
  have e : phWord l i = kwOf l ++ padSix i := rfl
  simp only [containsPh, List.any_eq_true, Bool.and_eq_true]
  refine ⟨phWord l i, ?_, ?_, ?_⟩
  · cases hp : phWord l i with
    | nil => exact absurd hp (phWord_ne l i)
    | cons c r => simp [tails]
  · rw [e, List.isPrefixOf_iff_prefix]; exact List.prefix_append _ _
  · rw [e, List.drop_left]
    have hd := digitRun_padSix hi []
    rw [List.append_nil] at hd
    rw [hd]; rfl

theorem containsPh_false {kw s : Str} (h : isInfix kw s = false) : containsPh kw s = false := by
  cases hc : containsPh kw s with
  | false => rfl
  | true => rw [C01.containsPh_infix hc] at h; cases h

theorem not_infix_of_notMem {c : Char} {kw s : Str} (hc : c ∈ kw) (hs : c ∉ s) : isInfix kw s = false := by
  cases h : isInfix kw s with
  | false => rfl
  | true => exact absurd (mem_of_infix h c hc) hs

theorem kw_marks : 'B' ∈ kwBlock ∧ 'U' ∈ kwIncl ∧ 'U' ∉ kwLine ∧ 'U' ∉ kwBlock ∧ 'I' ∈ kwLine ∧ 'I' ∉ kwBlock := by decide
theorem digit_not_U : ∀ c ∈ C02.asciiDigits, c ≠ 'U' := by decide

theorem ph_no_U (l : Bool) (i : Nat) : 'U' ∉ phWord l i := by
  intro h
  simp only [phWord, List.mem_append] at h
  rcases h with h | h
  · cases l
    · exact kw_marks.2.2.2.1 (by simpa using h)
    · exact kw_marks.2.2.1 (by simpa using h)
  · exact digit_not_U _ (C02.padSix_ascii i _ h) rfl

/-- a placeholder word holds no include placeholder -/
theorem containsPh_incl_ph (l : Bool) (i : Nat) : containsPh kwIncl (phWord l i) = false :=
  containsPh_false (not_infix_of_notMem kw_marks.2.1 (ph_no_U l i))

theorem linePh_no_B (i : Nat) : 'B' ∉ phWord true i := by
  intro h
  simp only [phWord, if_true, List.mem_append] at h
  rcases h with h | h
  · exact kw_BI.2.1 h
  · exact (digit_not_BI _ (C02.padSix_ascii i _ h)).1 rfl

/-- a line-comment placeholder word holds no block-comment placeholder -/
theorem containsPh_block_line (i : Nat) : containsPh kwBlock (phWord true i) = false :=
  containsPh_false (not_infix_of_notMem kw_marks.1 (linePh_no_B i))

/-- a block-comment placeholder word holds no line-comment placeholder -/
theorem containsPh_line_block (i : Nat) : containsPh kwLine (phWord false i) = false := by
  apply containsPh_false
  apply not_infix_of_notMem kw_marks.2.2.2.2.1
  intro h
  simp only [phWord, Bool.false_eq_true, if_false, List.mem_append] at h
  rcases h with h | h
  · exact kw_marks.2.2.2.2.2 h
  · exact (digit_not_BI _ (C02.padSix_ascii i _ h)).2 rfl

/-- our recogniser on a placeholder entry -/
theorem phOf_ph (l : Bool) {i : Nat} (hi : i ≤ 999999) :
    phOf (.str (phWord l i)) (.str (phWord l i)) = some (l, i) := by
  cases l with
  | false =>
    have : phIdOf kwBlock (phWord false i) = some i := phIdOf_ph kwBlock hi
    simp [phOf, this]
  | true =>
    have h1 : phIdOf kwBlock (phWord true i) = none := by
      cases h : phIdOf kwBlock (phWord true i) with
      | none => rfl
      | some j =>
        exfalso
        have := (phIdOf_some h).1
        have hB : 'B' ∈ phWord true i := by rw [this]; simp [kw_marks.1]
        exact linePh_no_B i hB
    have h2 : phIdOf kwLine (phWord true i) = some i := phIdOf_ph kwLine hi
    simp [phOf, h1, h2]

/-- a key of the value domain is no placeholder entry -/
theorem phOf_dom {k : Key} (h : isDomKey k = true) (x : Scalar) : phOf k x = none := by
  cases hp : phOf k x with
  | none => rfl
  | some li =>
    obtain ⟨l, i⟩ := li
    exfalso
    obtain ⟨rfl, _, _⟩ := phOf_some hp
    simp only [isDomKey, Bool.and_eq_true] at h
    have := (C01.isSrcWord_iff.mp h.1.1).2.1
    have h2 : isInfix "COMMENT".toList (phWord l i) = true := kwComment_in_ph l i
    rw [h2] at this; cases this

/-! ## 12. `_clean` on a tree without repeated comments at one level -/

/-- one of the three passes of `_clean_data` -/
def cstepF {α} [BEq α] (acc : Entries × Tbl α × List α) (k : Key) : Entries × Tbl α × List α :=
  match k with
  | .str x =>
    (match firstSixDigits x with
    | none => acc
    | some i => match acc.2.1.get? i with
      | none => acc
      | some txt =>
        if acc.2.2.contains txt then (delKey k acc.1, acc.2.1.del i, acc.2.2) else (acc.1, acc.2.1, acc.2.2 ++ [txt]))
  | _ => acc

def cstep {α} [BEq α] (sel : Key → Bool) (lvl : Entries) (tbl : Tbl α) : Entries × Tbl α :=
  let r := ((keys lvl).filter sel).foldl cstepF (lvl, tbl, [])
  (r.1, r.2.1)

def selB (k : Key) : Bool := match k with | .str x => containsPh kwBlock x | _ => false
def selI (k : Key) : Bool := match k with | .str x => !containsPh kwBlock x && containsPh kwIncl x | _ => false
def selL (k : Key) : Bool :=
  match k with | .str x => !containsPh kwBlock x && !containsPh kwIncl x && containsPh kwLine x | _ => false

theorem cleanLevel_eq (s : SD) (level : Entries) :
    cleanLevel s level =
      ({ s with blockC := (cstep selB level s.blockC).2,
                incl := (cstep selI (cstep selB level s.blockC).1 s.incl).2,
                lineC := (cstep selL (cstep selI (cstep selB level s.blockC).1 s.incl).1 s.lineC).2 },
       (cstep selL (cstep selI (cstep selB level s.blockC).1 s.incl).1 s.lineC).1) := rfl

/-- the comment text `_clean_data` looks up for a key -/
def look {α} (tbl : Tbl α) (k : Key) : Option α :=
  match k with
  | .str x => (firstSixDigits x).bind fun i => tbl.get? i
  | _ => none

theorem cstepF_fold (lvl : Entries) (tbl : Tbl Str) : ∀ (cand : List Key) (seen : List Str),
    (seen ++ cand.filterMap (look tbl)).Nodup →
    cand.foldl cstepF (lvl, tbl, seen) = (lvl, tbl, seen ++ cand.filterMap (look tbl))
  | [], seen, _ => by simp
  | k :: cand, seen, h => by
    simp only [List.foldl_cons]
    cases k with
    | int z =>
      have e : look tbl (.int z) = none := rfl
      simp only [List.filterMap_cons, e] at h ⊢
      exact cstepF_fold lvl tbl cand seen h
    | str x =>
      cases hf : firstSixDigits x with
      | none =>
        have e : look tbl (.str x) = none := by simp [look, hf]
        have e2 : cstepF (lvl, tbl, seen) (.str x) = (lvl, tbl, seen) := by simp [cstepF, hf]
        simp only [List.filterMap_cons, e, e2] at h ⊢
        exact cstepF_fold lvl tbl cand seen h
      | some i =>
        cases hg : tbl.get? i with
        | none =>
          have e : look tbl (.str x) = none := by simp [look, hf, hg]
          have e2 : cstepF (lvl, tbl, seen) (.str x) = (lvl, tbl, seen) := by simp [cstepF, hf, hg]
          simp only [List.filterMap_cons, e, e2] at h ⊢
          exact cstepF_fold lvl tbl cand seen h
        | some txt =>
          have e : look tbl (.str x) = some txt := by simp [look, hf, hg]
          simp only [List.filterMap_cons, e] at h ⊢
          have hns : txt ∉ seen := by
            intro hm
            have := List.nodup_append.mp h
            exact this.2.2 txt hm txt List.mem_cons_self rfl
          have e2 : cstepF (lvl, tbl, seen) (.str x) = (lvl, tbl, seen ++ [txt]) := by
            have : seen.contains txt = false := by
              cases hc : seen.contains txt with
              | false => rfl
              | true => exact absurd (List.contains_iff_mem.mp hc) hns
            simp [cstepF, hf, hg, hns]
          rw [e2, cstepF_fold lvl tbl cand (seen ++ [txt]) (by simpa using h)]
          simp

theorem cstep_id (sel : Key → Bool) (lvl : Entries) (tbl : Tbl Str)
    (h : (((keys lvl).filter sel).filterMap (look tbl)).Nodup) : cstep sel lvl tbl = (lvl, tbl) := by
  simp only [cstep]
  rw [cstepF_fold lvl tbl _ [] (by simpa using h)]

theorem cstep_nil {α} [BEq α] (sel : Key → Bool) (lvl : Entries) (tbl : Tbl α) (h : (keys lvl).filter sel = []) :
    cstep sel lvl tbl = (lvl, tbl) := by
  simp only [cstep, h, List.foldl_nil]

/-- nothing to clean at this level: no two comment entries of a kind with the same text, no include entry -/
def levelFix (s : SD) (lvl : Entries) : Prop :=
  (((keys lvl).filter selB).filterMap (look s.blockC)).Nodup ∧ (keys lvl).filter selI = [] ∧
  (((keys lvl).filter selL).filterMap (look s.lineC)).Nodup ∧ (keys lvl).Nodup

theorem cleanLevel_id (s : SD) (lvl : Entries) (h : levelFix s lvl) : cleanLevel s lvl = (s, lvl) := by
  rw [cleanLevel_eq, cstep_id selB lvl s.blockC h.1, cstep_nil selI lvl s.incl h.2.1, cstep_id selL lvl s.lineC h.2.2.1]

/-- a property of every dict level below -/
def allLevels (P : Entries → Prop) : Entries → Prop
  | [] => True
  | (_, .dict sub) :: r => (P sub ∧ allLevels P sub) ∧ allLevels P r
  | (_, .leaf _) :: r => allLevels P r
  | (_, .list _) :: r => allLevels P r

theorem allLevels_mem {P : Entries → Prop} : ∀ {D : Entries} {k : Key} {sub : Entries}, allLevels P D →
    (k, Val.dict sub) ∈ D → P sub ∧ allLevels P sub
  | [], _, _, _, hm => by cases hm
  | (k0, .dict sub0) :: r, k, sub, h, hm => by
    simp only [allLevels] at h
    rcases List.mem_cons.mp hm with e | hm
    · cases e; exact h.1
    · exact allLevels_mem h.2 hm
  | (k0, .leaf x) :: r, k, sub, h, hm => by
    simp only [allLevels] at h
    rcases List.mem_cons.mp hm with e | hm
    · cases e
    · exact allLevels_mem h hm
  | (k0, .list xs) :: r, k, sub, h, hm => by
    simp only [allLevels] at h
    rcases List.mem_cons.mp hm with e | hm
    · cases e
    · exact allLevels_mem h hm

theorem allLevels_imp {P Q : Entries → Prop} (hPQ : ∀ D, P D → Q D) : ∀ {D : Entries}, allLevels P D → allLevels Q D
  | [], _ => by simp only [allLevels]
  | (k0, .dict sub0) :: r, h => by
    simp only [allLevels] at h ⊢
    exact ⟨⟨hPQ _ h.1.1, allLevels_imp hPQ h.1.2⟩, allLevels_imp hPQ h.2⟩
  | (k0, .leaf x) :: r, h => by
    simp only [allLevels] at h ⊢
    exact allLevels_imp hPQ h
  | (k0, .list xs) :: r, h => by
    simp only [allLevels] at h ⊢
    exact allLevels_imp hPQ h

abbrev subsFix (s : SD) : Entries → Prop := allLevels (levelFix s)

theorem subsFix_mem (s : SD) {D : Entries} {k : Key} {sub : Entries} (h : subsFix s D) (hm : (k, Val.dict sub) ∈ D) :
    levelFix s sub ∧ subsFix s sub := allLevels_mem h hm

theorem cleanRec_fix : ∀ (fuel : Nat) (s : SD) (D : Entries), levelFix s D → subsFix s D → cleanRec fuel s D = (s, D)
  | 0, _, _, _, _ => rfl
  | fuel + 1, s, D, hl, hs => by
    simp only [cleanRec, cleanLevel_id s D hl]
    suffices H : ∀ l : Entries, (∀ e ∈ l, e ∈ D) →
        l.foldl (fun (acc : SD × Entries) e =>
          match e.2 with
          | .dict sub => ((cleanRec fuel acc.1 sub).1, setKey e.1 (.dict (cleanRec fuel acc.1 sub).2) acc.2)
          | _ => acc) (s, D) = (s, D) from H _ (fun _ h => h)
    intro l
    induction l with
    | nil => intro _; rfl
    | cons e l ih =>
      intro hsub
      obtain ⟨k, v⟩ := e
      have hmem : (k, v) ∈ D := hsub _ List.mem_cons_self
      have hrest := ih fun e he => hsub e (List.mem_cons_of_mem _ he)
      cases v with
      | leaf x => simpa only [List.foldl_cons] using hrest
      | list xs => simpa only [List.foldl_cons] using hrest
      | dict sub =>
        obtain ⟨h1, h2⟩ := subsFix_mem s hs hmem
        simp only [List.foldl_cons, cleanRec_fix fuel s sub h1 h2, C07.setKey_of_mem_nodup hl.2.2.2 hmem]
        exact hrest

/-- **`_clean` changes nothing** when no level holds two comments of a kind with the same text -/
theorem clean_fix (s : SD) (hl : levelFix s s.data) (hs : subsFix s s.data) : s.clean = s := by
  simp only [SD.clean, cleanRec_fix _ s s.data hl hs]

/-! ## 13. the meaning of a commented document, in closed form -/

mutual
  /-- the line comments (with `//`) in document order -/
  def lineFullsV : CSrc → List Str
    | .lit _ => []
    | .dict items => lineFullsI items
    | .list _ => []
  def lineFullsI : List CItem → List Str
    | [] => []
    | .entry _ v :: r => lineFullsV v ++ lineFullsI r
    | .lineC x :: r => ('/' :: '/' :: x) :: lineFullsI r
    | .blockC _ :: r => lineFullsI r
end

mutual
  /-- the block comments (with `/*` `*/`) in document order -/
  def blockFullsV : CSrc → List Str
    | .lit _ => []
    | .dict items => blockFullsI items
    | .list _ => []
  def blockFullsI : List CItem → List Str
    | [] => []
    | .entry _ v :: r => blockFullsV v ++ blockFullsI r
    | .lineC _ :: r => blockFullsI r
    | .blockC x :: r => ('/' :: '*' :: x ++ ['*', '/']) :: blockFullsI r
end

/-- the state of the labelling after a stretch with the given line and block comments -/
def stAfter (st : CLabelSt) (lf bf : List Str) : CLabelSt :=
  { counter := C02.adv Gen.counterLimit lf.length st.counter,
    lineC := C02.setAll st.lineC ((alloc Gen.counterLimit lf.length st.counter).zip lf),
    blockC := st.blockC ++ (List.range' st.blockC.length bf.length).zip bf }

theorem stAfter_nil (st : CLabelSt) : stAfter st [] [] = st := by
  cases st
  simp [stAfter, C02.adv, alloc, C02.setAll]

theorem stAfter_append (st : CLabelSt) (a b a' b' : List Str) :
    stAfter (stAfter st a b) a' b' = stAfter st (a ++ a') (b ++ b') := by
  have hz : (alloc Gen.counterLimit (a.length + a'.length) st.counter).zip (a ++ a') =
      (alloc Gen.counterLimit a.length st.counter).zip a ++
        (alloc Gen.counterLimit a'.length (C02.adv Gen.counterLimit a.length st.counter)).zip a' := by
    rw [C02.alloc_add, List.zip_append (by rw [C13.alloc_length])]
  have hr : (List.range' st.blockC.length (b.length + b'.length)).zip (b ++ b') =
      (List.range' st.blockC.length b.length).zip b ++
        (List.range' (st.blockC.length + b.length) b'.length).zip b' := by
    rw [← List.range'_append_1, List.zip_append (by simp)]
  simp only [stAfter, List.length_append, C02.adv_add, hz, C02.setAll_append, List.length_zip, List.length_range',
    Nat.min_self, hr, List.append_assoc]

mutual
  theorem label_stateV : ∀ (v : CSrc) (st : CLabelSt), (labelCV st v).1 = stAfter st (lineFullsV v) (blockFullsV v)
    | .lit l, st => by simp only [labelCV, lineFullsV, blockFullsV, stAfter_nil]
    | .dict items, st => by simp only [labelCV, lineFullsV, blockFullsV]; exact label_stateI items st
    | .list xs, st => by simp only [labelCV, lineFullsV, blockFullsV, stAfter_nil]
  /-- the state after labelling: the counter advanced by the number of line comments, their texts under the ids
      drawn, the block comments numbered on -/
  theorem label_stateI : ∀ (items : List CItem) (st : CLabelSt),
      (labelCItems st items).1 = stAfter st (lineFullsI items) (blockFullsI items)
    | [], st => by simp only [labelCItems, lineFullsI, blockFullsI, stAfter_nil]
    | .entry k v :: r, st => by
      simp only [labelCItems, lineFullsI, blockFullsI]
      rw [label_stateI r, label_stateV v, stAfter_append]
    | .lineC x :: r, st => by
      simp only [labelCItems, lineFullsI, blockFullsI]
      rw [label_stateI r]
      have : ({ st with counter := (Counter.next Gen.counterLimit st.counter).2,
                        lineC := st.lineC.set (Counter.next Gen.counterLimit st.counter).1 ('/' :: '/' :: x) } : CLabelSt) =
          stAfter st ['/' :: '/' :: x] [] := by
        cases st
        simp [stAfter, C02.adv, alloc, C02.setAll]
      rw [this, stAfter_append]
      rfl
    | .blockC x :: r, st => by
      simp only [labelCItems, lineFullsI, blockFullsI]
      rw [label_stateI r]
      have : ({ st with blockC := st.blockC ++ [(st.blockC.length, '/' :: '*' :: x ++ ['*', '/'])] } : CLabelSt) =
          stAfter st [] ['/' :: '*' :: x ++ ['*', '/']] := by
        cases st
        simp [stAfter, C02.adv, alloc, C02.setAll]
      rw [this, stAfter_append]
      rfl
end

/-- the typed form of a written key -/
def keyOfStr (k : Str) : Key := (keyOfScalar (parseKey k)).getD (.str k)

def phEntry (l : Bool) (i : Nat) : Key × Val := (.str (phWord l i), .leaf (.str (phWord l i)))

mutual
  /-- the data of the SDict the reader returns for the document, given the ids the line comments draw (`ls`, in
      document order) and the number of the next block comment -/
  def dTreeV (ls : List Nat) (n : Nat) : CSrc → Val
    | .lit l => .leaf l.den
    | .dict items => .dict (dTreeI ls n items)
    | .list xs => .list (denSrcXs xs)
  def dTreeI (ls : List Nat) (n : Nat) : List CItem → Entries
    | [] => []
    | .entry k v :: r =>
      (keyOfStr k, dTreeV ls n v) :: dTreeI (ls.drop (lineFullsV v).length) (n + (blockFullsV v).length) r
    | .lineC _ :: r => phEntry true (ls.headD 0) :: dTreeI ls.tail n r
    | .blockC _ :: r => phEntry false n :: dTreeI ls (n + 1) r
end

def KNodup (D : Entries) : Prop := (keys D).Nodup

theorem linePh_eq (i : Nat) : linePh i = phWord true i := rfl
theorem blockPh_eq (i : Nat) : blockPh i = phWord false i := rfl

theorem isPhTok_ph (l : Bool) (i : Nat) : isPhTok (phWord l i) = true := by
  cases l
  · exact (C12.blockPh_tok i).2
  · exact (C12.linePh_tok i).2

theorem denPEs_append_fresh {k : Str} {v : Src} (key : Key) (val : Val) (es : SrcEntries) (acc : Entries)
    (hstep : ∀ acc', denPEs ((k, v) :: es) acc' = denPEs es (setKey key val acc'))
    (hfresh : key ∉ keys acc) (rest : Entries) (ih : denPEs es (acc ++ [(key, val)]) = (acc ++ [(key, val)]) ++ rest) :
    denPEs ((k, v) :: es) acc = acc ++ (key, val) :: rest := by
  rw [hstep, C07.setKey_of_not_mem key val acc hfresh, ih]
  simp

mutual
  theorem den_treeV : ∀ (v : CSrc) (st : CLabelSt) (ext : List Nat) (d : Nat), CSrcWFV d v = true →
      (match v with
       | .dict items =>
         KNodup (dTreeI (alloc Gen.counterLimit (lineFullsV v).length st.counter ++ ext) st.blockC.length items) ∧
         allLevels KNodup (dTreeI (alloc Gen.counterLimit (lineFullsV v).length st.counter ++ ext) st.blockC.length items)
       | _ => True) →
      denPV (labelCV st v).2 = dTreeV (alloc Gen.counterLimit (lineFullsV v).length st.counter ++ ext) st.blockC.length v
    | .lit l, st, ext, d, _, _ => by simp only [labelCV, denPV, dTreeV]
    | .list xs, st, ext, d, _, _ => by simp only [labelCV, denPV, dTreeV]
    | .dict items, st, ext, d, hwf, hn => by
      simp only [CSrcWFV] at hwf
      simp only [labelCV, denPV, dTreeV, lineFullsV] at hn ⊢
      have := den_treeI items st ext (d + 1) [] hwf hn.1 hn.2 (by simp)
      rw [this]; rfl
  /-- **the data the reader returns**, when the keys of every level are pairwise distinct: one entry per item, in order -/
  theorem den_treeI : ∀ (items : List CItem) (st : CLabelSt) (ext : List Nat) (d : Nat) (acc : Entries),
      CSrcWFItems d items = true →
      KNodup (dTreeI (alloc Gen.counterLimit (lineFullsI items).length st.counter ++ ext) st.blockC.length items) →
      allLevels KNodup (dTreeI (alloc Gen.counterLimit (lineFullsI items).length st.counter ++ ext) st.blockC.length items) →
      (∀ k ∈ keys (dTreeI (alloc Gen.counterLimit (lineFullsI items).length st.counter ++ ext) st.blockC.length items),
        k ∉ keys acc) →
      denPEs (labelCItems st items).2 acc =
        acc ++ dTreeI (alloc Gen.counterLimit (lineFullsI items).length st.counter ++ ext) st.blockC.length items
    | [], st, ext, d, acc, _, _, _, _ => by simp [labelCItems, denPEs, dTreeI]
    | .entry k v :: r, st, ext, d, acc, hwf, hn, hall, hdis => by
      simp only [CSrcWFItems, Bool.and_eq_true] at hwf
      obtain ⟨⟨⟨hk, hkey⟩, hv⟩, hr⟩ := hwf
      obtain ⟨key, hkey⟩ := Option.isSome_iff_exists.mp hkey
      have hks : keyOfStr k = key := by simp [keyOfStr, hkey]
      have hnph : isPhTok k = false := (C02.srcWord_facts hk).2.1
      -- the supplies split
      have hsplit : alloc Gen.counterLimit (lineFullsI (.entry k v :: r)).length st.counter ++ ext =
          alloc Gen.counterLimit (lineFullsV v).length st.counter ++
            (alloc Gen.counterLimit (lineFullsI r).length (C02.adv Gen.counterLimit (lineFullsV v).length st.counter) ++ ext) := by
        simp only [lineFullsI, List.length_append, C02.alloc_add, List.append_assoc]
      rw [hsplit] at hn hall hdis ⊢
      simp only [dTreeI, hks] at hn hall hdis ⊢
      have hdrop : (alloc Gen.counterLimit (lineFullsV v).length st.counter ++
            (alloc Gen.counterLimit (lineFullsI r).length (C02.adv Gen.counterLimit (lineFullsV v).length st.counter) ++ ext)).drop
              (lineFullsV v).length =
          alloc Gen.counterLimit (lineFullsI r).length (C02.adv Gen.counterLimit (lineFullsV v).length st.counter) ++ ext := by
        rw [List.drop_left' (C13.alloc_length _ _ _)]
      rw [hdrop] at hn hall hdis ⊢
      have hst1 := label_stateV v st
      have hc1 : (labelCV st v).1.counter = C02.adv Gen.counterLimit (lineFullsV v).length st.counter := by rw [hst1]; rfl
      have hb1 : (labelCV st v).1.blockC.length = st.blockC.length + (blockFullsV v).length := by
        rw [hst1]; simp [stAfter]
      simp only [KNodup, keys, List.map_cons, List.nodup_cons] at hn
      have hvden : denPV (labelCV st v).2 = dTreeV (alloc Gen.counterLimit (lineFullsV v).length st.counter ++
            (alloc Gen.counterLimit (lineFullsI r).length (C02.adv Gen.counterLimit (lineFullsV v).length st.counter) ++ ext))
            st.blockC.length v := by
        apply den_treeV v st _ d hv
        cases v with
        | lit l => trivial
        | list xs => trivial
        | dict items =>
          simp only [dTreeV, allLevels] at hall
          exact hall.1
      have hallr : allLevels KNodup (dTreeI (alloc Gen.counterLimit (lineFullsI r).length
          (C02.adv Gen.counterLimit (lineFullsV v).length st.counter) ++ ext) (st.blockC.length + (blockFullsV v).length) r) := by
        cases v with
        | lit l => simpa only [dTreeV, allLevels] using hall
        | list xs => simpa only [dTreeV, allLevels] using hall
        | dict items => simp only [dTreeV, allLevels] at hall; exact hall.2
      simp only [labelCItems]
      have ih := den_treeI r (labelCV st v).1 ext d (acc ++ [(key, denPV (labelCV st v).2)]) hr
        (by rw [hc1, hb1]; exact hn.2) (by rw [hc1, hb1]; exact hallr)
        (by
          rw [hc1, hb1]
          intro k' hk' hmem
          simp only [keys, List.map_append, List.map_cons, List.map_nil, List.mem_append, List.mem_singleton] at hmem
          rcases hmem with hmem | rfl
          · exact hdis k' (by simp only [keys, List.map_cons, List.mem_cons]; exact Or.inr hk') hmem
          · exact hn.1 hk')
      rw [hc1, hb1] at ih
      rw [C12.denPEs_cons hnph hkey, C07.setKey_of_not_mem key _ acc (hdis key (by simp [keys])), ih, hvden]
      simp
    | .lineC x :: r, st, ext, d, acc, hwf, hn, hall, hdis => by
      simp only [CSrcWFItems, Bool.and_eq_true] at hwf
      have hal : alloc Gen.counterLimit (lineFullsI (.lineC x :: r)).length st.counter ++ ext =
          (Counter.next Gen.counterLimit st.counter).1 ::
            (alloc Gen.counterLimit (lineFullsI r).length (Counter.next Gen.counterLimit st.counter).2 ++ ext) := by
        simp only [lineFullsI, List.length_cons, C13.alloc_succ, List.cons_append]
      rw [hal] at hn hall hdis ⊢
      simp only [dTreeI, List.headD_cons, List.tail_cons, phEntry] at hn hall hdis ⊢
      simp only [KNodup, keys, List.map_cons, List.nodup_cons] at hn
      simp only [allLevels] at hall
      simp only [labelCItems, linePh_eq]
      have ih := den_treeI r (⟨(Counter.next Gen.counterLimit st.counter).2,
          st.lineC.set (Counter.next Gen.counterLimit st.counter).1 ('/' :: '/' :: x), st.blockC⟩ : CLabelSt) ext d
        (acc ++ [(.str (phWord true (Counter.next Gen.counterLimit st.counter).1),
          .leaf (.str (phWord true (Counter.next Gen.counterLimit st.counter).1)))]) hwf.2 hn.2 hall
        (by
          intro k' hk' hmem
          simp only [keys, List.map_append, List.map_cons, List.map_nil, List.mem_append, List.mem_singleton] at hmem
          rcases hmem with hmem | rfl
          · exact hdis k' (by simp only [keys, List.map_cons, List.mem_cons]; exact Or.inr hk') hmem
          · exact hn.1 hk')
      rw [C12.denPEs_cons_ph (isPhTok_ph true _), C07.setKey_of_not_mem _ _ acc (hdis _ (by simp [keys])), ih]
      simp
    | .blockC x :: r, st, ext, d, acc, hwf, hn, hall, hdis => by
      simp only [CSrcWFItems, Bool.and_eq_true] at hwf
      simp only [lineFullsI, dTreeI, phEntry] at hn hall hdis ⊢
      simp only [KNodup, keys, List.map_cons, List.nodup_cons] at hn
      simp only [allLevels] at hall
      simp only [labelCItems, blockPh_eq]
      have ih := den_treeI r (⟨st.counter, st.lineC, st.blockC ++ [(st.blockC.length, '/' :: '*' :: x ++ ['*', '/'])]⟩ : CLabelSt) ext d
        (acc ++ [(.str (phWord false st.blockC.length), .leaf (.str (phWord false st.blockC.length)))]) hwf.2
        (by simpa [KNodup] using hn.2) (by simpa using hall)
        (by
          intro k' hk' hmem
          simp only [keys, List.map_append, List.map_cons, List.map_nil, List.mem_append, List.mem_singleton] at hmem
          rcases hmem with hmem | rfl
          · exact hdis k' (by simp only [keys, List.map_cons, List.mem_cons]; exact Or.inr (by simpa using hk')) hmem
          · exact hn.1 (by simpa using hk'))
      rw [C12.denPEs_cons_ph (isPhTok_ph false _), C07.setKey_of_not_mem _ _ acc (hdis _ (by simp [keys])), ih]
      simp
end

/-! ## 14. hypotheses on the items; the document that is written, in terms of the items -/

/-- no word `LINECOMMENTdddddd` / `BLOCKCOMMENTdddddd` in the text -/
def noPhB (s : Str) : Bool := !containsPh kwLine s && !containsPh kwBlock s

theorem noPh_of_B {s : Str} (h : noPhB s = true) : NoPh s := by
  intro l i hi
  cases hc : isInfix (phWord l i) s with
  | false => rfl
  | true =>
    exfalso
    obtain ⟨a, b, rfl⟩ := C01.isInfix_iff.mp hc
    have hcp : containsPh (kwOf l) (a ++ phWord l i ++ b) = true := by
      simp only [containsPh, List.any_eq_true, Bool.and_eq_true]
      refine ⟨phWord l i ++ b, C01.mem_tails.mpr ⟨a, by simp⟩, ?_, ?_⟩
      · rw [show phWord l i = kwOf l ++ padSix i from rfl, List.append_assoc, List.isPrefixOf_iff_prefix]
        exact List.prefix_append _ _
      · rw [show phWord l i = kwOf l ++ padSix i from rfl, List.append_assoc, List.drop_left, digitRun_padSix hi]
        rfl
    simp only [noPhB, Bool.and_eq_true, Bool.not_eq_true'] at h
    cases l
    · rw [show kwOf false = kwBlock from rfl, h.2] at hcp; cases hcp
    · rw [show kwOf true = kwLine from rfl, h.1] at hcp; cases hcp

/-- a line-comment text the writer reproduces: no trailing white space, no placeholder word -/
def lineTextOK (x : Str) : Bool :=
  (match x.getLast? with | some z => !isWs z | none => true) && noPhB ('/' :: '/' :: x)

/-- a block-comment text the writer reproduces: no carriage return, no line with trailing white space, no
    placeholder word -/
def blockTextOK (x : Str) : Bool :=
  !('/' :: '*' :: x ++ ['*', '/']).contains '\r' &&
  (C01.rts ('/' :: '*' :: x ++ ['*', '/']) == '/' :: '*' :: x ++ ['*', '/']) &&
  noPhB ('/' :: '*' :: x ++ ['*', '/'])

theorem lineFull_of_ok {x : Str} (h1 : isLineCText x = true) (h2 : lineTextOK x = true) : LineFull ('/' :: '/' :: x) := by
  simp only [lineTextOK, Bool.and_eq_true] at h2
  refine ⟨x, rfl, h1, ?_, noPh_of_B h2.2⟩
  intro z hz
  rw [hz] at h2
  simpa using h2.1

theorem blockFull_of_ok {x : Str} (h1 : isBlockCText x = true) (h2 : blockTextOK x = true) :
    BlockFull ('/' :: '*' :: x ++ ['*', '/']) := by
  simp only [blockTextOK, Bool.and_eq_true, Bool.not_eq_true', beq_iff_eq] at h2
  refine ⟨x, rfl, h1, ?_, h2.1.2, noPh_of_B h2.2⟩
  intro c hc e
  subst e
  have := List.contains_iff_mem.mpr hc
  rw [h2.1.1] at this; cases this

mutual
  /-- value-domain and comment-text conditions on a commented document (on top of `CSrcWFItems`) -/
  def okV (d : Nat) : CSrc → Bool
    | .lit l => isDomScalar .native l.den && decide (d ≤ 10)
    | .dict items => okI (d + 1) items
    | .list xs => domXs .native (d + 1) (denSrcXs xs)
  def okI (d : Nat) : List CItem → Bool
    | [] => true
    | .entry k v :: r => isDomKey (keyOfStr k) && okV d v && okI d r
    | .lineC x :: r => lineTextOK x && okI d r
    | .blockC x :: r => blockTextOK x && okI d r
end

mutual
  /-- the document as the writer spells it: keys and scalars in the writer's spelling, comments as they are -/
  def cnormV : CSrc → CSrc
    | .lit l => .lit (writtenLit .native l.den)
    | .dict items => .dict (cnormI items)
    | .list xs => .list (srcOfXs .native (denSrcXs xs))
  def cnormI : List CItem → List CItem
    | [] => []
    | .entry k v :: r => .entry (keyStr (keyOfStr k)) (cnormV v) :: cnormI r
    | .lineC x :: r => .lineC x :: cnormI r
    | .blockC x :: r => .blockC x :: cnormI r
end

/-- the tables hold the comments of a stretch under the ids it draws -/
def LkL (L : Tbl Str) (ls : List Nat) (lf : List Str) : Prop := ∀ p ∈ ls.zip lf, L.get? p.1 = some p.2
def LkB (B : Tbl Str) (n : Nat) (bf : List Str) : Prop := ∀ p ∈ (List.range' n bf.length).zip bf, B.get? p.1 = some p.2

theorem LkL_split {L : Tbl Str} {la lb : List Nat} {a b : List Str} (hl : la.length = a.length)
    (h : LkL L (la ++ lb) (a ++ b)) : LkL L la a ∧ LkL L lb b := by
  rw [LkL, List.zip_append hl] at h
  exact ⟨fun p hp => h p (List.mem_append_left _ hp), fun p hp => h p (List.mem_append_right _ hp)⟩

theorem LkB_split {B : Tbl Str} {n : Nat} {a b : List Str} (h : LkB B n (a ++ b)) :
    LkB B n a ∧ LkB B (n + a.length) b := by
  have hr : (List.range' n (a ++ b).length).zip (a ++ b) =
      (List.range' n a.length).zip a ++ (List.range' (n + a.length) b.length).zip b := by
    rw [List.length_append, ← List.range'_append_1, List.zip_append (by simp)]
  rw [LkB, hr] at h
  exact ⟨fun p hp => h p (List.mem_append_left _ hp), fun p hp => h p (List.mem_append_right _ hp)⟩

theorem lineBody_eq (x : Str) : lineBody ('/' :: '/' :: x) = x := rfl

mutual
  theorem doc_treeV (L B : Tbl Str) : ∀ (v : CSrc) (l1 ext : List Nat) (n d : Nat),
      l1.length = (lineFullsV v).length → (∀ i ∈ l1, i ≤ 999999) → n + (blockFullsV v).length ≤ 1000000 →
      okV d v = true → LkL L l1 (lineFullsV v) → LkB B n (blockFullsV v) →
      (match v with
       | .dict items => phCov L B (dTreeI (l1 ++ ext) n items) = true ∧
                        docEs L B (dTreeI (l1 ++ ext) n items) = cnormI items
       | _ => True)
    | .lit l, _, _, _, _, _, _, _, _, _, _ => trivial
    | .list xs, _, _, _, _, _, _, _, _, _, _ => trivial
    | .dict items, l1, ext, n, d, hl, hi, hn, hok, hL, hB => by
      simp only [lineFullsV, blockFullsV, okV] at hl hn hok hL hB
      exact doc_treeI L B items l1 ext n (d + 1) hl hi hn hok hL hB
  /-- with the comments in the tables, the document written for the tree is the document in the writer's spelling -/
  theorem doc_treeI (L B : Tbl Str) : ∀ (items : List CItem) (l1 ext : List Nat) (n d : Nat),
      l1.length = (lineFullsI items).length → (∀ i ∈ l1, i ≤ 999999) → n + (blockFullsI items).length ≤ 1000000 →
      okI d items = true → LkL L l1 (lineFullsI items) → LkB B n (blockFullsI items) →
      phCov L B (dTreeI (l1 ++ ext) n items) = true ∧ docEs L B (dTreeI (l1 ++ ext) n items) = cnormI items
    | [], _, _, _, _, _, _, _, _, _, _ => by simp [dTreeI, phCov, docEs, cnormI]
    | .entry k v :: r, l1, ext, n, d, hl, hi, hn, hok, hL, hB => by
      simp only [lineFullsI, blockFullsI, List.length_append, okI, Bool.and_eq_true] at hl hn hok hL hB
      -- split the supply
      obtain ⟨la, lb, rfl, hla⟩ : ∃ la lb, l1 = la ++ lb ∧ la.length = (lineFullsV v).length :=
        ⟨l1.take (lineFullsV v).length, l1.drop (lineFullsV v).length, (List.take_append_drop _ _).symm,
          by rw [List.length_take]; omega⟩
      have hlb : lb.length = (lineFullsI r).length := by simp only [List.length_append] at hl; omega
      obtain ⟨hLa, hLb⟩ := LkL_split hla hL
      obtain ⟨hBa, hBb⟩ := LkB_split hB
      have hdrop : (la ++ lb ++ ext).drop (lineFullsV v).length = lb ++ ext := by
        rw [List.append_assoc, List.drop_left' hla]
      have ihr := doc_treeI L B r lb ext (n + (blockFullsV v).length) d hlb
        (fun i h => hi i (List.mem_append_right _ h)) (by omega) hok.2 hLb hBb
      have ihv := doc_treeV L B v la (lb ++ ext) n d hla (fun i h => hi i (List.mem_append_left _ h)) (by omega)
        hok.1.2 hLa hBa
      simp only [dTreeI, hdrop]
      have hph : ∀ x, phOf (keyOfStr k) x = none := phOf_dom hok.1.1
      cases v with
      | lit l =>
        simp only [dTreeV, phCov, docEs, hph, cnormI, cnormV, ihr.1, ihr.2, Bool.and_self]
        exact ⟨trivial, trivial⟩
      | list xs =>
        simp only [dTreeV, phCov, docEs, cnormI, cnormV, ihr.1, ihr.2]
        exact ⟨trivial, trivial⟩
      | dict items =>
        simp only [List.append_assoc] at ihv ⊢
        simp only [dTreeV, phCov, docEs, cnormI, cnormV, ihr.1, ihr.2, ihv.1, ihv.2, Bool.and_self]
        exact ⟨trivial, trivial⟩
    | .lineC x :: r, l1, ext, n, d, hl, hi, hn, hok, hL, hB => by
      simp only [lineFullsI, blockFullsI, List.length_cons, okI, Bool.and_eq_true] at hl hn hok hL hB
      cases l1 with
      | nil => simp at hl
      | cons i l1 =>
        simp only [List.length_cons, Nat.add_right_cancel_iff] at hl
        have hL0 : L.get? i = some ('/' :: '/' :: x) := hL (i, _) (by simp)
        have hLr : LkL L l1 (lineFullsI r) := fun p hp => hL p (by simp [hp])
        have ihr := doc_treeI L B r l1 ext n d hl (fun j h => hi j (List.mem_cons_of_mem _ h)) hn hok.2 hLr hB
        have hii : i ≤ 999999 := hi i List.mem_cons_self
        simp only [List.cons_append, dTreeI, List.headD_cons, List.tail_cons, phEntry, phCov, docEs, phOf_ph true hii,
          hL0, Option.isSome_some, Option.getD_some, lineBody_eq, cnormI, ihr.1, ihr.2, Bool.and_self]
        exact ⟨trivial, trivial⟩
    | .blockC x :: r, l1, ext, n, d, hl, hi, hn, hok, hL, hB => by
      simp only [lineFullsI, blockFullsI, List.length_cons, okI, Bool.and_eq_true] at hl hn hok hL hB
      have hB0 : B.get? n = some ('/' :: '*' :: x ++ ['*', '/']) := hB (n, _) (by simp [List.range'_succ])
      have hBr : LkB B (n + 1) (blockFullsI r) := by
        intro p hp
        apply hB p
        simp only [List.length_cons, List.range'_succ, List.zip_cons_cons, List.mem_cons]
        exact Or.inr hp
      have ihr := doc_treeI L B r l1 ext (n + 1) d hl hi (by omega) hok.2 hL hBr
      have hnn : n ≤ 999999 := by omega
      simp only [dTreeI, phEntry, phCov, docEs, phOf_ph false hnn,
        hB0, Option.isSome_some, Option.getD_some, blockBody_eq, cnormI, ihr.1, ihr.2, Bool.and_self]
      exact ⟨trivial, trivial⟩
end

mutual
  theorem wsh_treeV : ∀ (v : CSrc) (l1 ext : List Nat) (n d : Nat),
      l1.length = (lineFullsV v).length → (∀ i ∈ l1, i ≤ 999999) → n + (blockFullsV v).length ≤ 1000000 →
      okV d v = true →
      (match v with
       | .dict items => wshEs (d + 1) (dTreeI (l1 ++ ext) n items) = true
       | _ => True)
    | .lit l, _, _, _, _, _, _, _, _ => trivial
    | .list xs, _, _, _, _, _, _, _, _ => trivial
    | .dict items, l1, ext, n, d, hl, hi, hn, hok => by
      simp only [lineFullsV, blockFullsV, okV] at hl hn hok
      exact wsh_treeI items l1 ext n (d + 1) hl hi hn hok
  /-- the tree has the shape the writer theorem asks for -/
  theorem wsh_treeI : ∀ (items : List CItem) (l1 ext : List Nat) (n d : Nat),
      l1.length = (lineFullsI items).length → (∀ i ∈ l1, i ≤ 999999) → n + (blockFullsI items).length ≤ 1000000 →
      okI d items = true → wshEs d (dTreeI (l1 ++ ext) n items) = true
    | [], _, _, _, _, _, _, _, _ => by simp [dTreeI, wshEs]
    | .entry k v :: r, l1, ext, n, d, hl, hi, hn, hok => by
      simp only [lineFullsI, blockFullsI, List.length_append, okI, Bool.and_eq_true] at hl hn hok
      obtain ⟨la, lb, rfl, hla⟩ : ∃ la lb, l1 = la ++ lb ∧ la.length = (lineFullsV v).length :=
        ⟨l1.take (lineFullsV v).length, l1.drop (lineFullsV v).length, (List.take_append_drop _ _).symm,
          by rw [List.length_take]; omega⟩
      have hlb : lb.length = (lineFullsI r).length := by simp only [List.length_append] at hl; omega
      have hdrop : (la ++ lb ++ ext).drop (lineFullsV v).length = lb ++ ext := by
        rw [List.append_assoc, List.drop_left' hla]
      have ihr := wsh_treeI r lb ext (n + (blockFullsV v).length) d hlb
        (fun i h => hi i (List.mem_append_right _ h)) (by omega) hok.2
      have ihv := wsh_treeV v la (lb ++ ext) n d hla (fun i h => hi i (List.mem_append_left _ h)) (by omega) hok.1.2
      simp only [dTreeI, hdrop]
      cases v with
      | lit l =>
        simp only [okV, Bool.and_eq_true] at hok
        simp only [dTreeV, wshEs, hok.1.1, hok.1.2.1, hok.1.2.2, ihr, Bool.and_self, Bool.or_true]
      | list xs =>
        simp only [okV] at hok
        simp only [dTreeV, wshEs, hok.1.1, hok.1.2, ihr, Bool.and_self]
      | dict items =>
        simp only [List.append_assoc] at ihv ⊢
        simp only [dTreeV, wshEs, hok.1.1, ihv, ihr, Bool.and_self]
    | .lineC x :: r, l1, ext, n, d, hl, hi, hn, hok => by
      simp only [lineFullsI, blockFullsI, List.length_cons, okI, Bool.and_eq_true] at hl hn hok
      cases l1 with
      | nil => simp at hl
      | cons i l1 =>
        simp only [List.length_cons, Nat.add_right_cancel_iff] at hl
        have ihr := wsh_treeI r l1 ext n d hl (fun j h => hi j (List.mem_cons_of_mem _ h)) hn hok.2
        simp only [List.cons_append, dTreeI, List.headD_cons, List.tail_cons, phEntry, wshEs,
          phOf_ph true (hi i List.mem_cons_self), Option.isSome_some, Bool.true_or, ihr, Bool.and_self]
    | .blockC x :: r, l1, ext, n, d, hl, hi, hn, hok => by
      simp only [lineFullsI, blockFullsI, List.length_cons, okI, Bool.and_eq_true] at hl hn hok
      have ihr := wsh_treeI r l1 ext (n + 1) d hl hi (by omega) hok.2
      have hnn : n ≤ 999999 := by omega
      simp only [dTreeI, phEntry, wshEs, phOf_ph false hnn, Option.isSome_some, Bool.true_or, ihr, Bool.and_self]
end

/-! ### the keys of every level are pairwise distinct -/

/-- the typed keys of the entries of one level -/
def levelKeys : List CItem → List Key
  | [] => []
  | .entry k _ :: r => keyOfStr k :: levelKeys r
  | .lineC _ :: r => levelKeys r
  | .blockC _ :: r => levelKeys r

/-- the line / block comments of one level (not of the levels below) -/
def lvlLines : List CItem → List Str
  | [] => []
  | .lineC x :: r => x :: lvlLines r
  | .entry _ _ :: r => lvlLines r
  | .blockC _ :: r => lvlLines r

def lvlBlocks : List CItem → List Str
  | [] => []
  | .blockC x :: r => x :: lvlBlocks r
  | .entry _ _ :: r => lvlBlocks r
  | .lineC _ :: r => lvlBlocks r

/-- at one level: no key twice, no line comment twice, no block comment twice -/
def levelOK (items : List CItem) : Bool :=
  decide (levelKeys items).Nodup && decide (lvlLines items).Nodup && decide (lvlBlocks items).Nodup

mutual
  def lvlV : CSrc → Bool
    | .dict items => levelOK items && lvlI items
    | _ => true
  /-- … at every level below -/
  def lvlI : List CItem → Bool
    | [] => true
    | .entry _ v :: r => lvlV v && lvlI r
    | .lineC _ :: r => lvlI r
    | .blockC _ :: r => lvlI r
end

theorem phWord_inj {l l' : Bool} {i j : Nat} (hi : i ≤ 999999) (hj : j ≤ 999999) (h : phWord l i = phWord l' j) :
    l = l' ∧ i = j :=
  phWord_infix hi hj (by rw [h]; exact C02.isInfix_self _)

theorem dom_ne_ph {k : Key} (h : isDomKey k = true) (l : Bool) {i : Nat} (hi : i ≤ 999999) : k ≠ .str (phWord l i) := by
  intro e
  have h1 := phOf_dom h (.str (phWord l i))
  rw [e, phOf_ph l hi] at h1
  cases h1

/-- where the keys of a level come from -/
theorem keys_tree : ∀ (items : List CItem) (l1 ext : List Nat) (n : Nat), l1.length = (lineFullsI items).length →
    ∀ key ∈ keys (dTreeI (l1 ++ ext) n items),
      key ∈ levelKeys items ∨ (∃ i ∈ l1, key = .str (phWord true i)) ∨
      (∃ j, n ≤ j ∧ j < n + (blockFullsI items).length ∧ key = .str (phWord false j))
  | [], _, _, _, _, key, hk => by simp [dTreeI, keys] at hk
  | .entry k v :: r, l1, ext, n, hl, key, hk => by
    simp only [lineFullsI, blockFullsI, List.length_append] at hl ⊢
    obtain ⟨la, lb, rfl, hla⟩ : ∃ la lb, l1 = la ++ lb ∧ la.length = (lineFullsV v).length :=
      ⟨l1.take (lineFullsV v).length, l1.drop (lineFullsV v).length, (List.take_append_drop _ _).symm,
        by rw [List.length_take]; omega⟩
    have hlb : lb.length = (lineFullsI r).length := by simp only [List.length_append] at hl; omega
    have hdrop : (la ++ lb ++ ext).drop (lineFullsV v).length = lb ++ ext := by
      rw [List.append_assoc, List.drop_left' hla]
    simp only [dTreeI, hdrop, keys, List.map_cons, List.mem_cons] at hk
    rcases hk with rfl | hk
    · exact Or.inl (by simp [levelKeys])
    · rcases keys_tree r lb ext _ hlb key hk with h | ⟨i, hi, e⟩ | ⟨j, h1, h2, e⟩
      · exact Or.inl (by simp [levelKeys, h])
      · exact Or.inr (Or.inl ⟨i, List.mem_append_right _ hi, e⟩)
      · exact Or.inr (Or.inr ⟨j, by omega, by omega, e⟩)
  | .lineC x :: r, l1, ext, n, hl, key, hk => by
    simp only [lineFullsI, blockFullsI, List.length_cons] at hl ⊢
    cases l1 with
    | nil => simp at hl
    | cons i l1 =>
      simp only [List.length_cons, Nat.add_right_cancel_iff] at hl
      simp only [List.cons_append, dTreeI, List.headD_cons, List.tail_cons, phEntry, keys, List.map_cons,
        List.mem_cons] at hk
      rcases hk with rfl | hk
      · exact Or.inr (Or.inl ⟨i, List.mem_cons_self, rfl⟩)
      · rcases keys_tree r l1 ext n hl key hk with h | ⟨i', hi', e⟩ | ⟨j, h1, h2, e⟩
        · exact Or.inl (by simpa [levelKeys] using h)
        · exact Or.inr (Or.inl ⟨i', List.mem_cons_of_mem _ hi', e⟩)
        · exact Or.inr (Or.inr ⟨j, h1, h2, e⟩)
  | .blockC x :: r, l1, ext, n, hl, key, hk => by
    simp only [lineFullsI, blockFullsI, List.length_cons] at hl ⊢
    simp only [dTreeI, phEntry, keys, List.map_cons, List.mem_cons] at hk
    rcases hk with rfl | hk
    · exact Or.inr (Or.inr ⟨n, Nat.le_refl _, by omega, rfl⟩)
    · rcases keys_tree r l1 ext (n + 1) hl key hk with h | ⟨i', hi', e⟩ | ⟨j, h1, h2, e⟩
      · exact Or.inl (by simpa [levelKeys] using h)
      · exact Or.inr (Or.inl ⟨i', hi', e⟩)
      · exact Or.inr (Or.inr ⟨j, by omega, by omega, e⟩)

theorem levelKeys_dom {d : Nat} : ∀ {items : List CItem}, okI d items = true → ∀ k ∈ levelKeys items, isDomKey k = true
  | [], _, k, hk => by simp [levelKeys] at hk
  | .entry k0 v :: r, h, k, hk => by
    simp only [okI, Bool.and_eq_true] at h
    simp only [levelKeys, List.mem_cons] at hk
    rcases hk with rfl | hk
    · exact h.1.1
    · exact levelKeys_dom h.2 k hk
  | .lineC x :: r, h, k, hk => by
    simp only [okI, Bool.and_eq_true] at h
    exact levelKeys_dom h.2 k (by simpa [levelKeys] using hk)
  | .blockC x :: r, h, k, hk => by
    simp only [okI, Bool.and_eq_true] at h
    exact levelKeys_dom h.2 k (by simpa [levelKeys] using hk)

/-- the keys of one level are pairwise distinct -/
theorem knodup_tree : ∀ (items : List CItem) (l1 ext : List Nat) (n d : Nat), l1.length = (lineFullsI items).length →
    l1.Nodup → (∀ i ∈ l1, i ≤ 999999) → n + (blockFullsI items).length ≤ 1000000 → okI d items = true →
    (levelKeys items).Nodup → KNodup (dTreeI (l1 ++ ext) n items)
  | [], _, _, _, _, _, _, _, _, _, _ => by simp [dTreeI, KNodup, keys]
  | .entry k v :: r, l1, ext, n, d, hl, hnd, hi, hn, hok, hkn => by
    simp only [lineFullsI, blockFullsI, List.length_append] at hl hn
    have hok' := hok
    simp only [okI, Bool.and_eq_true] at hok
    simp only [levelKeys, List.nodup_cons] at hkn
    obtain ⟨la, lb, rfl, hla⟩ : ∃ la lb, l1 = la ++ lb ∧ la.length = (lineFullsV v).length :=
      ⟨l1.take (lineFullsV v).length, l1.drop (lineFullsV v).length, (List.take_append_drop _ _).symm,
        by rw [List.length_take]; omega⟩
    have hlb : lb.length = (lineFullsI r).length := by simp only [List.length_append] at hl; omega
    have hdrop : (la ++ lb ++ ext).drop (lineFullsV v).length = lb ++ ext := by
      rw [List.append_assoc, List.drop_left' hla]
    have hib : ∀ i ∈ lb, i ≤ 999999 := fun i h => hi i (List.mem_append_right _ h)
    have ih := knodup_tree r lb ext (n + (blockFullsV v).length) d hlb (List.nodup_append.mp hnd).2.1 hib (by omega)
      hok.2 hkn.2
    simp only [dTreeI, hdrop, KNodup, keys, List.map_cons, List.nodup_cons]
    refine ⟨?_, ih⟩
    intro hmem
    rcases keys_tree r lb ext _ hlb _ hmem with h | ⟨i, hi', e⟩ | ⟨j, h1, h2, e⟩
    · exact hkn.1 h
    · exact dom_ne_ph hok.1.1 true (hib i hi') e
    · exact dom_ne_ph hok.1.1 false (by omega) e
  | .lineC x :: r, l1, ext, n, d, hl, hnd, hi, hn, hok, hkn => by
    simp only [lineFullsI, blockFullsI, List.length_cons] at hl hn
    simp only [okI, Bool.and_eq_true] at hok
    cases l1 with
    | nil => simp at hl
    | cons i l1 =>
      simp only [List.length_cons, Nat.add_right_cancel_iff] at hl
      simp only [List.nodup_cons] at hnd
      have hi1 : ∀ j ∈ l1, j ≤ 999999 := fun j h => hi j (List.mem_cons_of_mem _ h)
      have ih := knodup_tree r l1 ext n d hl hnd.2 hi1 hn hok.2 (by simpa [levelKeys] using hkn)
      simp only [List.cons_append, dTreeI, List.headD_cons, List.tail_cons, phEntry, KNodup, keys, List.map_cons,
        List.nodup_cons]
      refine ⟨?_, ih⟩
      intro hmem
      rcases keys_tree r l1 ext n hl _ hmem with h | ⟨i', hi', e⟩ | ⟨j, h1, h2, e⟩
      · exact dom_ne_ph (levelKeys_dom hok.2 _ h) true (hi i List.mem_cons_self) rfl
      · simp only [Key.str.injEq] at e
        have := (phWord_inj (hi i List.mem_cons_self) (hi1 i' hi') e).2
        subst this
        exact hnd.1 hi'
      · simp only [Key.str.injEq] at e
        have := (phWord_inj (hi i List.mem_cons_self) (by omega) e).1
        cases this
  | .blockC x :: r, l1, ext, n, d, hl, hnd, hi, hn, hok, hkn => by
    simp only [lineFullsI, blockFullsI, List.length_cons] at hl hn
    simp only [okI, Bool.and_eq_true] at hok
    have ih := knodup_tree r l1 ext (n + 1) d hl hnd hi (by omega) hok.2 (by simpa [levelKeys] using hkn)
    simp only [dTreeI, phEntry, KNodup, keys, List.map_cons, List.nodup_cons]
    refine ⟨?_, ih⟩
    intro hmem
    rcases keys_tree r l1 ext (n + 1) hl _ hmem with h | ⟨i', hi', e⟩ | ⟨j, h1, h2, e⟩
    · exact dom_ne_ph (levelKeys_dom hok.2 _ h) false (by omega) rfl
    · simp only [Key.str.injEq] at e
      have := (phWord_inj (by omega) (hi i' hi') e).1
      cases this
    · simp only [Key.str.injEq] at e
      have := (phWord_inj (by omega) (by omega) e).2
      omega

/-! ### `_clean` finds nothing to do: the comments of one level as `_clean_data` sees them -/

theorem sel_dom {k : Key} (h : isDomKey k = true) : selB k = false ∧ selI k = false ∧ selL k = false := by
  cases k with
  | int z => exact ⟨rfl, rfl, rfl⟩
  | str s =>
    obtain ⟨h1, h2⟩ := C01.domKey_not_ph h
    have h3 : containsPh kwLine s = false := by
      apply containsPh_false
      simp only [isDomKey, Bool.and_eq_true] at h
      have hc := (C01.isSrcWord_iff.mp h.1.1).2.1
      cases hi : isInfix kwLine s with
      | false => rfl
      | true =>
        have : isInfix "COMMENT".toList s = true := C01.isInfix_of_append (p := "LINE".toList) hi
        rw [this] at hc; cases hc
    simp [selB, selI, selL, h1, h2, h3]

theorem sel_line {i : Nat} (hi : i ≤ 999999) :
    selB (.str (phWord true i)) = false ∧ selI (.str (phWord true i)) = false ∧ selL (.str (phWord true i)) = true := by
  have h3 : containsPh kwLine (phWord true i) = true := containsPh_own true hi
  simp [selB, selI, selL, containsPh_block_line, containsPh_incl_ph, h3]

theorem sel_block {i : Nat} (hi : i ≤ 999999) :
    selB (.str (phWord false i)) = true ∧ selI (.str (phWord false i)) = false ∧ selL (.str (phWord false i)) = false := by
  have h3 : containsPh kwBlock (phWord false i) = true := containsPh_own false hi
  simp [selB, selI, selL, h3]

theorem look_ph (T : Tbl Str) (l : Bool) {i : Nat} (hi : i ≤ 999999) : look T (.str (phWord l i)) = T.get? i := by
  simp [look, firstSix_ph l hi]

/-- the three candidate lists of `_clean_data` on one level of the tree -/
theorem level_cands (L B : Tbl Str) : ∀ (items : List CItem) (l1 ext : List Nat) (n d : Nat),
    l1.length = (lineFullsI items).length → (∀ i ∈ l1, i ≤ 999999) → n + (blockFullsI items).length ≤ 1000000 →
    okI d items = true → LkL L l1 (lineFullsI items) → LkB B n (blockFullsI items) →
    ((keys (dTreeI (l1 ++ ext) n items)).filter selB).filterMap (look B) =
        (lvlBlocks items).map (fun x => '/' :: '*' :: x ++ ['*', '/']) ∧
    (keys (dTreeI (l1 ++ ext) n items)).filter selI = [] ∧
    ((keys (dTreeI (l1 ++ ext) n items)).filter selL).filterMap (look L) =
        (lvlLines items).map (fun x => '/' :: '/' :: x)
  | [], _, _, _, _, _, _, _, _, _, _ => by simp [dTreeI, keys, lvlBlocks, lvlLines]
  | .entry k v :: r, l1, ext, n, d, hl, hi, hn, hok, hL, hB => by
    simp only [lineFullsI, blockFullsI, List.length_append, okI, Bool.and_eq_true] at hl hn hok hL hB
    obtain ⟨la, lb, rfl, hla⟩ : ∃ la lb, l1 = la ++ lb ∧ la.length = (lineFullsV v).length :=
      ⟨l1.take (lineFullsV v).length, l1.drop (lineFullsV v).length, (List.take_append_drop _ _).symm,
        by rw [List.length_take]; omega⟩
    have hlb : lb.length = (lineFullsI r).length := by simp only [List.length_append] at hl; omega
    have hdrop : (la ++ lb ++ ext).drop (lineFullsV v).length = lb ++ ext := by
      rw [List.append_assoc, List.drop_left' hla]
    have ih := level_cands L B r lb ext (n + (blockFullsV v).length) d hlb
      (fun i h => hi i (List.mem_append_right _ h)) (by omega) hok.2 (LkL_split hla hL).2 (LkB_split hB).2
    obtain ⟨s1, s2, s3⟩ := sel_dom hok.1.1
    simp only [dTreeI, hdrop, keys, List.map_cons, List.filter_cons, s1, s2, s3, Bool.false_eq_true, if_false,
      lvlBlocks, lvlLines]
    exact ih
  | .lineC x :: r, l1, ext, n, d, hl, hi, hn, hok, hL, hB => by
    simp only [lineFullsI, blockFullsI, List.length_cons, okI, Bool.and_eq_true] at hl hn hok hL hB
    cases l1 with
    | nil => simp at hl
    | cons i l1 =>
      simp only [List.length_cons, Nat.add_right_cancel_iff] at hl
      have hL0 : L.get? i = some ('/' :: '/' :: x) := hL (i, _) (by simp)
      have hLr : LkL L l1 (lineFullsI r) := fun p hp => hL p (by simp [hp])
      have ih := level_cands L B r l1 ext n d hl (fun j h => hi j (List.mem_cons_of_mem _ h)) hn hok.2 hLr hB
      have hii : i ≤ 999999 := hi i List.mem_cons_self
      obtain ⟨s1, s2, s3⟩ := sel_line hii
      simp only [List.cons_append, dTreeI, List.headD_cons, List.tail_cons, phEntry, keys, List.map_cons,
        List.filter_cons, s1, s2, s3, Bool.false_eq_true, if_false, if_true, List.filterMap_cons, look_ph L true hii, hL0,
        lvlBlocks, lvlLines]
      exact ⟨ih.1, ih.2.1, by rw [ih.2.2]⟩
  | .blockC x :: r, l1, ext, n, d, hl, hi, hn, hok, hL, hB => by
    simp only [lineFullsI, blockFullsI, List.length_cons, okI, Bool.and_eq_true] at hl hn hok hL hB
    have hB0 : B.get? n = some ('/' :: '*' :: x ++ ['*', '/']) := hB (n, _) (by simp [List.range'_succ])
    have hBr : LkB B (n + 1) (blockFullsI r) := by
      intro p hp
      apply hB p
      simp only [List.length_cons, List.range'_succ, List.zip_cons_cons, List.mem_cons]
      exact Or.inr hp
    have ih := level_cands L B r l1 ext (n + 1) d hl hi (by omega) hok.2 hL hBr
    have hnn : n ≤ 999999 := by omega
    obtain ⟨s1, s2, s3⟩ := sel_block hnn
    simp only [dTreeI, phEntry, keys, List.map_cons,
      List.filter_cons, s1, s2, s3, Bool.false_eq_true, if_false, if_true, List.filterMap_cons, look_ph B false hnn, hB0,
      lvlBlocks, lvlLines]
    exact ⟨by rw [ih.1], ih.2.1, ih.2.2⟩

theorem map_inj_nodup {α β} {f : α → β} (hf : ∀ a b, f a = f b → a = b) {l : List α} (h : l.Nodup) : (l.map f).Nodup := by
  induction l with
  | nil => simp
  | cons a l ih =>
    simp only [List.nodup_cons, List.map_cons, List.mem_map] at h ⊢
    refine ⟨?_, ih h.2⟩
    rintro ⟨b, hb, e⟩
    rw [hf b a e] at hb
    exact h.1 hb

/-- nothing to clean at one level of the tree -/
theorem levelFix_tree (s : SD) (items : List CItem) (l1 ext : List Nat) (n d : Nat)
    (hl : l1.length = (lineFullsI items).length) (hnd : l1.Nodup) (hi : ∀ i ∈ l1, i ≤ 999999)
    (hn : n + (blockFullsI items).length ≤ 1000000) (hok : okI d items = true)
    (hL : LkL s.lineC l1 (lineFullsI items)) (hB : LkB s.blockC n (blockFullsI items)) (hlev : levelOK items = true) :
    levelFix s (dTreeI (l1 ++ ext) n items) := by
  simp only [levelOK, Bool.and_eq_true, decide_eq_true_eq] at hlev
  obtain ⟨c1, c2, c3⟩ := level_cands s.lineC s.blockC items l1 ext n d hl hi hn hok hL hB
  refine ⟨?_, c2, ?_, knodup_tree items l1 ext n d hl hnd hi hn hok hlev.1.1⟩
  · rw [c1]
    refine map_inj_nodup ?_ hlev.2
    intro a b e
    simp only [List.cons_append, List.cons.injEq, true_and] at e
    exact List.append_cancel_right e
  · rw [c3]
    refine map_inj_nodup ?_ hlev.1.2
    intro a b e
    simpa using e

mutual
  theorem subsFix_treeV (s : SD) : ∀ (v : CSrc) (l1 ext : List Nat) (n d : Nat),
      l1.length = (lineFullsV v).length → l1.Nodup → (∀ i ∈ l1, i ≤ 999999) → n + (blockFullsV v).length ≤ 1000000 →
      okV d v = true → LkL s.lineC l1 (lineFullsV v) → LkB s.blockC n (blockFullsV v) → lvlV v = true →
      (match v with
       | .dict items => levelFix s (dTreeI (l1 ++ ext) n items) ∧ subsFix s (dTreeI (l1 ++ ext) n items)
       | _ => True)
    | .lit l, _, _, _, _, _, _, _, _, _, _, _, _ => trivial
    | .list xs, _, _, _, _, _, _, _, _, _, _, _, _ => trivial
    | .dict items, l1, ext, n, d, hl, hnd, hi, hn, hok, hL, hB, hlv => by
      simp only [lineFullsV, blockFullsV, okV, lvlV, Bool.and_eq_true] at hl hn hok hL hB hlv
      exact ⟨levelFix_tree s items l1 ext n (d + 1) hl hnd hi hn hok hL hB hlv.1,
        subsFix_treeI s items l1 ext n (d + 1) hl hnd hi hn hok hL hB hlv.2⟩
  /-- nothing to clean at any level below -/
  theorem subsFix_treeI (s : SD) : ∀ (items : List CItem) (l1 ext : List Nat) (n d : Nat),
      l1.length = (lineFullsI items).length → l1.Nodup → (∀ i ∈ l1, i ≤ 999999) →
      n + (blockFullsI items).length ≤ 1000000 →
      okI d items = true → LkL s.lineC l1 (lineFullsI items) → LkB s.blockC n (blockFullsI items) → lvlI items = true →
      subsFix s (dTreeI (l1 ++ ext) n items)
    | [], _, _, _, _, _, _, _, _, _, _, _, _ => by simp only [dTreeI, subsFix, allLevels]
    | .entry k v :: r, l1, ext, n, d, hl, hnd, hi, hn, hok, hL, hB, hlv => by
      simp only [lineFullsI, blockFullsI, List.length_append, okI, lvlI, Bool.and_eq_true] at hl hn hok hL hB hlv
      obtain ⟨la, lb, rfl, hla⟩ : ∃ la lb, l1 = la ++ lb ∧ la.length = (lineFullsV v).length :=
        ⟨l1.take (lineFullsV v).length, l1.drop (lineFullsV v).length, (List.take_append_drop _ _).symm,
          by rw [List.length_take]; omega⟩
      have hlb : lb.length = (lineFullsI r).length := by simp only [List.length_append] at hl; omega
      have hdrop : (la ++ lb ++ ext).drop (lineFullsV v).length = lb ++ ext := by
        rw [List.append_assoc, List.drop_left' hla]
      have hnd' := List.nodup_append.mp hnd
      have ihr := subsFix_treeI s r lb ext (n + (blockFullsV v).length) d hlb hnd'.2.1
        (fun i h => hi i (List.mem_append_right _ h)) (by omega) hok.2 (LkL_split hla hL).2 (LkB_split hB).2 hlv.2
      have ihv := subsFix_treeV s v la (lb ++ ext) n d hla hnd'.1 (fun i h => hi i (List.mem_append_left _ h))
        (by omega) hok.1.2 (LkL_split hla hL).1 (LkB_split hB).1 hlv.1
      simp only [dTreeI, hdrop]
      cases v with
      | lit l => simpa only [dTreeV, subsFix, allLevels] using ihr
      | list xs => simpa only [dTreeV, subsFix, allLevels] using ihr
      | dict items =>
        simp only [List.append_assoc] at ihv ⊢
        simp only [dTreeV, subsFix, allLevels]
        exact ⟨ihv, ihr⟩
    | .lineC x :: r, l1, ext, n, d, hl, hnd, hi, hn, hok, hL, hB, hlv => by
      simp only [lineFullsI, blockFullsI, List.length_cons, okI, lvlI, Bool.and_eq_true] at hl hn hok hL hB hlv
      cases l1 with
      | nil => simp at hl
      | cons i l1 =>
        simp only [List.length_cons, Nat.add_right_cancel_iff] at hl
        simp only [List.nodup_cons] at hnd
        have hLr : LkL s.lineC l1 (lineFullsI r) := fun p hp => hL p (by simp [hp])
        have ihr := subsFix_treeI s r l1 ext n d hl hnd.2 (fun j h => hi j (List.mem_cons_of_mem _ h)) hn hok.2 hLr hB hlv
        simpa only [List.cons_append, dTreeI, List.headD_cons, List.tail_cons, phEntry, subsFix, allLevels] using ihr
    | .blockC x :: r, l1, ext, n, d, hl, hnd, hi, hn, hok, hL, hB, hlv => by
      simp only [lineFullsI, blockFullsI, List.length_cons, okI, lvlI, Bool.and_eq_true] at hl hn hok hL hB hlv
      have hBr : LkB s.blockC (n + 1) (blockFullsI r) := by
        intro p hp
        apply hB p
        simp only [List.length_cons, List.range'_succ, List.zip_cons_cons, List.mem_cons]
        exact Or.inr hp
      have ihr := subsFix_treeI s r l1 ext (n + 1) d hl hnd hi (by omega) hok.2 hL hBr hlv
      simpa only [dTreeI, phEntry, subsFix, allLevels] using ihr
end

/-! ## 15. `denC c items` in closed form -/

def lineIds (c : Counter) (items : List CItem) : List Nat := alloc Gen.counterLimit (lineFullsI items).length c
def lineTbl (c : Counter) (items : List CItem) : Tbl Str := (lineIds c items).zip (lineFullsI items)
def blockTblOf (items : List CItem) : Tbl Str := (List.range' 0 (blockFullsI items).length).zip (blockFullsI items)
def treeOf (c : Counter) (items : List CItem) : Entries := dTreeI (lineIds c items) 0 items

/-- the SDict the reader returns for the document: one entry per item in order, the comments in the tables -/
def sdOf (c : Counter) (items : List CItem) : SD :=
  { data := treeOf c items, lineC := lineTbl c items, blockC := blockTblOf items }

/-- the hypotheses on the document that make `denC` one-to-one -/
structure HDoc (c : Counter) (items : List CItem) : Prop where
  wf : CSrcWFItems 1 items = true
  ok : okI 1 items = true
  lev : levelOK items = true
  levs : lvlI items = true
  nLine : (lineFullsI items).length ≤ Gen.counterLimit + 1
  nBlock : (blockFullsI items).length ≤ 1000000
  hc : C13.ValidCounter Gen.counterLimit c

theorem tbl_get_nodup : ∀ {T : Tbl Str}, (T.map (·.1)).Nodup → ∀ {p : Nat × Str}, p ∈ T → T.get? p.1 = some p.2
  | [], _, _, hp => by cases hp
  | (j, b) :: T, h, p, hp => by
    simp only [List.map_cons, List.nodup_cons] at h
    rcases List.mem_cons.mp hp with rfl | hp
    · simp [Tbl.get?]
    · have hne : ¬ j = p.1 := fun e => h.1 (by rw [e]; exact List.mem_map_of_mem hp)
      simp only [Tbl.get?, hne, if_false]
      exact tbl_get_nodup h.2 hp

section
variable {c : Counter} {items : List CItem} (H : HDoc c items)
include H

theorem lineIds_facts : (lineIds c items).length = (lineFullsI items).length ∧ (lineIds c items).Nodup ∧
    ∀ i ∈ lineIds c items, i ≤ 999999 :=
  ⟨C13.alloc_length _ _ _, C13.alloc_nodup H.nLine H.hc, C13.alloc_le H.hc _⟩

theorem lineTbl_ids : (lineTbl c items).map (·.1) = lineIds c items :=
  List.map_fst_zip (by rw [(lineIds_facts H).1]; exact Nat.le_refl _)

omit H in
theorem blockTbl_ids : (blockTblOf items).map (·.1) = List.range' 0 (blockFullsI items).length :=
  List.map_fst_zip (by simp)

theorem lkL_own : LkL (lineTbl c items) (lineIds c items) (lineFullsI items) := by
  intro p hp
  exact tbl_get_nodup (by rw [lineTbl_ids H]; exact (lineIds_facts H).2.1) hp

theorem lkB_own : LkB (blockTblOf items) 0 (blockFullsI items) := by
  intro p hp
  exact tbl_get_nodup (by rw [blockTbl_ids]; exact List.nodup_range') hp

theorem sdOf_fix : levelFix (sdOf c items) (treeOf c items) ∧ subsFix (sdOf c items) (treeOf c items) := by
  obtain ⟨h1, h2, h3⟩ := lineIds_facts H
  have e : treeOf c items = dTreeI (lineIds c items ++ []) 0 items := by rw [List.append_nil]; rfl
  rw [e]
  exact ⟨levelFix_tree (sdOf c items) items _ [] 0 1 h1 h2 h3 (by have := H.nBlock; omega) H.ok (lkL_own H) (lkB_own H) H.lev,
    subsFix_treeI (sdOf c items) items _ [] 0 1 h1 h2 h3 (by have := H.nBlock; omega) H.ok (lkL_own H) (lkB_own H) H.levs⟩

/-- the data the reader's stages produce for the labelled document: one entry per item, in order -/
theorem den_label_tree : denPEs (labelCItems { counter := c } items).2 [] = treeOf c items := by
  obtain ⟨hfix, hsub⟩ := sdOf_fix H
  have e : treeOf c items = dTreeI (alloc Gen.counterLimit (lineFullsI items).length c ++ []) 0 items := by
    rw [List.append_nil]; rfl
  have := den_treeI items { counter := c } [] 1 [] H.wf
    (by
      show KNodup (dTreeI (alloc Gen.counterLimit (lineFullsI items).length c ++ []) 0 items)
      rw [← e]; exact hfix.2.2.2)
    (by
      show allLevels KNodup (dTreeI (alloc Gen.counterLimit (lineFullsI items).length c ++ []) 0 items)
      rw [← e]; exact allLevels_imp (fun D h => h.2.2.2) hsub)
    (by intro k _ h; cases h)
  rw [this]
  show [] ++ dTreeI (alloc Gen.counterLimit (lineFullsI items).length c ++ []) 0 items = treeOf c items
  rw [← e]; rfl

/-- **`denC` in closed form**: the reader's SDict for the document is `sdOf c items` -/
theorem denC_closed : denC c items = sdOf c items := by
  obtain ⟨hfix, hsub⟩ := sdOf_fix H
  have hst := label_stateI items { counter := c }
  have hL : (labelCItems { counter := c } items).1.lineC = lineTbl c items := by
    rw [hst]
    simp only [stAfter]
    rw [C02.setAll_nodup _ _ (by
      simp only [List.map_nil, List.nil_append]
      exact (lineTbl_ids H) ▸ (lineIds_facts H).2.1)]
    rfl
  have hB : (labelCItems { counter := c } items).1.blockC = blockTblOf items := by
    rw [hst]
    simp [stAfter, blockTblOf]
  have : denC c items = (SD.mk (denPEs (labelCItems { counter := c } items).2 []) []
      (labelCItems { counter := c } items).1.lineC (labelCItems { counter := c } items).1.blockC []).clean := rfl
  rw [this, hL, hB, den_label_tree H]
  exact clean_fix (sdOf c items) hfix hsub

/-- M1 for the labelled document itself: the raw output for the data of a commented document -/
theorem fmt_labelled_items (lvl : Nat) :
    ∃ lay tail, lay.map Prod.snd = xtoksEs lvl (denPEs (labelCItems { counter := c } items).2 []) ∧
      fmtEntries .native lvl (denPEs (labelCItems { counter := c } items).2 []) = layX lay tail ∧
      okX .cov lay = true ∧ tail.all isWs = true := by
  rw [den_label_tree H]
  obtain ⟨h1, h2, h3⟩ := lineIds_facts H
  have eD : treeOf c items = dTreeI (lineIds c items ++ []) 0 items := by rw [List.append_nil]; rfl
  exact fmt_labelled_is_layout 1 lvl _ (by
    rw [eD]; exact wsh_treeI items _ [] 0 1 h1 h3 (by have := H.nBlock; omega) H.ok)

end

/-! ## 16. the hoisted top level -/

def isBE (e : Key × Val) : Bool := match e.1 with | .str k => containsPh kwBlock k | _ => false
def isIE (e : Key × Val) : Bool := match e.1 with | .str k => containsPh kwIncl k | _ => false

theorem hoist_def (D : Entries) : hoistPlaceholders D =
    D.filter isBE ++ D.filter (fun e => !isBE e && isIE e) ++ D.filter (fun e => !isBE e && !isIE e) := rfl

/-- without include entries the reordering puts the block-comment entries first and keeps the rest in order -/
theorem hoist_eq {D : Entries} (h : ∀ e ∈ D, isIE e = false) :
    hoistPlaceholders D = D.filter isBE ++ D.filter (fun e => !isBE e) := by
  rw [hoist_def]
  have e2 : D.filter (fun e => !isBE e && isIE e) = [] := List.filter_eq_nil_iff.mpr fun e he => by simp [h e he]
  have e3 : D.filter (fun e => !isBE e && !isIE e) = D.filter (fun e => !isBE e) :=
    List.filter_congr fun e he => by simp [h e he]
  rw [e2, e3, List.append_nil]

theorem xtoksEs_append (lvl : Nat) : ∀ (a b : Entries), xtoksEs lvl (a ++ b) = xtoksEs lvl a ++ xtoksEs lvl b
  | [], b => by simp [xtoksEs]
  | (k, .dict es) :: a, b => by simp only [List.cons_append, xtoksEs, xtoksEs_append lvl a b, List.append_assoc]
  | (k, .list xs) :: a, b => by simp only [List.cons_append, xtoksEs, xtoksEs_append lvl a b, List.append_assoc]
  | (k, .leaf x) :: a, b => by simp only [List.cons_append, xtoksEs, xtoksEs_append lvl a b, List.append_assoc]

theorem wshEs_append (d : Nat) : ∀ (a b : Entries), wshEs d (a ++ b) = (wshEs d a && wshEs d b)
  | [], b => by simp [wshEs]
  | (k, .dict es) :: a, b => by simp only [List.cons_append, wshEs, wshEs_append d a b, Bool.and_assoc]
  | (k, .list xs) :: a, b => by simp only [List.cons_append, wshEs, wshEs_append d a b, Bool.and_assoc]
  | (k, .leaf x) :: a, b => by simp only [List.cons_append, wshEs, wshEs_append d a b, Bool.and_assoc]

theorem wshEs_filter (d : Nat) (p : Key × Val → Bool) : ∀ (D : Entries), wshEs d D = true → wshEs d (D.filter p) = true
  | [], _ => by simp [wshEs]
  | (k, .dict es) :: a, h => by
    simp only [wshEs, Bool.and_eq_true] at h
    simp only [List.filter_cons]
    split
    · simp only [wshEs, Bool.and_eq_true]; exact ⟨h.1, wshEs_filter d p a h.2⟩
    · exact wshEs_filter d p a h.2
  | (k, .list xs) :: a, h => by
    simp only [wshEs, Bool.and_eq_true] at h
    simp only [List.filter_cons]
    split
    · simp only [wshEs, Bool.and_eq_true]; exact ⟨h.1, wshEs_filter d p a h.2⟩
    · exact wshEs_filter d p a h.2
  | (k, .leaf x) :: a, h => by
    simp only [wshEs, Bool.and_eq_true] at h
    simp only [List.filter_cons]
    split
    · simp only [wshEs, Bool.and_eq_true]; exact ⟨h.1, wshEs_filter d p a h.2⟩
    · exact wshEs_filter d p a h.2

theorem phCov_append (L B : Tbl Str) : ∀ (a b : Entries), phCov L B (a ++ b) = (phCov L B a && phCov L B b)
  | [], b => by simp [phCov]
  | (k, .dict es) :: a, b => by simp only [List.cons_append, phCov, phCov_append L B a b, Bool.and_assoc]
  | (k, .list xs) :: a, b => by simp only [List.cons_append, phCov, phCov_append L B a b]
  | (k, .leaf x) :: a, b => by simp only [List.cons_append, phCov, phCov_append L B a b, Bool.and_assoc]

theorem phCov_filter (L B : Tbl Str) (p : Key × Val → Bool) : ∀ (D : Entries), phCov L B D = true →
    phCov L B (D.filter p) = true
  | [], _ => by simp [phCov]
  | (k, .dict es) :: a, h => by
    simp only [phCov, Bool.and_eq_true] at h
    simp only [List.filter_cons]
    split
    · simp only [phCov, Bool.and_eq_true]; exact ⟨h.1, phCov_filter L B p a h.2⟩
    · exact phCov_filter L B p a h.2
  | (k, .list xs) :: a, h => by
    simp only [phCov] at h
    simp only [List.filter_cons]
    split
    · simp only [phCov]; exact phCov_filter L B p a h
    · exact phCov_filter L B p a h
  | (k, .leaf x) :: a, h => by
    simp only [phCov, Bool.and_eq_true] at h
    simp only [List.filter_cons]
    split
    · simp only [phCov, Bool.and_eq_true]; exact ⟨h.1, phCov_filter L B p a h.2⟩
    · exact phCov_filter L B p a h.2

theorem docEs_append (L B : Tbl Str) : ∀ (a b : Entries), docEs L B (a ++ b) = docEs L B a ++ docEs L B b
  | [], b => by simp [docEs]
  | (k, .dict es) :: a, b => by simp only [List.cons_append, docEs, docEs_append L B a b]
  | (k, .list xs) :: a, b => by simp only [List.cons_append, docEs, docEs_append L B a b]
  | (k, .leaf x) :: a, b => by simp only [List.cons_append, docEs, docEs_append L B a b]

def isBlockItem : CItem → Bool
  | .blockC _ => true
  | _ => false

/-- block-comment entries of the data are the block comments of the written document -/
theorem docEs_filter (L B : Tbl Str) (d : Nat) : ∀ (D : Entries), wshEs d D = true →
    docEs L B (D.filter isBE) = (docEs L B D).filter isBlockItem ∧
    docEs L B (D.filter fun e => !isBE e) = (docEs L B D).filter fun it => !isBlockItem it
  | [], _ => by simp [docEs]
  | (k, .dict es) :: a, h => by
    simp only [wshEs, Bool.and_eq_true] at h
    have ih := docEs_filter L B d a h.2
    have hb : isBE (k, Val.dict es) = false := (sel_dom h.1.1).1
    simp only [List.filter_cons, hb, Bool.false_eq_true, if_false, Bool.not_false, if_true, docEs, isBlockItem, ih.1, ih.2]
    exact ⟨trivial, trivial⟩
  | (k, .list xs) :: a, h => by
    simp only [wshEs, Bool.and_eq_true] at h
    have ih := docEs_filter L B d a h.2
    have hb : isBE (k, Val.list xs) = false := (sel_dom h.1.1).1
    simp only [List.filter_cons, hb, Bool.false_eq_true, if_false, Bool.not_false, if_true, docEs, isBlockItem, ih.1, ih.2]
    exact ⟨trivial, trivial⟩
  | (k, .leaf x) :: a, h => by
    simp only [wshEs, Bool.and_eq_true, Bool.or_eq_true, decide_eq_true_eq] at h
    have ih := docEs_filter L B d a h.2
    cases hp : phOf k x with
    | none =>
      rw [hp] at h
      rcases h.1 with h1 | h1
      · cases h1
      · have hb : isBE (k, Val.leaf x) = false := (sel_dom h1.1.1).1
        simp only [List.filter_cons, hb, Bool.false_eq_true, if_false, Bool.not_false, if_true, docEs, hp, isBlockItem,
          ih.1, ih.2]
        exact ⟨trivial, trivial⟩
    | some li =>
      obtain ⟨l, i⟩ := li
      obtain ⟨rfl, rfl, hi⟩ := phOf_some hp
      cases l with
      | true =>
        have hb : isBE (Key.str (phWord true i), Val.leaf (.str (phWord true i))) = false := (sel_line hi).1
        simp only [List.filter_cons, hb, Bool.false_eq_true, if_false, Bool.not_false, if_true, docEs, hp, isBlockItem,
          ih.1, ih.2]
        exact ⟨trivial, trivial⟩
      | false =>
        have hb : isBE (Key.str (phWord false i), Val.leaf (.str (phWord false i))) = true := (sel_block hi).1
        simp only [List.filter_cons, hb, Bool.false_eq_true, if_false, Bool.not_true, if_true, docEs, hp, isBlockItem,
          ih.1, ih.2]
        exact ⟨trivial, trivial⟩

/-- no entry of the tree looks like an include entry -/
theorem wsh_noIncl (d : Nat) : ∀ (D : Entries), wshEs d D = true → ∀ e ∈ D, isIE e = false
  | [], _, e, he => by cases he
  | (k, .dict es) :: a, h, e, he => by
    simp only [wshEs, Bool.and_eq_true] at h
    rcases List.mem_cons.mp he with rfl | he
    · have := (sel_dom h.1.1)
      cases k with
      | int z => rfl
      | str s => exact (C01.domKey_not_ph h.1.1).2
    · exact wsh_noIncl d a h.2 e he
  | (k, .list xs) :: a, h, e, he => by
    simp only [wshEs, Bool.and_eq_true] at h
    rcases List.mem_cons.mp he with rfl | he
    · cases k with
      | int z => rfl
      | str s => exact (C01.domKey_not_ph h.1.1).2
    · exact wsh_noIncl d a h.2 e he
  | (k, .leaf x) :: a, h, e, he => by
    simp only [wshEs, Bool.and_eq_true, Bool.or_eq_true, decide_eq_true_eq] at h
    rcases List.mem_cons.mp he with rfl | he
    · cases hp : phOf k x with
      | none =>
        rw [hp] at h
        rcases h.1 with h1 | h1
        · cases h1
        · cases k with
          | int z => rfl
          | str s => exact (C01.domKey_not_ph h1.1.1).2
      | some li =>
        obtain ⟨l, i⟩ := li
        obtain ⟨rfl, rfl, hi⟩ := phOf_some hp
        exact containsPh_incl_ph l i
    · exact wsh_noIncl d a h.2 e he

/-! ### the block-comment ids of the raw output -/

def bIdOf : XTok → Option Nat
  | .ph false i _ => some i
  | _ => none

def bIds (xs : List XTok) : List Nat := xs.filterMap bIdOf

theorem bIds_append (a b : List XTok) : bIds (a ++ b) = bIds a ++ bIds b := List.filterMap_append

theorem bIds_tok (s : STok) (xs : List XTok) : bIds (.tok s :: xs) = bIds xs := rfl
theorem bIds_phT (i : Nat) (pad : Str) (xs : List XTok) : bIds (.ph true i pad :: xs) = bIds xs := rfl
theorem bIds_phF (i : Nat) (pad : Str) (xs : List XTok) : bIds (.ph false i pad :: xs) = i :: bIds xs := rfl
theorem bIds_nil : bIds [] = [] := rfl

theorem bIds_toks (ts : List STok) : bIds (ts.map XTok.tok) = [] := by
  induction ts with
  | nil => rfl
  | cons t ts ih => rw [List.map_cons, bIds_tok, ih]

theorem xtoks_flatMap (lvl : Nat) : ∀ (D : Entries), xtoksEs lvl D = D.flatMap fun e => xtoksEs lvl [e]
  | [] => by simp [xtoksEs]
  | e :: D => by
    have := xtoksEs_append lvl [e] D
    simp only [List.singleton_append] at this
    rw [this, xtoks_flatMap lvl D, List.flatMap_cons]

/-- reordering the entries of a level permutes the block-comment ids -/
theorem bIds_perm (lvl : Nat) {D D' : Entries} (h : D'.Perm D) : (bIds (xtoksEs lvl D')).Perm (bIds (xtoksEs lvl D)) := by
  rw [xtoks_flatMap lvl D', xtoks_flatMap lvl D]
  exact (List.Perm.flatMap_right _ h).filterMap _

theorem mem_bIds {xs : List XTok} {j : Nat} : j ∈ bIds xs ↔ ∃ pad, XTok.ph false j pad ∈ xs := by
  simp only [bIds, List.mem_filterMap]
  constructor
  · rintro ⟨t, ht, e⟩
    cases t with
    | tok s => cases e
    | cmt l f => cases e
    | ph l i pad =>
      cases l with
      | true => cases e
      | false => simp only [bIdOf, Option.some.injEq] at e; subst e; exact ⟨pad, ht⟩
  · rintro ⟨pad, h⟩
    exact ⟨_, h, rfl⟩


theorem any_of_mem_bIds {xs : List XTok} {j : Nat} (h : j ∈ bIds xs) : (xs.any fun t => isPhX false j t) = true := by
  obtain ⟨pad, hp⟩ := mem_bIds.mp h
  exact List.any_eq_true.mpr ⟨_, hp, by simp [isPhX]⟩

theorem not_mem_bIds {xs : List XTok} {j : Nat} (h : j ∉ bIds xs) : ∀ t ∈ xs, isPhX false j t = false := by
  intro t ht
  cases hp : isPhX false j t with
  | false => rfl
  | true =>
    exfalso
    cases t with
    | tok s => cases hp
    | cmt l f => cases hp
    | ph l i pad =>
      simp only [isPhX, Bool.and_eq_true, beq_iff_eq] at hp
      obtain ⟨rfl, rfl⟩ := hp
      exact h (mem_bIds.mpr ⟨pad, ht⟩)

mutual
  theorem bIds_treeV : ∀ (v : CSrc) (l1 ext : List Nat) (n d lvl : Nat),
      l1.length = (lineFullsV v).length → (∀ i ∈ l1, i ≤ 999999) → n + (blockFullsV v).length ≤ 1000000 →
      okV d v = true →
      (match v with
       | .dict items => bIds (xtoksEs lvl (dTreeI (l1 ++ ext) n items)) = List.range' n (blockFullsI items).length
       | _ => True)
    | .lit l, _, _, _, _, _, _, _, _, _ => trivial
    | .list xs, _, _, _, _, _, _, _, _, _ => trivial
    | .dict items, l1, ext, n, d, lvl, hl, hi, hn, hok => by
      simp only [lineFullsV, blockFullsV, okV] at hl hn hok
      exact bIds_treeI items l1 ext n (d + 1) lvl hl hi hn hok
  /-- the block-comment ids of the raw output, in document order, are consecutive -/
  theorem bIds_treeI : ∀ (items : List CItem) (l1 ext : List Nat) (n d lvl : Nat),
      l1.length = (lineFullsI items).length → (∀ i ∈ l1, i ≤ 999999) → n + (blockFullsI items).length ≤ 1000000 →
      okI d items = true →
      bIds (xtoksEs lvl (dTreeI (l1 ++ ext) n items)) = List.range' n (blockFullsI items).length
    | [], _, _, _, _, _, _, _, _, _ => by simp [dTreeI, xtoksEs, bIds, blockFullsI]
    | .entry k v :: r, l1, ext, n, d, lvl, hl, hi, hn, hok => by
      simp only [lineFullsI, blockFullsI, List.length_append, okI, Bool.and_eq_true] at hl hn hok ⊢
      obtain ⟨la, lb, rfl, hla⟩ : ∃ la lb, l1 = la ++ lb ∧ la.length = (lineFullsV v).length :=
        ⟨l1.take (lineFullsV v).length, l1.drop (lineFullsV v).length, (List.take_append_drop _ _).symm,
          by rw [List.length_take]; omega⟩
      have hlb : lb.length = (lineFullsI r).length := by simp only [List.length_append] at hl; omega
      have hdrop : (la ++ lb ++ ext).drop (lineFullsV v).length = lb ++ ext := by
        rw [List.append_assoc, List.drop_left' hla]
      have ihr := bIds_treeI r lb ext (n + (blockFullsV v).length) d lvl hlb
        (fun i h => hi i (List.mem_append_right _ h)) (by omega) hok.2
      have ihv := bIds_treeV v la (lb ++ ext) n d (lvl + 1) hla (fun i h => hi i (List.mem_append_left _ h)) (by omega)
        hok.1.2
      simp only [dTreeI, hdrop]
      have hph : ∀ x, phOf (keyOfStr k) x = none := phOf_dom hok.1.1
      cases v with
      | lit l =>
        simp only [dTreeV, xtoksEs, hph, blockFullsV, List.length_nil, Nat.add_zero, Nat.zero_add] at ihr ⊢
        simpa only [List.cons_append, List.nil_append, bIds_tok] using ihr
      | list xs =>
        simp only [dTreeV, xtoksEs, blockFullsV, List.length_nil, Nat.add_zero, Nat.zero_add] at ihr ⊢
        rw [show ∀ (a b : XTok) (m q z : List XTok), a :: (b :: m ++ q) ++ z = [a, b] ++ m ++ q ++ z from by intros; simp,
          bIds_append, bIds_append, bIds_append, bIds_toks, ihr]
        simp only [bIds_tok, bIds_nil, List.nil_append]
      | dict items =>
        simp only [List.append_assoc] at ihv ⊢
        simp only [dTreeV, xtoksEs, blockFullsV] at ihr ⊢
        rw [show ∀ (a b : XTok) (m q z : List XTok), a :: b :: m ++ q ++ z = [a, b] ++ m ++ q ++ z from by intros; simp,
          bIds_append, bIds_append, bIds_append, ihv, ihr, ← List.range'_append_1]
        simp only [bIds_tok, bIds_nil, List.nil_append, List.append_nil]
    | .lineC x :: r, l1, ext, n, d, lvl, hl, hi, hn, hok => by
      simp only [lineFullsI, blockFullsI, List.length_cons, okI, Bool.and_eq_true] at hl hn hok ⊢
      cases l1 with
      | nil => simp at hl
      | cons i l1 =>
        simp only [List.length_cons, Nat.add_right_cancel_iff] at hl
        have ihr := bIds_treeI r l1 ext n d lvl hl (fun j h => hi j (List.mem_cons_of_mem _ h)) hn hok.2
        simp only [List.cons_append, dTreeI, List.headD_cons, List.tail_cons, phEntry, xtoksEs,
          phOf_ph true (hi i List.mem_cons_self), List.singleton_append, bIds_phT]
        exact ihr
    | .blockC x :: r, l1, ext, n, d, lvl, hl, hi, hn, hok => by
      simp only [lineFullsI, blockFullsI, List.length_cons, okI, Bool.and_eq_true] at hl hn hok ⊢
      have ihr := bIds_treeI r l1 ext (n + 1) d lvl hl hi (by omega) hok.2
      have hnn : n ≤ 999999 := by omega
      simp only [dTreeI, phEntry, xtoksEs, phOf_ph false hnn, List.singleton_append, bIds_phF]
      rw [List.range'_succ, ihr]
end

/-! ## 17. the writer theorem applies to `denC c items` -/

/-- the first block comment of the document (if there is one) stands at the top level (finding D28 otherwise) -/
def firstBlockTop : List CItem → Bool
  | [] => true
  | .blockC _ :: _ => true
  | .entry _ v :: r => (blockFullsV v).isEmpty && firstBlockTop r
  | .lineC _ :: r => firstBlockTop r

/-- the block comments as they are written: the first one completed to a header -/
def writtenBlocks (items : List CItem) : List Str :=
  match blockFullsI items with
  | [] => []
  | t :: r => makeDefaultBlockComment .native t :: r

theorem first_block : ∀ (items : List CItem) (ls : List Nat) (n d : Nat), okI d items = true →
    firstBlockTop items = true → blockFullsI items ≠ [] → n ≤ 999999 →
    ∃ rest, (dTreeI ls n items).filter isBE = phEntry false n :: rest
  | [], _, _, _, _, _, hne, _ => by simp [blockFullsI] at hne
  | .blockC x :: r, ls, n, d, _, _, _, hn => by
    have hb : isBE (phEntry false n) = true := (sel_block hn).1
    exact ⟨(dTreeI ls (n + 1) r).filter isBE, by simp only [dTreeI, List.filter_cons, hb, if_true]⟩
  | .entry k v :: r, ls, n, d, hok, hf, hne, hn => by
    simp only [okI, Bool.and_eq_true] at hok
    simp only [firstBlockTop, Bool.and_eq_true, List.isEmpty_iff] at hf
    simp only [blockFullsI, hf.1, List.nil_append] at hne
    obtain ⟨rest, hr⟩ := first_block r (ls.drop (lineFullsV v).length) n d hok.2 hf.2 hne hn
    have hb : isBE (keyOfStr k, dTreeV ls n v) = false := (sel_dom hok.1.1).1
    refine ⟨rest, ?_⟩
    simp only [dTreeI, List.filter_cons, hb, Bool.false_eq_true, if_false, hf.1, List.length_nil, Nat.add_zero]
    exact hr
  | .lineC x :: r, ls, n, d, hok, hf, hne, hn => by
    simp only [okI, Bool.and_eq_true] at hok
    simp only [firstBlockTop] at hf
    simp only [blockFullsI] at hne
    obtain ⟨rest, hr⟩ := first_block r ls.tail n d hok.2 hf hne hn
    have hb : isBE (phEntry true (ls.headD 0)) = false := containsPh_block_line _
    refine ⟨rest, ?_⟩
    simp only [dTreeI, List.filter_cons, hb, Bool.false_eq_true, if_false]
    exact hr

mutual
  theorem fulls_okV : ∀ (v : CSrc) (d d' : Nat), CSrcWFV d v = true → okV d' v = true →
      (∀ f ∈ lineFullsV v, LineFull f) ∧ (∀ f ∈ blockFullsV v, BlockFull f)
    | .lit l, _, _, _, _ => by simp [lineFullsV, blockFullsV]
    | .list xs, _, _, _, _ => by simp [lineFullsV, blockFullsV]
    | .dict items, d, d', hwf, hok => by
      simp only [CSrcWFV, okV] at hwf hok
      simpa only [lineFullsV, blockFullsV] using fulls_okI items (d + 1) (d' + 1) hwf hok
  /-- every comment of the document is one the writer reproduces -/
  theorem fulls_okI : ∀ (items : List CItem) (d d' : Nat), CSrcWFItems d items = true → okI d' items = true →
      (∀ f ∈ lineFullsI items, LineFull f) ∧ (∀ f ∈ blockFullsI items, BlockFull f)
    | [], _, _, _, _ => by simp [lineFullsI, blockFullsI]
    | .entry k v :: r, d, d', hwf, hok => by
      simp only [CSrcWFItems, okI, Bool.and_eq_true] at hwf hok
      obtain ⟨v1, v2⟩ := fulls_okV v d d' hwf.1.2 hok.1.2
      obtain ⟨r1, r2⟩ := fulls_okI r d d' hwf.2 hok.2
      simp only [lineFullsI, blockFullsI, List.mem_append]
      exact ⟨fun f hf => hf.elim (v1 f) (r1 f), fun f hf => hf.elim (v2 f) (r2 f)⟩
    | .lineC x :: r, d, d', hwf, hok => by
      simp only [CSrcWFItems, okI, Bool.and_eq_true] at hwf hok
      obtain ⟨r1, r2⟩ := fulls_okI r d d' hwf.2 hok.2
      simp only [lineFullsI, blockFullsI, List.mem_cons]
      refine ⟨fun f hf => ?_, r2⟩
      rcases hf with rfl | hf
      · exact lineFull_of_ok hwf.1 hok.1
      · exact r1 f hf
    | .blockC x :: r, d, d', hwf, hok => by
      simp only [CSrcWFItems, okI, Bool.and_eq_true] at hwf hok
      obtain ⟨r1, r2⟩ := fulls_okI r d d' hwf.2 hok.2
      simp only [lineFullsI, blockFullsI, List.mem_cons]
      refine ⟨r1, fun f hf => ?_⟩
      rcases hf with rfl | hf
      · exact blockFull_of_ok hwf.1 hok.1
      · exact r2 f hf
end

/-- the hypotheses of the writer side of the round trip -/
structure HW (c : Counter) (items : List CItem) : Prop extends HDoc c items where
  first : firstBlockTop items = true
  indep : indepFrom [] (writtenBlocks items) = true

theorem xtoks_phEntry (lvl : Nat) (l : Bool) {i : Nat} (hi : i ≤ 999999) (R : Entries) :
    xtoksEs lvl (phEntry l i :: R) = .ph l i (padOf lvl (phWord l i)) :: xtoksEs lvl R := by
  simp only [phEntry, xtoksEs, phOf_ph l hi, List.singleton_append]

theorem wok_sdOf {c : Counter} {items : List CItem} (H : HW c items) : WOK (sdOf c items) := by
  have HD := H.toHDoc
  obtain ⟨h1, h2, h3⟩ := lineIds_facts HD
  have hnb : 0 + (blockFullsI items).length ≤ 1000000 := by have := H.nBlock; omega
  have eD : treeOf c items = dTreeI (lineIds c items ++ []) 0 items := by rw [List.append_nil]; rfl
  have hwsh : wshEs 1 (treeOf c items) = true := by rw [eD]; exact wsh_treeI items _ [] 0 1 h1 h3 hnb H.ok
  have hdoc := doc_treeI (lineTbl c items) (blockTblOf items) items _ [] 0 1 h1 h3 hnb H.ok (lkL_own HD) (lkB_own HD)
  rw [← eD] at hdoc
  have hho := hoist_eq (wsh_noIncl 1 _ hwsh)
  have hperm : (hoistPlaceholders (treeOf c items)).Perm (treeOf c items) := by
    rw [hho]; exact List.filter_append_perm _ _
  have hbids : bIds (xtoksEs 0 (treeOf c items)) = List.range' 0 (blockFullsI items).length := by
    rw [eD]; exact bIds_treeI items _ [] 0 1 0 h1 h3 hnb H.ok
  have hbperm := bIds_perm 0 hperm
  rw [hbids] at hbperm
  obtain ⟨fl, fb⟩ := fulls_okI items 1 1 H.wf H.ok
  refine ⟨?_, ?_, ?_, ?_, ?_, ?_, ?_, ?_, rfl⟩
  · show wshEs 1 (hoistPlaceholders (treeOf c items)) = true
    rw [hho, wshEs_append, wshEs_filter 1 _ _ hwsh, wshEs_filter 1 _ _ hwsh]; rfl
  · show phCov (lineTbl c items) (blockTblOf items) (hoistPlaceholders (treeOf c items)) = true
    rw [hho, phCov_append, phCov_filter _ _ _ _ hdoc.1, phCov_filter _ _ _ _ hdoc.1]; rfl
  · intro e he
    obtain ⟨ha, hb⟩ := List.of_mem_zip (show (e.1, e.2) ∈ (lineIds c items).zip (lineFullsI items) from he)
    exact ⟨h3 _ ha, fl _ hb⟩
  · intro e he
    obtain ⟨ha, hb⟩ := List.of_mem_zip (show (e.1, e.2) ∈ (List.range' 0 (blockFullsI items).length).zip (blockFullsI items) from he)
    have := List.mem_range'_1.mp ha
    exact ⟨by have := H.nBlock; omega, fb _ hb⟩
  · show ((blockTblOf items).map (·.1)).Nodup
    rw [blockTbl_ids]; exact List.nodup_range'
  · intro e he
    apply any_of_mem_bIds
    apply hbperm.mem_iff.mpr
    have : e.1 ∈ (blockTblOf items).map (·.1) := List.mem_map_of_mem he
    rwa [blockTbl_ids] at this
  · show FirstOK (blockTblOf items) (xtoksEs 0 (hoistPlaceholders (treeOf c items)))
    cases hbf : blockFullsI items with
    | nil => simp [blockTblOf, hbf, FirstOK]
    | cons t r =>
      have hB : blockTblOf items = (0, t) :: (List.range' 1 r.length).zip r := by
        simp [blockTblOf, hbf, List.range'_succ]
      obtain ⟨rest, hrest⟩ := first_block items (lineIds c items) 0 1 H.ok H.first (by rw [hbf]; simp) (by omega)
      have hh : hoistPlaceholders (treeOf c items) =
          phEntry false 0 :: (rest ++ (treeOf c items).filter fun e => !isBE e) := by
        rw [hho]
        show (dTreeI (lineIds c items) 0 items).filter isBE ++ _ = _
        rw [hrest]; rfl
      rw [hB, hh, xtoks_phEntry 0 false (by omega)]
      refine ⟨_, _, rfl, ?_⟩
      apply not_mem_bIds
      have hnd : (bIds (xtoksEs 0 (hoistPlaceholders (treeOf c items)))).Nodup := hbperm.nodup_iff.mpr List.nodup_range'
      rw [hh, xtoks_phEntry 0 false (by omega), bIds_phF, List.nodup_cons] at hnd
      exact hnd.1
  · show indepFrom [] ((blockTbl (blockTblOf items)).map (·.2)) = true
    have := H.indep
    simp only [writtenBlocks] at this
    cases hbf : blockFullsI items with
    | nil => simp [blockTblOf, hbf, blockTbl, indepFrom]
    | cons t r =>
      rw [hbf] at this
      have hB : blockTblOf items = (0, t) :: (List.range' 1 r.length).zip r := by
        simp [blockTblOf, hbf, List.range'_succ]
      rw [hB]
      simp only [blockTbl, List.map_cons]
      rw [List.map_snd_zip (by simp)]
      exact this

/-! ## 18. M3: the writer on the SDict of a commented document -/

/-- the canonical document: entries in the writer's spelling, the top-level block comments first (in their order),
    everything else in its order; nested levels keep their order -/
def canonItems (items : List CItem) : List CItem :=
  (cnormI items).filter isBlockItem ++ (cnormI items).filter fun it => !isBlockItem it

/-- the document has a header of its own: its first block comment contains ` C++ ` -/
def ownHeaderI (items : List CItem) : Bool :=
  match blockFullsI items with
  | t :: _ => containsCpp t
  | [] => false

/-- **the document that is written**: the default header as one more top-level block comment unless the document has
    its own header, then the canonical document -/
def writtenDoc (items : List CItem) : List CItem :=
  (if ownHeaderI items then [] else [.blockC C12.hdrBody]) ++ canonItems items

theorem docSD_sdOf {c : Counter} {items : List CItem} (H : HW c items) : docSD (sdOf c items) = writtenDoc items := by
  have HD := H.toHDoc
  obtain ⟨h1, h2, h3⟩ := lineIds_facts HD
  have hnb : 0 + (blockFullsI items).length ≤ 1000000 := by have := H.nBlock; omega
  have eD : treeOf c items = dTreeI (lineIds c items ++ []) 0 items := by rw [List.append_nil]; rfl
  have hwsh : wshEs 1 (treeOf c items) = true := by rw [eD]; exact wsh_treeI items _ [] 0 1 h1 h3 hnb H.ok
  have hdoc := doc_treeI (lineTbl c items) (blockTblOf items) items _ [] 0 1 h1 h3 hnb H.ok (lkL_own HD) (lkB_own HD)
  rw [← eD] at hdoc
  have hho := hoist_eq (wsh_noIncl 1 _ hwsh)
  have hf := docEs_filter (lineTbl c items) (blockTblOf items) 1 _ hwsh
  have hown : ownHeader (blockTblOf items) = ownHeaderI items := by
    simp only [ownHeader, ownHeaderI, blockTblOf]
    cases blockFullsI items with
    | nil => rfl
    | cons t r => simp [List.range'_succ]
  show hdrItems (blockTblOf items) ++ docEs (lineTbl c items) (blockTblOf items) (hoistPlaceholders (treeOf c items)) = _
  rw [hho, docEs_append, hf.1, hf.2, hdoc.2]
  simp only [hdrItems, hown, writtenDoc, canonItems]

/-- **M3 `C12_write_commented`.**  Under `HW c items` the text written for the SDict the reader returns is a layout of
    the document `writtenDoc items` — the header (own or default) first, with nothing in front of it — and the layout
    is admissible (`GapsOKC`) once a line feed is put in front. -/
theorem C12_write_commented {c : Counter} {items : List CItem} (H : HW c items) :
    ∃ gaps, fmtSD .native (denC c items) = some (spreadC (ctoksItems (writtenDoc items)) ([] :: gaps) ['\n']) ∧
      GapsOKC (ctoksItems (writtenDoc items)) (['\n'] :: gaps) ['\n'] = true := by
  rw [denC_closed H.toHDoc, ← docSD_sdOf H]
  exact write_commented _ (wok_sdOf H)

/-! ## 19. a line feed in front of the text does not matter to the reader -/

theorem foldl_prefix (f : LexSt → Str → LexSt × Str) : ∀ (ls : List Str) (st : LexSt) (acc : List Str),
    ls.foldl (fun (a : LexSt × List Str) l => ((f a.1 l).1, a.2 ++ [(f a.1 l).2])) (st, acc) =
      ((ls.foldl (fun (a : LexSt × List Str) l => ((f a.1 l).1, a.2 ++ [(f a.1 l).2])) (st, [])).1,
       acc ++ (ls.foldl (fun (a : LexSt × List Str) l => ((f a.1 l).1, a.2 ++ [(f a.1 l).2])) (st, [])).2)
  | [], st, acc => by simp
  | l :: ls, st, acc => by
    simp only [List.foldl_cons, List.nil_append]
    rw [foldl_prefix f ls (f st l).1 (acc ++ [(f st l).2]), foldl_prefix f ls (f st l).1 [(f st l).2]]
    simp

theorem commentStages_eq (cm : Bool) (dir : Str) (c : Counter) (text : Str) :
    commentStages cm dir c text =
      (let r1 := (splitLinesKeep text).foldl (fun (a : LexSt × List Str) l =>
          ((lexLineComment cm a.1 l).1, a.2 ++ [(lexLineComment cm a.1 l).2])) ({ counter := c }, [])
       let r2 := r1.2.foldl (fun (a : LexSt × List Str) l =>
          ((lexInclude dir a.1 l).1, a.2 ++ [(lexInclude dir a.1 l).2])) (r1.1, [])
       let b := lexBlockCommentsFuel cm (r2.2.flatten.length + 1) 0 [] r2.2.flatten
       ({ r2.1 with blockC := b.1 }, b.2)) := rfl

theorem nl_facts : isLineBreak '\n' = true ∧ (dropWs ['\n']).head? ≠ some '#' := by decide

theorem commentStages_nl (cm : Bool) (dir : Str) (c : Counter) (t : Str) :
    commentStages cm dir c ('\n' :: t) = ((commentStages cm dir c t).1, '\n' :: (commentStages cm dir c t).2) := by
  have hsplit : splitLinesKeep ('\n' :: t) = ['\n'] :: splitLinesKeep t :=
    C12.Stages.split_break t nl_facts.1 (by rintro ⟨h, _⟩; cases h)
  rw [commentStages_eq, commentStages_eq, hsplit]
  simp only [List.foldl_cons, C12.Stages.lexLine_single, List.nil_append]
  rw [foldl_prefix (lexLineComment cm) (splitLinesKeep t) { counter := c } [['\n']]]
  simp only [List.singleton_append, List.foldl_cons, C02.lexInclude_id dir _ nl_facts.2, List.nil_append]
  rw [foldl_prefix (lexInclude dir) _ _ [['\n']]]
  simp only [List.singleton_append, List.flatten_cons, List.length_cons]
  have := C12.Stages.BL_step cm 0 [] '\n' (List.foldl (fun (a : LexSt × List Str) l =>
      ((lexInclude dir a.1 l).1, a.2 ++ [(lexInclude dir a.1 l).2]))
    ((List.foldl (fun (a : LexSt × List Str) l =>
      ((lexLineComment cm a.1 l).1, a.2 ++ [(lexLineComment cm a.1 l).2])) ({ counter := c }, []) (splitLinesKeep t)).1, [])
    (List.foldl (fun (a : LexSt × List Str) l =>
      ((lexLineComment cm a.1 l).1, a.2 ++ [(lexLineComment cm a.1 l).2])) ({ counter := c }, []) (splitLinesKeep t)).2).2.flatten
    (by rintro ⟨h, _⟩; cases h)
  simp only [C12.Stages.BL, List.length_cons] at this
  rw [this]

theorem strip_ws_cons {c : Char} (hc : isWs c = true) (s : Str) : strip (c :: s) = strip s := by
  simp [strip, List.dropWhile_cons, hc]

theorem parseRest_nl (st : LexSt) (b : Str) : parseRest st ('\n' :: b) = parseRest st b := by
  unfold parseRest
  have : strip (('\n' :: b).map fun ch => if ch == '\n' then ' ' else ch) =
      strip (b.map fun ch => if ch == '\n' then ' ' else ch) := by
    simp only [List.map_cons, beq_self_eq_true, if_true]
    exact strip_ws_cons (by decide) _
  simp only [this]

/-- the reader does not see a line feed in front of the text -/
theorem parseNative_nl (cm : Bool) (dir : Str) (c : Counter) (t : Str) :
    parseNative cm dir c ('\n' :: t) = parseNative cm dir c t := by
  rw [parseNative_stages, parseNative_stages, commentStages_nl, parseRest_nl]

/-! ## 20. M4: reading the written text -/

theorem wfI_append (d : Nat) : ∀ (a b : List CItem), CSrcWFItems d (a ++ b) = (CSrcWFItems d a && CSrcWFItems d b)
  | [], b => by simp [CSrcWFItems]
  | .entry k v :: a, b => by simp only [List.cons_append, CSrcWFItems, wfI_append d a b, Bool.and_assoc]
  | .lineC x :: a, b => by simp only [List.cons_append, CSrcWFItems, wfI_append d a b, Bool.and_assoc]
  | .blockC x :: a, b => by simp only [List.cons_append, CSrcWFItems, wfI_append d a b, Bool.and_assoc]

theorem wfI_filter (d : Nat) (p : CItem → Bool) : ∀ (a : List CItem), CSrcWFItems d a = true →
    CSrcWFItems d (a.filter p) = true
  | [], _ => by simp [CSrcWFItems]
  | .entry k v :: a, h => by
    simp only [CSrcWFItems, Bool.and_eq_true] at h
    simp only [List.filter_cons]
    split
    · simp only [CSrcWFItems, Bool.and_eq_true]; exact ⟨h.1, wfI_filter d p a h.2⟩
    · exact wfI_filter d p a h.2
  | .lineC x :: a, h => by
    simp only [CSrcWFItems, Bool.and_eq_true] at h
    simp only [List.filter_cons]
    split
    · simp only [CSrcWFItems, Bool.and_eq_true]; exact ⟨h.1, wfI_filter d p a h.2⟩
    · exact wfI_filter d p a h.2
  | .blockC x :: a, h => by
    simp only [CSrcWFItems, Bool.and_eq_true] at h
    simp only [List.filter_cons]
    split
    · simp only [CSrcWFItems, Bool.and_eq_true]; exact ⟨h.1, wfI_filter d p a h.2⟩
    · exact wfI_filter d p a h.2

mutual
  theorem cnorm_wfV : ∀ (v : CSrc) (d : Nat), CSrcWFV d v = true → okV d v = true → CSrcWFV d (cnormV v) = true
    | .lit l, d, _, hok => by
      simp only [okV, Bool.and_eq_true, decide_eq_true_eq] at hok
      simp only [cnormV, CSrcWFV, Bool.and_eq_true, decide_eq_true_eq]
      exact ⟨C01.written_ok hok.1, hok.2⟩
    | .dict items, d, hwf, hok => by
      simp only [CSrcWFV, okV] at hwf hok
      simp only [cnormV, CSrcWFV]
      exact cnorm_wfI items (d + 1) hwf hok
    | .list xs, d, _, hok => by
      simp only [okV] at hok
      simp only [cnormV, CSrcWFV]
      exact C01.srcOfXs_wf (d + 1) _ hok
  /-- the document in the writer's spelling is well formed -/
  theorem cnorm_wfI : ∀ (items : List CItem) (d : Nat), CSrcWFItems d items = true → okI d items = true →
      CSrcWFItems d (cnormI items) = true
    | [], _, _, _ => by simp [cnormI, CSrcWFItems]
    | .entry k v :: r, d, hwf, hok => by
      simp only [CSrcWFItems, okI, Bool.and_eq_true] at hwf hok
      simp only [cnormI, CSrcWFItems, Bool.and_eq_true]
      exact ⟨⟨⟨C01.domKey_word hok.1.1, by rw [C01.domKey_types_back hok.1.1]; rfl⟩, cnorm_wfV v d hwf.1.2 hok.1.2⟩,
        cnorm_wfI r d hwf.2 hok.2⟩
    | .lineC x :: r, d, hwf, hok => by
      simp only [CSrcWFItems, okI, Bool.and_eq_true] at hwf hok
      simp only [cnormI, CSrcWFItems, Bool.and_eq_true]
      exact ⟨hwf.1, cnorm_wfI r d hwf.2 hok.2⟩
    | .blockC x :: r, d, hwf, hok => by
      simp only [CSrcWFItems, okI, Bool.and_eq_true] at hwf hok
      simp only [cnormI, CSrcWFItems, Bool.and_eq_true]
      exact ⟨hwf.1, cnorm_wfI r d hwf.2 hok.2⟩
end

theorem writtenDoc_wf {c : Counter} {items : List CItem} (H : HW c items) : CSrcWFItems 1 (writtenDoc items) = true := by
  have h := cnorm_wfI items 1 H.wf H.ok
  simp only [writtenDoc, canonItems]
  rw [wfI_append, wfI_append, wfI_filter 1 _ _ h, wfI_filter 1 _ _ h]
  split
  · simp [CSrcWFItems]
  · simp [CSrcWFItems, hdrBody_text]

mutual
  /-- the comments of a document with the dict structure around them: entries lose key and scalar -/
  def skelV : CSrc → CSrc
    | .dict items => .dict (skelI items)
    | .lit _ => .lit (.bare [])
    | .list _ => .lit (.bare [])
  def skelI : List CItem → List CItem
    | [] => []
    | .entry _ v :: r => .entry [] (skelV v) :: skelI r
    | .lineC x :: r => .lineC x :: skelI r
    | .blockC x :: r => .blockC x :: skelI r
end

mutual
  theorem skel_cnormV : ∀ (v : CSrc), skelV (cnormV v) = skelV v
    | .lit l => by simp only [cnormV, skelV]
    | .list xs => by simp only [cnormV, skelV]
    | .dict items => by simp only [cnormV, skelV, skel_cnormI items]
  /-- the writer's spelling keeps every comment of every level, at its place among the entries -/
  theorem skel_cnormI : ∀ (items : List CItem), skelI (cnormI items) = skelI items
    | [] => by simp only [cnormI]
    | .entry k v :: r => by simp only [cnormI, skelI, skel_cnormV v, skel_cnormI r]
    | .lineC x :: r => by simp only [cnormI, skelI, skel_cnormI r]
    | .blockC x :: r => by simp only [cnormI, skelI, skel_cnormI r]
end

theorem filter_filter_self {α} (p : α → Bool) (l : List α) : (l.filter p).filter p = l.filter p := by
  simp [List.filter_filter]

/-- the top level of the written document: everything but the block comments in the original order; the block
    comments in their original order, after the default header if that was added -/
theorem writtenDoc_top (items : List CItem) :
    (writtenDoc items).filter (fun it => !isBlockItem it) = (cnormI items).filter (fun it => !isBlockItem it) ∧
    (writtenDoc items).filter isBlockItem =
      (if ownHeaderI items then [] else [.blockC C12.hdrBody]) ++ (cnormI items).filter isBlockItem := by
  have h1 : ((cnormI items).filter isBlockItem).filter (fun it => !isBlockItem it) = [] := by
    simp [List.filter_filter]
  have h2 : ((cnormI items).filter (fun it => !isBlockItem it)).filter isBlockItem = [] := by
    simp [List.filter_filter]
  have h3 : ((cnormI items).filter isBlockItem).filter isBlockItem = (cnormI items).filter isBlockItem := by
    simp only [List.filter_filter, Bool.and_self]
  have h4 : ((cnormI items).filter (fun it => !isBlockItem it)).filter (fun it => !isBlockItem it) =
      (cnormI items).filter (fun it => !isBlockItem it) := by
    simp only [List.filter_filter, Bool.and_self]
  have hB : isBlockItem (.blockC C12.hdrBody) = true := rfl
  simp only [writtenDoc, canonItems, List.filter_append, h1, h2, h3, h4, List.nil_append, List.append_nil]
  constructor
  · split
    · rfl
    · simp only [List.filter_cons, hB, Bool.not_true, Bool.false_eq_true, if_false, List.filter_nil, List.nil_append]
  · split
    · rfl
    · simp only [List.filter_cons, hB, if_true, List.filter_nil]

/-- **M4 `C12_roundtrip_commented`.**  Writing the SDict read from a commented document and reading the text again
    (any valid counter) returns the meaning of `writtenDoc items`: the document in the writer's spelling with the
    top-level block comments moved to the top (in their order) and the default header in front when the document has
    no header of its own.  Every comment of every level is there, at its place among the entries of its level
    (`skel_cnormI`, `writtenDoc_top`). -/
theorem C12_roundtrip_commented {c c₂ : Counter} {items : List CItem} (dir : Str) (H : HW c items)
    (hc₂ : C13.ValidCounter Gen.counterLimit c₂)
    (hn : C02.countQuotedEs (plainItems (writtenDoc items)) ≤ Gen.counterLimit + 1)
    (hd : C02.DocKeysAbsent (plainItems (writtenDoc items))) :
    ∃ text c', fmtSD .native (denC c items) = some text ∧
      parseNative true dir c₂ text = .ok (denC c₂ (writtenDoc items), c') ∧
      skelI (cnormI items) = skelI items ∧
      (writtenDoc items).filter (fun it => !isBlockItem it) = (cnormI items).filter (fun it => !isBlockItem it) ∧
      (writtenDoc items).filter isBlockItem =
        (if ownHeaderI items then [] else [.blockC C12.hdrBody]) ++ (cnormI items).filter isBlockItem := by
  obtain ⟨gaps, hw, hg⟩ := C12_write_commented H
  have hread := C12.C12_read_commented dir c₂ (writtenDoc_wf H) hg (fun _ => by decide) hc₂ hn hd
  refine ⟨_, C02.adv Gen.counterLimit (C02.countQuotedEs (plainItems (writtenDoc items)))
    (labelCItems { counter := c₂ } (writtenDoc items)).1.counter, hw, ?_, skel_cnormI items, (writtenDoc_top items).1,
    (writtenDoc_top items).2⟩
  cases hct : ctoksItems (writtenDoc items) with
  | nil =>
    have e0 : ∀ g : List Str, spreadC [] g ['\n'] = ['\n'] := fun g => rfl
    rw [hct, e0] at hread
    rw [e0]
    exact hread
  | cons t ts =>
    have e : spreadC (t :: ts) (['\n'] :: gaps) ['\n'] = '\n' :: spreadC (t :: ts) ([] :: gaps) ['\n'] := by
      simp [spreadC, spread]
    rw [hct, e, parseNative_nl] at hread
    exact hread

/-! ## 21. M5: non-vacuity -/

/-- `/* C++ my header */⏎ // first⏎ a 1;⏎ // second⏎ sub { // inner⏎ p "two words"; }` -/
def exW : List CItem :=
  [ .blockC " C++ my header ".toList,
    .lineC " first".toList,
    .entry "a".toList (.lit (.bare "1".toList)),
    .lineC " second".toList,
    .entry "sub".toList (.dict [.lineC " inner".toList, .entry "p".toList (.lit (.quoted '"' "two words".toList))]) ]

/-- the hypotheses of M3 / M4 hold for it -/
theorem exW_hw : HW none exW :=
  ⟨⟨by decide +kernel, by decide +kernel, by decide +kernel, by decide +kernel, by decide +kernel, by decide +kernel,
    Or.inl rfl⟩, by decide +kernel, by decide +kernel⟩

/-- the data of the SDict the reader returns for it, block-comment entries hoisted (here: already in front) -/
def exWData : Entries :=
  [ (.str "BLOCKCOMMENT000000".toList, .leaf (.str "BLOCKCOMMENT000000".toList)),
    (.str "LINECOMMENT000000".toList, .leaf (.str "LINECOMMENT000000".toList)),
    (.str "a".toList, .leaf (.int 1)),
    (.str "LINECOMMENT000001".toList, .leaf (.str "LINECOMMENT000001".toList)),
    (.str "sub".toList, .dict [ (.str "LINECOMMENT000002".toList, .leaf (.str "LINECOMMENT000002".toList)),
                                (.str "p".toList, .leaf (.str "two words".toList)) ]) ]

theorem exW_sd : hoistPlaceholders (sdOf none exW).data = exWData ∧
    (sdOf none exW).lineC = [(0, "// first".toList), (1, "// second".toList), (2, "// inner".toList)] ∧
    (sdOf none exW).blockC = [(0, "/* C++ my header */".toList)] ∧ (sdOf none exW).incl = [] := by decide +kernel

/-- the raw output: one placeholder line per comment -/
theorem exW_raw : fmtEntries .native 0 exWData = C01.unlines
    ["BLOCKCOMMENT000000            BLOCKCOMMENT000000;",
     "LINECOMMENT000000             LINECOMMENT000000;",
     "a                             1;",
     "LINECOMMENT000001             LINECOMMENT000001;",
     "sub",
     "{",
     "    LINECOMMENT000002         LINECOMMENT000002;",
     "    p                         'two words';",
     "}"] := by
  simp only [exWData, fmtEntries]
  decide +kernel

def exWText : Str := C01.unlines
    ["/* C++ my header */",
     "// first",
     "a                             1;",
     "// second",
     "sub",
     "{",
     "    // inner",
     "    p                         'two words';",
     "}"]

/-- the text the writer writes for it, by evaluation: own header first, both top-level line comments and the nested
    one at their places, the quoted string in the writer's spelling -/
theorem exW_written : fmtSD .native (denC none exW) = some exWText := by
  rw [denC_closed exW_hw.toHDoc]
  obtain ⟨h1, h2, h3, h4⟩ := exW_sd
  simp only [fmtSD, h1, h2, h3, h4, exW_raw]
  decide +kernel

theorem exW_own : ownHeaderI exW = true := by decide +kernel

/-- M3 on the example: the evaluated text is an admissible layout of `writtenDoc exW` -/
theorem exW_layout : ∃ gaps, exWText = spreadC (ctoksItems (writtenDoc exW)) ([] :: gaps) ['\n'] ∧
    GapsOKC (ctoksItems (writtenDoc exW)) (['\n'] :: gaps) ['\n'] = true := by
  obtain ⟨gaps, h1, h2⟩ := C12_write_commented exW_hw
  rw [exW_written] at h1
  exact ⟨gaps, Option.some.inj h1, h2⟩

/-- M4 on the example: reading the written text gives the meaning of `writtenDoc exW` -/
theorem exW_roundtrip (dir : Str) : ∃ c', parseNative true dir none exWText = .ok (denC none (writtenDoc exW), c') := by
  obtain ⟨text, c', h1, h2, _⟩ := C12_roundtrip_commented (c₂ := none) dir exW_hw (Or.inl rfl) (by decide +kernel)
    (by decide +kernel)
  rw [exW_written] at h1
  cases h1
  exact ⟨c', h2⟩

/-! ## 22. why the hypotheses on the comment texts are there (negative witnesses, by evaluation)

  `first` / `indep` of `HW`: the proved findings `C12.D28_header_inside_subdict` (first block comment not at top level:
  the default header is glued in front of it, inside the sub-dict) and `C12.D32_second_comment_lost` (a block comment
  contained in what was written before it is written as the empty text). -/

theorem fmtSD_noIncl (sd : SD) (h : sd.incl = []) :
    fmtSD .native sd = some (removeTrailingSpaces (insertLineComments sd.lineC
      (insertBlockComments .native sd.blockC (fmtEntries .native 0 (hoistPlaceholders sd.data))))) := by
  simp only [fmtSD, h, insertIncludes, List.foldl_nil]

/-- `// note␣␣⏎ a 1;` — a line comment with trailing blanks -/
def exT : List CItem := [.lineC " note  ".toList, .entry "a".toList (.lit (.bare "1".toList))]

/-- **finding (trailing white space of a comment is not written).**  The reader keeps the comment text `// note␣␣`
    as it is; the writer's `remove_trailing_spaces` runs over the text *after* the comments have been inserted and
    cuts the two blanks: the comment is written as `// note`.  Hence `lineTextOK` (and, for the lines of a block
    comment, `blockTextOK`). -/
theorem trailing_ws_lost :
    (denC none exT).lineC = [(0, "// note  ".toList)] ∧
    fmtSD .native (denC none exT) = some (nativeHeader ++ "// note\na                             1;\n".toList) := by
  have h : hoistPlaceholders (denC none exT).data =
        [(.str "LINECOMMENT000000".toList, .leaf (.str "LINECOMMENT000000".toList)), (.str "a".toList, .leaf (.int 1))] ∧
      (denC none exT).lineC = [(0, "// note  ".toList)] ∧ (denC none exT).blockC = [] ∧ (denC none exT).incl = [] := by
    decide +kernel
  refine ⟨h.2.1, ?_⟩
  rw [fmtSD_noIncl _ h.2.2.2, h.1, h.2.1, h.2.2.1, C12.C12_header_default]
  have hraw : fmtEntries .native 0
      [(.str "LINECOMMENT000000".toList, .leaf (.str "LINECOMMENT000000".toList)), (.str "a".toList, .leaf (.int 1))] =
      "LINECOMMENT000000             LINECOMMENT000000;\na                             1;\n".toList := by
    simp only [fmtEntries]
    decide +kernel
  rw [hraw, C12.nativeHeader_eq]
  decide +kernel

/-- `// LINECOMMENT000001  LINECOMMENT000001;⏎ // two⏎` — a comment that spells the placeholder entry of the next one -/
def exP : List CItem := [.lineC " LINECOMMENT000001  LINECOMMENT000001;".toList, .lineC " two".toList]

/-- **why comment texts must not contain placeholder words** (`noPhB`): the insertion passes work on the whole text,
    comments already inserted included; here the first comment is rewritten by the insertion of the second. -/
theorem placeholder_in_comment_rewritten :
    fmtSD .native (denC none exP) = some (nativeHeader ++ "// // two\n// two\n".toList) := by
  have h : hoistPlaceholders (denC none exP).data =
        [(.str "LINECOMMENT000000".toList, .leaf (.str "LINECOMMENT000000".toList)),
         (.str "LINECOMMENT000001".toList, .leaf (.str "LINECOMMENT000001".toList))] ∧
      (denC none exP).lineC = [(0, "// LINECOMMENT000001  LINECOMMENT000001;".toList), (1, "// two".toList)] ∧
      (denC none exP).blockC = [] ∧ (denC none exP).incl = [] := by
    decide +kernel
  rw [fmtSD_noIncl _ h.2.2.2, h.1, h.2.1, h.2.2.1, C12.C12_header_default]
  have hraw : fmtEntries .native 0
      [(.str "LINECOMMENT000000".toList, .leaf (.str "LINECOMMENT000000".toList)),
       (.str "LINECOMMENT000001".toList, .leaf (.str "LINECOMMENT000001".toList))] =
      "LINECOMMENT000000             LINECOMMENT000000;\nLINECOMMENT000001             LINECOMMENT000001;\n".toList := by
    simp only [fmtEntries]
    decide +kernel
  rw [hraw, C12.nativeHeader_eq]
  decide +kernel

/-! ## 23. `_clean` in general: repeated comments of one level are removed -/

/-- delete the ids one after the other -/
def delIds (ids : List Nat) (T : Tbl Str) : Tbl Str := ids.foldl (fun t i => Tbl.del i t) T

def delKeys (ks : List Key) (D : Entries) : Entries := ks.foldl (fun d k => delKey k d) D

theorem get_del_ne {i j : Nat} (h : i ≠ j) : ∀ (T : Tbl Str), (Tbl.del j T).get? i = T.get? i
  | [] => rfl
  | (a, b) :: T => by
    simp only [Tbl.del]
    split
    · next e =>
      subst e
      have hne : ¬ a = i := fun e => h e.symm
      simp [Tbl.get?, hne]
    · simp only [Tbl.get?, get_del_ne h T]

theorem get_delIds {i : Nat} : ∀ (ids : List Nat) (T : Tbl Str), i ∉ ids → (delIds ids T).get? i = T.get? i
  | [], _, _ => rfl
  | j :: ids, T, h => by
    simp only [List.mem_cons, not_or] at h
    simp only [delIds, List.foldl_cons]
    have := get_delIds ids (Tbl.del j T) h.2
    simp only [delIds] at this
    rw [this, get_del_ne h.1]

theorem del_sublist (j : Nat) : ∀ (T : Tbl Str), (Tbl.del j T).Sublist T
  | [] => List.Sublist.refl _
  | (a, b) :: T => by
    simp only [Tbl.del]
    split
    · exact List.sublist_cons_self _ _
    · exact (del_sublist j T).cons_cons _

theorem delIds_sublist : ∀ (ids : List Nat) (T : Tbl Str), (delIds ids T).Sublist T
  | [], _ => List.Sublist.refl _
  | j :: ids, T => by
    simp only [delIds, List.foldl_cons]
    exact (delIds_sublist ids (Tbl.del j T)).trans (del_sublist j T)

theorem mem_del_of_ne {e : Nat × Str} {j : Nat} (h : e.1 ≠ j) : ∀ {T : Tbl Str}, e ∈ T → e ∈ Tbl.del j T
  | (a, b) :: T, hm => by
    simp only [Tbl.del]
    rcases List.mem_cons.mp hm with rfl | hm
    · simp [h]
    · split
      · exact hm
      · exact List.mem_cons_of_mem _ (mem_del_of_ne h hm)

theorem mem_delIds {e : Nat × Str} : ∀ (ids : List Nat) {T : Tbl Str}, e ∈ T → e.1 ∉ ids → e ∈ delIds ids T
  | [], _, hm, _ => hm
  | j :: ids, T, hm, h => by
    simp only [List.mem_cons, not_or] at h
    simp only [delIds, List.foldl_cons]
    exact mem_delIds ids (mem_del_of_ne h.1 hm) h.2

theorem delIds_append (a b : List Nat) (T : Tbl Str) : delIds (a ++ b) T = delIds b (delIds a T) := by
  simp [delIds, List.foldl_append]

theorem delKey_filter (k : Key) : ∀ {D : Entries}, (keys D).Nodup → delKey k D = D.filter fun e => e.1 ≠ k
  | [], _ => rfl
  | (k0, v) :: D, h => by
    simp only [keys, List.map_cons, List.nodup_cons] at h
    simp only [delKey, List.filter_cons]
    by_cases e : k0 = k
    · subst e
      simp only [if_true, ne_eq, not_true_eq_false, decide_false, Bool.false_eq_true, if_false]
      symm
      apply List.filter_eq_self.mpr
      intro e' he'
      simp only [ne_eq, decide_eq_true_eq]
      intro e2
      exact h.1 (by rw [← e2]; exact List.mem_map_of_mem he')
    · simp only [e, if_false, ne_eq, not_false_eq_true, decide_true, if_true]
      rw [delKey_filter k h.2]

theorem keys_filter_nodup {D : Entries} (p : Key × Val → Bool) (h : (keys D).Nodup) : (keys (D.filter p)).Nodup :=
  ((List.filter_sublist).map _).nodup h

theorem delKeys_filter : ∀ (ks : List Key) {D : Entries}, (keys D).Nodup → delKeys ks D = D.filter fun e => e.1 ∉ ks
  | [], D, _ => by
    simp only [delKeys, List.foldl_nil, List.not_mem_nil, not_false_eq_true, decide_true]
    exact (List.filter_eq_self.mpr fun _ _ => rfl).symm
  | k :: ks, D, h => by
    simp only [delKeys, List.foldl_cons]
    have := delKeys_filter ks (D := delKey k D) (by rw [delKey_filter k h]; exact keys_filter_nodup _ h)
    simp only [delKeys] at this
    rw [this, delKey_filter k h, List.filter_filter]
    apply List.filter_congr
    intro e _
    simp only [List.mem_cons, not_or, ne_eq, Bool.decide_and]
    simp [Bool.and_comm]

/-- the ids (of a candidate list) whose text was seen before -/
def dupFrom (T : Tbl Str) : List Str → List Nat → List Nat
  | _, [] => []
  | seen, i :: is =>
    match T.get? i with
    | none => dupFrom T seen is
    | some txt => if seen.contains txt then i :: dupFrom T seen is else dupFrom T (seen ++ [txt]) is

theorem dupFrom_congr {T T' : Tbl Str} : ∀ (ids : List Nat) (seen : List Str), (∀ i ∈ ids, T'.get? i = T.get? i) →
    dupFrom T' seen ids = dupFrom T seen ids
  | [], _, _ => rfl
  | i :: is, seen, h => by
    have hi := h i List.mem_cons_self
    have hr : ∀ s, dupFrom T' s is = dupFrom T s is := fun s => dupFrom_congr is s fun j hj => h j (List.mem_cons_of_mem _ hj)
    simp only [dupFrom, hi, hr]

theorem dupFrom_sub (T : Tbl Str) : ∀ (ids : List Nat) (seen : List Str), ∀ i ∈ dupFrom T seen ids, i ∈ ids
  | [], _, i, h => by simp [dupFrom] at h
  | j :: is, seen, i, h => by
    simp only [dupFrom] at h
    split at h
    · exact List.mem_cons_of_mem _ (dupFrom_sub T is seen i h)
    · split at h
      · rcases List.mem_cons.mp h with rfl | h
        · exact List.mem_cons_self
        · exact List.mem_cons_of_mem _ (dupFrom_sub T is seen i h)
      · exact List.mem_cons_of_mem _ (dupFrom_sub T is _ i h)

def phKey (l : Bool) (i : Nat) : Key := .str (phWord l i)

theorem look_phKey (T : Tbl Str) (l : Bool) {i : Nat} (hi : i ≤ 999999) : look T (phKey l i) = T.get? i := look_ph T l hi

/-- one pass of `_clean_data` over its candidates: the candidates whose text was seen before are deleted, from the
    level and from the table -/
theorem cstepF_del (l : Bool) : ∀ (ids : List Nat) (d : Entries) (t : Tbl Str) (seen : List Str), ids.Nodup →
    (∀ i ∈ ids, i ≤ 999999) →
    ∃ seen', (ids.map (phKey l)).foldl cstepF (d, t, seen) =
      (delKeys ((dupFrom t seen ids).map (phKey l)) d, delIds (dupFrom t seen ids) t, seen')
  | [], d, t, seen, _, _ => ⟨seen, rfl⟩
  | i :: is, d, t, seen, hnd, hi => by
    simp only [List.nodup_cons] at hnd
    have hii := hi i List.mem_cons_self
    have his : ∀ j ∈ is, j ≤ 999999 := fun j hj => hi j (List.mem_cons_of_mem _ hj)
    simp only [List.map_cons, List.foldl_cons]
    have hf : firstSixDigits (phWord l i) = some i := firstSix_ph l hii
    cases hg : t.get? i with
    | none =>
      have e2 : cstepF (d, t, seen) (phKey l i) = (d, t, seen) := by simp [cstepF, phKey, hf, hg]
      rw [e2]
      simp only [dupFrom, hg]
      exact cstepF_del l is d t seen hnd.2 his
    | some txt =>
      by_cases hc : seen.contains txt = true
      · have hm : txt ∈ seen := List.contains_iff_mem.mp hc
        have e2 : cstepF (d, t, seen) (phKey l i) = (delKey (phKey l i) d, Tbl.del i t, seen) := by
          simp [cstepF, phKey, hf, hg, hm]
        rw [e2]
        obtain ⟨seen', ih⟩ := cstepF_del l is (delKey (phKey l i) d) (Tbl.del i t) seen hnd.2 his
        have hcg : dupFrom (Tbl.del i t) seen is = dupFrom t seen is :=
          dupFrom_congr is seen fun j hj => get_del_ne (i := j) (j := i) (fun e => hnd.1 (by rw [← e]; exact hj)) t
        rw [hcg] at ih
        refine ⟨seen', ?_⟩
        rw [ih]
        simp only [dupFrom, hg, hc, if_true, List.map_cons, delKeys, List.foldl_cons, delIds]
      · have hc' : seen.contains txt = false := by simpa using hc
        have hm : txt ∉ seen := fun hm => hc (List.contains_iff_mem.mpr hm)
        have e2 : cstepF (d, t, seen) (phKey l i) = (d, t, seen ++ [txt]) := by
          simp [cstepF, phKey, hf, hg, hm]
        rw [e2]
        simp only [dupFrom, hg, hc', Bool.false_eq_true, if_false]
        exact cstepF_del l is d t (seen ++ [txt]) hnd.2 his

/-- the ids of the comment entries of kind `l` at the top of a level -/
def topIds (l : Bool) : Entries → List Nat
  | [] => []
  | (k, .leaf x) :: r =>
    (match phOf k x with
     | some (l', i) => if l' = l then [i] else []
     | none => []) ++ topIds l r
  | (_, .dict _) :: r => topIds l r
  | (_, .list _) :: r => topIds l r

theorem topIds_le (l : Bool) : ∀ (D : Entries), ∀ i ∈ topIds l D, i ≤ 999999
  | [], i, h => by simp [topIds] at h
  | (k, .dict es) :: r, i, h => topIds_le l r i (by simpa [topIds] using h)
  | (k, .list xs) :: r, i, h => topIds_le l r i (by simpa [topIds] using h)
  | (k, .leaf x) :: r, i, h => by
    simp only [topIds, List.mem_append] at h
    rcases h with h | h
    · cases hp : phOf k x with
      | none => rw [hp] at h; simp at h
      | some li =>
        obtain ⟨l', j⟩ := li
        rw [hp] at h
        simp only at h
        split at h
        · simp only [List.mem_singleton] at h; subst h; exact (phOf_some hp).2.2
        · simp at h
    · exact topIds_le l r i h

/-- the candidates of the three passes of `_clean_data` on a level of the shape `wshEs` -/
theorem cands_level (d : Nat) : ∀ (D : Entries), wshEs d D = true →
    (keys D).filter selB = (topIds false D).map (phKey false) ∧ (keys D).filter selI = [] ∧
    (keys D).filter selL = (topIds true D).map (phKey true)
  | [], _ => by simp [keys, topIds]
  | (k, .dict es) :: r, h => by
    simp only [wshEs, Bool.and_eq_true] at h
    obtain ⟨s1, s2, s3⟩ := sel_dom h.1.1
    have ih := cands_level d r h.2
    simp only [keys, List.map_cons, List.filter_cons, s1, s2, s3, Bool.false_eq_true, if_false, topIds]
    exact ih
  | (k, .list xs) :: r, h => by
    simp only [wshEs, Bool.and_eq_true] at h
    obtain ⟨s1, s2, s3⟩ := sel_dom h.1.1
    have ih := cands_level d r h.2
    simp only [keys, List.map_cons, List.filter_cons, s1, s2, s3, Bool.false_eq_true, if_false, topIds]
    exact ih
  | (k, .leaf x) :: r, h => by
    simp only [wshEs, Bool.and_eq_true, Bool.or_eq_true, decide_eq_true_eq] at h
    have ih := cands_level d r h.2
    cases hp : phOf k x with
    | none =>
      rw [hp] at h
      rcases h.1 with h1 | h1
      · cases h1
      · obtain ⟨s1, s2, s3⟩ := sel_dom h1.1.1
        simp only [keys, List.map_cons, List.filter_cons, s1, s2, s3, Bool.false_eq_true, if_false, topIds, hp,
          List.nil_append]
        exact ih
    | some li =>
      obtain ⟨l, i⟩ := li
      obtain ⟨rfl, rfl, hi⟩ := phOf_some hp
      cases l with
      | true =>
        obtain ⟨s1, s2, s3⟩ := sel_line hi
        simp only [keys, List.map_cons, List.filter_cons, s1, s2, s3, Bool.false_eq_true, if_false, if_true, topIds, hp,
          List.nil_append, List.singleton_append, phKey, Bool.true_eq_false]
        exact ⟨ih.1, ih.2.1, by rw [ih.2.2]⟩
      | false =>
        obtain ⟨s1, s2, s3⟩ := sel_block hi
        simp only [keys, List.map_cons, List.filter_cons, s1, s2, s3, Bool.false_eq_true, if_false, if_true, topIds, hp,
          List.nil_append, List.singleton_append, phKey]
        exact ⟨by rw [ih.1], ih.2.1, ih.2.2⟩

/-- dropping entries whose keys are block-comment placeholder keys does not change the line-comment ids -/
theorem topIds_filter_block (kb : List Nat) : ∀ (D : Entries),
    topIds true (D.filter fun e => e.1 ∉ kb.map (phKey false)) = topIds true D
  | [] => rfl
  | (k, .dict es) :: r => by
    simp only [List.filter_cons]
    split
    · simp only [topIds, topIds_filter_block kb r]
    · simp only [topIds, topIds_filter_block kb r]
  | (k, .list xs) :: r => by
    simp only [List.filter_cons]
    split
    · simp only [topIds, topIds_filter_block kb r]
    · simp only [topIds, topIds_filter_block kb r]
  | (k, .leaf x) :: r => by
    have ih := topIds_filter_block kb r
    simp only [List.filter_cons]
    split
    · simp only [topIds, ih]
    · next hnot =>
      simp only [decide_eq_true_eq, Decidable.not_not, List.mem_map] at hnot
      obtain ⟨j, hj, e⟩ := hnot
      simp only [topIds, ih]
      cases hp : phOf k x with
      | none => rfl
      | some li =>
        obtain ⟨l, i⟩ := li
        obtain ⟨hk, _, hi⟩ := phOf_some hp
        cases l with
        | false => rfl
        | true =>
          exfalso
          rw [hk, phKey] at e
          simp only [Key.str.injEq] at e
          have hB : 'B' ∈ phWord true i := by rw [← e]; simp [phWord, kw_BI.1]
          exact linePh_no_B i hB

/-- the comment entries `_clean_data` removes from the top of a level: those whose text equals that of an earlier
    entry of the same kind -/
def topDup (l : Bool) (T : Tbl Str) (D : Entries) : List Nat := dupFrom T [] (topIds l D)

def topKeys (s : SD) (D : Entries) : List Key :=
  (topDup false s.blockC D).map (phKey false) ++ (topDup true s.lineC D).map (phKey true)

theorem cstep_del (l : Bool) (sel : Key → Bool) (D : Entries) (T : Tbl Str) (ids : List Nat)
    (hc : (keys D).filter sel = ids.map (phKey l)) (hk : (keys D).Nodup) (hnd : ids.Nodup) (hi : ∀ i ∈ ids, i ≤ 999999) :
    cstep sel D T = (D.filter (fun e => e.1 ∉ (dupFrom T [] ids).map (phKey l)), delIds (dupFrom T [] ids) T) := by
  obtain ⟨seen', h⟩ := cstepF_del l ids D T [] hnd hi
  simp only [cstep, hc, h, delKeys_filter _ hk]

/-- **`_clean_data` on one level** of the shape `wshEs` with pairwise distinct keys and ids -/
theorem cleanLevel_gen (s : SD) (d : Nat) (D : Entries) (hw : wshEs d D = true) (hk : (keys D).Nodup)
    (hb : (topIds false D).Nodup) (hl : (topIds true D).Nodup) :
    cleanLevel s D =
      ({ s with blockC := delIds (topDup false s.blockC D) s.blockC, lineC := delIds (topDup true s.lineC D) s.lineC },
       D.filter fun e => e.1 ∉ topKeys s D) := by
  obtain ⟨c1, c2, c3⟩ := cands_level d D hw
  have hB := cstep_del false selB D s.blockC (topIds false D) c1 hk hb (topIds_le false D)
  -- the level after the block pass
  have hw' : wshEs d (D.filter fun e => e.1 ∉ (dupFrom s.blockC [] (topIds false D)).map (phKey false)) = true :=
    wshEs_filter d _ D hw
  have hk' := keys_filter_nodup (fun e => decide (e.1 ∉ (dupFrom s.blockC [] (topIds false D)).map (phKey false))) hk
  obtain ⟨c1', c2', c3'⟩ := cands_level d _ hw'
  rw [topIds_filter_block] at c3'
  have hI := cstep_nil selI (D.filter fun e => e.1 ∉ (dupFrom s.blockC [] (topIds false D)).map (phKey false)) s.incl c2'
  have hL := cstep_del true selL _ s.lineC (topIds true D) c3' hk' hl (topIds_le true D)
  rw [cleanLevel_eq, hB]
  simp only [hI, hL]
  cases s
  simp only [topDup, topKeys, List.filter_filter, SD.mk.injEq, Prod.mk.injEq, true_and, and_true]
  apply List.filter_congr
  intro e _
  simp only [List.mem_append, not_or, Bool.decide_and]
  exact Bool.and_comm _ _

/-- the second half of `_clean`: every dict-valued entry of the level is cleaned in turn, the state threaded through -/
def subsRec (fuel : Nat) : SD → Entries → SD × Entries
  | s, [] => (s, [])
  | s, (k, .dict sub) :: r =>
    ((subsRec fuel (cleanRec fuel s sub).1 r).1, (k, .dict (cleanRec fuel s sub).2) :: (subsRec fuel (cleanRec fuel s sub).1 r).2)
  | s, (k, .leaf x) :: r => ((subsRec fuel s r).1, (k, .leaf x) :: (subsRec fuel s r).2)
  | s, (k, .list xs) :: r => ((subsRec fuel s r).1, (k, .list xs) :: (subsRec fuel s r).2)

theorem setKey_append_mem {k : Key} (v w : Val) : ∀ (a b : Entries), k ∉ keys a →
    setKey k v (a ++ (k, w) :: b) = a ++ (k, v) :: b
  | [], b, _ => by simp [setKey]
  | (k0, v0) :: a, b, h => by
    simp only [keys, List.map_cons, List.mem_cons, not_or] at h
    have hne : ¬ k0 = k := fun e => h.1 e.symm
    simp only [List.cons_append, setKey, hne, if_false, setKey_append_mem v w a b h.2]

theorem subs_fold (fuel : Nat) : ∀ (todo done : Entries) (s : SD), (keys (done ++ todo)).Nodup →
    todo.foldl (fun (acc : SD × Entries) e =>
        match e.2 with
        | .dict sub => ((cleanRec fuel acc.1 sub).1, setKey e.1 (.dict (cleanRec fuel acc.1 sub).2) acc.2)
        | _ => acc) (s, done ++ todo) =
      ((subsRec fuel s todo).1, done ++ (subsRec fuel s todo).2)
  | [], done, s, _ => by simp [subsRec]
  | (k, .leaf x) :: r, done, s, h => by
    have := subs_fold fuel r (done ++ [(k, .leaf x)]) s (by simpa using h)
    simp only [List.append_assoc, List.singleton_append] at this
    simp only [List.foldl_cons, subsRec, this]
  | (k, .list xs) :: r, done, s, h => by
    have := subs_fold fuel r (done ++ [(k, .list xs)]) s (by simpa using h)
    simp only [List.append_assoc, List.singleton_append] at this
    simp only [List.foldl_cons, subsRec, this]
  | (k, .dict sub) :: r, done, s, h => by
    have hk : k ∉ keys done := by
      simp only [keys, List.map_append, List.map_cons] at h
      have := (List.nodup_append.mp h).2.2
      intro hm
      exact this k hm k List.mem_cons_self rfl
    have := subs_fold fuel r (done ++ [(k, .dict (cleanRec fuel s sub).2)]) (cleanRec fuel s sub).1 (by
      simp only [keys, List.map_append, List.map_cons, List.map_nil] at h ⊢
      simpa using h)
    simp only [List.append_assoc, List.singleton_append] at this
    simp only [List.foldl_cons, subsRec, setKey_append_mem _ _ done r hk, this]

theorem cleanRec_succ (fuel : Nat) (s : SD) (D : Entries) (h : (keys (cleanLevel s D).2).Nodup) :
    cleanRec (fuel + 1) s D = subsRec fuel (cleanLevel s D).1 (cleanLevel s D).2 := by
  have := subs_fold fuel (cleanLevel s D).2 [] (cleanLevel s D).1 (by simpa using h)
  simp only [List.nil_append] at this
  have e : cleanRec (fuel + 1) s D = (cleanLevel s D).2.foldl (fun (acc : SD × Entries) e =>
        match e.2 with
        | .dict sub => ((cleanRec fuel acc.1 sub).1, setKey e.1 (.dict (cleanRec fuel acc.1 sub).2) acc.2)
        | _ => acc) ((cleanLevel s D).1, (cleanLevel s D).2) := rfl
  rw [e, this]

/-- the ids of the comment entries of kind `l` in the whole tree, in document order -/
def idsT (l : Bool) : Entries → List Nat
  | [] => []
  | (_, .dict es) :: r => idsT l es ++ idsT l r
  | (_, .list _) :: r => idsT l r
  | (k, .leaf x) :: r =>
    (match phOf k x with
     | some (l', i) => if l' = l then [i] else []
     | none => []) ++ idsT l r

/-- **what `_clean` leaves of a tree** (specification): at every level, a comment entry whose text (looked up in the
    table of its kind) equals that of an earlier comment entry of the same kind and level is dropped -/
def cleanT (L B : Tbl Str) : List Str → List Str → Entries → Entries
  | _, _, [] => []
  | sl, sb, (k, .dict es) :: r => (k, .dict (cleanT L B [] [] es)) :: cleanT L B sl sb r
  | sl, sb, (k, .list xs) :: r => (k, .list xs) :: cleanT L B sl sb r
  | sl, sb, (k, .leaf x) :: r =>
    match phOf k x with
    | some (true, i) =>
      (match L.get? i with
       | none => (k, .leaf x) :: cleanT L B sl sb r
       | some t => if sl.contains t then cleanT L B sl sb r else (k, .leaf x) :: cleanT L B (sl ++ [t]) sb r)
    | some (false, i) =>
      (match B.get? i with
       | none => (k, .leaf x) :: cleanT L B sl sb r
       | some t => if sb.contains t then cleanT L B sl sb r else (k, .leaf x) :: cleanT L B sl (sb ++ [t]) r)
    | none => (k, .leaf x) :: cleanT L B sl sb r

def mapSubs (f : Entries → Entries) : Entries → Entries
  | [] => []
  | (k, .dict sub) :: r => (k, .dict (f sub)) :: mapSubs f r
  | (k, .leaf x) :: r => (k, .leaf x) :: mapSubs f r
  | (k, .list xs) :: r => (k, .list xs) :: mapSubs f r

theorem dom_notMem_phKeys {k : Key} (h : isDomKey k = true) (l : Bool) {ids : List Nat} (hi : ∀ i ∈ ids, i ≤ 999999) :
    k ∉ ids.map (phKey l) := by
  intro hm
  obtain ⟨i, hi', e⟩ := List.mem_map.mp hm
  exact dom_ne_ph h l (hi i hi') e.symm

theorem phKey_inj {l l' : Bool} {i j : Nat} (hi : i ≤ 999999) (hj : j ≤ 999999) (h : phKey l i = phKey l' j) :
    l = l' ∧ i = j := by
  simp only [phKey, Key.str.injEq] at h
  exact phWord_inj hi hj h

theorem dupFrom_le (T : Tbl Str) {ids : List Nat} (h : ∀ i ∈ ids, i ≤ 999999) (seen : List Str) :
    ∀ i ∈ dupFrom T seen ids, i ≤ 999999 := fun i hi => h i (dupFrom_sub T ids seen i hi)

theorem filt_keep (ks : List Key) (e : Key × Val) (r : Entries) (h : e.1 ∉ ks) :
    ((e :: r).filter fun e => e.1 ∉ ks) = e :: r.filter fun e => e.1 ∉ ks := by
  simp [List.filter_cons, h]

theorem filt_drop (ks : List Key) (e : Key × Val) (r : Entries) (h : e.1 ∈ ks) :
    ((e :: r).filter fun e => e.1 ∉ ks) = r.filter fun e => e.1 ∉ ks := by
  simp [List.filter_cons, h]

/-- a key that does not occur in the level may be dropped from the list of keys to remove -/
theorem filt_extra (k : Key) (ka kb : List Key) (r : Entries) (h : k ∉ keys r) :
    (r.filter fun e => e.1 ∉ ka ++ k :: kb) = r.filter fun e => e.1 ∉ ka ++ kb := by
  apply List.filter_congr
  intro e he
  have : e.1 ≠ k := fun e' => h (by rw [← e']; exact List.mem_map_of_mem he)
  simp [this]

/-- the level after `_clean_data`, its sub-dicts cleaned: the specification -/
theorem mapSubs_filter (L B : Tbl Str) (d : Nat) : ∀ (D : Entries) (sl sb : List Str), wshEs d D = true →
    (keys D).Nodup → (topIds false D).Nodup → (topIds true D).Nodup →
    mapSubs (cleanT L B [] []) (D.filter fun e => e.1 ∉ (dupFrom B sb (topIds false D)).map (phKey false) ++
        (dupFrom L sl (topIds true D)).map (phKey true)) = cleanT L B sl sb D
  | [], _, _, _, _, _, _ => by simp [mapSubs, cleanT]
  | (k, .dict es) :: r, sl, sb, hw, hk, hb, hl => by
    simp only [wshEs, Bool.and_eq_true] at hw
    simp only [keys, List.map_cons, List.nodup_cons] at hk
    have e1 : topIds false ((k, Val.dict es) :: r) = topIds false r := by simp only [topIds]
    have e2 : topIds true ((k, Val.dict es) :: r) = topIds true r := by simp only [topIds]
    rw [e1] at hb; rw [e2] at hl
    rw [e1, e2, filt_keep _ _ _ (by
      show k ∉ _
      simp only [List.mem_append, not_or]
      exact ⟨dom_notMem_phKeys hw.1.1 false (dupFrom_le B (topIds_le false r) sb),
        dom_notMem_phKeys hw.1.1 true (dupFrom_le L (topIds_le true r) sl)⟩)]
    simp only [mapSubs, cleanT]
    rw [mapSubs_filter L B d r sl sb hw.2 hk.2 hb hl]
  | (k, .list xs) :: r, sl, sb, hw, hk, hb, hl => by
    simp only [wshEs, Bool.and_eq_true] at hw
    simp only [keys, List.map_cons, List.nodup_cons] at hk
    have e1 : topIds false ((k, Val.list xs) :: r) = topIds false r := by simp only [topIds]
    have e2 : topIds true ((k, Val.list xs) :: r) = topIds true r := by simp only [topIds]
    rw [e1] at hb; rw [e2] at hl
    rw [e1, e2, filt_keep _ _ _ (by
      show k ∉ _
      simp only [List.mem_append, not_or]
      exact ⟨dom_notMem_phKeys hw.1.1 false (dupFrom_le B (topIds_le false r) sb),
        dom_notMem_phKeys hw.1.1 true (dupFrom_le L (topIds_le true r) sl)⟩)]
    simp only [mapSubs, cleanT]
    rw [mapSubs_filter L B d r sl sb hw.2 hk.2 hb hl]
  | (k, .leaf x) :: r, sl, sb, hw, hk, hb, hl => by
    simp only [wshEs, Bool.and_eq_true, Bool.or_eq_true, decide_eq_true_eq] at hw
    simp only [keys, List.map_cons, List.nodup_cons] at hk
    have ih := fun sl sb hb hl => mapSubs_filter L B d r sl sb hw.2 hk.2 hb hl
    cases hp : phOf k x with
    | none =>
      rw [hp] at hw
      rcases hw.1 with h1 | h1
      · cases h1
      · have e1 : topIds false ((k, Val.leaf x) :: r) = topIds false r := by simp only [topIds, hp, List.nil_append]
        have e2 : topIds true ((k, Val.leaf x) :: r) = topIds true r := by simp only [topIds, hp, List.nil_append]
        rw [e1] at hb; rw [e2] at hl
        rw [e1, e2, filt_keep _ _ _ (by
          show k ∉ _
          simp only [List.mem_append, not_or]
          exact ⟨dom_notMem_phKeys h1.1.1 false (dupFrom_le B (topIds_le false r) sb),
            dom_notMem_phKeys h1.1.1 true (dupFrom_le L (topIds_le true r) sl)⟩)]
        simp only [mapSubs, cleanT, hp]
        rw [ih sl sb hb hl]
    | some li =>
      obtain ⟨l, i⟩ := li
      obtain ⟨rfl, rfl, hi⟩ := phOf_some hp
      have hkr : phKey l i ∉ keys r := hk.1
      cases l with
      | true =>
        have e1 : topIds false ((Key.str (phWord true i), Val.leaf (.str (phWord true i))) :: r) = topIds false r := by
          simp [topIds, hp]
        have e2 : topIds true ((Key.str (phWord true i), Val.leaf (.str (phWord true i))) :: r) = i :: topIds true r := by
          simp [topIds, hp]
        rw [e1] at hb; rw [e2, List.nodup_cons] at hl
        rw [e1, e2]
        have hnb : phKey true i ∉ (dupFrom B sb (topIds false r)).map (phKey false) := by
          intro hm
          obtain ⟨j, hj, e⟩ := List.mem_map.mp hm
          have := (phKey_inj (dupFrom_le B (topIds_le false r) sb j hj) hi e).1
          cases this
        have hnl : ∀ s', phKey true i ∉ (dupFrom L s' (topIds true r)).map (phKey true) := by
          intro s' hm
          obtain ⟨j, hj, e⟩ := List.mem_map.mp hm
          have := (phKey_inj (dupFrom_le L (topIds_le true r) s' j hj) hi e).2
          subst this
          exact hl.1 (dupFrom_sub L _ s' _ hj)
        cases hg : L.get? i with
        | none =>
          have ed : dupFrom L sl (i :: topIds true r) = dupFrom L sl (topIds true r) := by simp only [dupFrom, hg]
          rw [ed, filt_keep _ _ _ (by
            show phKey true i ∉ _
            simp only [List.mem_append, not_or]; exact ⟨hnb, hnl sl⟩)]
          simp only [mapSubs, cleanT, hp, hg]
          rw [ih sl sb hb hl.2]
        | some t =>
          by_cases hc : sl.contains t = true
          · have ed : dupFrom L sl (i :: topIds true r) = i :: dupFrom L sl (topIds true r) := by
              simp only [dupFrom, hg, hc, if_true]
            rw [ed, List.map_cons, filt_drop _ _ _ (by show phKey true i ∈ _; simp), filt_extra _ _ _ _ hkr]
            simp only [cleanT, hp, hg, hc, if_true]
            rw [ih sl sb hb hl.2]
          · have hc' : sl.contains t = false := by simpa using hc
            have ed : dupFrom L sl (i :: topIds true r) = dupFrom L (sl ++ [t]) (topIds true r) := by
              simp only [dupFrom, hg, hc', Bool.false_eq_true, if_false]
            rw [ed, filt_keep _ _ _ (by
              show phKey true i ∉ _
              simp only [List.mem_append, not_or]; exact ⟨hnb, hnl _⟩)]
            simp only [mapSubs, cleanT, hp, hg, hc', Bool.false_eq_true, if_false]
            rw [ih (sl ++ [t]) sb hb hl.2]
      | false =>
        have e1 : topIds false ((Key.str (phWord false i), Val.leaf (.str (phWord false i))) :: r) = i :: topIds false r := by
          simp [topIds, hp]
        have e2 : topIds true ((Key.str (phWord false i), Val.leaf (.str (phWord false i))) :: r) = topIds true r := by
          simp [topIds, hp]
        rw [e1, List.nodup_cons] at hb; rw [e2] at hl
        rw [e1, e2]
        have hnl : phKey false i ∉ (dupFrom L sl (topIds true r)).map (phKey true) := by
          intro hm
          obtain ⟨j, hj, e⟩ := List.mem_map.mp hm
          have := (phKey_inj (dupFrom_le L (topIds_le true r) sl j hj) hi e).1
          cases this
        have hnb : ∀ s', phKey false i ∉ (dupFrom B s' (topIds false r)).map (phKey false) := by
          intro s' hm
          obtain ⟨j, hj, e⟩ := List.mem_map.mp hm
          have := (phKey_inj (dupFrom_le B (topIds_le false r) s' j hj) hi e).2
          subst this
          exact hb.1 (dupFrom_sub B _ s' _ hj)
        cases hg : B.get? i with
        | none =>
          have ed : dupFrom B sb (i :: topIds false r) = dupFrom B sb (topIds false r) := by simp only [dupFrom, hg]
          rw [ed, filt_keep _ _ _ (by
            show phKey false i ∉ _
            simp only [List.mem_append, not_or]; exact ⟨hnb sb, hnl⟩)]
          simp only [mapSubs, cleanT, hp, hg]
          rw [ih sl sb hb.2 hl]
        | some t =>
          by_cases hc : sb.contains t = true
          · have ed : dupFrom B sb (i :: topIds false r) = i :: dupFrom B sb (topIds false r) := by
              simp only [dupFrom, hg, hc, if_true]
            rw [ed, List.map_cons, filt_drop _ _ _ (by show phKey false i ∈ _; simp)]
            have := filt_extra (phKey false i) [] ((dupFrom B sb (topIds false r)).map (phKey false) ++
              (dupFrom L sl (topIds true r)).map (phKey true)) r hkr
            simp only [List.nil_append, List.cons_append] at this ⊢
            rw [this]
            simp only [cleanT, hp, hg, hc, if_true]
            rw [ih sl sb hb.2 hl]
          · have hc' : sb.contains t = false := by simpa using hc
            have ed : dupFrom B sb (i :: topIds false r) = dupFrom B (sb ++ [t]) (topIds false r) := by
              simp only [dupFrom, hg, hc', Bool.false_eq_true, if_false]
            rw [ed, filt_keep _ _ _ (by
              show phKey false i ∉ _
              simp only [List.mem_append, not_or]; exact ⟨hnb _, hnl⟩)]
            simp only [mapSubs, cleanT, hp, hg, hc', Bool.false_eq_true, if_false]
            rw [ih sl (sb ++ [t]) hb.2 hl]

/-- the ids `_clean` removes below a level (in the order in which it removes them) -/
def remSubs (l : Bool) (T : Tbl Str) : Entries → List Nat
  | [] => []
  | (_, .dict sub) :: r => (topDup l T sub ++ remSubs l T sub) ++ remSubs l T r
  | (_, .leaf _) :: r => remSubs l T r
  | (_, .list _) :: r => remSubs l T r

/-- … at and below a level -/
def remT (l : Bool) (T : Tbl Str) (D : Entries) : List Nat := topDup l T D ++ remSubs l T D

/-- the SDict with comment entries removed from the two tables -/
def afterDel (s : SD) (rb rl : List Nat) : SD := { s with blockC := delIds rb s.blockC, lineC := delIds rl s.lineC }

theorem afterDel_afterDel (s : SD) (a b c d : List Nat) : afterDel (afterDel s a b) c d = afterDel s (a ++ c) (b ++ d) := by
  simp only [afterDel, delIds_append]

theorem top_sub_ids (l : Bool) : ∀ (D : Entries), ∀ i ∈ topIds l D, i ∈ idsT l D
  | [], i, h => by simp [topIds] at h
  | (k, .dict es) :: r, i, h => by
    simp only [topIds] at h
    simp only [idsT, List.mem_append]
    exact Or.inr (top_sub_ids l r i h)
  | (k, .list xs) :: r, i, h => by
    simp only [topIds] at h
    simp only [idsT]
    exact top_sub_ids l r i h
  | (k, .leaf x) :: r, i, h => by
    simp only [topIds, List.mem_append] at h
    simp only [idsT, List.mem_append]
    exact h.imp id (top_sub_ids l r i)

theorem topDup_sub (l : Bool) (T : Tbl Str) (D : Entries) : ∀ i ∈ topDup l T D, i ∈ idsT l D :=
  fun i h => top_sub_ids l D i (dupFrom_sub T _ [] i h)

theorem remSubs_sub (l : Bool) (T : Tbl Str) : ∀ (D : Entries), ∀ i ∈ remSubs l T D, i ∈ idsT l D
  | [], i, h => by simp [remSubs] at h
  | (k, .dict sub) :: r, i, h => by
    simp only [remSubs, List.mem_append] at h
    simp only [idsT, List.mem_append]
    rcases h with (h | h) | h
    · exact Or.inl (topDup_sub l T sub i h)
    · exact Or.inl (remSubs_sub l T sub i h)
    · exact Or.inr (remSubs_sub l T r i h)
  | (k, .list xs) :: r, i, h => by
    simp only [remSubs] at h
    simp only [idsT]
    exact remSubs_sub l T r i h
  | (k, .leaf x) :: r, i, h => by
    simp only [remSubs] at h
    simp only [idsT, List.mem_append]
    exact Or.inr (remSubs_sub l T r i h)

theorem remT_sub (l : Bool) (T : Tbl Str) (D : Entries) : ∀ i ∈ remT l T D, i ∈ idsT l D := by
  intro i h
  rcases List.mem_append.mp h with h | h
  · exact topDup_sub l T D i h
  · exact remSubs_sub l T D i h

theorem topDup_congr (l : Bool) {T T' : Tbl Str} (D : Entries) (h : ∀ i ∈ idsT l D, T'.get? i = T.get? i) :
    topDup l T' D = topDup l T D :=
  dupFrom_congr _ _ fun i hi => h i (top_sub_ids l D i hi)

theorem remSubs_congr (l : Bool) {T T' : Tbl Str} : ∀ (D : Entries), (∀ i ∈ idsT l D, T'.get? i = T.get? i) →
    remSubs l T' D = remSubs l T D
  | [], _ => by simp [remSubs]
  | (k, .dict sub) :: r, h => by
    simp only [idsT, List.mem_append] at h
    simp only [remSubs, topDup_congr l sub (fun i hi => h i (Or.inl hi)), remSubs_congr l sub (fun i hi => h i (Or.inl hi)),
      remSubs_congr l r (fun i hi => h i (Or.inr hi))]
  | (k, .list xs) :: r, h => by
    simp only [idsT] at h
    simp only [remSubs, remSubs_congr l r h]
  | (k, .leaf x) :: r, h => by
    simp only [idsT, List.mem_append] at h
    simp only [remSubs, remSubs_congr l r (fun i hi => h i (Or.inr hi))]

theorem remT_congr (l : Bool) {T T' : Tbl Str} (D : Entries) (h : ∀ i ∈ idsT l D, T'.get? i = T.get? i) :
    remT l T' D = remT l T D := by
  simp only [remT, topDup_congr l D h, remSubs_congr l D h]

theorem cleanT_congr {L L' B B' : Tbl Str} : ∀ (D : Entries) (sl sb : List Str),
    (∀ i ∈ idsT true D, L'.get? i = L.get? i) → (∀ i ∈ idsT false D, B'.get? i = B.get? i) →
    cleanT L' B' sl sb D = cleanT L B sl sb D
  | [], _, _, _, _ => by simp [cleanT]
  | (k, .dict es) :: r, sl, sb, hL, hB => by
    simp only [idsT, List.mem_append] at hL hB
    simp only [cleanT, cleanT_congr es [] [] (fun i hi => hL i (Or.inl hi)) (fun i hi => hB i (Or.inl hi)),
      cleanT_congr r sl sb (fun i hi => hL i (Or.inr hi)) (fun i hi => hB i (Or.inr hi))]
  | (k, .list xs) :: r, sl, sb, hL, hB => by
    simp only [idsT] at hL hB
    simp only [cleanT, cleanT_congr r sl sb hL hB]
  | (k, .leaf x) :: r, sl, sb, hL, hB => by
    simp only [idsT, List.mem_append] at hL hB
    have ih := fun sl sb => cleanT_congr r sl sb (fun i hi => hL i (Or.inr hi)) (fun i hi => hB i (Or.inr hi))
    cases hp : phOf k x with
    | none => simp only [cleanT, hp, ih]
    | some li =>
      obtain ⟨l, i⟩ := li
      cases l with
      | true =>
        have : L'.get? i = L.get? i := hL i (Or.inl (by simp [hp]))
        simp only [cleanT, hp, this, ih]
      | false =>
        have : B'.get? i = B.get? i := hB i (Or.inl (by simp [hp]))
        simp only [cleanT, hp, this, ih]

theorem depth_filter (p : Key × Val → Bool) : ∀ (D : Entries), depthV.depthEs (D.filter p) ≤ depthV.depthEs D
  | [] => by simp [depthV.depthEs]
  | (k, v) :: r => by
    have ih := depth_filter p r
    simp only [List.filter_cons]
    split
    · simp only [depthV.depthEs]; omega
    · simp only [depthV.depthEs]; omega

theorem allLevels_filter {P : Entries → Prop} (p : Key × Val → Bool) : ∀ (D : Entries), allLevels P D →
    allLevels P (D.filter p)
  | [], _ => by simp [allLevels]
  | (k, .dict es) :: r, h => by
    simp only [allLevels] at h
    simp only [List.filter_cons]
    split
    · simp only [allLevels]; exact ⟨h.1, allLevels_filter p r h.2⟩
    · exact allLevels_filter p r h.2
  | (k, .leaf x) :: r, h => by
    simp only [allLevels] at h
    simp only [List.filter_cons]
    split
    · simp only [allLevels]; exact allLevels_filter p r h
    · exact allLevels_filter p r h
  | (k, .list xs) :: r, h => by
    simp only [allLevels] at h
    simp only [List.filter_cons]
    split
    · simp only [allLevels]; exact allLevels_filter p r h
    · exact allLevels_filter p r h

theorem idsT_filter_sublist (l : Bool) (p : Key × Val → Bool) : ∀ (D : Entries),
    (idsT l (D.filter p)).Sublist (idsT l D)
  | [] => by simp [idsT]
  | (k, .dict es) :: r => by
    have ih := idsT_filter_sublist l p r
    simp only [List.filter_cons]
    split
    · simp only [idsT]; exact (List.Sublist.refl _).append ih
    · simp only [idsT]; exact ih.trans (List.sublist_append_right _ _)
  | (k, .list xs) :: r => by
    have ih := idsT_filter_sublist l p r
    simp only [List.filter_cons]
    split
    · simp only [idsT]; exact ih
    · simp only [idsT]; exact ih
  | (k, .leaf x) :: r => by
    have ih := idsT_filter_sublist l p r
    simp only [List.filter_cons]
    split
    · simp only [idsT]; exact (List.Sublist.refl _).append ih
    · simp only [idsT]; exact ih.trans (List.sublist_append_right _ _)

/-- dropping comment entries of the level does not touch its sub-dicts -/
theorem remSubs_filter (l : Bool) (T : Tbl Str) (d : Nat) (ks : List Key)
    (hks : ∀ k, isDomKey k = true → k ∉ ks) : ∀ (D : Entries), wshEs d D = true →
    remSubs l T (D.filter fun e => e.1 ∉ ks) = remSubs l T D
  | [], _ => rfl
  | (k, .dict es) :: r, h => by
    simp only [wshEs, Bool.and_eq_true] at h
    rw [filt_keep _ _ _ (hks k h.1.1)]
    simp only [remSubs, remSubs_filter l T d ks hks r h.2]
  | (k, .list xs) :: r, h => by
    simp only [wshEs, Bool.and_eq_true] at h
    rw [filt_keep _ _ _ (hks k h.1.1)]
    simp only [remSubs, remSubs_filter l T d ks hks r h.2]
  | (k, .leaf x) :: r, h => by
    simp only [wshEs, Bool.and_eq_true] at h
    have ih := remSubs_filter l T d ks hks r h.2
    by_cases hk : k ∈ ks
    · rw [filt_drop _ _ _ hk]; simp only [remSubs, ih]
    · rw [filt_keep _ _ _ hk]; simp only [remSubs, ih]

/-- an id whose entry is dropped at the top of the level does not occur in what is left -/
theorem idsT_dropped (l : Bool) (d : Nat) (ks : List Key) {i : Nat} (hin : phKey l i ∈ ks) : ∀ (D : Entries),
    wshEs d D = true → (idsT l D).Nodup → i ∈ topIds l D → i ∉ idsT l (D.filter fun e => e.1 ∉ ks)
  | [], _, _, h => by simp [topIds] at h
  | (k, .dict es) :: r, hw, hnd, h => by
    simp only [wshEs, Bool.and_eq_true] at hw
    simp only [idsT] at hnd
    simp only [topIds] at h
    have hnd' := List.nodup_append.mp hnd
    have ih := idsT_dropped l d ks hin r hw.2 hnd'.2.1 h
    have hi_r : i ∈ idsT l r := top_sub_ids l r i h
    have hi_es : i ∉ idsT l es := fun hm => hnd'.2.2 i hm i hi_r rfl
    simp only [List.filter_cons]
    split
    · simp only [idsT, List.mem_append, not_or]; exact ⟨hi_es, ih⟩
    · exact ih
  | (k, .list xs) :: r, hw, hnd, h => by
    simp only [wshEs, Bool.and_eq_true] at hw
    simp only [idsT] at hnd
    simp only [topIds] at h
    have ih := idsT_dropped l d ks hin r hw.2 hnd h
    simp only [List.filter_cons]
    split
    · simp only [idsT]; exact ih
    · exact ih
  | (k, .leaf x) :: r, hw, hnd, h => by
    simp only [wshEs, Bool.and_eq_true] at hw
    simp only [idsT] at hnd
    simp only [topIds, List.mem_append] at h
    have hnd' := List.nodup_append.mp hnd
    cases hp : phOf k x with
    | none =>
      rw [hp] at h
      simp only [List.not_mem_nil, false_or] at h
      have ih := idsT_dropped l d ks hin r hw.2 hnd'.2.1 h
      simp only [List.filter_cons]
      split
      · simp only [idsT, hp, List.nil_append]; exact ih
      · exact ih
    | some li =>
      obtain ⟨l', j⟩ := li
      obtain ⟨hk, _, hj⟩ := phOf_some hp
      rw [hp] at h hnd hnd'
      by_cases hlj : l' = l ∧ j = i
      · obtain ⟨rfl, rfl⟩ := hlj
        have hdrop : k ∈ ks := by rw [hk]; exact hin
        rw [filt_drop _ _ _ hdrop]
        simp only [if_true] at hnd'
        intro hm
        have := (idsT_filter_sublist l' (fun e => decide (e.1 ∉ ks)) r).subset hm
        exact hnd'.2.2 j (by simp) j this rfl
      · have hir : i ∈ topIds l r := by
          rcases h with h | h
          · simp only at h
            split at h
            · next e => simp only [List.mem_singleton] at h; exact absurd ⟨e, h.symm⟩ hlj
            · simp at h
          · exact h
        have ih := idsT_dropped l d ks hin r hw.2 hnd'.2.1 hir
        simp only [List.filter_cons]
        split
        · simp only [idsT, hp, List.mem_append, not_or]
          refine ⟨?_, ih⟩
          split
          · next e => simp only [List.mem_singleton]; exact fun e2 => hlj ⟨e, e2.symm⟩
          · simp
        · exact ih

theorem afterDel_nil (s : SD) : afterDel s [] [] = s := by cases s; rfl

theorem subsRec_gen (fuel : Nat)
    (IH : ∀ (s : SD) (D : Entries) (d : Nat), depthV.depthEs D < fuel → wshEs d D = true → KNodup D →
      allLevels KNodup D → (idsT false D).Nodup → (idsT true D).Nodup →
      cleanRec fuel s D = (afterDel s (remT false s.blockC D) (remT true s.lineC D), cleanT s.lineC s.blockC [] [] D))
    (L0 B0 : Tbl Str) : ∀ (E : Entries) (t : SD) (d : Nat), depthV.depthEs E ≤ fuel → wshEs d E = true →
      allLevels KNodup E → (idsT false E).Nodup → (idsT true E).Nodup →
      (∀ i ∈ idsT false E, t.blockC.get? i = B0.get? i) → (∀ i ∈ idsT true E, t.lineC.get? i = L0.get? i) →
      subsRec fuel t E = (afterDel t (remSubs false B0 E) (remSubs true L0 E), mapSubs (cleanT L0 B0 [] []) E)
  | [], t, _, _, _, _, _, _, _, _ => by simp [subsRec, remSubs, mapSubs, afterDel_nil]
  | (k, .leaf x) :: r, t, d, hd, hw, hal, hb, hl, hB, hL => by
    simp only [wshEs, Bool.and_eq_true] at hw
    simp only [depthV.depthEs] at hd
    simp only [allLevels] at hal
    simp only [idsT] at hb hl hB hL
    have ih := subsRec_gen fuel IH L0 B0 r t d (by omega) hw.2 hal (List.nodup_append.mp hb).2.1
      (List.nodup_append.mp hl).2.1 (fun i hi => hB i (List.mem_append_right _ hi))
      (fun i hi => hL i (List.mem_append_right _ hi))
    simp only [subsRec, ih, remSubs, mapSubs]
  | (k, .list xs) :: r, t, d, hd, hw, hal, hb, hl, hB, hL => by
    simp only [wshEs, Bool.and_eq_true] at hw
    simp only [depthV.depthEs] at hd
    simp only [allLevels] at hal
    simp only [idsT] at hb hl hB hL
    have ih := subsRec_gen fuel IH L0 B0 r t d (by omega) hw.2 hal hb hl hB hL
    simp only [subsRec, ih, remSubs, mapSubs]
  | (k, .dict sub) :: r, t, d, hd, hw, hal, hb, hl, hB, hL => by
    simp only [wshEs, Bool.and_eq_true] at hw
    simp only [depthV.depthEs, depthV] at hd
    simp only [allLevels] at hal
    simp only [idsT] at hb hl hB hL
    have hb' := List.nodup_append.mp hb
    have hl' := List.nodup_append.mp hl
    have hBs : ∀ i ∈ idsT false sub, t.blockC.get? i = B0.get? i := fun i hi => hB i (List.mem_append_left _ hi)
    have hLs : ∀ i ∈ idsT true sub, t.lineC.get? i = L0.get? i := fun i hi => hL i (List.mem_append_left _ hi)
    have hsub := IH t sub (d + 1) (by omega) hw.1.2 hal.1.1 hal.1.2 hb'.1 hl'.1
    rw [remT_congr false sub hBs, remT_congr true sub hLs, cleanT_congr sub [] [] hLs hBs] at hsub
    have ih := subsRec_gen fuel IH L0 B0 r (afterDel t (remT false B0 sub) (remT true L0 sub)) d (by omega) hw.2 hal.2
      hb'.2.1 hl'.2.1
      (by
        intro i hi
        show (delIds (remT false B0 sub) t.blockC).get? i = _
        rw [get_delIds _ _ (fun hm => hb'.2.2 i (remT_sub false B0 sub i hm) i hi rfl)]
        exact hB i (List.mem_append_right _ hi))
      (by
        intro i hi
        show (delIds (remT true L0 sub) t.lineC).get? i = _
        rw [get_delIds _ _ (fun hm => hl'.2.2 i (remT_sub true L0 sub i hm) i hi rfl)]
        exact hL i (List.mem_append_right _ hi))
    have e1 : subsRec fuel t ((k, Val.dict sub) :: r) =
        ((subsRec fuel (cleanRec fuel t sub).1 r).1,
          (k, .dict (cleanRec fuel t sub).2) :: (subsRec fuel (cleanRec fuel t sub).1 r).2) := by
      simp only [subsRec]
    rw [e1, hsub]
    simp only []
    rw [ih, afterDel_afterDel]
    simp only [remSubs, mapSubs, remT]

/-- **`_clean` in general.**  On a tree of the shape `wshEs` whose keys are pairwise distinct at every level and whose
    comment ids are pairwise distinct, `_clean` returns the specification `cleanT` and deletes the ids of the dropped
    entries from the two tables (enough fuel: more than the depth of the tree) -/
theorem cleanRec_gen : ∀ (fuel : Nat) (s : SD) (D : Entries) (d : Nat), depthV.depthEs D < fuel → wshEs d D = true →
    KNodup D → allLevels KNodup D → (idsT false D).Nodup → (idsT true D).Nodup →
    cleanRec fuel s D = (afterDel s (remT false s.blockC D) (remT true s.lineC D), cleanT s.lineC s.blockC [] [] D)
  | 0, _, _, _, h, _, _, _, _, _ => by omega
  | fuel + 1, s, D, d, hd, hw, hk, hal, hb, hl => by
    have htb : (topIds false D).Nodup := by
      have : (topIds false D).Sublist (idsT false D) := by
        clear hd hw hk hal hb hl
        induction D with
        | nil => simp [topIds]
        | cons e D ih =>
          obtain ⟨k, v⟩ := e
          cases v with
          | leaf x => simp only [topIds, idsT]; exact (List.Sublist.refl _).append ih
          | dict es => simp only [topIds, idsT]; exact ih.trans (List.sublist_append_right _ _)
          | list xs => simp only [topIds, idsT]; exact ih
      exact this.nodup hb
    have htl : (topIds true D).Nodup := by
      have : (topIds true D).Sublist (idsT true D) := by
        clear hd hw hk hal hb hl htb
        induction D with
        | nil => simp [topIds]
        | cons e D ih =>
          obtain ⟨k, v⟩ := e
          cases v with
          | leaf x => simp only [topIds, idsT]; exact (List.Sublist.refl _).append ih
          | dict es => simp only [topIds, idsT]; exact ih.trans (List.sublist_append_right _ _)
          | list xs => simp only [topIds, idsT]; exact ih
      exact this.nodup hl
    have hlev := cleanLevel_gen s d D hw hk htb htl
    have hks : ∀ k, isDomKey k = true → k ∉ topKeys s D := by
      intro k hkd
      simp only [topKeys, List.mem_append, not_or]
      exact ⟨dom_notMem_phKeys hkd false (dupFrom_le _ (topIds_le false D) _),
        dom_notMem_phKeys hkd true (dupFrom_le _ (topIds_le true D) _)⟩
    rw [cleanRec_succ fuel s D (by rw [hlev]; exact keys_filter_nodup _ hk), hlev]
    have hsubs := subsRec_gen fuel (fun s D d => cleanRec_gen fuel s D d) s.lineC s.blockC
      (D.filter fun e => e.1 ∉ topKeys s D)
      ({ s with blockC := delIds (topDup false s.blockC D) s.blockC, lineC := delIds (topDup true s.lineC D) s.lineC }) d
      (by have := depth_filter (fun e => decide (e.1 ∉ topKeys s D)) D; omega)
      (wshEs_filter d _ D hw) (allLevels_filter _ D hal)
      ((idsT_filter_sublist false _ D).nodup hb) ((idsT_filter_sublist true _ D).nodup hl)
      (by
        intro i hi
        show (delIds (topDup false s.blockC D) s.blockC).get? i = _
        apply get_delIds
        intro hm
        exact idsT_dropped false d (topKeys s D)
          (by simp only [topKeys, List.mem_append]; exact Or.inl (List.mem_map_of_mem hm)) D hw hb
          (dupFrom_sub _ _ _ _ hm) hi)
      (by
        intro i hi
        show (delIds (topDup true s.lineC D) s.lineC).get? i = _
        apply get_delIds
        intro hm
        exact idsT_dropped true d (topKeys s D)
          (by simp only [topKeys, List.mem_append]; exact Or.inr (List.mem_map_of_mem hm)) D hw hl
          (dupFrom_sub _ _ _ _ hm) hi)
    rw [hsubs, remSubs_filter false _ d _ hks D hw, remSubs_filter true _ d _ hks D hw]
    have hm : mapSubs (cleanT s.lineC s.blockC [] []) (D.filter fun e => e.1 ∉ topKeys s D) =
        cleanT s.lineC s.blockC [] [] D := mapSubs_filter s.lineC s.blockC d D [] [] hw hk htb htl
    rw [hm]
    show (afterDel (afterDel s _ _) _ _, _) = _
    rw [afterDel_afterDel]
    rfl

/-! ### the ids of the tree of a commented document -/

mutual
  theorem idsT_treeV : ∀ (v : CSrc) (l1 ext : List Nat) (n d : Nat),
      l1.length = (lineFullsV v).length → (∀ i ∈ l1, i ≤ 999999) → n + (blockFullsV v).length ≤ 1000000 →
      okV d v = true →
      (match v with
       | .dict items => idsT false (dTreeI (l1 ++ ext) n items) = List.range' n (blockFullsI items).length ∧
                        idsT true (dTreeI (l1 ++ ext) n items) = l1
       | _ => True)
    | .lit l, _, _, _, _, _, _, _, _ => trivial
    | .list xs, _, _, _, _, _, _, _, _ => trivial
    | .dict items, l1, ext, n, d, hl, hi, hn, hok => by
      simp only [lineFullsV, blockFullsV, okV] at hl hn hok
      exact idsT_treeI items l1 ext n (d + 1) hl hi hn hok
  /-- the comment ids of the tree, in document order: the block ids are consecutive, the line ids are the ids drawn -/
  theorem idsT_treeI : ∀ (items : List CItem) (l1 ext : List Nat) (n d : Nat),
      l1.length = (lineFullsI items).length → (∀ i ∈ l1, i ≤ 999999) → n + (blockFullsI items).length ≤ 1000000 →
      okI d items = true →
      idsT false (dTreeI (l1 ++ ext) n items) = List.range' n (blockFullsI items).length ∧
      idsT true (dTreeI (l1 ++ ext) n items) = l1
    | [], l1, _, _, _, hl, _, _, _ => by
      simp only [lineFullsI, List.length_nil] at hl
      simp [dTreeI, idsT, blockFullsI, List.eq_nil_of_length_eq_zero hl]
    | .entry k v :: r, l1, ext, n, d, hl, hi, hn, hok => by
      simp only [lineFullsI, blockFullsI, List.length_append, okI, Bool.and_eq_true] at hl hn hok ⊢
      obtain ⟨la, lb, rfl, hla⟩ : ∃ la lb, l1 = la ++ lb ∧ la.length = (lineFullsV v).length :=
        ⟨l1.take (lineFullsV v).length, l1.drop (lineFullsV v).length, (List.take_append_drop _ _).symm,
          by rw [List.length_take]; omega⟩
      have hlb : lb.length = (lineFullsI r).length := by simp only [List.length_append] at hl; omega
      have hdrop : (la ++ lb ++ ext).drop (lineFullsV v).length = lb ++ ext := by
        rw [List.append_assoc, List.drop_left' hla]
      have ihr := idsT_treeI r lb ext (n + (blockFullsV v).length) d hlb
        (fun i h => hi i (List.mem_append_right _ h)) (by omega) hok.2
      have ihv := idsT_treeV v la (lb ++ ext) n d hla (fun i h => hi i (List.mem_append_left _ h)) (by omega) hok.1.2
      simp only [dTreeI, hdrop]
      have hph : ∀ x, phOf (keyOfStr k) x = none := phOf_dom hok.1.1
      cases v with
      | lit l =>
        have hla0 : la = [] := List.eq_nil_of_length_eq_zero (by simpa [lineFullsV] using hla)
        subst hla0
        simp only [dTreeV, idsT, hph, blockFullsV, List.length_nil, Nat.add_zero, Nat.zero_add, List.nil_append] at ihr ⊢
        exact ihr
      | list xs =>
        have hla0 : la = [] := List.eq_nil_of_length_eq_zero (by simpa [lineFullsV] using hla)
        subst hla0
        simp only [dTreeV, idsT, blockFullsV, List.length_nil, Nat.add_zero, Nat.zero_add, List.nil_append] at ihr ⊢
        exact ihr
      | dict items =>
        simp only [List.append_assoc] at ihv ⊢
        simp only [dTreeV, idsT, blockFullsV] at ihr ⊢
        rw [ihv.1, ihv.2, ihr.1, ihr.2, ← List.range'_append_1]
        exact ⟨rfl, rfl⟩
    | .lineC x :: r, l1, ext, n, d, hl, hi, hn, hok => by
      simp only [lineFullsI, blockFullsI, List.length_cons, okI, Bool.and_eq_true] at hl hn hok ⊢
      cases l1 with
      | nil => simp at hl
      | cons i l1 =>
        simp only [List.length_cons, Nat.add_right_cancel_iff] at hl
        have ihr := idsT_treeI r l1 ext n d hl (fun j h => hi j (List.mem_cons_of_mem _ h)) hn hok.2
        simp only [List.cons_append, dTreeI, List.headD_cons, List.tail_cons, phEntry, idsT,
          phOf_ph true (hi i List.mem_cons_self), ihr.1, ihr.2]
        simp
    | .blockC x :: r, l1, ext, n, d, hl, hi, hn, hok => by
      simp only [lineFullsI, blockFullsI, List.length_cons, okI, Bool.and_eq_true] at hl hn hok ⊢
      have ihr := idsT_treeI r l1 ext (n + 1) d hl hi (by omega) hok.2
      have hnn : n ≤ 999999 := by omega
      simp only [dTreeI, phEntry, idsT, phOf_ph false hnn, ihr.1, ihr.2]
      simp [List.range'_succ]
end

/-! ### what is left after `_clean` -/

theorem wsh_cleanT (L B : Tbl Str) : ∀ (d : Nat) (D : Entries) (sl sb : List Str), wshEs d D = true →
    wshEs d (cleanT L B sl sb D) = true
  | _, [], _, _, _ => by simp [cleanT, wshEs]
  | d, (k, .dict es) :: r, sl, sb, h => by
    simp only [wshEs, Bool.and_eq_true] at h
    simp only [cleanT, wshEs, Bool.and_eq_true]
    exact ⟨⟨h.1.1, wsh_cleanT L B (d + 1) es [] [] h.1.2⟩, wsh_cleanT L B d r sl sb h.2⟩
  | d, (k, .list xs) :: r, sl, sb, h => by
    simp only [wshEs, Bool.and_eq_true] at h
    simp only [cleanT, wshEs, Bool.and_eq_true]
    exact ⟨h.1, wsh_cleanT L B d r sl sb h.2⟩
  | d, (k, .leaf x) :: r, sl, sb, h => by
    simp only [wshEs, Bool.and_eq_true] at h
    have ih := fun sl sb => wsh_cleanT L B d r sl sb h.2
    have keep : ∀ sl sb, wshEs d ((k, .leaf x) :: cleanT L B sl sb r) = true := by
      intro sl sb
      simp only [wshEs, Bool.and_eq_true]
      exact ⟨h.1, ih sl sb⟩
    simp only [cleanT]
    split
    · split
      · exact keep _ _
      · split
        · exact ih _ _
        · exact keep _ _
    · split
      · exact keep _ _
      · split
        · exact ih _ _
        · exact keep _ _
    · exact keep _ _

theorem ids_cleanT_sublist (L B : Tbl Str) (l : Bool) : ∀ (D : Entries) (sl sb : List Str),
    (idsT l (cleanT L B sl sb D)).Sublist (idsT l D)
  | [], _, _ => by simp [cleanT, idsT]
  | (k, .dict es) :: r, sl, sb => by
    simp only [cleanT, idsT]
    exact (ids_cleanT_sublist L B l es [] []).append (ids_cleanT_sublist L B l r sl sb)
  | (k, .list xs) :: r, sl, sb => by
    simp only [cleanT, idsT]
    exact ids_cleanT_sublist L B l r sl sb
  | (k, .leaf x) :: r, sl, sb => by
    have ih := fun sl sb => ids_cleanT_sublist L B l r sl sb
    have keep : ∀ sl sb, (idsT l ((k, .leaf x) :: cleanT L B sl sb r)).Sublist (idsT l ((k, .leaf x) :: r)) := by
      intro sl sb
      simp only [idsT]
      exact (List.Sublist.refl _).append (ih sl sb)
    have drop : ∀ sl sb, (idsT l (cleanT L B sl sb r)).Sublist (idsT l ((k, .leaf x) :: r)) := by
      intro sl sb
      simp only [idsT]
      exact (ih sl sb).trans (List.sublist_append_right _ _)
    simp only [cleanT]
    split
    · split
      · exact keep _ _
      · split
        · exact drop _ _
        · exact keep _ _
    · split
      · exact keep _ _
      · split
        · exact drop _ _
        · exact keep _ _
    · exact keep _ _

/-- the ids of kind block that are left are exactly those that were not removed -/
theorem part_block (L B : Tbl Str) : ∀ (D : Entries) (sl sb : List Str), (idsT false D).Nodup → ∀ i ∈ idsT false D,
    (i ∈ idsT false (cleanT L B sl sb D) ↔ i ∉ dupFrom B sb (topIds false D) ++ remSubs false B D)
  | [], _, _, _, i, hi => by simp [idsT] at hi
  | (k, .dict es) :: r, sl, sb, hnd, i, hi => by
    simp only [idsT] at hnd hi
    have hnd' := List.nodup_append.mp hnd
    have ihe := part_block L B es [] [] hnd'.1
    have ihr := part_block L B r sl sb hnd'.2.1
    have hsubr : ∀ j ∈ dupFrom B sb (topIds false r) ++ remSubs false B r, j ∈ idsT false r := by
      intro j hj
      rcases List.mem_append.mp hj with h | h
      · exact top_sub_ids false r j (dupFrom_sub _ _ _ j h)
      · exact remSubs_sub false B r j h
    have hsube : ∀ j ∈ dupFrom B [] (topIds false es) ++ remSubs false B es, j ∈ idsT false es := by
      intro j hj
      rcases List.mem_append.mp hj with h | h
      · exact top_sub_ids false es j (dupFrom_sub _ _ _ j h)
      · exact remSubs_sub false B es j h
    simp only [cleanT, idsT, topIds, remSubs, topDup, List.mem_append]
    rcases List.mem_append.mp hi with hie | hir
    · have hnr : i ∉ idsT false r := fun h => hnd'.2.2 i hie i h rfl
      have h1 : i ∉ idsT false (cleanT L B sl sb r) := fun h => hnr ((ids_cleanT_sublist L B false r sl sb).subset h)
      have h2 : i ∉ dupFrom B sb (topIds false r) := fun h => hnr (hsubr i (List.mem_append_left _ h))
      have h3 : i ∉ remSubs false B r := fun h => hnr (hsubr i (List.mem_append_right _ h))
      have := ihe i hie
      simp only [List.mem_append] at this
      constructor
      · rintro (h | h)
        · rintro (h' | (h' | h') | h')
          · exact h2 h'
          · exact this.mp h (Or.inl h')
          · exact this.mp h (Or.inr h')
          · exact h3 h'
        · exact absurd h h1
      · intro h
        exact Or.inl (this.mpr fun h' => h (h'.elim (fun a => Or.inr (Or.inl (Or.inl a))) (fun a => Or.inr (Or.inl (Or.inr a)))))
    · have hne : i ∉ idsT false es := fun h => hnd'.2.2 i h i hir rfl
      have h1 : i ∉ idsT false (cleanT L B [] [] es) := fun h => hne ((ids_cleanT_sublist L B false es [] []).subset h)
      have h2 : i ∉ dupFrom B [] (topIds false es) := fun h => hne (hsube i (List.mem_append_left _ h))
      have h3 : i ∉ remSubs false B es := fun h => hne (hsube i (List.mem_append_right _ h))
      have := ihr i hir
      simp only [List.mem_append] at this
      constructor
      · rintro (h | h)
        · exact absurd h h1
        · rintro (h' | (h' | h') | h')
          · exact this.mp h (Or.inl h')
          · exact h2 h'
          · exact h3 h'
          · exact this.mp h (Or.inr h')
      · intro h
        exact Or.inr (this.mpr fun h' => h (h'.elim (fun a => Or.inl a) (fun a => Or.inr (Or.inr a))))
  | (k, .list xs) :: r, sl, sb, hnd, i, hi => by
    simp only [idsT] at hnd hi
    simp only [cleanT, idsT, topIds, remSubs]
    exact part_block L B r sl sb hnd i hi
  | (k, .leaf x) :: r, sl, sb, hnd, i, hi => by
    have ih := fun sl sb hnd => part_block L B r sl sb hnd
    have hsubr : ∀ s' j, j ∈ dupFrom B s' (topIds false r) ++ remSubs false B r → j ∈ idsT false r := by
      intro s' j hj
      rcases List.mem_append.mp hj with h | h
      · exact top_sub_ids false r j (dupFrom_sub _ _ _ j h)
      · exact remSubs_sub false B r j h
    cases hp : phOf k x with
    | none =>
      simp only [idsT, hp, List.nil_append] at hnd hi
      simp only [cleanT, hp, idsT, topIds, remSubs, List.nil_append]
      exact ih sl sb hnd i hi
    | some li =>
      obtain ⟨l, j⟩ := li
      cases l with
      | true =>
        simp only [idsT, hp, Bool.true_eq_false, if_false, List.nil_append] at hnd hi
        simp only [cleanT, hp, topIds, remSubs, Bool.true_eq_false, if_false, List.nil_append]
        cases hg : L.get? j with
        | none => simp only [idsT, hp, Bool.true_eq_false, if_false, List.nil_append]; exact ih sl sb hnd i hi
        | some t =>
          simp only []
          split
          · exact ih _ _ hnd i hi
          · simp only [idsT, hp, Bool.true_eq_false, if_false, List.nil_append]; exact ih _ _ hnd i hi
      | false =>
        simp only [idsT, hp, if_true, List.singleton_append, List.nodup_cons] at hnd hi
        have hjr : ∀ s', j ∉ dupFrom B s' (topIds false r) ++ remSubs false B r := fun s' h => hnd.1 (hsubr s' j h)
        simp only [cleanT, hp, topIds, remSubs, if_true, List.singleton_append]
        cases hg : B.get? j with
        | none =>
          simp only [dupFrom, hg, idsT, hp, if_true, List.singleton_append, List.mem_cons]
          rcases List.mem_cons.mp hi with rfl | hir
          · exact ⟨fun _ => hjr sb, fun _ => Or.inl rfl⟩
          · have hne : i ≠ j := fun e => hnd.1 (e ▸ hir)
            have := ih sl sb hnd.2 i hir
            constructor
            · rintro (h | h)
              · exact absurd h hne
              · exact this.mp h
            · exact fun h => Or.inr (this.mpr h)
        | some t =>
          by_cases hc : sb.contains t = true
          · simp only [dupFrom, hg, hc, if_true, List.cons_append, List.mem_cons, not_or]
            rcases List.mem_cons.mp hi with rfl | hir
            · constructor
              · intro h
                exact absurd ((ids_cleanT_sublist L B false r sl sb).subset h) hnd.1
              · intro h; exact absurd rfl h.1
            · have hne : i ≠ j := fun e => hnd.1 (e ▸ hir)
              have := ih sl sb hnd.2 i hir
              exact ⟨fun h => ⟨hne, this.mp h⟩, fun h => this.mpr h.2⟩
          · have hc' : sb.contains t = false := by simpa using hc
            simp only [dupFrom, hg, hc', Bool.false_eq_true, if_false, idsT, hp, if_true, List.singleton_append,
              List.mem_cons]
            rcases List.mem_cons.mp hi with rfl | hir
            · exact ⟨fun _ => hjr _, fun _ => Or.inl rfl⟩
            · have hne : i ≠ j := fun e => hnd.1 (e ▸ hir)
              have := ih sl (sb ++ [t]) hnd.2 i hir
              constructor
              · rintro (h | h)
                · exact absurd h hne
                · exact this.mp h
              · exact fun h => Or.inr (this.mpr h)

/-- the ids of kind line that are left are exactly those that were not removed -/
theorem part_line (L B : Tbl Str) : ∀ (D : Entries) (sl sb : List Str), (idsT true D).Nodup → ∀ i ∈ idsT true D,
    (i ∈ idsT true (cleanT L B sl sb D) ↔ i ∉ dupFrom L sl (topIds true D) ++ remSubs true L D)
  | [], _, _, _, i, hi => by simp [idsT] at hi
  | (k, .dict es) :: r, sl, sb, hnd, i, hi => by
    simp only [idsT] at hnd hi
    have hnd' := List.nodup_append.mp hnd
    have ihe := part_line L B es [] [] hnd'.1
    have ihr := part_line L B r sl sb hnd'.2.1
    have hsubr : ∀ j ∈ dupFrom L sl (topIds true r) ++ remSubs true L r, j ∈ idsT true r := by
      intro j hj
      rcases List.mem_append.mp hj with h | h
      · exact top_sub_ids true r j (dupFrom_sub _ _ _ j h)
      · exact remSubs_sub true L r j h
    have hsube : ∀ j ∈ dupFrom L [] (topIds true es) ++ remSubs true L es, j ∈ idsT true es := by
      intro j hj
      rcases List.mem_append.mp hj with h | h
      · exact top_sub_ids true es j (dupFrom_sub _ _ _ j h)
      · exact remSubs_sub true L es j h
    simp only [cleanT, idsT, topIds, remSubs, topDup, List.mem_append]
    rcases List.mem_append.mp hi with hie | hir
    · have hnr : i ∉ idsT true r := fun h => hnd'.2.2 i hie i h rfl
      have h1 : i ∉ idsT true (cleanT L B sl sb r) := fun h => hnr ((ids_cleanT_sublist L B true r sl sb).subset h)
      have h2 : i ∉ dupFrom L sl (topIds true r) := fun h => hnr (hsubr i (List.mem_append_left _ h))
      have h3 : i ∉ remSubs true L r := fun h => hnr (hsubr i (List.mem_append_right _ h))
      have := ihe i hie
      simp only [List.mem_append] at this
      constructor
      · rintro (h | h)
        · rintro (h' | (h' | h') | h')
          · exact h2 h'
          · exact this.mp h (Or.inl h')
          · exact this.mp h (Or.inr h')
          · exact h3 h'
        · exact absurd h h1
      · intro h
        exact Or.inl (this.mpr fun h' => h (h'.elim (fun a => Or.inr (Or.inl (Or.inl a))) (fun a => Or.inr (Or.inl (Or.inr a)))))
    · have hne : i ∉ idsT true es := fun h => hnd'.2.2 i h i hir rfl
      have h1 : i ∉ idsT true (cleanT L B [] [] es) := fun h => hne ((ids_cleanT_sublist L B true es [] []).subset h)
      have h2 : i ∉ dupFrom L [] (topIds true es) := fun h => hne (hsube i (List.mem_append_left _ h))
      have h3 : i ∉ remSubs true L es := fun h => hne (hsube i (List.mem_append_right _ h))
      have := ihr i hir
      simp only [List.mem_append] at this
      constructor
      · rintro (h | h)
        · exact absurd h h1
        · rintro (h' | (h' | h') | h')
          · exact this.mp h (Or.inl h')
          · exact h2 h'
          · exact h3 h'
          · exact this.mp h (Or.inr h')
      · intro h
        exact Or.inr (this.mpr fun h' => h (h'.elim (fun a => Or.inl a) (fun a => Or.inr (Or.inr a))))
  | (k, .list xs) :: r, sl, sb, hnd, i, hi => by
    simp only [idsT] at hnd hi
    simp only [cleanT, idsT, topIds, remSubs]
    exact part_line L B r sl sb hnd i hi
  | (k, .leaf x) :: r, sl, sb, hnd, i, hi => by
    have ih := fun sl sb hnd => part_line L B r sl sb hnd
    have hsubr : ∀ s' j, j ∈ dupFrom L s' (topIds true r) ++ remSubs true L r → j ∈ idsT true r := by
      intro s' j hj
      rcases List.mem_append.mp hj with h | h
      · exact top_sub_ids true r j (dupFrom_sub _ _ _ j h)
      · exact remSubs_sub true L r j h
    cases hp : phOf k x with
    | none =>
      simp only [idsT, hp, List.nil_append] at hnd hi
      simp only [cleanT, hp, idsT, topIds, remSubs, List.nil_append]
      exact ih sl sb hnd i hi
    | some li =>
      obtain ⟨l, j⟩ := li
      cases l with
      | false =>
        simp only [idsT, hp, Bool.false_eq_true, if_false, List.nil_append] at hnd hi
        simp only [cleanT, hp, topIds, remSubs, Bool.false_eq_true, if_false, List.nil_append]
        cases hg : B.get? j with
        | none => simp only [idsT, hp, Bool.false_eq_true, if_false, List.nil_append]; exact ih sl sb hnd i hi
        | some t =>
          simp only []
          split
          · exact ih _ _ hnd i hi
          · simp only [idsT, hp, Bool.false_eq_true, if_false, List.nil_append]; exact ih _ _ hnd i hi
      | true =>
        simp only [idsT, hp, if_true, List.singleton_append, List.nodup_cons] at hnd hi
        have hjr : ∀ s', j ∉ dupFrom L s' (topIds true r) ++ remSubs true L r := fun s' h => hnd.1 (hsubr s' j h)
        simp only [cleanT, hp, topIds, remSubs, if_true, List.singleton_append]
        cases hg : L.get? j with
        | none =>
          simp only [dupFrom, hg, idsT, hp, if_true, List.singleton_append, List.mem_cons]
          rcases List.mem_cons.mp hi with rfl | hir
          · exact ⟨fun _ => hjr sl, fun _ => Or.inl rfl⟩
          · have hne : i ≠ j := fun e => hnd.1 (e ▸ hir)
            have := ih sl sb hnd.2 i hir
            constructor
            · rintro (h | h)
              · exact absurd h hne
              · exact this.mp h
            · exact fun h => Or.inr (this.mpr h)
        | some t =>
          by_cases hc : sl.contains t = true
          · simp only [dupFrom, hg, hc, if_true, List.cons_append, List.mem_cons, not_or]
            rcases List.mem_cons.mp hi with rfl | hir
            · constructor
              · intro h
                exact absurd ((ids_cleanT_sublist L B true r sl sb).subset h) hnd.1
              · intro h; exact absurd rfl h.1
            · have hne : i ≠ j := fun e => hnd.1 (e ▸ hir)
              have := ih sl sb hnd.2 i hir
              exact ⟨fun h => ⟨hne, this.mp h⟩, fun h => this.mpr h.2⟩
          · have hc' : sl.contains t = false := by simpa using hc
            simp only [dupFrom, hg, hc', Bool.false_eq_true, if_false, idsT, hp, if_true, List.singleton_append,
              List.mem_cons]
            rcases List.mem_cons.mp hi with rfl | hir
            · exact ⟨fun _ => hjr _, fun _ => Or.inl rfl⟩
            · have hne : i ≠ j := fun e => hnd.1 (e ▸ hir)
              have := ih (sl ++ [t]) sb hnd.2 i hir
              constructor
              · rintro (h | h)
                · exact absurd h hne
                · exact this.mp h
              · exact fun h => Or.inr (this.mpr h)

theorem del_notMem {j : Nat} : ∀ {T : Tbl Str}, (T.map (·.1)).Nodup → ∀ e ∈ Tbl.del j T, e.1 ≠ j
  | [], _, e, he => by simp [Tbl.del] at he
  | (a, b) :: T, hnd, e, he => by
    simp only [List.map_cons, List.nodup_cons] at hnd
    simp only [Tbl.del] at he
    split at he
    · next hab =>
      subst hab
      intro e1
      exact hnd.1 (by rw [← e1]; exact List.mem_map_of_mem he)
    · next hab =>
      rcases List.mem_cons.mp he with rfl | he
      · exact hab
      · exact del_notMem hnd.2 e he

theorem delIds_notMem : ∀ (ids : List Nat) {T : Tbl Str}, (T.map (·.1)).Nodup → ∀ e ∈ delIds ids T, e.1 ∉ ids
  | [], _, _, _, _ => by simp
  | j :: ids, T, hnd, e, he => by
    simp only [delIds, List.foldl_cons] at he
    have hnd' : ((Tbl.del j T).map (·.1)).Nodup := ((del_sublist j T).map _).nodup hnd
    have h1 := delIds_notMem ids hnd' e he
    have h2 : e ∈ Tbl.del j T := (delIds_sublist ids _).subset he
    simp only [List.mem_cons, not_or]
    exact ⟨del_notMem hnd e h2, h1⟩

/-- the entries that are left find their comments in the tables that are left -/
theorem cov_cleanT {L B L' B' : Tbl Str} : ∀ (D : Entries) (sl sb : List Str), phCov L B D = true →
    (∀ i ∈ idsT true (cleanT L B sl sb D), L'.get? i = L.get? i) →
    (∀ i ∈ idsT false (cleanT L B sl sb D), B'.get? i = B.get? i) → phCov L' B' (cleanT L B sl sb D) = true
  | [], _, _, _, _, _ => by simp [cleanT, phCov]
  | (k, .dict es) :: r, sl, sb, hc, hL, hB => by
    simp only [phCov, Bool.and_eq_true] at hc
    simp only [cleanT, idsT, List.mem_append] at hL hB
    simp only [cleanT, phCov, Bool.and_eq_true]
    exact ⟨cov_cleanT es [] [] hc.1 (fun i h => hL i (Or.inl h)) (fun i h => hB i (Or.inl h)),
      cov_cleanT r sl sb hc.2 (fun i h => hL i (Or.inr h)) (fun i h => hB i (Or.inr h))⟩
  | (k, .list xs) :: r, sl, sb, hc, hL, hB => by
    simp only [phCov] at hc
    simp only [cleanT, idsT] at hL hB
    simp only [cleanT, phCov]
    exact cov_cleanT r sl sb hc hL hB
  | (k, .leaf x) :: r, sl, sb, hc, hL, hB => by
    simp only [phCov, Bool.and_eq_true] at hc
    cases hp : phOf k x with
    | none =>
      simp only [cleanT, hp, idsT, List.nil_append] at hL hB
      simp only [cleanT, hp, phCov, Bool.true_and]
      exact cov_cleanT r sl sb hc.2 hL hB
    | some li =>
      obtain ⟨l, i⟩ := li
      rw [hp] at hc
      cases l with
      | true =>
        obtain ⟨t, ht⟩ := Option.isSome_iff_exists.mp hc.1
        by_cases hcs : sl.contains t = true
        · simp only [cleanT, hp, ht, hcs, if_true] at hL hB ⊢
          exact cov_cleanT r sl sb hc.2 hL hB
        · have hcs' : sl.contains t = false := by simpa using hcs
          simp only [cleanT, hp, ht, hcs', Bool.false_eq_true, if_false] at hL hB ⊢
          simp only [idsT, hp, if_true, List.singleton_append, List.mem_cons, Bool.true_eq_false, if_false,
            List.nil_append] at hL hB
          simp only [phCov, hp, Bool.and_eq_true]
          refine ⟨?_, cov_cleanT r _ sb hc.2 (fun j h => hL j (Or.inr h)) hB⟩
          rw [hL i (Or.inl rfl), ht]; rfl
      | false =>
        obtain ⟨t, ht⟩ := Option.isSome_iff_exists.mp hc.1
        by_cases hcs : sb.contains t = true
        · simp only [cleanT, hp, ht, hcs, if_true] at hL hB ⊢
          exact cov_cleanT r sl sb hc.2 hL hB
        · have hcs' : sb.contains t = false := by simpa using hcs
          simp only [cleanT, hp, ht, hcs', Bool.false_eq_true, if_false] at hL hB ⊢
          simp only [idsT, hp, if_true, List.singleton_append, List.mem_cons, Bool.false_eq_true, if_false,
            List.nil_append] at hL hB
          simp only [phCov, hp, Bool.and_eq_true]
          refine ⟨?_, cov_cleanT r sl _ hc.2 hL (fun j h => hB j (Or.inr h))⟩
          rw [hB i (Or.inl rfl), ht]; rfl

/-- the block-comment ids of the raw output are the block-comment ids of the tree -/
theorem bIds_xtoks : ∀ (d lvl : Nat) (D : Entries), wshEs d D = true → bIds (xtoksEs lvl D) = idsT false D
  | _, _, [], _ => by simp [xtoksEs, idsT, bIds]
  | d, lvl, (k, .dict es) :: r, h => by
    simp only [wshEs, Bool.and_eq_true] at h
    simp only [xtoksEs, idsT]
    rw [show ∀ (a b : XTok) (m q z : List XTok), a :: b :: m ++ q ++ z = [a, b] ++ m ++ q ++ z from by intros; simp,
      bIds_append, bIds_append, bIds_append, bIds_xtoks (d + 1) (lvl + 1) es h.1.2, bIds_xtoks d lvl r h.2]
    simp only [bIds_tok, bIds_nil, List.nil_append, List.append_nil]
  | d, lvl, (k, .list xs) :: r, h => by
    simp only [wshEs, Bool.and_eq_true] at h
    simp only [xtoksEs, idsT]
    rw [show ∀ (a b : XTok) (m q z : List XTok), a :: (b :: m ++ q) ++ z = [a, b] ++ m ++ q ++ z from by intros; simp,
      bIds_append, bIds_append, bIds_append, bIds_toks, bIds_xtoks d lvl r h.2]
    simp only [bIds_tok, bIds_nil, List.nil_append]
  | d, lvl, (k, .leaf x) :: r, h => by
    simp only [wshEs, Bool.and_eq_true] at h
    have ih := bIds_xtoks d lvl r h.2
    cases hp : phOf k x with
    | none => simp only [xtoksEs, idsT, hp, List.cons_append, List.nil_append, bIds_tok, ih]
    | some li =>
      obtain ⟨l, i⟩ := li
      cases l with
      | true => simp only [xtoksEs, idsT, hp, List.singleton_append, bIds_phT, ih, Bool.true_eq_false, if_false,
          List.nil_append]
      | false => simp only [xtoksEs, idsT, hp, List.singleton_append, bIds_phF, ih, if_true]

/-- the first block-comment entry of a level survives `_clean` (nothing was seen before it) -/
theorem first_block_kept (L B : Tbl Str) (d : Nat) {n : Nat} : ∀ (D : Entries) (sl : List Str) (rest : Entries),
    wshEs d D = true → D.filter isBE = phEntry false n :: rest →
    ∃ rest', (cleanT L B sl [] D).filter isBE = phEntry false n :: rest'
  | [], _, _, _, h => by simp at h
  | (k, .dict es) :: r, sl, rest, hw, h => by
    simp only [wshEs, Bool.and_eq_true] at hw
    have hb : isBE (k, Val.dict es) = false := (sel_dom hw.1.1).1
    have hb' : isBE (k, Val.dict (cleanT L B [] [] es)) = false := (sel_dom hw.1.1).1
    simp only [List.filter_cons, hb, Bool.false_eq_true, if_false] at h
    obtain ⟨rest', h'⟩ := first_block_kept L B d r sl rest hw.2 h
    exact ⟨rest', by simp only [cleanT, List.filter_cons, hb', Bool.false_eq_true, if_false, h']⟩
  | (k, .list xs) :: r, sl, rest, hw, h => by
    simp only [wshEs, Bool.and_eq_true] at hw
    have hb : isBE (k, Val.list xs) = false := (sel_dom hw.1.1).1
    simp only [List.filter_cons, hb, Bool.false_eq_true, if_false] at h
    obtain ⟨rest', h'⟩ := first_block_kept L B d r sl rest hw.2 h
    exact ⟨rest', by simp only [cleanT, List.filter_cons, hb, Bool.false_eq_true, if_false, h']⟩
  | (k, .leaf x) :: r, sl, rest, hw, h => by
    simp only [wshEs, Bool.and_eq_true, Bool.or_eq_true, decide_eq_true_eq] at hw
    cases hp : phOf k x with
    | none =>
      rw [hp] at hw
      rcases hw.1 with h1 | h1
      · cases h1
      · have hb : isBE (k, Val.leaf x) = false := (sel_dom h1.1.1).1
        simp only [List.filter_cons, hb, Bool.false_eq_true, if_false] at h
        obtain ⟨rest', h'⟩ := first_block_kept L B d r sl rest hw.2 h
        exact ⟨rest', by simp only [cleanT, hp, List.filter_cons, hb, Bool.false_eq_true, if_false, h']⟩
    | some li =>
      obtain ⟨l, i⟩ := li
      obtain ⟨rfl, rfl, hi⟩ := phOf_some hp
      cases l with
      | true =>
        have hb : isBE (Key.str (phWord true i), Val.leaf (.str (phWord true i))) = false := (sel_line hi).1
        simp only [List.filter_cons, hb, Bool.false_eq_true, if_false] at h
        simp only [cleanT, hp]
        cases hg : L.get? i with
        | none =>
          obtain ⟨rest', h'⟩ := first_block_kept L B d r sl rest hw.2 h
          exact ⟨rest', by simp only [List.filter_cons, hb, Bool.false_eq_true, if_false, h']⟩
        | some t =>
          simp only []
          split
          · exact first_block_kept L B d r sl rest hw.2 h
          · obtain ⟨rest', h'⟩ := first_block_kept L B d r (sl ++ [t]) rest hw.2 h
            exact ⟨rest', by simp only [List.filter_cons, hb, Bool.false_eq_true, if_false, h']⟩
      | false =>
        have hb : isBE (Key.str (phWord false i), Val.leaf (.str (phWord false i))) = true := (sel_block hi).1
        simp only [List.filter_cons, hb, if_true, List.cons.injEq] at h
        simp only [cleanT, hp]
        cases hg : B.get? i with
        | none =>
          refine ⟨(cleanT L B sl [] r).filter isBE, ?_⟩
          rw [List.filter_cons, hb, if_pos rfl, h.1]
        | some t =>
          simp only [List.contains_nil, Bool.false_eq_true, if_false]
          refine ⟨(cleanT L B sl ([] ++ [t]) r).filter isBE, ?_⟩
          rw [List.filter_cons, hb, if_pos rfl, h.1]

/-! ### the document without the repeated comments -/

mutual
  def dedupV : CSrc → CSrc
    | .dict items => .dict (dedupLvl [] [] items)
    | .lit l => .lit l
    | .list xs => .list xs
  /-- drop, at every level, a line (block) comment whose text equals that of an earlier line (block) comment of the
      level -/
  def dedupLvl : List Str → List Str → List CItem → List CItem
    | _, _, [] => []
    | sl, sb, .entry k v :: r => .entry k (dedupV v) :: dedupLvl sl sb r
    | sl, sb, .lineC x :: r => if sl.contains x then dedupLvl sl sb r else .lineC x :: dedupLvl (sl ++ [x]) sb r
    | sl, sb, .blockC x :: r => if sb.contains x then dedupLvl sl sb r else .blockC x :: dedupLvl sl (sb ++ [x]) r
end

def dedupI (items : List CItem) : List CItem := dedupLvl [] [] items

def lineFull (x : Str) : Str := '/' :: '/' :: x
def blockFull (x : Str) : Str := '/' :: '*' :: x ++ ['*', '/']

theorem lineFull_inj {a b : Str} (h : lineFull a = lineFull b) : a = b := by simpa [lineFull] using h
theorem blockFull_inj {a b : Str} (h : blockFull a = blockFull b) : a = b := by
  simp only [blockFull, List.cons_append, List.cons.injEq, true_and] at h
  exact List.append_cancel_right h

theorem contains_map_inj {f : Str → Str} (hf : ∀ a b, f a = f b → a = b) (l : List Str) (x : Str) :
    (l.map f).contains (f x) = l.contains x := by
  rw [Bool.eq_iff_iff]
  simp only [List.contains_iff_mem, List.mem_map]
  constructor
  · rintro ⟨a, ha, e⟩; rw [← hf a x e]; exact ha
  · exact fun h => ⟨x, h, rfl⟩

/-- **the document written for the cleaned tree is the document written for the tree, without the repeated comments** -/
theorem doc_cleanT {L B L' B' : Tbl Str} : ∀ (D : Entries) (sl sb : List Str), phCov L B D = true →
    (∀ i ∈ idsT true D, ∀ t, L.get? i = some t → ∃ x, t = lineFull x) →
    (∀ i ∈ idsT false D, ∀ t, B.get? i = some t → ∃ x, t = blockFull x) →
    (∀ i ∈ idsT true (cleanT L B (sl.map lineFull) (sb.map blockFull) D), L'.get? i = L.get? i) →
    (∀ i ∈ idsT false (cleanT L B (sl.map lineFull) (sb.map blockFull) D), B'.get? i = B.get? i) →
    docEs L' B' (cleanT L B (sl.map lineFull) (sb.map blockFull) D) = dedupLvl sl sb (docEs L B D)
  | [], _, _, _, _, _, _, _ => by simp [cleanT, docEs, dedupLvl]
  | (k, .dict es) :: r, sl, sb, hc, hsL, hsB, hL, hB => by
    simp only [phCov, Bool.and_eq_true] at hc
    simp only [idsT, List.mem_append] at hsL hsB
    simp only [cleanT, idsT, List.mem_append] at hL hB
    have ihe := doc_cleanT es [] [] hc.1 (fun i h => hsL i (Or.inl h)) (fun i h => hsB i (Or.inl h))
      (fun i h => hL i (Or.inl h)) (fun i h => hB i (Or.inl h))
    have ihr := doc_cleanT r sl sb hc.2 (fun i h => hsL i (Or.inr h)) (fun i h => hsB i (Or.inr h))
      (fun i h => hL i (Or.inr h)) (fun i h => hB i (Or.inr h))
    simp only [List.map_nil] at ihe
    simp only [cleanT, docEs, dedupLvl, dedupV, ihe, ihr]
  | (k, .list xs) :: r, sl, sb, hc, hsL, hsB, hL, hB => by
    simp only [phCov] at hc
    simp only [idsT] at hsL hsB
    simp only [cleanT, idsT] at hL hB
    simp only [cleanT, docEs, dedupLvl, dedupV, doc_cleanT r sl sb hc hsL hsB hL hB]
  | (k, .leaf x) :: r, sl, sb, hc, hsL, hsB, hL, hB => by
    simp only [phCov, Bool.and_eq_true] at hc
    cases hp : phOf k x with
    | none =>
      simp only [idsT, hp, List.nil_append] at hsL hsB
      simp only [cleanT, hp, idsT, List.nil_append] at hL hB
      simp only [cleanT, hp, docEs, dedupLvl, dedupV, doc_cleanT r sl sb hc.2 hsL hsB hL hB]
    | some li =>
      obtain ⟨l, i⟩ := li
      rw [hp] at hc
      cases l with
      | true =>
        obtain ⟨t, ht⟩ := Option.isSome_iff_exists.mp hc.1
        simp only [idsT, hp, if_true, List.singleton_append, List.mem_cons, Bool.true_eq_false, if_false,
          List.nil_append] at hsL hsB
        obtain ⟨y, rfl⟩ := hsL i (Or.inl rfl) t ht
        have hcm := contains_map_inj (fun a b => lineFull_inj) sl y
        by_cases hcs : sl.contains y = true
        · simp only [cleanT, hp, ht, hcm, hcs, if_true] at hL hB ⊢
          simp only [docEs, hp, ht, Option.getD_some, lineFull, lineBody_eq, dedupLvl, hcs, if_true]
          exact doc_cleanT r sl sb hc.2 (fun j h => hsL j (Or.inr h)) hsB hL hB
        · have hcs' : sl.contains y = false := by simpa using hcs
          simp only [cleanT, hp, ht, hcm, hcs', Bool.false_eq_true, if_false] at hL hB ⊢
          simp only [idsT, hp, if_true, List.singleton_append, List.mem_cons, Bool.true_eq_false, if_false,
            List.nil_append] at hL hB
          have e : sl.map lineFull ++ [lineFull y] = (sl ++ [y]).map lineFull := by simp
          rw [e] at hL hB ⊢
          have ih := doc_cleanT r (sl ++ [y]) sb hc.2 (fun j h => hsL j (Or.inr h)) hsB (fun j h => hL j (Or.inr h)) hB
          simp only [docEs, hp, hL i (Or.inl rfl), ht, Option.getD_some, lineFull, lineBody_eq, dedupLvl, hcs',
            Bool.false_eq_true, if_false, ih]
      | false =>
        obtain ⟨t, ht⟩ := Option.isSome_iff_exists.mp hc.1
        simp only [idsT, hp, if_true, List.singleton_append, List.mem_cons, Bool.false_eq_true, if_false,
          List.nil_append] at hsL hsB
        obtain ⟨y, rfl⟩ := hsB i (Or.inl rfl) t ht
        have hcm := contains_map_inj (fun a b => blockFull_inj) sb y
        by_cases hcs : sb.contains y = true
        · simp only [cleanT, hp, ht, hcm, hcs, if_true] at hL hB ⊢
          simp only [docEs, hp, ht, Option.getD_some, blockFull, blockBody_eq, dedupLvl, hcs, if_true]
          exact doc_cleanT r sl sb hc.2 hsL (fun j h => hsB j (Or.inr h)) hL hB
        · have hcs' : sb.contains y = false := by simpa using hcs
          simp only [cleanT, hp, ht, hcm, hcs', Bool.false_eq_true, if_false] at hL hB ⊢
          simp only [idsT, hp, if_true, List.singleton_append, List.mem_cons, Bool.false_eq_true, if_false,
            List.nil_append] at hL hB
          have e : sb.map blockFull ++ [blockFull y] = (sb ++ [y]).map blockFull := by simp
          rw [e] at hL hB ⊢
          have ih := doc_cleanT r sl (sb ++ [y]) hc.2 hsL (fun j h => hsB j (Or.inr h)) hL (fun j h => hB j (Or.inr h))
          simp only [docEs, hp, hB i (Or.inl rfl), ht, Option.getD_some, blockFull, blockBody_eq, dedupLvl, hcs',
            Bool.false_eq_true, if_false, ih]

/-! ## 24. `denC c items` when comments may repeat -/

mutual
  def klvV : CSrc → Bool
    | .dict items => decide (levelKeys items).Nodup && klvI items
    | _ => true
  /-- the typed keys of every level below are pairwise distinct -/
  def klvI : List CItem → Bool
    | [] => true
    | .entry _ v :: r => klvV v && klvI r
    | .lineC _ :: r => klvI r
    | .blockC _ :: r => klvI r
end

mutual
  theorem allK_treeV : ∀ (v : CSrc) (l1 ext : List Nat) (n d : Nat),
      l1.length = (lineFullsV v).length → l1.Nodup → (∀ i ∈ l1, i ≤ 999999) → n + (blockFullsV v).length ≤ 1000000 →
      okV d v = true → klvV v = true →
      (match v with
       | .dict items => KNodup (dTreeI (l1 ++ ext) n items) ∧ allLevels KNodup (dTreeI (l1 ++ ext) n items)
       | _ => True)
    | .lit l, _, _, _, _, _, _, _, _, _, _ => trivial
    | .list xs, _, _, _, _, _, _, _, _, _, _ => trivial
    | .dict items, l1, ext, n, d, hl, hnd, hi, hn, hok, hlv => by
      simp only [lineFullsV, blockFullsV, okV, klvV, Bool.and_eq_true, decide_eq_true_eq] at hl hn hok hlv
      exact ⟨knodup_tree items l1 ext n (d + 1) hl hnd hi hn hok hlv.1,
        allK_treeI items l1 ext n (d + 1) hl hnd hi hn hok hlv.2⟩
  /-- the keys of every level below are pairwise distinct -/
  theorem allK_treeI : ∀ (items : List CItem) (l1 ext : List Nat) (n d : Nat),
      l1.length = (lineFullsI items).length → l1.Nodup → (∀ i ∈ l1, i ≤ 999999) →
      n + (blockFullsI items).length ≤ 1000000 → okI d items = true → klvI items = true →
      allLevels KNodup (dTreeI (l1 ++ ext) n items)
    | [], _, _, _, _, _, _, _, _, _, _ => by simp only [dTreeI, allLevels]
    | .entry k v :: r, l1, ext, n, d, hl, hnd, hi, hn, hok, hlv => by
      simp only [lineFullsI, blockFullsI, List.length_append, okI, klvI, Bool.and_eq_true] at hl hn hok hlv
      obtain ⟨la, lb, rfl, hla⟩ : ∃ la lb, l1 = la ++ lb ∧ la.length = (lineFullsV v).length :=
        ⟨l1.take (lineFullsV v).length, l1.drop (lineFullsV v).length, (List.take_append_drop _ _).symm,
          by rw [List.length_take]; omega⟩
      have hlb : lb.length = (lineFullsI r).length := by simp only [List.length_append] at hl; omega
      have hdrop : (la ++ lb ++ ext).drop (lineFullsV v).length = lb ++ ext := by
        rw [List.append_assoc, List.drop_left' hla]
      have hnd' := List.nodup_append.mp hnd
      have ihr := allK_treeI r lb ext (n + (blockFullsV v).length) d hlb hnd'.2.1
        (fun i h => hi i (List.mem_append_right _ h)) (by omega) hok.2 hlv.2
      have ihv := allK_treeV v la (lb ++ ext) n d hla hnd'.1 (fun i h => hi i (List.mem_append_left _ h))
        (by omega) hok.1.2 hlv.1
      simp only [dTreeI, hdrop]
      cases v with
      | lit l => simpa only [dTreeV, allLevels] using ihr
      | list xs => simpa only [dTreeV, allLevels] using ihr
      | dict items =>
        simp only [List.append_assoc] at ihv ⊢
        simp only [dTreeV, allLevels]
        exact ⟨ihv, ihr⟩
    | .lineC x :: r, l1, ext, n, d, hl, hnd, hi, hn, hok, hlv => by
      simp only [lineFullsI, blockFullsI, List.length_cons, okI, klvI, Bool.and_eq_true] at hl hn hok hlv
      cases l1 with
      | nil => simp at hl
      | cons i l1 =>
        simp only [List.length_cons, Nat.add_right_cancel_iff] at hl
        simp only [List.nodup_cons] at hnd
        have ihr := allK_treeI r l1 ext n d hl hnd.2 (fun j h => hi j (List.mem_cons_of_mem _ h)) hn hok.2 hlv
        simpa only [List.cons_append, dTreeI, List.headD_cons, List.tail_cons, phEntry, allLevels] using ihr
    | .blockC x :: r, l1, ext, n, d, hl, hnd, hi, hn, hok, hlv => by
      simp only [lineFullsI, blockFullsI, List.length_cons, okI, klvI, Bool.and_eq_true] at hl hn hok hlv
      have ihr := allK_treeI r l1 ext (n + 1) d hl hnd hi (by omega) hok.2 hlv
      simpa only [dTreeI, phEntry, allLevels] using ihr
end

/-- the hypotheses on the document, comments may repeat -/
structure HDoc2 (c : Counter) (items : List CItem) : Prop where
  wf : CSrcWFItems 1 items = true
  ok : okI 1 items = true
  keys : (levelKeys items).Nodup
  keysAll : klvI items = true
  nLine : (lineFullsI items).length ≤ Gen.counterLimit + 1
  nBlock : (blockFullsI items).length ≤ 1000000
  hc : C13.ValidCounter Gen.counterLimit c

/-- the ids `_clean` removes for the document -/
def remB (c : Counter) (items : List CItem) : List Nat := remT false (blockTblOf items) (treeOf c items)
def remL (c : Counter) (items : List CItem) : List Nat := remT true (lineTbl c items) (treeOf c items)

/-- the SDict the reader returns for the document when comments may repeat -/
def sdOf2 (c : Counter) (items : List CItem) : SD :=
  { data := cleanT (lineTbl c items) (blockTblOf items) [] [] (treeOf c items),
    lineC := delIds (remL c items) (lineTbl c items), blockC := delIds (remB c items) (blockTblOf items) }

section
variable {c : Counter} {items : List CItem} (H : HDoc2 c items)
include H

theorem tree_facts2 : (lineIds c items).length = (lineFullsI items).length ∧ (lineIds c items).Nodup ∧
    (∀ i ∈ lineIds c items, i ≤ 999999) ∧ treeOf c items = dTreeI (lineIds c items ++ []) 0 items ∧
    wshEs 1 (treeOf c items) = true ∧ KNodup (treeOf c items) ∧ allLevels KNodup (treeOf c items) ∧
    idsT false (treeOf c items) = List.range' 0 (blockFullsI items).length ∧ idsT true (treeOf c items) = lineIds c items := by
  have h1 : (lineIds c items).length = (lineFullsI items).length := C13.alloc_length _ _ _
  have h2 : (lineIds c items).Nodup := C13.alloc_nodup H.nLine H.hc
  have h3 : ∀ i ∈ lineIds c items, i ≤ 999999 := C13.alloc_le H.hc _
  have hnb : 0 + (blockFullsI items).length ≤ 1000000 := by have := H.nBlock; omega
  have eD : treeOf c items = dTreeI (lineIds c items ++ []) 0 items := by rw [List.append_nil]; rfl
  have hids := idsT_treeI items (lineIds c items) [] 0 1 h1 h3 hnb H.ok
  refine ⟨h1, h2, h3, eD, ?_, ?_, ?_, ?_, ?_⟩
  · rw [eD]; exact wsh_treeI items _ [] 0 1 h1 h3 hnb H.ok
  · rw [eD]; exact knodup_tree items _ [] 0 1 h1 h2 h3 hnb H.ok H.keys
  · rw [eD]; exact allK_treeI items _ [] 0 1 h1 h2 h3 hnb H.ok H.keysAll
  · rw [eD]; exact hids.1
  · rw [eD]; exact hids.2

/-- **`denC` in closed form, comments may repeat** -/
theorem denC_closed2 : denC c items = sdOf2 c items := by
  obtain ⟨h1, h2, h3, eD, hw, hk, hal, hib, hil⟩ := tree_facts2 H
  have hst := label_stateI items { counter := c }
  have hL : (labelCItems { counter := c } items).1.lineC = lineTbl c items := by
    rw [hst]
    simp only [stAfter]
    rw [C02.setAll_nodup _ _ (by
      simp only [List.map_nil, List.nil_append]
      have : (lineTbl c items).map (·.1) = lineIds c items := List.map_fst_zip (by rw [h1]; exact Nat.le_refl _)
      exact this ▸ h2)]
    rfl
  have hB : (labelCItems { counter := c } items).1.blockC = blockTblOf items := by
    rw [hst]
    simp [stAfter, blockTblOf]
  have hD : denPEs (labelCItems { counter := c } items).2 [] = treeOf c items := by
    have e : treeOf c items = dTreeI (alloc Gen.counterLimit (lineFullsI items).length c ++ []) 0 items := eD
    have := den_treeI items { counter := c } [] 1 [] H.wf
      (by
        show KNodup (dTreeI (alloc Gen.counterLimit (lineFullsI items).length c ++ []) 0 items)
        rw [← e]; exact hk)
      (by
        show allLevels KNodup (dTreeI (alloc Gen.counterLimit (lineFullsI items).length c ++ []) 0 items)
        rw [← e]; exact hal)
      (by intro k _ h; cases h)
    rw [this]
    show [] ++ dTreeI (alloc Gen.counterLimit (lineFullsI items).length c ++ []) 0 items = treeOf c items
    rw [← e]; rfl
  have : denC c items = (SD.mk (denPEs (labelCItems { counter := c } items).2 []) []
      (labelCItems { counter := c } items).1.lineC (labelCItems { counter := c } items).1.blockC []).clean := rfl
  rw [this, hL, hB, hD]
  have hcr := cleanRec_gen (depthV (.dict (treeOf c items)) + 1) (SD.mk (treeOf c items) [] (lineTbl c items) (blockTblOf items) [])
    (treeOf c items) 1 (by simp only [depthV]; omega) hw hk hal (by rw [hib]; exact List.nodup_range') (by rw [hil]; exact h2)
  simp only [SD.clean, hcr]
  rfl

end

mutual
  theorem dedup_cnormV : ∀ (v : CSrc), dedupV (cnormV v) = cnormV (dedupV v)
    | .lit l => by simp only [cnormV, dedupV]
    | .list xs => by simp only [cnormV, dedupV]
    | .dict items => by simp only [cnormV, dedupV, dedup_cnormI items [] []]
  /-- the writer's spelling and the removal of repeated comments commute -/
  theorem dedup_cnormI : ∀ (items : List CItem) (sl sb : List Str),
      dedupLvl sl sb (cnormI items) = cnormI (dedupLvl sl sb items)
    | [], _, _ => by simp only [cnormI, dedupLvl]
    | .entry k v :: r, sl, sb => by simp only [cnormI, dedupLvl, dedup_cnormV v, dedup_cnormI r sl sb]
    | .lineC x :: r, sl, sb => by
      simp only [cnormI, dedupLvl]
      split
      · exact dedup_cnormI r sl sb
      · simp only [cnormI, dedup_cnormI r _ sb]
    | .blockC x :: r, sl, sb => by
      simp only [cnormI, dedupLvl]
      split
      · exact dedup_cnormI r sl sb
      · simp only [cnormI, dedup_cnormI r sl _]
end


/-! ### the block comments that are left, in terms of the items -/

theorem del_filter {j : Nat} : ∀ {T : Tbl Str}, (T.map (·.1)).Nodup → Tbl.del j T = T.filter fun e => e.1 ≠ j
  | [], _ => rfl
  | (a, b) :: T, h => by
    simp only [List.map_cons, List.nodup_cons] at h
    simp only [Tbl.del, List.filter_cons]
    by_cases e : a = j
    · subst e
      simp only [if_true, ne_eq, not_true_eq_false, decide_false, Bool.false_eq_true, if_false]
      symm
      apply List.filter_eq_self.mpr
      intro e' he'
      simp only [ne_eq, decide_eq_true_eq]
      intro e2
      exact h.1 (by rw [← e2]; exact List.mem_map_of_mem he')
    · simp only [e, if_false, ne_eq, not_false_eq_true, decide_true, if_true]
      rw [del_filter h.2]

theorem delIds_filter : ∀ (ids : List Nat) {T : Tbl Str}, (T.map (·.1)).Nodup →
    delIds ids T = T.filter fun e => e.1 ∉ ids
  | [], T, _ => by
    simp only [delIds, List.foldl_nil, List.not_mem_nil, not_false_eq_true, decide_true]
    exact (List.filter_eq_self.mpr fun _ _ => rfl).symm
  | j :: ids, T, h => by
    simp only [delIds, List.foldl_cons]
    have hnd' : ((Tbl.del j T).map (·.1)).Nodup := ((del_sublist j T).map _).nodup h
    have := delIds_filter ids hnd'
    simp only [delIds] at this
    rw [this, del_filter h, List.filter_filter]
    apply List.filter_congr
    intro e _
    simp only [List.mem_cons, not_or, ne_eq, Bool.decide_and]
    simp [Bool.and_comm]

/-- a sublist of a list without repetitions is determined by its members -/
theorem sublist_eq_filter {α} [DecidableEq α] (p : α → Bool) : ∀ {X Y : List α}, Y.Sublist X → X.Nodup →
    (∀ x ∈ X, (x ∈ Y ↔ p x = true)) → Y = X.filter p
  | [], Y, hs, _, _ => by simp [List.sublist_nil.mp hs]
  | x :: X, Y, hs, hnd, h => by
    simp only [List.nodup_cons] at hnd
    cases hs with
    | cons _ hs' =>
      -- `x` is not in `Y`
      have hx : x ∉ Y := fun hm => hnd.1 (hs'.subset hm)
      have hpx : p x = false := by
        cases hp : p x with
        | false => rfl
        | true => exact absurd ((h x List.mem_cons_self).mpr hp) hx
      simp only [List.filter_cons, hpx, Bool.false_eq_true, if_false]
      exact sublist_eq_filter p hs' hnd.2 fun y hy => h y (List.mem_cons_of_mem _ hy)
    | cons_cons _ hs' =>
      rename_i Y'
      have hpx : p x = true := (h x List.mem_cons_self).mp List.mem_cons_self
      simp only [List.filter_cons, hpx, if_true, List.cons.injEq, true_and]
      apply sublist_eq_filter p hs' hnd.2
      intro y hy
      have hne : y ≠ x := fun e => hnd.1 (e ▸ hy)
      have := h y (List.mem_cons_of_mem _ hy)
      simp only [List.mem_cons, hne, false_or] at this
      exact this

mutual
  theorem blockFulls_cnormV : ∀ (v : CSrc), blockFullsV (cnormV v) = blockFullsV v
    | .lit l => by simp only [cnormV, blockFullsV]
    | .list xs => by simp only [cnormV, blockFullsV]
    | .dict items => by simp only [cnormV, blockFullsV, blockFulls_cnormI items]
  theorem blockFulls_cnormI : ∀ (items : List CItem), blockFullsI (cnormI items) = blockFullsI items
    | [] => by simp only [cnormI]
    | .entry k v :: r => by simp only [cnormI, blockFullsI, blockFulls_cnormV v, blockFulls_cnormI r]
    | .lineC x :: r => by simp only [cnormI, blockFullsI, blockFulls_cnormI r]
    | .blockC x :: r => by simp only [cnormI, blockFullsI, blockFulls_cnormI r]
end

/-- the block comments of the written document, in document order, are the table texts of the block ids of the tree -/
theorem blockFulls_doc (L B : Tbl Str) : ∀ (D : Entries), phCov L B D = true →
    (∀ i ∈ idsT false D, ∀ t, B.get? i = some t → ∃ x, t = blockFull x) →
    blockFullsI (docEs L B D) = (idsT false D).map fun i => (B.get? i).getD []
  | [], _, _ => by simp [docEs, blockFullsI, idsT]
  | (k, .dict es) :: r, hc, hs => by
    simp only [phCov, Bool.and_eq_true] at hc
    simp only [idsT, List.mem_append] at hs
    simp only [docEs, blockFullsI, blockFullsV, idsT, List.map_append,
      blockFulls_doc L B es hc.1 (fun i h => hs i (Or.inl h)), blockFulls_doc L B r hc.2 (fun i h => hs i (Or.inr h))]
  | (k, .list xs) :: r, hc, hs => by
    simp only [phCov] at hc
    simp only [idsT] at hs
    simp only [docEs, blockFullsI, blockFullsV, idsT, List.nil_append, blockFulls_doc L B r hc hs]
  | (k, .leaf x) :: r, hc, hs => by
    simp only [phCov, Bool.and_eq_true] at hc
    cases hp : phOf k x with
    | none =>
      simp only [idsT, hp, List.nil_append] at hs
      simp only [docEs, hp, blockFullsI, blockFullsV, idsT, List.nil_append, blockFulls_doc L B r hc.2 hs]
    | some li =>
      obtain ⟨l, i⟩ := li
      rw [hp] at hc
      cases l with
      | true =>
        simp only [idsT, hp, Bool.true_eq_false, if_false, List.nil_append] at hs
        simp only [docEs, hp, blockFullsI, idsT, Bool.true_eq_false, if_false, List.nil_append,
          blockFulls_doc L B r hc.2 hs]
      | false =>
        simp only [idsT, hp, if_true, List.singleton_append, List.mem_cons] at hs
        obtain ⟨t, ht⟩ := Option.isSome_iff_exists.mp hc.1
        obtain ⟨y, rfl⟩ := hs i (Or.inl rfl) t ht
        simp only [docEs, hp, blockFullsI, idsT, if_true, List.singleton_append, List.map_cons, ht, Option.getD_some,
          blockFull, blockBody_eq, blockFulls_doc L B r hc.2 (fun j h => hs j (Or.inr h))]

theorem map_snd_get {T : Tbl Str} (h : (T.map (·.1)).Nodup) :
    T.map (·.2) = (T.map (·.1)).map fun i => (T.get? i).getD [] := by
  rw [List.map_map]
  apply List.map_congr_left
  intro e he
  simp only [Function.comp, tbl_get_nodup h he, Option.getD_some]

/-- **the block comments `_clean` leaves in the table are the block comments of the document without repetitions** -/
theorem kept_blocks {c : Counter} {items : List CItem} (H : HDoc2 c items) :
    (delIds (remB c items) (blockTblOf items)).map (·.2) = blockFullsI (dedupI items) := by
  obtain ⟨h1, h2, h3, eD, hw, hk, hal, hib, hil⟩ := tree_facts2 H
  have hnb : 0 + (blockFullsI items).length ≤ 1000000 := by have := H.nBlock; omega
  have hLids : (lineTbl c items).map (·.1) = lineIds c items := List.map_fst_zip (by rw [h1]; exact Nat.le_refl _)
  have hBids : (blockTblOf items).map (·.1) = List.range' 0 (blockFullsI items).length := List.map_fst_zip (by simp)
  have hlkL : LkL (lineTbl c items) (lineIds c items) (lineFullsI items) :=
    fun p hp => tbl_get_nodup (by rw [hLids]; exact h2) hp
  have hlkB : LkB (blockTblOf items) 0 (blockFullsI items) :=
    fun p hp => tbl_get_nodup (by rw [hBids]; exact List.nodup_range') hp
  have hdoc := doc_treeI (lineTbl c items) (blockTblOf items) items _ [] 0 1 h1 h3 hnb H.ok hlkL hlkB
  rw [← eD] at hdoc
  obtain ⟨fl, fb⟩ := fulls_okI items 1 1 H.wf H.ok
  have hLT : ∀ e ∈ lineTbl c items, ∃ x, e.2 = lineFull x := by
    intro e he
    obtain ⟨_, hb⟩ := List.of_mem_zip (show (e.1, e.2) ∈ (lineIds c items).zip (lineFullsI items) from he)
    obtain ⟨x, hx, _⟩ := fl _ hb
    exact ⟨x, hx⟩
  have hBT : ∀ e ∈ blockTblOf items, ∃ x, e.2 = blockFull x := by
    intro e he
    obtain ⟨_, hb⟩ := List.of_mem_zip (show (e.1, e.2) ∈ (List.range' 0 (blockFullsI items).length).zip (blockFullsI items) from he)
    obtain ⟨x, hx, _⟩ := fb _ hb
    exact ⟨x, hx⟩
  have hndb : (idsT false (treeOf c items)).Nodup := by rw [hib]; exact List.nodup_range'
  have hndl : (idsT true (treeOf c items)).Nodup := by rw [hil]; exact h2
  have hkeepB : ∀ i ∈ idsT false (cleanT (lineTbl c items) (blockTblOf items) [] [] (treeOf c items)),
      (delIds (remB c items) (blockTblOf items)).get? i = (blockTblOf items).get? i := by
    intro i hi
    have hi' := (ids_cleanT_sublist _ _ false _ [] []).subset hi
    exact get_delIds _ _ ((part_block _ _ _ [] [] hndb i hi').mp hi)
  have hkeepL : ∀ i ∈ idsT true (cleanT (lineTbl c items) (blockTblOf items) [] [] (treeOf c items)),
      (delIds (remL c items) (lineTbl c items)).get? i = (lineTbl c items).get? i := by
    intro i hi
    have hi' := (ids_cleanT_sublist _ _ true _ [] []).subset hi
    exact get_delIds _ _ ((part_line _ _ _ [] [] hndl i hi').mp hi)
  have hcov' := cov_cleanT (treeOf c items) [] [] hdoc.1 hkeepL hkeepB
  have hdc := doc_cleanT (L' := delIds (remL c items) (lineTbl c items)) (B' := delIds (remB c items) (blockTblOf items))
    (treeOf c items) [] [] hdoc.1
    (fun i _ t ht => hLT _ (tbl_get_mem ht)) (fun i _ t ht => hBT _ (tbl_get_mem ht)) hkeepL hkeepB
  simp only [List.map_nil] at hdc
  -- the ids left in the table are the ids left in the tree, in the same order
  have hBnd : ((blockTblOf items).map (·.1)).Nodup := by rw [hBids]; exact List.nodup_range'
  have hB'nd : ((delIds (remB c items) (blockTblOf items)).map (·.1)).Nodup := ((delIds_sublist _ _).map _).nodup hBnd
  have hids' : (delIds (remB c items) (blockTblOf items)).map (·.1) =
      idsT false (cleanT (lineTbl c items) (blockTblOf items) [] [] (treeOf c items)) := by
    rw [delIds_filter _ hBnd]
    have e1 : ((blockTblOf items).filter fun e => e.1 ∉ remB c items).map (·.1) =
        ((blockTblOf items).map (·.1)).filter fun i => i ∉ remB c items := by
      rw [List.filter_map]; rfl
    rw [e1, hBids, ← hib]
    exact (sublist_eq_filter (fun i => decide (i ∉ remB c items)) (ids_cleanT_sublist _ _ false _ [] []) hndb
      (fun i hi => by
        rw [part_block _ _ _ [] [] hndb i hi]
        simp [remB, remT, topDup])).symm
  rw [map_snd_get hB'nd, hids',
    ← blockFulls_doc (delIds (remL c items) (lineTbl c items)) (delIds (remB c items) (blockTblOf items)) _ hcov'
      (by
        intro i hi t ht
        rw [hkeepB i hi] at ht
        exact hBT _ (tbl_get_mem ht)),
    hdc, hdoc.2, dedup_cnormI, blockFulls_cnormI]
  rfl

theorem delIds_nil (ids : List Nat) : delIds ids ([] : Tbl Str) = [] := by
  induction ids with
  | nil => rfl
  | cons j ids ih => simpa [delIds, Tbl.del] using ih

theorem delIds_cons_notMem {j : Nat} (t : Str) (T : Tbl Str) : ∀ (ids : List Nat), j ∉ ids →
    delIds ids ((j, t) :: T) = (j, t) :: delIds ids T
  | [], _ => rfl
  | i :: ids, h => by
    simp only [List.mem_cons, not_or] at h
    have hne : ¬ j = i := h.1
    simp only [delIds, List.foldl_cons, Tbl.del, hne, if_false]
    exact delIds_cons_notMem t (Tbl.del i T) ids h.2

/-- the hypotheses of the writer side of the round trip, comments may repeat -/
structure HW2 (c : Counter) (items : List CItem) : Prop extends HDoc2 c items where
  first : firstBlockTop items = true
  indep : indepFrom [] (writtenBlocks (dedupI items)) = true

/-- the document that is written when comments may repeat: the repeated comments of every level dropped first -/
def writtenDoc2 (items : List CItem) : List CItem :=
  (if ownHeaderI items then [] else [.blockC C12.hdrBody]) ++ canonItems (dedupI items)

section
variable {c : Counter} {items : List CItem} (H : HW2 c items)
include H

theorem sdOf2_facts :
    WOK (sdOf2 c items) ∧ docSD (sdOf2 c items) = writtenDoc2 items := by
  have HD := H.toHDoc2
  obtain ⟨h1, h2, h3, eD, hw, hk, hal, hib, hil⟩ := tree_facts2 HD
  have hnb : 0 + (blockFullsI items).length ≤ 1000000 := by have := H.nBlock; omega
  have hLids : (lineTbl c items).map (·.1) = lineIds c items := List.map_fst_zip (by rw [h1]; exact Nat.le_refl _)
  have hBids : (blockTblOf items).map (·.1) = List.range' 0 (blockFullsI items).length := List.map_fst_zip (by simp)
  have hlkL : LkL (lineTbl c items) (lineIds c items) (lineFullsI items) :=
    fun p hp => tbl_get_nodup (by rw [hLids]; exact h2) hp
  have hlkB : LkB (blockTblOf items) 0 (blockFullsI items) :=
    fun p hp => tbl_get_nodup (by rw [hBids]; exact List.nodup_range') hp
  have hdoc := doc_treeI (lineTbl c items) (blockTblOf items) items _ [] 0 1 h1 h3 hnb H.ok hlkL hlkB
  rw [← eD] at hdoc
  obtain ⟨fl, fb⟩ := fulls_okI items 1 1 H.wf H.ok
  have hLT : ∀ e ∈ lineTbl c items, e.1 ≤ 999999 ∧ LineFull e.2 := by
    intro e he
    obtain ⟨ha, hb⟩ := List.of_mem_zip (show (e.1, e.2) ∈ (lineIds c items).zip (lineFullsI items) from he)
    exact ⟨h3 _ ha, fl _ hb⟩
  have hBT : ∀ e ∈ blockTblOf items, e.1 ≤ 999999 ∧ BlockFull e.2 := by
    intro e he
    obtain ⟨ha, hb⟩ := List.of_mem_zip (show (e.1, e.2) ∈ (List.range' 0 (blockFullsI items).length).zip (blockFullsI items) from he)
    have := List.mem_range'_1.mp ha
    exact ⟨by have := H.nBlock; omega, fb _ hb⟩
  -- what is left keeps its comments
  have hndb : (idsT false (treeOf c items)).Nodup := by rw [hib]; exact List.nodup_range'
  have hndl : (idsT true (treeOf c items)).Nodup := by rw [hil]; exact h2
  have hkeepB : ∀ i ∈ idsT false (cleanT (lineTbl c items) (blockTblOf items) [] [] (treeOf c items)),
      (delIds (remB c items) (blockTblOf items)).get? i = (blockTblOf items).get? i := by
    intro i hi
    have hi' := (ids_cleanT_sublist _ _ false _ [] []).subset hi
    exact get_delIds _ _ ((part_block _ _ _ [] [] hndb i hi').mp hi)
  have hkeepL : ∀ i ∈ idsT true (cleanT (lineTbl c items) (blockTblOf items) [] [] (treeOf c items)),
      (delIds (remL c items) (lineTbl c items)).get? i = (lineTbl c items).get? i := by
    intro i hi
    have hi' := (ids_cleanT_sublist _ _ true _ [] []).subset hi
    exact get_delIds _ _ ((part_line _ _ _ [] [] hndl i hi').mp hi)
  have hw' := wsh_cleanT (lineTbl c items) (blockTblOf items) 1 (treeOf c items) [] [] hw
  have hcov' := cov_cleanT (treeOf c items) [] [] hdoc.1 hkeepL hkeepB
  have hho := hoist_eq (wsh_noIncl 1 _ hw')
  have hperm : (hoistPlaceholders (cleanT (lineTbl c items) (blockTblOf items) [] [] (treeOf c items))).Perm
      (cleanT (lineTbl c items) (blockTblOf items) [] [] (treeOf c items)) := by
    rw [hho]; exact List.filter_append_perm _ _
  have hbperm := bIds_perm 0 hperm
  rw [bIds_xtoks 1 0 _ hw'] at hbperm
  have hnd' : (idsT false (cleanT (lineTbl c items) (blockTblOf items) [] [] (treeOf c items))).Nodup :=
    (ids_cleanT_sublist _ _ false _ [] []).nodup hndb
  -- the first block comment
  have hfirst : FirstOK (delIds (remB c items) (blockTblOf items))
        (xtoksEs 0 (hoistPlaceholders (cleanT (lineTbl c items) (blockTblOf items) [] [] (treeOf c items)))) ∧
      ownHeader (delIds (remB c items) (blockTblOf items)) = ownHeaderI items := by
    cases hbf : blockFullsI items with
    | nil =>
      have hB0 : blockTblOf items = [] := by simp [blockTblOf, hbf]
      rw [hB0, delIds_nil]
      exact ⟨trivial, by simp [ownHeader, ownHeaderI, hbf]⟩
    | cons t r =>
      have hB : blockTblOf items = (0, t) :: (List.range' 1 r.length).zip r := by
        simp [blockTblOf, hbf, List.range'_succ]
      obtain ⟨rest, hrest⟩ := first_block items (lineIds c items) 0 1 H.ok H.first (by rw [hbf]; simp) (by omega)
      obtain ⟨rest', hrest'⟩ := first_block_kept (lineTbl c items) (blockTblOf items) 1 (treeOf c items) [] rest hw hrest
      have hh : hoistPlaceholders (cleanT (lineTbl c items) (blockTblOf items) [] [] (treeOf c items)) =
          phEntry false 0 :: (rest' ++ (cleanT (lineTbl c items) (blockTblOf items) [] [] (treeOf c items)).filter
            fun e => !isBE e) := by
        rw [hho, hrest']; rfl
      have hx := xtoks_phEntry 0 false (show 0 ≤ 999999 by omega)
        (rest' ++ (cleanT (lineTbl c items) (blockTblOf items) [] [] (treeOf c items)).filter fun e => !isBE e)
      have h0in : 0 ∈ idsT false (cleanT (lineTbl c items) (blockTblOf items) [] [] (treeOf c items)) := by
        apply hbperm.mem_iff.mp
        rw [hh, hx, bIds_phF]; exact List.mem_cons_self
      have h0not : 0 ∉ remB c items :=
        (part_block _ _ _ [] [] hndb 0 ((ids_cleanT_sublist _ _ false _ [] []).subset h0in)).mp h0in
      have hB' : delIds (remB c items) (blockTblOf items) = (0, t) :: delIds (remB c items) ((List.range' 1 r.length).zip r) := by
        rw [hB]; exact delIds_cons_notMem t _ _ h0not
      constructor
      · rw [hB', hh, hx]
        refine ⟨_, _, rfl, ?_⟩
        apply not_mem_bIds
        have hnd2 := hbperm.nodup_iff.mpr hnd'
        rw [hh, hx, bIds_phF, List.nodup_cons] at hnd2
        exact hnd2.1
      · rw [hB']; simp [ownHeader, ownHeaderI, hbf]
  have eData : (sdOf2 c items).data = cleanT (lineTbl c items) (blockTblOf items) [] [] (treeOf c items) := rfl
  have eL : (sdOf2 c items).lineC = delIds (remL c items) (lineTbl c items) := rfl
  have eB : (sdOf2 c items).blockC = delIds (remB c items) (blockTblOf items) := rfl
  have hindep : indepFrom [] ((blockTbl (delIds (remB c items) (blockTblOf items))).map (·.2)) = true := by
    have hk := kept_blocks HD
    have := H.indep
    simp only [writtenBlocks, ← hk] at this
    cases hB' : delIds (remB c items) (blockTblOf items) with
    | nil => simp [blockTbl, indepFrom]
    | cons e T =>
      obtain ⟨i0, t0⟩ := e
      rw [hB'] at this
      simpa [blockTbl] using this
  constructor
  · refine ⟨?_, ?_, ?_, ?_, ?_, ?_, hfirst.1, hindep, rfl⟩
    · rw [eData, hho, wshEs_append, wshEs_filter 1 _ _ hw', wshEs_filter 1 _ _ hw']; rfl
    · rw [eData, eL, eB, hho, phCov_append, phCov_filter _ _ _ _ hcov', phCov_filter _ _ _ _ hcov']; rfl
    · exact fun e he => hLT e ((delIds_sublist _ _).subset he)
    · exact fun e he => hBT e ((delIds_sublist _ _).subset he)
    · exact ((delIds_sublist _ _).map _).nodup (by rw [hBids]; exact List.nodup_range')
    · intro e he
      apply any_of_mem_bIds
      apply hbperm.mem_iff.mpr
      have hnot := delIds_notMem (remB c items) (by rw [hBids]; exact List.nodup_range') e he
      have hin : e.1 ∈ idsT false (treeOf c items) := by
        rw [hib, ← hBids]; exact List.mem_map_of_mem ((delIds_sublist _ _).subset he)
      exact (part_block _ _ _ [] [] hndb e.1 hin).mpr hnot
  · have hf := docEs_filter (delIds (remL c items) (lineTbl c items)) (delIds (remB c items) (blockTblOf items)) 1 _ hw'
    have hdc := doc_cleanT (L' := delIds (remL c items) (lineTbl c items)) (B' := delIds (remB c items) (blockTblOf items))
      (treeOf c items) [] [] hdoc.1
      (by
        intro i _ t ht
        obtain ⟨x, hx, _⟩ := (hLT _ (tbl_get_mem ht)).2
        exact ⟨x, hx⟩)
      (by
        intro i _ t ht
        obtain ⟨x, hx, _⟩ := (hBT _ (tbl_get_mem ht)).2
        exact ⟨x, hx⟩)
      hkeepL hkeepB
    simp only [List.map_nil] at hdc
    rw [docSD, eData, eL, eB, hho, docEs_append, hf.1, hf.2, hdc, hdoc.2, dedup_cnormI]
    simp only [hdrItems, hfirst.2, writtenDoc2, canonItems, dedupI]

/-- **M3, comments may repeat.**  The text written for `denC c items` is a layout of `writtenDoc2 items`: the
    document without the comments that repeat an earlier comment of their kind and level, in the writer's spelling,
    top-level block comments first, the default header in front unless the document has its own. -/
theorem C12_write_commented2 :
    ∃ gaps, fmtSD .native (denC c items) = some (spreadC (ctoksItems (writtenDoc2 items)) ([] :: gaps) ['\n']) ∧
      GapsOKC (ctoksItems (writtenDoc2 items)) (['\n'] :: gaps) ['\n'] = true := by
  obtain ⟨hwok, hdoc⟩ := sdOf2_facts H
  rw [denC_closed2 H.toHDoc2, ← hdoc]
  exact write_commented _ hwok

end

/-! ## 25. M4 when comments may repeat -/

mutual
  theorem wf_dedupV : ∀ (v : CSrc) (d : Nat), CSrcWFV d v = true → CSrcWFV d (dedupV v) = true
    | .lit l, _, h => by simpa only [dedupV] using h
    | .list xs, _, h => by simpa only [dedupV] using h
    | .dict items, d, h => by
      simp only [CSrcWFV] at h
      simp only [dedupV, CSrcWFV]
      exact wf_dedupI items (d + 1) [] [] h
  theorem wf_dedupI : ∀ (items : List CItem) (d : Nat) (sl sb : List Str), CSrcWFItems d items = true →
      CSrcWFItems d (dedupLvl sl sb items) = true
    | [], _, _, _, _ => by simp [dedupLvl, CSrcWFItems]
    | .entry k v :: r, d, sl, sb, h => by
      simp only [CSrcWFItems, Bool.and_eq_true] at h
      simp only [dedupLvl, CSrcWFItems, Bool.and_eq_true]
      exact ⟨⟨h.1.1, wf_dedupV v d h.1.2⟩, wf_dedupI r d sl sb h.2⟩
    | .lineC x :: r, d, sl, sb, h => by
      simp only [CSrcWFItems, Bool.and_eq_true] at h
      simp only [dedupLvl]
      split
      · exact wf_dedupI r d sl sb h.2
      · simp only [CSrcWFItems, Bool.and_eq_true]; exact ⟨h.1, wf_dedupI r d _ sb h.2⟩
    | .blockC x :: r, d, sl, sb, h => by
      simp only [CSrcWFItems, Bool.and_eq_true] at h
      simp only [dedupLvl]
      split
      · exact wf_dedupI r d sl sb h.2
      · simp only [CSrcWFItems, Bool.and_eq_true]; exact ⟨h.1, wf_dedupI r d sl _ h.2⟩
end

mutual
  theorem ok_dedupV : ∀ (v : CSrc) (d : Nat), okV d v = true → okV d (dedupV v) = true
    | .lit l, _, h => by simpa only [dedupV] using h
    | .list xs, _, h => by simpa only [dedupV] using h
    | .dict items, d, h => by
      simp only [okV] at h
      simp only [dedupV, okV]
      exact ok_dedupI items (d + 1) [] [] h
  theorem ok_dedupI : ∀ (items : List CItem) (d : Nat) (sl sb : List Str), okI d items = true →
      okI d (dedupLvl sl sb items) = true
    | [], _, _, _, _ => by simp [dedupLvl, okI]
    | .entry k v :: r, d, sl, sb, h => by
      simp only [okI, Bool.and_eq_true] at h
      simp only [dedupLvl, okI, Bool.and_eq_true]
      exact ⟨⟨h.1.1, ok_dedupV v d h.1.2⟩, ok_dedupI r d sl sb h.2⟩
    | .lineC x :: r, d, sl, sb, h => by
      simp only [okI, Bool.and_eq_true] at h
      simp only [dedupLvl]
      split
      · exact ok_dedupI r d sl sb h.2
      · simp only [okI, Bool.and_eq_true]; exact ⟨h.1, ok_dedupI r d _ sb h.2⟩
    | .blockC x :: r, d, sl, sb, h => by
      simp only [okI, Bool.and_eq_true] at h
      simp only [dedupLvl]
      split
      · exact ok_dedupI r d sl sb h.2
      · simp only [okI, Bool.and_eq_true]; exact ⟨h.1, ok_dedupI r d sl _ h.2⟩
end

theorem writtenDoc2_wf {c : Counter} {items : List CItem} (H : HW2 c items) :
    CSrcWFItems 1 (writtenDoc2 items) = true := by
  have h := cnorm_wfI (dedupI items) 1 (wf_dedupI items 1 [] [] H.wf) (ok_dedupI items 1 [] [] H.ok)
  simp only [writtenDoc2, canonItems]
  rw [wfI_append, wfI_append, wfI_filter 1 _ _ h, wfI_filter 1 _ _ h]
  split
  · simp [CSrcWFItems]
  · simp [CSrcWFItems, hdrBody_text]

/-- the texts without those seen before -/
def nubFrom : List Str → List Str → List Str
  | _, [] => []
  | seen, x :: r => if seen.contains x then nubFrom seen r else x :: nubFrom (seen ++ [x]) r

/-- what `dedupLvl` does to the comments of one level: each text once, at its first place; the entries stay -/
theorem lvl_dedup : ∀ (items : List CItem) (sl sb : List Str),
    lvlLines (dedupLvl sl sb items) = nubFrom sl (lvlLines items) ∧
    lvlBlocks (dedupLvl sl sb items) = nubFrom sb (lvlBlocks items) ∧
    levelKeys (dedupLvl sl sb items) = levelKeys items
  | [], _, _ => by simp [dedupLvl, lvlLines, lvlBlocks, levelKeys, nubFrom]
  | .entry k v :: r, sl, sb => by
    obtain ⟨a, b, c⟩ := lvl_dedup r sl sb
    simp only [dedupLvl, lvlLines, lvlBlocks, levelKeys, a, b, c]
    exact ⟨trivial, trivial, trivial⟩
  | .lineC x :: r, sl, sb => by
    simp only [dedupLvl, lvlLines, lvlBlocks, levelKeys, nubFrom]
    split
    · exact lvl_dedup r sl sb
    · obtain ⟨a, b, c⟩ := lvl_dedup r (sl ++ [x]) sb
      simp only [lvlLines, lvlBlocks, levelKeys, a, b, c]
      exact ⟨trivial, trivial, trivial⟩
  | .blockC x :: r, sl, sb => by
    simp only [dedupLvl, lvlLines, lvlBlocks, levelKeys, nubFrom]
    split
    · exact lvl_dedup r sl sb
    · obtain ⟨a, b, c⟩ := lvl_dedup r sl (sb ++ [x])
      simp only [lvlLines, lvlBlocks, levelKeys, a, b, c]
      exact ⟨trivial, trivial, trivial⟩

/-- the top level of the document written when comments may repeat -/
theorem writtenDoc2_top (items : List CItem) :
    (writtenDoc2 items).filter (fun it => !isBlockItem it) = (cnormI (dedupI items)).filter (fun it => !isBlockItem it) ∧
    (writtenDoc2 items).filter isBlockItem =
      (if ownHeaderI items then [] else [.blockC C12.hdrBody]) ++ (cnormI (dedupI items)).filter isBlockItem := by
  have h1 : ((cnormI (dedupI items)).filter isBlockItem).filter (fun it => !isBlockItem it) = [] := by
    simp [List.filter_filter]
  have h2 : ((cnormI (dedupI items)).filter (fun it => !isBlockItem it)).filter isBlockItem = [] := by
    simp [List.filter_filter]
  have h3 : ((cnormI (dedupI items)).filter isBlockItem).filter isBlockItem = (cnormI (dedupI items)).filter isBlockItem := by
    simp only [List.filter_filter, Bool.and_self]
  have h4 : ((cnormI (dedupI items)).filter (fun it => !isBlockItem it)).filter (fun it => !isBlockItem it) =
      (cnormI (dedupI items)).filter (fun it => !isBlockItem it) := by
    simp only [List.filter_filter, Bool.and_self]
  have hB : isBlockItem (.blockC C12.hdrBody) = true := rfl
  simp only [writtenDoc2, canonItems, List.filter_append, h1, h2, h3, h4, List.nil_append, List.append_nil]
  constructor
  · split
    · rfl
    · simp only [List.filter_cons, hB, Bool.not_true, Bool.false_eq_true, if_false, List.filter_nil, List.nil_append]
  · split
    · rfl
    · simp only [List.filter_cons, hB, if_true, List.filter_nil]

/-- **M4 `C12_roundtrip_commented2`, comments may repeat.**  Reading the written text (any valid counter) returns the
    meaning of `writtenDoc2 items`.  Its comments are those of `dedupI items` — per level and kind every text once, at
    its first place (`lvl_dedup`) —, each at its place among the entries of its level (`skel_cnormI`); at top level
    the block comments stand first, the default header in front of them unless the document has its own
    (`writtenDoc2_top`). -/
theorem C12_roundtrip_commented2 {c c₂ : Counter} {items : List CItem} (dir : Str) (H : HW2 c items)
    (hc₂ : C13.ValidCounter Gen.counterLimit c₂)
    (hn : C02.countQuotedEs (plainItems (writtenDoc2 items)) ≤ Gen.counterLimit + 1)
    (hd : C02.DocKeysAbsent (plainItems (writtenDoc2 items))) :
    ∃ text c', fmtSD .native (denC c items) = some text ∧
      parseNative true dir c₂ text = .ok (denC c₂ (writtenDoc2 items), c') ∧
      skelI (cnormI (dedupI items)) = skelI (dedupI items) := by
  obtain ⟨gaps, hw, hg⟩ := C12_write_commented2 H
  have hread := C12.C12_read_commented dir c₂ (writtenDoc2_wf H) hg (fun _ => by decide) hc₂ hn hd
  refine ⟨_, C02.adv Gen.counterLimit (C02.countQuotedEs (plainItems (writtenDoc2 items)))
    (labelCItems { counter := c₂ } (writtenDoc2 items)).1.counter, hw, ?_, skel_cnormI _⟩
  cases hct : ctoksItems (writtenDoc2 items) with
  | nil =>
    have e0 : ∀ g : List Str, spreadC [] g ['\n'] = ['\n'] := fun g => rfl
    rw [hct, e0] at hread
    rw [e0]
    exact hread
  | cons t ts =>
    have e : spreadC (t :: ts) (['\n'] :: gaps) ['\n'] = '\n' :: spreadC (t :: ts) ([] :: gaps) ['\n'] := by
      simp [spreadC, spread]
    rw [hct, e, parseNative_nl] at hread
    exact hread

/-! ## 26. M5 when comments repeat -/

/-- `/* C++ hdr */ // l1⏎ // l1⏎ /* b */ /* b */ a 1; // l2⏎ sub { // l1⏎ // l1⏎ }` -/
def exDup : List CItem :=
  [ .blockC " C++ hdr ".toList, .lineC " l1".toList, .lineC " l1".toList, .blockC " b ".toList, .blockC " b ".toList,
    .entry "a".toList (.lit (.bare "1".toList)), .lineC " l2".toList,
    .entry "sub".toList (.dict [.lineC " l1".toList, .lineC " l1".toList]) ]

theorem exDup_hw : HW2 none exDup :=
  ⟨⟨by decide +kernel, by decide +kernel, by decide +kernel, by decide +kernel, by decide +kernel, by decide +kernel,
    Or.inl rfl⟩, by decide +kernel, by decide +kernel⟩

/-- what is left of the comments: per level and kind each text once -/
theorem exDup_dedup : lvlLines (dedupI exDup) = [" l1".toList, " l2".toList] ∧
    lvlBlocks (dedupI exDup) = [" C++ hdr ".toList, " b ".toList] := by decide +kernel

def exDupData : Entries :=
  [ (.str "BLOCKCOMMENT000000".toList, .leaf (.str "BLOCKCOMMENT000000".toList)),
    (.str "BLOCKCOMMENT000001".toList, .leaf (.str "BLOCKCOMMENT000001".toList)),
    (.str "LINECOMMENT000000".toList, .leaf (.str "LINECOMMENT000000".toList)),
    (.str "a".toList, .leaf (.int 1)),
    (.str "LINECOMMENT000002".toList, .leaf (.str "LINECOMMENT000002".toList)),
    (.str "sub".toList, .dict [ (.str "LINECOMMENT000003".toList, .leaf (.str "LINECOMMENT000003".toList)) ]) ]

/-- the SDict the reader returns: the second `// l1`, the second `/* b */` and the second `// l1` inside `sub` are gone,
    from the data and from the tables -/
theorem exDup_sd : hoistPlaceholders (denC none exDup).data = exDupData ∧
    (denC none exDup).lineC = [(0, "// l1".toList), (2, "// l2".toList), (3, "// l1".toList)] ∧
    (denC none exDup).blockC = [(0, "/* C++ hdr */".toList), (1, "/* b */".toList)] ∧ (denC none exDup).incl = [] := by
  decide +kernel

theorem exDup_raw : fmtEntries .native 0 exDupData = C01.unlines
    ["BLOCKCOMMENT000000            BLOCKCOMMENT000000;",
     "BLOCKCOMMENT000001            BLOCKCOMMENT000001;",
     "LINECOMMENT000000             LINECOMMENT000000;",
     "a                             1;",
     "LINECOMMENT000002             LINECOMMENT000002;",
     "sub",
     "{",
     "    LINECOMMENT000003         LINECOMMENT000003;",
     "}"] := by
  simp only [exDupData, fmtEntries]
  decide +kernel

def exDupText : Str := C01.unlines
    ["/* C++ hdr */",
     "/* b */",
     "// l1",
     "a                             1;",
     "// l2",
     "sub",
     "{",
     "    // l1",
     "}"]

/-- the written text, by evaluation -/
theorem exDup_written : fmtSD .native (denC none exDup) = some exDupText := by
  obtain ⟨h1, h2, h3, h4⟩ := exDup_sd
  rw [fmtSD_noIncl _ h4, h1, h2, h3, exDup_raw]
  decide +kernel

theorem exDup_roundtrip (dir : Str) :
    ∃ c', parseNative true dir none exDupText = .ok (denC none (writtenDoc2 exDup), c') := by
  obtain ⟨text, c', h1, h2, _⟩ := C12_roundtrip_commented2 (c₂ := none) dir exDup_hw (Or.inl rfl) (by decide +kernel)
    (by decide +kernel)
  rw [exDup_written] at h1
  cases h1
  exact ⟨c', h2⟩

end DictIO.C12W
