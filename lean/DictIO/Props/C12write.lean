/-
  C12 -- the WRITER side of the comment round trip.
-/
import DictIO.Props.C12read
import DictIO.Props.C12hdr

namespace DictIO.C12W
open DictIO

set_option linter.unusedSimpArgs false
set_option linter.unusedVariables false

/-! ## 1. layouts of writer tokens -/

/-- what the writer emits between gaps: a source token, a comment (`full` = the complete text, delimiters included),
    or a placeholder entry line `PH<pad>PH;` that still waits for its comment -/
inductive XTok where
  | tok (t : STok)
  | cmt (line : Bool) (full : Str)
  | ph (line : Bool) (i : Nat) (pad : Str)
  deriving Repr, Inhabited

/-- the placeholder word: `LINECOMMENT%06d` / `BLOCKCOMMENT%06d` -/
def phWord (line : Bool) (i : Nat) : Str := (if line then kwLine else kwBlock) ++ padSix i

def XTok.text : XTok → Str
  | .tok t => t.text
  | .cmt _ full => full
  | .ph l i pad => phWord l i ++ pad ++ phWord l i ++ [';']

/-- what stands in front of a gap -/
inductive Ctx where
  | cov   -- the text in front ends with a line feed that belongs to the gap (or: nothing in front; see `okX_start`)
  | dl    -- a delimiter token
  | wd    -- a token that is no delimiter
  | ln    -- a line comment (or the placeholder line of one)
  | bk    -- a block comment (or the placeholder line of one)
  deriving DecidableEq, Repr

def isCommentX : XTok → Bool
  | .tok _ => false
  | _ => true

def ctxAfter : XTok → Ctx
  | .tok t => if isDelimSTok t then .dl else .wd
  | .cmt true _ => .ln
  | .cmt false _ => .bk
  | .ph true _ _ => .ln
  | .ph false _ _ => .bk

def isDelimX : XTok → Bool
  | .tok t => isDelimSTok t
  | _ => false

/-- the condition on the gap in front of token `t`, given what stands in front of the gap -/
def gapOK : Ctx → XTok → Str → Bool
  | .cov, _, _ => true
  | .dl, t, g => !isCommentX t || !g.isEmpty
  | .wd, t, g => isDelimX t || !g.isEmpty
  | .bk, _, g => !g.isEmpty
  | .ln, _, g => g.head? == some '\n'

def layX : List (Str × XTok) → Str → Str
  | [], tail => tail
  | (g, t) :: l, tail => g ++ t.text ++ layX l tail

def okX (c : Ctx) : List (Str × XTok) → Bool
  | [] => true
  | (g, t) :: l => g.all isWs && gapOK c t g && okX (ctxAfter t) l

def lastCtx (c : Ctx) : List XTok → Ctx
  | [] => c
  | t :: ts => lastCtx (ctxAfter t) ts

theorem layX_tail : ∀ (l : List (Str × XTok)) (tail : Str), layX l tail = layX l [] ++ tail
  | [], _ => rfl
  | (g, t) :: l, tail => by simp only [layX, layX_tail l tail, List.append_assoc]

theorem layX_append (l1 l2 : List (Str × XTok)) (tail : Str) : layX (l1 ++ l2) tail = layX l1 [] ++ layX l2 tail := by
  induction l1 with
  | nil => rfl
  | cons p l1 ih => obtain ⟨g, t⟩ := p; simp only [List.cons_append, layX, ih, List.append_assoc]

theorem lastCtx_append (c : Ctx) (ts us : List XTok) : lastCtx c (ts ++ us) = lastCtx (lastCtx c ts) us := by
  induction ts generalizing c with
  | nil => rfl
  | cons t ts ih => simp only [List.cons_append, lastCtx, ih]

theorem okX_append (c : Ctx) (l1 l2 : List (Str × XTok)) :
    okX c (l1 ++ l2) = (okX c l1 && okX (lastCtx c (l1.map Prod.snd)) l2) := by
  induction l1 generalizing c with
  | nil => simp [okX, lastCtx]
  | cons p l1 ih => obtain ⟨g, t⟩ := p; simp only [List.cons_append, okX, ih, List.map_cons, lastCtx, Bool.and_assoc]

/-- a gap that starts with a line feed satisfies every condition -/
theorem gapOK_nl (c : Ctx) (t : XTok) (g : Str) : gapOK c t ('\n' :: g) = true := by
  cases c <;> simp [gapOK]

/-- a non-empty gap satisfies every condition except the one behind a line comment -/
theorem gapOK_ne {c : Ctx} (hc : c ≠ .ln) (t : XTok) {g : Str} (hg : g ≠ []) : gapOK c t g = true := by
  cases c <;> simp_all [gapOK]

/-- `txt` is the layout of the tokens `xs` with final gap `tail`, admissible given what stands in front -/
def LaysX (c : Ctx) (xs : List XTok) (txt tail : Str) : Prop :=
  ∃ l, l.map Prod.snd = xs ∧ txt = layX l tail ∧ okX c l = true ∧ tail.all isWs = true

theorem LaysX.tok (c : Ctx) {g tail : Str} (t : XTok) (hg : g.all isWs = true) (ht : tail.all isWs = true)
    (hok : gapOK c t g = true) : LaysX c [t] (g ++ t.text ++ tail) tail :=
  ⟨[(g, t)], rfl, rfl, by simp [okX, hg, hok], ht⟩

/-- concatenation: the final gap of the first text joins the first gap of the second -/
theorem LaysX.append {c c2 : Ctx} {xs ys : List XTok} {a b t1 t2 : Str} (ha : LaysX c xs a t1) (hb : LaysX c2 ys b t2)
    (hne : ys ≠ [])
    (hc : ∀ u g, g.all isWs = true → gapOK c2 u g = true → gapOK (lastCtx c xs) u (t1 ++ g) = true) :
    LaysX c (xs ++ ys) (a ++ b) t2 := by
  obtain ⟨l1, rfl, rfl, ok1, ht1⟩ := ha
  obtain ⟨l2, rfl, rfl, ok2, ht2⟩ := hb
  cases l2 with
  | nil => exact absurd rfl hne
  | cons p l2 =>
    obtain ⟨g, t⟩ := p
    refine ⟨l1 ++ (t1 ++ g, t) :: l2, by simp, ?_, ?_, ht2⟩
    · rw [layX_append, layX_tail l1 t1]
      simp [layX]
    · rw [okX_append, ok1, Bool.true_and]
      simp only [okX, Bool.and_eq_true, List.all_append] at ok2 ⊢
      exact ⟨⟨⟨ht1, ok2.1.1⟩, hc t g ok2.1.1 ok2.1.2⟩, ok2.2⟩

/-- the same when the second text holds no token: it is all gap -/
theorem LaysX.append_nil {c c2 : Ctx} {xs : List XTok} {a b t1 t2 : Str} (ha : LaysX c xs a t1) (hb : LaysX c2 [] b t2) :
    LaysX c xs (a ++ b) (t1 ++ t2) := by
  obtain ⟨l1, rfl, rfl, ok1, ht1⟩ := ha
  obtain ⟨l2, h2, rfl, ok2, ht2⟩ := hb
  cases l2 with
  | cons p l2 => cases h2
  | nil =>
    refine ⟨l1, rfl, ?_, ok1, by simp [ht1, ht2]⟩
    rw [layX_tail l1 t1, layX_tail l1 (t1 ++ t2)]
    simp [layX]

/-! ### layouts of source tokens (`C01.Lays`) are layouts of writer tokens -/

def liftP (l : List (Str × STok)) : List (Str × XTok) := l.map fun p => (p.1, XTok.tok p.2)

theorem layX_lift : ∀ (l : List (Str × STok)) (tail : Str), layX (liftP l) tail = C01.layP l tail
  | [], _ => rfl
  | (g, t) :: l, tail => by
    have := layX_lift l tail
    simp only [liftP] at this
    simp only [liftP, List.map_cons, layX, C01.layP, XTok.text, this]

theorem okX_lift : ∀ (l : List (Str × STok)) (pd : Bool) (c : Ctx), C01.okFrom pd l = true →
    (c = .cov ∨ (c = .dl ∧ pd = true) ∨ (c = .wd ∧ pd = false) ∨ (c = .dl ∧ pd = false)) → okX c (liftP l) = true
  | [], _, _, _, _ => rfl
  | (g, t) :: l, pd, c, h, hc => by
    simp only [C01.okFrom, Bool.and_eq_true, Bool.or_eq_true, Bool.not_eq_true'] at h
    have ih := okX_lift l (isDelimSTok t) (ctxAfter (.tok t)) h.2 (by
      cases hd : isDelimSTok t <;> simp [ctxAfter, hd])
    simp only [liftP] at ih
    simp only [liftP, List.map_cons, okX, Bool.and_eq_true, ih, and_true, h.1.1, true_and]
    rcases hc with rfl | ⟨rfl, rfl⟩ | ⟨rfl, rfl⟩ | ⟨rfl, rfl⟩
    · rfl
    · simp [gapOK, isCommentX]
    · simp only [gapOK, isDelimX, Bool.or_eq_true, Bool.not_eq_true']
      rcases h.1.2 with (h' | h') | h'
      · cases h'
      · exact Or.inl h'
      · exact Or.inr h'
    · simp [gapOK, isCommentX]

theorem LaysX.of_lays {pd : Bool} {ts : List STok} {txt : Str} (c : Ctx) (h : C01.Lays pd ts txt)
    (hc : c = .cov ∨ (c = .dl ∧ pd = true) ∨ (c = .wd ∧ pd = false) ∨ (c = .dl ∧ pd = false)) :
    ∃ tail, LaysX c (ts.map .tok) txt tail := by
  obtain ⟨l, tail, rfl, rfl, ok, ht⟩ := h
  refine ⟨tail, liftP l, by simp [liftP], (layX_lift l tail).symm, okX_lift l pd c ok hc, ht⟩

theorem lastCtx_toks (c : Ctx) : ∀ (ts : List STok), lastCtx c (ts.map XTok.tok) = c ∨
    lastCtx c (ts.map XTok.tok) = .dl ∨ lastCtx c (ts.map XTok.tok) = .wd
  | [] => Or.inl rfl
  | t :: ts => by
    simp only [List.map_cons, lastCtx]
    rcases lastCtx_toks (ctxAfter (.tok t)) ts with h | h | h
    · rw [h]; cases hd : isDelimSTok t <;> simp [ctxAfter, hd]
    · exact Or.inr (Or.inl h)
    · exact Or.inr (Or.inr h)

end DictIO.C12W
