/-
  C13 on the API state machine (`Model/Api.lean`): the file system after any history of API calls.

  Unlike `Props/C13.lean` (which speaks about the *order* of effects of one call), these theorems are about the
  state: the world `apiStep` returns, for every world, every operation and every history, with the real model
  functions (`readFile`, `writeText`, `fmtSD`, `targetName`) underneath.

    * `read_pure`, `load_pure`, `reset_pure`     reads (and `load`, `reset`) leave every file as it was;
    * `step_frame`                              one call changes at most the file `op.target` names;
    * `step_fail_safe`                          a call that does not complete leaves the whole world as it was;
    * `step_done_target`                        a completed write/dump/parse leaves a native text in its target;
    * `step_paths`                              a call creates at most one new path, and removes none;
    * `run_frame`, `run_paths`                  the same for every history (induction over the op list);
    * `parse_target_same_folder`, `parse_target_name`  the file `parse` writes is in the source's folder and is
                                                 named by `targetName` with prefix `parsed`.
-/
import DictIO.Model.Api

namespace DictIO
namespace C13api

/-! ## helper lemmas: the association-list file system -/

theorem get_nil (p : Comps) : FS.get [] p = none := rfl

theorem get_cons (e : Comps × FileBody) (fs : FS) (p : Comps) :
    FS.get (e :: fs) p = if e.1 == p then some e.2 else FS.get fs p := by
  unfold FS.get
  by_cases h : e.1 == p <;> simp [List.find?, h]

theorem get_append_single_ne (fs : FS) {p q : Comps} (b : FileBody) (h : q ≠ p) :
    FS.get (fs ++ [(p, b)]) q = FS.get fs q := by
  induction fs with
  | nil =>
    have : ((p == q) = false) := by simpa using (fun hh : p = q => h hh.symm)
    simp [get_cons, get_nil, this]
  | cons e fs ih => simp only [List.cons_append, get_cons, ih]

theorem get_append_single_self (fs : FS) (p : Comps) (b : FileBody) (h : fs.any (fun e => e.1 == p) = false) :
    FS.get (fs ++ [(p, b)]) p = some b := by
  induction fs with
  | nil => simp [get_cons]
  | cons e fs ih =>
    simp only [List.any_cons, Bool.or_eq_false_iff] at h
    simp only [List.cons_append, get_cons, h.1, ih h.2]
    simp

theorem get_map_set_ne (fs : FS) {p q : Comps} (b : FileBody) (h : q ≠ p) :
    FS.get (fs.map (fun e => if e.1 == p then (p, b) else e)) q = FS.get fs q := by
  induction fs with
  | nil => rfl
  | cons e fs ih =>
    simp only [List.map_cons, get_cons, ih]
    by_cases he : e.1 == p
    · have e1 : e.1 = p := by simpa using he
      have hpq : (p == q) = false := by simpa using (fun hh : p = q => h hh.symm)
      have heq : (e.1 == q) = false := by rw [e1]; exact hpq
      simp [he, hpq, heq]
    · simp [he]

theorem get_map_set_self (fs : FS) (p : Comps) (b : FileBody) (h : fs.any (fun e => e.1 == p) = true) :
    FS.get (fs.map (fun e => if e.1 == p then (p, b) else e)) p = some b := by
  induction fs with
  | nil => simp at h
  | cons e fs ih =>
    simp only [List.map_cons, get_cons]
    by_cases he : e.1 == p
    · simp [he]
    · simp only [List.any_cons, he, Bool.false_or] at h
      have := ih h
      simp only [he, Bool.false_eq_true, if_false]
      exact this

theorem get_set_ne (fs : FS) {p q : Comps} (b : FileBody) (h : q ≠ p) : (fs.set p b).get q = fs.get q := by
  unfold FS.set
  split
  · exact get_map_set_ne fs b h
  · exact get_append_single_ne fs b h

theorem get_set_self (fs : FS) (p : Comps) (b : FileBody) : (fs.set p b).get p = some b := by
  unfold FS.set
  split
  · next h => exact get_map_set_self fs p b h
  · next h => exact get_append_single_self fs p b (Bool.eq_false_iff.mpr h)

/-- the paths of a file system -/
def paths (fs : FS) : List Comps := fs.map (·.1)

theorem paths_map_set (fs : FS) (p : Comps) (b : FileBody) :
    paths (fs.map (fun e => if e.1 == p then (p, b) else e)) = paths fs := by
  induction fs with
  | nil => rfl
  | cons e fs ih =>
    simp only [paths, List.map_cons] at ih ⊢
    rw [ih]
    by_cases he : e.1 == p
    · have : e.1 = p := by simpa using he
      simp [he, this]
    · simp [he]

/-- `set` keeps every path where it was and adds at most the one it sets, at the end -/
theorem paths_set (fs : FS) (p : Comps) (b : FileBody) :
    paths (fs.set p b) = paths fs ∨ (p ∉ paths fs ∧ paths (fs.set p b) = paths fs ++ [p]) := by
  unfold FS.set
  split
  · exact .inl (paths_map_set fs p b)
  · next h =>
    refine .inr ⟨?_, by simp [paths]⟩
    intro hm
    apply h
    simp only [paths, List.mem_map] at hm
    obtain ⟨e, he, hp⟩ := hm
    exact List.any_eq_true.mpr ⟨e, he, by simp [hp]⟩

/-! ## one call -/

/-- the operations that are reads -/
def IsReadOp : ApiOp → Prop
  | .read _ _ => True
  | .load _ => True
  | .reset => True
  | _ => False

/-- **reads write nothing**: after `read`, `load` or `reset` the file system is the one before, whatever is returned -/
theorem read_pure (ev : Str → EvalResult) (w : World) (op : ApiOp) (h : IsReadOp op) : (apiStep ev w op).1.fs = w.fs := by
  cases op with
  | read p o =>
    simp only [apiStep]
    split
    · rfl
    · split <;> rfl
  | load p =>
    simp only [apiStep]
    split
    · rfl
    · split <;> rfl
  | reset => rfl
  | write _ _ _ _ => exact h.elim
  | dump _ _ => exact h.elim
  | parse _ _ _ _ => exact h.elim

theorem writeTo_fs (ev : Str → EvalResult) (w : World) (target : Comps) (mode : Str) (order : Bool) (a : Arg) :
    (writeTo ev w target mode order a).1 = w ∨
    ∃ t c', writeTo ev w target mode order a = ({ fs := w.fs.set (resolveSpelled target) (.native t), c := c' }, .done) := by
  unfold writeTo
  split
  · exact .inl rfl
  · next t c' _ => exact .inr ⟨t, c', rfl⟩

/-- `writeTo` spelled out on the two outcomes of `writeText` -/
theorem writeTo_error {ev : Str → EvalResult} {w : World} {target : Comps} {mode : Str} {order : Bool} {a : Arg} {e : ParseErr}
    (h : writeText ev w.fs target mode order a w.c = .error e) : writeTo ev w target mode order a = (w, .gaveUp e) := by
  simp [writeTo, h]

theorem writeTo_ok {ev : Str → EvalResult} {w : World} {target : Comps} {mode : Str} {order : Bool} {a : Arg} {t : Str} {c' : Counter}
    (h : writeText ev w.fs target mode order a w.c = .ok (t, c')) :
    writeTo ev w target mode order a = ({ fs := w.fs.set (resolveSpelled target) (.native t), c := c' }, .done) := by
  simp [writeTo, h]

/-- what one call can do to the world: nothing to the files, or exactly one `set` of a native text at its target -/
theorem step_cases (ev : Str → EvalResult) (w : World) (op : ApiOp) :
    (apiStep ev w op).1.fs = w.fs ∨
    ∃ tgt t, op.target = some tgt ∧ (apiStep ev w op).1.fs = w.fs.set tgt (.native t) := by
  cases op with
  | read p o => exact .inl (read_pure ev w _ trivial)
  | load p => exact .inl (read_pure ev w _ trivial)
  | reset => exact .inl rfl
  | write a target mode order =>
    simp only [apiStep, ApiOp.target]
    rcases writeTo_fs ev w target mode order a with h | ⟨t, c', h⟩
    · exact .inl (by rw [h])
    · exact .inr ⟨_, t, rfl, by rw [h]⟩
  | dump s target =>
    simp only [apiStep, ApiOp.target]
    rcases writeTo_fs ev w target ['a'] false (.sd s) with h | ⟨t, c', h⟩
    · exact .inl (by rw [h])
    · exact .inr ⟨_, t, rfl, by rw [h]⟩
  | parse src o mode output =>
    cases hg : w.fs.get (resolveSpelled src) with
    | none => exact .inl (by simp [apiStep, hg])
    | some b =>
      cases hr : readFile ev w.fs o w.c src with
      | error e => exact .inl (by simp [apiStep, hg, hr])
      | ok r =>
        cases r with
        | exit1 => exact .inl (by simp [apiStep, hg, hr])
        | ok sd c' =>
          cases hw : writeText ev w.fs (parseTarget src o.scope output) mode o.order (.sd sd) c' with
          | error e =>
            have := writeTo_error (ev := ev) (w := { w with c := c' }) hw
            exact .inl (by simp [apiStep, hg, hr, this])
          | ok r =>
            obtain ⟨t, c''⟩ := r
            have := writeTo_ok (ev := ev) (w := { w with c := c' }) hw
            exact .inr ⟨_, t, rfl, by simp [apiStep, hg, hr, this]⟩

/-- **writes touch only their target**: every other path holds after the call exactly what it held before
    (present or absent, byte for byte) -/
theorem step_frame (ev : Str → EvalResult) (w : World) (op : ApiOp) (p : Comps) (h : op.target ≠ some p) :
    (apiStep ev w op).1.fs.get p = w.fs.get p := by
  rcases step_cases ev w op with h0 | ⟨tgt, t, ht, hs⟩
  · rw [h0]
  · rw [hs]
    exact get_set_ne _ _ (fun hp => h (by rw [ht, hp]))

/-- a call completed iff it returned data (`read`, `load`, `parse`) or `done` (`write`, `dump`, `reset`) -/
def Completed : ApiOut → Prop
  | .data _ => True
  | .done => True
  | _ => False

/-- **failures destroy nothing**: a call that ends in `FileNotFoundError`, `sys.exit(1)` or inside a serialiser
    leaves the whole world — every file and the target in particular — as it was -/
theorem step_fail_safe (ev : Str → EvalResult) (w : World) (op : ApiOp) (h : ¬ Completed (apiStep ev w op).2) :
    (apiStep ev w op).1 = w := by
  cases op with
  | read p o =>
    cases hg : w.fs.get (resolveSpelled p) with
    | none => simp [apiStep, hg]
    | some b =>
      cases hr : readFile ev w.fs o w.c p with
      | error e => simp [apiStep, hg, hr]
      | ok r =>
        cases r with
        | exit1 => simp [apiStep, hg, hr]
        | ok sd c' => simp [apiStep, hg, hr, Completed] at h
  | load p =>
    cases hg : w.fs.get (resolveSpelled p) with
    | none => simp [apiStep, hg]
    | some b =>
      cases hr : readFile ev w.fs {} w.c p with
      | error e => simp [apiStep, hg, hr]
      | ok r =>
        cases r with
        | exit1 => simp [apiStep, hg, hr]
        | ok sd c' => simp [apiStep, hg, hr, Completed] at h
  | reset => simp [apiStep, Completed] at h
  | write a target mode order =>
    cases hw : writeText ev w.fs target mode order a w.c with
    | error e => simp [apiStep, writeTo_error hw]
    | ok r => obtain ⟨t, c'⟩ := r; simp [apiStep, writeTo_ok hw, Completed] at h
  | dump s target =>
    cases hw : writeText ev w.fs target ['a'] false (.sd s) w.c with
    | error e => simp [apiStep, writeTo_error hw]
    | ok r => obtain ⟨t, c'⟩ := r; simp [apiStep, writeTo_ok hw, Completed] at h
  | parse src o mode output =>
    cases hg : w.fs.get (resolveSpelled src) with
    | none => simp [apiStep, hg]
    | some b =>
      cases hr : readFile ev w.fs o w.c src with
      | error e => simp [apiStep, hg, hr]
      | ok r =>
        cases r with
        | exit1 => simp [apiStep, hg, hr]
        | ok sd c' =>
          cases hw : writeText ev w.fs (parseTarget src o.scope output) mode o.order (.sd sd) c' with
          | error e =>
            have := writeTo_error (ev := ev) (w := { w with c := c' }) hw
            simp [apiStep, hg, hr, this]
          | ok r =>
            obtain ⟨t, c''⟩ := r
            have := writeTo_ok (ev := ev) (w := { w with c := c' }) hw
            simp [apiStep, hg, hr, this, Completed] at h

/-- a completed `write`, `dump` or `parse` leaves a native text in its target -/
theorem step_done_target (ev : Str → EvalResult) (w : World) (op : ApiOp) (tgt : Comps) (ht : op.target = some tgt)
    (h : Completed (apiStep ev w op).2) : ∃ t, (apiStep ev w op).1.fs.get tgt = some (.native t) := by
  cases op with
  | read p o => simp [ApiOp.target] at ht
  | load p => simp [ApiOp.target] at ht
  | reset => simp [ApiOp.target] at ht
  | write a target mode order =>
    simp only [ApiOp.target, Option.some.injEq] at ht
    cases hw : writeText ev w.fs target mode order a w.c with
    | error e => simp [apiStep, writeTo_error hw, Completed] at h
    | ok r =>
      obtain ⟨t, c'⟩ := r
      exact ⟨t, by simp only [apiStep, writeTo_ok hw]; rw [← ht]; exact get_set_self _ _ _⟩
  | dump s target =>
    simp only [ApiOp.target, Option.some.injEq] at ht
    cases hw : writeText ev w.fs target ['a'] false (.sd s) w.c with
    | error e => simp [apiStep, writeTo_error hw, Completed] at h
    | ok r =>
      obtain ⟨t, c'⟩ := r
      exact ⟨t, by simp only [apiStep, writeTo_ok hw]; rw [← ht]; exact get_set_self _ _ _⟩
  | parse src o mode output =>
    simp only [ApiOp.target, Option.some.injEq] at ht
    cases hg : w.fs.get (resolveSpelled src) with
    | none => simp [apiStep, hg, Completed] at h
    | some b =>
      cases hr : readFile ev w.fs o w.c src with
      | error e => simp [apiStep, hg, hr, Completed] at h
      | ok r =>
        cases r with
        | exit1 => simp [apiStep, hg, hr, Completed] at h
        | ok sd c' =>
          cases hw : writeText ev w.fs (parseTarget src o.scope output) mode o.order (.sd sd) c' with
          | error e =>
            have := writeTo_error (ev := ev) (w := { w with c := c' }) hw
            simp [apiStep, hg, hr, this, Completed] at h
          | ok r =>
            obtain ⟨t, c''⟩ := r
            have := writeTo_ok (ev := ev) (w := { w with c := c' }) hw
            refine ⟨t, ?_⟩
            simp only [apiStep, hg, hr, this]
            rw [← ht]; exact get_set_self _ _ _

/-- **a call creates at most one path and removes none** -/
theorem step_paths (ev : Str → EvalResult) (w : World) (op : ApiOp) :
    paths (apiStep ev w op).1.fs = paths w.fs ∨
    ∃ tgt, op.target = some tgt ∧ tgt ∉ paths w.fs ∧ paths (apiStep ev w op).1.fs = paths w.fs ++ [tgt] := by
  rcases step_cases ev w op with h0 | ⟨tgt, t, ht, hs⟩
  · exact .inl (by rw [h0])
  · rw [hs]
    rcases paths_set w.fs tgt (.native t) with h | ⟨hn, h⟩
    · exact .inl h
    · exact .inr ⟨tgt, ht, hn, h⟩

/-! ## every history -/

theorem apiRun_cons (ev : Str → EvalResult) (w : World) (op : ApiOp) (ops : List ApiOp) :
    apiRun ev w (op :: ops) =
      ((apiRun ev (apiStep ev w op).1 ops).1, (apiStep ev w op).2 :: (apiRun ev (apiStep ev w op).1 ops).2) := rfl

/-- **for every history of API calls**: a path that is not the target of any call in the history holds at the end
    exactly what it held at the start.  In particular sources and included files are byte for byte unchanged as long
    as nobody names them as a target, and a history of reads, loads and resets changes no file at all. -/
theorem run_frame (ev : Str → EvalResult) (p : Comps) : ∀ (ops : List ApiOp) (w : World),
    (∀ op ∈ ops, op.target ≠ some p) → (apiRun ev w ops).1.fs.get p = w.fs.get p
  | [], _, _ => rfl
  | op :: ops, w, h => by
    rw [apiRun_cons]
    simp only
    rw [run_frame ev p ops _ (fun o ho => h o (List.mem_cons_of_mem _ ho))]
    exact step_frame ev w op p (h op List.mem_cons_self)

/-- a history of reads changes nothing at all -/
theorem run_read_pure (ev : Str → EvalResult) : ∀ (ops : List ApiOp) (w : World),
    (∀ op ∈ ops, IsReadOp op) → (apiRun ev w ops).1.fs = w.fs
  | [], _, _ => rfl
  | op :: ops, w, h => by
    rw [apiRun_cons]
    simp only
    rw [run_read_pure ev ops _ (fun o ho => h o (List.mem_cons_of_mem _ ho))]
    exact read_pure ev w op (h op List.mem_cons_self)

/-- **no file is ever deleted, and every new file is the target of some call of the history** -/
theorem run_paths (ev : Str → EvalResult) : ∀ (ops : List ApiOp) (w : World),
    ∃ new : List Comps, paths (apiRun ev w ops).1.fs = paths w.fs ++ new ∧
      (∀ q ∈ new, ∃ op ∈ ops, op.target = some q) ∧ new.length ≤ ops.length
  | [], w => ⟨[], by simp [apiRun], by simp, by simp⟩
  | op :: ops, w => by
    rw [apiRun_cons]
    simp only
    obtain ⟨new, hp, hn, hl⟩ := run_paths ev ops (apiStep ev w op).1
    rcases step_paths ev w op with h | ⟨tgt, ht, _, h⟩
    · refine ⟨new, by rw [hp, h], fun q hq => ?_, by simp; omega⟩
      obtain ⟨o, ho, hq⟩ := hn q hq
      exact ⟨o, List.mem_cons_of_mem _ ho, hq⟩
    · refine ⟨tgt :: new, by rw [hp, h]; simp, fun q hq => ?_, by simp; omega⟩
      rcases List.mem_cons.mp hq with rfl | hq
      · exact ⟨op, List.mem_cons_self, ht⟩
      · obtain ⟨o, ho, hq⟩ := hn q hq
        exact ⟨o, List.mem_cons_of_mem _ ho, hq⟩

/-! ## the name `parse` derives -/

/-- the file `parse` writes lies in the folder of the source … -/
theorem parse_target_same_folder (src : Comps) (scope : List Key) (output : Option Str) (h : src ≠ []) :
    (parseTarget src scope output).dropLast = src.dropLast := by
  unfold parseTarget
  cases hl : src.getLast? with
  | none => exact absurd (List.getLast?_eq_none_iff.mp hl) h
  | some name => simp

/-- … and is named by `create_target_file_name` with prefix `parsed`, the scope keys as `str(key)`, and the output format -/
theorem parse_target_name (dir : Comps) (name : Str) (scope : List Key) (output : Option Str) :
    parseTarget (dir ++ [name]) scope output =
      dir ++ [targetName name (some "parsed".toList) (scope.map keyText) output] := by
  simp [parseTarget]

/-! ## non-vacuity: a concrete history -/

def exSrc : Comps := ["w".toList, "case".toList]
def exWorld : World := { fs := [(exSrc, .native "a 1;\nb { c 2; }\n".toList), (["w".toList, "other".toList], .native "x 1;".toList)] }
def exOps : List ApiOp := [.parse exSrc {} ['w'] none, .read exSrc {}, .write (.plain [(.str "k".toList, .leaf (.int 5))]) ["w".toList, "out".toList] ['a'] false]

/-- the history completes, creates exactly `parsed.case` and `out`, and leaves `case` and `other` alone -/
example : paths (apiRun evalInt exWorld exOps).1.fs =
    [exSrc, ["w".toList, "other".toList], ["w".toList, "parsed.case".toList], ["w".toList, "out".toList]] := by
  decide +kernel

example : (apiRun evalInt exWorld exOps).2.all (fun o => match o with | .data _ => true | .done => true | _ => false) = true := by
  decide +kernel

end C13api
end DictIO
